(* Two stores with the same decoded views take the same decisions, step after step. *)
From DV Require Import Model.Instance Proofs.AssocFacts Proofs.RulesProofs Proofs.RulerProofs.
Local Open Scope Z_scope.

Lemma sv_sym s1 s2 : same_view s1 s2 -> same_view s2 s1.
Proof. intros [A P]. split; intros k; [now rewrite A|now rewrite P]. Qed.

Lemma sv_put_att s1 s2 k a : same_view s1 s2 -> same_view (put_att s1 k a) (put_att s2 k a).
Proof. intros [A P]. split; intros k'; [rewrite !view_att_put_att, A; reflexivity|rewrite !view_prop_put_att; apply P]. Qed.
Lemma sv_put_prop s1 s2 k z : same_view s1 s2 -> same_view (put_prop s1 k z) (put_prop s2 k z).
Proof. intros [A P]. split; intros k'; [rewrite !view_att_put_prop; apply A|rewrite !view_prop_put_prop, P; reflexivity]. Qed.

Definition congr {R} (f : store -> R * store) : Prop :=
  forall s1 s2, same_view s1 s2 -> fst (f s1) = fst (f s2) /\ same_view (snd (f s1)) (snd (f s2)).

Lemma on_att_congr c f r : congr (fun st => on_att c st f r).
Proof.
  intros s1 s2 H. unfold on_att. destruct (fetch_fails f 0); [cbn; auto|].
  destruct H as [A P]. rewrite (A (r_key r)).
  destruct (att_checks c (r_dom r) (view_att s1 (r_key r)) (r_src r) (r_tgt r)) as [res a'].
  destruct res; cbn; try (split; [reflexivity|split; assumption]).
  destruct (f_store f); cbn; (split; [reflexivity|]); [split; assumption|].
  apply sv_put_att. split; assumption.
Qed.

Lemma store_all_congr l : forall s1 s2, same_view s1 s2 -> same_view (store_all s1 l) (store_all s2 l).
Proof.
  unfold store_all. induction l as [|[k a] l IH]; intros s1 s2 H; cbn; auto. apply IH. now apply sv_put_att.
Qed.

Lemma on_atts_congr c f rs : congr (fun st => on_atts c st f rs).
Proof.
  intros s1 s2 H. unfold on_atts. destruct (existsb _ _); [cbn; auto|].
  assert (E : map (fun r => att_checks c (r_dom r) (view_att s1 (r_key r)) (r_src r) (r_tgt r)) rs =
              map (fun r => att_checks c (r_dom r) (view_att s2 (r_key r)) (r_src r) (r_tgt r)) rs).
  { apply map_ext. intros r. destruct H as [A _]. now rewrite (A (r_key r)). }
  rewrite <- E. destruct (_ || _); cbn; [auto|]. split; [reflexivity|]. now apply store_all_congr.
Qed.

Lemma on_prop_congr c f r : congr (fun st => on_prop c st f r).
Proof.
  intros s1 s2 H. unfold on_prop. destruct (negb _); [cbn; auto|]. destruct (fetch_fails f 0); [cbn; auto|].
  destruct H as [A P]. rewrite (P (p_key r)).
  destruct (_ && _); [cbn; split; [reflexivity|split; assumption]|].
  destruct (_ && _); [cbn; split; [reflexivity|split; assumption]|].
  destruct (f_store f); cbn; (split; [reflexivity|]); [split; assumption|].
  apply sv_put_prop. split; assumption.
Qed.

Lemma ruler_atts_congr c ok f rs : congr (fun st => ruler_atts c st ok f rs).
Proof.
  intros s1 s2 H. unfold ruler_atts. destruct rs as [|r [|r2 rs]]; [cbn; auto| |].
  - destruct ok; [|cbn; auto]. destruct (on_att_congr c f r s1 s2 H) as [E1 E2].
    destruct (on_att c s1 f r) as [x1 t1]. destruct (on_att c s2 f r) as [x2 t2]. cbn in *. subst. auto.
  - destruct (first_dup _); [cbn; auto|]. destruct ok; [|cbn; auto]. now apply on_atts_congr.
Qed.

Lemma ruler_prop_congr c ok f r : congr (fun st => ruler_prop c st ok f r).
Proof.
  intros s1 s2 H. unfold ruler_prop. destruct ok; [|cbn; auto].
  destruct (on_prop_congr c f r s1 s2 H) as [E1 E2].
  destruct (on_prop c s1 f r) as [x1 t1]. destruct (on_prop c s2 f r) as [x2 t2]. cbn in *. subst. auto.
Qed.

Lemma sign_att_congr c cl a d f : congr (fun st => sign_att c st cl a d f).
Proof.
  intros s1 s2 H. unfold sign_att. destruct (att_fields d) as [o|]; [|cbn; auto].
  destruct (pre_check c cl a AAtt (pos_fault f 0)) as [cr|ac]; [cbn; auto|].
  destruct (of_ruler f) as [l|].
  - destruct (nth 0 l RUnknown); cbn; auto.
  - destruct (ruler_atts_congr (sc_rules c) (creds_ok cl) (of_rules f) [att_req ac o] s1 s2 H) as [E1 E2].
    destruct (ruler_atts (sc_rules c) s1 _ _ _) as [r1 t1]. destruct (ruler_atts (sc_rules c) s2 _ _ _) as [r2 t2].
    cbn [fst snd] in *. subst r2. destruct (nth 0 r1 RUnknown); cbn; auto.
Qed.

Lemma sign_prop_congr c cl a d f : congr (fun st => sign_prop c st cl a d f).
Proof.
  intros s1 s2 H. unfold sign_prop. destruct (prop_fields d) as [o|]; [|cbn; auto].
  destruct (pre_check c cl a AProp (pos_fault f 0)) as [cr|ac]; [cbn; auto|].
  destruct (of_ruler f) as [l|].
  - destruct (nth 0 l RUnknown); cbn; auto.
  - match goal with |- context [ruler_prop ?rc s1 ?ok ?ff ?rq] =>
      destruct (ruler_prop_congr rc ok ff rq s1 s2 H) as [E1 E2];
      destruct (ruler_prop rc s1 ok ff rq) as [r1 t1]; destruct (ruler_prop rc s2 ok ff rq) as [r2 t2] end.
    cbn [fst snd] in *. subst r2. destruct (nth 0 r1 RUnknown); cbn; auto.
Qed.

Lemma sign_atts_congr c cl reqs f : congr (fun st => sign_atts c st cl reqs f).
Proof.
  intros s1 s2 H. unfold sign_atts. destruct reqs as [|rq reqs'] eqn:E; [cbn; auto|]. rewrite <- E. clear E rq reqs'.
  destruct (find_index _ _ 0); [cbn; auto|]. destruct (negb _); [cbn; auto|].
  destruct (of_ruler f) as [l|]; [cbn; auto|].
  match goal with |- context [ruler_atts ?rc s1 ?ok ?ff ?rs] =>
    destruct (ruler_atts_congr rc ok ff rs s1 s2 H) as [E1 E2];
    destruct (ruler_atts rc s1 ok ff rs) as [r1 t1]; destruct (ruler_atts rc s2 ok ff rs) as [r2 t2] end.
  cbn [fst snd] in *. subst r2. auto.
Qed.

Lemma step_congr c o : congr (fun st => step c st o).
Proof.
  intros s1 s2 H. destruct o; cbn [step].
  - destruct (sign_att_congr c cl a d f s1 s2 H) as [E1 E2].
    destruct (sign_att c s1 cl a d f) as [x1 t1]. destruct (sign_att c s2 cl a d f) as [x2 t2]. cbn in *. subst. auto.
  - now apply sign_atts_congr.
  - destruct (sign_prop_congr c cl a d f s1 s2 H) as [E1 E2].
    destruct (sign_prop c s1 cl a d f) as [x1 t1]. destruct (sign_prop c s2 cl a d f) as [x2 t2]. cbn in *. subst. auto.
  - cbn. auto.
  - cbn. auto.
  - cbn. auto.
Qed.

(* every response of every history is the same from two stores with equal views *)
Lemma run_congr c h : forall s1 s2, same_view s1 s2 ->
  snd (run c s1 h) = snd (run c s2 h) /\ same_view (fst (run c s1 h)) (fst (run c s2 h)).
Proof.
  induction h as [|o h IH]; intros s1 s2 H; [cbn; auto|].
  cbn [run]. destruct (step_congr c o s1 s2 H) as [E1 E2].
  destruct (step c s1 o) as [r1 t1]. destruct (step c s2 o) as [r2 t2]. cbn [fst snd] in *. subst r2.
  destruct (IH t1 t2 E2) as [I1 I2].
  destruct (run c t1 h) as [f1 o1]. destruct (run c t2 h) as [f2 o2]. cbn [fst snd] in *. subst. auto.
Qed.
