(* C14 - conflicting duties can never both reach the signing threshold. *)
From DV Require Import Model.Cluster Proofs.SignerProofs Proofs.InstanceProofs Proofs.ClusterProofs.
Local Open Scope Z_scope.

(* the instances (by index) of a cluster that produced a partial signature over duty d *)



(* For every (n, t) key generation accepts, every cluster of n instances (arbitrary configurations,
   arbitrary prior protection stores, the repaired epoch guard), every cluster history h - any
   assignment of requests to instances, any repetition, any order; by C04/C15 every concurrent
   delivery on one instance is equivalent to such an order - and every pair of conflicting duties:
   no set of t instances signed the first while a set of t instances signed the second. *)
Theorem C14_conflicting_duties_one_threshold :
  forall (n t : nat) (ms : list member) (h : list (nat * op)) (d1 d2 : msg) (S1 S2 : list nat),
    threshold_ok n t = true -> List.length ms = n ->
    Forall (fun m => guard63 (sc_rules (m_cfg m)) = true) ms ->
    Forall (fun x => op_ok (snd x)) h ->
    conflicting d1 d2 ->
    signers ms h d1 S1 -> signers ms h d2 S2 ->
    ~ (t <= List.length S1 /\ t <= List.length S2)%nat.
Proof. exact cluster_one_threshold. Qed.
Print Assumptions C14_conflicting_duties_one_threshold.

(* one instance never signs both *)
Theorem C14_instance_signs_at_most_one :
  forall (m : member) i h d1 d2,
    guard63 (sc_rules (m_cfg m)) = true -> Forall (fun x => op_ok (snd x)) h -> conflicting d1 d2 ->
    signed_by m i h d1 -> signed_by m i h d2 -> False.
Proof. exact member_signs_at_most_one. Qed.
Print Assumptions C14_instance_signs_at_most_one.

(* without the majority rule the bound fails: with t = n/2 two disjoint halves both reach t *)
Lemma C14_needs_majority : exists n t S1 S2, threshold_ok n t = false /\ (S1 + S2 <= n /\ t <= S1 /\ t <= S2)%nat.
Proof. exists 4%nat, 2%nat, 2%nat, 2%nat. vm_compute. repeat split; auto. Qed.
