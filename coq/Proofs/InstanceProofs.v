(* History-level invariants of one instance: released attestations / proposals per key are
   ordered and dominated by the stored watermark. *)
From DV Require Import Model.Instance Proofs.AssocFacts Proofs.RulesProofs Proofs.RulerProofs Proofs.SignerProofs.
From Coq Require Import Lia.
Local Open Scope Z_scope.

Lemma no_att_prop_of_gen k l :
  (forall s, In s l -> exists data dom, sg_msg s = MGen data dom) ->
  flat_map (att_of k) l = [] /\ flat_map (prop_of k) l = [].
Proof.
  induction l as [|s l IH]; intros H; cbn; auto.
  destruct (H s (or_introl eq_refl)) as (data & dom & Hm).
  destruct (IH (fun s' Hs' => H s' (or_intror Hs'))) as [-> ->].
  unfold att_of, prop_of. rewrite Hm. auto.
Qed.

Lemma step_rel c st o rs st' k :
  guard63 (sc_rules c) = true -> op_ok o -> step c st o = (rs, st') ->
  att_rel (view_att st k) (view_att st' k) (flat_map (att_of k) (sigs_of rs)) /\
  prop_rel (view_prop st k) (view_prop st' k) (flat_map (prop_of k) (sigs_of rs)).
Proof.
  intros G Hok. destruct o; cbn [step op_ok] in *.
  - destruct Hok as [Hf Hd]. destruct (sign_att c st cl a d f) as [r st1] eqn:E.
    intros H; injection H as <- <-. eapply sign_att_rel; eauto.
  - destruct Hok as [Hf Hd]. intros H. eapply sign_atts_rel; eauto.
  - destruct Hok as [Hf Hd]. destruct (sign_prop c st cl a d f) as [r st1] eqn:E.
    intros H; injection H as <- <-. eapply sign_prop_rel; eauto.
  - intros H; injection H as <- <-.
    destruct (no_att_prop_of_gen k (sigs_of [sign_gen c cl a d f])) as [-> ->].
    + intros s Hs. cbn in Hs. destruct (sign_gen c cl a d f) as [r [s'|]] eqn:E; cbn in Hs; [|contradiction].
      destruct Hs as [<-|[]]. eapply sign_gen_msgs; eauto.
    + split; [apply att_rel_same|apply prop_rel_same].
  - intros H; injection H as <- <-.
    destruct (no_att_prop_of_gen k (sigs_of (multisign c cl l f))) as [-> ->].
    + intros s Hs. eapply multisign_msgs; eauto.
    + split; [apply att_rel_same|apply prop_rel_same].
  - intros H; injection H as <- <-. cbn. split; [apply att_rel_same|apply prop_rel_same].
Qed.

(* ---- ordered lists ---- *)

(* sources never decrease, targets strictly increase *)
Fixpoint att_sorted (l : list (Z * Z)) : Prop :=
  match l with
  | a :: ((b :: _) as r) => fst a <= fst b /\ snd a < snd b /\ att_sorted r
  | _ => True
  end.
Fixpoint slot_sorted (l : list Z) : Prop :=
  match l with
  | a :: ((b :: _) as r) => a < b /\ slot_sorted r
  | _ => True
  end.

Lemma released_cons rs out : released (rs :: out) = sigs_of rs ++ released out.
Proof. reflexivity. Qed.

Lemma run_cons c st o h :
  run c st (o :: h) = let '(rs, st') := step c st o in let '(stf, out) := run c st' h in (stf, rs :: out).
Proof. reflexivity. Qed.

Lemma run_att_inv c h : guard63 (sc_rules c) = true -> Forall op_ok h -> forall st k,
  let R := released_att k (snd (run c st h)) in
  let stf := fst (run c st h) in
  att_sorted R /\
  (forall a, In a R -> a_src (view_att st k) <= fst a /\ a_tgt (view_att st k) < snd a /\ 0 <= fst a /\ 0 <= snd a /\
                       fst a <= a_src (view_att stf k) /\ snd a <= a_tgt (view_att stf k)) /\
  a_le (view_att st k) (view_att stf k).
Proof.
  intros G. induction h as [|o h IH]; intros HF st k.
  - cbn. split; [exact I|]. split; [intros a []|apply a_le_refl].
  - inversion HF as [|? ? Hok HF']; subst.
    rewrite run_cons. destruct (step c st o) as [rs st1] eqn:Es.
    specialize (IH HF' st1 k). destruct (run c st1 h) as [stf out] eqn:Er. cbn [fst snd] in *.
    unfold released_att in *. rewrite released_cons, flat_map_app.
    destruct (step_rel c st o rs st1 k G Hok Es) as [[Hle HA] _].
    destruct IH as (Hsort & Hdom & Hle').
    destruct HA as [->|(s & t & -> & Hv & Hlt & Hles & Hs0 & Hs63 & Ht0 & Ht63)].
    + cbn [app]. split; [exact Hsort|]. split.
      * intros a Ha. destruct (Hdom a Ha) as (H1 & H2 & H3 & H4 & H5 & H6).
        unfold a_le in Hle. repeat split; auto; lia.
      * unfold a_le in *. lia.
    + cbn [app]. rewrite Hv in Hdom, Hle'. cbn [a_src a_tgt] in Hdom. unfold a_le in Hle'. cbn in Hle'.
      split; [|split].
      * destruct (flat_map (att_of k) (released out)) as [|b r] eqn:Eb; [exact I|].
        destruct (Hdom b (or_introl eq_refl)) as (H1 & H2 & _). cbn. repeat split; auto.
      * intros a [<-|Ha]; cbn [fst snd].
        -- repeat split; auto; lia.
        -- destruct (Hdom a Ha) as (H1 & H2 & H3 & H4 & H5 & H6). repeat split; auto; lia.
      * unfold a_le in *. lia.
Qed.

Lemma run_prop_inv c h : guard63 (sc_rules c) = true -> Forall op_ok h -> forall st k,
  let R := released_prop k (snd (run c st h)) in
  let stf := fst (run c st h) in
  slot_sorted R /\
  (forall a, In a R -> view_prop st k < a /\ 0 <= a /\ a <= view_prop stf k) /\
  view_prop st k <= view_prop stf k.
Proof.
  intros G. induction h as [|o h IH]; intros HF st k.
  - cbn. split; [exact I|]. split; [intros a []|lia].
  - inversion HF as [|? ? Hok HF']; subst.
    rewrite run_cons. destruct (step c st o) as [rs st1] eqn:Es.
    specialize (IH HF' st1 k). destruct (run c st1 h) as [stf out] eqn:Er. cbn [fst snd] in *.
    unfold released_prop in *. rewrite released_cons, flat_map_app.
    destruct (step_rel c st o rs st1 k G Hok Es) as [_ [Hle HA]].
    destruct IH as (Hsort & Hdom & Hle').
    destruct HA as [->|(s & -> & Hv & Hlt & Hs0 & Hs63)].
    + cbn [app]. split; [exact Hsort|]. split; [|lia].
      intros a Ha. destruct (Hdom a Ha) as (H1 & H2 & H3). repeat split; auto; lia.
    + cbn [app]. rewrite Hv in Hdom, Hle'.
      split; [|split]; [| |lia].
      * destruct (flat_map (prop_of k) (released out)) as [|b r] eqn:Eb; [exact I|].
        destruct (Hdom b (or_introl eq_refl)) as (H1 & _). cbn. split; auto.
      * intros a [<-|Ha].
        -- repeat split; auto; lia.
        -- destruct (Hdom a Ha) as (H1 & H2 & H3). repeat split; auto; lia.
Qed.

(* ---- from ordered lists to the absence of slashable pairs ---- *)

Lemma att_sorted_tail a l : att_sorted (a :: l) -> att_sorted l.
Proof. destruct l; cbn; tauto. Qed.

Lemma att_sorted_head a l b : att_sorted (a :: l) -> In b l -> fst a <= fst b /\ snd a < snd b.
Proof.
  revert a. induction l as [|c l IH]; intros a Hs [].
  - subst. cbn in Hs. tauto.
  - cbn in Hs. destruct Hs as (H1 & H2 & H3). specialize (IH c H3 H). lia.
Qed.

Lemma att_sorted_nth l : att_sorted l -> forall i j a b, (i < j)%nat ->
  nth_error l i = Some a -> nth_error l j = Some b -> fst a <= fst b /\ snd a < snd b.
Proof.
  induction l as [|x l IH]; intros Hs i j a b Hij Ha Hb.
  - destruct i; discriminate.
  - destruct j as [|j]; [lia|]. cbn in Hb. destruct i as [|i]; cbn in Ha.
    + injection Ha as ->. apply (att_sorted_head a l b Hs). eapply nth_error_In; eauto.
    + apply (IH (att_sorted_tail _ _ Hs) i j a b); auto; lia.
Qed.

Lemma slot_sorted_tail a l : slot_sorted (a :: l) -> slot_sorted l.
Proof. destruct l; cbn; tauto. Qed.
Lemma slot_sorted_head a l b : slot_sorted (a :: l) -> In b l -> a < b.
Proof.
  revert a. induction l as [|c l IH]; intros a Hs [].
  - subst. cbn in Hs. tauto.
  - cbn in Hs. destruct Hs as (H1 & H3). specialize (IH c H3 H). lia.
Qed.
Lemma slot_sorted_nth l : slot_sorted l -> forall i j a b, (i < j)%nat ->
  nth_error l i = Some a -> nth_error l j = Some b -> a < b.
Proof.
  induction l as [|x l IH]; intros Hs i j a b Hij Ha Hb.
  - destruct i; discriminate.
  - destruct j as [|j]; [lia|]. cbn in Hb. destruct i as [|i]; cbn in Ha.
    + injection Ha as ->. apply (slot_sorted_head a l b Hs). eapply nth_error_In; eauto.
    + apply (IH (slot_sorted_tail _ _ Hs) i j a b); auto; lia.
Qed.

(* ---- C01 / C02 main statements ---- *)

Definition slashable (a b : Z * Z) : Prop :=
  snd a = snd b \/ (fst a < fst b /\ snd b < snd a) \/ (fst b < fst a /\ snd a < snd b).

Lemma C01_main :
  forall (c : scfg) (st0 : store) (h : list op) (k : N),
    guard63 (sc_rules c) = true -> Forall op_ok h ->
    let R := released_att k (snd (run c st0 h)) in
    let stf := fst (run c st0 h) in
    att_sorted R /\
    (forall i j a b, i <> j -> nth_error R i = Some a -> nth_error R j = Some b -> ~ slashable a b) /\
    (forall a, In a R -> fst a <= a_src (view_att stf k) /\ snd a <= a_tgt (view_att stf k)).
Proof.
  intros c st0 h k G HF. destruct (run_att_inv c h G HF st0 k) as (Hs & Hd & _).
  split; [exact Hs|]. split.
  - intros i j a b Hij Ha Hb [H|[H|H]].
    + destruct (Nat.lt_total i j) as [L|[L|L]]; [| contradiction |].
      * pose proof (att_sorted_nth _ Hs i j a b L Ha Hb). lia.
      * pose proof (att_sorted_nth _ Hs j i b a L Hb Ha). lia.
    + destruct (Nat.lt_total i j) as [L|[L|L]]; [| contradiction |].
      * pose proof (att_sorted_nth _ Hs i j a b L Ha Hb). lia.
      * pose proof (att_sorted_nth _ Hs j i b a L Hb Ha). lia.
    + destruct (Nat.lt_total i j) as [L|[L|L]]; [| contradiction |].
      * pose proof (att_sorted_nth _ Hs i j a b L Ha Hb). lia.
      * pose proof (att_sorted_nth _ Hs j i b a L Hb Ha). lia.
  - intros a Ha. destruct (Hd a Ha) as (_ & _ & _ & _ & H5 & H6). auto.
Qed.

Lemma C02_main :
  forall (c : scfg) (st0 : store) (h : list op) (k : N),
    guard63 (sc_rules c) = true -> Forall op_ok h ->
    let R := released_prop k (snd (run c st0 h)) in
    let stf := fst (run c st0 h) in
    slot_sorted R /\
    (forall i j a b, i <> j -> nth_error R i = Some a -> nth_error R j = Some b -> a <> b) /\
    (forall a, In a R -> a <= view_prop stf k).
Proof.
  intros c st0 h k G HF. destruct (run_prop_inv c h G HF st0 k) as (Hs & Hd & _).
  split; [exact Hs|]. split.
  - intros i j a b Hij Ha Hb H.
    destruct (Nat.lt_total i j) as [L|[L|L]]; [| contradiction |].
    + pose proof (slot_sorted_nth _ Hs i j a b L Ha Hb). lia.
    + pose proof (slot_sorted_nth _ Hs j i b a L Hb Ha). lia.
  - intros a Ha. destruct (Hd a Ha) as (_ & _ & H). auto.
Qed.
