# Per-property configuration of bin/check.
PROPS = {
    "C01": {
        "relation": "Corr.CheckInst.check_safe (implementation signs => model step signs; the signing key's record afterwards equals the model's; no record lowered) - the induction step of C01_no_slashable_attestation",
        "trusted": ["badger, the BLS library, Go runtime; wallet libraries' account resolution",
                    "the harness's own SSZ/BLS verification is used only to mark signatures valid"],
        "assumptions": ["histories are finite lists of service-level requests; op_ok: numbers are uint64 values, an injected ruler answer never says APPROVED"],
    },
    "C02": {
        "relation": "Corr.CheckInst.check_safe - the induction step of C02_no_double_proposal",
        "trusted": ["badger, the BLS library, Go runtime; wallet libraries' account resolution"],
        "assumptions": ["as C01"],
    },
    "C05": {
        "relation": "Corr.CheckInst.check_safe (implementation signs => model signs) on endpoint x domain-type x admin-list x source-address cases - ties C05_domain_separation to the code",
        "trusted": ["badger, BLS, Go runtime; prefix4 assumes the domain slice has capacity >= 4 with zero bytes past its length (what protobuf decoding gives; Wire.v / C20)"],
        "assumptions": ["ruler_fault_ok: an injected ruler answer never says APPROVED"],
    },
    "C06": {
        "relation": "Corr.CheckInst.check_exact (states, signature presence and decoded store equal the model's under the same fault schedule) - ties C06_fail_closed to the code",
        "trusted": ["faults are injected through wrapping fetcher / checker / unlocker / ruler / account objects and the verifhook store hooks; faults inside libraries are not modelled"],
        "assumptions": [],
    },
    "C09": {
        "relation": "Corr.CheckInst.check_live (model signs => implementation signs) on advancing histories; check_exact on batch steps of the twin runs; Corr.CheckScatter.scatter_mismatches (util.Scatter extents = Scatter.extents)",
        "trusted": ["badger, BLS, Go runtime and scheduler"],
        "assumptions": ["op_wf: histories of well-formed fault-free requests; cfg_wf: every account can sign; the proposal clause is read with the same < 2^63 bound as the attestation clause (DESIGN.md 5 C09)"],
    },
    "C10": {
        "relation": "Corr.CheckImport.check_import (exit status and resulting database of the real binary's --import-slashing-protection equal import_cmd of the repaired model variant) - ties C10_import_step / C10_history to the code",
        "trusted": ["JSON decoding and strconv.ParseInt are modelled from the decoded structure on (the harness applies ParseInt itself to produce the model's numbers)", "viper/pflag configuration loading of the binary", "badger"],
        "assumptions": ["icfg_fixed: the repaired import (per-field maxima, repeated keys accumulate, negative numbers rejected)"],
    },
    "C11": {
        "relation": "Corr.CheckExport.check_codec (raw record bytes = encode_att / encode_prop, and decode back), check_export (the binary's export = export_cmd), Corr.CheckImport.check_import (import of the export into an empty directory = import_cmd) - tie C11_export_faithful, C11_codec and C11_export_import_same_decisions to the code",
        "trusted": ["Go's encoding/gob (legacy records): an oracle argument of the model; exercised with records produced by the real encoder", "JSON encoding of the export", "badger"],
        "assumptions": ["op_wf histories (well-formed, fault-free), cfg_wf"],
    },
    "C07": {
        "relation": "Corr.CheckChecker.check_kcase (Check() of the real static checker = check of the model with the repaired anchoring), Corr.CheckInst.check_exact with sc_perm := checker_perm (signer requests by name and by key), check_scase (account / wallet manager results = sstep) - tie C07_check_spec, C07_whole_name_match and C07_services_decide_on_resolved_account to the code",
        "trusted": ["Go's regexp on the modelled syntax (literals, '.', bracket classes, * + ?, groups, alternation, ^ $) - checked differentially through Check(); other RE2 syntax (escapes, flags, \\Q..\\E, a trailing \\$) is outside the model", "names are ASCII (Unicode case folding is outside the model)", "viper's loading of the permission list (the model starts from the ordered entries)", "the wallet library's passphrase handling (observation O5)"],
        "assumptions": [],
    },
    "C18": {
        "relation": "Corr.CheckChecker.check_lcase (the multiset of (wallet, name, key) returned by the real lister = list_accounts of the model) - ties C18_listing_sound_and_complete / C18_created_account_listed to the code",
        "trusted": ["Go's regexp on the modelled syntax; the lister's own (case-sensitive, legacy-style) anchoring of the account expression is modelled as it is (observation O3)", "the wallet libraries' account enumeration", "account creation by the real account manager / process service (non-distributed)"],
        "assumptions": [],
    },
    "C08": {
        "relation": "Corr.CheckSig.check_rcase (the signing root the model computes from the submitted fields = the root under which the harness verified the implementation's signature with the real BLS library and the addressed account's key), hash_mismatches (Sha256.v = crypto/sha256), Corr.CheckInst.check_exact on single and batched requests - tie C08_single_requests / C08_batches_aligned / C08_signature_verifies to the code",
        "trusted": ["the BLS scheme is abstract in Coq (any scheme with verify(sign) = true); the real library is exercised only by the harness", "Base/Sha256.v uses the kernel's primitive 63-bit integers (PrimInt63.*, listed by Print Assumptions; not axioms of the development); no theorem depends on a property of SHA-256 other than its output length", "fastssz (compared with the harness's own SSZ and with Ssz.v)"],
        "assumptions": [],
    },
    "C03": {
        "relation": "Corr.CheckCrash.check_kill (signatures released before a SIGKILL at a hook point, and the durable store after restart and the rest of the history = crun under the corresponding cut) and the hypotheses of C03_crash_safety_partial: sync_writes (read from the open store's badger options) and write_before_sign (hook event order; store read at the moment Sign is invoked)",
        "trusted": ["badger: a commit that returned with SyncWrites is durable; the OS and the disk honour fsync (SIGKILL cannot distinguish page cache from disk)", "kill points are the hook points (entry/exit of Fetch, Store, BatchStore, before/after Sign, request start/end); a kill inside badger's write is not exercised"],
        "assumptions": ["safe_ccfg: sync_writes and write_before_sign", "partial: see Properties/C03.v"],
    },
    "C04": {
        "relation": "Corr.CheckConc.check_conc (the real-time order of locker calls, store accesses and returns of concurrently issued requests, mapped to a schedule, is accepted by the model, ends with every request returned, gives the observed verdicts and reaches the observed store) plus the per-request protocol conformance (PreLock; Lock k1..kn; PostLock; reads and write inside; Unlock kn..k1) - tie C04_serializable / C04_realtime_order to the code",
        "trusted": ["sync.Mutex, sync.Map and the Go memory model implement the locker-wide and per-key locks", "explored implementation schedules are steered samples (requests parked between read and write and between lock acquisitions)", "the model makes requests without lockable keys take the locker-wide mutex for one step (the code returns before PreLock); this only makes the model's threads wait more"],
        "assumptions": ["partial: see Properties/C04.v"],
    },
    "C15": {
        "relation": "Corr.CheckConc.check_conc and the per-request protocol conformance as for C04; completion of every round within a watchdog, including sustained load - tie C15_progress / C15_terminates to the code",
        "trusted": ["sync.Mutex, sync.Map, the Go scheduler (fairness: an enabled goroutine eventually runs)"],
        "assumptions": [],
    },
}
