(* Correspondence for util.ResolvePath: (working directory, home, base-dir, path) -> the path the real
   function returned. *)
From DV Require Export Model.Paths.
From Coq Require Export NArith.
Local Open Scope string_scope.

Record pcase := PC { pc_id : N; pc_cwd : string; pc_home : string; pc_base : string; pc_path : string; pc_got : string }.

Definition path_mismatches (l : list pcase) : list N :=
  map pc_id (filter (fun c => negb (String.eqb
     (resolve_path {| pe_cwd := pc_cwd c; pe_home := pc_home c; pe_base := pc_base c |} (pc_path c)) (pc_got c))) l).
