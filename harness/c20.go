package main

import (
	"context"
	"fmt"
	signerhandler "github.com/attestantio/dirk/services/api/grpc/handlers/signer"
	"github.com/attestantio/dirk/services/sender"
	sendergrpc "github.com/attestantio/dirk/services/sender/grpc"
	distributed "github.com/wealdtech/go-eth2-wallet-distributed"
	keystorev4 "github.com/wealdtech/go-eth2-wallet-encryptor-keystorev4"
	nd "github.com/wealdtech/go-eth2-wallet-nd/v2"
	scratch "github.com/wealdtech/go-eth2-wallet-store-scratch"
	e2wtypes "github.com/wealdtech/go-eth2-wallet-types/v2"
	"os"
	"path/filepath"
	"runtime/debug"
	"strings"
	"sync"
	"time"

	"github.com/attestantio/dirk/rules"
	accountmanagerhandler "github.com/attestantio/dirk/services/api/grpc/handlers/accountmanager"
	listerhandler "github.com/attestantio/dirk/services/api/grpc/handlers/lister"
	walletmanagerhandler "github.com/attestantio/dirk/services/api/grpc/handlers/walletmanager"
	"github.com/attestantio/dirk/services/checker"
	pb "github.com/wealdtech/eth2-signer-api/pb/v1"
	"google.golang.org/protobuf/proto"
)

// C20: requests generated field-wise from the protobuf schema, sent through a wire encode / decode
// round trip into the real handlers under a recovering wrapper.

type wireGen struct {
	rng   *PRNG
	fx    *Fixture
	epoch uint64
	caps  map[string]int
	clean bool // mostly-valid stream: each field takes its valid shape with high probability
	// single-defect stream: every field valid except the defectIndex-th one generated
	directed    bool
	calls       int
	defectIndex int
}

func (g *wireGen) keepValid() bool {
	if g.directed {
		g.calls++
		return g.calls-1 != g.defectIndex
	}
	return g.clean && g.rng.Chance(93)
}

// bytesField returns a byte field of one of the shapes: absent, empty, short, exact, long, very long.
func (g *wireGen) bytesField(exact int, valid byte) []byte {
	k := g.rng.Intn(20)
	if g.keepValid() {
		k = 19
	}
	switch {
	case k == 0:
		return nil
	case k == 1:
		return []byte{}
	case k == 2:
		return g.rng.Bytes(1 + g.rng.Intn(3))
	case k == 3:
		return g.rng.Bytes(exact + 1 + g.rng.Intn(40))
	case k == 4:
		return g.rng.Bytes(exact - 1)
	case k == 5 && g.rng.Chance(20):
		return g.rng.Bytes(3000 + g.rng.Intn(2000))
	}
	b := make([]byte, exact)
	for i := range b {
		b[i] = valid
	}
	return b
}

func (g *wireGen) domain() []byte {
	k := g.rng.Intn(16)
	if g.keepValid() {
		k = 15
	}
	switch {
	case k == 0:
		return nil
	case k == 1:
		return []byte{}
	case k == 2:
		return []byte{1, 0, 0, 0}[:1+g.rng.Intn(3)] // a prefix of the attester domain type, shorter than 4
	case k == 3:
		return []byte{1, 0, 0, 0}
	case k == 4:
		return append(mkDomain([]byte{1, 0, 0, 0}, 2), 9, 9)
	case k == 5:
		return mkDomain([]byte{4, 0, 0, 0}, 2) // voluntary exit
	case k == 6:
		return g.rng.Bytes(32)
	}
	return mkDomain([][]byte{{1, 0, 0, 0}, {0, 0, 0, 0}, {2, 0, 0, 0}, {1, 0, 0, 0}}[g.rng.Intn(4)], 2)
}

func (g *wireGen) number() uint64 {
	k := g.rng.Intn(12)
	if g.keepValid() {
		k = 11
	}
	switch k {
	case 0:
		return 0
	case 1:
		return 1<<63 - 1
	case 2:
		return 1 << 63
	case 3:
		return 1<<64 - 1
	case 4:
		return uint64(g.rng.Intn(5))
	}
	g.epoch++
	return g.epoch
}

// id returns (account, public key, isAccountOneof).
func (g *wireGen) id() (string, []byte, int) {
	a := g.fx.Accounts[g.rng.Intn(len(g.fx.Accounts))]
	k := g.rng.Intn(14)
	if g.keepValid() {
		k = 9 + g.rng.Intn(5)
	}
	switch k {
	case 0:
		return "", nil, 0 // oneof not set
	case 1:
		return "", nil, 1 // account oneof with the empty string
	case 2:
		return "", []byte{}, 2 // key oneof with empty bytes
	case 3:
		return "NoSlashHere", nil, 1
	case 4:
		return "Wallet 9/Nobody", nil, 1
	case 5:
		return "/", nil, 1
	case 6:
		return a.Wallet + "/", nil, 1
	case 7:
		return "", g.rng.Bytes(48), 2
	case 8:
		return "", a.Key[:20], 2
	case 9, 10:
		return "", a.Key, 2
	}
	return a.Path(), nil, 1
}

func (g *wireGen) keyID(k []byte) string {
	if k == nil {
		return "None"
	}
	if a := g.fx.ByKey(k); a != nil && len(k) == 48 {
		return fmt.Sprintf("(Some %s)", coqN(a.ID))
	}
	return "(Some 9999%N)"
}

func (g *wireGen) wb(name string, b []byte) string {
	if b == nil {
		return "None"
	}
	if len(b) == 0 {
		// a decoded empty, non-nil slice (only a oneof member can be one): not a byte field of the model
		return "(WB (@nil N) " + fmt.Sprint(cap(b)) + ")"
	}
	g.caps[fmt.Sprintf("len%s.cap>=8:%v", lenClass(len(b)), cap(b) >= 8)]++
	return fmt.Sprintf("(WB %s %d)", coqBytes(b), cap(b))
}

func lenClass(n int) string {
	switch {
	case n < 4:
		return "1-3"
	case n < 8:
		return "4-7"
	case n <= 32:
		return "8-32"
	}
	return ">32"
}

func pbState(s pb.ResponseState) string {
	switch s {
	case pb.ResponseState_SUCCEEDED:
		return "CSucceeded"
	case pb.ResponseState_DENIED:
		return "CDenied"
	case pb.ResponseState_FAILED:
		return "CFailed"
	}
	return "CUnknown"
}

type wireCase struct {
	line, descr string
}

// roundTrip marshals and unmarshals a message, as the gRPC transport does.
func roundTrip[M proto.Message](in M, out M) error {
	b, err := proto.Marshal(in)
	if err != nil {
		return err
	}
	return proto.Unmarshal(b, out)
}

func cmdWire(args []string) int {
	cf := parseCommon("C20", args, nil)
	ctx := context.Background()
	rng := NewPRNG(cf.seed)
	nReq, maxBatch := 700, 40
	if cf.tier == "thorough" {
		nReq, maxBatch = 6000, 300
	}
	fx, err := NewFixture(ctx, 2, 3, true)
	if err != nil {
		fmt.Fprintln(os.Stderr, err)
		return 2
	}
	inst, err := NewInstance(ctx, fx, InstanceOpts{AdminIPs: []string{"10.0.0.1"}, Perms: permsFromTbl(stdPermTbl)})
	if err != nil {
		fmt.Fprintln(os.Stderr, err)
		return 2
	}
	g := &wireGen{rng: rng, fx: fx, epoch: 10, caps: map[string]int{}}
	stats := map[string]int{}
	var monFail, samples []string
	idx := map[string]string{}
	var cases []string
	id := 0
	lastReq := filepath.Join(cf.out, "last_request.txt")
	guarded := func(what string, f func()) (panicked bool) {
		// a panic in a goroutine of the instance (a scatter worker) cannot be recovered here: the
		// request is written down first, so that a dying process leaves its failing input behind
		w := what
		if len(w) > 4000 {
			w = w[:4000] + "..."
		}
		_ = os.WriteFile(lastReq, []byte(w), 0o644)
		defer func() {
			if x := recover(); x != nil {
				panicked = true
				monFail = append(monFail, fmt.Sprintf("%s made the handler panic: %v", what, x))
				if os.Getenv("VH_STACK") != "" {
					fmt.Fprintf(os.Stderr, "PANIC %s: %v\n%s\n", what, x, debug.Stack())
				}
			}
		}()
		f()
		return false
	}
	nDirected := nReq / 2
	for i := 0; i < nReq+nDirected; i++ {
		client := []string{"client1", "client1", "client1", "client2", "nobody", ""}[rng.Intn(6)]
		ip := []string{"10.0.0.1", "10.9.9.9", ""}[rng.Intn(3)]
		g.clean = rng.Chance(60)
		if g.clean && rng.Chance(85) {
			client = "client1"
		}
		g.directed = i >= nReq
		if g.directed {
			// an otherwise valid request (or small batch) with exactly one field malformed
			g.clean, g.calls, g.defectIndex, client, ip = true, 0, rng.Intn(30), "client1", "10.0.0.1"
			stats["stream.single-defect"]++
		} else {
			stats[map[bool]string{true: "stream.mostly-valid", false: "stream.malformed"}[g.clean]]++
		}
		hctx := ctxWithClient(ctx, client, ip)
		cl := fmt.Sprintf("(cl %s %s)", coqStr(client), coqStr(ip))
		pre, err := inst.ReadStore(ctx)
		if err != nil {
			return 2
		}
		var wreq, descr string
		var states []string
		kind := rng.Intn(5)
		mkSign := func() (*pb.SignRequest, func(d *pb.SignRequest) string) {
			acct, key, which := g.id()
			r := &pb.SignRequest{Domain: g.domain(), Data: g.bytesField(32, 7)}
			switch which {
			case 1:
				r.Id = &pb.SignRequest_Account{Account: acct}
			case 2:
				r.Id = &pb.SignRequest_PublicKey{PublicKey: key}
			}
			return r, func(d *pb.SignRequest) string {
				return fmt.Sprintf("(WS %s %s %s %s)", coqStr(d.GetAccount()), g.keyID(d.GetPublicKey()), g.wb("dom", d.GetDomain()), g.wb("data", d.GetData()))
			}
		}
		mkAtt := func() (*pb.SignBeaconAttestationRequest, func(d *pb.SignBeaconAttestationRequest) string) {
			acct, key, which := g.id()
			r := &pb.SignBeaconAttestationRequest{Domain: g.domain()}
			if g.directed || !rng.Chance(5) {
				r.Data = &pb.AttestationData{Slot: g.number(), CommitteeIndex: g.number(), BeaconBlockRoot: g.bytesField(32, 1)}
				if g.directed || !rng.Chance(5) {
					s := g.number()
					r.Data.Source = &pb.Checkpoint{Epoch: s, Root: g.bytesField(32, 2)}
					if g.directed || !rng.Chance(5) {
						t := s + 1
						if !g.directed && rng.Chance(20) {
							t = g.number()
						}
						r.Data.Target = &pb.Checkpoint{Epoch: t, Root: g.bytesField(32, 3)}
					}
				} else if rng.Chance(50) {
					r.Data.Target = &pb.Checkpoint{Epoch: g.number(), Root: g.bytesField(32, 3)}
				}
			}
			switch which {
			case 1:
				r.Id = &pb.SignBeaconAttestationRequest_Account{Account: acct}
			case 2:
				r.Id = &pb.SignBeaconAttestationRequest_PublicKey{PublicKey: key}
			}
			return r, func(d *pb.SignBeaconAttestationRequest) string {
				data := "None"
				if ad := d.GetData(); ad != nil {
					cp := func(c *pb.Checkpoint) string {
						if c == nil {
							return "None"
						}
						return fmt.Sprintf("(WCP %s %s)", coqU(c.GetEpoch()), g.wb("root", c.GetRoot()))
					}
					data = fmt.Sprintf("(WAD %s %s %s %s %s)", coqU(ad.GetSlot()), coqU(ad.GetCommitteeIndex()), g.wb("bbr", ad.GetBeaconBlockRoot()), cp(ad.GetSource()), cp(ad.GetTarget()))
				}
				return fmt.Sprintf("(WA %s %s %s %s)", coqStr(d.GetAccount()), g.keyID(d.GetPublicKey()), g.wb("dom", d.GetDomain()), data)
			}
		}
		panicked := false
		switch kind {
		case 0:
			r, render := mkSign()
			d := &pb.SignRequest{}
			if roundTrip(r, d) != nil {
				continue
			}
			wreq = "(WSign " + render(d) + ")"
			panicked = guarded("Sign "+wreq, func() {
				res, err := inst.Handler.Sign(hctx, d)
				if err != nil {
					states = []string{"rpc-error"}
					return
				}
				states = []string{fmt.Sprintf("(%s, %s)", pbState(res.GetState()), coqBool(len(res.GetSignature()) > 0))}
			})
			descr = "Sign"
		case 1:
			n := []int{0, 1, 1, 2, 3, 5, maxBatch}[rng.Intn(7)]
			if n == maxBatch {
				n = 1 + rng.Intn(maxBatch)
			}
			if g.directed {
				n = 2 + rng.Intn(3)
			}
			m := &pb.MultisignRequest{}
			var renders []func(d *pb.SignRequest) string
			for j := 0; j < n; j++ {
				r, render := mkSign()
				m.Requests = append(m.Requests, r)
				renders = append(renders, render)
			}
			d := &pb.MultisignRequest{}
			if roundTrip(m, d) != nil {
				continue
			}
			var items []string
			for j, r := range d.GetRequests() {
				items = append(items, renders[j](r))
			}
			wreq = "(WMultisign " + coqList(items) + ")"
			panicked = guarded(fmt.Sprintf("Multisign of %d: %s", n, wreq), func() {
				res, err := inst.Handler.Multisign(hctx, d)
				if err != nil {
					states = []string{"rpc-error"}
					return
				}
				for _, x := range res.GetResponses() {
					states = append(states, fmt.Sprintf("(%s, %s)", pbState(x.GetState()), coqBool(len(x.GetSignature()) > 0)))
				}
			})
			descr = fmt.Sprintf("Multisign x%d", n)
		case 2:
			r, render := mkAtt()
			d := &pb.SignBeaconAttestationRequest{}
			if roundTrip(r, d) != nil {
				continue
			}
			wreq = "(WAttest " + render(d) + ")"
			panicked = guarded("SignBeaconAttestation "+wreq, func() {
				res, err := inst.Handler.SignBeaconAttestation(hctx, d)
				if err != nil {
					states = []string{"rpc-error"}
					return
				}
				states = []string{fmt.Sprintf("(%s, %s)", pbState(res.GetState()), coqBool(len(res.GetSignature()) > 0))}
			})
			descr = "SignBeaconAttestation"
		case 3:
			n := []int{0, 1, 2, 2, 3, 5, maxBatch}[rng.Intn(7)]
			if n == maxBatch {
				n = 1 + rng.Intn(maxBatch)
			}
			if g.directed {
				n = 2 + rng.Intn(3)
			}
			m := &pb.SignBeaconAttestationsRequest{}
			var renders []func(d *pb.SignBeaconAttestationRequest) string
			for j := 0; j < n; j++ {
				r, render := mkAtt()
				m.Requests = append(m.Requests, r)
				renders = append(renders, render)
			}
			d := &pb.SignBeaconAttestationsRequest{}
			if roundTrip(m, d) != nil {
				continue
			}
			var items []string
			for j, r := range d.GetRequests() {
				items = append(items, renders[j](r))
			}
			wreq = "(WAttests " + coqList(items) + ")"
			panicked = guarded(fmt.Sprintf("SignBeaconAttestations of %d: %s", n, wreq), func() {
				res, err := inst.Handler.SignBeaconAttestations(hctx, d)
				if err != nil {
					states = []string{"rpc-error"}
					return
				}
				for _, x := range res.GetResponses() {
					states = append(states, fmt.Sprintf("(%s, %s)", pbState(x.GetState()), coqBool(len(x.GetSignature()) > 0)))
				}
			})
			descr = fmt.Sprintf("SignBeaconAttestations x%d", n)
		case 4:
			acct, key, which := g.id()
			r := &pb.SignBeaconProposalRequest{Domain: g.domain()}
			if rng.Chance(30) {
				r.Domain = mkDomain([]byte{0, 0, 0, 0}, 2)
			}
			if g.directed || !rng.Chance(5) {
				r.Data = &pb.BeaconBlockHeader{Slot: g.number(), ProposerIndex: g.number(), ParentRoot: g.bytesField(32, 1), StateRoot: g.bytesField(32, 2), BodyRoot: g.bytesField(32, 3)}
			}
			switch which {
			case 1:
				r.Id = &pb.SignBeaconProposalRequest_Account{Account: acct}
			case 2:
				r.Id = &pb.SignBeaconProposalRequest_PublicKey{PublicKey: key}
			}
			d := &pb.SignBeaconProposalRequest{}
			if roundTrip(r, d) != nil {
				continue
			}
			data := "None"
			if h := d.GetData(); h != nil {
				data = fmt.Sprintf("(WPD %s %s %s %s %s)", coqU(h.GetSlot()), coqU(h.GetProposerIndex()), g.wb("parent", h.GetParentRoot()), g.wb("state", h.GetStateRoot()), g.wb("body", h.GetBodyRoot()))
			}
			wreq = fmt.Sprintf("(WPropose (WP %s %s %s %s))", coqStr(d.GetAccount()), g.keyID(d.GetPublicKey()), g.wb("dom", d.GetDomain()), data)
			panicked = guarded("SignBeaconProposal "+wreq, func() {
				res, err := inst.Handler.SignBeaconProposal(hctx, d)
				if err != nil {
					states = []string{"rpc-error"}
					return
				}
				states = []string{fmt.Sprintf("(%s, %s)", pbState(res.GetState()), coqBool(len(res.GetSignature()) > 0))}
			})
			descr = "SignBeaconProposal"
		}
		stats["signer."+strings.Fields(descr)[0]]++
		if panicked {
			stats["panic"]++
			continue
		}
		if len(states) == 1 && states[0] == "rpc-error" {
			stats["rpc-error"]++
			continue
		}
		for _, s := range states {
			stats["state."+strings.Trim(strings.Split(s, ",")[0], "( ")]++
		}
		post, err := inst.ReadStore(ctx)
		if err != nil {
			return 2
		}
		id++
		cases = append(cases, fmt.Sprintf(" WC %s %s %s %s %s %s", coqN(id), coqStore(pre), cl, wreq, coqList(states), coqStore(post)))
		short := wreq
		if len(short) > 500 {
			short = short[:500] + "..."
		}
		idx[fmt.Sprint(id)] = fmt.Sprintf("%s by %q from %q: %s -> %v", descr, client, ip, short, states)
		if len(samples) < 4 && rng.Chance(5) {
			samples = append(samples, idx[fmt.Sprint(id)])
		}
	}
	for k, v := range g.caps {
		stats["decoded."+k] = v
		if strings.HasSuffix(k, "false") {
			monFail = append(monFail, fmt.Sprintf("CONFIG the protobuf decoder produced %d byte field(s) (%s) with capacity below 8: the capacity assumption of Wire.v (decode) does not hold", v, k))
		}
	}

	// the direct call the model flags: a 2-byte domain with capacity 2 makes the rules layer panic
	direct := func() (p bool) {
		defer func() { p = recover() != nil }()
		dom := make([]byte, 2, 2)
		dom[0] = 1
		inst.Rules.OnSign(ctx, &rules.ReqMetadata{Account: "Wallet 1/Account 0", Client: "client1"}, &rules.SignData{Domain: dom, Data: fill32(7)})
		return false
	}()
	stats["direct-short-domain.panics"] = map[bool]int{true: 1, false: 0}[direct]
	if !direct {
		monFail = append(monFail, "CONFIG rules.OnSign on a domain of capacity 2 did not panic: the flagged operation of Wire.v (Domain[0:4]) is no longer what the code does")
	}

	// ---- the other client-facing services and key-generation messages from non-peers: no panic ----
	// the first store (the one accounts are created in) holds a plain and a distributed wallet of its own
	st0 := scratch.New()
	if _, err := nd.CreateWallet(ctx, "Wallet N", st0, keystorev4.New()); err != nil {
		return 2
	}
	if _, err := distributed.CreateWallet(ctx, "Wallet D", st0, keystorev4.New()); err != nil {
		return 2
	}
	// the instance talks to its peers through the REAL gRPC sender; the peers' ports are closed, so every
	// key-generation call to them fails (a failing peer must cost the daemon nothing, however often it happens)
	var realSender sender.Service
	if ca, caKey, cerr := mintCA("verif wire authority"); cerr == nil {
		if nc, nerr := mintNode("127.0.0.1", ca, caKey); nerr == nil {
			if snd, serr := sendergrpc.New(ctx, sendergrpc.WithName("127.0.0.1"), sendergrpc.WithServerCert(nc.certPEM), sendergrpc.WithServerKey(nc.keyPEM), sendergrpc.WithCACert(pemCert(ca.Raw))); serr == nil {
				realSender = snd
				stats["other.real-sender"] = 1
			}
		}
	}
	node, err := NewNode(ctx, NodeOpts{ID: 1, Stores: append([]e2wtypes.Store{st0}, fx.Stores...), Perms: map[string][]*checker.Permissions{
		"client1": {{Path: "Wallet 1", Operations: []string{"All"}}, {Path: "Wallet 2", Operations: []string{"All"}}, {Path: "Wallet N", Operations: []string{"All"}}, {Path: "Wallet D", Operations: []string{"All"}}}},
		PeersMap: map[uint64]string{1: fmt.Sprintf("127.0.0.1:%d", freePort()), 2: fmt.Sprintf("127.0.0.2:%d", freePort()), 3: fmt.Sprintf("127.0.0.3:%d", freePort())},
		Sender:   realSender, Prometheus: true})
	if sharedPrometheus(ctx) != nil {
		stats["other.prometheus-metrics"] = 1
	}
	if err != nil {
		fmt.Fprintln(os.Stderr, err)
		return 2
	}
	nsh, err0 := signerhandler.New(ctx, signerhandler.WithSigner(node.Signer))
	if err0 != nil {
		return 2
	}
	// every call of this section runs under a watchdog: a request that is never answered is a failure too
	hung := false
	timed := func(what string, f func()) {
		if hung {
			return
		}
		done := make(chan struct{})
		go func() {
			defer close(done)
			guarded(what, f)
		}()
		select {
		case <-done:
		case <-time.After(20 * time.Second):
			hung = true
			monFail = append(monFail, fmt.Sprintf("%s was never answered (20 s); the instance stopped answering", what))
		}
	}
	lh, err1 := listerhandler.New(ctx, listerhandler.WithLister(node.Lister))
	ah, err2 := accountmanagerhandler.New(ctx, accountmanagerhandler.WithAccountManager(node.AcctMgr), accountmanagerhandler.WithProcess(node.Process))
	wh, err3 := walletmanagerhandler.New(ctx, walletmanagerhandler.WithWalletManager(node.WalMgr), walletmanagerhandler.WithProcess(node.Process))
	if err1 != nil || err2 != nil || err3 != nil {
		fmt.Fprintln(os.Stderr, "handlers:", err1, err2, err3)
		return 2
	}
	weird := func() string {
		return []string{"", "/", "Wallet 1", "Wallet 1/", "Wallet 1/Account 0", "Wallet 1/.*", "Wallet 1/(", "Wallet 9/x", "a/b/c", strings.Repeat("x", 5000), "Wallet 1/" + strings.Repeat("(a|", 200), "\x00/\xff", "Wallet 2/Account 1"}[rng.Intn(13)]
	}
	nOther := nReq / 2
	for i := 0; i < nOther; i++ {
		client := []string{"client1", "client1", "nobody", "", "signer-test03"}[rng.Intn(5)]
		hctx := ctxWithClient(ctx, client, "10.0.0.1")
		switch k := rng.Intn(14); k {
		case 11:
			// a signing request addressed by a public key the instance does not hold
			d := &pb.SignRequest{Id: &pb.SignRequest_PublicKey{PublicKey: rng.Bytes(48)}, Domain: mkDomain([]byte{2, 0, 0, 0}, 1), Data: fill32(5)}
			timed("Sign by an unknown public key", func() { _, _ = nsh.Sign(hctx, d) })
			stats["other.Sign-unknown-key"]++
		case 12:
			// a distributed generation for fewer participants than there are peers (the peers cannot be reached here)
			if rng.Chance(40) {
				name := fmt.Sprintf("Wallet D/gen%d", i)
				d := &pb.GenerateRequest{Account: name, Passphrase: []byte("pass"), Participants: 2, SigningThreshold: 2}
				timed(fmt.Sprintf("Generate(%q, n=2, t=2) on an instance with three peers", name), func() { _, _ = ah.Generate(hctx, d) })
				stats["other.Generate-fewer-than-peers"]++
				continue
			}
			fallthrough
		case 13:
			// account creation in a plain and in a distributed wallet, one participant
			name := fmt.Sprintf("%s/new%d", []string{"Wallet N", "Wallet D"}[rng.Intn(2)], i)
			if rng.Chance(25) {
				// names the request parser accepts and the wallet refuses to create
				name = []string{"Wallet N/_reserved", "Wallet 1/_x", "Wallet N/", "Wallet N", "Wallet 1/Account 0"}[rng.Intn(5)]
			}
			d := &pb.GenerateRequest{Account: name, Passphrase: []byte("pass"), Participants: 1, SigningThreshold: 1}
			timed(fmt.Sprintf("Generate(%q, n=1, t=1) by %q", name, client), func() { _, _ = ah.Generate(hctx, d) })
			timed("ListAccounts after a creation", func() {
				_, _ = lh.ListAccounts(hctx, &pb.ListAccountsRequest{Paths: []string{"Wallet N", "Wallet 1"}})
			})
			stats["other.Generate-own-wallets"]++
		case 0:
			m := &pb.ListAccountsRequest{}
			for n := rng.Intn(6); n > 0; n-- {
				m.Paths = append(m.Paths, weird())
			}
			d := &pb.ListAccountsRequest{}
			if roundTrip(m, d) == nil {
				timed(fmt.Sprintf("ListAccounts(%q)", d.GetPaths()), func() { _, _ = lh.ListAccounts(hctx, d) })
				stats["other.ListAccounts"]++
			}
		case 1:
			m := &pb.GenerateRequest{Account: weird(), Passphrase: g.bytesField(8, 'p'), Participants: uint32(g.number() % 5), SigningThreshold: uint32(g.number() % 5)}
			if rng.Chance(30) {
				m.Participants, m.SigningThreshold = uint32(g.number()), uint32(g.number())
				if m.Participants > 1<<22 {
					m.Participants = 1 << 22 // larger counts only allocate (address space); outside the model, see DESIGN.md
				}
			}
			d := &pb.GenerateRequest{}
			if roundTrip(m, d) == nil {
				timed(fmt.Sprintf("Generate(%q, n=%d, t=%d)", d.GetAccount(), d.GetParticipants(), d.GetSigningThreshold()), func() { _, _ = ah.Generate(hctx, d) })
				stats["other.Generate"]++
			}
		case 2, 3:
			m := &pb.UnlockAccountRequest{Account: weird(), Passphrase: g.bytesField(4, 'p')}
			d := &pb.UnlockAccountRequest{}
			if roundTrip(m, d) == nil {
				timed(fmt.Sprintf("Unlock(%q)", d.GetAccount()), func() { _, _ = ah.Unlock(hctx, d) })
				timed(fmt.Sprintf("Lock(%q)", d.GetAccount()), func() { _, _ = ah.Lock(hctx, &pb.LockAccountRequest{Account: d.GetAccount()}) })
				stats["other.AccountLock/Unlock"]++
			}
		case 4, 5:
			m := &pb.UnlockWalletRequest{Wallet: weird(), Passphrase: g.bytesField(4, 'p')}
			d := &pb.UnlockWalletRequest{}
			if roundTrip(m, d) == nil {
				timed(fmt.Sprintf("WalletUnlock(%q)", d.GetWallet()), func() { _, _ = wh.Unlock(hctx, d) })
				timed(fmt.Sprintf("WalletLock(%q)", d.GetWallet()), func() { _, _ = wh.Lock(hctx, &pb.LockWalletRequest{Wallet: d.GetWallet()}) })
				stats["other.WalletLock/Unlock"]++
			}
		default:
			// key-generation messages from a caller that is not a peer
			sctx := ctxWithClient(ctx, []string{"client1", "", "mallory"}[rng.Intn(3)], "10.0.0.1")
			acct := weird()
			timed("receiver (non-peer)", func() {
				switch k {
				case 6:
					m := &pb.PrepareRequest{Account: acct, Passphrase: g.bytesField(4, 'p'), Threshold: uint32(g.number())}
					for n := rng.Intn(4); n > 0; n-- {
						m.Participants = append(m.Participants, &pb.Endpoint{Id: g.number(), Name: weird(), Port: uint32(g.number())})
					}
					d := &pb.PrepareRequest{}
					if roundTrip(m, d) == nil {
						_, _ = node.Receiver.Prepare(sctx, d)
					}
				case 7:
					_, _ = node.Receiver.Execute(sctx, &pb.ExecuteRequest{Account: acct})
				case 8:
					m := &pb.ContributeRequest{Account: acct, Secret: g.bytesField(32, 1)}
					for n := rng.Intn(4); n > 0; n-- {
						m.VerificationVector = append(m.VerificationVector, g.bytesField(48, 2))
					}
					d := &pb.ContributeRequest{}
					if roundTrip(m, d) == nil {
						_, _ = node.Receiver.Contribute(sctx, d)
					}
				case 9:
					_, _ = node.Receiver.Commit(sctx, &pb.CommitRequest{Account: acct, ConfirmationData: g.bytesField(32, 3)})
				case 10:
					_, _ = node.Receiver.Abort(sctx, &pb.AbortRequest{Account: acct})
				}
			})
			stats["other.receiver-non-peer"]++
		}
	}
	if n := len(node.Process.VerifSessions()); n != 0 {
		monFail = append(monFail, fmt.Sprintf("key-generation messages from non-peers left %d generation(s) behind", n))
	}

	// ---- listing requests in flight at the same time, each with account patterns not seen before ----
	if !hung {
		_ = os.WriteFile(lastReq, []byte("concurrent Lister.ListAccounts requests with fresh account patterns (Wallet 1/Account <n>.*)"), 0o644)
		var lwg sync.WaitGroup
		lctx := ctxWithClient(ctx, "client1", "10.0.0.1")
		for w := 0; w < 8; w++ {
			lwg.Add(1)
			go func(w int) {
				defer lwg.Done()
				defer func() { _ = recover() }()
				for j := 0; j < 60; j++ {
					_, _ = lh.ListAccounts(lctx, &pb.ListAccountsRequest{Paths: []string{fmt.Sprintf("Wallet 1/Account %d.*|x%d", j%3, w*1000+j), fmt.Sprintf("Wallet 2/(Account|y%d_%d).*", w, j)}})
				}
			}(w)
		}
		ldone := make(chan struct{})
		go func() { lwg.Wait(); close(ldone) }()
		select {
		case <-ldone:
			stats["other.concurrent-listing"] = 480
		case <-time.After(60 * time.Second):
			monFail = append(monFail, "concurrent ListAccounts requests were not all answered within 60 s")
		}
	}

	// ---- still answering: valid requests in parallel with oversized / malformed batches ----
	var wg sync.WaitGroup
	answered := make(chan bool, 64)
	hctx := ctxWithClient(ctx, "client1", "10.0.0.1")
	for w := 0; w < 8; w++ {
		wg.Add(1)
		go func(w int) {
			defer wg.Done()
			defer func() {
				if x := recover(); x != nil {
					answered <- false
				}
			}()
			if w%2 == 0 {
				m := &pb.MultisignRequest{}
				for j := 0; j < maxBatch; j++ {
					m.Requests = append(m.Requests, &pb.SignRequest{Id: &pb.SignRequest_Account{Account: "Wallet 1/Account 0"}, Domain: []byte{1}, Data: nil})
				}
				_, _ = inst.Handler.Multisign(hctx, m)
				answered <- true
				return
			}
			res, err := inst.Handler.Sign(hctx, &pb.SignRequest{Id: &pb.SignRequest_Account{Account: fx.Accounts[w%len(fx.Accounts)].Path()}, Domain: mkDomain([]byte{2, 0, 0, 0}, 1), Data: fill32(byte(w))})
			answered <- err == nil && res.GetState() == pb.ResponseState_SUCCEEDED
		}(w)
	}
	done := make(chan struct{})
	go func() { wg.Wait(); close(done) }()
	select {
	case <-done:
	case <-time.After(60 * time.Second):
		monFail = append(monFail, "the instance stopped answering: parallel requests did not return within 60 s")
	}
	close(answered)
	for ok := range answered {
		if ok {
			stats["liveness.answered"]++
		} else {
			monFail = append(monFail, "a valid request issued alongside malformed batches was not answered with success")
		}
	}

	// ---- cases files ----
	var files []string
	const shard = 120
	for sh := 0; sh*shard < len(cases); sh++ {
		hi := (sh + 1) * shard
		if hi > len(cases) {
			hi = len(cases)
		}
		var b strings.Builder
		b.WriteString("From DV Require Import Corr.CheckWire.\nLocal Open Scope Z_scope.\nLocal Open Scope string_scope.\n")
		fmt.Fprintf(&b, "Definition cfg : scfg := mkcfg %s %s %s %s.\n", coqBool(cf.g63), coqStrList([]string{"10.0.0.1"}), coqAccounts(fx), coqPermTbl(stdPermTbl))
		fmt.Fprintf(&b, "Definition keys : list N := %s.\n", coqKeyIDs(fx))
		fmt.Fprintf(&b, "Definition cases : list wcase := [\n%s].\n", strings.Join(cases[sh*shard:hi], ";\n"))
		b.WriteString("Definition M := Eval vm_compute in wmismatches cfg keys cases.\nPrint M.\n")
		name := fmt.Sprintf("cases_C20_%d.v", sh)
		if err := os.WriteFile(filepath.Join(cf.out, name), []byte(b.String()), 0o644); err != nil {
			return 2
		}
		files = append(files, name)
	}
	sum := &Summary{Property: "C20", Seed: cf.seed, Tier: cf.tier, Evaluations: len(cases) + nOther, Distinct: len(cases),
		Rule:      "Signer service: requests generated field-wise from the protobuf schema (every byte field absent / empty / 1-3 bytes / one short / exact / longer / thousands of bytes; domains incl. prefixes of a domain type shorter than 4; numbers 0, small, 2^63-1, 2^63, 2^64-1, advancing; identifiers: oneof unset, empty account, empty key, no slash, unknown, trailing slash, random / truncated / valid key; batches of 0.." + fmt.Sprint(maxBatch) + "; clients permitted / other / unknown / absent), marshalled and unmarshalled, given to the real handlers under a recovering wrapper; response states, signature presence and stores compared with wire_step; the decoded capacities are checked against the model's decoder assumption; the flagged direct call is confirmed to panic. Lister, AccountManager, WalletManager and the receiver handlers from non-peers: weird names, patterns, passphrases and counts - no panic, nothing left behind. Parallel valid requests alongside malformed batches must all be answered",
		Histories: 1, Distribution: stats, Samples: samples, MonitorFailures: monFail, CaseFiles: files, CaseIndex: idx}
	if err := writeSummary(cf.out, sum); err != nil {
		return 2
	}
	return 0
}
