package main

import (
	"context"
	"fmt"
	distributed "github.com/wealdtech/go-eth2-wallet-distributed"
	keystorev4 "github.com/wealdtech/go-eth2-wallet-encryptor-keystorev4"
	nd "github.com/wealdtech/go-eth2-wallet-nd/v2"
	scratch "github.com/wealdtech/go-eth2-wallet-store-scratch"
	"os"
	"path/filepath"
	"regexp"
	"sort"
	"strings"
	"sync"

	"github.com/attestantio/dirk/core"
	listerhandler "github.com/attestantio/dirk/services/api/grpc/handlers/lister"
	"github.com/attestantio/dirk/services/checker"
	pb "github.com/wealdtech/eth2-signer-api/pb/v1"
	e2wtypes "github.com/wealdtech/go-eth2-wallet-types/v2"
)

type listPath struct {
	Text string
	Bad  bool
	W    string
	A    *Pat // nil = wallet only
}

func (p listPath) coq() string {
	if p.Bad {
		return "LBad"
	}
	if p.A == nil {
		return fmt.Sprintf("(LPath %s None)", coqStr(p.W))
	}
	return fmt.Sprintf("(LPath %s %s)", coqStr(p.W), p.A.coq())
}

// cmdList drives C18.
func cmdList(args []string) int {
	cf := parseCommon("C18", args, nil)
	ctx := context.Background()
	rng := NewPRNG(cf.seed)
	nCfg, nCalls := 10, 14
	if cf.tier == "thorough" {
		nCfg, nCalls = 100, 40
	}
	var monFail []string
	stats := map[string]int{}
	var samples []string
	idx := map[string]string{}
	var defs, lcases []string
	id := 0
	distinct := map[string]bool{}
	ag := &patGen{rng: rng, words: []string{"Account 0", "Account 1", "Account 2", "Account ", "New"}}
	wg := &patGen{rng: rng, words: []string{"Wallet 1", "Wallet 2", "Wallet "}}
	// a distributed wallet with two accounts, one of which has participants that are not plain host:port
	type distAcc struct {
		Name string
		Key  []byte
	}
	mkDistStore := func() (e2wtypes.Store, []distAcc, error) {
		st := scratch.New()
		w, err := distributed.CreateWallet(ctx, "Wallet D", st, keystorev4.New())
		if err != nil {
			return nil, nil, err
		}
		if err := w.(e2wtypes.WalletLocker).Unlock(ctx, nil); err != nil {
			return nil, nil, err
		}
		var out []distAcc
		for i, parts := range []map[uint64]string{
			{1: "signer-test01:8881", 2: "signer-test02:8882", 3: "signer-test03:8883"},
			{1: "[2001:db8::1]:8881", 2: "host-without-port", 3: "signer-test03:notaport"},
		} {
			share, vv := harnessContribution(2, 1, "")
			var vvb [][]byte
			for k := range vv {
				vvb = append(vvb, vv[k].Serialize())
			}
			name := fmt.Sprintf("Dist %d", i)
			if _, err := w.(e2wtypes.WalletDistributedAccountImporter).ImportDistributedAccount(ctx, name, share.Serialize(), 2, vvb, parts, []byte("pass")); err != nil {
				return nil, nil, err
			}
			out = append(out, distAcc{Name: name, Key: share.GetPublicKey().Serialize()})
		}
		return st, out, nil
	}
	for ci := 0; ci < nCfg; ci++ {
		// "=...": an account of the last wallet that holds the SAME key as the first account of the first wallet
		// (a validator key imported into a second wallet)
		fx, err := NewFixture(ctx, 2, 3, false, "=Account 0 migrated")
		if err != nil {
			fmt.Fprintln(os.Stderr, "fixture:", err)
			return 2
		}
		pc := genPermConfig(rng, wg, ag)
		// per-account entries for client1 so that some accounts are visible and others not
		for _, a := range fx.Accounts {
			if rng.Chance(60) {
				ops := []string{"Access account"}
				if rng.Chance(30) {
					ops = []string{"~Access account", "All"}
				}
				pc.Entries["client1"] = append(pc.Entries["client1"], permEntry{W: &Pat{Top: []*rnode{litSeq(a.Wallet)}}, A: &Pat{Top: []*rnode{litSeq(a.Name)}}, Ops: ops})
			}
		}
		if rng.Chance(70) {
			pc.Entries["client1"] = append(pc.Entries["client1"], permEntry{W: &Pat{Top: []*rnode{litSeq("Wallet 1"), litSeq("Wallet 2")}}, A: &Pat{Empty: true}, Ops: []string{"All"}})
		}
		if rng.Chance(70) {
			pc.Entries["client1"] = append(pc.Entries["client1"], permEntry{W: &Pat{Top: []*rnode{litSeq("Wallet D")}}, A: &Pat{Empty: true}, Ops: []string{"Access account"}})
		}
		// put client1's specific entries first so that they decide before any generated broad entry
		if es := pc.Entries["client1"]; len(es) > 0 && rng.Chance(50) {
			for i, j := 0, len(es)-1; i < j; i, j = i+1, j-1 {
				es[i], es[j] = es[j], es[i]
			}
		}
		// an entry that tells two accounts apart whose names share their part before a slash of their own
		pc.Entries["client1"] = append([]permEntry{{W: &Pat{Top: []*rnode{litSeq("Wallet 1")}}, A: &Pat{Top: []*rnode{litSeq("grp/Old 5")}}, Ops: []string{"~Access account", "All"}}}, pc.Entries["client1"]...)
		pc.Clients = append(pc.Clients, "admin")
		pc.Entries["admin"] = []permEntry{{W: &Pat{Top: []*rnode{litSeq("Wallet 1"), litSeq("Wallet E")}}, A: &Pat{Empty: true}, Ops: []string{"Create account"}}}
		if rng.Chance(75) {
			pc.Entries["client1"] = append(pc.Entries["client1"], permEntry{W: &Pat{Top: []*rnode{litSeq("Wallet E")}}, A: &Pat{Empty: true}, Ops: []string{"Access account"}})
		}
		// a wallet that holds no account when the instance starts
		// (in the first store: the process service creates accounts in wallets of the first store only)
		if _, err := nd.CreateWallet(ctx, "Wallet E", fx.Stores[0], keystorev4.New()); err != nil {
			return 2
		}
		distStore, distAccs, err := mkDistStore()
		if err != nil {
			fmt.Fprintln(os.Stderr, "distributed wallet:", err)
			return 2
		}
		node, err := NewNode(ctx, NodeOpts{ID: 1, Stores: append(append([]e2wtypes.Store{}, fx.Stores...), distStore), Perms: pc.toDirk(), PeersMap: map[uint64]string{1: "signer-test01:10001"}})
		if err != nil {
			stats["config.rejected"]++
			continue
		}
		lh, err := listerhandler.New(ctx, listerhandler.WithLister(node.Lister))
		if err != nil {
			return 2
		}
		type acc struct {
			W, N string
			ID   int
			Key  []byte
		}
		all := []acc{}
		for _, a := range fx.Accounts {
			all = append(all, acc{a.Wallet, a.Name, a.ID, a.Key})
		}
		for i, d := range distAccs {
			all = append(all, acc{"Wallet D", d.Name, 201 + i, d.Key})
		}
		var overlay []acc
		nextID := 100
		// judged by the independent reading of the permission semantics (the real checker only where that
		// reading does not apply)
		permitted := func(creds *checker.Credentials, path string) bool {
			if v, ok := specCheck(pc, creds.Client, path, "Access account"); ok {
				return v
			}
			return node.Checker.Check(ctx, creds, path, "Access account")
		}
		defs = append(defs, fmt.Sprintf("Definition t%d : ptable := %s.", ci, pc.coq()))
		for call := 0; call < nCalls; call++ {
			// dynamic creation in between
			if call > 0 && call%5 == 0 {
				// in a wallet with accounts, in the wallet that had none at start-up, and under a name with a slash of its own
				for _, target := range [][2]string{{"Wallet 1", fmt.Sprintf("New %d", call)}, {"Wallet E", fmt.Sprintf("New %d", call)}, {"Wallet 1", fmt.Sprintf("grp/New %d", call)}, {"Wallet 1", fmt.Sprintf("grp/Old %d", call)}} {
					wname, name := target[0], target[1]
					if wname != "Wallet 1" && call != 10 {
						continue
					}
					if strings.Contains(name, "/") && call != 5 {
						continue
					}
					r, pk, _, err := node.AcctMgr.Generate(ctx, &checker.Credentials{Client: "admin"}, wname+"/"+name, []byte("pass"), 1, 1)
					_ = err
					if r == core.ResultSucceeded {
						nextID++
						overlay = append(overlay, acc{wname, name, nextID, pk})
						stats["created"]++
						stats["created."+wname]++
					} else {
						stats["create.refused"]++
						if len(samples) < 12 {
							samples = append(samples, fmt.Sprintf("creation of %s/%s refused: %s %v", wname, name, r, err))
						}
					}
				}
			}
			// ... the cache insertions of overlapping creations at the very same time: what concurrent Generate requests
			// do (services/process/standard generate: CreateAccount, then fetcher.AddAccount, no common lock), with
			// the slow key-store encryption taken out of the window.  (The creations themselves are made one after
			// the other: the in-memory wallet store of the test fixtures is not safe for concurrent writers - whole
			// Generate requests at the same time crashed the harness inside that store, not inside Dirk.)
			if call == 9 && ci < 6 {
				if w, err := node.Fetcher.FetchWallet(ctx, "Wallet 1"); err == nil {
					// the accounts come from a pool made once per run (the key-store encryption of a creation is slow):
					// accounts of a wallet of the same name in a store of its own
					pool := burstPool(ctx)
					for batch := 0; batch < 2 && len(pool) >= 48; batch++ {
						made := pool[24*batch : 24*batch+24]
						start := make(chan struct{})
						var cwg sync.WaitGroup
						for _, a := range made {
							cwg.Add(1)
							go func(a e2wtypes.Account) {
								defer cwg.Done()
								<-start
								_ = node.Fetcher.AddAccount(ctx, w, a)
							}(a)
						}
						close(start)
						cwg.Wait()
						for _, a := range made {
							nextID++
							overlay = append(overlay, acc{"Wallet 1", a.Name(), nextID, a.PublicKey().Marshal()})
							stats["created.burst"]++
						}
					}
				}
			}
			client := []string{"client1", "client1", "client1", "client1", "client1", "client1", "client2", "client2", "nobody", ""}[rng.Intn(10)]
			var paths []listPath
			for n := 1 + rng.Intn(3); n > 0; n-- {
				w := []string{"Wallet 1", "Wallet 2", "Wallet 1", "Wallet 2", "Wallet 1", "Wallet D", "Wallet D", "Wallet 1", "Wallet 9", "wallet 1", "Wallet E", "Wallet E"}[rng.Intn(12)]
				switch r := rng.Intn(20); {
				case r < 6:
					paths = append(paths, listPath{Text: w, W: w})
				case r < 7:
					paths = append(paths, listPath{Text: w + "/", W: w})
				case r < 8:
					paths = append(paths, listPath{Text: "", Bad: true})
				case r < 9:
					paths = append(paths, listPath{Text: "/Account 0", Bad: true})
				case r < 10:
					paths = append(paths, listPath{Text: w + "/(", Bad: true})
				default:
					a := ag.pattern()
					for a.Empty {
						a = ag.pattern()
					}
					if rng.Chance(60) {
						dot := &rnode{kind: "dot"}
						dig := &rnode{kind: "class", rs: [][2]byte{{'0', '9'}}}
						curated := []*Pat{
							{Top: []*rnode{{kind: "seq", kids: []*rnode{litSeq("Account "), dot}}}},
							{Top: []*rnode{{kind: "seq", kids: []*rnode{litSeq("Account "), {kind: "plus", kids: []*rnode{dig}}}}}},
							{Top: []*rnode{{kind: "star", kids: []*rnode{dot}}}},
							{Top: []*rnode{litSeq("Account 0"), litSeq("Account 1")}},
							{Top: []*rnode{litSeq("Account 1"), litSeq("New 5")}},
							{Top: []*rnode{{kind: "seq", kids: []*rnode{litSeq("New"), {kind: "star", kids: []*rnode{dot}}}}}},
							{Top: []*rnode{litSeq("Account"), litSeq("Account 2")}},
							{Top: []*rnode{{kind: "seq", kids: []*rnode{{kind: "bol"}, litSeq("Account 0")}}, litSeq("Account 1")}},
						}
						a = curated[rng.Intn(len(curated))]
					}
					paths = append(paths, listPath{Text: w + "/" + a.goText(), W: w, A: a})
				}
			}
			var texts []string
			for _, p := range paths {
				texts = append(texts, p.Text)
			}
			creds := &checker.Credentials{Client: client, IP: "10.0.0.1"}
			res, accounts := node.Lister.ListAccounts(ctx, creds, texts)
			if res != core.ResultSucceeded {
				monFail = append(monFail, fmt.Sprintf("ListAccounts(%v) by %q answered %s", texts, client, res))
			}
			var obs []string
			var got []string
			for _, a := range accounts {
				wn := ""
				if wp, ok := a.(e2wtypes.AccountWalletProvider); ok {
					wn = wp.Wallet().Name()
				}
				kid := 0
				for _, x := range append(append([]acc{}, all...), overlay...) {
					if string(x.Key) == string(a.PublicKey().Marshal()) {
						kid = x.ID
					}
				}
				obs = append(obs, fmt.Sprintf("(%s, %s, %s)", coqStr(wn), coqStr(a.Name()), coqN(kid)))
				got = append(got, wn+"/"+a.Name())
				// soundness, judged with the real checker: permitted and inside a requested wallet
				if !permitted(creds, wn+"/"+a.Name()) {
					monFail = append(monFail, fmt.Sprintf("permissions {%s}: listing %v for %q returned %s/%s without the Access account permission", pc.text(), texts, client, wn, a.Name()))
				}
				inReq := false
				for _, p := range paths {
					if !p.Bad && p.W == wn {
						inReq = true
					}
				}
				if !inReq {
					monFail = append(monFail, fmt.Sprintf("listing %v returned %s/%s, outside the requested wallets", texts, wn, a.Name()))
				}
				if kid == 0 {
					monFail = append(monFail, fmt.Sprintf("listing %v returned %s/%s with a public key that is not that account's", texts, wn, a.Name()))
				}
			}
			// completeness: every permitted account whose whole name matches a requested path
			for _, x := range append(append([]acc{}, all...), overlay...) {
				for _, p := range paths {
					if p.Bad || p.W != x.W {
						continue
					}
					matches := p.A == nil
					if p.A != nil {
						if re, err := regexp.Compile("^(?:" + p.A.goText() + ")$"); err == nil {
							matches = re.MatchString(x.N)
						}
					}
					if matches && permitted(creds, x.W+"/"+x.N) {
						found := false
						for _, g := range got {
							if g == x.W+"/"+x.N {
								found = true
							}
						}
						if !found {
							monFail = append(monFail, fmt.Sprintf("permissions {%s}: listing %v for %q omits %s/%s although it matches and is permitted", pc.text(), texts, client, x.W, x.N))
						}
					}
				}
			}
			// the gRPC handler returns the same accounts
			hres, err := lh.ListAccounts(ctxWithClient(ctx, client, "10.0.0.1"), &pb.ListAccountsRequest{Paths: texts})
			if err != nil || hres.GetState() != pb.ResponseState_SUCCEEDED {
				monFail = append(monFail, fmt.Sprintf("handler ListAccounts(%v): err %v", texts, err))
			} else {
				var hn []string
				for _, a := range hres.GetAccounts() {
					hn = append(hn, a.GetName())
				}
				for _, a := range hres.GetDistributedAccounts() {
					hn = append(hn, a.GetName())
				}
				sort.Strings(hn)
				g2 := append([]string{}, got...)
				sort.Strings(g2)
				if strings.Join(hn, ",") != strings.Join(g2, ",") {
					monFail = append(monFail, fmt.Sprintf("handler ListAccounts(%v) returned %v, the service %v", texts, hn, g2))
				}
			}
			var cps []string
			for _, p := range paths {
				cps = append(cps, p.coq())
			}
			var ov []string
			for _, x := range overlay {
				ov = append(ov, fmt.Sprintf("(AC %s %s %s true true)", coqStr(x.W), coqStr(x.N), coqN(x.ID)))
			}
			id++
			baseAccts := "(" + coqAccounts(fx) + " ++ [AC \"Wallet D\" \"Dist 0\" 201%N true true; AC \"Wallet D\" \"Dist 1\" 202%N true true])%list"
			lcases = append(lcases, fmt.Sprintf(" LC %s (WD grouped t%d %s %s %s) %s %s %s", coqN(id), ci, coqStrList([]string{"Wallet 1", "Wallet 2", "Wallet D", "Wallet E"}),
				baseAccts, coqList(ov), coqStr(client), coqList(cps), coqList(obs)))
			idx[fmt.Sprint(id)] = fmt.Sprintf("permissions {%s} created %d; ListAccounts(%q) by %q = %v", pc.text(), len(overlay), texts, client, got)
			distinct[fmt.Sprintf("%d|%s|%v|%d", ci, client, texts, len(overlay))] = true
			stats[fmt.Sprintf("returned.%d", min(len(got), 5))]++
			if len(samples) < 4 && len(got) > 0 {
				samples = append(samples, idx[fmt.Sprint(id)])
			}
		}
		node.Close(ctx)
	}
	var b strings.Builder
	b.WriteString("From DV Require Import Corr.CheckChecker.\nLocal Open Scope string_scope.\n")
	b.WriteString("Definition grouped : bool := true.\n")
	b.WriteString(strings.Join(defs, "\n") + "\n")
	fmt.Fprintf(&b, "Definition cases : list lcase := [\n%s].\n", strings.Join(lcases, ";\n"))
	b.WriteString("Definition M := Eval vm_compute in lister_mismatches cases.\nPrint M.\n")
	if err := os.WriteFile(filepath.Join(cf.out, "cases_C18_0.v"), []byte(b.String()), 0o644); err != nil {
		return 2
	}
	sum := &Summary{Property: "C18", Seed: cf.seed, Tier: cf.tier, Evaluations: len(lcases), Distinct: len(distinct),
		Rule:         "permission configurations (grammar of C07 plus per-account Access entries) x lists of 1-3 requested paths (wallet only, trailing slash, wallet/expression from the pattern grammar, unknown wallet, wrong-case wallet, empty, leading slash, expression that does not compile) x clients (permitted, other, unknown, empty), before and after accounts are created through the real account manager; result compared as a multiset of (wallet, name, key) through lister.Service and the gRPC handler; soundness and completeness also judged with the real checker; distinct = distinct (configuration, client, paths, accounts created so far)",
		Histories:    nCfg,
		Distribution: stats, Samples: samples, MonitorFailures: monFail, CaseFiles: []string{"cases_C18_0.v"}, CaseIndex: idx}
	if err := writeSummary(cf.out, sum); err != nil {
		return 2
	}
	return 0
}

// burstPool: 48 accounts of a wallet named "Wallet 1" in a store of its own, created once per run.
var (
	burstOnce sync.Once
	burstAccs []e2wtypes.Account
)

func burstPool(ctx context.Context) []e2wtypes.Account {
	burstOnce.Do(func() {
		w, err := nd.CreateWallet(ctx, "Wallet 1", scratch.New(), keystorev4.New())
		if err != nil {
			return
		}
		if l, ok := w.(e2wtypes.WalletLocker); ok {
			_ = l.Unlock(ctx, nil)
		}
		for j := 0; j < 48; j++ {
			a, err := w.(e2wtypes.WalletAccountCreator).CreateAccount(ctx, fmt.Sprintf("Burst %d", j), []byte("pass"))
			if err != nil {
				return
			}
			burstAccs = append(burstAccs, a)
		}
	})
	return burstAccs
}
