module verif/harness

go 1.22.0

require (
	github.com/attestantio/dirk v0.0.0
	github.com/attestantio/go-eth2-client v0.21.11
	github.com/dgraph-io/badger/v2 v2.2007.4
	github.com/herumi/bls-eth-go-binary v1.36.1
	github.com/mitchellh/go-homedir v1.1.0
	github.com/rs/zerolog v1.33.0
	github.com/spf13/viper v1.19.0
	github.com/wealdtech/eth2-signer-api v1.7.2
	github.com/wealdtech/go-eth2-types/v2 v2.8.2
	github.com/wealdtech/go-eth2-wallet-distributed v1.2.1
	github.com/wealdtech/go-eth2-wallet-encryptor-keystorev4 v1.4.1
	github.com/wealdtech/go-eth2-wallet-nd/v2 v2.5.0
	github.com/wealdtech/go-eth2-wallet-store-scratch v1.7.2
	github.com/wealdtech/go-eth2-wallet-types/v2 v2.12.0
	google.golang.org/grpc v1.66.2
	google.golang.org/protobuf v1.34.2
)

require (
	cloud.google.com/go/auth v0.9.4 // indirect
	cloud.google.com/go/auth/oauth2adapt v0.2.4 // indirect
	cloud.google.com/go/compute/metadata v0.5.1 // indirect
	cloud.google.com/go/iam v1.2.1 // indirect
	cloud.google.com/go/secretmanager v1.14.1 // indirect
	github.com/aws/aws-sdk-go v1.55.5 // indirect
	github.com/beorn7/perks v1.0.1 // indirect
	github.com/cespare/xxhash v1.1.0 // indirect
	github.com/cespare/xxhash/v2 v2.3.0 // indirect
	github.com/davecgh/go-spew v1.1.2-0.20180830191138-d8f796af33cc // indirect
	github.com/dgraph-io/ristretto v0.2.0 // indirect
	github.com/dgryski/go-farm v0.0.0-20200201041132-a6ae2369ad13 // indirect
	github.com/dustin/go-humanize v1.0.1 // indirect
	github.com/emicklei/dot v1.6.2 // indirect
	github.com/fatih/color v1.17.0 // indirect
	github.com/felixge/httpsnoop v1.0.4 // indirect
	github.com/ferranbt/fastssz v0.1.4 // indirect
	github.com/fsnotify/fsnotify v1.7.0 // indirect
	github.com/go-logr/logr v1.4.2 // indirect
	github.com/go-logr/stdr v1.2.2 // indirect
	github.com/goccy/go-yaml v1.9.2 // indirect
	github.com/golang/groupcache v0.0.0-20210331224755-41bb18bfe9da // indirect
	github.com/golang/protobuf v1.5.4 // indirect
	github.com/golang/snappy v0.0.4 // indirect
	github.com/google/s2a-go v0.1.8 // indirect
	github.com/google/uuid v1.6.0 // indirect
	github.com/googleapis/enterprise-certificate-proxy v0.3.4 // indirect
	github.com/googleapis/gax-go/v2 v2.13.0 // indirect
	github.com/grpc-ecosystem/go-grpc-middleware v1.4.0 // indirect
	github.com/hashicorp/hcl v1.0.0 // indirect
	github.com/jackc/puddle v1.3.0 // indirect
	github.com/jmespath/go-jmespath v0.4.0 // indirect
	github.com/klauspost/compress v1.17.9 // indirect
	github.com/klauspost/cpuid/v2 v2.2.8 // indirect
	github.com/magiconair/properties v1.8.7 // indirect
	github.com/mattn/go-colorable v0.1.13 // indirect
	github.com/mattn/go-isatty v0.0.20 // indirect
	github.com/minio/sha256-simd v1.0.1 // indirect
	github.com/mitchellh/mapstructure v1.5.0 // indirect
	github.com/munnerz/goautoneg v0.0.0-20191010083416-a7dc8b61c822 // indirect
	github.com/opentracing/opentracing-go v1.2.0 // indirect
	github.com/pelletier/go-toml/v2 v2.2.3 // indirect
	github.com/pkg/errors v0.9.1 // indirect
	github.com/pmezard/go-difflib v1.0.1-0.20181226105442-5d4384ee4fb2 // indirect
	github.com/prometheus/client_golang v1.20.4 // indirect
	github.com/prometheus/client_model v0.6.1 // indirect
	github.com/prometheus/common v0.59.1 // indirect
	github.com/prometheus/procfs v0.15.1 // indirect
	github.com/prysmaticlabs/go-bitfield v0.0.0-20240618144021-706c95b2dd15 // indirect
	github.com/sagikazarmark/slog-shim v0.1.0 // indirect
	github.com/shibukawa/configdir v0.0.0-20170330084843-e180dbdc8da0 // indirect
	github.com/spf13/afero v1.11.0 // indirect
	github.com/spf13/cast v1.7.0 // indirect
	github.com/spf13/pflag v1.0.5 // indirect
	github.com/stretchr/testify v1.9.0 // indirect
	github.com/subosito/gotenv v1.6.0 // indirect
	github.com/wealdtech/go-bytesutil v1.2.1 // indirect
	github.com/wealdtech/go-ecodec v1.1.4 // indirect
	github.com/wealdtech/go-eth2-util v1.8.2 // indirect
	github.com/wealdtech/go-eth2-wallet v1.17.0 // indirect
	github.com/wealdtech/go-eth2-wallet-hd/v2 v2.7.1 // indirect
	github.com/wealdtech/go-eth2-wallet-keystore v1.0.0 // indirect
	github.com/wealdtech/go-eth2-wallet-store-filesystem v1.18.1 // indirect
	github.com/wealdtech/go-eth2-wallet-store-s3 v1.12.0 // indirect
	github.com/wealdtech/go-indexer v1.1.0 // indirect
	github.com/wealdtech/go-majordomo v1.1.1 // indirect
	go.opencensus.io v0.24.0 // indirect
	go.opentelemetry.io/contrib/instrumentation/google.golang.org/grpc/otelgrpc v0.55.0 // indirect
	go.opentelemetry.io/contrib/instrumentation/net/http/otelhttp v0.55.0 // indirect
	go.opentelemetry.io/otel v1.30.0 // indirect
	go.opentelemetry.io/otel/metric v1.30.0 // indirect
	go.opentelemetry.io/otel/trace v1.30.0 // indirect
	golang.org/x/crypto v0.27.0 // indirect
	golang.org/x/net v0.29.0 // indirect
	golang.org/x/oauth2 v0.23.0 // indirect
	golang.org/x/sync v0.8.0 // indirect
	golang.org/x/sys v0.25.0 // indirect
	golang.org/x/text v0.18.0 // indirect
	golang.org/x/time v0.6.0 // indirect
	golang.org/x/xerrors v0.0.0-20240903120638-7835f813f4da // indirect
	google.golang.org/api v0.197.0 // indirect
	google.golang.org/genproto v0.0.0-20240903143218-8af14fe29dc1 // indirect
	google.golang.org/genproto/googleapis/api v0.0.0-20240903143218-8af14fe29dc1 // indirect
	google.golang.org/genproto/googleapis/rpc v0.0.0-20240903143218-8af14fe29dc1 // indirect
	gopkg.in/ini.v1 v1.67.0 // indirect
	gopkg.in/yaml.v2 v2.4.0 // indirect
	gopkg.in/yaml.v3 v3.0.1 // indirect
)

replace github.com/attestantio/dirk => /repo
