(* C01 - no slashable attestation is ever signed for a key.
   This file holds only the statement, its closing `exact`, non-vacuity examples and the
   refutation of the legacy (pre-fix) variant. *)
From DV Require Import Model.Paths Proofs.PathsProofs Model.Instance Proofs.SignerProofs Proofs.InstanceProofs Proofs.Examples Proofs.ExampleProofs.
Local Open Scope Z_scope.

(* slashable (a b : source * target) := same target, or one surrounds the other; the definition is
   in Proofs/InstanceProofs.v and repeated here for the reader:
     snd a = snd b \/ (fst a < fst b /\ snd b < snd a) \/ (fst b < fst a /\ snd a < snd b) *)

(* For every configuration with the 2^63 guard, every initial protection store, every finite
   history of requests - single and batched attestations, proposals, generic and multi signing,
   restarts; accounts addressed by name or by key; keys repeated inside a batch; any uint64
   epochs (op_ok only says numbers are >= 0 and that an injected ruler fault never says
   APPROVED); any fault schedule - and every key: the attestations released for the key have
   strictly increasing targets and non-decreasing sources, hence no two of them are slashable,
   and the stored watermark dominates them all. *)
Theorem C01_no_slashable_attestation :
  forall (c : scfg) (st0 : store) (h : list op) (k : N),
    guard63 (sc_rules c) = true -> Forall op_ok h ->
    let R := released_att k (snd (run c st0 h)) in
    let stf := fst (run c st0 h) in
    att_sorted R /\
    (forall i j a b, i <> j -> nth_error R i = Some a -> nth_error R j = Some b -> ~ slashable a b) /\
    (forall a, In a R -> fst a <= a_src (view_att stf k) /\ snd a <= a_tgt (view_att stf k)).
Proof. exact C01_main. Qed.
Print Assumptions C01_no_slashable_attestation.

(* non-vacuity: a history meeting the hypotheses in which several duties are signed for key 1,
   conflicting ones are refused, and a restart happens *)
Example C01_example :
  guard63 (sc_rules (ex_cfg true)) = true /\
  released_att 1 (snd (run (ex_cfg true) empty_store ex_history)) = [(0, 0); (0, 1); (1, 2); (2, 5)].
Proof. split; vm_compute; reflexivity. Qed.
Example C01_example_ok : Forall op_ok ex_history.
Proof. exact ex_history_ok. Qed.

(* the variant without the guard (the code before the fix) signs a double vote at target 2^63 *)
Lemma C01_refuted_legacy :
  exists h a b, Forall op_ok h /\
    released_att 1 (snd (run (ex_cfg false) empty_store h)) = [a; b] /\ slashable a b.
Proof. exact C01_legacy_witness. Qed.

(* "Over its lifetime", restarts in between: the attestation watermarks bind a restarted daemon only if it
   opens the same store again.  main.go opens the store at util.ResolvePath(storage-path); for every
   path, the location depends on the configured base directory and the user's home directory only -
   not on the directory the daemon is started from - and it is absolute whenever those two are. *)
Theorem C01_store_found_again_after_restart :
  forall (e1 e2 : penv) (p : string),
    pe_home e1 = pe_home e2 -> pe_base e1 = pe_base e2 ->
    resolve_path e1 p = resolve_path e2 p /\
    (is_abs (pe_home e1) = true -> (pe_base e1 = ""%string \/ is_abs (pe_base e1) = true) -> is_abs (resolve_path e1 p) = true).
Proof. intros e1 e2 p Hh Hb; split; [exact (resolve_path_ignores_cwd e1 e2 p Hh Hb)|exact (resolve_path_abs e1 p)]. Qed.
Print Assumptions C01_store_found_again_after_restart.

(* a variant that falls back to the working directory when no home directory is known opens another store *)
Lemma C01_refuted_cwd_fallback :
  let e1 := {| pe_cwd := "/"; pe_home := "/root"; pe_base := "" |} in
  let e2 := {| pe_cwd := "/tmp"; pe_home := "/root"; pe_base := "" |} in
  (resolve_path_cwd_fallback false e1 "storage" = "/storage" /\
   resolve_path_cwd_fallback false e2 "storage" = "/tmp/storage" /\
   resolve_path e1 "storage" = "/root/storage" /\ resolve_path e2 "storage" = "/root/storage")%string.
Proof. exact cwd_fallback_witness. Qed.
