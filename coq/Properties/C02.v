(* C02 - no two different block proposals for one slot; slots strictly increase. *)
From DV Require Import Model.Instance Proofs.SignerProofs Proofs.InstanceProofs Proofs.Examples Proofs.ExampleProofs.
Local Open Scope Z_scope.

(* For every configuration with the 2^63 guard, initial store, finite history (as in C01: all
   request kinds, by name or key, restarts, any uint64 slot, any fault schedule) and key: the
   slots of the proposals released for the key are strictly increasing - so no slot is signed
   twice, with the same or with different contents - and the stored watermark dominates them. *)
Theorem C02_no_double_proposal :
  forall (c : scfg) (st0 : store) (h : list op) (k : N),
    guard63 (sc_rules c) = true -> Forall op_ok h ->
    let R := released_prop k (snd (run c st0 h)) in
    let stf := fst (run c st0 h) in
    slot_sorted R /\
    (forall i j a b, i <> j -> nth_error R i = Some a -> nth_error R j = Some b -> a <> b) /\
    (forall a, In a R -> a <= view_prop stf k).
Proof. exact C02_main. Qed.
Print Assumptions C02_no_double_proposal.

Example C02_example :
  Forall op_ok ex_history /\
  released_prop 1 (snd (run (ex_cfg true) empty_store ex_history)) = [10; 11].
Proof. split; [exact ex_history_ok|vm_compute; reflexivity]. Qed.

(* the variant without the guard signs slot 2^63 twice *)
Lemma C02_refuted_legacy :
  exists h a, Forall op_ok h /\ released_prop 1 (snd (run (ex_cfg false) empty_store h)) = [a; a].
Proof. exact C02_legacy_witness. Qed.
