(* check, the loop-shaped model of Check(), is equivalent to a declarative specification:
   the first item (entry by entry among the matching entries, item by item inside an entry) that
   bears on the operation decides, and it must allow. *)
From DV Require Import Model.Checker Proofs.RegexProofs.
From Coq Require Import Lia PeanoNat Arith.
Local Open Scope string_scope.

Definition denies (x op : string) : bool := eqfold x "none" || eqfold x ("~" ++ op).
Definition allows (x op : string) : bool := negb (denies x op) && (eqfold x "all" || eqfold x op).
Definition bears (x op : string) : bool := denies x op || allows x op.

(* item j of ops is the first one bearing on op *)
Definition first_bearing (ops : list string) (op : string) (j : nat) (x : string) : Prop :=
  nth_error ops j = Some x /\ bears x op = true /\
  forall j' y, (j' < j)%nat -> nth_error ops j' = Some y -> bears y op = false.

Lemma scan_ops_spec ops op :
  match scan_ops ops op with
  | Some b => exists j x, first_bearing ops op j x /\ b = allows x op
  | None => forall j y, nth_error ops j = Some y -> bears y op = false
  end.
Proof.
  induction ops as [|x ops IH]; cbn [scan_ops].
  - intros j y H. destruct j; discriminate.
  - destruct (eqfold x "none" || eqfold x ("~" ++ op)) eqn:Ed.
    + exists 0%nat, x. split.
      * split; [reflexivity|]. split; [unfold bears, denies; now rewrite Ed|]. intros j' y Hj. lia.
      * unfold allows, denies. now rewrite Ed.
    + destruct (eqfold x "all" || eqfold x op) eqn:Ea.
      * exists 0%nat, x. split.
        -- split; [reflexivity|]. split; [unfold bears, allows, denies; rewrite Ed, Ea; reflexivity|]. intros j' y Hj. lia.
        -- unfold allows, denies. now rewrite Ed, Ea.
      * assert (Hx : bears x op = false) by (unfold bears, allows, denies; now rewrite Ed, Ea).
        destruct (scan_ops ops op) as [b|].
        -- destruct IH as (j & y & (Hn & Hb & Hf) & ->). exists (S j), y. split; auto.
           split; [exact Hn|]. split; [exact Hb|]. intros j' z Hj Hz. destruct j' as [|j'].
           ++ cbn in Hz. injection Hz as <-. exact Hx.
           ++ cbn in Hz. apply (Hf j' z); [lia|exact Hz].
        -- intros j y Hy. destruct j as [|j]; cbn in Hy; [injection Hy as <-; exact Hx|]. eapply IH; eauto.
Qed.

Definition entry_matches (g : bool) (e : pentry) (w a : string) : bool :=
  pat_match g (pe_wallet e) w && pat_match g (pe_account e) a.

(* entry i is the first matching entry with an item bearing on op; that item is j *)
Definition deciding (g : bool) (es : list pentry) (w a op : string) (i j : nat) (x : string) : Prop :=
  exists e, nth_error es i = Some e /\ entry_matches g e w a = true /\ first_bearing (pe_ops e) op j x /\
  forall i' e', (i' < i)%nat -> nth_error es i' = Some e' ->
     entry_matches g e' w a = false \/ forall j' y, nth_error (pe_ops e') j' = Some y -> bears y op = false.

Lemma scan_entries_spec g es w a op :
  scan_entries g es w a op = true <-> exists i j x, deciding g es w a op i j x /\ allows x op = true.
Proof.
  induction es as [|e es IH]; cbn [scan_entries].
  - split; [discriminate|]. intros (i & j & x & (e & Hn & _) & _). destruct i; discriminate.
  - fold (entry_matches g e w a). destruct (entry_matches g e w a) eqn:Em.
    + pose proof (scan_ops_spec (pe_ops e) op) as Hs. destruct (scan_ops (pe_ops e) op) as [b|].
      * destruct Hs as (j & x & Hfb & ->). split.
        -- intros Ha. exists 0%nat, j, x. split; auto. exists e. repeat split; auto; try apply Hfb. intros i' e' Hi. lia.
        -- intros (i & j' & x' & (e0 & Hn & Hm & Hfb' & Hprev) & Ha). destruct i as [|i].
           ++ cbn in Hn. injection Hn as <-.
              destruct Hfb as (N1 & B1 & F1). destruct Hfb' as (N2 & B2 & F2).
              destruct (Nat.lt_trichotomy j j') as [L|[->|L]].
              ** rewrite (F2 j x L N1) in B1. discriminate.
              ** rewrite N1 in N2. injection N2 as <-. exact Ha.
              ** rewrite (F1 j' x' L N2) in B2. discriminate.
           ++ exfalso. destruct (Hprev 0%nat e ltac:(lia) eq_refl) as [H|H]; [congruence|].
              destruct Hfb as (N1 & B1 & _). rewrite (H j x N1) in B1. discriminate.
      * rewrite IH. split.
        -- intros (i & j & x & (e0 & Hn & Hm & Hfb & Hprev) & Ha). exists (S i), j, x. split; auto.
           exists e0. repeat split; auto; try apply Hfb. intros i' e' Hi Hn'. destruct i' as [|i'].
           ++ cbn in Hn'. injection Hn' as <-. right. exact Hs.
           ++ cbn in Hn'. apply (Hprev i' e'); [lia|exact Hn'].
        -- intros (i & j & x & (e0 & Hn & Hm & Hfb & Hprev) & Ha). destruct i as [|i].
           ++ cbn in Hn. injection Hn as <-. destruct Hfb as (N1 & B1 & _). rewrite (Hs j x N1) in B1. discriminate.
           ++ exists i, j, x. split; auto. exists e0. repeat split; auto; try apply Hfb.
              intros i' e' Hi Hn'. apply (Hprev (S i') e'); [lia|exact Hn'].
    + rewrite IH. split.
      * intros (i & j & x & (e0 & Hn & Hm & Hfb & Hprev) & Ha). exists (S i), j, x. split; auto.
        exists e0. repeat split; auto; try apply Hfb. intros i' e' Hi Hn'. destruct i' as [|i'].
        -- cbn in Hn'. injection Hn' as <-. now left.
        -- cbn in Hn'. apply (Hprev i' e'); [lia|exact Hn'].
      * intros (i & j & x & (e0 & Hn & Hm & Hfb & Hprev) & Ha). destruct i as [|i].
        -- cbn in Hn. injection Hn as <-. congruence.
        -- exists i, j, x. split; auto. exists e0. repeat split; auto; try apply Hfb.
           intros i' e' Hi Hn'. apply (Hprev (S i') e'); [lia|exact Hn'].
Qed.

Theorem check_spec g t client path op :
  check g t client path op = true <->
  client <> "" /\
  exists w a es, wallet_and_account path = Some (w, a) /\ w <> "" /\ table_find t client = Some es /\
    exists i j x, deciding g es w a op i j x /\ allows x op = true.
Proof.
  unfold check. destruct (String.eqb_spec client "") as [->|Hc].
  - split; [discriminate|]. intros [H _]. congruence.
  - destruct (wallet_and_account path) as [[w a]|].
    2:{ split; [discriminate|]. intros (_ & w & a & es & H & _). discriminate. }
    destruct (String.eqb_spec w "") as [->|Hw].
    { split; [discriminate|]. intros (_ & w & a' & es & H & Hw & _). injection H as <- <-. congruence. }
    destruct (table_find t client) as [es|].
    2:{ split; [discriminate|]. intros (_ & w' & a' & es & _ & _ & H & _). discriminate. }
    rewrite scan_entries_spec. split.
    + intros H. split; auto. exists w, a, es. auto.
    + intros (_ & w' & a' & es' & H1 & _ & H2 & H3). injection H1 as <- <-. injection H2 as <-. exact H3.
Qed.

(* with the repaired anchoring a pattern matches exactly the names its alternatives match entirely,
   case-insensitively *)
Theorem pat_match_grouped p name :
  pat_match true p name = match p with None => true | Some top => accept true true (alts top) (bytes_of name) end.
Proof. destruct p as [top|]; [apply search_grouped|reflexivity]. Qed.
