(* C04 - concurrent requests on a key behave as if processed one at a time. *)
From DV Require Import Model.ConcRules Model.ConcVariants Proofs.ConcProofs Proofs.ConcRulesProofs Proofs.ConcVariantsProofs Proofs.ConcRefine.
From Coq Require Import Permutation.
Local Open Scope Z_scope.

(* World: the shared protection store, the locker-wide mutex, the per-key mutexes, one thread per
   request (any number, any key lists), the commit log.  A thread walks
      PreLock; Lock k1..kn; PostLock; Fetch k1..kn; Commit; Unlock kn..k1; Return.
   creach c s0 rs w: w is reachable from the initial world by ANY schedule (any interleaving, of any
   length).  cser: the requests executed one at a time (read, decide, write) - the same decision
   function, which for attestations / proposals is the rule kernel of C01/C02.

   (a) Serializability: in every reachable world in which all requests have returned, the requests
       in commit order form a serial execution from the initial store that ends in exactly the
       store reached and gives every request exactly the verdicts it returned; the commit order is
       a permutation of the requests. *)
Theorem C04_serializable :
  forall c s0 rs (w : cworld),
    creach c s0 rs w -> all_finished _ _ _ w ->
    let order := rev (w_log w) in
    cser c s0 (map (log_req _ _) order) = (w_store w, map (log_out _ _) order) /\
    Permutation (map (tid _ _) order) (seq 0 (List.length rs)) /\
    (forall t th, nth_error (w_threads w) t = Some th ->
       nth_error rs t = Some (t_req th) /\ exists v, t_ph th = PDone v /\ In (t, t_req th, v) order).
Proof. exact conc_serializable. Qed.
Print Assumptions C04_serializable.

(* (b) Real-time order: if at some point request a has returned and request b has not started, then
   in every later world a's commit is older than everything committed since - in particular than
   b's: the serial order is compatible with real time. *)
Theorem C04_realtime_order :
  forall c s0 rs (w : cworld) sched w' a b tha thb,
    creach c s0 rs w -> crun_sched c w sched = Some w' ->
    nth_error (w_threads w) a = Some tha -> finished tha = true ->
    nth_error (w_threads w) b = Some thb -> t_ph thb = PStart ->
    exists newer, w_log w' = (newer ++ w_log w)%list /\ In a (map (tid _ _) (w_log w)) /\ ~ In b (map (tid _ _) (w_log w)).
Proof. exact conc_realtime. Qed.
Print Assumptions C04_realtime_order.

(* (c) The serial execution of (a) is a run of the ruler / rules model that C01, C02 and C05 are proved
   about: if the protocol's store abstracts a protection store st0 (abs: every key's value is that
   store's attestation record and proposal slot), then in every reachable completed world the verdicts
   returned, in commit order, are exactly those of the sequential rules model run from st0 on the same
   requests, and the store reached abstracts the store that run reaches. *)
Theorem C04_concurrent_is_sequential_rules :
  forall c cs0 st0 rs (w : cworld),
    abs cs0 st0 -> creach c cs0 rs w -> all_finished _ _ _ w ->
    let order := rev (w_log w) in
    map (log_out _ _) order = snd (rrun c st0 (map (log_req _ _) order)) /\
    abs (w_store w) (fst (rrun c st0 (map (log_req _ _) order))).
Proof. exact concurrent_is_sequential_rules. Qed.
Print Assumptions C04_concurrent_is_sequential_rules.

(* Consequences through (a): since every concurrent outcome is a serial history, C01/C02 apply to
   it: two conflicting requests for a key are never both approved, an approved update is never
   lost (the final record is that of the last commit), and a request approved in every compatible
   order is approved.

   PARTIAL: sync.Mutex, sync.Map and the Go memory model are trusted to implement the two kinds of
   lock; that the ruler performs exactly this sequence of locker and store calls is what the
   correspondence check establishes. *)

(* locking only the first key of each request: two batches sharing their second key both approve it *)
Lemma C04_refuted_first_key_only :
  exists w, run_sched_v ckeys (cdecide rc) true false (init s0 [x12; y23]) interleave = Some w /\
            map (fun e => snd e) (w_log w) = [[RApproved; RApproved]; [RApproved; RApproved]].
Proof. exact double_approval_first_key_only. Qed.

(* non-vacuity: the same two batches under the real protocol, same interleaving attempt, are serialised *)
Example C04_example :
  exists w, crun_sched rc (init s0 [x12; y23])
      [0;0;0;0; 1; 0;0;0;0;0;0; 1;1;1;1;1;1;1;1;1]%nat = Some w /\
    map (fun e => snd e) (rev (w_log w)) = [[RApproved; RApproved]; [RApproved; RDenied]].
Proof. eexists. split; vm_compute; reflexivity. Qed.
