(* An account distributed over n Dirk instances: every instance runs the single-instance model on its
   own share key and its own protection store; a client routes requests to instances as it likes. *)
From DV Require Export Model.Instance Model.Dkg.
Local Open Scope Z_scope.

Record member := { m_cfg : scfg; m_store : store; m_key : N }.   (* configuration, store, share public key *)

(* a cluster history: each request goes to one instance (by index); any multiset, order, repetition *)
Definition project (i : nat) (h : list (nat * op)) : list op :=
  map snd (filter (fun x => Nat.eqb (fst x) i) h).

(* the signatures instance i released for its share key over the whole history *)
Definition member_released (m : member) (i : nat) (h : list (nat * op)) : list sigd :=
  released (snd (run (m_cfg m) (m_store m) (project i h))).

(* instance i produced a partial signature over duty d *)
Definition signed_by (m : member) (i : nat) (h : list (nat * op)) (d : msg) : Prop :=
  In {| sg_key := m_key m; sg_msg := d |} (member_released m i h).

(* two duties a validator must never both sign *)
Definition conflicting (d1 d2 : msg) : Prop :=
  d1 <> d2 /\
  match d1, d2 with
  | MAtt _ _ _ s1 _ t1 _ _, MAtt _ _ _ s2 _ t2 _ _ => t1 = t2 \/ (s1 < s2 /\ t2 < t1) \/ (s2 < s1 /\ t1 < t2)
  | MProp sl1 _ _ _ _ _, MProp sl2 _ _ _ _ _ => sl1 = sl2
  | _, _ => False
  end.

(* S lists (without repetition) instances of the cluster that each produced a partial signature over d *)
Definition signers (ms : list member) (h : list (nat * op)) (d : msg) (S : list nat) : Prop :=
  NoDup S /\ forall i, In i S -> exists m, nth_error ms i = Some m /\ signed_by m i h d.
