(* Correspondence for export and the record codec. *)
From DV Require Export Model.Interchange Model.Codec Corr.CheckImport.
Local Open Scope Z_scope.

(* a raw record as found on disk after the implementation wrote it *)
Record ccase := CC { cc_id : N; cc_att : bool; cc_bytes : bytes; cc_a : Z; cc_b : Z }.   (* att: (src,tgt); prop: (slot,0) *)

Definition no_gob_att (_ : bytes) : option astate := None.
Definition no_gob_prop (_ : bytes) : option Z := None.

Definition check_codec (c : ccase) : bool :=
  if cc_att c then
    bytes_eqb (encode_att {| a_src := cc_a c; a_tgt := cc_b c |}) (cc_bytes c) &&
    match decode_att no_gob_att (cc_bytes c) with
    | Some a => (a_src a =? cc_a c) && (a_tgt a =? cc_b c) | None => false end
  else
    bytes_eqb (encode_prop (cc_a c)) (cc_bytes c) &&
    match decode_prop no_gob_prop (cc_bytes c) with Some s => s =? cc_a c | None => false end.
Definition codec_mismatches (l : list ccase) : list N := map cc_id (filter (fun c => negb (check_codec c)) l).

(* the binary's export, one tuple per key: (key, slot or None, (src, tgt) or None) *)
Record xcase := XC { xc_id : N; xc_st : store; xc_out : list (N * option Z * option (Z * Z)) }.

Definition entry_matches (e : fentry) (o : N * option Z * option (Z * Z)) : bool :=
  let '(k, sl, ao) := o in
  match fe_key e with Some k' => N.eqb k k' | None => false end &&
  match fe_blocks e, sl with
  | [], None => true | [PVal z], Some z' => z =? z' | _, _ => false end &&
  match fe_atts e, ao with
  | [], None => true | [(PVal a, PVal b)], Some (a', b') => (a =? a') && (b =? b') | _, _ => false end.

(* same entries, in any order (the implementation iterates a Go map) *)
Definition check_export (c : xcase) : bool :=
  let model := if_data (export_cmd "" (xc_st c)) in
  (List.length model =? List.length (xc_out c))%nat &&
  forallb (fun e => existsb (entry_matches e) (xc_out c)) model.
Definition export_mismatches (l : list xcase) : list N := map xc_id (filter (fun c => negb (check_export c)) l).
