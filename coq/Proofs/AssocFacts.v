From DV Require Import Base.Assoc.
From Coq Require Import NArith List Bool Lia.
Import ListNotations.

Section Facts.
  Context {V : Type}.
  Implicit Types (l : list (N * V)) (k : N) (v : V).

  Lemma lookup_insert_eq l k v : lookup k (insert k v l) = Some v.
  Proof.
    induction l as [|[k' v'] l IH]; cbn.
    - now rewrite N.eqb_refl.
    - destruct (N.eqb k k') eqn:E; cbn; rewrite ?N.eqb_refl, ?E; auto.
  Qed.

  Lemma lookup_insert_neq l k k' v : k <> k' -> lookup k' (insert k v l) = lookup k' l.
  Proof.
    intros Hne. induction l as [|[k2 v2] l IH]; cbn.
    - destruct (N.eqb k' k) eqn:E; auto. apply N.eqb_eq in E. congruence.
    - destruct (N.eqb k k2) eqn:E; cbn.
      + apply N.eqb_eq in E; subst k2.
        destruct (N.eqb k' k) eqn:E2; auto. apply N.eqb_eq in E2. congruence.
      + destruct (N.eqb k' k2); auto.
  Qed.

  Lemma lookup_insert l k k' v :
    lookup k' (insert k v l) = if N.eqb k k' then Some v else lookup k' l.
  Proof.
    destruct (N.eqb k k') eqn:E.
    - apply N.eqb_eq in E; subst. apply lookup_insert_eq.
    - apply N.eqb_neq in E. now apply lookup_insert_neq.
  Qed.

  Lemma in_keys_insert l k v k' : In k' (map fst (insert k v l)) <-> k' = k \/ In k' (map fst l).
  Proof.
    induction l as [|[k2 v2] l IH]; cbn.
    - intuition.
    - destruct (N.eqb k k2) eqn:E; cbn.
      + apply N.eqb_eq in E; subst. intuition.
      + rewrite IH. intuition.
  Qed.

  Lemma lookup_none_iff l k : lookup k l = None <-> ~ In k (map fst l).
  Proof.
    induction l as [|[k2 v2] l IH]; cbn; [intuition|].
    destruct (N.eqb k k2) eqn:E.
    - apply N.eqb_eq in E; subst. split; [discriminate|]. intros H; exfalso; apply H; now left.
    - apply N.eqb_neq in E. rewrite IH. intuition.
  Qed.
End Facts.

Lemma lookup_none_iff_not {V} (l : list (N * V)) k : lookup k l <> None -> In k (map fst l).
Proof.
  intros H. destruct (in_dec N.eq_dec k (map fst l)) as [i|n]; auto.
  exfalso. apply H. now apply lookup_none_iff.
Qed.
