(* One instance whose history also contains command-level slashing-protection imports
   (run while the daemon is stopped, on the same storage directory). *)
From DV Require Export Model.Instance Model.Interchange.

Inductive iop := IOp (o : op) | IImport (f : ifile).

Definition istep (c : scfg) (ic : icfg) (st : store) (io : iop) : resp * store :=
  match io with
  | IOp o => step c st o
  | IImport f => match import_cmd ic st f with IOk st' => ([], st') | IErr => ([], st) end
  end.

Fixpoint irun (c : scfg) (ic : icfg) (st : store) (h : list iop) : store * list resp :=
  match h with
  | [] => (st, [])
  | o :: r => let '(rs, st') := istep c ic st o in
              let '(stf, out) := irun c ic st' r in (stf, rs :: out)
  end.
