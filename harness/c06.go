package main

import (
	"context"
	"fmt"
	"os"

	"github.com/attestantio/dirk/core"
	"github.com/attestantio/dirk/rules"
	pb "github.com/wealdtech/eth2-signer-api/pb/v1"
)

// cmdFaults drives C06: every single fault at every site, for every endpoint and batch position,
// plus random multi-fault schedules; exact comparison of states and signature presence.
func cmdFaults(args []string) int {
	cf := parseCommon("C06", args, nil)
	ctx := context.Background()
	fx, err := NewFixture(ctx, 2, 3, true)
	if err != nil {
		fmt.Fprintln(os.Stderr, "fixture:", err)
		return 2
	}
	rng := NewPRNG(cf.seed)
	run := &Runner{ctx: ctx, fx: fx, stats: map[string]int{}}
	admin := []string{"10.0.0.1"}
	inst, err := run.newInstance(admin)
	if err != nil {
		fmt.Fprintln(os.Stderr, "instance:", err)
		return 2
	}
	defer inst.Close(ctx)
	var monFail []string
	var samples []string
	epoch := uint64(10)
	accts := fx.Accounts[:6]

	// builders of an otherwise valid, advancing request of each kind
	mkOp := func(kind OpKind, n int) *Op {
		epoch += 2
		op := &Op{Kind: kind, Client: "client1", IP: "10.0.0.1"}
		perm := []int{0, 1, 2, 3, 4, 5}
		for i := len(perm) - 1; i > 0; i-- {
			j := rng.Intn(i + 1)
			perm[i], perm[j] = perm[j], perm[i]
		}
		g := &genState{fx: fx, rng: rng}
		for i := 0; i < n; i++ {
			a := accts[perm[i]]
			op.Addrs = append(op.Addrs, g.addrFor(a))
			switch kind {
			case KAttest, KAttests:
				op.Atts = append(op.Atts, AttData{Dom: mkDomain(domAttester, 1), BBR: fill32(1), Src: &Checkpoint{epoch - 1, fill32(0)}, Tgt: &Checkpoint{epoch, fill32(1)}})
			case KPropose:
				op.Props = append(op.Props, PropData{Dom: mkDomain(domProposer, 1), Slot: epoch, Pidx: 1, Parent: fill32(0), State: fill32(1), Body: fill32(1)})
			case KSign, KMultisign:
				op.Signs = append(op.Signs, SignData{Dom: mkDomain(domRandao, 1), Data: rng.Bytes(32)})
			}
		}
		return op
	}
	type shape struct {
		kind OpKind
		n    int
	}
	shapes := []shape{{KAttest, 1}, {KAttests, 1}, {KAttests, 3}, {KPropose, 1}, {KSign, 1}, {KMultisign, 3}}

	var lastRec *StepRec
	exec := func(op *Op, special string, label string) bool {
		var rec *StepRec
		var err error
		defer func() { lastRec = rec }()
		switch special {
		case "closed":
			pre, e := inst.ReadStore(ctx)
			if e != nil {
				err = e
				break
			}
			_ = closeRules(ctx, inst.Rules)
			obs, e := inst.safeExec(ctx, op)
			if e != nil {
				monFail = append(monFail, fmt.Sprintf("request against a closed store: %v :: %s", e, op))
			}
			if e2 := inst.open(ctx); e2 != nil {
				err = e2
				break
			}
			post, e := inst.ReadStore(ctx)
			if e != nil {
				err = e
				break
			}
			run.nextID++
			r := StepRec{ID: run.nextID, Hist: 0, Idx: 0, Pre: pre, Op: op, Obs: obs, Post: post}
			run.steps = append(run.steps, r)
			rec = &run.steps[len(run.steps)-1]
		case "corrupt":
			// the record itself is undecodable: no injected fetch error while running, but the
			// model is told "the fetch at this position fails"
			saved := op.Fault.Fetch
			op.Fault.Fetch = nil
			rec, err = run.execStep(inst, 0, 0, op)
			op.Fault.Fetch = saved
		default:
			rec, err = run.execStep(inst, 0, 0, op)
		}
		if err != nil {
			fmt.Fprintln(os.Stderr, "exec:", err)
			return false
		}
		run.stats["fault."+label]++
		// (when the ruler's answer is injected the rules, and with them the write, never run)
		if op.Fault.Store && op.Fault.Ruler == nil && (op.Kind == KAttest || op.Kind == KAttests || op.Kind == KPropose) {
			for i, o := range rec.Obs {
				if o.SigLen > 0 {
					monFail = append(monFail, fmt.Sprintf("a signature was released at position %d although the write of the protection records failed :: %s", i, describeStep(rec)))
				}
			}
		}
		// an injected answer of the ruler other than APPROVED: nothing is signed at that position
		if len(op.Fault.Ruler) == len(rec.Obs) {
			for i, o := range rec.Obs {
				if op.Fault.Ruler[i] != rules.APPROVED && o.SigLen > 0 {
					monFail = append(monFail, fmt.Sprintf("a signature was released at position %d although the ruler's answer for it was %v, not APPROVED :: %s", i, op.Fault.Ruler[i], describeStep(rec)))
				}
			}
		}
		for _, o := range rec.Obs {
			if (o.SigLen > 0) != (o.State == core.ResultSucceeded) {
				monFail = append(monFail, fmt.Sprintf("signature present=%v with state %s :: %s", o.SigLen > 0, o.State, describeStep(rec)))
			}
		}
		if len(samples) < 8 && rng.Chance(5) {
			samples = append(samples, describeStep(rec))
		}
		return true
	}

	posKinds := []struct {
		name string
		sf   SFault
	}{
		{"resolve", SFault{Resolve: true}}, {"perm", SFault{Perm: true}}, {"isunlocked-err", SFault{Unlock: 1}},
		{"unlock-err", SFault{Unlock: 2}}, {"wrong-passphrase", SFault{Unlock: 3}}, {"sign-err", SFault{Sign: true}},
		{"not-signer", SFault{NotSigner: true}},
	}
	reps := 1
	if cf.tier == "thorough" {
		reps = 6
	}
	for rep := 0; rep < reps; rep++ {
		for _, sh := range shapes {
			// no fault (baseline)
			if !exec(mkOp(sh.kind, sh.n), "", "none") {
				return 2
			}
			// per-position faults
			for pos := 0; pos < sh.n; pos++ {
				for _, pk := range posKinds {
					op := mkOp(sh.kind, sh.n)
					op.Fault.Pos = make([]SFault, sh.n)
					op.Fault.Pos[pos] = pk.sf
					if !exec(op, "", pk.name) {
						return 2
					}
				}
			}
			// no signing root can be computed: the domain has the endpoint's type but not 32 bytes
			for pos := 0; pos < sh.n; pos++ {
				for _, delta := range []int{1, -1} {
					op := mkOp(sh.kind, sh.n)
					bad := func(d []byte) []byte {
						if delta > 0 {
							return append(append([]byte{}, d...), 0xee)
						}
						return append([]byte{}, d[:31]...)
					}
					switch sh.kind {
					case KAttest, KAttests:
						op.Atts[pos].Dom = bad(op.Atts[pos].Dom)
					case KPropose:
						op.Props[pos].Dom = bad(op.Props[pos].Dom)
					default:
						op.Signs[pos].Dom = bad(op.Signs[pos].Dom)
					}
					if !exec(op, "", "domain-length") {
						return 2
					}
					if lastRec != nil && pos < len(lastRec.Obs) && lastRec.Obs[pos].SigLen > 0 {
						monFail = append(monFail, fmt.Sprintf("a signature was released at position %d although no signing root exists for a domain of %d bytes :: %s", pos, 32+delta, describeStep(lastRec)))
					}
				}
			}
			// data that cannot be hashed (31 bytes), alone and byte-identical at several positions
			if sh.kind == KSign || sh.kind == KMultisign {
				short := rng.Bytes(31)
				for _, npos := range []int{1, sh.n} {
					op := mkOp(sh.kind, sh.n)
					for p := 0; p < npos && p < sh.n; p++ {
						op.Signs[sh.n-1-p].Data = append([]byte{}, short...)
					}
					if !exec(op, "", "data-length") {
						return 2
					}
					for p := 0; p < npos && p < sh.n && lastRec != nil; p++ {
						if pos := sh.n - 1 - p; pos < len(lastRec.Obs) && lastRec.Obs[pos].SigLen > 0 {
							monFail = append(monFail, fmt.Sprintf("a signature was released at position %d although no signing root exists for data of 31 bytes :: %s", pos, describeStep(lastRec)))
						}
					}
				}
			}
			// ruler answers
			rulerLists := [][]rules.Result{}
			for _, r := range []rules.Result{rules.UNKNOWN, rules.FAILED, rules.DENIED, rules.APPROVED} {
				l := make([]rules.Result, sh.n)
				for i := range l {
					l[i] = rules.APPROVED
				}
				l[rng.Intn(sh.n)] = r
				rulerLists = append(rulerLists, l)
			}
			if sh.n > 1 {
				rulerLists = append(rulerLists, []rules.Result{rules.APPROVED}, []rules.Result{rules.FAILED, rules.APPROVED})
			}
			for _, l := range rulerLists {
				op := mkOp(sh.kind, sh.n)
				op.Fault.Ruler = l
				if !exec(op, "", "ruler-answer") {
					return 2
				}
			}
			// store faults (the generic endpoints do not touch the store)
			if sh.kind == KAttest || sh.kind == KAttests || sh.kind == KPropose {
				for pos := 0; pos < sh.n; pos++ {
					op := mkOp(sh.kind, sh.n)
					op.Fault.Fetch = []int{pos}
					if !exec(op, "", "fetch-err") {
						return 2
					}
					for shapeK := 0; shapeK < 7; shapeK++ {
						// undecodable record for the key at this position
						op = mkOp(sh.kind, sh.n)
						a := inst.resolveInfo(op.Addrs[pos])
						action := byte(2)
						if sh.kind == KPropose {
							action = 3
						}
						// a record nothing can be decoded from: cut short, over-long, empty, or no format at all
						full := 9
						if action == 2 {
							full = 17
						}
						damaged := [][]byte{{1, 2, 3}, {}, {1}, make([]byte, full-1), make([]byte, full+1), {0xff, 0xff, 0xff}, {0, 0, 0}}[shapeK]
						if len(damaged) >= full-1 {
							damaged[0] = 1
						}
						run.stats[fmt.Sprintf("corrupt.len%d", len(damaged))]++
						if err := inst.Rules.VerifPutRaw(ctx, recKey(a.Key, action), damaged); err != nil {
							fmt.Fprintln(os.Stderr, err)
							return 2
						}
						op.Fault.Fetch = []int{pos}
						// the batch path stops at the first failing fetch; later positions are not fetched
						ok := exec(op, "corrupt", "undecodable-record")
						if ok && lastRec != nil && pos < len(lastRec.Obs) && lastRec.Obs[pos].SigLen > 0 {
							monFail = append(monFail, fmt.Sprintf("a signature was released at position %d although the protection record of that key cannot be decoded :: %s", pos, describeStep(lastRec)))
						}
						// repair the record with a low watermark so that later duties advance
						var val []byte
						if action == 2 {
							val = encodeAtt(0, 1)
						} else {
							val = encodeProp(1)
						}
						_ = inst.Rules.VerifPutRaw(ctx, recKey(a.Key, action), val)
						if !ok {
							return 2
						}
					}
				}
				op := mkOp(sh.kind, sh.n)
				op.Fault.Store = true
				if !exec(op, "", "store-err") {
					return 2
				}
				// the write fails for a batch in which entries the rules refuse (a target the key has left behind)
				// stand before, between or after entries they approve
				if sh.kind == KAttests && sh.n > 1 {
					for stalePos := 0; stalePos < sh.n; stalePos++ {
						op := mkOp(sh.kind, sh.n)
						op.Atts[stalePos].Src = &Checkpoint{0, fill32(0)}
						op.Atts[stalePos].Tgt = &Checkpoint{1, fill32(9)}
						op.Fault.Store = true
						if !exec(op, "", "store-err-mixed") {
							return 2
						}
					}
				}
				op = mkOp(sh.kind, sh.n)
				for i := 0; i < sh.n; i++ {
					op.Fault.Fetch = append(op.Fault.Fetch, i)
				}
				op.Fault.Store = true
				if !exec(op, "closed", "closed-store") {
					return 2
				}
			}
		}
		// random multi-fault schedules
		nMulti := 60
		for i := 0; i < nMulti; i++ {
			sh := shapes[rng.Intn(len(shapes))]
			op := mkOp(sh.kind, sh.n)
			op.Fault.Pos = make([]SFault, sh.n)
			for p := 0; p < sh.n; p++ {
				if rng.Chance(40) {
					op.Fault.Pos[p] = posKinds[rng.Intn(len(posKinds))].sf
				}
				if rng.Chance(15) {
					op.Fault.Pos[p].Sign = true
				}
			}
			if rng.Chance(25) {
				op.Fault.Store = true
			}
			if rng.Chance(25) {
				op.Fault.Fetch = []int{rng.Intn(sh.n)}
			}
			if rng.Chance(15) {
				l := make([]rules.Result, sh.n)
				for j := range l {
					l[j] = rules.Result(rng.Intn(4))
				}
				op.Fault.Ruler = l
			}
			if !exec(op, "", "multi") {
				return 2
			}
		}
	}
	// a store that cannot commit: badger refuses writes (as it does around a drop or a close) while reads still
	// work.  Whatever is signed meanwhile must have its watermark on record when the response is out.
	{
		stop, done := make(chan struct{}), make(chan struct{})
		go func() { inst.Rules.VerifBlockWrites(stop); close(done) }()
		nBlocked := 120
		for k := 0; k < nBlocked; k++ {
			epoch++
			a := accts[k%len(accts)]
			op := &Op{Kind: KPropose, Client: "client1", IP: "10.0.0.1", Addrs: []Addr{{Name: a.Path()}},
				Props: []PropData{{Dom: mkDomain(domProposer, 1), Slot: epoch, Pidx: 1, Parent: fill32(0), State: fill32(1), Body: fill32(1)}}}
			if k%2 == 1 {
				op = &Op{Kind: KAttest, Client: "client1", IP: "10.0.0.1", Addrs: []Addr{{Name: a.Path()}},
					Atts: []AttData{{Dom: mkDomain(domAttester, 1), BBR: fill32(1), Src: &Checkpoint{epoch - 1, fill32(0)}, Tgt: &Checkpoint{epoch, fill32(1)}}}}
			}
			obs, err := inst.safeExec(ctx, op)
			if err != nil || len(obs) != 1 {
				monFail = append(monFail, fmt.Sprintf("request while the store refuses writes: %v :: %s", err, op))
				continue
			}
			post, err := inst.ReadStore(ctx)
			if err != nil {
				continue
			}
			if obs[0].SigLen > 0 {
				run.stats["blocked-writes.signed"]++
				recorded := post.Prop[a.ID] >= int64(epoch)
				if op.Kind == KAttest {
					recorded = post.Att[a.ID].Tgt >= int64(epoch)
				}
				if !recorded {
					monFail = append(monFail, fmt.Sprintf("a signature was released although the watermark was not written (the store refused the commit; record of key#%d afterwards: attestation %v, proposal %d) :: %s => %s",
						a.ID, post.Att[a.ID], post.Prop[a.ID], op, obs[0].State))
				}
			} else {
				run.stats["blocked-writes.refused"]++
			}
		}
		close(stop)
		<-done
	}
	// handler level: the signature is copied only in the SUCCEEDED branch
	hf, hn := handlerBiconditional(ctx, inst, fx, rng, &epoch)
	monFail = append(monFail, hf...)
	run.stats["handler.responses"] = hn

	files, err := writeInstCases(cf.out, "C06", "check_exact", cf.g63, admin, fx, run.steps, 1500)
	if err != nil {
		fmt.Fprintln(os.Stderr, "emit:", err)
		return 2
	}
	idx := map[string]string{}
	distinct := map[string]bool{}
	for i := range run.steps {
		st := &run.steps[i]
		idx[fmt.Sprint(st.ID)] = describeStep(st)
		distinct[fmt.Sprintf("%d|%d|%+v|%v", st.Op.Kind, len(st.Op.Addrs), st.Op.Fault, coqObs(st.Obs))] = true
	}
	sum := &Summary{Property: "C06", Seed: cf.seed, Tier: cf.tier, Evaluations: len(run.steps), Distinct: len(distinct),
		Rule:         "every single fault (resolve error, permission refusal, IsUnlocked error, unlocker error, wrong passphrase, sign error, not a signer; ruler answer UNKNOWN/FAILED/DENIED/short list/APPROVED; fetch error, undecodable record, write error, closed store) x endpoint shape (attest, attests of 1 and 3, propose, sign, multisign of 3) x batch position, plus random multi-fault schedules; distinct = distinct (endpoint shape, fault schedule, response)",
		Histories:    1,
		Distribution: run.stats, Samples: samples, MonitorFailures: monFail, CaseFiles: files, CaseIndex: idx}
	if err := writeSummary(cf.out, sum); err != nil {
		return 2
	}
	return 0
}

// safeExec runs an operation, converting a panic into an error (the closed-store case).
func (inst *Instance) safeExec(ctx context.Context, op *Op) (obs []Obs, err error) {
	defer func() {
		if r := recover(); r != nil {
			err = fmt.Errorf("panic: %v", r)
			obs = make([]Obs, len(op.Addrs))
			for i := range obs {
				obs[i] = Obs{State: core.ResultFailed}
			}
		}
	}()
	return inst.Exec(ctx, op)
}

// handlerBiconditional sends requests (valid, conflicting, foreign-domain, unknown account)
// through the gRPC handlers and checks "signature iff SUCCEEDED" on the wire responses.
func handlerBiconditional(ctx context.Context, inst *Instance, fx *Fixture, rng *PRNG, epoch *uint64) ([]string, int) {
	var fails []string
	n := 0
	hctx := ctxWithClient(ctx, "client1", "10.0.0.1")
	check := func(what string, st pb.ResponseState, sig []byte) {
		n++
		if (len(sig) > 0) != (st == pb.ResponseState_SUCCEEDED) {
			fails = append(fails, fmt.Sprintf("handler %s: state %s with signature length %d", what, st, len(sig)))
		}
	}
	for i := 0; i < 40; i++ {
		*epoch += 2
		a := fx.Accounts[rng.Intn(len(fx.Accounts))]
		dom := mkDomain([][]byte{domAttester, domProposer, domRandao, domExit}[rng.Intn(4)], 1)
		name := a.Path()
		if rng.Chance(10) {
			name = "Wallet 9/Nobody"
		}
		tgt := *epoch
		if rng.Chance(30) {
			tgt = 1 // conflicting
		}
		r1, err := inst.Handler.SignBeaconAttestation(hctx, &pb.SignBeaconAttestationRequest{
			Id: &pb.SignBeaconAttestationRequest_Account{Account: name}, Domain: dom,
			Data: &pb.AttestationData{Slot: tgt * 32, BeaconBlockRoot: fill32(1), Source: &pb.Checkpoint{Epoch: tgt - 1, Root: fill32(0)}, Target: &pb.Checkpoint{Epoch: tgt, Root: fill32(1)}}})
		if err == nil {
			check("SignBeaconAttestation", r1.GetState(), r1.GetSignature())
		}
		r2, err := inst.Handler.SignBeaconProposal(hctx, &pb.SignBeaconProposalRequest{
			Id: &pb.SignBeaconProposalRequest_Account{Account: name}, Domain: dom,
			Data: &pb.BeaconBlockHeader{Slot: tgt, ProposerIndex: 1, ParentRoot: fill32(0), StateRoot: fill32(1), BodyRoot: fill32(1)}})
		if err == nil {
			check("SignBeaconProposal", r2.GetState(), r2.GetSignature())
		}
		r3, err := inst.Handler.Sign(hctx, &pb.SignRequest{Id: &pb.SignRequest_Account{Account: name}, Domain: dom, Data: fill32(3)})
		if err == nil {
			check("Sign", r3.GetState(), r3.GetSignature())
		}
		b := fx.Accounts[rng.Intn(len(fx.Accounts))]
		r4, err := inst.Handler.Multisign(hctx, &pb.MultisignRequest{Requests: []*pb.SignRequest{
			{Id: &pb.SignRequest_Account{Account: name}, Domain: dom, Data: fill32(3)},
			{Id: &pb.SignRequest_PublicKey{PublicKey: b.Key}, Domain: mkDomain(domRandao, 2), Data: fill32(4)}}})
		if err == nil {
			for _, r := range r4.GetResponses() {
				check("Multisign", r.GetState(), r.GetSignature())
			}
		}
		r5, err := inst.Handler.SignBeaconAttestations(hctx, &pb.SignBeaconAttestationsRequest{Requests: []*pb.SignBeaconAttestationRequest{
			{Id: &pb.SignBeaconAttestationRequest_Account{Account: name}, Domain: dom,
				Data: &pb.AttestationData{Slot: tgt * 32, BeaconBlockRoot: fill32(1), Source: &pb.Checkpoint{Epoch: tgt, Root: fill32(0)}, Target: &pb.Checkpoint{Epoch: tgt + 1, Root: fill32(1)}}},
			{Id: &pb.SignBeaconAttestationRequest_PublicKey{PublicKey: b.Key}, Domain: mkDomain(domAttester, 1),
				Data: &pb.AttestationData{Slot: tgt * 32, BeaconBlockRoot: fill32(1), Source: &pb.Checkpoint{Epoch: tgt, Root: fill32(0)}, Target: &pb.Checkpoint{Epoch: tgt + 1, Root: fill32(1)}}}}})
		if err == nil {
			for _, r := range r5.GetResponses() {
				check("SignBeaconAttestations", r.GetState(), r.GetSignature())
			}
		}
	}
	return fails, n
}
