(* C20 - no client request can crash the daemon.   PARTIAL (see the end of this file). *)
From DV Require Import Model.Wire Model.Receiver Proofs.WireProofs Proofs.ReceiverProofs.

(* what the protobuf decoder hands to the handlers: a byte field is nil, or non-empty with capacity >= 8 *)
Theorem C20_decoder_capacity : forall b, wf_field (decode b) = true.
Proof. exact decode_wf. Qed.
Print Assumptions C20_decoder_capacity.

(* For every request of the Signer service that came out of the decoder - every field absent or of any
   length, any numbers, batches of any length including none, any account names and keys -, every
   configuration, store and caller: the handler does not reach a panicking operation. *)
Theorem C20_no_panic :
  forall c st cl q, wf_req q = true -> wire_step c st cl q <> None.
Proof. exact wire_no_panic. Qed.
Print Assumptions C20_no_panic.

(* ... and the caller receives a response with exactly one entry per request (one DENIED entry for a
   batch of none). *)
Theorem C20_every_request_answered :
  forall c st cl q, wf_req q = true ->
    exists r st', wire_step c st cl q = Some (r, st') /\ List.length r = expected_entries q.
Proof. exact wire_answers. Qed.
Print Assumptions C20_every_request_answered.

(* key-generation messages from callers that are not peers are answered by a refusal and change nothing *)
Theorem C20_key_generation_from_non_peers :
  forall peers p name m, (forall i pn, In (i, pn) peers -> Some pn <> name) -> receive peers p name m = (None, p).
Proof. exact receive_stranger. Qed.

(* The capacity guarantee is what the path relies on: the same request handed over without the wire, with a
   2-byte domain of capacity 2, is flagged (the harness confirms that rules.OnSign panics on it). *)
Lemma C20_direct_call_short_domain_flagged :
  forall c st cl,
    wire_step c st cl (WSign {| ws_account := "W/a"; ws_pubkey := None;
                                ws_dom := Some {| wb_bytes := [1; 0]%N; wb_cap := 2 |};
                                ws_data := Some {| wb_bytes := repeat 7%N 32; wb_cap := 32 |} |}) = None.
Proof. exact direct_short_domain_flagged. Qed.

(* PARTIAL.  Modelled with explicit panicking operations: the five Signer handlers (validation, early
   answers, the per-position response arrays, the Domain[0:4] slice expression of the rules layer).  Not
   expressible in this model and covered only by the harness run (requests through a protobuf round trip
   into the real handlers under a recovering wrapper, and a follow-up request to show the instance still
   answers): panics inside libraries (badger, BLS, wallets, fastssz), the Lister / AccountManager /
   WalletManager handlers (their paths contain no request-indexed slice operation; their decisions are
   modelled in Services.v without a panic outcome), goroutine-level effects (a panic in a scatter worker),
   resource exhaustion. *)
