(* C07 - operations are served only when the client's permissions allow them. *)
From DV Require Import Base.RegexEsc Proofs.RegexEscProofs Model.Services Proofs.RulerProofs Proofs.RegexProofs Proofs.CheckerProofs Proofs.ServicesProofs.
Local Open Scope string_scope.

(* (i) The permission decision.  check (the loop-shaped transcription of Check()) is true exactly
   when the client is named and known, the path splits into a non-empty wallet and an account, and
   the deciding item - scanning the client's entries in order, skipping entries whose wallet or
   account pattern does not match, and inside an entry its operation list in order, the FIRST item
   that bears on the operation ('None', '~op', 'All' or 'op', case-insensitively) - allows
   ('All' or 'op') rather than denies. *)
Theorem C07_check_spec :
  forall g t client path op,
    check g t client path op = true <->
    client <> "" /\
    exists w a es, wallet_and_account path = Some (w, a) /\ w <> "" /\ table_find t client = Some es /\
      exists i j x, deciding g es w a op i j x /\ allows x op = true.
Proof. exact check_spec. Qed.
Print Assumptions C07_check_spec.

(* (ii) Whole-name matching.  With the repaired anchoring ^(?:p)$ a configured pattern matches a name
   exactly when its alternatives match the ENTIRE name, case-insensitively - for every pattern of
   the modelled syntax (literals, '.', bracket classes, * + ?, groups, alternation, own ^ and $)
   and every name; the matcher is the derivative matcher, equivalent to the relational semantics
   Mat and, on anchor-free expressions, to the textbook language Lang. *)
Theorem C07_whole_name_match :
  (forall p name, pat_match true p name =
      match p with None => true | Some top => accept true true (alts top) (bytes_of name) end) /\
  (forall ci s s0 r, accept ci s0 r s = true <-> Mat ci r s0 s true) /\
  (forall ci r s, anchor_free r = true -> (accept ci true r s = true <-> Lang ci r s)).
Proof. split; [exact pat_match_grouped|split; [exact accept_Mat|exact accept_Lang]]. Qed.
Print Assumptions C07_whole_name_match.

(* the pinned (pre-fix) anchoring: Wallet1|Wallet2 grants Wallet10 and xWallet2 (F2) *)
Lemma C07_refuted_legacy_alternation :
  search true (anchor_legacy [W1; W2]) Wallet10 = true /\
  search true (anchor_legacy [W1; W2]) xWallet2 = true /\
  accept true true (alts [W1; W2]) Wallet10 = false /\
  search true (anchor_grouped [W1; W2]) Wallet10 = false /\
  search true (anchor_grouped [W1; W2]) xWallet2 = false.
Proof. exact legacy_alternation_grants. Qed.

(* (iii) Every service decides on the account actually resolved and a refused request changes
   nothing: the signer's answer depends on the address only through the account it resolves to;
   without permission on the resolved wallet/account every signing endpoint answers DENIED with
   the store untouched; lock / unlock of accounts and wallets and account creation succeed only
   if check allows the operation on the resolved path, and otherwise leave the world unchanged. *)
Theorem C07_services_decide_on_resolved_account :
  (forall c st cl a1 a2 f, resolve c a1 = resolve c a2 ->
     (forall d, sign_att c st cl a1 d f = sign_att c st cl a2 d f) /\
     (forall d, sign_prop c st cl a1 d f = sign_prop c st cl a2 d f) /\
     (forall d, sign_gen c cl a1 d f = sign_gen c cl a2 d f)) /\
  (forall c st cl a f,
     (forall ac, resolve c a = Some ac -> forall act, sc_perm c (cl_client cl) (ac_wallet ac) (ac_name ac) act = false) ->
     (forall d, sign_att c st cl a d f = ((CDenied, None), st)) /\
     (forall d, sign_prop c st cl a d f = ((CDenied, None), st)) /\
     (forall d, sign_gen c cl a d f = (CDenied, None))) /\
  (forall wd o r wd', sstep wd o = (r, wd') -> r = CSucceeded ->
     exists cl path op, sop_target wd o = Some (cl, path, op) /\ wcheck wd cl path op = true) /\
  (forall wd o r wd', sstep wd o = (r, wd') -> r <> CSucceeded -> wd' = wd).
Proof.
  split; [exact signer_resolved|]. split; [exact signer_refuses_unpermitted|].
  split; [exact sstep_needs_permission|exact sstep_refused_unchanged].
Qed.
Print Assumptions C07_services_decide_on_resolved_account.

(* non-vacuity: an ordered table where a later 'All' is shadowed by an earlier '~Sign' *)
Example C07_example :
  let t := [("client1", [ {| pe_wallet := Some [W1; W2]; pe_account := None; pe_ops := ["~Sign"; "All"] |};
                          {| pe_wallet := None; pe_account := None; pe_ops := ["All"] |} ])] in
  check true t "client1" "wallet1/acc" "Sign" = false /\
  check true t "client1" "WALLET2/acc" "Access account" = true /\
  check true t "client1" "Wallet10/acc" "Sign" = true /\
  check false t "client1" "Wallet10/acc" "Sign" = false /\
  check true t "other" "Wallet1/acc" "Sign" = false /\
  check true t "" "Wallet1/acc" "Sign" = false.
Proof. vm_compute. repeat split; reflexivity. Qed.

(* Permission paths may use the escape classes of Go's syntax (\d \D \w \W \s \S: Base/RegexEsc.v; the
   correspondence hands them to the model by their letter).  The capital letter is the complement of the
   small one for every character, with or without case folding - so a pattern must be taken as written:
   folding the pattern's own letters (instead of matching case-insensitively) inverts these classes. *)
Theorem C07_escape_class_capital_is_complement :
  forall (ci : bool) (c : N),
    cset_match ci (esc_cset 68) c = negb (cset_match ci (esc_cset 100) c) /\
    cset_match ci (esc_cset 87) c = negb (cset_match ci (esc_cset 119) c) /\
    cset_match ci (esc_cset 83) c = negb (cset_match ci (esc_cset 115) c).
Proof. exact esc_capital_is_complement. Qed.
Print Assumptions C07_escape_class_capital_is_complement.
