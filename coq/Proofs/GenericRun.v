(* The history invariants of C01/C02 for ANY step function whose steps satisfy att_rel / prop_rel:
   used for crash-aware runs. *)
From DV Require Import Model.Instance Proofs.SignerProofs Proofs.InstanceProofs.
From Coq Require Import Lia.
Local Open Scope Z_scope.

Section Generic.
  Variable X : Type.
  Variable gstep : store -> X -> list sigd * store.
  Variable ok : X -> Prop.
  Hypothesis gstep_rel : forall st x sg st' k, ok x -> gstep st x = (sg, st') ->
    att_rel (view_att st k) (view_att st' k) (flat_map (att_of k) sg) /\
    prop_rel (view_prop st k) (view_prop st' k) (flat_map (prop_of k) sg).

  Fixpoint grun (st : store) (h : list X) : store * list (list sigd) :=
    match h with
    | [] => (st, [])
    | x :: r => let '(sg, st') := gstep st x in
                let '(stf, out) := grun st' r in (stf, sg :: out)
    end.

  Lemma grun_att_inv h : Forall ok h -> forall st k,
    let R := flat_map (att_of k) (List.concat (snd (grun st h))) in
    let stf := fst (grun st h) in
    att_sorted R /\
    (forall a, In a R -> a_src (view_att st k) <= fst a /\ a_tgt (view_att st k) < snd a /\ 0 <= fst a /\ 0 <= snd a /\
                         fst a <= a_src (view_att stf k) /\ snd a <= a_tgt (view_att stf k)) /\
    a_le (view_att st k) (view_att stf k).
  Proof.
    induction h as [|x h IH]; intros HF st k.
    - cbn. split; [exact I|]. split; [intros a []|apply a_le_refl].
    - inversion HF as [|? ? Hok HF']; subst. cbn [grun]. destruct (gstep st x) as [sg st1] eqn:Es.
      specialize (IH HF' st1 k). destruct (grun st1 h) as [stf out] eqn:Er. cbn [fst snd List.concat] in *.
      rewrite flat_map_app.
      destruct (gstep_rel st x sg st1 k Hok Es) as [[Hle HA] _].
      destruct IH as (Hsort & Hdom & Hle').
      destruct HA as [->|(s & t & -> & Hv & Hlt & Hles & Hs0 & Hs63 & Ht0 & Ht63)].
      + cbn [app]. split; [exact Hsort|]. split.
        * intros a Ha. destruct (Hdom a Ha) as (H1 & H2 & H3 & H4 & H5 & H6).
          unfold a_le in Hle. repeat split; auto; lia.
        * unfold a_le in *. lia.
      + cbn [app]. rewrite Hv in Hdom, Hle'. cbn [a_src a_tgt] in Hdom. unfold a_le in Hle'. cbn in Hle'.
        split; [|split].
        * destruct (flat_map (att_of k) (List.concat out)) as [|b r] eqn:Eb; [exact I|].
          destruct (Hdom b (or_introl eq_refl)) as (H1 & H2 & _). cbn. repeat split; auto.
        * intros a [<-|Ha]; cbn [fst snd].
          -- repeat split; auto; lia.
          -- destruct (Hdom a Ha) as (H1 & H2 & H3 & H4 & H5 & H6). repeat split; auto; lia.
        * unfold a_le in *. lia.
  Qed.

  Lemma grun_prop_inv h : Forall ok h -> forall st k,
    let R := flat_map (prop_of k) (List.concat (snd (grun st h))) in
    let stf := fst (grun st h) in
    slot_sorted R /\
    (forall a, In a R -> view_prop st k < a /\ 0 <= a /\ a <= view_prop stf k) /\
    view_prop st k <= view_prop stf k.
  Proof.
    induction h as [|x h IH]; intros HF st k.
    - cbn. split; [exact I|]. split; [intros a []|lia].
    - inversion HF as [|? ? Hok HF']; subst. cbn [grun]. destruct (gstep st x) as [sg st1] eqn:Es.
      specialize (IH HF' st1 k). destruct (grun st1 h) as [stf out] eqn:Er. cbn [fst snd List.concat] in *.
      rewrite flat_map_app.
      destruct (gstep_rel st x sg st1 k Hok Es) as [_ [Hle HA]].
      destruct IH as (Hsort & Hdom & Hle').
      destruct HA as [->|(s & -> & Hv & Hlt & Hs0 & Hs63)].
      + cbn [app]. split; [exact Hsort|]. split; [|lia].
        intros a Ha. destruct (Hdom a Ha) as (H1 & H2 & H3). repeat split; auto; lia.
      + cbn [app]. rewrite Hv in Hdom, Hle'.
        split; [|split]; [| |lia].
        * destruct (flat_map (prop_of k) (List.concat out)) as [|b r] eqn:Eb; [exact I|].
          destruct (Hdom b (or_introl eq_refl)) as (H1 & _). cbn. split; auto.
        * intros a [<-|Ha].
          -- repeat split; auto; lia.
          -- destruct (Hdom a Ha) as (H1 & H2 & H3). repeat split; auto; lia.
  Qed.
End Generic.
