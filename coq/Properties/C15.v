(* C15 - concurrent batches with overlapping keys always complete. *)
From DV Require Import Model.ConcRules Model.ConcVariants Proofs.ConcProofs Proofs.ConcRulesProofs Proofs.ConcVariantsProofs Model.ConcSlots Proofs.ConcSlotsProofs.
Local Open Scope Z_scope.

(* (a) Progress: in every reachable world (any number of requests, any key lists - same keys in
   opposite orders, nested, crossing -, any schedule so far) in which some request has not
   returned, some thread can take a step: no set of requests waits on each other. *)
Theorem C15_progress :
  forall c s0 rs (w : cworld),
    creach c s0 rs w -> ~ all_finished _ _ _ w -> exists t w', cfire c w t = Some w'.
Proof. exact conc_progress. Qed.
Print Assumptions C15_progress.

(* (b) Termination: every schedule the protocol accepts has length + remaining measure equal to the
   initial measure (3 x keys + 4 per request), so no schedule is longer than that; and a world in
   which no thread can step is one in which every request has returned.  Together: every maximal
   schedule is finite and ends with all requests complete. *)
Theorem C15_terminates :
  forall c s0 rs sched (w : cworld),
    crun_sched c (init s0 rs) sched = Some w ->
    (List.length sched + measure _ _ _ ckeys w = init_measure _ ckeys rs)%nat /\
    ((forall t, cfire c w t = None) -> all_finished _ _ _ w).
Proof. exact conc_terminates. Qed.
Print Assumptions C15_terminates.

(* without the locker-wide mutex, batches (a,b) and (b,a) deadlock *)
Lemma C15_refuted_without_prelock :
  exists w, run_sched_v ckeys (cdecide rc) false true (init s0 [ab; ba]) [0; 0; 1; 1]%nat = Some w /\
            stuck ckeys (cdecide rc) false true w = true /\ unfinished w = true.
Proof. exact deadlock_without_prelock. Qed.

(* with it the same prefix is not a schedule: the second request waits at PreLock *)
Example C15_example :
  run_sched_v ckeys (cdecide rc) true true (init s0 [ab; ba]) [0; 0; 1]%nat = None.
Proof. exact no_deadlock_with_prelock. Qed.

(* a lock table of shared slots instead of a mutex per key: a request naming two distinct keys of one slot
   waits for a mutex it holds itself, inside the locker-wide section - and every other request with it *)
Lemma C15_refuted_shared_lock_slots :
  exists w, run_sched_s ckeys (cdecide rc) slot1024 (init s0 [colliding; bystander]) [0; 0]%nat = Some w /\
            stuck_s ckeys (cdecide rc) slot1024 w = true /\ unfinished w = true.
Proof. exact self_deadlock_with_shared_slots. Qed.

(* with a mutex per key (slot = identity: fire_s_id) the same two requests complete *)
Example C15_example_per_key_mutexes :
  exists w, run_sched_s ckeys (cdecide rc) (fun k => k) (init s0 [colliding; bystander])
              [0; 0; 0; 0; 0; 0; 0; 0; 0; 0; 1; 1; 1; 1; 1; 1; 1]%nat = Some w /\ unfinished w = false.
Proof. exact per_key_mutexes_complete. Qed.
