(* Model of util/scatter.go: calculateExtentSize and the worker loop of Scatter. *)
From Coq Require Export List Arith PeanoNat.
Export ListNotations.

(* calculateExtentSize(items) with p = runtime.GOMAXPROCS(0) *)
Definition extent_size (n p : nat) : nat :=
  let e := n / p in
  if e =? 0 then 1 else if 0 <? n mod e then S e else e.
(* workers := inputLen / extentSize (+1 if there is a remainder) *)
Definition workers (n e : nat) : nat := n / e + (if n mod e =? 0 then 0 else 1).
(* worker w gets (offset, entries) *)
Definition extent (n e w : nat) : nat * nat := (w * e, Nat.min e (n - w * e)).
Definition extents (n p : nat) : list (nat * nat) :=
  let e := extent_size n p in map (extent n e) (seq 0 (workers n e)).
(* the indices the workers visit, worker by worker *)
Definition covered (l : list (nat * nat)) : list nat := concat (map (fun oc => seq (fst oc) (snd oc)) l).
(* what a scatter whose work function writes out[i] := f i for its indices produces *)
Definition scatter_map {A} (n p : nat) (f : nat -> A) : list A := map f (covered (extents n p)).
