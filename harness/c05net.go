package main

import (
	"context"
	"crypto/tls"
	"crypto/x509"
	"fmt"
	"net"
	"time"

	grpcapi "github.com/attestantio/dirk/services/api/grpc"
	"github.com/attestantio/dirk/services/checker"
	"github.com/attestantio/dirk/testing/resources"
	pb "github.com/wealdtech/eth2-signer-api/pb/v1"
	"google.golang.org/grpc"
	"google.golang.org/grpc/credentials"
)

// realConnectionSources: the source address the rules see is the address the request really came from.  Two real gRPC
// API servers (mutual TLS, the testing authority) on 127.0.0.1, one whose administrator list is [127.0.0.1], one whose
// list is [127.0.0.2]; the same client connects from 127.0.0.1 and from 127.0.0.2 and asks for a signature under the
// voluntary-exit domain type: granted exactly when the address it connects FROM is listed.
func realConnectionSources(ctx context.Context, stats map[string]int) (fails []string) {
	pool := x509.NewCertPool()
	pool.AppendCertsFromPEM(resources.CACrt)
	cert, err := tls.X509KeyPair(resources.ClientTest01Crt, resources.ClientTest01Key)
	if err != nil {
		return nil
	}
	for _, admin := range []string{"127.0.0.1", "127.0.0.2"} {
		port := freePort()
		perms := map[string][]*checker.Permissions{"client-test01": {{Path: "Wallet 1", Operations: []string{"All"}}}}
		n, err := NewNode(ctx, NodeOpts{ID: 1, NDWallets: []string{"Wallet 1"}, Perms: perms, AdminIPs: []string{admin},
			PeersMap: map[uint64]string{1: fmt.Sprintf("signer-test01:%d", port)}})
		if err != nil {
			stats["real-connection.setup-failed"]++
			return fails
		}
		if r, _, _, _ := n.AcctMgr.Generate(ctx, &checker.Credentials{Client: "client-test01", IP: admin}, "Wallet 1/Exit", []byte("pass"), 1, 1); fmt.Sprint(r) != "Succeeded" {
			stats["real-connection.setup-failed"]++
			return fails
		}
		if _, err := grpcapi.New(ctx, grpcapi.WithSigner(n.Signer), grpcapi.WithLister(n.Lister), grpcapi.WithProcess(n.Process),
			grpcapi.WithAccountManager(n.AcctMgr), grpcapi.WithWalletManager(n.WalMgr), grpcapi.WithPeers(n.Peers),
			grpcapi.WithName("signer-test01"), grpcapi.WithID(1), grpcapi.WithServerCert(resources.SignerCerts[1]), grpcapi.WithServerKey(resources.SignerKeys[1]),
			grpcapi.WithCACert(resources.CACrt), grpcapi.WithListenAddress(fmt.Sprintf("127.0.0.1:%d", port))); err != nil {
			stats["real-connection.setup-failed"]++
			return fails
		}
		addr := fmt.Sprintf("127.0.0.1:%d", port)
		for i := 0; i < 100; i++ {
			if c, err := net.DialTimeout("tcp", addr, 200*time.Millisecond); err == nil {
				c.Close()
				break
			}
			time.Sleep(50 * time.Millisecond)
		}
		for _, from := range []string{"127.0.0.1", "127.0.0.2"} {
			dialer := &net.Dialer{LocalAddr: &net.TCPAddr{IP: net.ParseIP(from)}, Timeout: 5 * time.Second}
			conn, err := grpc.NewClient(addr,
				grpc.WithTransportCredentials(credentials.NewTLS(&tls.Config{RootCAs: pool, ServerName: "signer-test01", Certificates: []tls.Certificate{cert}, MinVersion: tls.VersionTLS13})),
				grpc.WithContextDialer(func(c context.Context, a string) (net.Conn, error) { return dialer.DialContext(c, "tcp", a) }))
			if err != nil {
				stats["real-connection.setup-failed"]++
				continue
			}
			signer := pb.NewSignerClient(conn)
			for _, multi := range []bool{false, true} {
				cctx, cancel := context.WithTimeout(ctx, 10*time.Second)
				req := &pb.SignRequest{Id: &pb.SignRequest_Account{Account: "Wallet 1/Exit"}, Domain: mkDomain(domExit, 0), Data: fill32(7)}
				signed, what := false, "Sign"
				var rerr error
				noteRequest("%s under the voluntary-exit domain type over a real connection from %s to a server whose administrator list is [%s]", what, from, admin)
				if multi {
					what = "Multisign"
					var r *pb.MultisignResponse
					r, rerr = signer.Multisign(cctx, &pb.MultisignRequest{Requests: []*pb.SignRequest{req}})
					signed = rerr == nil && len(r.GetResponses()) == 1 && r.GetResponses()[0].GetState() == pb.ResponseState_SUCCEEDED && len(r.GetResponses()[0].GetSignature()) > 0
				} else {
					var r *pb.SignResponse
					r, rerr = signer.Sign(cctx, req)
					signed = rerr == nil && r.GetState() == pb.ResponseState_SUCCEEDED && len(r.GetSignature()) > 0
				}
				requestDone()
				cancel()
				stats["real-connection.requests"]++
				if rerr != nil {
					stats["real-connection.errors"]++
					continue
				}
				if signed != (from == admin) {
					fails = append(fails, fmt.Sprintf("real connection from %s to a server whose administrator list is [%s]: %s under the voluntary-exit domain type signed=%v (the source address is listed: %v)", from, admin, what, signed, from == admin))
				}
			}
			conn.Close()
		}
		n.Close(ctx)
	}
	return fails
}
