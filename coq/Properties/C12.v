(* C12 - successful distributed key generation yields one consistent threshold key. *)
From DV Require Import Model.Dkg Proofs.DkgProofs.
Local Open Scope Z_scope.

(* (a) Generation is refused unless n/2 < t <= n. *)
Theorem C12_threshold_bounds : forall n t, threshold_ok n t = true <-> (0 < n /\ n / 2 < t /\ t <= n)%nat.
Proof. exact threshold_ok_spec. Qed.

(* (b) Protocol.  For every cluster satisfying the consistency invariant (e.g. instances with no
   generation in progress), every account name, threshold, list of distinct participants, every
   choice of the participants' polynomials (non-empty, of threshold length) and EVERY behaviour of the
   network on contributions in flight (tm: deliver, alter, lose): if the generation reports success
   with composite key pk, then the bounds hold and every listed participant holds the account, its
   vector has threshold entries and starts with pk - the same composite key everywhere, the one
   returned to the client -, its private share is consistent with its vector (Feldman check at its
   own identifier), and its session is closed.  The outcome does not depend on the arrival order of
   the commit replies: generate collects them all before judging (check_commits is a function of
   the set of replies per participant).
   PARTIAL: "the same verification vector on every participant" is shown for honest dealing by the
   algebra below (the vector is the coefficient-wise sum of the dealers' vectors, a symmetric
   function) and by evaluation (C12_example); BLS12-381 itself - the group law, the pairing, that
   the scalar field order is prime - is trusted: the model computes in the exponent. *)
Theorem C12_success_is_consistent :
  forall c nt acct thr parts poly cl pk cl',
    check_len c = true -> cluster_inv c cl -> polys_ok c thr poly -> NoDup parts ->
    generate c nt acct thr parts poly cl = (DOk pk, cl') ->
    threshold_ok (List.length parts) thr = true /\
    forall p, In p parts ->
      exists n a, cfind p cl' = Some n /\ afind String.eqb acct (nd_accts n) = Some a /\
        hd 0 (ar_vvec a) = pk /\ verify_contribution p (ar_share a) (ar_vvec a) = true /\
        List.length (ar_vvec a) = ar_thr a /\ gfind acct (nd_gens n) = None.
Proof. exact generate_success. Qed.
Print Assumptions C12_success_is_consistent.

(* (c) The algebra of the scheme (any field, any commitment module; mathcomp) is in Properties/C12alg.v. *)

(* non-vacuity: an honest 2-of-3 run of the protocol model: same vector everywhere, shares on the line *)
Example C12_example :
  exists cl', generate {| check_len := true |} (net_of honest) "W/a" 2 [1; 2; 3]%N poly3 [mkn 1; mkn 2; mkn 3] = (DOk 6021, cl') /\
  map (fun n => map (fun a => (ar_vvec (snd a), ar_share (snd a))) (nd_accts n)) cl' =
  [[([6021; 15], 6036)]; [([6021; 15], 6051)]; [([6021; 15], 6066)]].
Proof. exact honest_run_example. Qed.
