(* C12 / C13 / C16 on the key-generation model. *)
From DV Require Import Model.Dkg.
From Coq Require Import Lia.
Local Open Scope Z_scope.

(* ---- C12: the threshold bounds ---- *)

Lemma threshold_ok_spec n t : threshold_ok n t = true <-> (0 < n /\ n / 2 < t /\ t <= n)%nat.
Proof.
  unfold threshold_ok. rewrite !andb_true_iff, negb_true_iff, Nat.eqb_neq, Nat.leb_le, Nat.ltb_lt. lia.
Qed.

(* ---- C13 / C16: the receiving side rejects ---- *)

Lemma on_contribute_rejects_invalid c n acct sender share vvec :
  verify_contribution (nd_id n) share vvec = false -> on_contribute c n acct sender share vvec = DErr.
Proof. intros H. unfold on_contribute. destruct (gfind acct (nd_gens n)); auto. now rewrite H. Qed.

Lemma on_contribute_rejects_length c n acct sender share vvec g :
  check_len c = true -> gfind acct (nd_gens n) = Some g -> List.length vvec <> g_thr g ->
  on_contribute c n acct sender share vvec = DErr.
Proof.
  intros Hc Hg Hl. unfold on_contribute. rewrite Hg. destruct (negb (verify_contribution _ _ _)); auto.
  unfold vvec_ok. rewrite Hc. cbn. apply Nat.eqb_neq in Hl. now rewrite Hl.
Qed.

Lemma accept_reply_rejects_invalid c n acct peer share vvec :
  verify_contribution (nd_id n) share vvec = false -> accept_reply c n acct peer share vvec = DErr.
Proof. intros H. unfold accept_reply. destruct (gfind acct (nd_gens n)); auto. now rewrite H. Qed.

Lemma accept_reply_rejects_length c n acct peer share vvec g :
  check_len c = true -> gfind acct (nd_gens n) = Some g -> List.length vvec <> g_thr g ->
  accept_reply c n acct peer share vvec = DErr.
Proof.
  intros Hc Hg Hl. unfold accept_reply. rewrite Hg. destruct (negb (verify_contribution _ _ _)); auto.
  unfold vvec_ok. rewrite Hc. cbn. apply Nat.eqb_neq in Hl. now rewrite Hl.
Qed.

(* the reply to a contribution is the share dealt to the SENDER's identifier, and the own vector *)
Lemma on_contribute_reply c n acct sender share vvec n' reply g :
  gfind acct (nd_gens n) = Some g -> on_contribute c n acct sender share vvec = DOk (n', reply) ->
  reply = (horner (g_poly g) (idz sender), g_poly g).
Proof.
  intros Hg. unfold on_contribute. rewrite Hg.
  destruct (negb _); [discriminate|]. destruct (negb _); [discriminate|].
  intros H; injection H as _ <-. reflexivity.
Qed.

(* ---- C13: prepare and execute never create an account ---- *)

Definition accounts_of (cl : cluster) : list (N * list (string * arec)) := map (fun n => (nd_id n, nd_accts n)) cl.

Lemma cput_accounts n cl : (forall m, cfind (nd_id n) cl = Some m -> nd_accts m = nd_accts n) ->
  accounts_of (cput n cl) = accounts_of cl.
Proof.
  unfold accounts_of. induction cl as [|m cl IH]; intros H; cbn; auto.
  cbn in H. destruct (N.eqb_spec (nd_id m) (nd_id n)) as [E|E]; cbn.
  - rewrite E. now rewrite (H m eq_refl).
  - f_equal. apply IH. exact H.
Qed.

Lemma cfind_id i cl m : cfind i cl = Some m -> nd_id m = i.
Proof. induction cl as [|x cl IH]; cbn; [discriminate|]. destruct (N.eqb_spec (nd_id x) i); [intros H; now injection H as <-|auto]. Qed.

Lemma on_prepare_accts n a t ps poly n' : on_prepare n a t ps poly = DOk n' -> nd_id n' = nd_id n /\ nd_accts n' = nd_accts n.
Proof. unfold on_prepare. destruct (gfind a (nd_gens n)); [discriminate|]. intros H; injection H as <-. auto. Qed.
Lemma on_contribute_accts c n a s sh vv n' r : on_contribute c n a s sh vv = DOk (n', r) -> nd_id n' = nd_id n /\ nd_accts n' = nd_accts n.
Proof.
  unfold on_contribute. destruct (gfind a (nd_gens n)); [|discriminate].
  destruct (negb _); [discriminate|]. destruct (negb _); [discriminate|]. intros H; injection H as <- _. auto.
Qed.
Lemma accept_reply_accts c n a p sh vv n' : accept_reply c n a p sh vv = DOk n' -> nd_id n' = nd_id n /\ nd_accts n' = nd_accts n.
Proof.
  unfold accept_reply. destruct (gfind a (nd_gens n)); [|discriminate].
  destruct (negb _); [discriminate|]. destruct (negb _); [discriminate|].
  destruct (afind _ _ _); [discriminate|]. intros H; injection H as <-. auto.
Qed.

Lemma cput_same_accounts n n' cl : cfind (nd_id n) cl = Some n -> nd_id n' = nd_id n -> nd_accts n' = nd_accts n ->
  accounts_of (cput n' cl) = accounts_of cl.
Proof.
  intros Hf Hi Ha. apply cput_accounts. rewrite Hi. intros m Hm. rewrite Hf in Hm. injection Hm as <-. now symmetry.
Qed.

Lemma cfind_cput_other n cl i : nd_id n <> i -> cfind i (cput n cl) = cfind i cl.
Proof.
  intros H. induction cl as [|m cl IH]; cbn; auto.
  destruct (N.eqb_spec (nd_id m) (nd_id n)) as [E|E]; cbn.
  - destruct (N.eqb_spec (nd_id n) i); [contradiction|]. destruct (N.eqb_spec (nd_id m) i); [congruence|reflexivity].
  - destruct (N.eqb (nd_id m) i); auto.
Qed.
Lemma cfind_cput_same n cl m : cfind (nd_id n) cl = Some m -> cfind (nd_id n) (cput n cl) = Some n.
Proof.
  induction cl as [|x cl IH]; cbn; [discriminate|].
  destruct (N.eqb_spec (nd_id x) (nd_id n)) as [E|E]; cbn.
  - intros _. now rewrite N.eqb_refl.
  - intros H. destruct (N.eqb_spec (nd_id x) (nd_id n)); [contradiction|]. auto.
Qed.

Lemma prepare_all_accounts acct thr parts poly todo : forall cl,
  accounts_of (snd (prepare_all acct thr parts poly todo cl)) = accounts_of cl.
Proof.
  induction todo as [|p todo IH]; intros cl; cbn; auto.
  destruct (cfind p cl) as [np|] eqn:E; auto.
  destruct (on_prepare np acct thr parts (poly p)) as [np'| |] eqn:Ep; auto.
  rewrite IH. apply on_prepare_accts in Ep. destruct Ep as [Hi Ha].
  pose proof (cfind_id _ _ _ E) as Hid. apply (cput_same_accounts np); auto. now rewrite Hid.
Qed.

Lemma exec_swaps_accounts c tm acct p peers : forall cl,
  accounts_of (snd (exec_swaps c tm acct p peers cl)) = accounts_of cl.
Proof.
  induction peers as [|j peers IH]; intros cl; cbn; auto.
  destruct (cfind p cl) as [np|] eqn:Ep; auto. destruct (cfind j cl) as [nj|] eqn:Ej; auto.
  destruct (gfind acct (nd_gens np)) as [g|]; auto.
  destruct (tm p j _) as [[sh vv]|]; auto.
  destruct (on_contribute c nj acct p sh vv) as [[nj' reply]| |] eqn:Ec; auto.
  apply on_contribute_accts in Ec. destruct Ec as [Hi Ha].
  pose proof (cfind_id _ _ _ Ej) as Hidj. pose proof (cfind_id _ _ _ Ep) as Hidp.
  assert (A1 : accounts_of (cput nj' cl) = accounts_of cl) by (apply (cput_same_accounts nj); auto; now rewrite Hidj).
  destruct (tm j p reply) as [[rsh rvv]|]; [|exact A1].
  destruct (accept_reply c np acct j rsh rvv) as [np'| |] eqn:Ea; try exact A1.
  rewrite IH. apply accept_reply_accts in Ea. destruct Ea as [Hi2 Ha2].
  rewrite <- A1. apply cput_accounts. rewrite Hi2, Hidp.
  intros m Hm. destruct (N.eq_dec (nd_id nj') p) as [E|E].
  - (* p = j cannot happen for j > p, but the statement does not need it *)
    rewrite <- E in Hm. rewrite (cfind_cput_same nj' cl nj) in Hm by (rewrite Hi, Hidj; exact Ej).
    injection Hm as <-. rewrite Ha, Ha2.
    assert (Hjp : j = p) by congruence. rewrite Hjp in Ej. rewrite Ep in Ej. now injection Ej as ->.
  - rewrite cfind_cput_other in Hm by exact E. rewrite Ep in Hm. injection Hm as <-. now symmetry.
Qed.

Lemma on_execute_accounts c tm acct p cl : accounts_of (snd (on_execute c tm acct p cl)) = accounts_of cl.
Proof.
  unfold on_execute. destruct (cfind p cl); auto. destruct (gfind acct _); auto. apply exec_swaps_accounts.
Qed.

Lemma execute_all_accounts c tm acct todo : forall cl,
  accounts_of (snd (execute_all c tm acct todo cl)) = accounts_of cl.
Proof.
  induction todo as [|p todo IH]; intros cl; cbn; auto.
  pose proof (on_execute_accounts c tm acct p cl) as H. destruct (on_execute c tm acct p cl) as [ok cl']. cbn in H.
  destruct ok; cbn; [rewrite IH|]; exact H.
Qed.

Lemma exchange_accounts c nt acct thr parts poly cl :
  accounts_of (snd (exchange c nt acct thr parts poly cl)) = accounts_of cl.
Proof.
  unfold exchange.
  pose proof (prepare_all_accounts acct thr parts poly (until (nt_lost_prepare nt) parts) cl) as A1.
  destruct (prepare_all acct thr parts poly _ cl) as [ok1 cl1]. cbn [snd] in A1.
  destruct (negb _); [exact A1|].
  pose proof (execute_all_accounts c (nt_swap nt) acct (until (nt_lost_execute nt) parts) cl1) as A2.
  destruct (execute_all c (nt_swap nt) acct _ cl1) as [ok2 cl2]. cbn [snd] in *. now rewrite A2.
Qed.

(* any failed prepare or execute ends the generation with an error before any commit: nobody holds an account *)
Theorem failed_exchange_creates_nothing c nt acct thr parts poly cl :
  fst (exchange c nt acct thr parts poly cl) = false ->
  fst (generate c nt acct thr parts poly cl) = DErr /\
  accounts_of (snd (generate c nt acct thr parts poly cl)) = accounts_of cl.
Proof.
  intros H. unfold generate. destruct (negb (threshold_ok _ _)); [auto|].
  pose proof (exchange_accounts c nt acct thr parts poly cl) as A.
  destruct (exchange c nt acct thr parts poly cl) as [ok cl2]. cbn [fst snd] in *. subst ok. cbn. auto.
Qed.

Lemma until_length {A} (f : A -> bool) l : (List.length (until f l) <= List.length l)%nat.
Proof. induction l as [|x l IH]; cbn; auto. destruct (f x); cbn; lia. Qed.
Lemma until_full {A} (f : A -> bool) l : List.length (until f l) = List.length l -> until f l = l /\ forall x, In x l -> f x = false.
Proof.
  induction l as [|x l IH]; cbn; [intros _; split; [auto|contradiction]|].
  destruct (f x) eqn:E; cbn; [discriminate|]. intros H. injection H as H. destruct (IH H) as [I1 I2].
  split; [now rewrite I1|]. intros y [<-|Hy]; auto.
Qed.
Lemma until_lost {A} (f : A -> bool) l x : In x l -> f x = true -> (List.length (until f l) =? List.length l)%nat = false.
Proof.
  intros Hin Hx. apply Nat.eqb_neq. intros E. destruct (until_full f l E) as [_ H]. rewrite (H x Hin) in Hx. discriminate.
Qed.

(* the ways an exchange fails: a prepare or an execute message that does not get through (lost, or
   answered by an error), a participant that refuses to prepare, a swap that fails *)
Theorem lost_prepare_fails c nt acct thr parts poly cl p :
  In p parts -> nt_lost_prepare nt p = true -> fst (exchange c nt acct thr parts poly cl) = false.
Proof.
  intros Hin Hl. unfold exchange. destruct (prepare_all _ _ _ _ _ _) as [ok1 cl1].
  rewrite (until_lost _ _ p Hin Hl), andb_false_r. reflexivity.
Qed.
Theorem lost_execute_fails c nt acct thr parts poly cl p :
  In p parts -> nt_lost_execute nt p = true -> fst (exchange c nt acct thr parts poly cl) = false.
Proof.
  intros Hin Hl. unfold exchange. destruct (prepare_all _ _ _ _ _ _) as [ok1 cl1].
  destruct (negb _); [reflexivity|]. destruct (execute_all _ _ _ _ _) as [ok2 cl2].
  cbn [fst]. rewrite (until_lost _ _ p Hin Hl), andb_false_r. reflexivity.
Qed.
Theorem refused_prepare_fails c nt acct thr parts poly cl :
  fst (prepare_all acct thr parts poly (until (nt_lost_prepare nt) parts) cl) = false ->
  fst (exchange c nt acct thr parts poly cl) = false.
Proof. intros H. unfold exchange. destruct (prepare_all _ _ _ _ _ _) as [ok1 cl1]. cbn in H. subst ok1. reflexivity. Qed.
Theorem failed_swap_fails c nt acct thr parts poly cl :
  fst (execute_all c (nt_swap nt) acct (until (nt_lost_execute nt) parts)
         (snd (prepare_all acct thr parts poly (until (nt_lost_prepare nt) parts) cl))) = false ->
  fst (exchange c nt acct thr parts poly cl) = false.
Proof.
  intros H. unfold exchange. destruct (prepare_all _ _ _ _ _ _) as [ok1 cl1]. cbn [snd] in H.
  destruct (negb _); [reflexivity|]. destruct (execute_all _ _ _ _ _) as [ok2 cl2]. cbn in H. subst ok2. reflexivity.
Qed.

(* ---- arithmetic in the exponent ---- *)

Lemma qord_pos : 0 < qord. Proof. reflexivity. Qed.

Lemma fmod_idem a : fmod (fmod a) = fmod a.
Proof. unfold fmod. apply Z.mod_mod. pose proof qord_pos; lia. Qed.
Lemma fadd_fmod_l a b : fadd (fmod a) b = fadd a b.
Proof. unfold fadd, fmod. apply Zplus_mod_idemp_l. Qed.
Lemma fadd_fmod_r a b : fadd a (fmod b) = fadd a b.
Proof. unfold fadd, fmod. apply Zplus_mod_idemp_r. Qed.
Lemma fmul_fmod_r a b : fmul a (fmod b) = fmul a b.
Proof. unfold fmul, fmod. apply Zmult_mod_idemp_r. Qed.
Lemma fmod_fadd a b : fmod (fadd a b) = fadd a b.
Proof. unfold fadd. apply fmod_idem. Qed.

Lemma horner_reduced cs x : fmod (horner cs x) = horner cs x.
Proof. destruct cs; cbn; [reflexivity|apply fmod_fadd]. Qed.

Lemma fadd4 x y a b : fadd (fadd x a) (fadd y b) = fadd (fadd x y) (fadd a b).
Proof.
  unfold fadd, fmod. rewrite Zplus_mod_idemp_l, Zplus_mod_idemp_r.
  rewrite (Zplus_mod_idemp_l (x + y)), Zplus_mod_idemp_r. f_equal. ring.
Qed.
Lemma fmul_fadd z a b : fmul z (fadd a b) = fadd (fmul z a) (fmul z b).
Proof.
  unfold fmul, fadd, fmod. rewrite Zmult_mod_idemp_r, <- Zplus_mod. f_equal. ring.
Qed.

Lemma horner_vadd a : forall b x, List.length a = List.length b ->
  horner (vadd a b) x = fadd (horner a x) (horner b x).
Proof.
  induction a as [|c a IH]; intros [|d b] x H; try discriminate; cbn.
  - reflexivity.
  - rewrite IH by (now injection H). rewrite fmul_fadd. symmetry. apply fadd4.
Qed.

Lemma vadd_length a : forall b, List.length a = List.length b -> List.length (vadd a b) = List.length a.
Proof. induction a as [|c a IH]; intros [|d b] H; try discriminate; cbn; [reflexivity|]. f_equal. apply IH. now injection H. Qed.

Lemma horner_zeros n x : horner (repeat 0 n) x = 0.
Proof. induction n; cbn [repeat horner]; auto. rewrite IHn. unfold fadd, fmul, fmod. rewrite Z.mul_0_r, Zmod_0_l. reflexivity. Qed.

(* ---- the consistency invariant of a generation ---- *)

Definition pair_ok (c : dcfg) (id : N) (thr : nat) (sv : N * Z) (vv : N * list Z) : Prop :=
  fst sv = fst vv /\ verify_contribution id (snd sv) (snd vv) = true /\ (check_len c = true -> List.length (snd vv) = thr).
Definition gen_inv (c : dcfg) (id : N) (g : gen) : Prop :=
  Forall2 (pair_ok c id (g_thr g)) (g_shares g) (g_vvecs g) /\ (check_len c = true -> (0 < g_thr g)%nat).
Definition node_inv (c : dcfg) (n : dnode) : Prop :=
  forall a g, gfind a (nd_gens n) = Some g -> gen_inv c (nd_id n) g.
Definition cluster_inv (c : dcfg) (cl : cluster) : Prop := Forall (node_inv c) cl.

Lemma aremove_pairs c id thr k : forall l1 l2,
  Forall2 (pair_ok c id thr) l1 l2 -> Forall2 (pair_ok c id thr) (aremove N.eqb k l1) (aremove N.eqb k l2).
Proof.
  induction 1 as [|[k1 s] [k2 v] l1 l2 (Hk & Hv & Hl) _ IH]; cbn; [constructor|].
  cbn in Hk. subst k2. destruct (N.eqb k k1); [exact IH|]. constructor; [|exact IH]. repeat split; auto.
Qed.

Lemma aput_pairs c id thr k s v l1 l2 :
  Forall2 (pair_ok c id thr) l1 l2 -> verify_contribution id s v = true -> (check_len c = true -> List.length v = thr) ->
  Forall2 (pair_ok c id thr) (aput N.eqb k s l1) (aput N.eqb k v l2).
Proof. intros H Hv Hl. unfold aput. constructor; [repeat split; auto|now apply aremove_pairs]. Qed.

Lemma afind_aremove {V} (eqb : string -> string -> bool) (Heq : forall a b, eqb a b = true <-> a = b) a b (l : list (string * V)) :
  afind eqb a (aremove eqb b l) = if eqb a b then None else afind eqb a l.
Proof.
  induction l as [|[k v] l IH]; cbn; [now destruct (eqb a b)|].
  destruct (eqb b k) eqn:Ebk; cbn.
  - rewrite IH. destruct (eqb a b) eqn:Eab; auto. destruct (eqb a k) eqn:Eak; auto.
    apply Heq in Ebk, Eak. assert (Hx : eqb a b = true) by (apply Heq; congruence). congruence.
  - rewrite IH. destruct (eqb a k) eqn:Eak; auto. destruct (eqb a b) eqn:Eab; auto.
    apply Heq in Eak, Eab. assert (Hx : eqb b k = true) by (apply Heq; congruence). congruence.
Qed.

Lemma gfind_gput a b g l : gfind a (gput b g l) = if String.eqb a b then Some g else gfind a l.
Proof.
  unfold gfind, gput, aput. cbn. destruct (String.eqb a b) eqn:E; auto.
  rewrite afind_aremove by (intros; apply String.eqb_eq). now rewrite E.
Qed.
Lemma gfind_gremove a b l : gfind a (gremove b l) = if String.eqb a b then None else gfind a l.
Proof. unfold gfind, gremove. apply afind_aremove. intros; apply String.eqb_eq. Qed.

Lemma verify_own poly id : poly <> [] -> verify_contribution id (horner poly (idz id)) poly = true.
Proof. intros H. unfold verify_contribution. destruct poly; [congruence|]. rewrite horner_reduced. apply Z.eqb_refl. Qed.

Lemma on_prepare_inv c n a thr parts poly n' :
  node_inv c n -> poly <> [] -> (check_len c = true -> List.length poly = thr) ->
  on_prepare n a thr parts poly = DOk n' -> node_inv c n'.
Proof.
  intros I Hp Hl. unfold on_prepare. destruct (gfind a (nd_gens n)); [discriminate|]. intros H; injection H as <-.
  intros b g. cbn [nd_gens set_gens nd_id]. rewrite gfind_gput. destruct (String.eqb b a).
  - intros E; injection E as <-. unfold gen_inv. cbn. split.
    + constructor; [|constructor]. repeat split; auto. now apply verify_own.
    + intros Hc. specialize (Hl Hc). destruct poly; [congruence|]. cbn in Hl. lia.
  - apply I.
Qed.

Lemma on_contribute_inv c n a s sh vv n' r :
  node_inv c n -> on_contribute c n a s sh vv = DOk (n', r) -> node_inv c n'.
Proof.
  intros I. unfold on_contribute. destruct (gfind a (nd_gens n)) as [g|] eqn:Eg; [|discriminate].
  destruct (verify_contribution (nd_id n) sh vv) eqn:Ev; [|discriminate]. cbn [negb].
  destruct (vvec_ok c g vv) eqn:El; [|discriminate]. cbn [negb]. intros H; injection H as <- _.
  intros b g'. cbn [nd_gens set_gens nd_id]. rewrite gfind_gput. destruct (String.eqb b a).
  - intros E; injection E as <-. unfold gen_inv. cbn [g_thr g_shares g_vvecs]. destruct (I a g Eg) as [I1 I2]. split; [|exact I2].
    apply aput_pairs; auto.
    intros Hc. unfold vvec_ok in El. rewrite Hc in El. cbn in El. now apply Nat.eqb_eq.
  - apply I.
Qed.

Lemma accept_reply_inv c n a p sh vv n' :
  node_inv c n -> accept_reply c n a p sh vv = DOk n' -> node_inv c n'.
Proof.
  intros I. unfold accept_reply. destruct (gfind a (nd_gens n)) as [g|] eqn:Eg; [|discriminate].
  destruct (verify_contribution (nd_id n) sh vv) eqn:Ev; [|discriminate]. cbn [negb].
  destruct (vvec_ok c g vv) eqn:El; [|discriminate]. cbn [negb].
  destruct (afind _ _ _); [discriminate|]. intros H; injection H as <-.
  intros b g'. cbn [nd_gens set_gens nd_id]. rewrite gfind_gput. destruct (String.eqb b a).
  - intros E; injection E as <-. unfold gen_inv. cbn [g_thr g_shares g_vvecs]. destruct (I a g Eg) as [I1 I2]. split; [|exact I2].
    apply aput_pairs; auto.
    intros Hc. unfold vvec_ok in El. rewrite Hc in El. cbn in El. now apply Nat.eqb_eq.
  - apply I.
Qed.

Lemma cput_inv c n cl : cluster_inv c cl -> node_inv c n -> cluster_inv c (cput n cl).
Proof.
  intros H Hn. induction H as [|m cl Hm Hcl IH]; cbn; [constructor|].
  destruct (N.eqb (nd_id m) (nd_id n)); constructor; auto.
Qed.
Lemma cfind_inv c cl i n : cluster_inv c cl -> cfind i cl = Some n -> node_inv c n.
Proof.
  intros H. induction H as [|m cl Hm _ IH]; cbn; [discriminate|].
  destruct (N.eqb (nd_id m) i); [intros E; now injection E as <-|auto].
Qed.

Definition polys_ok (c : dcfg) (thr : nat) (poly : N -> list Z) : Prop :=
  forall p, poly p <> [] /\ (check_len c = true -> List.length (poly p) = thr).

Lemma prepare_all_inv c acct thr parts poly todo : polys_ok c thr poly -> forall cl,
  cluster_inv c cl -> cluster_inv c (snd (prepare_all acct thr parts poly todo cl)).
Proof.
  intros Hp. induction todo as [|p todo IH]; intros cl I; cbn; auto.
  destruct (cfind p cl) as [np|] eqn:E; auto.
  destruct (on_prepare np acct thr parts (poly p)) as [np'| |] eqn:Ep; auto.
  apply IH. apply cput_inv; auto. destruct (Hp p). eapply on_prepare_inv; [exact (cfind_inv c cl p np I E)| | |exact Ep]; auto.
Qed.

Lemma exec_swaps_inv c tm acct p peers : forall cl,
  cluster_inv c cl -> cluster_inv c (snd (exec_swaps c tm acct p peers cl)).
Proof.
  induction peers as [|j peers IH]; intros cl I; cbn [exec_swaps snd]; [exact I|].
  destruct (cfind p cl) as [np|] eqn:Ep; [|exact I]. destruct (cfind j cl) as [nj|] eqn:Ej; [|exact I].
  destruct (gfind acct (nd_gens np)) as [g|]; [|exact I].
  destruct (tm p j _) as [[sh vv]|]; [|exact I].
  destruct (on_contribute c nj acct p sh vv) as [[nj' reply]| |] eqn:Ec; [|exact I|exact I].
  assert (I1 : cluster_inv c (cput nj' cl)).
  { apply cput_inv; auto. eapply on_contribute_inv; [|exact Ec]. exact (cfind_inv c cl j nj I Ej). }
  destruct (tm j p reply) as [[rsh rvv]|]; [|exact I1].
  destruct (accept_reply c np acct j rsh rvv) as [np'| |] eqn:Ea; [|exact I1|exact I1].
  apply IH. apply cput_inv; auto. eapply accept_reply_inv; [|exact Ea]. exact (cfind_inv c cl p np I Ep).
Qed.

Lemma execute_all_inv c tm acct todo : forall cl,
  cluster_inv c cl -> cluster_inv c (snd (execute_all c tm acct todo cl)).
Proof.
  induction todo as [|p todo IH]; intros cl I; cbn; auto.
  assert (I1 : cluster_inv c (snd (on_execute c tm acct p cl))).
  { unfold on_execute. destruct (cfind p cl); auto. destruct (gfind acct _); auto. now apply exec_swaps_inv. }
  destruct (on_execute c tm acct p cl) as [ok cl']. cbn in I1. destruct ok; cbn; auto.
Qed.

(* ---- commit: never out of range, and the account's share is consistent with its vector ---- *)

Lemma agg_no_panic thr vs : Forall (fun v => List.length v = thr) vs -> exists agg, agg_vvecs thr vs = Some agg.
Proof.
  intros H. unfold agg_vvecs.
  assert (E : existsb (fun v => (thr <? List.length v)%nat) vs = false).
  { apply not_true_is_false. intros Hx. apply existsb_exists in Hx. destruct Hx as (v & Hv & Hlt).
    rewrite Forall_forall in H. rewrite (H v Hv) in Hlt. apply Nat.ltb_lt in Hlt. lia. }
  rewrite E. eauto.
Qed.

Lemma sum_consistent c id thr : forall (ss : list (N * Z)) (vs : list (N * list Z)) accs accv,
  check_len c = true -> Forall2 (pair_ok c id thr) ss vs ->
  List.length accv = thr -> fmod accs = horner accv (idz id) ->
  fmod (fold_left fadd (map snd ss) accs) = horner (fold_left vadd (map snd vs) accv) (idz id) /\
  List.length (fold_left vadd (map snd vs) accv) = thr.
Proof.
  intros ss vs accs accv Hc H. revert accs accv.
  induction H as [|[k1 s] [k2 v] ss vs (Hk & Hv & Hl) _ IH]; intros accs accv Hlen Hacc; cbn; auto.
  cbn in Hv, Hl. specialize (Hl Hc).
  apply IH.
  - rewrite vadd_length; congruence.
  - rewrite horner_vadd by congruence. rewrite fmod_fadd, <- Hacc.
    unfold verify_contribution in Hv. destruct v as [|c0 v]; [discriminate|]. apply Z.eqb_eq in Hv.
    rewrite <- Hv. now rewrite fadd_fmod_l, fadd_fmod_r.
Qed.

Theorem commit_consistent c n acct n' pk sig :
  check_len c = true -> node_inv c n ->
  on_commit n acct = DOk (n', (pk, sig)) ->
  exists g a, gfind acct (nd_gens n) = Some g /\ afind String.eqb acct (nd_accts n') = Some a /\
    verify_contribution (nd_id n) (ar_share a) (ar_vvec a) = true /\
    pk = hd 0 (ar_vvec a) /\ sig = ar_share a /\ ar_thr a = g_thr g /\ ar_parts a = g_parts g /\
    List.length (ar_vvec a) = g_thr g /\ gfind acct (nd_gens n') = None.
Proof.
  intros Hc I. unfold on_commit. destruct (gfind acct (nd_gens n)) as [g|] eqn:Eg; [|discriminate].
  destruct (negb _); [discriminate|]. destruct (negb _); [discriminate|].
  destruct (agg_vvecs (g_thr g) (map snd (g_vvecs g))) as [agg|] eqn:Ea; [|discriminate].
  destruct (afind String.eqb acct (nd_accts n)); [discriminate|].
  intros H; injection H as <- <- <-.
  destruct (I acct g Eg) as [Ig Hthr]. specialize (Hthr Hc).
  unfold agg_vvecs in Ea. destruct (existsb _ _); [discriminate|]. injection Ea as <-.
  destruct (sum_consistent c (nd_id n) (g_thr g) (g_shares g) (g_vvecs g) 0 (repeat 0 (g_thr g)) Hc Ig) as [Hs Hl].
  { apply repeat_length. } { now rewrite horner_zeros. }
  exists g. eexists. split; [reflexivity|]. split; [cbn; now rewrite String.eqb_refl|].
  cbn [ar_share ar_vvec ar_thr ar_parts nd_gens]. repeat split; auto.
  - unfold verify_contribution.
    destruct (fold_left vadd (map snd (g_vvecs g)) (repeat 0 (g_thr g))) as [|x l] eqn:E.
    + cbn in Hl. lia.
    + now apply Z.eqb_eq.
  - rewrite gfind_gremove. now rewrite String.eqb_refl.
Qed.

Theorem commit_no_panic c n acct :
  check_len c = true -> node_inv c n -> on_commit n acct <> DPanic.
Proof.
  intros Hc I. unfold on_commit. destruct (gfind acct (nd_gens n)) as [g|] eqn:Eg; [|discriminate].
  destruct (negb _); [discriminate|]. destruct (negb _); [discriminate|].
  destruct (agg_no_panic (g_thr g) (map snd (g_vvecs g))) as (agg & ->).
  - destruct (I acct g Eg) as [I0 _]. clear -I0 Hc.
    induction I0 as [|sv vv ss vs (_ & _ & Hl) _ IH]; cbn; constructor; auto.
  - destruct (afind _ _ _); discriminate.
Qed.

(* ---- the whole generation ---- *)

Lemma check_commits_ok thr replies pk :
  check_commits thr replies = Some pk -> forall r, In r replies -> exists sig, snd r = DOk (pk, sig).
Proof.
  unfold check_commits.
  set (oks := flat_map (fun r => match reply_ok r with Some x => [x] | None => [] end) replies).
  destruct (negb (List.length oks =? List.length replies)%nat) eqn:El; [discriminate|].
  apply negb_false_iff, Nat.eqb_eq in El.
  destruct oks as [|[i0 [pk0 s0]] oks'] eqn:Eo; [discriminate|].
  destruct (negb (forallb _ _)) eqn:Ef; [discriminate|]. apply negb_false_iff in Ef.
  destruct (forallb _ (windows _ _)); [|discriminate]. intros H; injection H as <-.
  (* every reply is an Ok one: the filtered list is as long as the list *)
  assert (Hall : forall l, List.length (flat_map (fun r => match reply_ok r with Some x => [x] | None => [] end) l) = List.length l ->
                 forall r, In r l -> exists x, reply_ok r = Some x /\ In x (flat_map (fun r => match reply_ok r with Some x => [x] | None => [] end) l)).
  { induction l as [|y l IH]; intros Hlen r [].
    - subst y. cbn in Hlen. destruct (reply_ok r) as [x|] eqn:Er.
      + exists x. split; auto. cbn. rewrite Er. now left.
      + cbn in Hlen. exfalso.
        assert (Hle : (List.length (flat_map (fun r => match reply_ok r with Some x => [x] | None => [] end) l) <= List.length l)%nat).
        { clear. induction l as [|z l IH]; cbn; auto. destruct (reply_ok z); cbn; lia. }
        lia.
    - cbn in Hlen. destruct (reply_ok y) eqn:Ey; cbn in Hlen.
      + destruct (IH ltac:(lia) r H) as (x & Hx & Hin). exists x. split; auto. cbn. rewrite Ey. now right.
      + exfalso.
        assert (Hle : (List.length (flat_map (fun r => match reply_ok r with Some x => [x] | None => [] end) l) <= List.length l)%nat).
        { clear. induction l as [|z l IH]; cbn; auto. destruct (reply_ok z); cbn; lia. }
        lia. }
  intros r Hr. fold oks in Hall. destruct (Hall replies ltac:(subst oks; rewrite Eo; exact El) r Hr) as (x & Hx & Hin).
  change (flat_map (fun r => match reply_ok r with Some x => [x] | None => [] end) replies) with oks in Hin. rewrite Eo in Hin.
  rewrite forallb_forall in Ef. specialize (Ef x Hin). apply Z.eqb_eq in Ef.
  unfold reply_ok in Hx. destruct (snd r) as [[pk' sig]| |] eqn:Es; try discriminate.
  injection Hx as <-. cbn in Ef. subst pk'. eauto.
Qed.

Lemma commit_all_other acct todo : forall cl i, ~ In i todo -> cfind i (fst (commit_all acct todo cl)) = cfind i cl.
Proof.
  induction todo as [|p todo IH]; intros cl i Hn; cbn; auto.
  assert (Hp : p <> i) by (intros ->; apply Hn; now left).
  assert (Hr : ~ In i todo) by (intros H; apply Hn; now right).
  destruct (cfind p cl) as [np|] eqn:Ep.
  - destruct (on_commit np acct) as [[np' reply]| |] eqn:Ec.
    + specialize (IH (cput np' cl) i Hr). destruct (commit_all acct todo (cput np' cl)). cbn in *. rewrite IH.
      apply cfind_cput_other. unfold on_commit in Ec. destruct (gfind acct _); [|discriminate].
      destruct (negb _); [discriminate|]. destruct (negb _); [discriminate|]. destruct (agg_vvecs _ _); [|discriminate].
      destruct (afind _ _ _); [discriminate|]. injection Ec as <- _. cbn. rewrite (cfind_id _ _ _ Ep). exact Hp.
    + specialize (IH cl i Hr). destruct (commit_all acct todo cl). exact IH.
    + specialize (IH cl i Hr). destruct (commit_all acct todo cl). exact IH.
  - specialize (IH cl i Hr). destruct (commit_all acct todo cl). exact IH.
Qed.

Lemma on_commit_id n acct n' r : on_commit n acct = DOk (n', r) -> nd_id n' = nd_id n.
Proof.
  unfold on_commit. destruct (gfind acct _); [|discriminate].
  destruct (negb _); [discriminate|]. destruct (negb _); [discriminate|]. destruct (agg_vvecs _ _); [|discriminate].
  destruct (afind _ _ _); [discriminate|]. intros H; injection H as <- _. reflexivity.
Qed.

Lemma commit_all_in acct todo : forall cl p r, In (p, r) (snd (commit_all acct todo cl)) -> In p todo.
Proof.
  induction todo as [|z todo IH]; intros cl p r; cbn; [intros []|].
  destruct (cfind z cl) as [nz|].
  - destruct (on_commit nz acct) as [[nz' rz]| |].
    + specialize (IH (cput nz' cl) p r). destruct (commit_all acct todo (cput nz' cl)). cbn in *.
      intros [E|H]; [injection E as -> _; now left|right; auto].
    + specialize (IH cl p r). destruct (commit_all acct todo cl). cbn in *.
      intros [E|H]; [injection E as -> _; now left|right; auto].
    + specialize (IH cl p r). destruct (commit_all acct todo cl). cbn in *.
      intros [E|H]; [injection E as -> _; now left|right; auto].
  - specialize (IH cl p r). destruct (commit_all acct todo cl). cbn in *.
    intros [E|H]; [injection E as -> _; now left|right; auto].
Qed.

Lemma commit_all_spec acct todo : NoDup todo -> forall cl p reply,
  In (p, DOk reply) (snd (commit_all acct todo cl)) ->
  exists np np', cfind p cl = Some np /\ on_commit np acct = DOk (np', reply) /\ cfind p (fst (commit_all acct todo cl)) = Some np'.
Proof.
  induction 1 as [|q todo Hq ND IH]; intros cl p reply; cbn; [intros []|].
  destruct (cfind q cl) as [nq|] eqn:Eq.
  - destruct (on_commit nq acct) as [[nq' rq]| |] eqn:Ec.
    + pose proof (commit_all_other acct todo (cput nq' cl) q Hq) as Ho.
      specialize (IH (cput nq' cl) p reply). destruct (commit_all acct todo (cput nq' cl)) as [cl' rs] eqn:Er. cbn in *.
      intros [E|Hin].
      * injection E as <- <-. exists nq, nq'. split; auto. split; auto. rewrite Ho.
        pose proof (on_commit_id _ _ _ _ Ec) as Hid. rewrite <- (cfind_id _ _ _ Eq), <- Hid.
        apply (cfind_cput_same nq' cl nq). rewrite Hid, (cfind_id _ _ _ Eq). exact Eq.
      * destruct (IH Hin) as (np & np' & H1 & H2 & H3). exists np, np'. split; [|auto].
        assert (Hpq : q <> p).
        { intros ->. apply Hq. apply (commit_all_in acct todo (cput nq' cl) p (DOk reply)). rewrite Er. exact Hin. }
        rewrite cfind_cput_other in H1; auto. rewrite (on_commit_id _ _ _ _ Ec), (cfind_id _ _ _ Eq). exact Hpq.
    + specialize (IH cl p reply). destruct (commit_all acct todo cl). cbn. intros [E|Hin]; [discriminate|auto].
    + specialize (IH cl p reply). destruct (commit_all acct todo cl). cbn. intros [E|Hin]; [discriminate|auto].
  - specialize (IH cl p reply). destruct (commit_all acct todo cl). cbn. intros [E|Hin]; [discriminate|auto].
Qed.

(* the exchange keeps the invariant *)
Lemma exchange_inv c nt acct thr parts poly cl :
  polys_ok c thr poly -> cluster_inv c cl -> cluster_inv c (snd (exchange c nt acct thr parts poly cl)).
Proof.
  intros Hp I. unfold exchange.
  pose proof (prepare_all_inv c acct thr parts poly (until (nt_lost_prepare nt) parts) Hp cl I) as I1.
  destruct (prepare_all acct thr parts poly _ cl) as [ok1 cl1]. cbn [snd] in I1.
  destruct (negb _); [exact I1|].
  pose proof (execute_all_inv c (nt_swap nt) acct (until (nt_lost_execute nt) parts) cl1 I1) as I2.
  destruct (execute_all c (nt_swap nt) acct _ cl1) as [ok2 cl2]. exact I2.
Qed.

(* a successful generation: every listed participant holds the account, with the returned composite
   key, a share consistent with the account's vector, the threshold and participant list of the request *)
Theorem generate_success c nt acct thr parts poly cl pk cl' :
  check_len c = true -> cluster_inv c cl -> polys_ok c thr poly -> NoDup parts ->
  generate c nt acct thr parts poly cl = (DOk pk, cl') ->
  threshold_ok (List.length parts) thr = true /\
  forall p, In p parts ->
    exists n a, cfind p cl' = Some n /\ afind String.eqb acct (nd_accts n) = Some a /\
      hd 0 (ar_vvec a) = pk /\ verify_contribution p (ar_share a) (ar_vvec a) = true /\
      List.length (ar_vvec a) = ar_thr a /\ gfind acct (nd_gens n) = None.
Proof.
  intros Hc I Hp ND. unfold generate.
  destruct (threshold_ok (List.length parts) thr) eqn:Et; cbn [negb]; [|discriminate].
  pose proof (exchange_inv c nt acct thr parts poly cl Hp I) as I2.
  destruct (exchange c nt acct thr parts poly cl) as [ok2 cl2]. cbn [snd] in I2.
  destruct ok2; cbn [negb]; [|discriminate].
  pose proof (commit_all_spec acct parts ND cl2) as Hs.
  destruct (commit_all acct parts cl2) as [cl3 replies] eqn:Ecm. cbn [fst snd] in Hs.
  destruct (existsb _ replies); [discriminate|].
  destruct (check_commits thr replies) as [pk'|] eqn:Ek; [|discriminate].
  intros H; injection H as <- <-. split; [reflexivity|].
  intros p Hin.
  (* p has a reply *)
  assert (Hr : exists r, In (p, r) replies).
  { clear -Ecm Hin. revert cl2 cl3 replies Ecm. induction parts as [|z parts IH]; intros cl2 cl3 replies Ecm; [contradiction|].
    cbn in Ecm. destruct Hin as [->|Hin].
    - destruct (cfind p cl2) as [np|]; [destruct (on_commit np acct) as [[? ?]| |]|];
        match type of Ecm with context [commit_all ?a ?t ?c] => destruct (commit_all a t c) end;
        injection Ecm as <- <-; eexists; now left.
    - destruct (cfind z cl2) as [nz|]; [destruct (on_commit nz acct) as [[? ?]| |]|];
        match type of Ecm with context [commit_all ?a ?t ?c] => destruct (commit_all a t c) as [c' rs] eqn:E' end;
        injection Ecm as <- <-; destruct (IH Hin _ _ _ E') as (r & Hr); exists r; now right. }
  destruct Hr as (r & Hr). destruct (check_commits_ok thr replies pk' Ek (p, r) Hr) as (sig & Es). cbn in Es. subst r.
  destruct (Hs p (pk', sig) Hr) as (np & np' & H1 & H2 & H3).
  destruct (commit_consistent c np acct np' pk' sig Hc (cfind_inv c cl2 p np I2 H1) H2) as (g & a & Hg & Ha & Hv & Hpk & _ & Ht & _ & Hl & Hgone).
  exists np', a. rewrite (cfind_id _ _ _ H1) in Hv. repeat split; auto. congruence.
Qed.

(* with the length check no contribution, however altered in flight, makes any instance index out of range *)
Theorem generate_no_panic c nt acct thr parts poly cl :
  check_len c = true -> cluster_inv c cl -> polys_ok c thr poly ->
  fst (generate c nt acct thr parts poly cl) <> DPanic.
Proof.
  intros Hc I Hp. unfold generate. destruct (negb (threshold_ok _ _)); [cbn; discriminate|].
  pose proof (exchange_inv c nt acct thr parts poly cl Hp I) as I2.
  destruct (exchange c nt acct thr parts poly cl) as [ok2 cl2]. cbn [snd] in I2.
  destruct ok2; cbn [negb]; [|cbn; discriminate].
  destruct (commit_all acct parts cl2) as [cl3 replies] eqn:Ecm.
  assert (Hnp : existsb (fun r => match snd r with DPanic => true | _ => false end) replies = false).
  { apply not_true_is_false. intros Hx. apply existsb_exists in Hx. destruct Hx as ([p r] & Hin & Hr). cbn in Hr.
    destruct r; try discriminate.
    (* a panicking reply comes from on_commit on a node of a cluster satisfying the invariant *)
    clear Hr. revert cl2 cl3 replies I2 Ecm Hin. generalize parts as todo.
    induction todo as [|z todo IH]; intros cl2 cl3 replies I2 Ecm Hin; cbn in Ecm; [injection Ecm as _ <-; contradiction|].
    destruct (cfind z cl2) as [nz|] eqn:Ez.
    - pose proof (commit_no_panic c nz acct Hc (cfind_inv c cl2 z nz I2 Ez)) as Hnp.
      destruct (on_commit nz acct) as [[nz' rz]| |] eqn:Ec; [| |congruence].
      + destruct (commit_all acct todo (cput nz' cl2)) as [c' rs] eqn:E'. injection Ecm as <- <-.
        destruct Hin as [E|Hin]; [discriminate|]. eapply (IH (cput nz' cl2)); eauto.
        apply cput_inv; auto.
        (* the committed node keeps the invariant: it only loses a generation *)
        unfold on_commit in Ec. destruct (gfind acct (nd_gens nz)); [|discriminate].
        destruct (negb _); [discriminate|]. destruct (negb _); [discriminate|]. destruct (agg_vvecs _ _); [|discriminate].
        destruct (afind _ _ _); [discriminate|]. injection Ec as <- _.
        intros b g'. cbn [nd_gens nd_id]. rewrite gfind_gremove. destruct (String.eqb b acct); [discriminate|].
        apply (cfind_inv c cl2 z nz I2 Ez).
      + destruct (commit_all acct todo cl2) as [c' rs] eqn:E'. injection Ecm as <- <-.
        destruct Hin as [E|Hin]; [discriminate|]. eapply (IH cl2); eauto.
    - destruct (commit_all acct todo cl2) as [c' rs] eqn:E'. injection Ecm as <- <-.
      destruct Hin as [E|Hin]; [discriminate|]. eapply (IH cl2); eauto. }
  rewrite Hnp. destruct (check_commits thr replies); cbn; discriminate.
Qed.

(* ---- the legacy receiving side (no length check): a vector one entry too long, consistent with its
        share, is accepted and the commit indexes out of range (F4) ---- *)
Definition mkn (i : N) : dnode := {| nd_id := i; nd_gens := []; nd_accts := [] |}.
Definition poly3 (i : N) : list Z := [Z.of_N i * 1000 + 7; Z.of_N i + 3].
(* node 1 appends a zero coefficient to the vector it sends to node 2 *)
Definition pad_vector : tamper := fun from to m => if (N.eqb from 1 && N.eqb to 2)%bool then Some (fst m, snd m ++ [0]) else Some m.

Lemma legacy_long_vector_panics :
  fst (generate {| check_len := false |} (net_of pad_vector) "W/a" 2 [1; 2; 3]%N poly3 [mkn 1; mkn 2; mkn 3]) = DPanic.
Proof. vm_compute. reflexivity. Qed.
Lemma fixed_long_vector_rejected :
  generate {| check_len := true |} (net_of pad_vector) "W/a" 2 [1; 2; 3]%N poly3 [mkn 1; mkn 2; mkn 3] =
  (DErr, snd (generate {| check_len := true |} (net_of pad_vector) "W/a" 2 [1; 2; 3]%N poly3 [mkn 1; mkn 2; mkn 3])) /\
  accounts_of (snd (generate {| check_len := true |} (net_of pad_vector) "W/a" 2 [1; 2; 3]%N poly3 [mkn 1; mkn 2; mkn 3])) =
  accounts_of [mkn 1; mkn 2; mkn 3].
Proof. split; vm_compute; reflexivity. Qed.

(* an honest 2-of-3 run (non-vacuity of generate_success) *)
Lemma honest_run_example :
  exists cl', generate {| check_len := true |} (net_of honest) "W/a" 2 [1; 2; 3]%N poly3 [mkn 1; mkn 2; mkn 3] = (DOk 6021, cl') /\
  map (fun n => map (fun a => (ar_vvec (snd a), ar_share (snd a))) (nd_accts n)) cl' =
  [[([6021; 15], 6036)]; [([6021; 15], 6051)]; [([6021; 15], 6066)]].
Proof. eexists. split; vm_compute; reflexivity. Qed.

(* ---- C16: the peer gate ---- *)
Lemma sender_id_unknown peers name :
  (forall i pn, In (i, pn) peers -> Some pn <> name) -> sender_id peers name = 0%N.
Proof.
  destruct name as [nm|]; [|intros _; destruct peers; reflexivity]. induction peers as [|[i pn] peers IH]; intros H; cbn; auto.
  destruct (String.eqb_spec pn nm) as [->|E].
  - exfalso. apply (H i nm); [now left|reflexivity].
  - apply IH. intros j pm Hin. apply (H j pm). now right.
Qed.
Lemma sender_id_peer peers i nm :
  NoDup (map snd peers) -> In (i, nm) peers -> sender_id peers (Some nm) = i.
Proof.
  induction peers as [|[j pn] peers IH]; intros ND Hin; [contradiction|]. cbn.
  inversion ND as [|? ? Hn ND']; subst. destruct Hin as [E|Hin].
  - injection E as -> ->. now rewrite String.eqb_refl.
  - destruct (String.eqb_spec pn nm) as [->|E]; [|auto].
    exfalso. apply Hn. apply in_map_iff. exists (i, nm). auto.
Qed.

(* the inverse used by the model's signature recovery is one (spot checks; the recovery itself is
   proved correct over an arbitrary field in Algebra/Shamir.v) *)
Example finv_examples :
  fmul 5 (finv 5) = 1 /\ fmul (qord - 1) (finv (qord - 1)) = 1 /\
  fmul 18446744073709551615 (finv 18446744073709551615) = 1 /\
  fmul 31415926535897932384626433832795028841971693993751058209749445923 (finv 31415926535897932384626433832795028841971693993751058209749445923) = 1.
Proof. vm_compute. repeat split; reflexivity. Qed.

(* ---- valid contributions are accepted (the checks reject nothing they should not) ---- *)

Lemma honest_contribution_accepted c n acct sender poly g :
  gfind acct (nd_gens n) = Some g -> poly <> [] -> List.length poly = g_thr g ->
  exists n', on_contribute c n acct sender (horner poly (idz (nd_id n))) poly
             = DOk (n', (horner (g_poly g) (idz sender), g_poly g)).
Proof.
  intros Hg Hne Hl. unfold on_contribute. rewrite Hg. rewrite (verify_own poly (nd_id n) Hne). cbn [negb].
  unfold vvec_ok. rewrite Hl, Nat.eqb_refl, orb_true_r. cbn [negb]. eexists. reflexivity.
Qed.

Lemma honest_reply_accepted c n acct peer poly g :
  gfind acct (nd_gens n) = Some g -> poly <> [] -> List.length poly = g_thr g ->
  afind N.eqb peer (g_shares g) = None ->
  exists n', accept_reply c n acct peer (horner poly (idz (nd_id n))) poly = DOk n'.
Proof.
  intros Hg Hne Hl Hd. unfold accept_reply. rewrite Hg. rewrite (verify_own poly (nd_id n) Hne). cbn [negb].
  unfold vvec_ok. rewrite Hl, Nat.eqb_refl, orb_true_r. cbn [negb]. rewrite Hd. eexists. reflexivity.
Qed.

(* ---- the prepare phase never fails for a name nobody has a generation for ---- *)

Lemma on_prepare_fresh n acct thr parts poly :
  gfind acct (nd_gens n) = None -> exists n', on_prepare n acct thr parts poly = DOk n' /\ nd_id n' = nd_id n.
Proof. intros H. unfold on_prepare. rewrite H. eexists. split; reflexivity. Qed.

Lemma prepare_all_fresh acct thr parts poly : forall todo cl,
  NoDup todo ->
  (forall p, In p todo -> exists n, cfind p cl = Some n /\ gfind acct (nd_gens n) = None) ->
  fst (prepare_all acct thr parts poly todo cl) = true.
Proof.
  induction todo as [|p todo IH]; intros cl ND H; cbn [prepare_all]; [reflexivity|].
  inversion ND as [|p' t' Hnin ND']; subst.
  destruct (H p (or_introl eq_refl)) as (np & Ep & Gp). rewrite Ep.
  destruct (on_prepare_fresh np acct thr parts (poly p) Gp) as (np' & Eo & Hid). rewrite Eo.
  apply IH; [exact ND'|]. intros q Hq.
  destruct (H q (or_intror Hq)) as (nq & Eq & Gq). exists nq. split; [|exact Gq].
  rewrite cfind_cput_other; [exact Eq|]. rewrite Hid, (cfind_id _ _ _ Ep). intros ->. contradiction.
Qed.
