(* C05 and C06 on the signer model: domain separation between endpoints, and fail-closed. *)
From DV Require Import Model.Instance Proofs.AssocFacts Proofs.RulesProofs Proofs.RulerProofs Proofs.SignerProofs.
From Coq Require Import Lia.
Local Open Scope Z_scope.

(* ---- the generic rule ---- *)

Lemma on_sign_approved c ip dom :
  on_sign c ip dom = RApproved ->
  bytes_eqb (prefix4 dom) dom_attester = false /\
  bytes_eqb (prefix4 dom) dom_proposer = false /\
  (bytes_eqb (prefix4 dom) dom_exit = true -> ip <> ""%string /\ In ip (admin_ips c)).
Proof.
  unfold on_sign.
  destruct (bytes_eqb (prefix4 dom) dom_attester); [discriminate|].
  destruct (bytes_eqb (prefix4 dom) dom_proposer); [discriminate|].
  destruct (bytes_eqb (prefix4 dom) dom_exit); [|intros _; split; [reflexivity|split; [reflexivity|discriminate]]].
  destruct (String.eqb_spec ip ""); [discriminate|].
  destruct (existsb (String.eqb ip) (admin_ips c)) eqn:E; [|discriminate].
  intros _. split; [reflexivity|split; [reflexivity|]]. intros _. split; [assumption|].
  apply existsb_exists in E. destruct E as (x & Hx & He). apply String.eqb_eq in He. now subst.
Qed.

Definition gen_ok (c : rcfg) (ip : string) (dom : bytes) : Prop :=
  bytes_eqb (prefix4 dom) dom_attester = false /\
  bytes_eqb (prefix4 dom) dom_proposer = false /\
  (bytes_eqb (prefix4 dom) dom_exit = true -> ip <> ""%string /\ In ip (admin_ips c)).

(* position-wise view of a signing phase *)
Lemma phase_sigs_approved {O} (items : list (acct * O)) : forall f rr ro mk s,
  In s (sigs_of (sign_phase f rr items ro mk)) ->
  exists i x, nth_error items i = Some x /\ nth_error rr i = Some RApproved /\
              s = {| sg_key := ac_key (fst x); sg_msg := mk (snd x) |}.
Proof.
  induction items as [|x items IH]; intros f rr ro mk s; [intros []|].
  destruct rr as [|r rr].
  - rewrite sign_phase_nil_rr, sigs_unknown. intros [].
  - rewrite sign_phase_cons, sigs_of_cons. intros H. apply in_app_or in H. destruct H as [H|H].
    + unfold sign_one in H. destruct r; cbn in H; try contradiction.
      destruct (do_sign (fst x) (pos_fault f 0) (ro (snd x)) (mk (snd x))) as [cr [s'|]] eqn:E; cbn in H; [|contradiction].
      destruct H as [<-|[]]. apply do_sign_some in E. destruct E as [_ ->].
      exists 0%nat, x. auto.
    + apply IH in H. destruct H as (i & y & Hy & Hr & ->). exists (S i), y. auto.
Qed.

Lemma ruler_signs_approved c ok ip ds i :
  nth_error (ruler_signs c ok ip ds) i = Some RApproved ->
  exists d, nth_error ds i = Some d /\ on_sign c ip (snd d) = RApproved.
Proof.
  unfold ruler_signs. destruct ds as [|d0 ds'] eqn:E.
  - destruct i as [|[|i]]; cbn; discriminate.
  - rewrite <- E. clear E d0 ds'.
    destruct (first_dup (map fst ds)).
    + intros H. apply nth_error_In in H. exfalso. eapply fail_at_no_approved; eauto.
    + rewrite nth_error_map. destruct (nth_error ds i) as [d|]; [|discriminate].
      cbn. destruct ok; [|discriminate]. intros H. exists d. split; auto.
      injection H as H. destruct (on_sign c ip (snd d)); cbn in H; congruence.
Qed.

(* ---- C05 (i)/(iii): generic endpoints ---- *)

Lemma sign_gen_domain c cl a d f r s :
  ruler_fault_ok f -> sign_gen c cl a d f = (r, Some s) ->
  exists data dom, sg_msg s = MGen data dom /\ gen_ok (sc_rules c) (cl_ip cl) dom.
Proof.
  intros Hf. unfold sign_gen. destruct (sign_fields d) as [[data dom]|]; [|discriminate].
  destruct (pre_check c cl a ASign (pos_fault f 0)) as [cr|ac]; [discriminate|].
  unfold ruler_fault_ok in Hf. destruct (of_ruler f) as [l|].
  - pose proof (nth0_not_approved l Hf). destruct (nth 0 l RUnknown); try discriminate. congruence.
  - destruct (nth 0 _ RUnknown) eqn:En; try discriminate.
    intros H. apply do_sign_some in H. destruct H as [_ ->]. exists data, dom. split; [reflexivity|].
    assert (Hn : nth_error (ruler_signs (sc_rules c) (creds_ok cl) (cl_ip cl) [(ac_key ac, dom)]) 0 = Some RApproved).
    { destruct (ruler_signs (sc_rules c) (creds_ok cl) (cl_ip cl) [(ac_key ac, dom)]) as [|x l]; cbn in *; [discriminate|congruence]. }
    apply ruler_signs_approved in Hn. destruct Hn as (d' & Hd & Ho). cbn in Hd. injection Hd as <-.
    cbn in Ho. now apply on_sign_approved in Ho.
Qed.

Lemma multisign_domain c cl reqs f s :
  ruler_fault_ok f -> In s (sigs_of (multisign c cl reqs f)) ->
  exists data dom, sg_msg s = MGen data dom /\ gen_ok (sc_rules c) (cl_ip cl) dom.
Proof.
  intros Hf. unfold multisign. destruct reqs as [|rq reqs'] eqn:Ereqs; [intros []|].
  rewrite <- Ereqs. clear Ereqs rq reqs'.
  destruct (find_index _ _ 0); [rewrite sigs_of_map_none; intros []|].
  destruct (negb (forallb is_pre_ok _)); [rewrite sigs_of_map_none; intros []|].
  unfold ruler_fault_ok in Hf. destruct (of_ruler f) as [l|].
  - rewrite sign_phase_no_approved by exact Hf. intros [].
  - intros H. apply phase_sigs_approved in H. destruct H as (i & x & Hx & Hr & ->).
    apply ruler_signs_approved in Hr. destruct Hr as (d' & Hd & Ho).
    rewrite nth_error_map, Hx in Hd. cbn in Hd. injection Hd as <-. cbn in Ho.
    exists (fst (snd x)), (snd (snd x)). split; [reflexivity|]. now apply on_sign_approved in Ho.
Qed.

(* ---- C05 (ii): the protected endpoints ---- *)

Lemma ruler_atts_approved c st ok f rs rr st' i :
  ruler_atts c st ok f rs = (rr, st') -> nth_error rr i = Some RApproved ->
  exists r, nth_error rs i = Some r /\ fst (chk c st r) = RApproved.
Proof.
  intros H Hn. apply ruler_atts_char in H. destruct H as [[Hna _]|(_ & -> & _)].
  - exfalso. apply Hna. eapply nth_error_In; eauto.
  - rewrite nth_error_map in Hn. destruct (nth_error rs i) as [r|]; [|discriminate].
    exists r. split; auto. now injection Hn.
Qed.

Lemma chk_approved_domain c st r : fst (chk c st r) = RApproved -> bytes_eqb (prefix4 (r_dom r)) dom_attester = true.
Proof.
  unfold chk, att_checks.
  destruct (bytes_eqb (prefix4 (r_dom r)) dom_attester); auto. cbn. discriminate.
Qed.

Lemma sign_att_domain c st cl a d f r st' s :
  ruler_fault_ok f -> sign_att c st cl a d f = ((r, Some s), st') ->
  exists slot idx bbr src sroot tgt troot dom,
    sg_msg s = MAtt slot idx bbr src sroot tgt troot dom /\ bytes_eqb (prefix4 dom) dom_attester = true.
Proof.
  intros Hf. unfold sign_att. destruct (att_fields d) as [o|]; [|discriminate].
  destruct (pre_check c cl a AAtt (pos_fault f 0)) as [cr|ac]; [discriminate|].
  unfold ruler_fault_ok in Hf. destruct (of_ruler f) as [l|].
  - pose proof (nth0_not_approved l Hf). destruct (nth 0 l RUnknown); try discriminate. congruence.
  - destruct (ruler_atts _ _ _ _ _) as [rr st1] eqn:Er.
    destruct (nth 0 rr RUnknown) eqn:En; try discriminate.
    intros H. injection H as H _. apply do_sign_some in H. destruct H as [_ ->].
    assert (Hn : nth_error rr 0 = Some RApproved) by (destruct rr; cbn in *; [discriminate|congruence]).
    destruct (ruler_atts_approved _ _ _ _ _ _ _ _ Er Hn) as (rq & Hrq & Ha). cbn in Hrq. injection Hrq as <-.
    apply chk_approved_domain in Ha. cbn in Ha. unfold att_msg. cbn. eauto 12.
Qed.

Lemma sign_atts_domain c st cl reqs f rs st' s :
  ruler_fault_ok f -> sign_atts c st cl reqs f = (rs, st') -> In s (sigs_of rs) ->
  exists slot idx bbr src sroot tgt troot dom,
    sg_msg s = MAtt slot idx bbr src sroot tgt troot dom /\ bytes_eqb (prefix4 dom) dom_attester = true.
Proof.
  intros Hf. unfold sign_atts. destruct reqs as [|rq reqs'] eqn:Ereqs.
  { intros H; injection H as <- <-. intros []. }
  rewrite <- Ereqs. clear Ereqs rq reqs'.
  destruct (find_index _ _ 0); [intros H; injection H as <- <-; rewrite sigs_of_map_none; intros []|].
  destruct (negb (forallb is_pre_ok _)); [intros H; injection H as <- <-; rewrite sigs_of_map_none; intros []|].
  unfold ruler_fault_ok in Hf. destruct (of_ruler f) as [l|].
  - intros H; injection H as <- <-. rewrite sign_phase_no_approved by exact Hf. intros [].
  - destruct (ruler_atts _ _ _ _ _) as [rr st1] eqn:Er. intros H; injection H as <- <-.
    intros H. apply phase_sigs_approved in H. destruct H as (i & x & Hx & Hr & ->).
    destruct (ruler_atts_approved _ _ _ _ _ _ _ _ Er Hr) as (rq & Hrq & Ha).
    rewrite nth_error_map, Hx in Hrq. cbn in Hrq. injection Hrq as <-.
    apply chk_approved_domain in Ha. cbn in Ha. unfold att_msg. cbn. eauto 12.
Qed.

Lemma sign_prop_domain c st cl a d f r st' s :
  ruler_fault_ok f -> sign_prop c st cl a d f = ((r, Some s), st') ->
  exists slot pidx parent state body dom,
    sg_msg s = MProp slot pidx parent state body dom /\ bytes_eqb (prefix4 dom) dom_proposer = true.
Proof.
  intros Hf. unfold sign_prop. destruct (prop_fields d) as [o|]; [|discriminate].
  destruct (pre_check c cl a AProp (pos_fault f 0)) as [cr|ac]; [discriminate|].
  unfold ruler_fault_ok in Hf. destruct (of_ruler f) as [l|].
  - pose proof (nth0_not_approved l Hf). destruct (nth 0 l RUnknown); try discriminate. congruence.
  - unfold ruler_prop. destruct (creds_ok cl); [|cbn; discriminate].
    destruct (on_prop _ _ _ _) as [x st1] eqn:Eo. cbn [nth].
    destruct x; cbn [norm]; try discriminate.
    intros H. injection H as H _. apply do_sign_some in H. destruct H as [_ ->].
    unfold on_prop in Eo. cbn [p_dom] in Eo.
    destruct (bytes_eqb (prefix4 (po_dom o)) dom_proposer) eqn:Ed; [|cbn in Eo; discriminate].
    unfold prop_msg. cbn. eauto 10.
Qed.

(* a wrong-domain attestation / proposal request changes nothing in the decoded store *)
Lemma sign_att_wrong_domain c st cl a d f r st' o :
  ruler_fault_ok f -> att_fields d = Some o -> bytes_eqb (prefix4 (ao_dom o)) dom_attester = false ->
  sign_att c st cl a d f = (r, st') -> snd r = None /\ same_view st st'.
Proof.
  intros Hf Ho Hd. unfold sign_att. rewrite Ho.
  destruct (pre_check c cl a AAtt (pos_fault f 0)) as [cr|ac].
  { intros H; injection H as <- <-. split; auto. apply same_view_refl. }
  unfold ruler_fault_ok in Hf. destruct (of_ruler f) as [l|].
  - pose proof (nth0_not_approved l Hf).
    destruct (nth 0 l RUnknown); try congruence; intros H'; injection H' as <- <-; (split; [reflexivity|apply same_view_refl]).
  - cbn [ruler_atts]. destruct (creds_ok cl).
    2:{ cbn. intros H; injection H as <- <-. split; [reflexivity|apply same_view_refl]. }
    unfold on_att. destruct (fetch_fails (of_rules f) 0).
    { cbn. intros H; injection H as <- <-. split; [reflexivity|apply same_view_refl]. }
    unfold att_checks. cbn [r_dom att_req]. rewrite Hd. cbn.
    intros H; injection H as <- <-. split; [reflexivity|apply same_view_refl].
Qed.

Lemma sign_prop_wrong_domain c st cl a d f r st' o :
  ruler_fault_ok f -> prop_fields d = Some o -> bytes_eqb (prefix4 (po_dom o)) dom_proposer = false ->
  sign_prop c st cl a d f = (r, st') -> snd r = None /\ st' = st.
Proof.
  intros Hf Ho Hd. unfold sign_prop. rewrite Ho.
  destruct (pre_check c cl a AProp (pos_fault f 0)) as [cr|ac].
  { intros H; injection H as <- <-. auto. }
  unfold ruler_fault_ok in Hf. destruct (of_ruler f) as [l|].
  - pose proof (nth0_not_approved l Hf).
    destruct (nth 0 l RUnknown); try congruence; intros H'; injection H' as <- <-; auto.
  - unfold ruler_prop. destruct (creds_ok cl).
    2:{ cbn. intros H; injection H as <- <-. auto. }
    unfold on_prop. cbn [p_dom]. rewrite Hd. cbn.
    intros H; injection H as <- <-. auto.
Qed.

(* ---- C06: a signature is present exactly in state SUCCEEDED ---- *)

Definition closed (x : cres * option sigd) : Prop := fst x = CSucceeded <-> snd x <> None.

Lemma closed_none r : r <> CSucceeded -> closed (r, None).
Proof. unfold closed; cbn. split; congruence. Qed.

Lemma closed_do_sign ac sf ok m : closed (do_sign ac sf ok m).
Proof. apply do_sign_iff. Qed.

Lemma of_rres_not_succ r : r <> RApproved -> of_rres r <> CSucceeded.
Proof. destruct r; cbn; congruence. Qed.

Lemma closed_sign_one {O} f r (x : acct * O) ro mk : closed (sign_one f r x ro mk).
Proof.
  unfold sign_one. destruct r; try (apply closed_none; cbn; discriminate). apply closed_do_sign.
Qed.

Lemma closed_phase {O} (items : list (acct * O)) : forall f rr ro mk,
  Forall closed (sign_phase f rr items ro mk).
Proof.
  induction items as [|x items IH]; intros f rr ro mk; [constructor|].
  destruct rr as [|r rr].
  - rewrite sign_phase_nil_rr. apply Forall_forall. intros y Hy. apply in_map_iff in Hy.
    destruct Hy as (? & <- & _). apply closed_none. discriminate.
  - rewrite sign_phase_cons. constructor; [apply closed_sign_one|apply IH].
Qed.

Lemma closed_map_none {A} (g : A -> cres) l : (forall p, g p <> CSucceeded) ->
  Forall closed (map (fun p => (g p, None)) l).
Proof. intros H. apply Forall_forall. intros y Hy. apply in_map_iff in Hy. destruct Hy as (p & <- & _). apply closed_none, H. Qed.

Lemma pre_check_not_succ c cl a act sf : pre_res (pre_check c cl a act sf) <> CSucceeded.
Proof.
  unfold pre_check. destruct (sf_resolve sf); [cbn; discriminate|].
  destruct (resolve c a); [|cbn; discriminate].
  destruct (_ || _); [cbn; discriminate|].
  destruct (sf_unlock sf); try (cbn; discriminate).
  destruct (ac_usable a0); cbn; discriminate.
Qed.

Lemma map_i_forall {A B} (P : B -> Prop) (g : nat -> A -> B) l : forall i,
  (forall j x, P (g j x)) -> Forall P (map_i g i l).
Proof. induction l; intros i H; cbn; constructor; auto. Qed.

Lemma set_nth_in {A} (x : A) l : forall i r, In r (set_nth i x l) -> r = x \/ In r l.
Proof.
  induction l as [|y l IH]; intros i r; [destruct i; intros []|].
  destruct i; cbn.
  - intros [<-|H]; auto.
  - intros [<-|H]; auto. destruct (IH i r H); auto.
Qed.

Lemma deny_at_not_succ n i r : In r (deny_at n i) -> r <> CSucceeded.
Proof.
  unfold deny_at. intros H. apply set_nth_in in H. destruct H as [->|H]; [discriminate|].
  apply repeat_spec in H. subst. discriminate.
Qed.

Lemma closed_sign_att c st cl a d f : closed (fst (sign_att c st cl a d f)).
Proof.
  unfold sign_att. destruct (att_fields d) as [o|]; [|apply closed_none; discriminate].
  destruct (pre_check c cl a AAtt (pos_fault f 0)) as [cr|ac] eqn:Ep.
  { cbn. apply closed_none. pose proof (pre_check_not_succ c cl a AAtt (pos_fault f 0)) as H. now rewrite Ep in H. }
  destruct (match of_ruler f with Some l => _ | None => _ end) as [rr st1].
  destruct (nth 0 rr RUnknown); cbn; try (apply closed_none; discriminate). apply closed_do_sign.
Qed.

Lemma closed_sign_prop c st cl a d f : closed (fst (sign_prop c st cl a d f)).
Proof.
  unfold sign_prop. destruct (prop_fields d) as [o|]; [|apply closed_none; discriminate].
  destruct (pre_check c cl a AProp (pos_fault f 0)) as [cr|ac] eqn:Ep.
  { cbn. apply closed_none. pose proof (pre_check_not_succ c cl a AProp (pos_fault f 0)) as H. now rewrite Ep in H. }
  destruct (match of_ruler f with Some l => _ | None => _ end) as [rr st1].
  destruct (nth 0 rr RUnknown); cbn; try (apply closed_none; discriminate). apply closed_do_sign.
Qed.

Lemma closed_sign_gen c cl a d f : closed (sign_gen c cl a d f).
Proof.
  unfold sign_gen. destruct (sign_fields d) as [[data dom]|]; [|apply closed_none; discriminate].
  destruct (pre_check c cl a ASign (pos_fault f 0)) as [cr|ac] eqn:Ep.
  { apply closed_none. pose proof (pre_check_not_succ c cl a ASign (pos_fault f 0)) as H. now rewrite Ep in H. }
  destruct (nth 0 _ RUnknown); cbn; try (apply closed_none; discriminate). apply closed_do_sign.
Qed.

Lemma closed_sign_atts c st cl reqs f : Forall closed (fst (sign_atts c st cl reqs f)).
Proof.
  unfold sign_atts. destruct reqs as [|rq reqs'] eqn:Ereqs.
  { cbn. constructor; [apply closed_none; discriminate|constructor]. }
  rewrite <- Ereqs. clear Ereqs rq reqs'.
  destruct (find_index _ _ 0).
  { cbn. apply Forall_forall. intros y Hy. apply in_map_iff in Hy. destruct Hy as (r & <- & Hr).
    apply closed_none. eapply deny_at_not_succ; eauto. }
  destruct (negb (forallb is_pre_ok _)).
  { cbn. apply Forall_forall. intros y Hy. apply in_map_iff in Hy. destruct Hy as (p & <- & Hp).
    apply closed_none. clear -Hp. revert Hp. generalize 0%nat. induction reqs as [|r reqs IH]; intros n; cbn; [intros []|].
    intros [<-|H]; [apply pre_check_not_succ|eapply IH; eauto]. }
  destruct (match of_ruler f with Some l => _ | None => _ end) as [rr st1]. cbn. apply closed_phase.
Qed.

Lemma closed_multisign c cl reqs f : Forall closed (multisign c cl reqs f).
Proof.
  unfold multisign. destruct reqs as [|rq reqs'] eqn:Ereqs.
  { constructor; [apply closed_none; discriminate|constructor]. }
  rewrite <- Ereqs. clear Ereqs rq reqs'.
  destruct (find_index _ _ 0).
  { apply Forall_forall. intros y Hy. apply in_map_iff in Hy. destruct Hy as (r & <- & Hr).
    apply closed_none. eapply deny_at_not_succ; eauto. }
  destruct (negb (forallb is_pre_ok _)).
  { apply Forall_forall. intros y Hy. apply in_map_iff in Hy. destruct Hy as (p & <- & Hp).
    apply closed_none. clear -Hp. revert Hp. generalize 0%nat. induction reqs as [|r reqs IH]; intros n; cbn; [intros []|].
    intros [<-|H]; [apply pre_check_not_succ|eapply IH; eauto]. }
  apply closed_phase.
Qed.

Lemma step_closed c st o : Forall closed (fst (step c st o)).
Proof.
  destruct o; cbn [step].
  - pose proof (closed_sign_att c st cl a d f). destruct (sign_att c st cl a d f) as [r st1]. cbn in *. constructor; [assumption|constructor].
  - pose proof (closed_sign_atts c st cl l f). destruct (sign_atts c st cl l f). auto.
  - pose proof (closed_sign_prop c st cl a d f). destruct (sign_prop c st cl a d f) as [r st1]. cbn in *. constructor; [assumption|constructor].
  - cbn. constructor; [apply closed_sign_gen|constructor].
  - cbn. apply closed_multisign.
  - cbn. constructor.
Qed.

(* ---- C06: a fault at a site reached for a position leaves that position without signature ---- *)

Definition sfault_active (sf : sfault) : Prop :=
  sf_resolve sf = true \/ sf_perm sf = true \/ sf_unlock sf <> UReal \/ sf_sign sf = true \/ sf_notsigner sf = true.

Lemma pre_or_sign_fault c cl a act sf :
  sfault_active sf ->
  (exists r, pre_check c cl a act sf = PreFail r) \/
  (forall ac ok m, snd (do_sign ac sf ok m) = None).
Proof.
  intros [H|[H|[H|[H|H]]]].
  - left. unfold pre_check. rewrite H. eauto.
  - left. unfold pre_check. destruct (sf_resolve sf); eauto. destruct (resolve c a); eauto. rewrite H. cbn. eauto.
  - left. unfold pre_check. destruct (sf_resolve sf); eauto. destruct (resolve c a); eauto.
    destruct (_ || _); eauto. destruct (sf_unlock sf); eauto. congruence.
  - right. intros ac ok m. unfold do_sign. destruct (negb ok); auto. destruct (_ || _); auto. now rewrite H.
  - right. intros ac ok m. unfold do_sign. destruct (negb ok); auto. rewrite H. reflexivity.
Qed.

Lemma nth_error_map_i {A B} (g : nat -> A -> B) l : forall j i,
  nth_error (map_i g j l) i = option_map (g (j + i)%nat) (nth_error l i).
Proof.
  induction l as [|x l IH]; intros j i; cbn.
  - destruct i; reflexivity.
  - destruct i; cbn; [now rewrite Nat.add_0_r|]. rewrite IH. now rewrite Nat.add_succ_r.
Qed.

Lemma phase_nth {O} f rr (items : list (acct * O)) ro mk i y :
  nth_error (sign_phase f rr items ro mk) i = Some y ->
  exists x, nth_error items i = Some x /\
    y = match nth_error rr i with
        | None => (CUnknown, None)
        | Some RApproved => do_sign (fst x) (pos_fault f i) (ro (snd x)) (mk (snd x))
        | Some r => (of_rres r, None)
        end.
Proof.
  unfold sign_phase. rewrite nth_error_map_i. cbn [plus].
  destruct (nth_error items i) as [x|]; [|discriminate]. cbn. intros H; injection H as <-. eauto.
Qed.

Lemma map_none_nth {A} (g : A -> cres) l i y :
  nth_error (map (fun p => (g p, @None sigd)) l) i = Some y -> snd y = None.
Proof. rewrite nth_error_map. destruct (nth_error l i); [|discriminate]. cbn. intros H; injection H as <-. reflexivity. Qed.

Lemma sign_att_fault c st cl a d f :
  sfault_active (pos_fault f 0) -> snd (fst (sign_att c st cl a d f)) = None.
Proof.
  intros Hf. unfold sign_att. destruct (att_fields d) as [o|]; [|reflexivity].
  destruct (pre_or_sign_fault c cl a AAtt _ Hf) as [[r ->]|Hs]; [reflexivity|].
  destruct (pre_check c cl a AAtt (pos_fault f 0)); [reflexivity|].
  destruct (match of_ruler f with Some l => _ | None => _ end) as [rr st1].
  destruct (nth 0 rr RUnknown); cbn; auto.
Qed.

Lemma sign_prop_fault c st cl a d f :
  sfault_active (pos_fault f 0) -> snd (fst (sign_prop c st cl a d f)) = None.
Proof.
  intros Hf. unfold sign_prop. destruct (prop_fields d) as [o|]; [|reflexivity].
  destruct (pre_or_sign_fault c cl a AProp _ Hf) as [[r ->]|Hs]; [reflexivity|].
  destruct (pre_check c cl a AProp (pos_fault f 0)); [reflexivity|].
  destruct (match of_ruler f with Some l => _ | None => _ end) as [rr st1].
  destruct (nth 0 rr RUnknown); cbn; auto.
Qed.

Lemma sign_gen_fault c cl a d f :
  sfault_active (pos_fault f 0) -> snd (sign_gen c cl a d f) = None.
Proof.
  intros Hf. unfold sign_gen. destruct (sign_fields d) as [[data dom]|]; [|reflexivity].
  destruct (pre_or_sign_fault c cl a ASign _ Hf) as [[r ->]|Hs]; [reflexivity|].
  destruct (pre_check c cl a ASign (pos_fault f 0)); [reflexivity|].
  destruct (nth 0 _ RUnknown); cbn; auto.
Qed.

Lemma pres_all_ok_nth c cl act f :
  forall (D : Type) (reqs : list (addr * D)) i rq,
  forallb is_pre_ok (map_i (fun i r => pre_check c cl (fst r) act (pos_fault f i)) 0 reqs) = true ->
  nth_error reqs i = Some rq -> exists ac, pre_check c cl (fst rq) act (pos_fault f i) = PreOk ac.
Proof.
  intros D rs i rq H Hn. rewrite forallb_forall in H.
  assert (Hin : In (pre_check c cl (fst rq) act (pos_fault f i)) (map_i (fun i r => pre_check c cl (fst r) act (pos_fault f i)) 0 rs)).
  { eapply nth_error_In with (n := i). rewrite nth_error_map_i, Hn. reflexivity. }
  apply H in Hin. destruct (pre_check c cl (fst rq) act (pos_fault f i)); [discriminate|eauto].
Qed.

Lemma sign_atts_fault c st cl reqs f i y :
  sfault_active (pos_fault f i) -> nth_error (fst (sign_atts c st cl reqs f)) i = Some y -> snd y = None.
Proof.
  intros Hf. unfold sign_atts. destruct reqs as [|rq reqs'] eqn:Ereqs.
  { cbn. destruct i as [|[|i]]; cbn; try discriminate. intros H; injection H as <-. reflexivity. }
  rewrite <- Ereqs. clear Ereqs rq reqs'.
  destruct (find_index _ _ 0); [cbn; apply map_none_nth|].
  destruct (negb (forallb is_pre_ok _)) eqn:Eok; [cbn; apply map_none_nth|].
  apply negb_false_iff in Eok.
  destruct (match of_ruler f with Some l => _ | None => _ end) as [rr st1]. cbn [fst].
  intros H. apply phase_nth in H. destruct H as (x & Hx & ->).
  destruct (nth_error rr i) as [[]|]; auto.
  (* the position passed its pre-check, so the fault is at signing *)
  destruct (nth_error reqs i) as [rq|] eqn:Erq.
  - destruct (pres_all_ok_nth c cl AAtt f _ reqs i rq Eok Erq) as (ac & Hac).
    destruct (pre_or_sign_fault c cl (fst rq) AAtt _ Hf) as [[r Hr]|Hs]; [congruence|apply Hs].
  - (* no such request: then no such item either *)
    exfalso. apply nth_error_None in Erq.
    assert (Hlen : (List.length (combine (pre_accts (map_i (fun i r => pre_check c cl (fst r) AAtt (pos_fault f i)) 0 reqs))
              (flat_map (fun o => match o with Some x => [x] | None => [] end) (map (fun r => att_fields (snd r)) reqs))) <= List.length reqs)%nat).
    { rewrite combine_length. etransitivity; [apply Nat.le_min_r|].
      clear. induction reqs as [|r reqs IH]; cbn; auto. destruct (att_fields (snd r)); cbn; lia. }
    assert (i < List.length reqs)%nat; [|lia].
    eapply Nat.lt_le_trans; [|exact Hlen]. apply nth_error_Some. congruence.
Qed.

(* a failing write fails every position of an attestation request; a failing read likewise *)
Lemma on_atts_store_fault c st f rs : f_store f = true -> ~ In RApproved (fst (on_atts c st f rs)).
Proof.
  intros H. unfold on_atts. destruct (existsb _ _); cbn; [apply repeat_failed_no_approved|].
  rewrite H. cbn. apply repeat_failed_no_approved.
Qed.

Lemma ruler_atts_store_fault c st ok f rs : f_store f = true -> ~ In RApproved (fst (ruler_atts c st ok f rs)).
Proof.
  intros H. unfold ruler_atts. destruct rs as [|r [|r2 rs]].
  - cbn. intros [?|[]]; discriminate.
  - destruct ok; [|cbn; intros [?|[]]; discriminate].
    unfold on_att. destruct (fetch_fails f 0); [cbn; intros [?|[]]; discriminate|].
    destruct (att_checks _ _ _ _ _) as [res a']. destruct res; try (cbn; intros [?|[]]; discriminate).
    rewrite H. cbn; intros [?|[]]; discriminate.
  - destruct (first_dup _); [apply fail_at_no_approved|].
    destruct ok; [|apply repeat_failed_no_approved]. now apply on_atts_store_fault.
Qed.

Lemma sign_atts_store_fault c st cl reqs f :
  of_ruler f = None -> f_store (of_rules f) = true -> sigs_of (fst (sign_atts c st cl reqs f)) = [].
Proof.
  intros Hr Hs. unfold sign_atts. destruct reqs as [|rq reqs'] eqn:Ereqs; [reflexivity|].
  rewrite <- Ereqs. clear Ereqs rq reqs'.
  destruct (find_index _ _ 0); [cbn; apply sigs_of_map_none|].
  destruct (negb (forallb is_pre_ok _)); [cbn; apply sigs_of_map_none|].
  rewrite Hr.
  match goal with |- context [ruler_atts ?a ?b ?c0 ?d ?e] =>
    pose proof (ruler_atts_store_fault a b c0 d e Hs) as H; destruct (ruler_atts a b c0 d e) as [rr st1] end.
  cbn [fst] in *. now apply sign_phase_no_approved.
Qed.

Lemma sign_prop_store_fault c st cl a d f :
  of_ruler f = None -> f_store (of_rules f) = true \/ fetch_fails (of_rules f) 0 = true ->
  snd (fst (sign_prop c st cl a d f)) = None.
Proof.
  intros Hr Hs. unfold sign_prop. destruct (prop_fields d) as [o|]; [|reflexivity].
  destruct (pre_check c cl a AProp (pos_fault f 0)); [reflexivity|]. rewrite Hr.
  unfold ruler_prop. destruct (creds_ok cl); [|reflexivity].
  unfold on_prop. destruct (negb _); [reflexivity|].
  destruct (fetch_fails (of_rules f) 0) eqn:Ef; [reflexivity|].
  destruct Hs as [Hs|Hs]; [|discriminate].
  destruct (_ && _); [reflexivity|]. destruct (_ && _); [reflexivity|]. rewrite Hs. reflexivity.
Qed.

(* ---- main statements ---- *)

Lemma C05_main :
  forall (c : scfg) (st : store) (cl : creds) (f : ofault), ruler_fault_ok f ->
  (forall a d r s, sign_gen c cl a d f = (r, Some s) ->
     exists data dom, sg_msg s = MGen data dom /\ gen_ok (sc_rules c) (cl_ip cl) dom) /\
  (forall reqs s, In s (sigs_of (multisign c cl reqs f)) ->
     exists data dom, sg_msg s = MGen data dom /\ gen_ok (sc_rules c) (cl_ip cl) dom) /\
  (forall a d r st' s, sign_att c st cl a d f = ((r, Some s), st') ->
     exists slot idx bbr src sroot tgt troot dom,
       sg_msg s = MAtt slot idx bbr src sroot tgt troot dom /\ bytes_eqb (prefix4 dom) dom_attester = true) /\
  (forall reqs rs st' s, sign_atts c st cl reqs f = (rs, st') -> In s (sigs_of rs) ->
     exists slot idx bbr src sroot tgt troot dom,
       sg_msg s = MAtt slot idx bbr src sroot tgt troot dom /\ bytes_eqb (prefix4 dom) dom_attester = true) /\
  (forall a d r st' s, sign_prop c st cl a d f = ((r, Some s), st') ->
     exists slot pidx parent state body dom,
       sg_msg s = MProp slot pidx parent state body dom /\ bytes_eqb (prefix4 dom) dom_proposer = true) /\
  (forall a d r st' o, att_fields d = Some o -> bytes_eqb (prefix4 (ao_dom o)) dom_attester = false ->
     sign_att c st cl a d f = (r, st') -> snd r = None /\ same_view st st') /\
  (forall a d r st' o, prop_fields d = Some o -> bytes_eqb (prefix4 (po_dom o)) dom_proposer = false ->
     sign_prop c st cl a d f = (r, st') -> snd r = None /\ st' = st).
Proof.
  intros c st cl f Hf. split; [|split; [|split; [|split; [|split; [|split]]]]].
  - intros. eapply sign_gen_domain; eauto.
  - intros. eapply multisign_domain; eauto.
  - intros. eapply sign_att_domain; eauto.
  - intros. eapply sign_atts_domain; eauto.
  - intros. eapply sign_prop_domain; eauto.
  - intros. eapply sign_att_wrong_domain; eauto.
  - intros. eapply sign_prop_wrong_domain; eauto.
Qed.

Lemma C06_main :
  (forall c st o, Forall closed (fst (step c st o))) /\
  (forall c st cl a d f, sfault_active (pos_fault f 0) -> snd (fst (sign_att c st cl a d f)) = None) /\
  (forall c st cl a d f, sfault_active (pos_fault f 0) -> snd (fst (sign_prop c st cl a d f)) = None) /\
  (forall c cl a d f, sfault_active (pos_fault f 0) -> snd (sign_gen c cl a d f) = None) /\
  (forall c st cl reqs f i y, sfault_active (pos_fault f i) ->
     nth_error (fst (sign_atts c st cl reqs f)) i = Some y -> snd y = None) /\
  (forall c st cl reqs f, of_ruler f = None -> f_store (of_rules f) = true ->
     sigs_of (fst (sign_atts c st cl reqs f)) = []) /\
  (forall c st cl a d f, of_ruler f = None ->
     f_store (of_rules f) = true \/ fetch_fails (of_rules f) 0 = true ->
     snd (fst (sign_prop c st cl a d f)) = None).
Proof.
  split; [|split; [|split; [|split; [|split; [|split]]]]].
  - apply step_closed.
  - apply sign_att_fault.
  - apply sign_prop_fault.
  - apply sign_gen_fault.
  - apply sign_atts_fault.
  - apply sign_atts_store_fault.
  - apply sign_prop_store_fault.
Qed.
