(* The client-facing Signer handlers (services/api/grpc/handlers/signer/*.go) over requests as they
   arrive from the wire, with the Go operations that can panic on that path made explicit.

   A byte field of a decoded protobuf message is nil when absent or empty, otherwise a slice of the
   received length whose CAPACITY is what protobuf-go's append to an empty slice gives: at least 8 (Go's
   smallest size classes) and at least the length.  The rules layer evaluates Domain[0:4] - a slice
   expression bounded by capacity, not length - on every domain it is handed (rules/standard/sign.go,
   signbeaconattestations.go, signbeaconproposal.go); the service layer denies a nil domain first.
   Panic is an explicit outcome: None.  No proofs in this file. *)
From DV Require Export Model.Instance.
From Coq Require Import Ascii.
Local Open Scope Z_scope.

Record wbytes := { wb_bytes : bytes; wb_cap : nat }.        (* a non-nil Go byte slice *)
Definition wfield := option wbytes.                          (* None = nil *)

(* proto.Unmarshal of a bytes field *)
Definition decode (b : bytes) : wfield :=
  match b with [] => None | _ => Some {| wb_bytes := b; wb_cap := Nat.max 8 (List.length b) |} end.

Definition wf_field (f : wfield) : bool :=
  match f with
  | None => true
  | Some b => (1 <=? List.length (wb_bytes b))%nat && (8 <=? wb_cap b)%nat && (List.length (wb_bytes b) <=? wb_cap b)%nat
  end.

Definition strip (f : wfield) : option bytes := option_map wb_bytes f.

(* s[0:4]: panics when 4 exceeds the capacity (nil has capacity 0) *)
Definition slice4_ok (f : wfield) : bool :=
  match f with None => false | Some b => (4 <=? wb_cap b)%nat end.

(* ---- wire requests of the Signer service ---- *)
Record wcp := { wc_epoch : Z; wc_root : wfield }.
Record watt_data := { wa_slot : Z; wa_index : Z; wa_bbr : wfield; wa_src : option wcp; wa_tgt : option wcp }.
Record wprop_data := { wp_slot : Z; wp_pidx : Z; wp_parent : wfield; wp_state : wfield; wp_body : wfield }.

Record wsign := { ws_account : string; ws_pubkey : option N; ws_dom : wfield; ws_data : wfield }.
Record watt := { wt_account : string; wt_pubkey : option N; wt_dom : wfield; wt_data : option watt_data }.
Record wprop := { wr_account : string; wr_pubkey : option N; wr_dom : wfield; wr_data : option wprop_data }.

Inductive wreq :=
| WSign (r : wsign)
| WMultisign (l : list wsign)
| WAttest (r : watt)
| WAttests (l : list watt)
| WPropose (r : wprop).

Fixpoint has_slash (s : string) : bool :=
  match s with EmptyString => false | String c r => (Ascii.eqb c (Ascii.ascii_of_nat 47)) || has_slash r end.

(* the id checks shared by every handler *)
Definition id_ok (account : string) (key : option N) : bool :=
  negb (String.eqb account "" && match key with None => true | Some _ => false end) &&
  (String.eqb account "" || has_slash account).

Definition mk_addr (account : string) (key : option N) : addr := {| ad_name := account; ad_key := key |}.

Definition cp_of (c : wcp) : checkpoint := {| cp_epoch := wc_epoch c; cp_root := strip (wc_root c) |}.
Definition att_of_wire (dom : wfield) (d : watt_data) : att_data :=
  {| ad_dom := strip dom; ad_slot := wa_slot d; ad_index := wa_index d; ad_bbr := strip (wa_bbr d);
     ad_src := option_map cp_of (wa_src d); ad_tgt := option_map cp_of (wa_tgt d) |}.
Definition prop_of_wire (dom : wfield) (d : wprop_data) : prop_data :=
  {| pd_dom := strip dom; pd_slot := wp_slot d; pd_pidx := wp_pidx d; pd_parent := strip (wp_parent d);
     pd_state := strip (wp_state d); pd_body := strip (wp_body d) |}.

(* what a handler does with a request: answer at once, or call the service (the domains it hands over
   are listed: each non-nil one is sliced [0:4] when it reaches the rules) *)
Inductive hplan := HEarly (r : list cres) | HCall (o : op) (doms : list wfield).

Definition first_bad {A} (bad : A -> option cres) (l : list A) : option (nat * cres) :=
  (fix go (i : nat) (l : list A) :=
     match l with
     | [] => None
     | x :: r => match bad x with Some c => Some (i, c) | None => go (S i) r end
     end) 0%nat l.

(* validate*Requests: the first offending position is marked, every other stays UNKNOWN *)
Definition mark (n i : nat) (c : cres) : list cres :=
  map (fun j => if (j =? i)%nat then c else CUnknown) (seq 0 n).

Definition bad_sign (r : wsign) : option cres :=
  if negb (id_ok (ws_account r) (ws_pubkey r)) then Some CDenied else
  match ws_data r with None => Some CDenied | Some _ =>
  match ws_dom r with None => Some CDenied | Some _ => None end end.

Definition bad_att (r : watt) : option cres :=
  if negb (id_ok (wt_account r) (wt_pubkey r)) then Some CDenied else
  match wt_data r with
  | None => Some CDenied
  | Some d => match wa_src d, wa_tgt d with Some _, Some _ => None | _, _ => Some CDenied end
  end.

Definition plan (cl : creds) (q : wreq) : hplan :=
  match q with
  | WSign r =>
      if negb (id_ok (ws_account r) (ws_pubkey r)) then HEarly [CDenied] else
      HCall (OSign cl (mk_addr (ws_account r) (ws_pubkey r))
                   (Some {| sd_dom := strip (ws_dom r); sd_data := strip (ws_data r) |}) no_ofault) [ws_dom r]
  | WMultisign l =>
      match l with [] => HEarly [CDenied] | _ =>
      match first_bad bad_sign l with
      | Some (i, c) => HEarly (mark (List.length l) i c)
      | None => HCall (OMultisign cl (map (fun r => (mk_addr (ws_account r) (ws_pubkey r),
                                                    Some {| sd_dom := strip (ws_dom r); sd_data := strip (ws_data r) |})) l) no_ofault)
                      (map ws_dom l)
      end end
  | WAttest r =>
      match bad_att r, wt_data r with
      | None, Some d => HCall (OAttest cl (mk_addr (wt_account r) (wt_pubkey r)) (Some (att_of_wire (wt_dom r) d)) no_ofault) [wt_dom r]
      | _, _ => HEarly [CDenied]
      end
  | WAttests l =>
      match l with [] => HEarly [CDenied] | _ =>
      match first_bad bad_att l with
      | Some (i, c) => HEarly (mark (List.length l) i c)
      | None => HCall (OAttests cl (map (fun r => (mk_addr (wt_account r) (wt_pubkey r),
                                                   option_map (att_of_wire (wt_dom r)) (wt_data r))) l) no_ofault)
                      (map wt_dom l)
      end end
  | WPropose r =>
      match wr_data r with
      | None => HEarly [CDenied]
      | Some d =>
          if negb (id_ok (wr_account r) (wr_pubkey r)) then HEarly [CDenied] else
          HCall (OPropose cl (mk_addr (wr_account r) (wr_pubkey r)) (Some (prop_of_wire (wr_dom r) d)) no_ofault) [wr_dom r]
      end
  end.

(* The handler: None = the process panicked.  A non-nil domain of capacity below 4 is flagged for every
   request that is handed to the service (an over-approximation: the code slices it only if the request
   also passes account resolution, permission and unlock). *)
Definition wire_step (c : scfg) (st : store) (cl : creds) (q : wreq) : option (list (cres * bool) * store) :=
  match plan cl q with
  | HEarly r => Some (map (fun x => (x, false)) r, st)
  | HCall o doms =>
      if existsb (fun d => match d with None => false | Some _ => negb (slice4_ok d) end) doms then None
      else let '(r, st') := step c st o in
           Some (map (fun x => (fst x, match snd x with Some _ => true | None => false end)) r, st')
  end.

(* every byte field of a request came out of the decoder *)
Definition wf_cp (c : option wcp) : bool := match c with None => true | Some c => wf_field (wc_root c) end.
Definition wf_sign (r : wsign) : bool := wf_field (ws_dom r) && wf_field (ws_data r).
Definition wf_att (r : watt) : bool :=
  wf_field (wt_dom r) && match wt_data r with None => true | Some d => wf_field (wa_bbr d) && wf_cp (wa_src d) && wf_cp (wa_tgt d) end.
Definition wf_prop (r : wprop) : bool :=
  wf_field (wr_dom r) && match wr_data r with None => true | Some d => wf_field (wp_parent d) && wf_field (wp_state d) && wf_field (wp_body d) end.
Definition wf_req (q : wreq) : bool :=
  match q with
  | WSign r => wf_sign r | WMultisign l => forallb wf_sign l
  | WAttest r => wf_att r | WAttests l => forallb wf_att l
  | WPropose r => wf_prop r
  end.

(* how many entries the caller must receive *)
Definition expected_entries (q : wreq) : nat :=
  match q with
  | WSign _ | WAttest _ | WPropose _ => 1
  | WMultisign l => Nat.max 1 (List.length l)
  | WAttests l => Nat.max 1 (List.length l)
  end.
