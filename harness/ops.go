package main

import (
	"context"
	"fmt"
	"strings"

	"github.com/attestantio/dirk/core"
	"github.com/attestantio/dirk/rules"
	"github.com/attestantio/dirk/services/checker"
)

// The Go mirror of the model's request types (Model/Signer.v, Model/Instance.v).

type Addr struct {
	Name   string
	Key    []byte // nil = absent
	KeyID  int    // model number of Key
	HasKey bool
	Pad    []byte // extra bytes sent after the 48-byte key (account lookup looks at the first 48 only)
}

type Checkpoint struct {
	Epoch uint64
	Root  []byte // nil = absent
}

type AttData struct {
	Nil       bool
	Dom       []byte
	Slot, Idx uint64
	BBR       []byte
	Src, Tgt  *Checkpoint
}

type PropData struct {
	Nil                 bool
	Dom                 []byte
	Slot, Pidx          uint64
	Parent, State, Body []byte
}

type SignData struct {
	Nil       bool
	Dom, Data []byte
}

type OpKind int

const (
	KAttest OpKind = iota
	KAttests
	KPropose
	KSign
	KMultisign
	KRestart
)

type OFault struct {
	Pos   []SFault       // per position
	Ruler []rules.Result // nil = none
	Fetch []int
	Store bool
}

type Op struct {
	Kind   OpKind
	Client string
	IP     string
	Addrs  []Addr
	Atts   []AttData
	Props  []PropData
	Signs  []SignData
	Fault  OFault
}

// Obs is what was observed for one position of a response.
type Obs struct {
	State    core.Result
	SigLen   int
	SigValid bool   // verified with BLS under the addressed account's key over the harness's own signing root
	Root     []byte // the harness's signing root (for C08)
}

func (a AttData) toRules() *rules.SignBeaconAttestationData {
	if a.Nil {
		return nil
	}
	d := &rules.SignBeaconAttestationData{Domain: a.Dom, Slot: a.Slot, CommitteeIndex: a.Idx, BeaconBlockRoot: a.BBR}
	if a.Src != nil {
		d.Source = &rules.Checkpoint{Epoch: a.Src.Epoch, Root: a.Src.Root}
	}
	if a.Tgt != nil {
		d.Target = &rules.Checkpoint{Epoch: a.Tgt.Epoch, Root: a.Tgt.Root}
	}
	return d
}

func (p PropData) toRules() *rules.SignBeaconProposalData {
	if p.Nil {
		return nil
	}
	return &rules.SignBeaconProposalData{Domain: p.Dom, Slot: p.Slot, ProposerIndex: p.Pidx, ParentRoot: p.Parent, StateRoot: p.State, BodyRoot: p.Body}
}

func (s SignData) toRules() *rules.SignData {
	if s.Nil {
		return nil
	}
	return &rules.SignData{Domain: s.Dom, Data: s.Data}
}

// planFor builds the fault plan of an operation: position faults are keyed by the account the
// position resolves to.
func (inst *Instance) planFor(op *Op) *Plan {
	p := &Plan{ByAcct: map[int]SFault{}, FetchFail: map[int]bool{}, StoreFail: op.Fault.Store}
	for i, sf := range op.Fault.Pos {
		if i >= len(op.Addrs) || !sf.any() {
			continue
		}
		if a := inst.resolveInfo(op.Addrs[i]); a != nil {
			p.ByAcct[a.ID] = sf
		}
	}
	if op.Fault.Ruler != nil {
		p.Ruler = op.Fault.Ruler
	}
	for _, n := range op.Fault.Fetch {
		p.FetchFail[n] = true
	}
	return p
}

func (inst *Instance) resolveInfo(a Addr) *AcctInfo {
	if a.HasKey {
		return inst.fx.ByKey(a.Key)
	}
	if a.Name == "" {
		return nil
	}
	return inst.fx.ByPath(a.Name)
}

// Exec runs one operation against the real signer service and observes the response.
func (inst *Instance) Exec(ctx context.Context, op *Op) ([]Obs, error) {
	inst.SetPlan(inst.planFor(op))
	defer inst.SetPlan(nil)
	return inst.ExecCtx(ctx, op)
}

// ExecCtx runs one operation without touching the fault plan (concurrent, fault-free use).
func (inst *Instance) ExecCtx(ctx context.Context, op *Op) ([]Obs, error) {
	creds := &checker.Credentials{Client: op.Client, IP: op.IP, RequestID: "vh"}
	keyOf := func(a Addr) []byte {
		if a.HasKey {
			return append(append([]byte{}, a.Key...), a.Pad...)
		}
		return nil
	}
	switch op.Kind {
	case KAttest:
		res, sig := inst.Signer.SignBeaconAttestation(ctx, creds, op.Addrs[0].Name, keyOf(op.Addrs[0]), op.Atts[0].toRules())
		return []Obs{inst.observe(op.Addrs[0], res, sig, attRoot(op.Atts[0]))}, nil
	case KPropose:
		res, sig := inst.Signer.SignBeaconProposal(ctx, creds, op.Addrs[0].Name, keyOf(op.Addrs[0]), op.Props[0].toRules())
		return []Obs{inst.observe(op.Addrs[0], res, sig, propRoot(op.Props[0]))}, nil
	case KSign:
		res, sig := inst.Signer.SignGeneric(ctx, creds, op.Addrs[0].Name, keyOf(op.Addrs[0]), op.Signs[0].toRules())
		return []Obs{inst.observe(op.Addrs[0], res, sig, signRoot(op.Signs[0]))}, nil
	case KAttests:
		names := make([]string, len(op.Addrs))
		keys := make([][]byte, len(op.Addrs))
		data := make([]*rules.SignBeaconAttestationData, len(op.Atts))
		for i := range op.Addrs {
			names[i] = op.Addrs[i].Name
			keys[i] = keyOf(op.Addrs[i])
		}
		for i := range op.Atts {
			data[i] = op.Atts[i].toRules()
		}
		res, sigs := inst.Signer.SignBeaconAttestations(ctx, creds, names, keys, data)
		out := make([]Obs, len(res))
		for i := range res {
			var sig []byte
			if i < len(sigs) {
				sig = sigs[i]
			}
			var root []byte
			var ad Addr
			if i < len(op.Atts) {
				root = attRoot(op.Atts[i])
				ad = op.Addrs[i]
			}
			out[i] = inst.observe(ad, res[i], sig, root)
		}
		return out, nil
	case KMultisign:
		names := make([]string, len(op.Addrs))
		keys := make([][]byte, len(op.Addrs))
		data := make([]*rules.SignData, len(op.Signs))
		for i := range op.Addrs {
			names[i] = op.Addrs[i].Name
			keys[i] = keyOf(op.Addrs[i])
		}
		for i := range op.Signs {
			data[i] = op.Signs[i].toRules()
		}
		res, sigs := inst.Signer.Multisign(ctx, creds, names, keys, data)
		out := make([]Obs, len(res))
		for i := range res {
			var sig []byte
			if i < len(sigs) {
				sig = sigs[i]
			}
			var root []byte
			var ad Addr
			if i < len(op.Signs) {
				root = signRoot(op.Signs[i])
				ad = op.Addrs[i]
			}
			out[i] = inst.observe(ad, res[i], sig, root)
		}
		return out, nil
	case KRestart:
		return nil, inst.Restart(ctx)
	}
	return nil, fmt.Errorf("unknown op kind %d", op.Kind)
}

func (op *Op) String() string {
	var b strings.Builder
	kinds := []string{"attest", "attests", "propose", "sign", "multisign", "restart"}
	fmt.Fprintf(&b, "%s client=%q ip=%q", kinds[op.Kind], op.Client, op.IP)
	for i, a := range op.Addrs {
		if a.HasKey {
			fmt.Fprintf(&b, " [%d key#%d", i, a.KeyID)
		} else {
			fmt.Fprintf(&b, " [%d %q", i, a.Name)
		}
		if i < len(op.Atts) && !op.Atts[i].Nil {
			d := op.Atts[i]
			s, t := "nil", "nil"
			if d.Src != nil {
				s = fmt.Sprint(d.Src.Epoch)
			}
			if d.Tgt != nil {
				t = fmt.Sprint(d.Tgt.Epoch)
			}
			fmt.Fprintf(&b, " att %s->%s dom=%x", s, t, head(d.Dom, 4))
		}
		if i < len(op.Props) && !op.Props[i].Nil {
			fmt.Fprintf(&b, " prop slot=%d dom=%x", op.Props[i].Slot, head(op.Props[i].Dom, 4))
		}
		if i < len(op.Signs) && !op.Signs[i].Nil {
			fmt.Fprintf(&b, " sign dom=%x", head(op.Signs[i].Dom, 4))
		}
		b.WriteString("]")
	}
	f := op.Fault
	if len(f.Pos) > 0 || f.Ruler != nil || len(f.Fetch) > 0 || f.Store {
		fmt.Fprintf(&b, " faults=%+v", f)
	}
	return b.String()
}

func head(b []byte, n int) []byte {
	if len(b) < n {
		return b
	}
	return b[:n]
}
