(* Model of services/signer/standard: the five signing entry points of signer.Service, with
   every early return, over requests in which each pointer / slice may be nil.
   Transcribed from signbeaconattestation.go, signbeaconattestations.go, signbeaconproposal.go,
   signgeneric.go, multisign.go, helpers.go, util.go.  No proofs in this file. *)
From DV Require Export Model.Ruler.

Inductive cres := CUnknown | CSucceeded | CDenied | CFailed.
Definition cres_eqb (a b : cres) : bool :=
  match a, b with
  | CUnknown, CUnknown | CSucceeded, CSucceeded | CDenied, CDenied | CFailed, CFailed => true
  | _, _ => false
  end.

Inductive action := ASign | AAtt | AProp.

(* ---- accounts, credentials, addressing ---- *)

Record acct := {
  ac_wallet : string; ac_name : string;
  ac_key : N;                 (* number of its public key *)
  ac_usable : bool;           (* unlocked, or one of the configured passphrases opens it *)
  ac_signer : bool }.         (* implements AccountSigner *)
Definition ac_path (a : acct) : string := (ac_wallet a ++ "/" ++ ac_name a)%string.

Record creds := { cl_client : string; cl_ip : string }.        (* "" = absent *)
Record addr := { ad_name : string; ad_key : option N }.         (* by name and / or by public key *)

Record scfg := {
  sc_rules : rcfg;
  sc_accounts : list acct;
  (* checker.Check(client, wallet, account, action); instantiated with Checker.check *)
  sc_perm : string -> string -> string -> action -> bool }.

(* ---- faults, scripted per request position ---- *)

Inductive ufault := UReal        (* no script: the account's real lock state decides *)
                  | UIsErr       (* IsUnlocked returns an error *)
                  | UUnlockErr   (* the unlocker returns an error *)
                  | UWrong.      (* locked and no passphrase opens it *)
Record sfault := {
  sf_resolve : bool;       (* the fetcher returns an error *)
  sf_perm : bool;          (* the checker refuses *)
  sf_unlock : ufault;
  sf_sign : bool;          (* AccountSigner.Sign returns an error *)
  sf_notsigner : bool }.   (* the account does not implement AccountSigner *)
Definition no_sfault : sfault :=
  {| sf_resolve := false; sf_perm := false; sf_unlock := UReal; sf_sign := false; sf_notsigner := false |}.

Record ofault := {
  of_pos : list sfault;              (* per position; missing = no fault *)
  of_ruler : option (list rres);     (* the ruler's answer is replaced (rules not run) *)
  of_rules : rfault }.               (* faults at the protection store *)
Definition no_ofault : ofault := {| of_pos := []; of_ruler := None; of_rules := no_fault |}.
Definition pos_fault (f : ofault) (i : nat) : sfault := nth i (of_pos f) no_sfault.

(* ---- request data as the service receives it ---- *)

Record checkpoint := { cp_epoch : Z; cp_root : option bytes }.
Record att_data := { ad_dom : option bytes; ad_slot : Z; ad_index : Z; ad_bbr : option bytes;
                     ad_src : option checkpoint; ad_tgt : option checkpoint }.
Record prop_data := { pd_dom : option bytes; pd_slot : Z; pd_pidx : Z;
                      pd_parent : option bytes; pd_state : option bytes; pd_body : option bytes }.
Record sign_data := { sd_dom : option bytes; sd_data : option bytes }.

(* ---- what is signed ---- *)

Inductive msg :=
| MAtt (slot idx : Z) (bbr : bytes) (s : Z) (sroot : bytes) (t : Z) (troot : bytes) (dom : bytes)
| MProp (slot pidx : Z) (parent state body : bytes) (dom : bytes)
| MGen (data dom : bytes).
Record sigd := { sg_key : N; sg_msg : msg }.    (* signature by the account with key sg_key over sg_msg *)

(* ---- preCheck: resolve -> permission on the resolved wallet/account -> unlock ---- *)

Definition resolve (c : scfg) (a : addr) : option acct :=
  match ad_key a with
  | Some k => find (fun x => N.eqb (ac_key x) k) (sc_accounts c)
  | None => if String.eqb (ad_name a) "" then None
            else find (fun x => String.eqb (ac_path x) (ad_name a)) (sc_accounts c)
  end.

Inductive pre := PreFail (r : cres) | PreOk (a : acct).

Definition pre_check (c : scfg) (cl : creds) (a : addr) (act : action) (sf : sfault) : pre :=
  if sf_resolve sf then PreFail CDenied else
  match resolve c a with
  | None => PreFail CDenied
  | Some ac =>
    if sf_perm sf || negb (sc_perm c (cl_client cl) (ac_wallet ac) (ac_name ac) act) then PreFail CDenied else
    match sf_unlock sf with
    | UIsErr | UUnlockErr => PreFail CFailed
    | UWrong => PreFail CDenied
    | UReal => if ac_usable ac then PreOk ac else PreFail CDenied
    end
  end.

(* rules result -> service result *)
Definition of_rres (r : rres) : cres :=
  match r with RApproved => CSucceeded | RDenied => CDenied | RFailed | RUnknown => CFailed end.

(* generateSigningRoot + signRoot; the data root of the fixed-size containers never fails *)
Definition len32 (b : bytes) : bool := (List.length b =? 32)%nat.
Definition do_sign (ac : acct) (sf : sfault) (root_ok : bool) (m : msg) : cres * option sigd :=
  if negb root_ok then (CFailed, None) else
  if sf_notsigner sf || negb (ac_signer ac) then (CFailed, None) else
  if sf_sign sf then (CFailed, None) else
  (CSucceeded, Some {| sg_key := ac_key ac; sg_msg := m |}).

(* ---- attestation data validation (service order) ---- *)

Record att_ok := { ao_dom : bytes; ao_slot : Z; ao_index : Z; ao_bbr : bytes;
                   ao_s : Z; ao_sroot : bytes; ao_t : Z; ao_troot : bytes }.

Definition att_fields (d : option att_data) : option att_ok :=
  match d with None => None | Some d =>
  match ad_bbr d with None => None | Some bbr =>
  match ad_dom d with None => None | Some dom =>
  match ad_src d with None => None | Some s =>
  match cp_root s with None => None | Some sroot =>
  match ad_tgt d with None => None | Some t =>
  match cp_root t with None => None | Some troot =>
  Some {| ao_dom := dom; ao_slot := ad_slot d; ao_index := ad_index d; ao_bbr := bbr;
          ao_s := cp_epoch s; ao_sroot := sroot; ao_t := cp_epoch t; ao_troot := troot |}
  end end end end end end end.

Definition att_msg (o : att_ok) : msg :=
  MAtt (ao_slot o) (ao_index o) (ao_bbr o) (ao_s o) (ao_sroot o) (ao_t o) (ao_troot o) (ao_dom o).
Definition att_req (ac : acct) (o : att_ok) : areq :=
  {| r_key := ac_key ac; r_dom := ao_dom o; r_src := ao_s o; r_tgt := ao_t o |}.

(* the client was accepted by the permission check, so it is non-empty whenever the ruler runs
   with the real checker; kept explicit because sc_perm is a parameter *)
Definition creds_ok (cl : creds) : bool := negb (String.eqb (cl_client cl) "").

(* ---- SignBeaconAttestation ---- *)

Definition sign_att (c : scfg) (st : store) (cl : creds) (a : addr) (d : option att_data) (f : ofault)
  : (cres * option sigd) * store :=
  match att_fields d with
  | None => ((CDenied, None), st)
  | Some o =>
    match pre_check c cl a AAtt (pos_fault f 0) with
    | PreFail r => ((r, None), st)
    | PreOk ac =>
      let '(rr, st') := match of_ruler f with
                        | Some l => (l, st)
                        | None => ruler_atts (sc_rules c) st (creds_ok cl) (of_rules f) [att_req ac o]
                        end in
      match nth 0 rr RUnknown with
      | RApproved => (do_sign ac (pos_fault f 0) (len32 (ao_dom o)) (att_msg o), st')
      | r => ((of_rres r, None), st')
      end
    end
  end.

(* ---- SignBeaconProposal ---- *)

Record prop_ok := { po_dom : bytes; po_slot : Z; po_pidx : Z; po_parent : bytes; po_state : bytes; po_body : bytes }.
Definition prop_fields (d : option prop_data) : option prop_ok :=
  match d with None => None | Some d =>
  match pd_dom d with None => None | Some dom =>
  match pd_parent d with None => None | Some parent =>
  match pd_body d with None => None | Some body =>
  match pd_state d with None => None | Some state =>
  Some {| po_dom := dom; po_slot := pd_slot d; po_pidx := pd_pidx d; po_parent := parent; po_state := state; po_body := body |}
  end end end end end.
Definition prop_msg (o : prop_ok) : msg :=
  MProp (po_slot o) (po_pidx o) (po_parent o) (po_state o) (po_body o) (po_dom o).

Definition sign_prop (c : scfg) (st : store) (cl : creds) (a : addr) (d : option prop_data) (f : ofault)
  : (cres * option sigd) * store :=
  match prop_fields d with
  | None => ((CDenied, None), st)
  | Some o =>
    match pre_check c cl a AProp (pos_fault f 0) with
    | PreFail r => ((r, None), st)
    | PreOk ac =>
      let '(rr, st') := match of_ruler f with
                        | Some l => (l, st)
                        | None => ruler_prop (sc_rules c) st (creds_ok cl) (of_rules f)
                                    {| p_key := ac_key ac; p_dom := po_dom o; p_slot := po_slot o |}
                        end in
      match nth 0 rr RUnknown with
      | RApproved => (do_sign ac (pos_fault f 0) (len32 (po_dom o)) (prop_msg o), st')
      | r => ((of_rres r, None), st')
      end
    end
  end.

(* ---- SignGeneric ---- *)

Definition sign_fields (d : option sign_data) : option (bytes * bytes) :=   (* (data, domain) *)
  match d with None => None | Some d =>
  match sd_data d with None => None | Some data =>
  match sd_dom d with None => None | Some dom => Some (data, dom) end end end.

Definition sign_gen (c : scfg) (cl : creds) (a : addr) (d : option sign_data) (f : ofault)
  : cres * option sigd :=
  match sign_fields d with
  | None => (CDenied, None)
  | Some (data, dom) =>
    match pre_check c cl a ASign (pos_fault f 0) with
    | PreFail r => (r, None)
    | PreOk ac =>
      let rr := match of_ruler f with
                | Some l => l
                | None => ruler_signs (sc_rules c) (creds_ok cl) (cl_ip cl) [(ac_key ac, dom)]
                end in
      match nth 0 rr RUnknown with
      | RApproved => do_sign ac (pos_fault f 0) (len32 data && len32 dom) (MGen data dom)
      | r => (of_rres r, None)
      end
    end
  end.

(* ---- the two batch entry points share their skeleton ---- *)

(* position of the first element satisfying p *)
Fixpoint find_index {A} (p : A -> bool) (l : list A) (i : nat) : option nat :=
  match l with [] => None | x :: r => if p x then Some i else find_index p r (S i) end.

Definition deny_at (n i : nat) : list cres := set_nth i CDenied (repeat CUnknown n).

Fixpoint map_i {A B} (f : nat -> A -> B) (i : nat) (l : list A) : list B :=
  match l with [] => [] | x :: r => f i x :: map_i f (S i) r end.

Definition is_pre_ok (p : pre) : bool := match p with PreOk _ => true | _ => false end.
Definition pre_res (p : pre) : cres := match p with PreFail r => r | PreOk _ => CUnknown end.

(* signing phase over the ruler's result list: positions beyond it stay UNKNOWN *)
Definition sign_phase {O} (f : ofault) (rr : list rres) (items : list (acct * O))
           (root_ok : O -> bool) (mk : O -> msg) : list (cres * option sigd) :=
  map_i (fun i x => match nth_error rr i with
                    | None => (CUnknown, None)
                    | Some RApproved => do_sign (fst x) (pos_fault f i) (root_ok (snd x)) (mk (snd x))
                    | Some r => (of_rres r, None)
                    end) 0 items.

Fixpoint all_some {A} (l : list (option A)) : option (list A) :=
  match l with
  | [] => Some []
  | Some x :: r => match all_some r with Some r' => Some (x :: r') | None => None end
  | None :: _ => None
  end.

Definition pre_accts (ps : list pre) : list acct :=
  flat_map (fun p => match p with PreOk a => [a] | _ => [] end) ps.

(* ---- SignBeaconAttestations ---- *)

Definition sign_atts (c : scfg) (st : store) (cl : creds) (reqs : list (addr * option att_data)) (f : ofault)
  : list (cres * option sigd) * store :=
  let n := List.length reqs in
  match reqs with
  | [] => ([(CDenied, None)], st)
  | _ =>
    let fs := map (fun r => att_fields (snd r)) reqs in
    match find_index (fun o => match o with None => true | Some _ => false end) fs 0 with
    | Some i => (map (fun r => (r, None)) (deny_at n i), st)
    | None =>
      let os := flat_map (fun o => match o with Some x => [x] | None => [] end) fs in
      let pres := map_i (fun i r => pre_check c cl (fst r) AAtt (pos_fault f i)) 0 reqs in
      if negb (forallb is_pre_ok pres) then (map (fun p => (pre_res p, None)) pres, st) else
      let acs := pre_accts pres in
      let items := combine acs os in
      let '(rr, st') := match of_ruler f with
                        | Some l => (l, st)
                        | None => ruler_atts (sc_rules c) st (creds_ok cl) (of_rules f)
                                    (map (fun x => att_req (fst x) (snd x)) items)
                        end in
      (sign_phase f rr items (fun o => len32 (ao_dom o)) att_msg, st')
    end
  end.

(* ---- Multisign ---- *)

Definition multisign (c : scfg) (cl : creds) (reqs : list (addr * option sign_data)) (f : ofault)
  : list (cres * option sigd) :=
  let n := List.length reqs in
  match reqs with
  | [] => [(CDenied, None)]
  | _ =>
    let fs := map (fun r => sign_fields (snd r)) reqs in
    match find_index (fun o => match o with None => true | Some _ => false end) fs 0 with
    | Some i => map (fun r => (r, None)) (deny_at n i)
    | None =>
      let os := flat_map (fun o => match o with Some x => [x] | None => [] end) fs in
      let pres := map_i (fun i r => pre_check c cl (fst r) ASign (pos_fault f i)) 0 reqs in
      if negb (forallb is_pre_ok pres) then map (fun p => (pre_res p, None)) pres else
      let acs := pre_accts pres in
      let items := combine acs os in
      let rr := match of_ruler f with
                | Some l => l
                | None => ruler_signs (sc_rules c) (creds_ok cl) (cl_ip cl)
                            (map (fun x => (ac_key (fst x), snd (snd x))) items)
                end in
      sign_phase f rr items (fun o => len32 (fst o) && len32 (snd o)) (fun o => MGen (fst o) (snd o))
    end
  end.
