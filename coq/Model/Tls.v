(* The transport gate of the gRPC API (services/api/grpc/service.go createServer: tls.Config{ClientAuth,
   ClientCAs, MinVersion}; interceptors/clientinfo.go: the caller's name is the common name of the first
   peer certificate).  crypto/tls and x509 verification are trusted; what is modelled is the decision
   table of the five client-authentication modes of crypto/tls and what the interceptor then hands to
   the permission checks.  No proofs in this file. *)
From Coq Require Export List Bool String.
Export ListNotations.

(* what a caller brings *)
Inductive tlsver := Tls12 | Tls13.
Record cert := {
  ct_cn : string;            (* subject common name *)
  ct_issuer : nat;           (* which authority signed it (0 = self-signed) *)
  ct_expired : bool;
  ct_client_usage : bool }.  (* extended key usage permits client authentication (or none is listed) *)
Inductive credential :=
| NoTls                                   (* plaintext connection *)
| TlsNoCert (v : tlsver)                  (* TLS, no client certificate *)
| TlsCert (v : tlsver) (c : cert).

(* the server side *)
Inductive clientauth := NoClientCert | RequestClientCert | RequireAnyClientCert | VerifyClientCertIfGiven | RequireAndVerifyClientCert.
Record tlscfg := { tc_auth : clientauth; tc_ca : nat; tc_min13 : bool }.

Definition pinned (ca : nat) : tlscfg := {| tc_auth := RequireAndVerifyClientCert; tc_ca := ca; tc_min13 := true |}.

(* x509 verification against the configured pool *)
Definition verifies (cfg : tlscfg) (c : cert) : bool :=
  Nat.eqb (ct_issuer c) (tc_ca cfg) && negb (Nat.eqb (ct_issuer c) 0) && negb (ct_expired c) && ct_client_usage c.

Definition version_ok (cfg : tlscfg) (v : tlsver) : bool :=
  match v with Tls13 => true | Tls12 => negb (tc_min13 cfg) end.

(* does the handshake complete, so that requests reach the interceptors and handlers? *)
Definition admitted (cfg : tlscfg) (cr : credential) : bool :=
  match cr with
  | NoTls => false                                     (* the server speaks TLS only *)
  | TlsNoCert v =>
      version_ok cfg v &&
      match tc_auth cfg with NoClientCert | RequestClientCert | VerifyClientCertIfGiven => true | _ => false end
  | TlsCert v c =>
      version_ok cfg v &&
      match tc_auth cfg with
      | NoClientCert | RequestClientCert | RequireAnyClientCert => true
      | VerifyClientCertIfGiven | RequireAndVerifyClientCert => verifies cfg c
      end
  end.

(* the name the interceptor hands to the handlers (None: no peer certificate) *)
Definition identity (cfg : tlscfg) (cr : credential) : option string :=
  if negb (admitted cfg cr) then None else
  match cr with
  | TlsCert _ c => match tc_auth cfg with NoClientCert => None | _ => Some (ct_cn c) end
  | _ => None
  end.

(* a caller holds a certificate issued by the configured authority *)
Definition authentic (cfg : tlscfg) (cr : credential) : bool :=
  match cr with TlsCert _ c => verifies cfg c | _ => false end.
