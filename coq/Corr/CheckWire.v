(* Correspondence for the wire-level Signer handlers: pre-store, request as decoded (lengths and observed
   capacities), response states with signature presence, post-store. *)
From DV Require Export Model.Wire Corr.CheckInst.
Local Open Scope Z_scope.

Record wcase := WC { wc_id : N; wc_pre : store; wc_cl : creds; wc_req : wreq; wc_obs : list (cres * bool); wc_post : store }.

(* 0 = agrees; 1 = the request is not what the decoder is assumed to give (capacity / nil-ness);
   2 = the model panics; 3 = response differs; 4 = store differs *)
Definition check_wcase (c : scfg) (keys : list N) (x : wcase) : nat :=
  if negb (wf_req (wc_req x)) then 1%nat else
  match wire_step c (wc_pre x) (wc_cl x) (wc_req x) with
  | None => 2%nat
  | Some (r, st') =>
      if negb (list_eqb ob_eqb r (wc_obs x)) then 3%nat
      else if views_eqb keys st' (wc_post x) then 0%nat else 4%nat
  end.

Definition wmismatches (c : scfg) (keys : list N) (l : list wcase) : list (N * nat) :=
  flat_map (fun x => match check_wcase c keys x with O => [] | k => [(wc_id x, k)] end) l.

(* short constructors *)
Definition WB (b : bytes) (cap : nat) : wfield := Some {| wb_bytes := b; wb_cap := cap |}.
Definition WCP (e : Z) (r : wfield) : option wcp := Some {| wc_epoch := e; wc_root := r |}.
Definition WAD (slot idx : Z) (bbr : wfield) (s t : option wcp) : option watt_data :=
  Some {| wa_slot := slot; wa_index := idx; wa_bbr := bbr; wa_src := s; wa_tgt := t |}.
Definition WPD (slot pidx : Z) (p s b : wfield) : option wprop_data :=
  Some {| wp_slot := slot; wp_pidx := pidx; wp_parent := p; wp_state := s; wp_body := b |}.
Definition WS (a : string) (k : option N) (dom data : wfield) : wsign := {| ws_account := a; ws_pubkey := k; ws_dom := dom; ws_data := data |}.
Definition WA (a : string) (k : option N) (dom : wfield) (d : option watt_data) : watt := {| wt_account := a; wt_pubkey := k; wt_dom := dom; wt_data := d |}.
Definition WP (a : string) (k : option N) (dom : wfield) (d : option wprop_data) : wprop := {| wr_account := a; wr_pubkey := k; wr_dom := dom; wr_data := d |}.
