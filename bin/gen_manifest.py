#!/usr/bin/env python3
"""Regenerates /verif/MANIFEST.json from the table below (the single place where claims are worded)."""
import json, os

VERIF = os.path.dirname(os.path.dirname(os.path.abspath(__file__)))
base = json.load(open("/root/.vp/BASELINE.json"))

NOTE = ("Trusted: Coq 8.16.1 kernel + vm_compute; the hand-written model (coq/Model) is tied to /repo by a sampled "
        "correspondence check (Go harness built with -tags verif from /repo's working tree, .v emitter, Corr/*.v); "
        "badger, BLS, Go runtime. See DESIGN.md I.8.")
TECH = ("Rocq/Coq theorem over a hand-written executable model (invariants by induction / refinement / algebra) "
        "+ step-wise differential correspondence check of the model against the real code")

CLAIMS = {
    "C01": ("Theorem C01_no_slashable_attestation (unbounded histories, all uint64 epochs, all fault schedules) on the model; step-wise "
            "correspondence of the model's step with the real signer service on generated histories plus a region sweep of the rule kernel; "
            "independent slashability monitor on the implementation's own signatures", "I.4 C01"),
    "C02": ("Theorem C02_no_double_proposal on the model; same correspondence and monitor for proposals", "I.4 C02"),
    "C03": ("Theorem C03_crash_safety_partial: with synchronous writes and write-before-sign, for every history of requests each with a "
            "fate (completes / killed before the write returned / killed after it with any subset of the Sign calls done / killed after the "
            "reply) and restarts, released duties stay ordered and the durable store dominates them; refutations without either mechanism. "
            "PARTIAL: durability of a returned badger commit and fsync are trusted. Correspondence: hook event order, store contents at the "
            "moment Sign is invoked, the SyncWrites option of the open store, and kill runs of a child process at every hook point of "
            "short histories compared with the model", "I.4 C03"),
    "C04": ("Theorems C04_serializable (every reachable, completed world of the lock protocol - any number of requests, key lists and "
            "interleavings - is a serial execution in commit order with exactly the returned verdicts and the reached store) and "
            "C04_realtime_order, C04_concurrent_is_sequential_rules (that serial execution is a run of the rules model of C01/C02/C05); refutation for first-key-only locking. PARTIAL: sync.Mutex / sync.Map / memory model trusted. "
            "Correspondence: recording locker + store hooks give the real-time event order of steered concurrent runs, which the model "
            "must accept as a schedule with the observed verdicts and store; per-request protocol conformance; rivals / lost-update monitor", "I.4 C04"),
    "C05": ("Theorem C05_domain_separation (all domains of any length via their first four bytes, all admin lists and source addresses, all "
            "fault schedules) on the model; correspondence over every endpoint x prefix class x admin list x source address against the real "
            "signer service; independent monitor of the property on the observed signatures", "I.4 C05"),
    "C06": ("Theorem C06_fail_closed (biconditional for every request and every fault schedule, no signature at a faulted position, store "
            "faults fail every position) on the model; exact correspondence under exhaustive single-fault enumeration and random multi-fault "
            "schedules; biconditional monitored at service and gRPC-handler level", "I.4 C06"),
    "C09": ("Theorems C09_advancing_attestation_signed / _proposal_signed (liveness over all well-formed histories), C09_batch_equals_singles "
            "(every batch length), C09_scatter_partition, C09_scatter_no_index_twice, C09_scatter_workers_bounded (every n, p) on the model; liveness-direction correspondence, twin-instance "
            "batch-vs-singles runs over sizes x GOMAXPROCS, util.Scatter vs the model's extents", "I.4 C09"),
    "C10": ("Theorems C10_import_step, C10_wrong_metadata_rejected, C10_history (any interleaving of signing requests and imports), "
            "C10_dominated_is_refused on the model of the repaired import; exact correspondence with the real dirk binary's "
            "--import-slashing-protection on generated (database, file) pairs and import sequences; probes of the real rules service at every "
            "imported and prior value", "I.4 C10"),
    "C11": ("Theorems C11_export_faithful (the exported record is exactly the highest signed slot / source / target, for every well-formed "
            "history), C11_export_import_same_decisions (export -> import into an empty instance preserves every record, and equal records "
            "answer every later history identically), C11_restart_identity, C11_codec and C11_codec_inverse (record format round trip in both directions for all int64 values, encoding injective; legacy "
            "records through a gob oracle); correspondence on raw record bytes, the real binary's export and import, identical probes on "
            "original and re-imported stores, restart, and legacy records produced by Go's gob encoder", "I.4 C11"),
    "C07": ("Theorems C07_check_spec (the loop-shaped permission check equals its declarative first-bearing-item specification), "
            "C07_whole_name_match (for every pattern of the modelled syntax and every name the repaired anchoring is a whole-name, "
            "case-insensitive match; derivative matcher = relational semantics = textbook language), "
            "C07_services_decide_on_resolved_account (signer, account and wallet management, creation); correspondence of Check() on "
            "grammar-generated permission configurations, of signer requests by name and by key, and of the managers' results", "I.4 C07"),
    "C08": ("Theorems C08_single_requests, C08_batches_aligned (exactly one entry per request; the signature at position i is by the account "
            "request i resolves to over exactly request i's fields, for every batch length and fault schedule), C08_signature_verifies (for "
            "any scheme with verify(sign)=true), C08_scatter_fills_every_index (every n, p); the signing root is computed by the model "
            "(SSZ over SHA-256 on primitive integers) and compared with the root under which the real BLS library verifies the returned "
            "signature for the addressed account; batches over sizes x GOMAXPROCS with every position verified", "I.4 C08"),
    "C15": ("Theorems C15_progress (in every reachable world with an unfinished request some thread can step) and C15_terminates (every "
            "accepted schedule is bounded by 3 x keys + 4 steps per request and a stuck world is a finished one); refutation without the "
            "locker-wide mutex ((a,b)/(b,a) deadlock). Correspondence as C04 with opposite-order batches and steered lock acquisition, plus "
            "sustained load under a watchdog", "I.4 C15"),
    "C12": ("Theorems C12_threshold_bounds (generation is refused unless n/2 < t <= n), C12_success_is_consistent (a generation that reports "
            "success - over any network behaviour - left every participant with the account, the returned composite key as its vector's first "
            "entry, a share consistent with that vector, the requested threshold, no open generation), and in mathcomp over an arbitrary field "
            "C12_algebra / C12_threshold_signature (any t participants' shares or partial signatures recover the aggregate secret / signature; "
            "every share passes the Feldman check against the aggregate vector) and C12_fewer_shares_reveal_nothing. PARTIAL: see "
            "Properties/C12.v. Correspondence: real clusters, every (n, t) in and out of range, initiators, commit-reply orders; the model is "
            "run on the recovered dealt polynomials; every t- and (t-1)-subset is combined with the real BLS library; sign and list at once", "I.4 C12"),
    "C13": ("Theorems C13_invalid_contribution_rejected, C13_failed_exchange_creates_no_account + C13_exchange_fails (any lost / refused "
            "prepare or execute, any lost, error or rejected swap, for every network behaviour: error, and every instance's accounts "
            "unchanged), C13_no_crash (no behaviour of the network reaches the out-of-range index); refutation for the pinned receiving side "
            "(F4, fixed). Correspondence: real clusters, every message position x fault kind for every permitted (n, t); error, wallets and "
            "panics compared with the model run on the same polynomials and altered messages", "I.4 C13"),
    "C14": ("Theorem C14_conflicting_duties_one_threshold: for every (n, t) key generation accepts, every cluster of n instances (any "
            "configurations and prior stores), every routing / repetition / order of requests and every pair of conflicting duties, no t "
            "instances signed one while t instances signed the other (per-instance C01/C02 + quorum intersection); refutation without the "
            "majority rule. Correspondence: real clusters after a real key generation, conflicting duties routed to arbitrary subsets; "
            "per-instance steps against the C01/C02 model and a cluster monitor that counts valid partial signatures per duty", "I.4 C14"),
    "C16": ("Theorems C16_only_peers, C16_stranger_refused, C16_peer_honoured, C16_strangers_change_nothing (over every history, deleting "
            "the messages of non-peers changes neither the final table and accounts nor any reply to a peer), C16_share_goes_to_its_owner; "
            "correspondence at the real receiver handlers over caller identities x five messages x session states; share ownership checked "
            "with the BLS library for every (replier, caller) pair", "I.4 C16"),
    "C17": ("Theorems C17_one_session_per_name, C17_prepare_while_active, C17_refused_without_session, C17_commit_needs_everyone, "
            "C17_commit_needs_everyone_reachable (its hypothesis is an invariant of every cooperative history), C17_gone_afterwards, C17_new_generation_may_start over every event sequence of the session-table model (logical clock); "
            "correspondence after every event of generated sequences on a real instance with cooperating real peers and real expiry: reply "
            "class, generation table, wallet contents; the lifecycle is also judged directly on the implementation's table", "I.4 C17"),
    "C18": ("Theorems C18_listing_sound_and_complete (membership in the answer <=> requested known wallet, account present in base or "
            "overlay, name matches, Access permitted), C18_wallet_accounts, C18_created_account_listed; correspondence of the real lister "
            "(service and gRPC handler) as a multiset, before and after dynamic account creation; soundness and completeness also "
            "monitored with the real checker", "I.4 C18"),
    "C19": ("Theorems C19_gate (with client certificates required and verified against the configured pool and TLS 1.3 minimum, a request "
            "reaches any handler only from a caller presenting a certificate that verifies against the configured authority, and the name given "
            "to permission checks is that certificate's common name), C19_identity_is_verified, C19_authentic_callers_served; every weaker "
            "crypto/tls client-authentication mode refuted, two of them with a forged identity. PARTIAL by nature: crypto/tls, x509 and gRPC "
            "are trusted. Correspondence: the full method x credential matrix over real TLS connections to a daemon from testing/daemon.New "
            "(no TLS, no certificate, self-signed, another authority with a permitted / peer name, valid clients, peer, non-peer, TLS 1.2, "
            "expired, server-use-only, fresh valid); nothing of value to refused callers; identity probes", "I.4 C19"),
    "C20": ("Theorems C20_decoder_capacity, C20_no_panic (for every Signer request that came out of the protobuf decoder - any field absent "
            "or of any length, any numbers, batches of any length, any names and keys - and every configuration, store and caller, the "
            "handler path reaches no panicking operation: per-position response arrays, the capacity-bounded Domain[0:4] of the rules layer), "
            "C20_every_request_answered (one entry per request), C20_key_generation_from_non_peers; lemma that the same call without the "
            "wire's capacity guarantee is flagged, confirmed on the real rules service. PARTIAL: Lister / AccountManager / WalletManager "
            "paths, library panics, goroutine effects and resource exhaustion are covered by the harness run only. Correspondence: "
            "schema-driven requests (mostly-valid and malformed streams) through a protobuf round trip into the real handlers under a "
            "recovering wrapper; states, signature presence, stores and decoded capacities compared with the model; liveness probe", "I.4 C20"),
}


def main():
    props = [json.loads(l) for l in open(os.path.join(VERIF, "properties.jsonl"))]
    man = {
        "version": 1,
        "setup_cmd": "bin/setup",
        "hooks": {"guard": "verif",
                  "enable": "go build -tags verif (the harness module in /verif/harness replaces github.com/attestantio/dirk with /repo)",
                  "baseline_off_cmd": base["cmd"], "source_commits": ["e8474e7", "25a2252", "62a60cd", "38c4d69"], "add_only": True},
        "engines": [
            {"name": "coq-model", "path": "coq", "serves_properties": sorted(CLAIMS),
             "kind_free_text": "hand-written Gallina model + theorems (Coq 8.16.1), checked by make/coqc"},
            {"name": "vharness", "path": "harness", "serves_properties": sorted(CLAIMS),
             "kind_free_text": "Go harness driving the real services / binary with -tags verif; emits cases_*.v evaluated by vm_compute against the model"}],
        "checks": [],
        "notes": "See DESIGN.md. Every check: bin/check <ID> (tier via VERIF_TIER or --tier, seed via VERIF_SEED).",
        "not_applicable": [],
    }
    for p in props:
        pid = p["id"]
        if pid in CLAIMS:
            txt, ref = CLAIMS[pid]
            man["checks"].append({
                "property_id": pid, "quick_cmd": f"bin/check {pid} --tier quick", "thorough_cmd": f"bin/check {pid} --tier thorough",
                "evidence_file": f"evidence/{pid}.json", "replay_cmd_template": f"bin/check {pid} --replay {{path}}", "engine": "coq-model",
                "level_claimed": {"category": "proof", "text": txt, "design_ref": ref}, "level_note": NOTE, "technique": TECH})
        else:
            man["not_applicable"].append({"property_id": pid, "reason": "check not built yet in this revision (see DESIGN.md)"})
    json.dump(man, open(os.path.join(VERIF, "MANIFEST.json"), "w"), indent=1)


if __name__ == "__main__":
    main()
