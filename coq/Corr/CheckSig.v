(* Correspondence for C08: the signing root the model computes for the submitted fields equals the
   root under which the harness verified the implementation's signature (with the real BLS library
   and the addressed account's public key); SHA-256 itself against crypto/sha256. *)
From DV Require Export Model.Ssz Corr.CheckInst.
Local Open Scope Z_scope.

Record rcase := RC { rc_id : N; rc_msg : msg; rc_root : option bytes }.   (* None = the implementation refused for lengths *)
Definition check_rcase (c : rcase) : bool :=
  match signing_root (rc_msg c), rc_root c with
  | Some r, Some r' => bytes_eqb r r'
  | None, None => true
  | _, _ => false
  end.
Definition root_mismatches (l : list rcase) : list N := map rc_id (filter (fun c => negb (check_rcase c)) l).

Record hcase := HC { hc_id : N; hc_in : bytes; hc_out : bytes }.
Definition hash_mismatches (l : list hcase) : list N :=
  map hc_id (filter (fun c => negb (bytes_eqb (sha256 (hc_in c)) (hc_out c))) l).
