# Per-property configuration of bin/check.
PROPS = {
    "C01": {
        "relation": "Corr.CheckInst.check_safe (implementation signs => model step signs; the signing key's record afterwards equals the model's; no record lowered) - the induction step of C01_no_slashable_attestation",
        "trusted": ["badger, the BLS library, Go runtime; wallet libraries' account resolution",
                    "the harness's own SSZ/BLS verification is used only to mark signatures valid"],
        "assumptions": ["histories are finite lists of service-level requests; op_ok: numbers are uint64 values, an injected ruler answer never says APPROVED"],
    },
    "C02": {
        "relation": "Corr.CheckInst.check_safe - the induction step of C02_no_double_proposal",
        "trusted": ["badger, the BLS library, Go runtime; wallet libraries' account resolution"],
        "assumptions": ["as C01"],
    },
}
