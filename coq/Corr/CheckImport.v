(* Correspondence for the command-level import: the harness ran the real dirk binary on
   (database, file) and recorded the exit status and the database afterwards. *)
From DV Require Export Model.Interchange Corr.CheckInst.
Local Open Scope Z_scope.

Definition FE (k : option N) (b : list pnum) (a : list (pnum * pnum)) : fentry :=
  {| fe_key := k; fe_blocks := b; fe_atts := a |}.
Definition IF (m : option (string * string)) (d : list fentry) : ifile := {| if_meta := m; if_data := d |}.

Record imcase := IM {
  im_id : N; im_gvr : string; im_pre : store; im_file : ifile;
  im_ok : bool;            (* exit status 0 *)
  im_post : store }.

(* the harness always passes a well-formed 32-byte root on the command line *)
Definition mk_icfg (fixed : bool) (gvr : string) : icfg :=
  {| ic_gvr := gvr; ic_gvr_ok := true; merge_fieldwise := fixed; reject_negative := fixed |}.

Definition check_import (fixed : bool) (keys : list N) (c : imcase) : bool :=
  match import_cmd (mk_icfg fixed (im_gvr c)) (im_pre c) (im_file c) with
  | IOk st' => im_ok c && views_eqb keys st' (im_post c)
  | IErr => negb (im_ok c) && views_eqb keys (im_pre c) (im_post c)
  end.

Definition import_mismatches (fixed : bool) (keys : list N) (l : list imcase) : list N :=
  map im_id (filter (fun c => negb (check_import fixed keys c)) l).

Definition import_diag (fixed : bool) (keys : list N) (l : list imcase)
  : list (N * bool * list (N * (Z * Z * Z))) :=
  map (fun c => match import_cmd (mk_icfg fixed (im_gvr c)) (im_pre c) (im_file c) with
                | IOk st' => (im_id c, true, map (fun k => (k, (a_src (view_att st' k), a_tgt (view_att st' k), view_prop st' k))) keys)
                | IErr => (im_id c, false, [])
                end)
      (filter (fun c => negb (check_import fixed keys c)) l).
