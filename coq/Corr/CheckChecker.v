(* Correspondence for the static checker and the lister. *)
From DV Require Export Model.Services Corr.CheckInst Base.RegexEsc.
Local Open Scope string_scope.

Definition L (c : N) : re := Chr (CLit c).
Definition CL (neg : bool) (rs : list (N * N)) : re := Chr (CClass neg rs).
Definition DOT : re := Chr CAny.
Fixpoint SEQ (l : list re) : re := match l with [] => Eps | [a] => a | a :: r => Cat a (SEQ r) end.
Definition PE (w a : pattern) (ops : list string) : pentry := {| pe_wallet := w; pe_account := a; pe_ops := ops |}.

(* one Check() call: table index, client, path, operation, observed answer *)
Record kcase := KC { kc_id : N; kc_tbl : nat; kc_client : string; kc_path : string; kc_op : string; kc_obs : bool }.

Definition check_kcase (grouped : bool) (tables : list ptable) (c : kcase) : bool :=
  Bool.eqb (check grouped (nth (kc_tbl c) tables []) (kc_client c) (kc_path c) (kc_op c)) (kc_obs c).
Definition checker_mismatches (grouped : bool) (tables : list ptable) (l : list kcase) : list N :=
  map kc_id (filter (fun c => negb (check_kcase grouped tables c)) l).

(* one MatchString call on a regexified pattern: pattern, name, observed answer *)
Record mcase := MC { mc_id : N; mc_pat : pattern; mc_name : string; mc_obs : bool }.
Definition match_mismatches (grouped : bool) (l : list mcase) : list N :=
  map mc_id (filter (fun c => negb (Bool.eqb (pat_match grouped (mc_pat c) (mc_name c)) (mc_obs c))) l).

(* signer configuration whose permission function is the checker's *)
Definition mkcfgT (g63 : bool) (ips : list string) (accts : list acct) (grouped : bool) (t : ptable) : scfg :=
  {| sc_rules := {| guard63 := g63; admin_ips := ips |}; sc_accounts := accts; sc_perm := checker_perm grouped t |}.

(* lister: world, client, paths, observed multiset of (wallet, name, key) *)
Record lcase := LC { lc_id : N; lc_world : world; lc_client : string; lc_paths : list lpath;
                     lc_obs : list (string * string * N) }.
Definition acct_obs (a : acct) : string * string * N := (ac_wallet a, ac_name a, ac_key a).
Definition obs_eqb (x y : string * string * N) : bool :=
  String.eqb (fst (fst x)) (fst (fst y)) && String.eqb (snd (fst x)) (snd (fst y)) && N.eqb (snd x) (snd y).
Fixpoint remove_one (x : string * string * N) (l : list (string * string * N)) : option (list (string * string * N)) :=
  match l with
  | [] => None
  | y :: r => if obs_eqb x y then Some r else match remove_one x r with Some r' => Some (y :: r') | None => None end
  end.
Fixpoint multiset_eqb (a b : list (string * string * N)) : bool :=
  match a with
  | [] => match b with [] => true | _ => false end
  | x :: a' => match remove_one x b with Some b' => multiset_eqb a' b' | None => false end
  end.
Definition check_lcase (c : lcase) : bool :=
  multiset_eqb (map acct_obs (list_accounts (lc_world c) (lc_client c) (lc_paths c))) (lc_obs c).
Definition lister_mismatches (l : list lcase) : list N := map lc_id (filter (fun c => negb (check_lcase c)) l).

Definition WD (g : bool) (t : ptable) (ws : list string) (base ov : list acct) : world :=
  {| w_grouped := g; w_table := t; w_wallets := ws; w_base := base; w_overlay := ov;
     w_locked_accounts := []; w_locked_wallets := [] |}.

(* account / wallet manager steps: world before, operation, observed result *)
Record scase := SCs { ss_id : N; ss_world : world; ss_op : sop; ss_obs : cres }.
Definition check_scase (c : scase) : bool := cres_eqb (fst (sstep (ss_world c) (ss_op c))) (ss_obs c).
Definition services_mismatches (l : list scase) : list N := map ss_id (filter (fun c => negb (check_scase c)) l).
