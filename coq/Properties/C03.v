(* C03 - slashing protection survives a crash at any instant. *)
From DV Require Import Model.Crash Proofs.SignerProofs Proofs.InstanceProofs Proofs.CrashProofs Proofs.Examples.
Local Open Scope Z_scope.

(* A history is a list of (request, fate): the request completes, or the process is killed before the
   request's protection write returned, or after it (with any subset of the request's Sign calls
   already executed), or after the reply; after a kill the instance restarts on the durable store.
   safe_ccfg cc := sync_writes cc = true /\ write_before_sign cc = true.

   With both mechanisms, for every configuration with the 2^63 guard, every initial durable store,
   every such history (any requests, any faults, any number of kills at any of these points) and
   every key: the attestations released for the key - a signature counts as released as soon as
   Sign ran, whether or not the reply was sent - are ordered (no two are slashable), the proposals
   released have strictly increasing slots, and the durable store reached dominates every one of
   them, so (C10_dominated_is_refused) every conflicting request is refused after every restart.

   PARTIAL with respect to the property's text: that badger's commit with SyncWrites is durable, and
   that fsync means what it says, is trusted (sync_writes is read from the open store's options);
   that the code writes before it signs is established by the correspondence check (event order at
   the hooks, kill runs of a child process), not by this theorem. *)
Theorem C03_crash_safety_partial :
  forall (cc : ccfg) (c : scfg) (st0 : store) (h : list (op * cut)) (k : N),
    safe_ccfg cc -> guard63 (sc_rules c) = true -> Forall (fun oc => op_ok (fst oc)) h ->
    let R := creleased_att k (snd (crun cc c st0 h)) in
    let P := creleased_prop k (snd (crun cc c st0 h)) in
    let stf := fst (crun cc c st0 h) in
    att_sorted R /\
    (forall i j a b, i <> j -> nth_error R i = Some a -> nth_error R j = Some b -> ~ slashable a b) /\
    (forall a, In a R -> fst a <= a_src (view_att stf k) /\ snd a <= a_tgt (view_att stf k)) /\
    slot_sorted P /\
    (forall i j a b, i <> j -> nth_error P i = Some a -> nth_error P j = Some b -> a <> b) /\
    (forall a, In a P -> a <= view_prop stf k).
Proof. exact C03_main. Qed.
Print Assumptions C03_crash_safety_partial.

(* without synchronous writes a power loss after the reply forgets the vote, and it is signed again *)
Lemma C03_refuted_without_sync :
  Forall (fun oc => op_ok (fst oc)) (dbl CKillLate CDone) /\
  creleased_att 1 (snd (crun unsafe_nosync (ex_cfg true) empty_store (dbl CKillLate CDone))) = [(0, 1); (0, 1)].
Proof. exact C03_nosync_witness. Qed.

(* signing before the write returned: a kill in between releases a vote the store never saw *)
Lemma C03_refuted_sign_before_store :
  creleased_att 1 (snd (crun unsafe_signfirst (ex_cfg true) empty_store (dbl CKillBefore CDone))) = [(0, 1); (0, 1)].
Proof. exact C03_signfirst_witness. Qed.

(* non-vacuity: the same histories under both mechanisms *)
Example C03_example :
  let cc := {| sync_writes := true; write_before_sign := true |} in
  safe_ccfg cc /\
  creleased_att 1 (snd (crun cc (ex_cfg true) empty_store (dbl CKillLate CDone))) = [(0, 1)] /\
  creleased_att 1 (snd (crun cc (ex_cfg true) empty_store (dbl CKillBefore CDone))) = [(0, 1)] /\
  creleased_att 1 (snd (crun cc (ex_cfg true) empty_store (dbl (CKillAfter [false]) CDone))) = [].
Proof. exact C03_safe_example. Qed.
