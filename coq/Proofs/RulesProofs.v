(* Facts about the rules kernel: what an approval implies, what any other outcome leaves alone,
   and the batch path as a fold of single "always store" steps. *)
From DV Require Import Model.Rules Proofs.AssocFacts.
From Coq Require Import Lia.

Local Open Scope Z_scope.

(* ---- views after writes ---- *)

Lemma view_att_put_att st k a k' :
  view_att (put_att st k a) k' = if N.eqb k k' then a else view_att st k'.
Proof. unfold view_att, put_att; cbn. rewrite lookup_insert. now destruct (N.eqb k k'). Qed.
Lemma view_prop_put_att st k a k' : view_prop (put_att st k a) k' = view_prop st k'.
Proof. reflexivity. Qed.
Lemma view_prop_put_prop st k z k' :
  view_prop (put_prop st k z) k' = if N.eqb k k' then z else view_prop st k'.
Proof. unfold view_prop, put_prop; cbn. rewrite lookup_insert. now destruct (N.eqb k k'). Qed.
Lemma view_att_put_prop st k z k' : view_att (put_prop st k z) k' = view_att st k'.
Proof. reflexivity. Qed.

(* ---- well-formed stored values: below 2^63 (negative = nothing signed) ---- *)

Definition wfa (a : astate) : Prop := a_src a < two63 /\ a_tgt a < two63.
Definition wfs (st : store) : Prop := (forall k, wfa (view_att st k)) /\ (forall k, view_prop st k < two63).

Lemma wfs_empty : wfs empty_store.
Proof. split; intros k; cbn; unfold wfa, two63; cbn; lia. Qed.

(* ---- attestation checks ---- *)

Lemma att_checks_approved c dom a s t a' :
  guard63 c = true -> 0 <= s -> 0 <= t ->
  att_checks c dom a s t = (RApproved, a') ->
  a' = {| a_src := s; a_tgt := t |} /\ s < two63 /\ t < two63 /\
  a_tgt a < t /\ a_src a <= s /\ (s < t \/ (s = 0 /\ t = 0)) /\ bytes_eqb (prefix4 dom) dom_attester = true.
Proof.
  intros G Hs Ht. unfold att_checks. rewrite G. cbn [andb].
  destruct (bytes_eqb (prefix4 dom) dom_attester) eqn:Ed; cbn [negb]; [|discriminate].
  destruct (two63 <=? s) eqn:E1; cbn [orb]; [discriminate|].
  destruct (two63 <=? t) eqn:E2; [discriminate|].
  destruct (negb ((s =? 0) && (t =? 0)) && (t <=? s)) eqn:E3; [discriminate|].
  destruct ((0 <=? a_tgt a) && (t <=? to_uint64 (a_tgt a))) eqn:E4; [discriminate|].
  destruct ((0 <=? a_src a) && (s <? to_uint64 (a_src a))) eqn:E5; [discriminate|].
  intros H; injection H as <-.
  unfold to_int64, to_uint64 in *.
  apply Z.leb_gt in E1, E2.
  assert (Hs' : (s <? two63) = true) by (apply Z.ltb_lt; lia).
  assert (Ht' : (t <? two63) = true) by (apply Z.ltb_lt; lia).
  rewrite Hs', Ht'.
  repeat split; auto.
  - destruct (0 <=? a_tgt a) eqn:E; cbn [andb] in E4.
    + apply Z.leb_le in E. destruct (a_tgt a <? 0) eqn:E'; [apply Z.ltb_lt in E'; lia|].
      apply Z.leb_gt in E4. lia.
    + apply Z.leb_gt in E. lia.
  - destruct (0 <=? a_src a) eqn:E; cbn [andb] in E5.
    + apply Z.leb_le in E. destruct (a_src a <? 0) eqn:E'; [apply Z.ltb_lt in E'; lia|].
      apply Z.ltb_ge in E5. lia.
    + apply Z.leb_gt in E. lia.
  - destruct (Z.eqb_spec s 0); destruct (Z.eqb_spec t 0); cbn [andb negb] in E3;
      try (apply Z.leb_gt in E3); lia.
Qed.

Lemma att_checks_refused c dom a s t r a' :
  att_checks c dom a s t = (r, a') -> r <> RApproved -> a' = a.
Proof.
  unfold att_checks.
  repeat match goal with |- context [if ?b then _ else _] => destruct b end;
    intros H; injection H as <- <-; congruence.
Qed.

Lemma att_checks_result c dom a s t :
  fst (att_checks c dom a s t) = RApproved \/ fst (att_checks c dom a s t) = RDenied.
Proof.
  unfold att_checks.
  repeat match goal with |- context [if ?b then _ else _] => destruct b end; cbn; auto.
Qed.

(* ---- proposal rule ---- *)

Lemma on_prop_approved c st f r st' :
  guard63 c = true -> 0 <= p_slot r ->
  on_prop c st f r = (RApproved, st') ->
  st' = put_prop st (p_key r) (p_slot r) /\ p_slot r < two63 /\ view_prop st (p_key r) < p_slot r /\
  bytes_eqb (prefix4 (p_dom r)) dom_proposer = true.
Proof.
  intros G Hs. unfold on_prop. rewrite G. cbn [andb].
  destruct (bytes_eqb (prefix4 (p_dom r)) dom_proposer) eqn:Ed; cbn [negb]; [|discriminate].
  destruct (fetch_fails f 0); [discriminate|].
  destruct (two63 <=? p_slot r) eqn:E1; [discriminate|].
  destruct ((0 <=? view_prop st (p_key r)) && (p_slot r <=? to_uint64 (view_prop st (p_key r)))) eqn:E2; [discriminate|].
  destruct (f_store f); [discriminate|].
  intros H; injection H as <-.
  apply Z.leb_gt in E1. unfold to_int64, to_uint64 in *.
  assert (Hs' : (p_slot r <? two63) = true) by (apply Z.ltb_lt; lia). rewrite Hs'.
  repeat split; auto.
  destruct (0 <=? view_prop st (p_key r)) eqn:E; cbn [andb] in E2.
  - apply Z.leb_le in E. destruct (view_prop st (p_key r) <? 0) eqn:E'; [apply Z.ltb_lt in E'; lia|].
    apply Z.leb_gt in E2. lia.
  - apply Z.leb_gt in E. lia.
Qed.

Lemma on_prop_refused c st f r x st' :
  on_prop c st f r = (x, st') -> x <> RApproved -> st' = st.
Proof.
  unfold on_prop.
  repeat match goal with |- context [if ?b then _ else _] => destruct b end;
    intros H; injection H as <- <-; congruence.
Qed.

(* ---- single attestation path ---- *)

Lemma on_att_approved c st f r st' :
  guard63 c = true -> 0 <= r_src r -> 0 <= r_tgt r ->
  on_att c st f r = (RApproved, st') ->
  st' = put_att st (r_key r) {| a_src := r_src r; a_tgt := r_tgt r |} /\
  r_src r < two63 /\ r_tgt r < two63 /\
  a_tgt (view_att st (r_key r)) < r_tgt r /\ a_src (view_att st (r_key r)) <= r_src r.
Proof.
  intros G Hs Ht. unfold on_att.
  destruct (fetch_fails f 0); [discriminate|].
  destruct (att_checks c (r_dom r) (view_att st (r_key r)) (r_src r) (r_tgt r)) as [res a'] eqn:E.
  destruct res; try discriminate.
  destruct (f_store f); [discriminate|].
  intros H; injection H as <-.
  apply att_checks_approved in E; auto. destruct E as (-> & ? & ? & ? & ? & _). auto.
Qed.

Lemma on_att_refused c st f r x st' :
  on_att c st f r = (x, st') -> x <> RApproved -> st' = st.
Proof.
  unfold on_att. destruct (fetch_fails f 0); [intros H; now injection H as <- <-|].
  destruct (att_checks c (r_dom r) (view_att st (r_key r)) (r_src r) (r_tgt r)) as [res a'].
  destruct res; try (intros H; now injection H as <- <-).
  destruct (f_store f); intros H; injection H as <- <-; congruence.
Qed.

(* ---- batch path ---- *)

Lemma store_all_prop st l k : view_prop (store_all st l) k = view_prop st k.
Proof.
  unfold store_all. revert st. induction l as [|[k' a] l IH]; intros st; cbn; auto.
  now rewrite IH.
Qed.

Lemma view_att_store_all l : forall st k,
  NoDup (map fst l) ->
  view_att (store_all st l) k = match lookup k l with Some a => a | None => view_att st k end.
Proof.
  unfold store_all. induction l as [|[k' a] l IH]; intros st k ND; cbn; auto.
  inversion ND as [|x xs Hnin ND']; subst. cbn [fst snd].
  rewrite IH by auto.
  destruct (lookup k l) eqn:El.
  - destruct (N.eqb k k') eqn:E; auto.
    apply N.eqb_eq in E; subst k'.
    exfalso. apply Hnin. apply lookup_none_iff_not. congruence.
  - rewrite view_att_put_att. rewrite N.eqb_sym. destruct (N.eqb k k'); auto.
Qed.

Definition chk (c : rcfg) (st : store) (r : areq) : rres * astate :=
  att_checks c (r_dom r) (view_att st (r_key r)) (r_src r) (r_tgt r).

Lemma lookup_combine_find {B} (g : areq -> B) rs k :
  lookup k (combine (map r_key rs) (map g rs)) =
  option_map g (find (fun r => N.eqb (r_key r) k) rs).
Proof.
  induction rs as [|r rs IH]; cbn; auto.
  rewrite (N.eqb_sym (r_key r) k). destruct (N.eqb k (r_key r)); auto.
Qed.

Lemma map_fst_combine {A B} (l1 : list A) (l2 : list B) :
  List.length l1 = List.length l2 -> map fst (combine l1 l2) = l1.
Proof.
  revert l2; induction l1 as [|a l1 IH]; destruct l2; cbn; intros H; try discriminate; auto.
  f_equal. apply IH. now injection H.
Qed.

Lemma on_atts_char c st f rs rr st' :
  NoDup (map r_key rs) -> on_atts c st f rs = (rr, st') ->
  (rr = repeat RFailed (List.length rs) /\ st' = st) \/
  (rr = map (fun r => fst (chk c st r)) rs /\
   (forall k, view_att st' k = match find (fun r => N.eqb (r_key r) k) rs with
                               | Some r => snd (chk c st r) | None => view_att st k end) /\
   (forall k, view_prop st' k = view_prop st k)).
Proof.
  intros ND. unfold on_atts.
  destruct (existsb (fetch_fails f) (seq 0 (List.length rs))); [intros H; injection H as <- <-; now left|].
  destruct (f_store f || (List.length rs =? 0)%nat); [intros H; injection H as <- <-; now left|].
  intros H; injection H as <- <-. right. split; [|split].
  - rewrite map_map. reflexivity.
  - intros k. rewrite view_att_store_all.
    + rewrite map_map. rewrite (lookup_combine_find (fun r => snd (chk c st r))).
      destruct (find _ rs); reflexivity.
    + rewrite map_fst_combine; auto. now rewrite !map_length.
  - intros k. apply store_all_prop.
Qed.
