(* One Dirk instance as a state machine over its protection store: histories of signing
   requests, restarts, exports; the ghost list of released signatures. *)
From DV Require Export Model.Signer.

Inductive op :=
| OAttest  (cl : creds) (a : addr) (d : option att_data) (f : ofault)
| OAttests (cl : creds) (l : list (addr * option att_data)) (f : ofault)
| OPropose (cl : creds) (a : addr) (d : option prop_data) (f : ofault)
| OSign    (cl : creds) (a : addr) (d : option sign_data) (f : ofault)
| OMultisign (cl : creds) (l : list (addr * option sign_data)) (f : ofault)
| ORestart.                      (* clean shutdown and start on the same storage directory *)

(* the response: per position a state and, possibly, a signature *)
Definition resp := list (cres * option sigd).

Definition step (c : scfg) (st : store) (o : op) : resp * store :=
  match o with
  | OAttest cl a d f => let '(r, st') := sign_att c st cl a d f in ([r], st')
  | OAttests cl l f => sign_atts c st cl l f
  | OPropose cl a d f => let '(r, st') := sign_prop c st cl a d f in ([r], st')
  | OSign cl a d f => ([sign_gen c cl a d f], st)
  | OMultisign cl l f => (multisign c cl l f, st)
  | ORestart => ([], st)
  end.

(* run a history: final store and the responses, oldest first *)
Fixpoint run (c : scfg) (st : store) (h : list op) : store * list resp :=
  match h with
  | [] => (st, [])
  | o :: r => let '(rs, st') := step c st o in
              let '(stf, out) := run c st' r in (stf, rs :: out)
  end.

(* released signatures, oldest first (within a batch: in position order) *)
Definition sigs_of (r : resp) : list sigd :=
  flat_map (fun x => match snd x with Some s => [s] | None => [] end) r.
Definition released (out : list resp) : list sigd := flat_map sigs_of out.

(* attestations (source, target) and proposals (slot) released for key k *)
Definition att_of (k : N) (s : sigd) : list (Z * Z) :=
  match sg_msg s with
  | MAtt _ _ _ src _ tgt _ _ => if N.eqb (sg_key s) k then [(src, tgt)] else []
  | _ => []
  end.
Definition prop_of (k : N) (s : sigd) : list Z :=
  match sg_msg s with
  | MProp slot _ _ _ _ _ => if N.eqb (sg_key s) k then [slot] else []
  | _ => []
  end.
Definition released_att (k : N) (out : list resp) : list (Z * Z) := flat_map (att_of k) (released out).
Definition released_prop (k : N) (out : list resp) : list Z := flat_map (prop_of k) (released out).

(* the entries of an attestation batch submitted one at a time, in order *)
Fixpoint seq_atts (c : scfg) (st : store) (cl : creds) (reqs : list (addr * option att_data))
  : list (cres * option sigd) * store :=
  match reqs with
  | [] => ([], st)
  | r :: rest => let '(x, st1) := sign_att c st cl (fst r) (snd r) no_ofault in
                 let '(xs, st2) := seq_atts c st1 cl rest in (x :: xs, st2)
  end.
