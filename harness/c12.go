package main

import (
	"context"
	"fmt"
	"math/big"
	"os"
	"path/filepath"
	"sort"
	"strings"
	"sync"
	"time"

	"github.com/attestantio/dirk/core"
	"github.com/attestantio/dirk/rules"
	"github.com/attestantio/dirk/services/checker"
	standardprocess "github.com/attestantio/dirk/services/process/standard"
	"github.com/herumi/bls-eth-go-binary/bls"
	distributed "github.com/wealdtech/go-eth2-wallet-distributed"
	keystorev4 "github.com/wealdtech/go-eth2-wallet-encryptor-keystorev4"
	e2wtypes "github.com/wealdtech/go-eth2-wallet-types/v2"
)

// Cluster-level key generation driver (C12: successful generations; C13: faulted generations).
// Real instances, real OnGenerate at the initiator, messages routed to the peers' real receiver
// handlers; the network may lose or alter messages.  The dealt polynomials are recovered from the
// dealt shares (read through the verif view after the prepare phase) so that the Coq model can be
// run on the same inputs "in the exponent".

var frOrder, _ = new(big.Int).SetString("52435875175126190479447740508185965837690552500527637822603658699938581184513", 10)

func skInt(sk *bls.SecretKey) *big.Int {
	x, _ := new(big.Int).SetString(sk.GetDecString(), 10)
	return x
}

func skFromInt(x *big.Int) bls.SecretKey {
	var sk bls.SecretKey
	_ = sk.SetDecString(new(big.Int).Mod(x, frOrder).String())
	return sk
}

func pkOfInt(x *big.Int) bls.PublicKey {
	sk := skFromInt(x)
	return *sk.GetPublicKey()
}

// interpolate returns the coefficients (degree < len(xs)) of the polynomial through (xs[i], ys[i]) mod r.
func interpolate(xs, ys []*big.Int) []*big.Int {
	n := len(xs)
	res := make([]*big.Int, n)
	for i := range res {
		res[i] = new(big.Int)
	}
	for i := 0; i < n; i++ {
		// basis polynomial l_i(x) = prod_{j!=i} (x - x_j) / (x_i - x_j)
		num := []*big.Int{big.NewInt(1)}
		den := big.NewInt(1)
		for j := 0; j < n; j++ {
			if j == i {
				continue
			}
			next := make([]*big.Int, len(num)+1)
			for k := range next {
				next[k] = new(big.Int)
			}
			for k, c := range num {
				// c * (x - x_j)
				next[k+1].Add(next[k+1], c)
				t := new(big.Int).Mul(c, xs[j])
				next[k].Sub(next[k], t)
			}
			for k := range next {
				next[k].Mod(next[k], frOrder)
			}
			num = next
			d := new(big.Int).Sub(xs[i], xs[j])
			den.Mul(den, d).Mod(den, frOrder)
		}
		inv := new(big.Int).ModInverse(den, frOrder)
		f := new(big.Int).Mul(ys[i], inv)
		f.Mod(f, frOrder)
		for k, c := range num {
			t := new(big.Int).Mul(c, f)
			res[k].Add(res[k], t).Mod(res[k], frOrder)
		}
	}
	return res
}

func evalPoly(cs []*big.Int, x *big.Int) *big.Int {
	r := new(big.Int)
	for i := len(cs) - 1; i >= 0; i-- {
		r.Mul(r, x).Add(r, cs[i]).Mod(r, frOrder)
	}
	return r
}

func idInt(id uint64) *big.Int { return new(big.Int).SetUint64(id) }

// polyOf recovers the polynomial an instance dealt for a generation, and checks that it explains
// every dealt share and the instance's verification vector.
func polyOf(s *standardprocess.VerifSession) ([]*big.Int, error) {
	t := int(s.Threshold)
	var ids []uint64
	for id := range s.Dealt {
		ids = append(ids, id)
	}
	sort.Slice(ids, func(i, j int) bool { return ids[i] < ids[j] })
	if len(ids) < t {
		return nil, fmt.Errorf("only %d dealt shares for threshold %d", len(ids), t)
	}
	var xs, ys []*big.Int
	for _, id := range ids[:t] {
		var sk bls.SecretKey
		if err := sk.Deserialize(s.Dealt[id]); err != nil {
			return nil, err
		}
		xs = append(xs, idInt(id))
		ys = append(ys, skInt(&sk))
	}
	cs := interpolate(xs, ys)
	for _, id := range ids {
		var sk bls.SecretKey
		_ = sk.Deserialize(s.Dealt[id])
		if evalPoly(cs, idInt(id)).Cmp(skInt(&sk)) != 0 {
			return nil, fmt.Errorf("dealt share for %d is not on the polynomial", id)
		}
	}
	if len(s.OwnVVec) != t {
		return nil, fmt.Errorf("own vector has %d entries, threshold %d", len(s.OwnVVec), t)
	}
	for k, b := range s.OwnVVec {
		pk := pkOfInt(cs[k])
		if fmt.Sprintf("%x", pk.Serialize()) != fmt.Sprintf("%x", b) {
			return nil, fmt.Errorf("vector entry %d is not g^coefficient", k)
		}
	}
	return cs, nil
}

type dkgFault struct {
	Kind string // "", lost-prepare, err-prepare, lost-execute, err-execute, lost, share-replaced, share-other-id, vvec-altered, vvec-short, vvec-long, vvec-long-plain, duplicate
	Pos  int    // which message of that class (1-based, in order of sending)
	Dir  string // contribute faults: "request" or "reply"
}

func (f dkgFault) String() string {
	if f.Kind == "" {
		return "none"
	}
	return fmt.Sprintf("%s@%d%s", f.Kind, f.Pos, map[string]string{"": "", "request": "(request)", "reply": "(reply)"}[f.Dir])
}

type dkgAccount struct {
	Share     *big.Int
	VVec      [][]byte
	Threshold uint32
	Parts     []uint64
	Composite []byte
}

type dkgRun struct {
	IDs       []uint64
	Initiator uint64
	N, T      uint32
	Acct      string
	Fault     dkgFault
	Order     []uint64
	Stale     []uint64 // instances that already hold an account of that name
	NoPass    bool     // the client supplies no passphrase (the instances use their generation passphrase)

	Parts    []uint64
	Polys    map[uint64][]*big.Int
	PolyErr  string
	Swaps    []string // Coq entries of the swap table
	LostP    []uint64
	LostE    []uint64
	Forged   []uint64 // participants whose commit was replaced by a made-up reply
	Applied  bool
	Err      error
	Panics   []string
	PubKey   []byte
	Accounts map[uint64]*dkgAccount
}

func readDkgAccount(ctx context.Context, n *Node, path string) *dkgAccount {
	parts := strings.SplitN(path, "/", 2)
	w, err := distributed.OpenWallet(ctx, parts[0], n.Stores[0], keystorev4.New())
	if err != nil {
		return nil
	}
	a, err := w.(e2wtypes.WalletAccountByNameProvider).AccountByName(ctx, parts[1])
	if err != nil {
		return nil
	}
	da, ok := a.(e2wtypes.DistributedAccount)
	if !ok {
		return nil
	}
	res := &dkgAccount{Threshold: da.SigningThreshold(), Composite: da.CompositePublicKey().Marshal()}
	for _, pk := range a.(e2wtypes.AccountVerificationVectorProvider).VerificationVector() {
		res.VVec = append(res.VVec, pk.Marshal())
	}
	for id := range da.Participants() {
		res.Parts = append(res.Parts, id)
	}
	sort.Slice(res.Parts, func(i, j int) bool { return res.Parts[i] < res.Parts[j] })
	if err := a.(e2wtypes.AccountLocker).Unlock(ctx, []byte("pass")); err == nil {
		if priv, err := a.(e2wtypes.AccountPrivateKeyProvider).PrivateKey(ctx); err == nil {
			res.Share = new(big.Int).SetBytes(priv.Marshal())
		}
		_ = a.(e2wtypes.AccountLocker).Lock(ctx)
	}
	return res
}

func coqZs(l []*big.Int) string {
	it := make([]string, len(l))
	for i, x := range l {
		it[i] = x.String()
	}
	return "[" + strings.Join(it, "; ") + "]"
}

// runGeneration performs one generation on the cluster with the given fault.
func runGeneration(ctx context.Context, c *Cluster, r *dkgRun) {
	noteRequest("Generate(%q, participants %d, threshold %d) on cluster %v, initiator %d, network fault %s", r.Acct, r.N, r.T, r.IDs, r.Initiator, r.Fault)
	defer requestDone()
	r.Polys = map[uint64][]*big.Int{}
	r.Accounts = map[uint64]*dkgAccount{}
	counts := map[string]int{}
	snap := false
	var mu sync.Mutex
	c.mu.Lock()
	c.Log = nil
	c.Panics = nil
	c.Tamper = func(m *ClusterMsg) error {
		mu.Lock()
		defer mu.Unlock()
		if m.Account != r.Acct {
			return nil
		}
		if m.Kind == "prepare" && len(r.Parts) == 0 {
			r.Parts = append([]uint64{}, m.Participants...)
			if r.Order != nil {
				// the commit replies of the participants arrive in the prescribed order
				var ord []uint64
				for _, id := range r.Order {
					for _, p := range r.Parts {
						if p == id {
							ord = append(ord, id)
						}
					}
				}
				r.Order = ord
				c.mu.Lock()
				c.commitGate = newOrderGate(ord)
				c.mu.Unlock()
			}
		}
		if m.Kind == "execute" && !snap {
			// every prepare has been delivered: read what each participant dealt
			snap = true
			for _, id := range r.Parts {
				if n := c.Nodes[id]; n != nil {
					for _, s := range n.Process.VerifSessions() {
						if s.Account == r.Acct {
							s := s
							cs, err := polyOf(&s)
							if err != nil {
								r.PolyErr = fmt.Sprintf("instance %d: %v", id, err)
							} else {
								r.Polys[id] = cs
							}
						}
					}
				}
			}
		}
		class := m.Kind
		if m.Kind == "contribute-reply" {
			class = "contribute"
		}
		f := r.Fault
		want := ""
		switch {
		case strings.HasSuffix(f.Kind, "-prepare"):
			want = "prepare"
		case strings.HasSuffix(f.Kind, "-execute"):
			want = "execute"
		case f.Kind == "forged-commit":
			want = "commit"
		case f.Kind != "":
			want = "contribute"
		}
		if class != want {
			return nil
		}
		if want == "contribute" {
			dir := "request"
			if m.Kind == "contribute-reply" {
				dir = "reply"
			}
			if dir != f.Dir {
				return nil
			}
		}
		counts[class]++
		if counts[class] != f.Pos {
			return nil
		}
		r.Applied = true
		switch f.Kind {
		case "lost-prepare":
			m.Drop = true
			r.LostP = append(r.LostP, m.To)
		case "err-prepare":
			m.ErrorReply = true
			r.LostP = append(r.LostP, m.To)
		case "lost-execute":
			m.Drop = true
			r.LostE = append(r.LostE, m.To)
		case "err-execute":
			m.ErrorReply = true
			r.LostE = append(r.LostE, m.To)
		case "duplicate":
			m.Duplicate = true
		case "replay-altered":
			// the genuine message is delivered, then a second copy of it with the share replaced; the
			// receiver must refuse the copy and keep what it held (for the model: the genuine message)
			m.ReplayAltered = true
		case "lost":
			m.Drop = true
			r.Swaps = append(r.Swaps, fmt.Sprintf("(%d%%N, %d%%N, None)", m.From, m.To))
		case "session-lost":
			// for the model: this exchange does not take place
			m.SessionLost = true
			r.Swaps = append(r.Swaps, fmt.Sprintf("(%d%%N, %d%%N, None)", m.From, m.To))
		case "forged-commit":
			m.ForgedReply = true
			r.Forged = append(r.Forged, m.To)
			// the key everybody else will report: g^(sum of the dealt polynomials' constant terms)
			sum := new(big.Int)
			for _, id := range r.Parts {
				if poly := r.Polys[id]; len(poly) > 0 {
					sum.Add(sum, poly[0])
				}
			}
			sum.Mod(sum, frOrder)
			var sk bls.SecretKey
			if err := sk.SetHexString(sum.Text(16)); err == nil {
				m.ForgedPK = sk.GetPublicKey().Serialize()
			}
		default:
			poly := r.Polys[m.From]
			if poly == nil {
				r.PolyErr = fmt.Sprintf("no polynomial known for sender %d", m.From)
				return nil
			}
			share := evalPoly(poly, idInt(m.To))
			vv := append([]*big.Int{}, poly...)
			switch f.Kind {
			case "share-replaced":
				share = new(big.Int).Add(share, big.NewInt(12345))
				share.Mod(share, frOrder)
			case "share-other-id":
				share = evalPoly(poly, idInt(m.To+1))
			case "vvec-altered":
				vv[0] = new(big.Int).Add(vv[0], big.NewInt(99))
				vv[0].Mod(vv[0], frOrder)
			case "vvec-short":
				vv = vv[:len(vv)-1]
			case "vvec-long": // one more coefficient, share adjusted: consistent, but of the wrong degree
				cnew := big.NewInt(424242)
				vv = append(vv, cnew)
				share = evalPoly(vv, idInt(m.To))
			case "vvec-long-plain":
				vv = append(vv, big.NewInt(7))
			}
			sk := skFromInt(share)
			*m.Secret = sk
			nv := make([]bls.PublicKey, len(vv))
			for i := range vv {
				nv[i] = pkOfInt(vv[i])
			}
			*m.VVec = nv
			r.Swaps = append(r.Swaps, fmt.Sprintf("(%d%%N, %d%%N, Some (%s, %s))", m.From, m.To, share.String(), coqZs(vv)))
		}
		return nil
	}
	c.commitGate = nil
	c.mu.Unlock()
	init := c.Nodes[r.Initiator]
	func() {
		defer func() {
			if x := recover(); x != nil {
				r.Panics = append(r.Panics, fmt.Sprint(x))
				r.Err = fmt.Errorf("panic: %v", x)
			}
		}()
		pass := []byte("pass")
		if r.NoPass {
			pass = nil
		}
		r.PubKey, _, r.Err = init.Process.OnGenerate(ctx, &checker.Credentials{Client: "client1", IP: "10.0.0.1"}, r.Acct, pass, r.T, r.N)
	}()
	c.mu.Lock()
	c.Tamper = nil
	c.commitGate = nil
	r.Panics = append(r.Panics, c.Panics...)
	c.mu.Unlock()
	for _, id := range r.IDs {
		if a := readDkgAccount(ctx, c.Nodes[id], r.Acct); a != nil {
			r.Accounts[id] = a
		}
	}
}

// coqCase renders a run as a Coq case for Corr/CheckDkg.v's dkg check.
func (r *dkgRun) coqCase(id int, checkLen bool) string {
	var polys []string
	for _, p := range r.Parts {
		if cs := r.Polys[p]; cs != nil {
			polys = append(polys, fmt.Sprintf("(%d%%N, %s)", p, coqZs(cs)))
		}
	}
	// group elements are reported by their logarithms: the candidate (the sum of the dealt
	// coefficients) is confirmed by exponentiation against the real element, else reported as -1
	sumCoeff := func(k int) *big.Int {
		x := new(big.Int)
		for _, p := range r.Parts {
			if cs := r.Polys[p]; k < len(cs) {
				x.Add(x, cs[k])
			}
		}
		return x.Mod(x, frOrder)
	}
	logOf := func(elem []byte, k int) string {
		x := sumCoeff(k)
		pk := pkOfInt(x)
		if sameBytes(pk.Serialize(), elem) {
			return x.String()
		}
		return "(-1)"
	}
	res := "RErr"
	if len(r.Panics) > 0 {
		res = "RPanic"
	} else if r.Err == nil {
		res = "(ROk " + logOf(r.PubKey, 0) + ")"
	}
	var accts []string
	for _, id := range r.IDs {
		a := r.Accounts[id]
		isStale := false
		for _, s := range r.Stale {
			isStale = isStale || s == id
		}
		if isStale {
			continue // it keeps whatever it had
		}
		if a == nil {
			accts = append(accts, fmt.Sprintf("(%d%%N, None)", id))
			continue
		}
		var vv []string
		for k, e := range a.VVec {
			vv = append(vv, logOf(e, k))
		}
		share := "(-1)"
		if a.Share != nil {
			share = a.Share.String()
		}
		accts = append(accts, fmt.Sprintf("(%d%%N, Some (%s, %s, %d%%nat, %s))", id, share, coqList(vv), a.Threshold, coqNs(a.Parts)))
	}
	parts := r.Parts
	if len(parts) == 0 && int(r.N) <= len(r.IDs) {
		parts = r.IDs[:r.N] // refused before any message: only the count matters
	}
	return fmt.Sprintf(" DC %s %s %s %d%%nat %s %s %s %s %s %s %s %s %s", coqN(id), coqBool(checkLen), coqStr(r.Acct), r.T, coqNs(parts), coqNs(r.IDs),
		coqList(polys), coqList(r.Swaps), coqNs(r.LostP), coqNs(r.LostE), res, coqList(accts), coqNs(r.Stale))
}

// ---- judging the properties on the real cluster ----

func sameBytes(a, b []byte) bool { return fmt.Sprintf("%x", a) == fmt.Sprintf("%x", b) }

// judgeSuccess checks everything C12 promises after a reported success; returns failures.
func judgeSuccess(ctx context.Context, c *Cluster, r *dkgRun, stats map[string]int, deep bool) []string {
	var fails []string
	bad := func(f string, a ...any) {
		fails = append(fails, fmt.Sprintf("generation %q (n=%d t=%d ids=%v initiator=%d order=%v): ", r.Acct, r.N, r.T, r.IDs, r.Initiator, r.Order)+fmt.Sprintf(f, a...))
	}
	if !(r.N/2 < r.T && r.T <= r.N) {
		bad("accepted although the threshold is outside n/2 < t <= n")
	}
	if len(r.Parts) != int(r.N) {
		bad("%d participants prepared, %d requested", len(r.Parts), r.N)
	}
	sortedParts := append([]uint64{}, r.Parts...)
	sort.Slice(sortedParts, func(i, j int) bool { return sortedParts[i] < sortedParts[j] })
	var ref *dkgAccount
	for _, id := range r.Parts {
		a := r.Accounts[id]
		if a == nil {
			bad("participant %d holds no account", id)
			continue
		}
		if ref == nil {
			ref = a
		}
		if !sameBytes(a.Composite, r.PubKey) {
			bad("participant %d has composite key %x, the client was given %x", id, a.Composite, r.PubKey)
		}
		if a.Threshold != r.T {
			bad("participant %d stored threshold %d", id, a.Threshold)
		}
		if fmt.Sprint(a.Parts) != fmt.Sprint(sortedParts) {
			bad("participant %d stored participants %v, generation had %v", id, a.Parts, sortedParts)
		}
		if len(a.VVec) != int(r.T) {
			bad("participant %d stored a vector of %d entries", id, len(a.VVec))
		}
		if fmt.Sprintf("%x", a.VVec) != fmt.Sprintf("%x", ref.VVec) {
			bad("participant %d stored a different verification vector", id)
		}
		if len(a.VVec) > 0 && !sameBytes(a.VVec[0], a.Composite) {
			bad("participant %d: composite key is not the vector's first entry", id)
		}
		// share consistent with the vector
		if a.Share == nil {
			bad("participant %d: share cannot be unlocked with the generation passphrase", id)
		} else {
			vv := make([]bls.PublicKey, len(a.VVec))
			for i := range vv {
				_ = vv[i].Deserialize(a.VVec[i])
			}
			sk := skFromInt(a.Share)
			if !verifyShare(id, &sk, vv) {
				bad("participant %d: share is not consistent with the verification vector", id)
			}
		}
	}
	for _, id := range r.IDs {
		listed := false
		for _, p := range r.Parts {
			listed = listed || p == id
		}
		if !listed && r.Accounts[id] != nil {
			bad("instance %d is not a participant but holds the account", id)
		}
	}
	if len(fails) > 0 || ref == nil {
		return fails
	}
	// immediately usable, without restart: sign on every participant, list on every participant
	creds := &checker.Credentials{Client: "client1", IP: "10.0.0.1"}
	sd := SignData{Dom: mkDomain([]byte{9, 0, 0, 0}, 3), Data: fill32(byte(len(r.Acct)))}
	root := signRoot(sd)
	sigs := map[uint64]bls.Sign{}
	for _, id := range r.Parts {
		n := c.Nodes[id]
		res, sig := n.Signer.SignGeneric(ctx, creds, r.Acct, nil, &rules.SignData{Domain: sd.Dom, Data: sd.Data})
		if res != core.ResultSucceeded {
			bad("participant %d cannot sign with the new account: %v", id, res)
			continue
		}
		var s bls.Sign
		if err := s.Deserialize(sig); err != nil {
			bad("participant %d returned an unparsable signature", id)
			continue
		}
		sigs[id] = s
		// by public key too
		res2, _ := n.Signer.SignGeneric(ctx, creds, "", r.Accounts[id].sharePub(), &rules.SignData{Domain: sd.Dom, Data: fill32(77)})
		if res2 != core.ResultSucceeded {
			bad("participant %d cannot sign with the new account addressed by share public key: %v", id, res2)
		}
		lres, accts := n.Lister.ListAccounts(ctx, creds, []string{strings.SplitN(r.Acct, "/", 2)[0]})
		found := false
		for _, a := range accts {
			found = found || a.Name() == strings.SplitN(r.Acct, "/", 2)[1]
		}
		if lres != core.ResultSucceeded || !found {
			bad("participant %d does not list the new account", id)
		}
		stats["usable.sign+list"]++
	}
	if len(sigs) != len(r.Parts) {
		return fails
	}
	var pk bls.PublicKey
	if err := pk.Deserialize(r.PubKey); err != nil {
		bad("returned public key does not parse")
		return fails
	}
	// every subset of exactly t participants recovers a valid signature; t-1 do not
	subsets := func(k int, f func([]uint64)) {
		idx := make([]int, k)
		var rec func(start, d int)
		rec = func(start, d int) {
			if d == k {
				sel := make([]uint64, k)
				for i, x := range idx {
					sel[i] = r.Parts[x]
				}
				f(sel)
				return
			}
			for i := start; i < len(r.Parts); i++ {
				idx[d] = i
				rec(i+1, d+1)
			}
		}
		rec(0, 0)
	}
	recoverSig := func(sel []uint64) bool {
		ss := make([]bls.Sign, len(sel))
		is := make([]bls.ID, len(sel))
		for i, id := range sel {
			ss[i] = sigs[id]
			is[i] = *blsID(id)
		}
		var comp bls.Sign
		if err := comp.Recover(ss, is); err != nil {
			return false
		}
		return comp.VerifyByte(&pk, root)
	}
	subsets(int(r.T), func(sel []uint64) {
		stats["subsets.t"]++
		if !recoverSig(sel) {
			bad("the partial signatures of %v do not combine into a signature valid under the composite key", sel)
		}
	})
	if r.T > 1 {
		subsets(int(r.T)-1, func(sel []uint64) {
			stats["subsets.t-1"]++
			if recoverSig(sel) {
				bad("only %d partial signatures (%v) combine into a valid signature", len(sel), sel)
			}
		})
	}
	if deep && int(r.T) < len(r.Parts) {
		subsets(int(r.T)+1, func(sel []uint64) {
			stats["subsets.t+1"]++
			if !recoverSig(sel) {
				bad("the partial signatures of %v (t+1) do not combine into a valid signature", sel)
			}
		})
	}
	return fails
}

func (a *dkgAccount) sharePub() []byte {
	sk := skFromInt(a.Share)
	return sk.GetPublicKey().Serialize()
}

// judgeFailure: a generation that reported an error after a fault in the exchange (or a refused
// request) left no account anywhere, and nothing panicked.
func judgeFailure(r *dkgRun) []string {
	var fails []string
	ctxs := fmt.Sprintf("generation %q (n=%d t=%d ids=%v initiator=%d fault=%s): ", r.Acct, r.N, r.T, r.IDs, r.Initiator, r.Fault)
	for _, p := range r.Panics {
		fails = append(fails, ctxs+"an instance panicked: "+p)
	}
	for id, a := range r.Accounts {
		if a != nil {
			fails = append(fails, ctxs+fmt.Sprintf("instance %d holds the account although the generation failed (%v)", id, r.Err))
		}
	}
	return fails
}

func cmdDkg(prop string, args []string) int {
	cf := parseCommon(prop, args, nil)
	ctx := context.Background()
	rng := NewPRNG(cf.seed)
	thorough := cf.tier == "thorough"
	stats := map[string]int{}
	var monFail, samples, lines []string
	idx := map[string]string{}
	caseID := 0
	acctN := 0
	idsets := [][]uint64{{1, 2}, {1, 2, 3}, {7, 3, 5, 11}, {2, 1 << 40, 18446744073709551615}}
	if thorough {
		idsets = append(idsets, []uint64{1, 2, 3, 4, 5}, []uint64{10, 20, 30, 40, 50, 60}, []uint64{1, 2, 3, 4, 5, 6, 7},
			[]uint64{9223372036854775807, 9223372036854775808, 18446744073709551614, 4}, []uint64{18446744073709551615, 18446744073709551614})
	}
	record := func(r *dkgRun) {
		caseID++
		lines = append(lines, r.coqCase(caseID, cf.g63))
		idx[fmt.Sprint(caseID)] = fmt.Sprintf("cluster %v initiator %d generate %q n=%d t=%d fault=%s commit-order=%v participants=%v -> err=%v panics=%v accounts on %v",
			r.IDs, r.Initiator, r.Acct, r.N, r.T, r.Fault, r.Order, r.Parts, r.Err, r.Panics, keysOf(r.Accounts))
		if len(samples) < 3 {
			samples = append(samples, idx[fmt.Sprint(caseID)])
		}
		if r.PolyErr != "" {
			monFail = append(monFail, "harness could not explain the dealt shares: "+r.PolyErr)
		}
	}
	for _, ids := range idsets {
		c, err := NewCluster(ctx, ids, 70*time.Second)
		if err != nil {
			fmt.Fprintln(os.Stderr, err)
			return 2
		}
		stats[fmt.Sprintf("cluster.n=%d", len(ids))]++
		for n := uint32(2); int(n) <= len(ids); n++ {
			if prop == "C12" {
				// every threshold, inside and outside the permitted range; every initiator
				for t := uint32(0); t <= n+1; t++ {
					inits := ids
					if !thorough && !(n/2 < t && t <= n) {
						inits = ids[:1]
					}
					for _, init := range inits {
						acctN++
						r := &dkgRun{IDs: ids, Initiator: init, N: n, T: t, Acct: fmt.Sprintf("Wallet 3/g%d", acctN), NoPass: acctN%4 == 0}
						if n/2 < t && t <= n && rng.Chance(70) {
							// a prescribed arrival order of the parallel commit replies
							r.Order = append([]uint64{}, ids...)
							for i := len(r.Order) - 1; i > 0; i-- {
								j := rng.Intn(i + 1)
								r.Order[i], r.Order[j] = r.Order[j], r.Order[i]
							}
						}
						runGeneration(ctx, c, r)
						if r.Err == nil {
							stats["generation.ok"]++
							monFail = append(monFail, judgeSuccess(ctx, c, r, stats, thorough)...)
						} else {
							stats["generation.refused"]++
							if n/2 < t && t <= n {
								monFail = append(monFail, fmt.Sprintf("generation n=%d t=%d on %v refused: %v", n, t, ids, r.Err))
							}
							monFail = append(monFail, judgeFailure(r)...)
							if len(r.Parts) > 0 {
								monFail = append(monFail, fmt.Sprintf("generation n=%d t=%d on %v: messages were sent although the threshold is not permitted", n, t, ids))
							}
						}
						record(r)
					}
				}
				continue
			}
			// C13: every message position x fault kind, for every permitted threshold
			for t := n/2 + 1; t <= n; t++ {
				var faults []dkgFault
				for pos := 1; pos <= int(n); pos++ {
					for _, k := range []string{"lost-prepare", "err-prepare", "lost-execute", "err-execute"} {
						faults = append(faults, dkgFault{Kind: k, Pos: pos})
					}
				}
				swaps := int(n) * (int(n) - 1) / 2
				for pos := 1; pos <= swaps; pos++ {
					for _, dir := range []string{"request", "reply"} {
						for _, k := range []string{"lost", "session-lost", "share-replaced", "share-other-id", "vvec-altered", "vvec-short", "vvec-long", "vvec-long-plain", "duplicate", "replay-altered"} {
							if (k == "replay-altered" || k == "session-lost") && dir == "reply" {
								continue
							}
							faults = append(faults, dkgFault{Kind: k, Pos: pos, Dir: dir})
						}
					}
				}
				for _, f := range faults {
					if !thorough && len(ids) > 2 && !rng.Chance(map[int]int{3: 45, 4: 12}[len(ids)]) && f.Kind != "vvec-long" {
						continue
					}
					if thorough && len(ids) > 4 && !rng.Chance(map[int]int{5: 30, 6: 12, 7: 6}[len(ids)]) {
						continue
					}
					acctN++
					init := ids[rng.Intn(len(ids))]
					r := &dkgRun{IDs: ids, Initiator: init, N: n, T: t, Acct: fmt.Sprintf("Wallet 3/f%d", acctN), Fault: f}
					runGeneration(ctx, c, r)
					stats["fault."+f.Kind]++
					if !r.Applied {
						stats["fault.not-reached"]++
					}
					switch {
					case f.Kind == "duplicate" || f.Kind == "replay-altered" || !r.Applied:
						// a duplicate delivery is harmless: the generation must still be a correct one
						if r.Err != nil {
							monFail = append(monFail, fmt.Sprintf("generation n=%d t=%d on %v with %s failed: %v", n, t, ids, f, r.Err))
						} else {
							monFail = append(monFail, judgeSuccess(ctx, c, r, stats, false)...)
						}
					default:
						if r.Err == nil {
							monFail = append(monFail, fmt.Sprintf("generation n=%d t=%d on %v reported success although fault %s was injected", n, t, ids, f))
						}
						monFail = append(monFail, judgeFailure(r)...)
						stats["generation.failed-as-required"]++
					}
					record(r)
				}
			}
		}
		// a commit that never reaches a participant while the initiator is handed a made-up key and confirmation
		// signature for it: the generation must not be reported as a success
		if prop == "C12" {
			n := uint32(len(ids))
			for _, t := range []uint32{n/2 + 1, n} {
				for pos := 1; pos <= int(n)-1; pos++ {
					acctN++
					r := &dkgRun{IDs: ids, Initiator: ids[(pos+int(t))%len(ids)], N: n, T: t, Acct: fmt.Sprintf("Wallet 3/g%d", acctN), Fault: dkgFault{Kind: "forged-commit", Pos: pos}}
					runGeneration(ctx, c, r)
					stats["fault.forged-commit"]++
					if r.Applied && r.Err == nil {
						monFail = append(monFail, fmt.Sprintf("generation %q (n=%d t=%d ids=%v initiator=%d) reported success although the commit never reached participant(s) %v and the confirmation handed back for them was made up",
							r.Acct, n, t, ids, r.Initiator, r.Forged))
						monFail = append(monFail, judgeSuccess(ctx, c, r, stats, false)...)
					}
				}
			}
		}
		// more participants than there are instances: refused, nothing created
		if prop == "C12" {
			n := uint32(len(ids) + 1)
			for _, t := range []uint32{n/2 + 1, n} {
				acctN++
				r := &dkgRun{IDs: ids, Initiator: ids[0], N: n, T: t, Acct: fmt.Sprintf("Wallet 3/x%d", acctN)}
				runGeneration(ctx, c, r)
				stats["generation.more-than-peers"]++
				if r.Err == nil {
					monFail = append(monFail, fmt.Sprintf("generation for %d participants reported success on a cluster of %d instances %v (threshold %d)", n, len(ids), ids, t))
					monFail = append(monFail, judgeSuccess(ctx, c, r, stats, false)...)
				} else {
					monFail = append(monFail, judgeFailure(r)...)
				}
			}
		}
		// a participant that already holds an account of the requested name (e.g. left by an earlier
		// attempt that reached only some participants): the new generation must not report success
		// with that participant holding something else
		if prop == "C12" && len(ids) >= 3 {
			for attempt := 0; attempt < 8; attempt++ {
				acctN++
				name := fmt.Sprintf("Wallet 3/s%d", acctN)
				r1 := &dkgRun{IDs: ids, Initiator: ids[0], N: 2, T: 2, Acct: name}
				runGeneration(ctx, c, r1)
				if r1.Err != nil {
					continue
				}
				var outsider uint64
				found := false
				for _, id := range ids {
					in := false
					for _, p := range r1.Parts {
						in = in || p == id
					}
					if !in {
						outsider, found = id, true
					}
				}
				if !found {
					continue
				}
				n := uint32(len(ids))
				r2 := &dkgRun{IDs: ids, Initiator: outsider, N: n, T: n/2 + 1, Acct: name, Stale: r1.Parts}
				runGeneration(ctx, c, r2)
				stats["stale-account.runs"]++
				if r2.Err == nil {
					stats["stale-account.reported-success"]++
					monFail = append(monFail, judgeSuccess(ctx, c, r2, stats, false)...)
				}
				record(r2)
				break
			}
		}
		// two generations of different names in the same wallet at the same time, from two initiators:
		// both must succeed and both accounts must be complete on every participant
		if prop == "C12" && len(ids) >= 3 {
			rounds := 2
			if thorough {
				rounds = 10
			}
			for cr := 0; cr < rounds; cr++ {
				c.mu.Lock()
				c.Tamper, c.Log, c.commitGate = nil, nil, nil
				c.mu.Unlock()
				n := uint32(len(ids))
				runs := make([]*dkgRun, 2)
				var wg sync.WaitGroup
				for i := range runs {
					acctN++
					runs[i] = &dkgRun{IDs: ids, Initiator: ids[(cr+i)%len(ids)], N: n, T: n/2 + 1, Acct: fmt.Sprintf("Wallet 3/c%d", acctN), Accounts: map[uint64]*dkgAccount{}, Polys: map[uint64][]*big.Int{}}
					wg.Add(1)
					go func(r *dkgRun) {
						defer wg.Done()
						r.PubKey, _, r.Err = c.Nodes[r.Initiator].Process.OnGenerate(ctx, &checker.Credentials{Client: "client1", IP: "10.0.0.1"}, r.Acct, []byte("pass"), r.T, r.N)
					}(runs[i])
				}
				wg.Wait()
				c.mu.Lock()
				log := append([]ClusterMsg{}, c.Log...)
				c.mu.Unlock()
				for _, r := range runs {
					for _, m := range log {
						if m.Kind == "prepare" && m.Account == r.Acct && len(r.Parts) == 0 {
							r.Parts = append([]uint64{}, m.Participants...)
						}
					}
					for _, id := range ids {
						if a := readDkgAccount(ctx, c.Nodes[id], r.Acct); a != nil {
							r.Accounts[id] = a
						}
					}
					stats["concurrent-generation.runs"]++
					if r.Err != nil {
						monFail = append(monFail, fmt.Sprintf("generation %q started at the same time as another one on %v failed: %v", r.Acct, ids, r.Err))
					} else {
						monFail = append(monFail, judgeSuccess(ctx, c, r, stats, false)...)
					}
				}
			}
		}
		c.Close(ctx)
	}
	var files []string
	const shard = 8
	for sh := 0; sh*shard < len(lines); sh++ {
		hi := (sh + 1) * shard
		if hi > len(lines) {
			hi = len(lines)
		}
		var b strings.Builder
		b.WriteString("From DV Require Import Corr.CheckDkg.\nLocal Open Scope string_scope.\nLocal Open Scope Z_scope.\n")
		fmt.Fprintf(&b, "Definition cases : list dcase := [\n%s].\n", strings.Join(lines[sh*shard:hi], ";\n"))
		b.WriteString("Definition M := Eval vm_compute in dmismatches cases.\nPrint M.\n")
		file := fmt.Sprintf("cases_%s_%d.v", prop, sh)
		if err := os.WriteFile(filepath.Join(cf.out, file), []byte(b.String()), 0o644); err != nil {
			return 2
		}
		files = append(files, file)
	}
	if prop == "C12" {
		pf, err := realTransportPrepare(ctx, stats)
		if err != nil {
			fmt.Fprintln(os.Stderr, "real transport:", err)
			return 2
		}
		monFail = append(monFail, pf...)
	}
	if prop == "C13" {
		nf, arLines, nn, err := realTransportSwaps(ctx, cf.g63, stats)
		if err != nil {
			fmt.Fprintln(os.Stderr, "real transport:", err)
			return 2
		}
		monFail = append(monFail, nf...)
		var b strings.Builder
		b.WriteString("From DV Require Import Corr.CheckDkg.\nLocal Open Scope string_scope.\nLocal Open Scope Z_scope.\n")
		fmt.Fprintf(&b, "Definition cases : list arcase := [\n%s].\n", strings.Join(arLines, ";\n"))
		b.WriteString("Definition M := Eval vm_compute in armismatches cases.\nPrint M.\n")
		if err := os.WriteFile(filepath.Join(cf.out, "cases_C13_net.v"), []byte(b.String()), 0o644); err != nil {
			return 2
		}
		files = append(files, "cases_C13_net.v")
		stats["real-transport.swaps"] = nn
	}
	rule := "clusters of real instances (identifier sets small, sparse, near 2^64), real OnGenerate at the initiator, messages delivered to the peers' real receiver handlers; "
	if prop == "C12" {
		rule += "every participant count 2..cluster size x every threshold 0..n+1 x initiators x prescribed arrival orders of the parallel commit replies; after a success every participant's stored account is read back (composite key, vector, threshold, participants, share), every participant signs and lists at once, every t-subset and (t-1)-subset of the partial signatures is combined with the real BLS library; the dealt polynomials are recovered from the dealt shares and the Coq model is run on them: result, share, threshold and participants per instance must agree"
	} else {
		rule += "for every permitted (n, t): every position of the prepare / execute / contribution (request and reply) sequence x fault kind (lost, error reply, share replaced, share for another identifier, commitment altered, vector too short, vector too long consistent with its share, vector too long, duplicate delivery); afterwards the error, every instance's wallet and any panic are observed and compared with the model run on the same dealt polynomials and the same altered messages; plus the requester's side of a swap over the REAL transport: a real instance with the real gRPC sender (TLS, protobuf) executes against a scripted peer server whose contribution replies are valid, of the wrong length, undecodable, oversized, or errors"
	}
	sum := &Summary{Property: prop, Seed: cf.seed, Tier: cf.tier, Evaluations: len(lines), Distinct: len(lines), Rule: rule,
		Histories: len(lines), Distribution: stats, Samples: samples, MonitorFailures: monFail, CaseFiles: files, CaseIndex: idx}
	if err := writeSummary(cf.out, sum); err != nil {
		return 2
	}
	return 0
}

func keysOf(m map[uint64]*dkgAccount) []uint64 {
	var out []uint64
	for k := range m {
		out = append(out, k)
	}
	sort.Slice(out, func(i, j int) bool { return out[i] < out[j] })
	return out
}
