(* C01 - no slashable attestation is ever signed for a key.
   This file holds only the statement, its closing `exact`, non-vacuity examples and the
   refutation of the legacy (pre-fix) variant. *)
From DV Require Import Model.Instance Proofs.SignerProofs Proofs.InstanceProofs Proofs.Examples Proofs.ExampleProofs.
Local Open Scope Z_scope.

(* slashable (a b : source * target) := same target, or one surrounds the other; the definition is
   in Proofs/InstanceProofs.v and repeated here for the reader:
     snd a = snd b \/ (fst a < fst b /\ snd b < snd a) \/ (fst b < fst a /\ snd a < snd b) *)

(* For every configuration with the 2^63 guard, every initial protection store, every finite
   history of requests - single and batched attestations, proposals, generic and multi signing,
   restarts; accounts addressed by name or by key; keys repeated inside a batch; any uint64
   epochs (op_ok only says numbers are >= 0 and that an injected ruler fault never says
   APPROVED); any fault schedule - and every key: the attestations released for the key have
   strictly increasing targets and non-decreasing sources, hence no two of them are slashable,
   and the stored watermark dominates them all. *)
Theorem C01_no_slashable_attestation :
  forall (c : scfg) (st0 : store) (h : list op) (k : N),
    guard63 (sc_rules c) = true -> Forall op_ok h ->
    let R := released_att k (snd (run c st0 h)) in
    let stf := fst (run c st0 h) in
    att_sorted R /\
    (forall i j a b, i <> j -> nth_error R i = Some a -> nth_error R j = Some b -> ~ slashable a b) /\
    (forall a, In a R -> fst a <= a_src (view_att stf k) /\ snd a <= a_tgt (view_att stf k)).
Proof. exact C01_main. Qed.
Print Assumptions C01_no_slashable_attestation.

(* non-vacuity: a history meeting the hypotheses in which several duties are signed for key 1,
   conflicting ones are refused, and a restart happens *)
Example C01_example :
  guard63 (sc_rules (ex_cfg true)) = true /\
  released_att 1 (snd (run (ex_cfg true) empty_store ex_history)) = [(0, 0); (0, 1); (1, 2); (2, 5)].
Proof. split; vm_compute; reflexivity. Qed.
Example C01_example_ok : Forall op_ok ex_history.
Proof. exact ex_history_ok. Qed.

(* the variant without the guard (the code before the fix) signs a double vote at target 2^63 *)
Lemma C01_refuted_legacy :
  exists h a b, Forall op_ok h /\
    released_att 1 (snd (run (ex_cfg false) empty_store h)) = [a; b] /\ slashable a b.
Proof. exact C01_legacy_witness. Qed.
