(* Concrete configurations and histories used for non-vacuity examples and refutation witnesses. *)
From DV Require Import Model.Instance.
Local Open Scope Z_scope.
Local Open Scope string_scope.

Definition ex_accounts : list acct :=
  [ {| ac_wallet := "Wallet 1"; ac_name := "Account 0"; ac_key := 1%N; ac_usable := true; ac_signer := true |};
    {| ac_wallet := "Wallet 1"; ac_name := "Account 1"; ac_key := 2%N; ac_usable := true; ac_signer := true |};
    {| ac_wallet := "Wallet 2"; ac_name := "Locked";    ac_key := 3%N; ac_usable := false; ac_signer := true |} ].

Definition ex_cfg (g : bool) : scfg :=
  {| sc_rules := {| guard63 := g; admin_ips := ["10.0.0.1"] |};
     sc_accounts := ex_accounts;
     sc_perm := fun client _ _ _ => String.eqb client "client1" |}.

Definition ex_cl : creds := {| cl_client := "client1"; cl_ip := "10.0.0.9" |}.
Definition b32 (x : N) : bytes := repeat x 32.
Definition dom_of (p : bytes) : bytes := (p ++ repeat 7%N 28)%list.

Definition ex_att (s t : Z) (root : N) : option att_data :=
  Some {| ad_dom := Some (dom_of dom_attester); ad_slot := 0; ad_index := 0; ad_bbr := Some (b32 root);
          ad_src := Some {| cp_epoch := s; cp_root := Some (b32 0) |};
          ad_tgt := Some {| cp_epoch := t; cp_root := Some (b32 root) |} |}.
Definition ex_prop (slot : Z) (root : N) : option prop_data :=
  Some {| pd_dom := Some (dom_of dom_proposer); pd_slot := slot; pd_pidx := 0;
          pd_parent := Some (b32 0); pd_state := Some (b32 root); pd_body := Some (b32 root) |}.

Definition by_name (n : string) : addr := {| ad_name := n; ad_key := None |}.
Definition by_key (k : N) : addr := {| ad_name := ""; ad_key := Some k |}.

(* several duties signed (by name, by key, in a batch), a restart, a refused double vote,
   a refused surrounded vote, a batch naming one key twice *)
Definition ex_history : list op :=
  [ OAttest ex_cl (by_name "Wallet 1/Account 0") (ex_att 0 0 1) no_ofault;
    OAttest ex_cl (by_key 1) (ex_att 0 1 1) no_ofault;
    OAttests ex_cl [(by_name "Wallet 1/Account 0", ex_att 1 2 1); (by_key 2, ex_att 1 2 1)] no_ofault;
    ORestart;
    OAttest ex_cl (by_name "Wallet 1/Account 0") (ex_att 1 2 9) no_ofault;      (* double vote: refused *)
    OAttest ex_cl (by_name "Wallet 1/Account 0") (ex_att 0 3 1) no_ofault;      (* source below: refused *)
    OAttests ex_cl [(by_key 1, ex_att 2 3 1); (by_name "Wallet 1/Account 0", ex_att 2 4 1)] no_ofault; (* same key twice *)
    OAttest ex_cl (by_key 1) (ex_att 2 5 1) no_ofault;
    OPropose ex_cl (by_key 1) (ex_prop 10 1) no_ofault;
    OPropose ex_cl (by_name "Wallet 1/Account 0") (ex_prop 10 2) no_ofault;     (* same slot: refused *)
    OPropose ex_cl (by_key 1) (ex_prop 11 1) no_ofault ].

(* the legacy double vote / double proposal at 2^63 (F1) *)
Definition ex_legacy_att : list op :=
  [ OAttest ex_cl (by_key 1) (ex_att 5 two63 1) no_ofault;
    OAttest ex_cl (by_key 1) (ex_att 5 two63 2) no_ofault ].
Definition ex_legacy_prop : list op :=
  [ OPropose ex_cl (by_key 1) (ex_prop two63 1) no_ofault;
    OPropose ex_cl (by_key 1) (ex_prop two63 2) no_ofault ].
