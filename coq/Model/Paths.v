(* Where the daemon looks for its files (util.ResolvePath, used by main.go for the storage path of the
   slashing-protection store and for the log file): an absolute path as it stands; a relative one under
   the configured base directory, or under the user's home directory when none is configured.
   The working directory of the process is part of the environment and is NOT consulted.
   Modelled for clean paths (no "." / ".." elements, no doubled or trailing separators): filepath.Join's
   cleaning of other paths is Go's library and not modelled. *)
From Coq Require Export String List Bool Ascii.
Export ListNotations.
Local Open Scope string_scope.

Record penv := { pe_cwd : string;    (* working directory of the process *)
                 pe_home : string;   (* the user's home directory *)
                 pe_base : string }. (* configured base-dir, "" = not configured *)

Definition is_abs (p : string) : bool :=
  match p with String c _ => Ascii.eqb c "/"%char | EmptyString => false end.

Definition join (b p : string) : string :=
  if String.eqb b "/" then "/" ++ p else b ++ "/" ++ p.

Definition resolve_path (e : penv) (p : string) : string :=
  if is_abs p then p
  else join (if String.eqb (pe_base e) "" then pe_home e else pe_base e) p.

(* variant: no home directory known -> fall back to the working directory *)
Definition resolve_path_cwd_fallback (home_known : bool) (e : penv) (p : string) : string :=
  if is_abs p then p
  else join (if String.eqb (pe_base e) "" then (if home_known then pe_home e else pe_cwd e) else pe_base e) p.
