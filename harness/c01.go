package main

import (
	"bytes"
	"context"
	"encoding/binary"
	"flag"
	"fmt"
	standardrules "github.com/attestantio/dirk/rules/standard"
	"os"
	"path/filepath"
	"runtime"
	"sort"
	"strings"
	"time"

	dirkutil "github.com/attestantio/dirk/util"
	"github.com/mitchellh/go-homedir"
	"github.com/spf13/viper"
)

type commonFlags struct {
	seed uint64
	tier string
	out  string
	g63  bool
}

func parseCommon(name string, args []string, extra func(fs *flag.FlagSet)) *commonFlags {
	fs := flag.NewFlagSet(name, flag.ExitOnError)
	cf := &commonFlags{}
	fs.Uint64Var(&cf.seed, "seed", 1, "PRNG seed")
	fs.StringVar(&cf.tier, "tier", "quick", "quick|thorough")
	fs.StringVar(&cf.out, "out", ".", "output directory")
	fs.BoolVar(&cf.g63, "g63", true, "model variant: epochs above MaxInt64 refused")
	if extra != nil {
		extra(fs)
	}
	_ = fs.Parse(args)
	_ = os.MkdirAll(cf.out, 0o755)
	if abs, err := filepath.Abs(cf.out); err == nil {
		// far above anything a request needs, also on a loaded machine: the limit only decides how soon a hang is reported
		limit := 300 * time.Second
		if cf.tier == "thorough" {
			limit = 1200 * time.Second
		}
		watchInit(abs, limit)
	}
	return cf
}

func encodeAtt(s, t int64) []byte {
	b := make([]byte, 17)
	b[0] = 1
	binary.LittleEndian.PutUint64(b[1:9], uint64(s))
	binary.LittleEndian.PutUint64(b[9:17], uint64(t))
	return b
}

func encodeProp(s int64) []byte {
	b := make([]byte, 9)
	b[0] = 1
	binary.LittleEndian.PutUint64(b[1:9], uint64(s))
	return b
}

func recKey(pub []byte, action byte) []byte {
	k := make([]byte, 49)
	copy(k, pub)
	k[48] = action
	return k
}

// cmdSlashing drives attestation / proposal histories and the rule-kernel region sweep
// (properties C01 and C02; prop selects the mix and the monitor).
func cmdSlashing(prop string, args []string) int {
	var histOnly *string
	cf := parseCommon(prop, args, func(fs *flag.FlagSet) { histOnly = fs.String("replay", "", "replay file (json) to re-run") })
	_ = histOnly
	ctx := context.Background()
	fx, err := NewFixture(ctx, 2, 3, true)
	if err != nil {
		fmt.Fprintln(os.Stderr, "fixture:", err)
		return 2
	}
	rng := NewPRNG(cf.seed)
	run := &Runner{ctx: ctx, fx: fx, stats: map[string]int{}}
	nHist, nOps, sweepN := 40, 40, 600
	if cf.tier == "thorough" {
		nHist, nOps, sweepN = 400, 60, 1<<30
	}
	propShare := 10
	if prop == "C02" {
		propShare = 60
	}
	adminIPs := []string{"10.0.0.1"}
	mon := newSlashingMonitor()
	var monFail []string
	samples := []string{}
	for h := 0; h < nHist; h++ {
		inst, err := run.newInstance(adminIPs)
		if err != nil {
			fmt.Fprintln(os.Stderr, "instance:", err)
			return 2
		}
		g := newGenState(fx, rng.Fork())
		hm := newSlashingMonitor()
		// every third history runs with one or two processors: a batch of four entries is then spread over
		// workers that each handle several entries
		oldProcs := 0
		if h%3 == 1 {
			oldProcs = runtime.GOMAXPROCS(1 + (h/3)%2)
		}
		for i := 0; i < nOps; i++ {
			op := g.genSlashingOp(propShare)
			rec, err := run.execStep(inst, h, i, op)
			if err != nil {
				fmt.Fprintln(os.Stderr, "exec:", err)
				inst.Close(ctx)
				return 2
			}
			g.noteSigned(op, rec.Obs, inst)
			hm.note(inst, rec)
			if h == 0 && i < 6 {
				samples = append(samples, describeStep(rec))
			}
		}
		if oldProcs != 0 {
			runtime.GOMAXPROCS(oldProcs)
		}
		for k, v := range g.stats {
			run.stats["gen."+k] += v
		}
		if prop == "C01" {
			monFail = append(monFail, hm.attViolations()...)
		} else {
			monFail = append(monFail, hm.propViolations()...)
		}
		inst.Close(ctx)
	}
	_ = mon
	idx := map[string]string{}
	pf, pathFiles := storageLocationProbe(prop, cf.out, run.stats, idx)
	monFail = append(monFail, pf...)
	// region sweep of the rule kernel against hand-set stored records
	sweepCount, err := regionSweep(ctx, run, fx, rng, prop, sweepN, &monFail)
	if err != nil {
		fmt.Fprintln(os.Stderr, "sweep:", err)
		return 2
	}
	files, err := writeInstCases(cf.out, prop, "check_safe", cf.g63, adminIPs, fx, run.steps, 1500)
	if err != nil {
		fmt.Fprintln(os.Stderr, "emit:", err)
		return 2
	}
	files = append(files, pathFiles...)
	distinct := map[string]bool{}
	for i := range run.steps {
		st := &run.steps[i]
		idx[fmt.Sprint(st.ID)] = describeStep(st)
		distinct[fmt.Sprintf("%s|%s|%v", st.Op.String(), fmtStore(st.Pre), coqObs(st.Obs))] = true
	}
	sum := &Summary{Property: prop, Seed: cf.seed, Tier: cf.tier, Evaluations: len(run.steps), Distinct: len(distinct),
		Rule:         "steps of generated histories (about 70% advancing duties, 30% adversarial: same target, surrounding/surrounded, lower source, alphabet edges around 2^63 and 2^64; single and batched, by name/key/both, 10% of batches repeat a key; restarts) plus the region sweep of the rule kernel over hand-set stored records; distinct = distinct (request, pre-state, response) triples",
		Histories:    nHist,
		Distribution: run.stats, Samples: samples, MonitorFailures: monFail, CaseFiles: files, CaseIndex: idx,
		Extra: map[string]any{"sweep_cases": sweepCount}}
	if err := writeSummary(cf.out, sum); err != nil {
		fmt.Fprintln(os.Stderr, "summary:", err)
		return 2
	}
	return 0
}

// regionSweep: every order type among stored source/target, request source/target, 0 and 2^63.
func regionSweep(ctx context.Context, run *Runner, fx *Fixture, rng *PRNG, prop string, limit int, monFail *[]string) (int, error) {
	inst, err := run.newInstance([]string{"10.0.0.1"})
	if err != nil {
		return 0, err
	}
	defer inst.Close(ctx)
	stored := []int64{-1, 0, 1, 2, 3, 1<<63 - 2, 1<<63 - 1}
	reqv := []uint64{0, 1, 2, 3, 4, 1<<63 - 2, 1<<63 - 1, 1 << 63, 1<<63 + 1, 1<<64 - 1}
	a := fx.Accounts[0]
	b := fx.Accounts[1]
	type c4 struct {
		ss, st int64
		rs, rt uint64
	}
	var all []c4
	if prop == "C01" {
		for _, ss := range stored {
			for _, st := range stored {
				for _, rs := range reqv {
					for _, rt := range reqv {
						all = append(all, c4{ss, st, rs, rt})
					}
				}
			}
		}
	} else {
		for _, st := range stored {
			for _, rt := range reqv {
				all = append(all, c4{0, st, 0, rt}, c4{1, st, 0, rt}) // ss = 1: the stored record in the legacy format
			}
		}
	}
	// deterministic shuffle, then take the first 'limit'
	sort.SliceStable(all, func(i, j int) bool { return false })
	for i := len(all) - 1; i > 0; i-- {
		j := rng.Intn(i + 1)
		all[i], all[j] = all[j], all[i]
	}
	if len(all) > limit {
		all = all[:limit]
	}
	n := 0
	for ci, c := range all {
		hm := newSlashingMonitor()
		if prop == "C01" {
			recA := encodeAtt(c.ss, c.st)
			if ci%4 == 3 {
				recA = gobBytes(&signBeaconAttestationState{SourceEpoch: c.ss, TargetEpoch: c.st}) // as written by early releases
			}
			if err := inst.Rules.VerifPutRaw(ctx, recKey(a.Key, 2), recA); err != nil {
				return n, err
			}
			var op *Op
			if ci%3 == 2 {
				// through the batch path, together with an advancing duty of another key
				bs, bt := uint64(ci), uint64(ci)+1
				op = &Op{Kind: KAttests, Client: "client1", IP: "10.0.0.1",
					Addrs: []Addr{{Key: b.Key, KeyID: b.ID, HasKey: true}, {Name: a.Path()}},
					Atts: []AttData{
						{Dom: mkDomain(domAttester, 0), BBR: fill32(1), Src: &Checkpoint{bs, fill32(0)}, Tgt: &Checkpoint{bt, fill32(1)}},
						{Dom: mkDomain(domAttester, 0), BBR: fill32(1), Src: &Checkpoint{c.rs, fill32(0)}, Tgt: &Checkpoint{c.rt, fill32(1)}}}}
			} else {
				op = &Op{Kind: KAttest, Client: "client1", IP: "10.0.0.1", Addrs: []Addr{{Name: a.Path()}},
					Atts: []AttData{{Dom: mkDomain(domAttester, 0), BBR: fill32(1), Src: &Checkpoint{c.rs, fill32(0)}, Tgt: &Checkpoint{c.rt, fill32(1)}}}}
			}
			rec, err := run.execStep(inst, -1, ci, op)
			if err != nil {
				return n, err
			}
			// the same request again with another root must never be signed a second time
			op2 := *op
			op2.Atts = append([]AttData{}, op.Atts...)
			last := len(op2.Atts) - 1
			d := op2.Atts[last]
			d.BBR = fill32(2)
			d.Tgt = &Checkpoint{c.rt, fill32(2)}
			op2.Atts[last] = d
			if op.Kind == KAttests {
				op2.Addrs = op.Addrs[1:]
				op2.Atts = op2.Atts[1:]
				op2.Kind = KAttest
			}
			rec2, err := run.execStep(inst, -1, ci, &op2)
			if err != nil {
				return n, err
			}
			hm.note(inst, rec)
			hm.note(inst, rec2)
			*monFail = append(*monFail, hm.attViolations()...)
			n += 2
		} else {
			recP := encodeProp(c.st)
			if c.ss == 1 {
				recP = gobBytes(&signBeaconProposalState{Slot: c.st}) // as written by early releases
			}
			if err := inst.Rules.VerifPutRaw(ctx, recKey(a.Key, 3), recP); err != nil {
				return n, err
			}
			mk := func(root byte) *Op {
				return &Op{Kind: KPropose, Client: "client1", IP: "10.0.0.1", Addrs: []Addr{{Name: a.Path()}},
					Props: []PropData{{Dom: mkDomain(domProposer, 0), Slot: c.rt, Pidx: 1, Parent: fill32(0), State: fill32(root), Body: fill32(root)}}}
			}
			rec, err := run.execStep(inst, -1, ci, mk(1))
			if err != nil {
				return n, err
			}
			rec2, err := run.execStep(inst, -1, ci, mk(2))
			if err != nil {
				return n, err
			}
			hm.note(inst, rec)
			hm.note(inst, rec2)
			*monFail = append(*monFail, hm.propViolations()...)
			n += 2
		}
	}
	// one store, one instance: while this instance is running, a second one cannot open its store (it would not see
	// the watermarks written from now on)
	if second, err := standardrules.New(ctx, standardrules.WithStoragePath(inst.Dir)); err == nil {
		*monFail = append(*monFail, fmt.Sprintf("a second rules service opened the store directory %s of a running instance: two instances on one storage path do not see each other's watermarks", inst.Dir))
		_ = second.Close(ctx)
	} else {
		run.stats["sweep.second-instance-refused"]++
	}
	// histories across an upgrade: what a key signed under an early release (records in the legacy format) still
	// binds it afterwards
	c := fx.Accounts[2]
	for vi, v := range []uint64{0, 1, 5, 1 << 40, 1<<64 - 1} {
		genesis := v == 1<<64-1 // the last round: the very first vote, 0 -> 0 (slot 0 for proposals)
		if genesis {
			v = 0
		}
		hm := newSlashingMonitor()
		_ = inst.Rules.VerifPutRaw(ctx, recKey(c.Key, 2), encodeAtt(-1, -1))
		_ = inst.Rules.VerifPutRaw(ctx, recKey(c.Key, 3), encodeProp(-1))
		mk := func(root byte) *Op {
			if prop == "C01" {
				return &Op{Kind: KAttest, Client: "client1", IP: "10.0.0.1", Addrs: []Addr{{Name: c.Path()}},
					Atts: []AttData{{Dom: mkDomain(domAttester, 0), BBR: fill32(root), Src: &Checkpoint{v, fill32(0)}, Tgt: &Checkpoint{v + map[bool]uint64{true: 0, false: 1}[genesis], fill32(root)}}}}
			}
			return &Op{Kind: KPropose, Client: "client1", IP: "10.0.0.1", Addrs: []Addr{{Name: c.Path()}},
				Props: []PropData{{Dom: mkDomain(domProposer, 0), Slot: v, Pidx: 1, Parent: fill32(0), State: fill32(root), Body: fill32(root)}}}
		}
		rec, err := run.execStep(inst, -2, vi, mk(1))
		if err != nil {
			return n, err
		}
		hm.note(inst, rec)
		// the upgrade seen backwards: the records of the store, same values, in the legacy encoding
		raw, err := inst.Rules.VerifRaw(ctx)
		if err != nil {
			return n, err
		}
		for k, val := range raw {
			if !bytes.Equal(k[:48], c.Key) || len(val) == 0 || val[0] != 1 {
				continue
			}
			switch {
			case k[48] == 2 && len(val) == 17:
				_ = inst.Rules.VerifPutRaw(ctx, k[:], gobBytes(&signBeaconAttestationState{
					SourceEpoch: int64(binary.LittleEndian.Uint64(val[1:9])), TargetEpoch: int64(binary.LittleEndian.Uint64(val[9:17]))}))
			case k[48] == 3 && len(val) == 9:
				_ = inst.Rules.VerifPutRaw(ctx, k[:], gobBytes(&signBeaconProposalState{Slot: int64(binary.LittleEndian.Uint64(val[1:9]))}))
			}
		}
		rec2, err := run.execStep(inst, -2, vi, mk(2))
		if err != nil {
			return n, err
		}
		hm.note(inst, rec2)
		if prop == "C01" {
			*monFail = append(*monFail, hm.attViolations()...)
		} else {
			*monFail = append(*monFail, hm.propViolations()...)
		}
		n += 2
		run.stats["sweep.legacy-histories"]++
	}
	run.stats["sweep.cases"] = n
	return n, nil
}

// storageLocationProbe: the watermarks survive a restart only if the daemon finds its store again.  main.go opens
// the store at util.ResolvePath(storage-path): the real function is run for working directories x $HOME set or
// not x base-dir x paths; the results go to the model (Paths.resolve_path) as cases_<prop>_paths.v, and - model
// independent - the location for the default (relative) storage path must not depend on the working directory.
func storageLocationProbe(prop, out string, stats map[string]int, idx map[string]string) (fails []string, files []string) {
	home, hadHome := os.LookupEnv("HOME")
	cwd, err := os.Getwd()
	if err != nil {
		return nil, nil
	}
	oldBase := viper.GetString("base-dir")
	homedir.DisableCache = true // every daemon start determines the home directory afresh
	defer func() {
		homedir.DisableCache = false
		viper.Set("base-dir", oldBase)
		if hadHome {
			_ = os.Setenv("HOME", home)
		}
		_ = os.Chdir(cwd)
		if x := recover(); x != nil {
			stats["storage-location.no-home-directory"]++
			fails, files = nil, nil
		}
	}()
	var cases []string
	id := 9000000
	dirs := []string{"/", os.TempDir()}
	for _, unset := range []bool{false, true} {
		if unset {
			_ = os.Unsetenv("HOME")
		}
		homeNow, err := homedir.Dir() // go-homedir itself (trusted): environment, else the password database
		if err != nil {
			panic(err)
		}
		for _, base := range []string{"", "/var/lib/dirk", "/"} {
			viper.Set("base-dir", base)
			for _, path := range []string{"storage", "/abs/storage", "a/b", "wallets", "dirk.log"} {
				var got []string
				for _, dir := range dirs {
					if err := os.Chdir(dir); err != nil {
						panic(err)
					}
					g := dirkutil.ResolvePath(path)
					got = append(got, g)
					id++
					cases = append(cases, fmt.Sprintf(" PC %s %s %s %s %s %s", coqN(id), coqStr(dir), coqStr(homeNow), coqStr(base), coqStr(path), coqStr(g)))
					idx[fmt.Sprint(id)] = fmt.Sprintf("ResolvePath(%q) started in %s, HOME set: %v, base-dir %q = %q", path, dir, !unset, base, g)
					stats["storage-location.probes"]++
				}
				if got[0] != got[1] && path == "storage" {
					fails = append(fails, fmt.Sprintf("restart from another directory (HOME set: %v, base-dir %q): the slashing-protection store for storage-path %q is opened at %q when started in %s and at %q when started in %s; the watermarks of the first run are not seen by the second",
						!unset, base, path, got[0], dirs[0], got[1], dirs[1]))
				}
			}
		}
	}
	var b strings.Builder
	b.WriteString("From DV Require Import Corr.CheckPaths.\nLocal Open Scope string_scope.\n")
	fmt.Fprintf(&b, "Definition pcases : list pcase := [\n%s].\n", strings.Join(cases, ";\n"))
	b.WriteString("Definition M := Eval vm_compute in path_mismatches pcases.\nPrint M.\n")
	name := "cases_" + prop + "_paths.v"
	if err := os.WriteFile(filepath.Join(out, name), []byte(b.String()), 0o644); err != nil {
		panic(err)
	}
	return fails, []string{name}
}
