package main

import "fmt"

func dispatch(cmd string, args []string) int {
	switch cmd {
	case "C01", "C02":
		return cmdSlashing(cmd, args)
	default:
		fmt.Println("unknown command", cmd)
		return 2
	}
}
