(* C11: exported data is faithful; export -> import into an empty store preserves every record;
   stores with equal decoded views take the same decisions. *)
From DV Require Import Model.InstanceI Proofs.AssocFacts Proofs.RulesProofs Proofs.RulerProofs Proofs.SignerProofs
  Proofs.InstanceProofs Proofs.LiveProofs Proofs.InterchangeProofs.
From Coq Require Import Lia.
Local Open Scope Z_scope.

(* ---- (a) the record of a key after a well-formed history is exactly its last = highest duty ---- *)

Lemma C11_export_faithful_main :
  forall (c : scfg) (h : list op) (k : N),
    guard63 (sc_rules c) = true -> cfg_wf c -> Forall op_wf h ->
    let stf := fst (run c empty_store h) in
    let R := released_att k (snd (run c empty_store h)) in
    let P := released_prop k (snd (run c empty_store h)) in
    (R = [] -> view_att stf k = anone) /\
    (R <> [] -> In (a_src (view_att stf k), a_tgt (view_att stf k)) R) /\
    (forall p, In p R -> fst p <= a_src (view_att stf k) /\ snd p <= a_tgt (view_att stf k)) /\
    (P = [] -> view_prop stf k = -1) /\
    (P <> [] -> In (view_prop stf k) P) /\
    (forall z, In z P -> z <= view_prop stf k).
Proof.
  intros c h k G Hc HF stf R P.
  assert (HFok : Forall op_ok h) by (eapply Forall_impl; [|exact HF]; apply op_wf_ok).
  destruct (run_exact c h G Hc HF empty_store k) as [EA EP]. fold stf R P in EA, EP.
  destruct (run_att_inv c h G HFok empty_store k) as (_ & DA & _). fold stf R in DA.
  destruct (run_prop_inv c h G HFok empty_store k) as (_ & DP & _). fold stf P in DP.
  repeat split.
  - intros HR. destruct EA as [EA|EA]; [exact EA|]. rewrite HR in EA. contradiction.
  - intros HR. destruct EA as [EA|EA]; [|exact EA]. exfalso.
    destruct R as [|p R']; [congruence|]. destruct (DA p (or_introl eq_refl)) as (_ & _ & H0 & _ & H5 & _).
    rewrite EA in H5. cbn in H5. lia.
  - apply DA; auto.
  - apply DA; auto.
  - intros HP. destruct EP as [EP|EP]; [exact EP|]. rewrite HP in EP. contradiction.
  - intros HP. destruct EP as [EP|EP]; [|exact EP]. exfalso.
    destruct P as [|p P']; [congruence|]. destruct (DP p (or_introl eq_refl)) as (_ & H0 & H5).
    rewrite EP in H5. cbn in H5. lia.
  - apply DP; auto.
Qed.

(* ---- (c) export, then import into an empty store ---- *)

Definition wf_sp (v : sp) : Prop :=
  (sp_slot v = -1 \/ 0 <= sp_slot v) /\
  ((sp_src v = -1 /\ sp_tgt v = -1) \/ (0 <= sp_src v /\ 0 <= sp_tgt v)).
Definition wf_store (st : store) : Prop := forall k, wf_sp (export_view st k).

Lemma in_dedup l k : In k (dedup l) <-> In k l.
Proof.
  induction l as [|x l IH]; cbn; [tauto|].
  destruct (existsb (N.eqb x) l) eqn:E.
  - rewrite IH. split; auto. intros [<-|H]; auto.
    apply existsb_exists in E. destruct E as (y & Hy & He). apply N.eqb_eq in He. now subst.
  - cbn. rewrite IH. tauto.
Qed.

Lemma nodup_dedup l : NoDup (dedup l).
Proof.
  induction l as [|x l IH]; cbn; [constructor|].
  destruct (existsb (N.eqb x) l) eqn:E; auto.
  constructor; auto. rewrite in_dedup. intros Hin.
  assert (existsb (N.eqb x) l = true) by (apply existsb_exists; exists x; split; auto; apply N.eqb_refl). congruence.
Qed.

Lemma existing_empty k : existing empty_store k = None.
Proof. reflexivity. Qed.

Lemma num_ok_nonneg c z : 0 <= z -> num_ok c z = true.
Proof. intros H. unfold num_ok. replace (z <? 0) with false by (symmetry; apply Z.ltb_ge; lia). now rewrite andb_false_r. Qed.

Lemma entry_values c st k : merge_fieldwise c = true -> wf_sp (export_view st k) ->
  max_atts c (fe_atts (export_entry st k)) (-1) (-1) = Some (sp_src (export_view st k), sp_tgt (export_view st k)) /\
  max_blocks c (fe_blocks (export_entry st k)) (-1) = Some (sp_slot (export_view st k)).
Proof.
  intros _ [Hs Ha]. unfold export_entry. cbn [fe_atts fe_blocks]. set (v := export_view st k) in *. split.
  - destruct (Z.eqb_spec (sp_src v) (-1)) as [E|E].
    + destruct Ha as [[_ Ht]|[H0 _]]; [|lia]. cbn [max_atts]. now rewrite E, Ht.
    + destruct Ha as [[H _]|[H0 H1]]; [congruence|]. cbn [max_atts].
      rewrite !num_ok_nonneg by assumption. cbn [andb].
      replace (-1 <? sp_src v) with true by (symmetry; apply Z.ltb_lt; lia).
      replace (-1 <? sp_tgt v) with true by (symmetry; apply Z.ltb_lt; lia). reflexivity.
  - destruct (Z.eqb_spec (sp_slot v) (-1)) as [E|E].
    + cbn [max_blocks]. now rewrite E.
    + destruct Hs as [H|H]; [congruence|]. cbn [max_blocks]. rewrite num_ok_nonneg by assumption.
      replace (-1 <? sp_slot v) with true by (symmetry; apply Z.ltb_lt; lia). reflexivity.
Qed.

Lemma sp_eta v : {| sp_slot := sp_slot v; sp_src := sp_src v; sp_tgt := sp_tgt v |} = v.
Proof. now destruct v. Qed.

Lemma build_map_export c st : merge_fieldwise c = true -> wf_store st -> forall ks m,
  NoDup ks -> (forall k, In k ks -> lookup k m = None) ->
  exists m', build_map c empty_store (map (export_entry st) ks) m = Some m' /\
    NoDup (map fst m') = NoDup (map fst m') /\
    (forall k, lookup k m' = if existsb (N.eqb k) ks then Some (export_view st k) else lookup k m).
Proof.
  intros Hm Hwf. induction ks as [|k ks IH]; intros m ND Hfresh.
  - exists m. cbn. auto.
  - inversion ND as [|? ? Hnin ND']; subst. cbn [map build_map].
    assert (Hk : fe_key (export_entry st k) = Some k) by reflexivity. rewrite Hk.
    destruct (entry_values c st k Hm (Hwf k)) as [-> ->]. rewrite Hm, sp_eta.
    rewrite (Hfresh k (or_introl eq_refl)), existing_empty.
    destruct (IH (insert k (export_view st k) m) ND') as (m' & Hb & _ & Hl).
    { intros k' Hk'. assert (Hne : k <> k') by (intros ->; contradiction).
      rewrite (lookup_insert_neq m k k' _ Hne). apply Hfresh. now right. }
    exists m'. split; [exact Hb|]. split; [reflexivity|].
    intros k'. rewrite Hl. cbn [existsb]. destruct (existsb (N.eqb k') ks) eqn:E.
    + now rewrite orb_true_r.
    + rewrite orb_false_r. rewrite lookup_insert. rewrite (N.eqb_sym k' k). destruct (N.eqb_spec k k') as [->|]; reflexivity.
Qed.

Lemma apply_none_wf v : wf_sp v -> apply_sp sp_none v = v.
Proof.
  intros [Hs Ha]. unfold apply_sp, sp_none; cbn. destruct v as [sl sr tg]; cbn in *.
  destruct (Z.eqb_spec sl (-1)); destruct (Z.eqb_spec sr (-1)); subst; try reflexivity.
  - destruct Ha as [[_ ->]|[H _]]; [reflexivity|lia].
  - destruct Ha as [[_ ->]|[H _]]; [reflexivity|lia].
Qed.

Lemma nodup_keys_of_build c st l : forall m m', NoDup (map fst m) -> merge_fieldwise c = true ->
  build_map c st l m = Some m' -> NoDup (map fst m').
Proof.
  induction l as [|e l IH]; intros m m' ND Hm; cbn [build_map].
  - intros H; now injection H as <-.
  - destruct (fe_key e); [|discriminate]. destruct (max_atts _ _ _ _) as [[s t]|]; [|discriminate].
    destruct (max_blocks _ _ _); [|discriminate]. rewrite Hm. apply IH; auto. now apply nodup_insert.
Qed.

Lemma C11_roundtrip_main :
  forall ic st, merge_fieldwise ic = true -> ic_gvr ic <> ""%string -> ic_gvr_ok ic = true -> wf_store st ->
    exists st', import_cmd ic empty_store (export_cmd (ic_gvr ic) st) = IOk st' /\
                forall k, export_view st' k = export_view st k.
Proof.
  intros ic st Hm Hg Hok Hwf. unfold import_cmd, export_cmd. cbn [if_meta if_data].
  cbn [String.eqb Ascii.eqb Bool.eqb negb].
  destruct (String.eqb_spec (ic_gvr ic) ""); [contradiction|]. rewrite Hok. cbn [negb]. rewrite String.eqb_refl. cbn [negb].
  destruct (build_map_export ic st Hm Hwf (dedup (export_keys st)) [] (nodup_dedup _) (fun _ _ => eq_refl)) as (m' & Hb & _ & Hl).
  rewrite Hb. eexists. split; [reflexivity|].
  intros k. rewrite import_rules_view.
  2:{ eapply nodup_keys_of_build; [|exact Hm|exact Hb]. constructor. }
  rewrite Hl. destruct (existsb (N.eqb k) (dedup (export_keys st))) eqn:E.
  - change (export_view empty_store k) with sp_none. now apply apply_none_wf.
  - cbn [lookup]. change (export_view empty_store k) with sp_none. symmetry. apply not_in_keys_view.
    unfold existing. destruct (existsb (N.eqb k) (export_keys st)) eqn:E2; auto.
    apply existsb_exists in E2. destruct E2 as (y & Hy & He). apply N.eqb_eq in He. subst y.
    assert (existsb (N.eqb k) (dedup (export_keys st)) = true).
    { apply existsb_exists. exists k. split; [now apply in_dedup|apply N.eqb_refl]. }
    congruence.
Qed.

(* well-formed histories keep the store well-formed *)
Lemma wf_store_empty : wf_store empty_store.
Proof. intros k. unfold wf_sp; cbn. lia. Qed.

Lemma run_wf_store c h : guard63 (sc_rules c) = true -> cfg_wf c -> Forall op_wf h ->
  forall st, wf_store st -> wf_store (fst (run c st h)).
Proof.
  intros G Hc. induction h as [|o h IH]; intros HF st Hwf; [exact Hwf|].
  inversion HF as [|? ? Hw HF']; subst. rewrite run_cons.
  destruct (step c st o) as [rs st1] eqn:Es.
  assert (Hwf1 : wf_store st1).
  { intros k. destruct (step_quiet c st o rs st1 k G Hc Hw Es) as [QA QP].
    destruct (step_rel c st o rs st1 k G (op_wf_ok _ Hw) Es) as [[_ HA] [_ HP]].
    destruct (Hwf k) as [Ws Wa]. unfold wf_sp, export_view in *; cbn [sp_slot sp_src sp_tgt] in *. split.
    - destruct HP as [HP|(s & _ & Hv & _ & H0 & _)]; [rewrite (QP HP); exact Ws|rewrite Hv; now right].
    - destruct HA as [HA|(s & t & _ & Hv & _ & _ & H0 & _ & H1 & _)]; [rewrite (QA HA); exact Wa|rewrite Hv; cbn; now right]. }
  specialize (IH HF' st1 Hwf1). destruct (run c st1 h); exact IH.
Qed.

From DV Require Import Proofs.ViewCongr Model.Codec Proofs.CodecProofs.

Lemma export_view_same st st' : (forall k, export_view st' k = export_view st k) -> same_view st st'.
Proof.
  intros H. split; intros k; specialize (H k); unfold export_view in H; injection H as H1 H2 H3.
  - destruct (view_att st' k), (view_att st k); cbn in *; congruence.
  - exact H1.
Qed.

Lemma C11_same_decisions_main :
  forall (c : scfg) (ic : icfg) (h : list op),
    guard63 (sc_rules c) = true -> cfg_wf c -> Forall op_wf h ->
    merge_fieldwise ic = true -> ic_gvr ic <> ""%string -> ic_gvr_ok ic = true ->
    let st := fst (run c empty_store h) in
    exists st', import_cmd ic empty_store (export_cmd (ic_gvr ic) st) = IOk st' /\
                (forall k, export_view st' k = export_view st k) /\
                forall later, snd (run c st later) = snd (run c st' later).
Proof.
  intros c ic h G Hc HF Hm Hg Hok st.
  assert (Hwf : wf_store st) by (apply run_wf_store; auto; apply wf_store_empty).
  destruct (C11_roundtrip_main ic st Hm Hg Hok Hwf) as (st' & Hi & Hv).
  exists st'. split; [exact Hi|]. split; [exact Hv|].
  intros later. apply run_congr. now apply export_view_same.
Qed.

Lemma C11_codec_main :
  (forall gob a, i64 (a_src a) -> i64 (a_tgt a) -> decode_att gob (encode_att a) = Some a) /\
  (forall gob s, i64 s -> decode_prop gob (encode_prop s) = Some s) /\
  (forall gob x r, x <> 1%N -> decode_att gob (x :: r) = gob (x :: r)).
Proof.
  split; [exact att_codec_roundtrip|]. split; [exact prop_codec_roundtrip|].
  intros gob x r Hx. unfold decode_att. destruct x as [|p]; [reflexivity|].
  destruct p; try reflexivity. congruence.
Qed.
