(* The gRPC receiver handlers (services/api/grpc/handlers/receiver/*.go): each first maps the
   authenticated caller name to a peer identifier (helpers.go senderID; 0 = not a peer) and refuses
   "unknown sender" without calling the process service; otherwise it forwards to the session table
   with that identifier as the sender.  No proofs in this file. *)
From DV Require Export Model.Session Model.Dkg.

Inductive rmsg :=
| RPrepare (a : string) (threshold : nat) (parts : list N)
| RExecute (a : string) (swapped : list N) (ok : bool)
| RContribute (a : string) (valid : bool)           (* the sender is the AUTHENTICATED caller, not a field *)
| RCommit (a : string) (store_ok : bool)
| RAbort (a : string).

Definition to_event (sid : N) (m : rmsg) : sevent :=
  match m with
  | RPrepare a t ps => SPrepare a t ps
  | RExecute a sw ok => SExecute a sw ok
  | RContribute a v => SContribute a sid v
  | RCommit a ok => SCommit a ok
  | RAbort a => SAbort a
  end.

(* None = refused as unknown sender *)
Definition receive (peers : list (N * string)) (p : pstate) (name : option string) (m : rmsg) : option serr * pstate :=
  let sid := sender_id peers name in
  if N.eqb sid 0 then (None, p)
  else let '(x, p') := sstep_ev p (to_event sid m) in (Some x, p').

(* a handler-level history: clock advances and received messages with the caller's name *)
Inductive hevent := HAdvance (dt : nat) | HRecv (name : option string) (m : rmsg).

Fixpoint hrun (peers : list (N * string)) (p : pstate) (h : list hevent) : pstate * list (option serr) :=
  match h with
  | [] => (p, [])
  | HAdvance dt :: r => hrun peers (snd (sstep_ev p (SAdvance dt))) r
  | HRecv name m :: r =>
      let '(x, p1) := receive peers p name m in let '(pf, out) := hrun peers p1 r in (pf, x :: out)
  end.
