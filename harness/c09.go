package main

import (
	"context"
	"fmt"
	"github.com/attestantio/dirk/services/checker"
	pb "github.com/wealdtech/eth2-signer-api/pb/v1"
	e2wtypes "github.com/wealdtech/go-eth2-wallet-types/v2"
	"os"
	"path/filepath"
	"runtime"
	"sort"
	"strings"
	"sync"
	"time"

	"github.com/attestantio/dirk/core"
	"github.com/attestantio/dirk/util"
)

// cmdLive drives C09: (a) advancing, well-formed, authorised duties must be signed;
// (b) a batch over distinct keys equals its entries one at a time (twin instances), for many
// sizes and degrees of parallelism; (c) util.Scatter's extents equal the model's.
func cmdLive(args []string) int {
	cf := parseCommon("C09", args, nil)
	ctx := context.Background()
	nW, perW := 8, 8
	sizes := []int{1, 2, 3, 4, 5, 7, 8, 9, 15, 16, 17, 31, 33, 63, 64}
	procs := []int{1, 2, 3, 4, 5, 8, 16, 128}
	nHist, nOps := 12, 40
	maxN, maxP := 200, []int{1, 2, 3, 4, 5, 7, 8, 16, 64, 128}
	if cf.tier == "thorough" {
		nW, perW = 10, 30
		sizes = append(sizes, 100, 127, 128, 129, 200, 255, 256, 257, 299, 300)
		nHist, nOps = 80, 60
		maxN = 2048
		maxP = nil
		for p := 1; p <= 17; p++ {
			maxP = append(maxP, p)
		}
		maxP = append(maxP, 31, 32, 33, 64, 128)
	}
	fx, err := NewFixture(ctx, nW, perW, false)
	if err != nil {
		fmt.Fprintln(os.Stderr, "fixture:", err)
		return 2
	}
	tbl := map[string][]string{"client1": {}}
	for w := 0; w < nW; w++ {
		tbl["client1"] = append(tbl["client1"], fmt.Sprintf("Wallet %d", w+1))
	}
	stdPermTbl = tbl
	rng := NewPRNG(cf.seed)
	run := &Runner{ctx: ctx, fx: fx, stats: map[string]int{}}
	var monFail []string
	var samples []string
	admin := []string{"10.0.0.1"}

	// (a) advancing histories over the first 8 accounts
	small := &Fixture{Stores: fx.Stores, Accounts: fx.Accounts[:8], Fetcher: fx.Fetcher}
	for h := 0; h < nHist; h++ {
		inst, err := run.newInstance(admin)
		if err != nil {
			fmt.Fprintln(os.Stderr, "instance:", err)
			return 2
		}
		g := newGenState(small, rng.Fork())
		for i := 0; i < nOps; i++ {
			op := g.genAdvancingOp()
			rec, err := run.execStep(inst, h, i, op)
			if err != nil {
				fmt.Fprintln(os.Stderr, "exec:", err)
				return 2
			}
			g.noteSigned(op, rec.Obs, inst)
			for p, o := range rec.Obs {
				if o.State != core.ResultSucceeded || !o.SigValid {
					monFail = append(monFail, fmt.Sprintf("advancing well-formed authorised duty at position %d not signed (state %s, valid signature %v) :: %s", p, o.State, o.SigValid, describeStep(rec)))
				}
			}
			if h == 0 && i < 5 {
				samples = append(samples, describeStep(rec))
			}
		}
		inst.Close(ctx)
	}
	liveSteps := run.steps
	run.steps = nil

	// (b) twins: the same prefix on two instances, then the batch on one and the singles on the other
	twinCount := 0
	twinStuck := false
	for _, n := range sizes {
		if twinStuck {
			break
		}
		if n > len(fx.Accounts) {
			continue
		}
		for _, p := range procs {
			if cf.tier != "thorough" && n > 16 && p != 1 && p != 4 && p != 128 {
				continue
			}
			a, err := run.newInstance(admin)
			if err != nil {
				return 2
			}
			// distinct accounts, random order
			perm := make([]int, len(fx.Accounts))
			for i := range perm {
				perm[i] = i
			}
			for i := len(perm) - 1; i > 0; i-- {
				j := rng.Intn(i + 1)
				perm[i], perm[j] = perm[j], perm[i]
			}
			g := newGenState(fx, rng.Fork())
			// prefix: some of the keys already have history (so some batch entries are refused)
			var prefix []*Op
			for i := 0; i < n && i < 12; i++ {
				if rng.Chance(50) {
					acc := fx.Accounts[perm[i]]
					s := uint64(rng.Intn(3))
					prefix = append(prefix, &Op{Kind: KAttest, Client: "client1", IP: "10.0.0.1", Addrs: []Addr{{Name: acc.Path()}},
						Atts: []AttData{g.attData(s, s+1+uint64(rng.Intn(4)), mkDomain(domAttester, 0))}})
				}
			}
			batch := &Op{Kind: KAttests, Client: "client1", IP: "10.0.0.1"}
			for i := 0; i < n; i++ {
				acc := fx.Accounts[perm[i]]
				s := uint64(rng.Intn(4))
				t := s + 1 + uint64(rng.Intn(4))
				if rng.Chance(8) {
					s, t = 0, 0
				}
				d := g.attData(s, t, mkDomain(domAttester, 0))
				d.BBR = fill32(byte(i%250 + 1)) // all-distinct data so that misaligned positions show
				d.Idx = uint64(i)
				batch.Addrs = append(batch.Addrs, g.addrFor(acc))
				batch.Atts = append(batch.Atts, d)
			}
			b, err := NewInstance(ctx, fx, InstanceOpts{AdminIPs: admin, Perms: permsFromTbl(stdPermTbl)})
			if err != nil {
				return 2
			}
			for _, op := range prefix {
				verifSetHook(a)
				if _, err := a.Exec(ctx, op); err != nil {
					return 2
				}
				verifSetHook(b)
				if _, err := b.Exec(ctx, op); err != nil {
					return 2
				}
			}
			verifSetHook(a)
			old := runtime.GOMAXPROCS(p)
			type stepRes struct {
				rec *StepRec
				err error
			}
			ch := make(chan stepRes, 1)
			go func() {
				rec, err := run.execStep(a, 1000+n, p, batch)
				ch <- stepRes{rec, err}
			}()
			var rec *StepRec
			select {
			case r := <-ch:
				rec, err = r.rec, r.err
			case <-time.After(120 * time.Second):
				runtime.GOMAXPROCS(old)
				monFail = append(monFail, fmt.Sprintf("batch of %d valid attestations over distinct keys (GOMAXPROCS %d) was never answered (120 s)", n, p))
				twinStuck = true
			}
			if twinStuck {
				break
			}
			runtime.GOMAXPROCS(old)
			if err != nil {
				fmt.Fprintln(os.Stderr, "exec:", err)
				return 2
			}
			verifSetHook(b)
			var singles []Obs
			for i := 0; i < n; i++ {
				one := &Op{Kind: KAttest, Client: "client1", IP: "10.0.0.1", Addrs: []Addr{batch.Addrs[i]}, Atts: []AttData{batch.Atts[i]}}
				obs, err := b.Exec(ctx, one)
				if err != nil {
					return 2
				}
				singles = append(singles, obs[0])
			}
			if len(rec.Obs) != n {
				monFail = append(monFail, fmt.Sprintf("batch of %d (GOMAXPROCS %d) answered %d entries", n, p, len(rec.Obs)))
			}
			for i := 0; i < n && i < len(rec.Obs); i++ {
				if rec.Obs[i].State != singles[i].State || (rec.Obs[i].SigLen > 0) != (singles[i].SigLen > 0) {
					monFail = append(monFail, fmt.Sprintf("batch of %d (GOMAXPROCS %d) position %d: batch %s/sig=%v, alone %s/sig=%v :: %s", n, p, i,
						rec.Obs[i].State, rec.Obs[i].SigLen > 0, singles[i].State, singles[i].SigLen > 0, batch.Addrs[i].Name))
				}
				if rec.Obs[i].SigLen > 0 && !rec.Obs[i].SigValid {
					monFail = append(monFail, fmt.Sprintf("batch of %d (GOMAXPROCS %d) position %d: signature not valid for that position's data and account", n, p, i))
				}
			}
			sa, _ := a.ReadStore(ctx)
			sb, _ := b.ReadStore(ctx)
			if fmtViews(sa) != fmtViews(sb) {
				monFail = append(monFail, fmt.Sprintf("batch of %d (GOMAXPROCS %d): decoded store differs from one-at-a-time: %s vs %s", n, p, fmtViews(sa), fmtViews(sb)))
			}
			twinCount++
			run.stats[fmt.Sprintf("twin.n%d", n)]++
			a.Close(ctx)
			b.Close(ctx)
		}
	}
	// a client whose permissions name exactly the duties' operations (the least-privilege layout of the
	// documentation) instead of "All": batch and one-at-a-time must still agree, and the fresh duties be signed
	if !twinStuck {
		duty := map[string][]*checker.Permissions{}
		seenW := map[string]bool{}
		for _, acc := range fx.Accounts {
			if !seenW[acc.Wallet] {
				seenW[acc.Wallet] = true
				duty["duty"] = append(duty["duty"], &checker.Permissions{Path: acc.Wallet, Operations: []string{"Sign beacon attestation", "Sign beacon proposal", "Access account"}})
			}
		}
		a, err := NewInstance(ctx, fx, InstanceOpts{AdminIPs: admin, Perms: duty})
		if err != nil {
			return 2
		}
		b, err := NewInstance(ctx, fx, InstanceOpts{AdminIPs: admin, Perms: duty})
		if err != nil {
			return 2
		}
		g := newGenState(fx, rng.Fork())
		for round := 0; round < 3; round++ {
			batch := &Op{Kind: KAttests, Client: "duty", IP: "10.0.0.1"}
			var usable []*AcctInfo
			for _, acc := range fx.Accounts {
				if acc.Usable && acc.Signer {
					usable = append(usable, acc)
				}
			}
			for i := 0; i < 4 && i < len(usable); i++ {
				d := g.attData(uint64(2*round), uint64(2*round+1), mkDomain(domAttester, 0))
				d.BBR = fill32(byte(10*round + i + 1))
				batch.Addrs = append(batch.Addrs, g.addrFor(usable[(i+round)%len(usable)]))
				batch.Atts = append(batch.Atts, d)
			}
			verifSetHook(a)
			bo, err := a.Exec(ctx, batch)
			if err != nil {
				return 2
			}
			verifSetHook(b)
			for i := range batch.Addrs {
				so, err := b.Exec(ctx, &Op{Kind: KAttest, Client: "duty", IP: "10.0.0.1", Addrs: []Addr{batch.Addrs[i]}, Atts: []AttData{batch.Atts[i]}})
				if err != nil {
					return 2
				}
				if i < len(bo) && (bo[i].State != so[0].State || (bo[i].SigLen > 0) != (so[0].SigLen > 0)) {
					monFail = append(monFail, fmt.Sprintf("client with permissions [Sign beacon attestation, Sign beacon proposal, Access account], round %d position %d (attestation %d->%d): in the batch %s/sig=%v, alone %s/sig=%v",
						round, i, 2*round, 2*round+1, bo[i].State, bo[i].SigLen > 0, so[0].State, so[0].SigLen > 0))
				}
				if so[0].State != core.ResultSucceeded {
					monFail = append(monFail, fmt.Sprintf("client with permissions [Sign beacon attestation, ...]: the advancing attestation %d->%d at position %d is not signed alone (%s)", 2*round, 2*round+1, i, so[0].State))
				}
			}
			// ... and the block of the round
			pa := usable[round%len(usable)]
			po, err := b.Exec(ctx, &Op{Kind: KPropose, Client: "duty", IP: "10.0.0.1", Addrs: []Addr{g.addrFor(pa)},
				Props: []PropData{{Dom: mkDomain(domProposer, 0), Slot: uint64(100 + round), Pidx: 1, Parent: fill32(0), State: fill32(1), Body: fill32(1)}}})
			if err != nil {
				return 2
			}
			if po[0].State != core.ResultSucceeded {
				monFail = append(monFail, fmt.Sprintf("client with permissions [..., Sign beacon proposal, ...]: the advancing proposal at slot %d is not signed (%s)", 100+round, po[0].State))
			}
			run.stats["leastprivilege.rounds"]++
		}
		a.Close(ctx)
		b.Close(ctx)
	}
	// an account created after start-up (registered with the account cache as an account generation does) and
	// addressed by its public key: its advancing duties are signed, alone and inside a batch
	if !twinStuck {
		inst, err := run.newInstance(admin)
		if err != nil {
			return 2
		}
		if w, err := fx.Fetcher.FetchWallet(ctx, fx.Accounts[0].Wallet); err == nil {
			if l, ok := w.(e2wtypes.WalletLocker); ok {
				_ = l.Unlock(ctx, nil)
			}
			if a, err := w.(e2wtypes.WalletAccountCreator).CreateAccount(ctx, "Created later", []byte("pass")); err == nil {
				_ = fx.Fetcher.AddAccount(ctx, w, a)
				hctx := ctxWithClient(ctx, "client1", "10.0.0.1")
				key := a.PublicKey().Marshal()
				att := func(s, t uint64) *pb.SignBeaconAttestationRequest {
					return &pb.SignBeaconAttestationRequest{Id: &pb.SignBeaconAttestationRequest_PublicKey{PublicKey: key}, Domain: mkDomain(domAttester, 0),
						Data: &pb.AttestationData{Slot: t * 32, BeaconBlockRoot: fill32(1), Source: &pb.Checkpoint{Epoch: s, Root: fill32(0)}, Target: &pb.Checkpoint{Epoch: t, Root: fill32(1)}}}
				}
				r1, e1 := inst.Handler.SignBeaconAttestation(hctx, att(1, 2))
				if e1 != nil || r1.GetState() != pb.ResponseState_SUCCEEDED {
					monFail = append(monFail, fmt.Sprintf("account %s/Created later (created after start-up), addressed by public key: the advancing attestation 1->2 is not signed (%v %v)", fx.Accounts[0].Wallet, r1.GetState(), e1))
				}
				other := fx.Accounts[1]
				r2, e2 := inst.Handler.SignBeaconAttestations(hctx, &pb.SignBeaconAttestationsRequest{Requests: []*pb.SignBeaconAttestationRequest{
					{Id: &pb.SignBeaconAttestationRequest_Account{Account: other.Path()}, Domain: mkDomain(domAttester, 0),
						Data: &pb.AttestationData{Slot: 96, BeaconBlockRoot: fill32(1), Source: &pb.Checkpoint{Epoch: 2, Root: fill32(0)}, Target: &pb.Checkpoint{Epoch: 3, Root: fill32(1)}}},
					att(2, 3)}})
				if e2 != nil || len(r2.GetResponses()) != 2 || r2.GetResponses()[0].GetState() != pb.ResponseState_SUCCEEDED || r2.GetResponses()[1].GetState() != pb.ResponseState_SUCCEEDED {
					monFail = append(monFail, fmt.Sprintf("batch [%s by name 2->3, the account created after start-up by public key 2->3]: not every advancing duty is signed (%v %v)", other.Path(), r2.GetResponses(), e2))
				}
				r3, e3 := inst.Handler.SignBeaconProposal(hctx, &pb.SignBeaconProposalRequest{Id: &pb.SignBeaconProposalRequest_PublicKey{PublicKey: key}, Domain: mkDomain(domProposer, 0),
					Data: &pb.BeaconBlockHeader{Slot: 7, ProposerIndex: 1, ParentRoot: fill32(0), StateRoot: fill32(1), BodyRoot: fill32(1)}})
				if e3 != nil || r3.GetState() != pb.ResponseState_SUCCEEDED {
					monFail = append(monFail, fmt.Sprintf("account created after start-up, addressed by public key: the advancing proposal at slot 7 is not signed (%v %v)", r3.GetState(), e3))
				}
				run.stats["created-later.requests"] = 4
			}
		}
		inst.Close(ctx)
	}
	twinSteps := run.steps

	// (c) util.Scatter against the model's extents
	var scLines []string
	sc := 0
	for _, p := range maxP {
		old := runtime.GOMAXPROCS(p)
		for n := 1; n <= maxN; n++ {
			if cf.tier != "thorough" && n > 40 && n%7 != 0 && n != maxN {
				continue
			}
			if cf.tier == "thorough" && n > 400 && n%5 != 0 && n%128 > 1 && n%128 < 127 && n != maxN {
				continue
			}
			var mu sync.Mutex
			var seen [][2]int
			noteRequest("util.Scatter over %d items with GOMAXPROCS %d (the fan-out every batch request goes through)", n, p)
			_, err := util.Scatter(n, func(offset int, entries int, _ *sync.RWMutex) (any, error) {
				mu.Lock()
				seen = append(seen, [2]int{offset, entries})
				mu.Unlock()
				return nil, nil
			})
			requestDone()
			if err != nil {
				monFail = append(monFail, fmt.Sprintf("util.Scatter(%d) with GOMAXPROCS %d: %v", n, p, err))
			}
			sort.Slice(seen, func(i, j int) bool { return seen[i][0] < seen[j][0] })
			// the property itself: consecutive, disjoint, covering [0,n)
			next := 0
			for _, e := range seen {
				if e[0] != next || e[1] <= 0 {
					monFail = append(monFail, fmt.Sprintf("util.Scatter(%d) with GOMAXPROCS %d: extents %v do not partition [0,%d)", n, p, seen, n))
					break
				}
				next += e[1]
			}
			if next != n {
				monFail = append(monFail, fmt.Sprintf("util.Scatter(%d) with GOMAXPROCS %d: extents %v cover %d of %d indices", n, p, seen, next, n))
			}
			var items []string
			for _, e := range seen {
				items = append(items, fmt.Sprintf("(%d,%d)", e[0], e[1]))
			}
			sc++
			scLines = append(scLines, fmt.Sprintf(" SC %d%%N %d %d [%s]", sc, n, p, strings.Join(items, ";")))
		}
		runtime.GOMAXPROCS(old)
	}
	var scFiles []string
	const scShard = 400
	for sh := 0; sh*scShard < len(scLines); sh++ {
		hi := (sh + 1) * scShard
		if hi > len(scLines) {
			hi = len(scLines)
		}
		var sb strings.Builder
		sb.WriteString("From DV Require Import Corr.CheckScatter.\nDefinition cases : list scase := [\n")
		sb.WriteString(strings.Join(scLines[sh*scShard:hi], ";\n"))
		sb.WriteString("].\nDefinition M := Eval vm_compute in scatter_mismatches cases.\nPrint M.\n")
		name := fmt.Sprintf("cases_C09_scatter_%d.v", sh)
		if err := os.WriteFile(filepath.Join(cf.out, name), []byte(sb.String()), 0o644); err != nil {
			return 2
		}
		scFiles = append(scFiles, name)
	}
	run.stats["scatter.cases"] = sc
	run.stats["twin.pairs"] = twinCount

	files1, err := writeInstCasesFx(cf.out, "C09_live", "check_live", cf.g63, admin, small, liveSteps, 1500)
	if err != nil {
		return 2
	}
	files2, err := writeInstCasesFx(cf.out, "C09_twin", "check_exact", cf.g63, admin, fx, twinSteps, 40)
	if err != nil {
		return 2
	}
	files := append(append(files1, files2...), scFiles...)
	idx := map[string]string{}
	distinct := map[string]bool{}
	for _, l := range [][]StepRec{liveSteps, twinSteps} {
		for i := range l {
			st := &l[i]
			d := describeStep(st)
			if len(d) > 1500 {
				d = d[:1500] + "..."
			}
			idx[fmt.Sprint(st.ID)] = d
			distinct[fmt.Sprintf("%s|%s", st.Op.String(), fmtStore(st.Pre))] = true
		}
	}
	sum := &Summary{Property: "C09", Seed: cf.seed, Tier: cf.tier, Evaluations: len(liveSteps) + len(twinSteps) + sc, Distinct: len(distinct) + sc,
		Rule:         "(a) histories of advancing, well-formed, authorised duties (equal sources, 0/0 genesis votes, jumps to 2^31, 2^32 and 2^63-1; singles, batches over distinct keys, proposals) - every one must be signed; (b) twin instances given the same prefix, one the batch and one its entries singly, for batch sizes x GOMAXPROCS values, compared position by position; (c) util.Scatter (offset, entries) pairs for n x GOMAXPROCS against Scatter.extents; distinct = distinct (request, pre-state) plus scatter (n,p) pairs",
		Histories:    nHist + twinCount,
		Distribution: run.stats, Samples: samples, MonitorFailures: monFail, CaseFiles: files, CaseIndex: idx,
		Extra: map[string]any{"batch_sizes": sizes, "gomaxprocs": procs, "scatter_max_n": maxN}}
	if err := writeSummary(cf.out, sum); err != nil {
		return 2
	}
	return 0
}

func verifSetHook(inst *Instance) { setHook(inst) }

func fmtViews(sv *StoreView) string {
	// decoded view: a (-1,-1) record equals no record
	var parts []string
	for _, k := range sortedKeys(sv.Att) {
		if sv.Att[k].Src == -1 && sv.Att[k].Tgt == -1 {
			continue
		}
		parts = append(parts, fmt.Sprintf("a%d=%d/%d", k, sv.Att[k].Src, sv.Att[k].Tgt))
	}
	for _, k := range sortedKeys(sv.Prop) {
		if sv.Prop[k] == -1 {
			continue
		}
		parts = append(parts, fmt.Sprintf("p%d=%d", k, sv.Prop[k]))
	}
	return strings.Join(parts, " ")
}

// genAdvancingOp draws a well-formed, authorised duty that advances on what was signed.
func (g *genState) genAdvancingOp() *Op {
	op := &Op{Client: "client1", IP: "10.0.0.1"}
	adv := func(id int) (uint64, uint64) {
		if !g.hasAtt[id] {
			if g.rng.Chance(30) {
				return 0, 0
			}
			s := uint64(g.rng.Intn(3))
			return s, s + 1 + uint64(g.rng.Intn(3))
		}
		s, t := g.src[id], g.tgt[id]
		if t >= 1<<63-4 {
			return 0, 0 // exhausted (handled by caller)
		}
		ns := s
		if g.rng.Chance(50) {
			ns = s + uint64(g.rng.Intn(int(min64(t-s, 3))+1))
		}
		nt := t + 1 + uint64(g.rng.Intn(3))
		if g.rng.Chance(3) {
			for _, e := range []uint64{1 << 31, 1 << 32, 1<<63 - 2} {
				if e > t && g.rng.Chance(50) {
					nt = e
					break
				}
			}
		}
		if g.rng.Chance(2) && t < 1<<63-1 {
			nt = 1<<63 - 1
		}
		return ns, nt
	}
	fresh := func() *AcctInfo {
		for tries := 0; tries < 50; tries++ {
			a := g.fx.Accounts[g.rng.Intn(len(g.fx.Accounts))]
			if !g.hasAtt[a.ID] || g.tgt[a.ID] < 1<<63-4 {
				return a
			}
		}
		return g.fx.Accounts[0]
	}
	switch r := g.rng.Intn(100); {
	case r < 20:
		op.Kind = KPropose
		a := g.fx.Accounts[g.rng.Intn(len(g.fx.Accounts))]
		slot := g.slot[a.ID] + 1 + uint64(g.rng.Intn(3))
		if !g.hasSl[a.ID] && g.rng.Chance(30) {
			slot = 0
		}
		if g.rng.Chance(3) && g.slot[a.ID] < 1<<62 {
			slot = []uint64{1 << 31, 1 << 32, 1 << 62}[g.rng.Intn(3)]
			if slot <= g.slot[a.ID] {
				slot = g.slot[a.ID] + 1
			}
		}
		op.Addrs = []Addr{g.addrFor(a)}
		rt := byte(g.rng.Intn(4) + 1)
		op.Props = []PropData{{Dom: mkDomain(domProposer, 1), Slot: slot, Pidx: 3, Parent: fill32(0), State: fill32(rt), Body: fill32(rt)}}
	case r < 50:
		op.Kind = KAttests
		n := 1 + g.rng.Intn(len(g.fx.Accounts))
		used := map[int]bool{}
		for i := 0; i < n; i++ {
			a := fresh()
			if used[a.ID] {
				continue
			}
			used[a.ID] = true
			s, t := adv(a.ID)
			if g.hasAtt[a.ID] && s == 0 && t == 0 {
				continue
			}
			op.Addrs = append(op.Addrs, g.addrFor(a))
			op.Atts = append(op.Atts, g.attData(s, t, mkDomain(domAttester, byte(g.rng.Intn(3)))))
		}
		if len(op.Addrs) == 0 {
			return g.genAdvancingOp()
		}
	default:
		op.Kind = KAttest
		a := fresh()
		s, t := adv(a.ID)
		if g.hasAtt[a.ID] && s == 0 && t == 0 {
			return g.genAdvancingOp()
		}
		op.Addrs = []Addr{g.addrFor(a)}
		op.Atts = []AttData{g.attData(s, t, mkDomain(domAttester, byte(g.rng.Intn(3))))}
	}
	return op
}
