From DV Require Import Model.ConcRules Model.ConcVariants Proofs.ConcRulesProofs.
Local Open Scope Z_scope.

(* with both mechanisms on, the variant IS the model *)
Lemma fire_v_on {val req verdict} keys decide (w : world val req verdict) t :
  fire_v keys decide true true w t = fire keys decide w t.
Proof.
  unfold fire_v, fire, to_lock. destruct (nth_error (w_threads w) t) as [th|]; [|reflexivity].
  destruct (t_ph th) as [|[|k todo] got|got [|k tf] reads|[|k tr] out|out]; reflexivity.
Qed.

Definition rc : rcfg := {| guard63 := true; admin_ips := [] |}.
Definition da : bytes := (dom_attester ++ repeat 0%N 28)%list.
Definition areq_of (k : N) (s t : Z) : areq := {| r_key := k; r_dom := da; r_src := s; r_tgt := t |}.
Definition s0 : store cval := fun _ => cnone.

(* two batches naming keys 1 and 2 in opposite orders *)
Definition ab : creq := QAtts [areq_of 1 0 1; areq_of 2 0 1].
Definition ba : creq := QAtts [areq_of 2 0 1; areq_of 1 0 1].

Definition stuck {val req verdict} keys decide pl la (w : world val req verdict) : bool :=
  forallb (fun t => match fire_v keys decide pl la w t with None => true | Some _ => false end)
          (seq 0 (List.length (w_threads w))).
Definition unfinished {val req verdict} (w : world val req verdict) : bool :=
  existsb (fun th => negb (finished th)) (w_threads w).

(* without the locker-wide mutex: (a,b) and (b,a) deadlock *)
Lemma deadlock_without_prelock :
  exists w, run_sched_v ckeys (cdecide rc) false true (init s0 [ab; ba]) [0; 0; 1; 1]%nat = Some w /\
            stuck ckeys (cdecide rc) false true w = true /\ unfinished w = true.
Proof. eexists. split; [vm_compute; reflexivity|]. split; vm_compute; reflexivity. Qed.

(* with it, the same prefix cannot even be scheduled: thread 1 waits at PreLock *)
Lemma no_deadlock_with_prelock :
  run_sched_v ckeys (cdecide rc) true true (init s0 [ab; ba]) [0; 0; 1]%nat = None.
Proof. vm_compute. reflexivity. Qed.

(* locking only the first key of a batch: two batches sharing their SECOND key both get the same
   target approved for it *)
Definition x12 : creq := QAtts [areq_of 1 0 1; areq_of 3 0 1].
Definition y23 : creq := QAtts [areq_of 2 0 1; areq_of 3 0 1].
Definition interleave : list nat :=
  (* both lock their first key and read everything, then both commit *)
  [0; 0; 0; 0; 0;  1; 1; 1; 1; 1;  0; 1]%nat.

Lemma double_approval_first_key_only :
  exists w, run_sched_v ckeys (cdecide rc) true false (init s0 [x12; y23]) interleave = Some w /\
            map (fun e => snd e) (w_log w) = [[RApproved; RApproved]; [RApproved; RApproved]].
Proof. eexists. split; vm_compute; reflexivity. Qed.
