(* The derivative matcher agrees with a relational semantics; an expression wrapped as ^(?:p)$ is
   found by an unanchored search exactly in the strings p matches entirely. *)
From DV Require Import Base.Regex.
From Coq Require Import Lia.

(* Mat ci r s0 u e : r matches exactly u, where s0 = "u starts at the start of the text" and
   e = "u ends at the end of the text" *)
Inductive Mat (ci : bool) : re -> bool -> str -> bool -> Prop :=
| MEps s0 e : Mat ci Eps s0 [] e
| MChr cs c s0 e : cset_match ci cs c = true -> Mat ci (Chr cs) s0 [c] e
| MCat a b s0 e u v : Mat ci a s0 u (e && isnil v) -> Mat ci b (s0 && isnil u) v e -> Mat ci (Cat a b) s0 (u ++ v) e
| MAltL a b s0 u e : Mat ci a s0 u e -> Mat ci (Alt a b) s0 u e
| MAltR a b s0 u e : Mat ci b s0 u e -> Mat ci (Alt a b) s0 u e
| MStar0 a s0 e : Mat ci (Star a) s0 [] e
| MStarS a s0 e u v : u <> [] -> Mat ci a s0 u (e && isnil v) -> Mat ci (Star a) false v e -> Mat ci (Star a) s0 (u ++ v) e
| MBol e : Mat ci Bol true [] e
| MEol s0 : Mat ci Eol s0 [] true.

Lemma app_nil_inv (u v : str) : u ++ v = [] -> u = [] /\ v = [].
Proof. destruct u; cbn; [tauto|discriminate]. Qed.

Ltac inv H := inversion H; subst; clear H.
Ltac appnil := match goal with H : ?u ++ ?v = [] |- _ => apply app_nil_inv in H; destruct H as [-> ->] end.

Section WithCi.
Variable ci : bool.

Lemma null_Mat r : forall s0 e, null s0 e r = true <-> Mat ci r s0 [] e.
Proof.
  induction r as [| |f|a IHa b IHb|a IHa b IHb|a IHa| |]; intros s0 e; cbn.
  - split; [discriminate|]. intros H; inv H.
  - split; [constructor|reflexivity].
  - split; [discriminate|]. intros H; inv H.
  - rewrite andb_true_iff, IHa, IHb. split.
    + intros [Ha Hb]. change (@nil N) with (@nil N ++ []). constructor; cbn; now rewrite andb_true_r.
    + intros H. inv H. appnil. cbn in *. rewrite andb_true_r in *. tauto.
  - rewrite orb_true_iff, IHa, IHb. split.
    + intros [H|H]; [now apply MAltL|now apply MAltR].
    + intros H. inv H; tauto.
  - split; [constructor|reflexivity].
  - split; [intros ->; constructor|]. intros H; inv H; reflexivity.
  - split; [intros ->; constructor|]. intros H; inv H; reflexivity.
Qed.

Lemma Mat_Cat_cons a b s0 c s e :
  Mat ci (Cat a b) s0 (c :: s) e <->
  (Mat ci a s0 [] false /\ Mat ci b s0 (c :: s) e) \/
  (exists u v, s = u ++ v /\ Mat ci a s0 (c :: u) (e && isnil v) /\ Mat ci b false v e).
Proof.
  split.
  - intros H. inv H. destruct u as [|c' u]; cbn in *.
    + subst v. left. cbn in *. rewrite andb_false_r, andb_true_r in *. tauto.
    + match goal with H : _ :: _ = _ :: _ |- _ => injection H as -> <- end.
      right. exists u, v. rewrite andb_false_r in *. auto.
  - intros [[Ha Hb]|(u & v & -> & Ha & Hb)].
    + change (c :: s) with ([] ++ c :: s). constructor; cbn; [now rewrite andb_false_r|now rewrite andb_true_r].
    + change (c :: u ++ v) with ((c :: u) ++ v). constructor; [exact Ha|]. cbn. now rewrite andb_false_r.
Qed.

Lemma Mat_Star_cons a s0 c s e :
  Mat ci (Star a) s0 (c :: s) e <->
  exists u v, s = u ++ v /\ Mat ci a s0 (c :: u) (e && isnil v) /\ Mat ci (Star a) false v e.
Proof.
  split.
  - intros H. inv H. destruct u as [|c' u]; [congruence|]. cbn in *.
    match goal with H : _ :: _ = _ :: _ |- _ => injection H as -> <- end. eauto.
  - intros (u & v & -> & Ha & Hs). change (c :: u ++ v) with ((c :: u) ++ v).
    apply MStarS; [discriminate|exact Ha|exact Hs].
Qed.

Lemma Mat_Cat_false a b u v e :
  Mat ci a false u (e && isnil v) -> Mat ci b false v e -> Mat ci (Cat a b) false (u ++ v) e.
Proof. intros Ha Hb. constructor; auto. Qed.

Lemma Mat_Cat_inv_false a b w e :
  Mat ci (Cat a b) false w e -> exists u v, w = u ++ v /\ Mat ci a false u (e && isnil v) /\ Mat ci b false v e.
Proof. intros H. inv H. cbn in *. eauto. Qed.

Lemma deriv_Mat r : forall s0 c s e, Mat ci (deriv ci s0 c r) false s e <-> Mat ci r s0 (c :: s) e.
Proof.
  induction r as [| |f|a IHa b IHb|a IHa b IHb|a IHa| |]; intros s0 c s e; cbn [deriv].
  - split; intros H; inv H.
  - split; intros H; inv H.
  - destruct (cset_match ci f c) eqn:Fc; split; intros H; inv H; try congruence; now constructor.
  - rewrite Mat_Cat_cons. split.
    + intros H. inv H.
      * match goal with H : Mat ci (Cat _ _) _ _ _ |- _ => apply Mat_Cat_inv_false in H; destruct H as (u & v & -> & Ha & Hb) end.
        right. exists u, v. rewrite <- IHa. auto.
      * destruct (null s0 false a) eqn:Nl; [|match goal with H : Mat ci Void _ _ _ |- _ => inv H end].
        left. rewrite <- null_Mat, <- IHb. auto.
    + intros [[Ha Hb]|(u & v & -> & Ha & Hb)].
      * apply MAltR. apply null_Mat in Ha. rewrite Ha. now apply IHb.
      * apply MAltL. apply Mat_Cat_false; [now apply IHa|exact Hb].
  - split; intros H; inv H.
    + apply MAltL. now apply IHa. + apply MAltR. now apply IHb.
    + apply MAltL. now apply IHa. + apply MAltR. now apply IHb.
  - rewrite Mat_Star_cons. split.
    + intros H. apply Mat_Cat_inv_false in H. destruct H as (u & v & -> & Ha & Hb).
      exists u, v. rewrite <- IHa. auto.
    + intros (u & v & -> & Ha & Hs). apply Mat_Cat_false; [now apply IHa|exact Hs].
  - split; intros H; inv H.
  - split; intros H; inv H.
Qed.

Theorem accept_Mat s : forall s0 r, accept ci s0 r s = true <-> Mat ci r s0 s true.
Proof.
  induction s as [|c s IH]; intros s0 r; cbn.
  - apply null_Mat.
  - rewrite IH. apply deriv_Mat.
Qed.

(* ---- ^(?:p)$ ---- *)

Definition wrap (p : re) : re := Cat Bol (Cat p Eol).

Lemma Mat_wrap p s0 u e : Mat ci (wrap p) s0 u e <-> s0 = true /\ e = true /\ Mat ci p true u true.
Proof.
  unfold wrap. split.
  - intros H. inv H. match goal with H : Mat ci Bol _ _ _ |- _ => inv H end. cbn in *.
    match goal with H : Mat ci (Cat p Eol) _ _ _ |- _ => inv H end.
    match goal with H : Mat ci Eol _ _ _ |- _ => inv H end. cbn in *. rewrite ?andb_true_r in *.
    rewrite ?app_nil_r. auto.
  - intros (-> & -> & H). change u with ([] ++ u). constructor; [constructor|]. cbn.
    rewrite <- (app_nil_r u). constructor; [cbn; exact H|constructor].
Qed.

Lemma anystar_any v s0 e : Mat ci anystar s0 v e.
Proof.
  revert s0. induction v as [|c v IH]; intros s0; [constructor|].
  change (c :: v) with ([c] ++ v). apply MStarS; [discriminate| |apply IH].
  constructor. reflexivity.
Qed.

Lemma accept_wrap_any p s0 s : accept ci s0 (Cat (wrap p) anystar) s = true <-> s0 = true /\ Mat ci p true s true.
Proof.
  rewrite accept_Mat. split.
  - intros H. inv H. match goal with H : Mat ci (wrap p) _ _ _ |- _ => apply Mat_wrap in H; destruct H as (-> & Ee & Hp) end.
    cbn in Ee. destruct v; [|discriminate]. rewrite app_nil_r. auto.
  - intros (-> & H). rewrite <- (app_nil_r s). constructor; [apply Mat_wrap; cbn; auto|constructor].
Qed.

Lemma search_from_false_wrap p s : search_from ci false (wrap p) s = false.
Proof.
  induction s as [|c s IH]; cbn [search_from]; rewrite orb_false_iff; split; auto;
  apply not_true_is_false; intros H; apply accept_wrap_any in H; destruct H; discriminate.
Qed.

(* the repaired anchoring: the unanchored search of ^(?:p)$ is a whole-string match of p,
   for EVERY p - own anchors inside p included *)
Theorem search_wrap p s : search ci (wrap p) s = accept ci true p s.
Proof.
  unfold search.
  assert (search_from ci true (wrap p) s = accept ci true (Cat (wrap p) anystar) s) as ->.
  { destruct s as [|c s]; cbn [search_from]; [now rewrite orb_false_r|].
    now rewrite search_from_false_wrap, orb_false_r. }
  apply eq_true_iff_eq. rewrite accept_wrap_any, accept_Mat. tauto.
Qed.

Theorem search_grouped top s : search ci (anchor_grouped top) s = accept ci true (alts top) s.
Proof. apply search_wrap. Qed.

(* ---- the textbook language, for expressions without anchors ---- *)

Inductive Lang : re -> str -> Prop :=
| LEps : Lang Eps []
| LChr cs c : cset_match ci cs c = true -> Lang (Chr cs) [c]
| LCat a b u v : Lang a u -> Lang b v -> Lang (Cat a b) (u ++ v)
| LAltL a b u : Lang a u -> Lang (Alt a b) u
| LAltR a b u : Lang b u -> Lang (Alt a b) u
| LStar0 a : Lang (Star a) []
| LStarS a u v : u <> [] -> Lang a u -> Lang (Star a) v -> Lang (Star a) (u ++ v).

Fixpoint anchor_free (r : re) : bool :=
  match r with
  | Bol | Eol => false
  | Cat a b | Alt a b => anchor_free a && anchor_free b
  | Star a => anchor_free a
  | _ => true
  end.

Lemma Mat_Lang r : anchor_free r = true -> forall s0 u e, Mat ci r s0 u e -> Lang r u.
Proof.
  intros Hf s0 u e H. induction H; cbn in Hf; try discriminate;
    try (apply andb_true_iff in Hf; destruct Hf); try (constructor; auto; fail); try (apply LAltR; auto; fail).
Qed.

Lemma Lang_Mat r u : Lang r u -> forall s0 e, Mat ci r s0 u e.
Proof.
  induction 1; intros s0 e; try (constructor; auto; fail); try (apply MAltR; auto; fail).
Qed.

Theorem accept_Lang r s : anchor_free r = true -> (accept ci true r s = true <-> Lang r s).
Proof.
  intros Hf. rewrite accept_Mat. split; [apply Mat_Lang; auto|intros H; now apply Lang_Mat].
Qed.

End WithCi.

(* ---- the legacy anchoring grants too much (F2): ^Wallet1|Wallet2$ finds Wallet10 ---- *)
Definition lit (l : list N) : re := fold_right (fun c r => Cat (Chr (CLit c)) r) Eps l.
Definition W1 : re := lit [87;97;108;108;101;116;49]%N.      (* "Wallet1" *)
Definition W2 : re := lit [87;97;108;108;101;116;50]%N.      (* "Wallet2" *)
Definition Wallet10 : str := [87;97;108;108;101;116;49;48]%N.
Definition xWallet2 : str := [120;87;97;108;108;101;116;50]%N.

Lemma legacy_alternation_grants :
  search true (anchor_legacy [W1; W2]) Wallet10 = true /\
  search true (anchor_legacy [W1; W2]) xWallet2 = true /\
  accept true true (alts [W1; W2]) Wallet10 = false /\
  search true (anchor_grouped [W1; W2]) Wallet10 = false /\
  search true (anchor_grouped [W1; W2]) xWallet2 = false.
Proof. vm_compute. repeat split; reflexivity. Qed.
