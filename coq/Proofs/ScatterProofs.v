From DV Require Import Model.Scatter.
From Coq Require Import Lia.

Lemma extent_size_pos n p : 1 <= extent_size n p.
Proof. unfold extent_size. destruct (n / p =? 0) eqn:E; [lia|]. apply Nat.eqb_neq in E. destruct (0 <? n mod (n / p)); lia. Qed.

Lemma chunks n e k : 1 <= e ->
  covered (map (extent n e) (seq 0 k)) = seq 0 (Nat.min n (k * e)).
Proof.
  intros He. induction k as [|k IH].
  - cbn. now rewrite Nat.min_0_r.
  - rewrite seq_S, map_app. unfold covered in *. rewrite map_app, concat_app, IH. cbn [map concat extent fst snd plus].
    rewrite app_nil_r.
    destruct (Nat.le_gt_cases (k * e) n) as [L|G].
    + rewrite (Nat.min_r n (k * e)) by lia. rewrite <- seq_app. f_equal. lia.
    + rewrite (Nat.min_l n (k * e)) by lia. replace (n - k * e) with 0 by lia.
      rewrite Nat.min_0_r. cbn. rewrite app_nil_r. f_equal. lia.
Qed.

Lemma workers_cover n e : 1 <= e -> n <= workers n e * e.
Proof.
  intros He. unfold workers. pose proof (Nat.div_mod n e ltac:(lia)) as D.
  pose proof (Nat.mod_upper_bound n e ltac:(lia)) as U.
  destruct (n mod e =? 0) eqn:E.
  - apply Nat.eqb_eq in E. nia.
  - nia.
Qed.

(* the extents are consecutive, disjoint and cover [0, n) exactly once, for every n and p *)
Theorem extents_cover n p : covered (extents n p) = seq 0 n.
Proof.
  unfold extents. pose proof (extent_size_pos n p) as He.
  rewrite chunks by exact He. f_equal. apply Nat.min_l. now apply workers_cover.
Qed.

(* every extent is non-empty when n >= 1: no worker is started on nothing *)
Lemma extents_nonempty n p w : 1 <= n -> w < workers n (extent_size n p) -> 1 <= snd (extent n (extent_size n p) w).
Proof.
  intros Hn Hw. pose proof (extent_size_pos n p) as He. set (e := extent_size n p) in *.
  unfold extent, workers in *. cbn [snd].
  pose proof (Nat.div_mod n e ltac:(lia)) as D. pose proof (Nat.mod_upper_bound n e ltac:(lia)) as U.
  destruct (n mod e =? 0) eqn:E; [apply Nat.eqb_eq in E|apply Nat.eqb_neq in E]; nia.
Qed.

(* every extent stays inside [0, n) *)
Lemma extents_in_range n p w : w < workers n (extent_size n p) ->
  fst (extent n (extent_size n p) w) + snd (extent n (extent_size n p) w) <= n.
Proof.
  intros Hw. pose proof (extent_size_pos n p) as He. set (e := extent_size n p) in *.
  unfold extent, workers in *. cbn [fst snd].
  pose proof (Nat.div_mod n e ltac:(lia)) as D. pose proof (Nat.mod_upper_bound n e ltac:(lia)) as U.
  destruct (n mod e =? 0) eqn:E; [apply Nat.eqb_eq in E|apply Nat.eqb_neq in E]; nia.
Qed.

Theorem scatter_map_spec {A} n p (f : nat -> A) : scatter_map n p f = map f (seq 0 n).
Proof. unfold scatter_map. now rewrite extents_cover. Qed.
(* no index is visited twice, by any worker *)
Theorem covered_NoDup n p : NoDup (covered (extents n p)).
Proof. rewrite extents_cover. apply seq_NoDup. Qed.

(* never more workers than entries *)
Lemma workers_le_n n p : workers n (extent_size n p) <= n.
Proof.
  pose proof (extent_size_pos n p) as He. set (e := extent_size n p) in *.
  unfold workers. pose proof (Nat.div_mod n e ltac:(lia)) as D. pose proof (Nat.mod_upper_bound n e ltac:(lia)) as U.
  destruct (n mod e =? 0) eqn:E; [apply Nat.eqb_eq in E|apply Nat.eqb_neq in E]; nia.
Qed.

(* bounded parallelism: at most 2p - 1 goroutines for GOMAXPROCS = p >= 1 *)
Lemma workers_bound n p : 1 <= p -> workers n (extent_size n p) + 1 <= 2 * p.
Proof.
  intros Hp. unfold extent_size.
  pose proof (Nat.div_mod n p ltac:(lia)) as Dp. pose proof (Nat.mod_upper_bound n p ltac:(lia)) as Up.
  set (q := n / p) in *. set (r := n mod p) in *.
  destruct (q =? 0) eqn:Eq; [apply Nat.eqb_eq in Eq|apply Nat.eqb_neq in Eq].
  - unfold workers. rewrite Nat.div_1_r, Nat.mod_1_r. cbn. nia.
  - destruct (0 <? n mod q) eqn:Er; [apply Nat.ltb_lt in Er|apply Nat.ltb_ge in Er].
    + unfold workers. pose proof (Nat.div_mod n (S q) ltac:(lia)) as D. pose proof (Nat.mod_upper_bound n (S q) ltac:(lia)) as U.
      set (a := n / S q) in *. set (b := n mod S q) in *.
      destruct (b =? 0) eqn:E; [apply Nat.eqb_eq in E|apply Nat.eqb_neq in E]; nia.
    + unfold workers. pose proof (Nat.div_mod n q ltac:(lia)) as D.
      assert (n mod q = 0) as Z by lia. rewrite Z in *. cbn [Nat.eqb]. set (a := n / q) in *. nia.
Qed.
