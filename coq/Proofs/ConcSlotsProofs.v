From DV Require Import Model.ConcRules Model.ConcVariants Model.ConcSlots Proofs.ConcVariantsProofs.
Local Open Scope Z_scope.

Lemma fire_s_id {val req verdict} keys decide (w : world val req verdict) t :
  fire_s keys decide (fun k => k) w t = fire keys decide w t.
Proof. reflexivity. Qed.

(* 1024 slots; keys 1 and 1025 share slot 1 *)
Definition slot1024 (k : key) : key := Nat.modulo k 1024.
Definition colliding : creq := QAtts [areq_of 1 0 1; areq_of 1025 0 1].
Definition bystander : creq := QAtts [areq_of 7 0 1].

(* the request waits for a mutex it holds itself, inside the locker-wide section: the bystander waits too *)
Lemma self_deadlock_with_shared_slots :
  exists w, run_sched_s ckeys (cdecide rc) slot1024 (init s0 [colliding; bystander]) [0; 0]%nat = Some w /\
            stuck_s ckeys (cdecide rc) slot1024 w = true /\ unfinished w = true.
Proof. eexists. split; [vm_compute; reflexivity|]. split; vm_compute; reflexivity. Qed.

(* with a mutex per key both requests run to completion *)
Lemma per_key_mutexes_complete :
  exists w, run_sched_s ckeys (cdecide rc) (fun k => k) (init s0 [colliding; bystander])
              [0; 0; 0; 0; 0; 0; 0; 0; 0; 0; 1; 1; 1; 1; 1; 1; 1]%nat = Some w /\ unfinished w = false.
Proof. eexists. split; vm_compute; reflexivity. Qed.
