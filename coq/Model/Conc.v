(* Concurrent small-step semantics of the ruler's lock protocol (services/ruler/golang/runner.go
   RunRules + services/locker/syncmap) over a shared protection store.  A thread is a request plus
   a phase; its transitions are exactly
     PreLock; Lock k1..kn; PostLock; Fetch k1..kn; Commit; Unlock kn..k1; Return
   (requests the ruler does not lock, or rejects for a repeated key, have no keys).  The decision
   function is a parameter with two properties (decide_local, decide_writes) stated where they are
   used (Proofs/ConcProofs.v); ConcRules.v instantiates it with the slashing-protection rules.
   No proofs in this file. *)
From Coq Require Export List Arith Bool PeanoNat.
Export ListNotations.

Section Conc.
Definition key := nat.
Variable val : Type.
Variable req : Type.
Variable verdict : Type.
Variable keys : req -> list key.
Definition store := key -> val.
Definition upd (s : store) (k : key) (v : val) : store := fun k' => if Nat.eqb k' k then v else s k'.
Fixpoint apply (s : store) (ws : list (key * val)) : store :=
  match ws with [] => s | (k,v) :: r => apply (upd s k v) r end.
(* decision from the values read (assoc list, first binding wins) *)
Variable decide : req -> list (key * val) -> verdict * list (key * val).
Fixpoint rd (l : list (key * val)) (k : key) : option val :=
  match l with [] => None | (k',v) :: r => if Nat.eqb k k' then Some v else rd r k end.

(* sequential semantics: read all keys, decide, write *)
Definition snapshot (s : store) (ks : list key) : list (key * val) := map (fun k => (k, s k)) ks.
Definition seq_step (s : store) (r : req) : store * verdict :=
  let d := decide r (snapshot s (keys r)) in (apply s (snd d), fst d).

Inductive phase :=
| PStart
| PLocking (todo got : list key)
| PLocked (got tofetch : list key) (reads : list (key * val))
| PCommitted (torelease : list key) (out : verdict)
| PDone (out : verdict).

Record thread := { t_req : req; t_ph : phase }.
Record world := { w_store : store; w_mlock : option nat; w_klock : key -> option nat;
                  w_threads : list thread; w_log : list (nat * req * verdict) (* commit order, newest first *) }.

Fixpoint set_thread (l : list thread) (t : nat) (th : thread) : list thread :=
  match l, t with
  | [], _ => []
  | _ :: r, O => th :: r
  | x :: r, S t' => x :: set_thread r t' th
  end.

Definition kset (f : key -> option nat) (k : key) (v : option nat) : key -> option nat :=
  fun k' => if Nat.eqb k' k then v else f k'.

Definition fire (w : world) (t : nat) : option world :=
  match nth_error (w_threads w) t with
  | None => None
  | Some th =>
    let r := t_req th in
    let put ph := set_thread (w_threads w) t {| t_req := r; t_ph := ph |} in
    match t_ph th with
    | PStart =>
        match w_mlock w with
        | None => Some {| w_store := w_store w; w_mlock := Some t; w_klock := w_klock w;
                          w_threads := put (PLocking (keys r) []); w_log := w_log w |}
        | Some _ => None end
    | PLocking (k :: todo) got =>
        match w_klock w k with
        | None => Some {| w_store := w_store w; w_mlock := w_mlock w; w_klock := kset (w_klock w) k (Some t);
                          w_threads := put (PLocking todo (k :: got)); w_log := w_log w |}
        | Some _ => None end
    | PLocking [] got =>
        Some {| w_store := w_store w; w_mlock := None; w_klock := w_klock w;
                w_threads := put (PLocked got (keys r) []); w_log := w_log w |}
    | PLocked got (k :: tf) reads =>
        Some {| w_store := w_store w; w_mlock := w_mlock w; w_klock := w_klock w;
                w_threads := put (PLocked got tf (reads ++ [(k, w_store w k)])); w_log := w_log w |}
    | PLocked got [] reads =>
        let d := decide r reads in
        Some {| w_store := apply (w_store w) (snd d); w_mlock := w_mlock w; w_klock := w_klock w;
                w_threads := put (PCommitted got (fst d)); w_log := (t, r, fst d) :: w_log w |}
    | PCommitted (k :: rest) out =>
        Some {| w_store := w_store w; w_mlock := w_mlock w; w_klock := kset (w_klock w) k None;
                w_threads := put (PCommitted rest out); w_log := w_log w |}
    | PCommitted [] out =>
        Some {| w_store := w_store w; w_mlock := w_mlock w; w_klock := w_klock w;
                w_threads := put (PDone out); w_log := w_log w |}
    | PDone _ => None
    end
  end.

Definition held (ph : phase) : list key :=
  match ph with
  | PStart => [] | PLocking _ got => got | PLocked got _ _ => got
  | PCommitted tr _ => tr | PDone _ => [] end.

Definition finished (th : thread) : bool := match t_ph th with PDone _ => true | _ => false end.

Definition init (s : store) (rs : list req) : world :=
  {| w_store := s; w_mlock := None; w_klock := fun _ => None;
     w_threads := map (fun r => {| t_req := r; t_ph := PStart |}) rs; w_log := [] |}.

Inductive reach (s0 : store) (rs : list req) : world -> Prop :=
| reach_init : reach s0 rs (init s0 rs)
| reach_step w t w' : reach s0 rs w -> fire w t = Some w' -> reach s0 rs w'.


(* run a schedule (the thread that takes each step); None = some step was not enabled *)
Fixpoint run_sched (w : world) (sched : list nat) : option world :=
  match sched with
  | [] => Some w
  | t :: r => match fire w t with Some w' => run_sched w' r | None => None end
  end.

(* serial execution of a list of requests *)
Fixpoint ser (s : store) (rs : list req) : store * list verdict :=
  match rs with
  | [] => (s, [])
  | r :: rest => let '(s1, v) := seq_step s r in let '(s2, vs) := ser s1 rest in (s2, v :: vs)
  end.

End Conc.

Arguments upd {val} s k v.
Arguments apply {val} s ws.
Arguments rd {val} l k.
Arguments snapshot {val} s ks.
Arguments seq_step {val req verdict} keys decide s r.
Arguments PStart {val verdict}.
Arguments PLocking {val verdict} todo got.
Arguments PLocked {val verdict} got tofetch reads.
Arguments PCommitted {val verdict} torelease out.
Arguments PDone {val verdict} out.
Arguments t_req {val req verdict} t.
Arguments t_ph {val req verdict} t.
Arguments Build_thread {val req verdict} t_req t_ph.
Arguments w_store {val req verdict} w.
Arguments w_mlock {val req verdict} w.
Arguments w_klock {val req verdict} w.
Arguments w_threads {val req verdict} w.
Arguments w_log {val req verdict} w.
Arguments Build_world {val req verdict} w_store w_mlock w_klock w_threads w_log.
Arguments set_thread {val req verdict} l t th.
Arguments fire {val req verdict} keys decide w t.
Arguments held {val verdict} ph.
Arguments finished {val req verdict} th.
Arguments init {val req verdict} s rs.
Arguments reach {val req verdict} keys decide s0 rs w.
Arguments run_sched {val req verdict} keys decide w sched.
Arguments ser {val req verdict} keys decide s rs.
