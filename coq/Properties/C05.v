(* C05 - slashable message types can only be signed via the protected endpoints. *)
From DV Require Import Model.Instance Proofs.RulerProofs Proofs.SignerProofs Proofs.DomainProofs Proofs.Examples Proofs.ExampleProofs.
Local Open Scope Z_scope.

(* gen_ok rc ip dom :=  prefix4 dom is neither the attester nor the proposer type, and if it is the
   voluntary-exit type then ip is non-empty and on rc's administrator list.  prefix4 reads the
   first four bytes of a domain of ANY length (Rules.v), so all 2^256 32-byte domains and all
   malformed lengths are covered. *)

(* For every configuration, state, request and fault schedule (ruler_fault_ok: an injected
   ruler answer never says APPROVED):
   (i)+(iii) a signature released by the generic or the multi-sign endpoint is over a generic
       message whose domain satisfies gen_ok;
   (ii) a signature released by an attestation endpoint is over attestation data under an
       attester-type domain, one released by the proposal endpoint is over a block header under a
       proposer-type domain; and a request under any other domain type is refused and leaves the
       decoded protection store unchanged. *)
Theorem C05_domain_separation :
  forall (c : scfg) (st : store) (cl : creds) (f : ofault), ruler_fault_ok f ->
  (forall a d r s, sign_gen c cl a d f = (r, Some s) ->
     exists data dom, sg_msg s = MGen data dom /\ gen_ok (sc_rules c) (cl_ip cl) dom) /\
  (forall reqs s, In s (sigs_of (multisign c cl reqs f)) ->
     exists data dom, sg_msg s = MGen data dom /\ gen_ok (sc_rules c) (cl_ip cl) dom) /\
  (forall a d r st' s, sign_att c st cl a d f = ((r, Some s), st') ->
     exists slot idx bbr src sroot tgt troot dom,
       sg_msg s = MAtt slot idx bbr src sroot tgt troot dom /\ bytes_eqb (prefix4 dom) dom_attester = true) /\
  (forall reqs rs st' s, sign_atts c st cl reqs f = (rs, st') -> In s (sigs_of rs) ->
     exists slot idx bbr src sroot tgt troot dom,
       sg_msg s = MAtt slot idx bbr src sroot tgt troot dom /\ bytes_eqb (prefix4 dom) dom_attester = true) /\
  (forall a d r st' s, sign_prop c st cl a d f = ((r, Some s), st') ->
     exists slot pidx parent state body dom,
       sg_msg s = MProp slot pidx parent state body dom /\ bytes_eqb (prefix4 dom) dom_proposer = true) /\
  (forall a d r st' o, att_fields d = Some o -> bytes_eqb (prefix4 (ao_dom o)) dom_attester = false ->
     sign_att c st cl a d f = (r, st') -> snd r = None /\ same_view st st') /\
  (forall a d r st' o, prop_fields d = Some o -> bytes_eqb (prefix4 (po_dom o)) dom_proposer = false ->
     sign_prop c st cl a d f = (r, st') -> snd r = None /\ st' = st).
Proof. exact C05_main. Qed.
Print Assumptions C05_domain_separation.

(* non-vacuity: the generic endpoint does sign (a RANDAO-type domain), an exit-type domain is
   signed from an administrator address and refused from another, attester type is refused *)
Example C05_example :
  let c := ex_cfg true in
  let gen p ip := sign_gen c {| cl_client := "client1"; cl_ip := ip |} (by_key 1)
                    (Some {| sd_dom := Some (dom_of p); sd_data := Some (b32 9) |}) no_ofault in
  fst (gen [2;0;0;0]%N "10.0.0.9"%string) = CSucceeded /\
  fst (gen dom_exit "10.0.0.1"%string) = CSucceeded /\
  fst (gen dom_exit "10.0.0.9"%string) = CDenied /\
  fst (gen dom_exit ""%string) = CDenied /\
  fst (gen dom_attester "10.0.0.1"%string) = CDenied /\
  fst (gen dom_proposer "10.0.0.1"%string) = CDenied.
Proof. vm_compute. repeat split; reflexivity. Qed.
