(* C10: what a successful command-level import guarantees (repaired variant), and that a failed
   one changes nothing. *)
From DV Require Import Model.Interchange Proofs.AssocFacts Proofs.RulesProofs.
From Coq Require Import Lia.
Local Open Scope Z_scope.

Definition sp_ge (a b : sp) : Prop := sp_slot b <= sp_slot a /\ sp_src b <= sp_src a /\ sp_tgt b <= sp_tgt a.
Lemma sp_ge_refl a : sp_ge a a. Proof. unfold sp_ge; lia. Qed.
Lemma sp_ge_trans a b c : sp_ge a b -> sp_ge b c -> sp_ge a c. Proof. unfold sp_ge; lia. Qed.

Lemma zmax_spec a b : a <= zmax a b /\ b <= zmax a b /\ (zmax a b = a \/ zmax a b = b).
Proof. unfold zmax. destruct (a <? b) eqn:E; [apply Z.ltb_lt in E|apply Z.ltb_ge in E]; lia. Qed.

Lemma sp_max_ge a b : sp_ge (sp_max a b) a /\ sp_ge (sp_max a b) b.
Proof.
  unfold sp_ge, sp_max; cbn.
  pose proof (zmax_spec (sp_slot a) (sp_slot b)). pose proof (zmax_spec (sp_src a) (sp_src b)).
  pose proof (zmax_spec (sp_tgt a) (sp_tgt b)). lia.
Qed.

(* ---- the per-entry maxima ---- *)

Lemma max_atts_spec c l : forall s t s' t', max_atts c l s t = Some (s', t') ->
  s <= s' /\ t <= t' /\
  forall a b, In (PVal a, PVal b) l -> a <= s' /\ b <= t' /\ num_ok c a = true /\ num_ok c b = true.
Proof.
  induction l as [|[[|a] [|b]] l IH]; intros s t s' t'; cbn [max_atts]; try discriminate.
  - intros H; injection H as <- <-. split; [lia|split; [lia|intros ? ? []]].
  - destruct (num_ok c a) eqn:Ea; [|discriminate]. destruct (num_ok c b) eqn:Eb; [|discriminate]. cbn [andb].
    intros H. apply IH in H. destruct H as (H1 & H2 & H3).
    assert (s <= (if s <? a then a else s) /\ a <= (if s <? a then a else s)) by (destruct (s <? a) eqn:E; [apply Z.ltb_lt in E|apply Z.ltb_ge in E]; lia).
    assert (t <= (if t <? b then b else t) /\ b <= (if t <? b then b else t)) by (destruct (t <? b) eqn:E; [apply Z.ltb_lt in E|apply Z.ltb_ge in E]; lia).
    split; [lia|split; [lia|]]. intros a0 b0 [E|Hin].
    + injection E as <- <-. split; [lia|split; [lia|split; auto]].
    + apply H3 in Hin. tauto.
Qed.

Lemma max_blocks_spec c l : forall s s', max_blocks c l s = Some s' ->
  s <= s' /\ forall a, In (PVal a) l -> a <= s' /\ num_ok c a = true.
Proof.
  induction l as [|[|a] l IH]; intros s s'; cbn [max_blocks]; try discriminate.
  - intros H; injection H as <-. split; [lia|intros ? []].
  - destruct (num_ok c a) eqn:Ea; [|discriminate].
    intros H. apply IH in H. destruct H as (H1 & H3).
    assert (s <= (if s <? a then a else s) /\ a <= (if s <? a then a else s)) by (destruct (s <? a) eqn:E; [apply Z.ltb_lt in E|apply Z.ltb_ge in E]; lia).
    split; [lia|]. intros a0 [E|Hin].
    + injection E as <-. split; auto; lia.
    + apply H3 in Hin. tauto.
Qed.

(* ---- the protection map built from the file (repaired variant) ---- *)

(* e's values for its key are all at most v *)
Definition entry_le (c : icfg) (e : fentry) (v : sp) : Prop :=
  (forall a b, In (PVal a, PVal b) (fe_atts e) -> a <= sp_src v /\ b <= sp_tgt v /\ num_ok c a = true /\ num_ok c b = true) /\
  (forall z, In (PVal z) (fe_blocks e) -> z <= sp_slot v /\ num_ok c z = true).

Definition map_inv (st : store) (m : list (N * sp)) : Prop :=
  NoDup (map fst m) /\
  forall k v, lookup k m = Some v -> sp_ge v (export_view st k) /\ sp_ge v sp_none.

Lemma nodup_insert {V} k (v : V) m : NoDup (map fst m) -> NoDup (map fst (insert k v m)).
Proof.
  induction m as [|[k' v'] m IH]; cbn; intros ND.
  - repeat constructor. intros [].
  - inversion ND as [|? ? Hn ND']; subst. destruct (N.eqb_spec k k') as [->|Hne]; cbn.
    + constructor; auto.
    + constructor; [|auto]. intros Hin. apply in_keys_insert in Hin. destruct Hin as [->|Hin]; [congruence|contradiction].
Qed.

Lemma export_view_none_ge st k : sp_ge (export_view st k) (export_view st k) . Proof. apply sp_ge_refl. Qed.

Lemma existing_view st k ex : existing st k = Some ex -> ex = export_view st k.
Proof. unfold existing. destruct (existsb _ _); [intros H; now injection H|discriminate]. Qed.

Lemma not_in_keys_view st k : existing st k = None -> export_view st k = sp_none.
Proof.
  unfold existing. destruct (existsb (N.eqb k) (export_keys st)) eqn:E; [discriminate|]. intros _.
  assert (Hn : ~ In k (export_keys st)).
  { intros Hin. assert (existsb (N.eqb k) (export_keys st) = true) by (apply existsb_exists; exists k; split; auto; apply N.eqb_refl). congruence. }
  unfold export_keys in Hn. unfold export_view, view_att, view_prop.
  assert (Ha : lookup k (s_att st) = None) by (apply lookup_none_iff; intros H; apply Hn, in_or_app; now left).
  assert (Hp : lookup k (s_prop st) = None) by (apply lookup_none_iff; intros H; apply Hn, in_or_app; now right).
  now rewrite Ha, Hp.
Qed.

Lemma build_map_spec c st l : merge_fieldwise c = true -> forall m m',
  map_inv st m -> build_map c st l m = Some m' ->
  map_inv st m' /\
  (forall k v, lookup k m = Some v -> exists v', lookup k m' = Some v' /\ sp_ge v' v) /\
  (forall e k, In e l -> fe_key e = Some k -> exists v', lookup k m' = Some v' /\ entry_le c e v').
Proof.
  intros Hm. induction l as [|e l IH]; intros m m' Hinv; cbn [build_map].
  - intros H; injection H as <-. split; [exact Hinv|]. split.
    + intros k v Hl. exists v. split; auto. apply sp_ge_refl.
    + intros ? ? [].
  - destruct (fe_key e) as [k|] eqn:Ek; [|discriminate].
    destruct (max_atts c (fe_atts e) (-1) (-1)) as [[s t]|] eqn:Ea; [|discriminate].
    destruct (max_blocks c (fe_blocks e) (-1)) as [b|] eqn:Eb; [|discriminate].
    rewrite Hm.
    set (kp := {| sp_slot := b; sp_src := s; sp_tgt := t |}).
    set (kp1 := match lookup k m with Some earlier => sp_max kp earlier | None => kp end).
    set (kp2 := match existing st k with Some ex => sp_max kp1 ex | None => kp1 end).
    apply max_atts_spec in Ea. destruct Ea as (As & At & Aall).
    apply max_blocks_spec in Eb. destruct Eb as (Bs & Ball).
    assert (Hkp : sp_ge kp sp_none) by (unfold sp_ge, kp; cbn; lia).
    assert (Hkp1 : sp_ge kp1 kp /\ forall v, lookup k m = Some v -> sp_ge kp1 v).
    { unfold kp1. destruct (lookup k m) as [earlier|].
      - destruct (sp_max_ge kp earlier) as [G1 G2]. split; auto. intros v Hv; injection Hv as <-. auto.
      - split; [apply sp_ge_refl|discriminate]. }
    destruct Hkp1 as [Hk1 Hk1'].
    assert (Hkp2 : sp_ge kp2 kp1 /\ sp_ge kp2 (export_view st k)).
    { unfold kp2. destruct (existing st k) as [ex|] eqn:Ex.
      - apply existing_view in Ex. subst ex. apply sp_max_ge.
      - rewrite (not_in_keys_view _ _ Ex). split; [apply sp_ge_refl|].
        eapply sp_ge_trans; [exact Hk1|exact Hkp]. }
    destruct Hkp2 as [Hk2 Hk2'].
    destruct Hinv as [ND Hall].
    assert (Hinv' : map_inv st (insert k kp2 m)).
    { split; [now apply nodup_insert|]. intros k' v. rewrite lookup_insert.
      destruct (N.eqb_spec k k') as [<-|Hne].
      - intros Hv; injection Hv as <-. split; [exact Hk2'|].
        eapply sp_ge_trans; [exact Hk2|]. eapply sp_ge_trans; [exact Hk1|exact Hkp].
      - apply Hall. }
    intros H. destruct (IH _ _ Hinv' H) as (I1 & I2 & I3). split; [exact I1|]. split.
    + intros k' v Hl. destruct (N.eqb_spec k k') as [<-|Hne].
      * destruct (I2 k kp2) as (v' & Hv' & Hge); [apply lookup_insert_eq|].
        exists v'. split; auto. eapply sp_ge_trans; [exact Hge|]. eapply sp_ge_trans; [exact Hk2|]. now apply Hk1'.
      * apply I2. now rewrite lookup_insert_neq.
    + intros e' k' [<-|Hin] Hk'.
      * rewrite Ek in Hk'. injection Hk' as <-.
        destruct (I2 k kp2) as (v' & Hv' & Hge); [apply lookup_insert_eq|].
        exists v'. split; auto.
        assert (Hge' : sp_ge v' kp) by (eapply sp_ge_trans; [exact Hge|]; eapply sp_ge_trans; [exact Hk2|exact Hk1]).
        unfold sp_ge, kp in Hge'. cbn in Hge'. split.
        -- intros a0 b0 Hab. destruct (Aall _ _ Hab) as (? & ? & ? & ?). repeat split; auto; lia.
        -- intros z Hz. destruct (Ball _ Hz). split; auto; lia.
      * eapply I3; eauto.
Qed.

(* ---- the rules-level import, key by key ---- *)

Definition apply_sp (old v : sp) : sp :=
  {| sp_slot := if sp_slot v =? -1 then sp_slot old else sp_slot v;
     sp_src := if sp_src v =? -1 then sp_src old else sp_src v;
     sp_tgt := if sp_src v =? -1 then sp_tgt old else sp_tgt v |}.

Lemma import_one_view st k v k' :
  export_view (import_one st (k, v)) k' = if N.eqb k k' then apply_sp (export_view st k') v else export_view st k'.
Proof.
  unfold import_one, export_view, apply_sp.
  destruct (sp_slot v =? -1) eqn:Es; destruct (sp_src v =? -1) eqn:Ea; cbn [sp_slot sp_src sp_tgt];
    rewrite ?view_att_put_att, ?view_prop_put_att, ?view_att_put_prop, ?view_prop_put_prop;
    destruct (N.eqb k k'); reflexivity.
Qed.

Lemma import_rules_view m : forall st k, NoDup (map fst m) ->
  export_view (import_rules st m) k =
  match lookup k m with Some v => apply_sp (export_view st k) v | None => export_view st k end.
Proof.
  unfold import_rules. induction m as [|[k0 v0] m IH]; intros st k ND; cbn [fold_left lookup]; auto.
  inversion ND as [|? ? Hn ND']; subst. rewrite IH by auto.
  rewrite (N.eqb_sym k k0). destruct (N.eqb_spec k0 k) as [<-|Hne].
  - assert (Hl : lookup k0 m = None) by now apply lookup_none_iff. rewrite Hl.
    rewrite import_one_view, N.eqb_refl. reflexivity.
  - destruct (lookup k m); rewrite import_one_view; apply N.eqb_neq in Hne; now rewrite Hne.
Qed.

(* ---- C10, import step ---- *)

Lemma import_err_unchanged c st f : import_cmd c st f = IErr -> True.
Proof. auto. Qed.

Lemma import_ok_spec c st f st' :
  merge_fieldwise c = true -> reject_negative c = true ->
  import_cmd c st f = IOk st' ->
  (forall k, sp_ge (export_view st' k) (export_view st k)) /\
  (forall e k, In e (if_data f) -> fe_key e = Some k -> entry_le c e (export_view st' k)) /\
  if_meta f = Some ("5"%string, ic_gvr c).
Proof.
  intros Hm Hr. unfold import_cmd.
  destruct (if_meta f) as [[ver gvr]|]; [|discriminate].
  destruct (String.eqb_spec ver "5") as [Ev|Ev]; [|discriminate]. cbn [negb].
  destruct (String.eqb (ic_gvr c) ""); [discriminate|].
  destruct (ic_gvr_ok c); [|discriminate]. cbn [negb].
  destruct (String.eqb_spec (ic_gvr c) gvr) as [Eg|Eg]; [|discriminate]. cbn [negb].
  destruct (build_map c st (if_data f) []) as [m|] eqn:Eb; [|discriminate].
  intros H; injection H as <-.
  destruct (build_map_spec c st (if_data f) Hm [] m) as ((ND & Hall) & _ & Hent); auto.
  { split; [constructor|]. intros ? ? H; discriminate. }
  split; [|split; [|subst; reflexivity]].
  - intros k. rewrite import_rules_view by exact ND.
    destruct (lookup k m) as [v|] eqn:El; [|apply sp_ge_refl].
    destruct (Hall k v El) as [[G1 [G2 G3]] [N1 [N2 N3]]]. cbn in N1, N2, N3.
    unfold sp_ge, apply_sp, export_view in *; cbn [sp_slot sp_src sp_tgt] in *.
    destruct (Z.eqb_spec (sp_slot v) (-1)); destruct (Z.eqb_spec (sp_src v) (-1)); lia.
  - intros en k Hin Hk. destruct (Hent en k Hin Hk) as (v & Hl & (Ha & Hb)).
    rewrite import_rules_view by exact ND. rewrite Hl.
    destruct (Hall k v Hl) as [[G1 [G2 G3]] _].
    assert (Hnn : forall z, num_ok c z = true -> 0 <= z).
    { intros z Hz. unfold num_ok in Hz. rewrite Hr in Hz. cbn [andb] in Hz. apply negb_true_iff, Z.ltb_ge in Hz. exact Hz. }
    split.
    + intros a b Hab. destruct (Ha a b Hab) as (A1 & A2 & A3 & A4).
      pose proof (Hnn _ A3). pose proof (Hnn _ A4).
      unfold apply_sp; cbn [sp_slot sp_src sp_tgt]. destruct (Z.eqb_spec (sp_src v) (-1)); [lia|].
      split; [lia|split; [lia|split; assumption]].
    + intros z Hz. destruct (Hb z Hz) as (B1 & B2). pose proof (Hnn _ B2).
      unfold apply_sp; cbn [sp_slot sp_src sp_tgt]. destruct (Z.eqb_spec (sp_slot v) (-1)); [lia|].
      split; [lia|assumption].
Qed.

(* an import that fails for any reason leaves the store as it was (the model returns no store;
   the statement is that IErr carries none - nothing is written before the final rules-level import) *)
Lemma import_wrong_meta c st f ver gvr :
  if_meta f = Some (ver, gvr) -> (ver <> "5"%string \/ gvr <> ic_gvr c) -> import_cmd c st f = IErr.
Proof.
  intros Hmeta H. unfold import_cmd. rewrite Hmeta.
  destruct (String.eqb_spec ver "5"); [|reflexivity]. cbn [negb].
  destruct (String.eqb (ic_gvr c) ""); [reflexivity|]. destruct (ic_gvr_ok c); [|reflexivity]. cbn [negb].
  destruct (String.eqb_spec (ic_gvr c) gvr); [|reflexivity]. destruct H; congruence.
Qed.

(* ---- C10, refusal after the import ---- *)

Lemma att_refused_below c dom a s t :
  0 <= s -> 0 <= t ->
  (t <= a_tgt a \/ s < a_src a) ->
  fst (att_checks c dom a s t) <> RApproved.
Proof.
  intros Hs Ht H. unfold att_checks.
  destruct (negb _); [cbn; discriminate|]. destruct (_ && _); [cbn; discriminate|].
  destruct (_ && _); [cbn; discriminate|].
  destruct H as [H|H].
  - assert (E : (0 <=? a_tgt a) && (t <=? to_uint64 (a_tgt a)) = true).
    { apply andb_true_iff. split; [apply Z.leb_le; lia|]. unfold to_uint64.
      destruct (a_tgt a <? 0) eqn:E'; [apply Z.ltb_lt in E'; lia|]. apply Z.leb_le; lia. }
    rewrite E. cbn; discriminate.
  - destruct (_ && _); [cbn; discriminate|].
    assert (E : (0 <=? a_src a) && (s <? to_uint64 (a_src a)) = true).
    { apply andb_true_iff. split; [apply Z.leb_le; lia|]. unfold to_uint64.
      destruct (a_src a <? 0) eqn:E'; [apply Z.ltb_lt in E'; lia|]. apply Z.ltb_lt; lia. }
    rewrite E. cbn; discriminate.
Qed.

Lemma prop_refused_below c st f r :
  0 <= p_slot r -> p_slot r <= view_prop st (p_key r) -> fst (on_prop c st f r) <> RApproved.
Proof.
  intros Hs H. unfold on_prop.
  destruct (negb _); [cbn; discriminate|]. destruct (fetch_fails f 0); [cbn; discriminate|].
  destruct (_ && _); [cbn; discriminate|].
  assert (E : (0 <=? view_prop st (p_key r)) && (p_slot r <=? to_uint64 (view_prop st (p_key r))) = true).
  { apply andb_true_iff. split; [apply Z.leb_le; lia|]. unfold to_uint64.
    destruct (view_prop st (p_key r) <? 0) eqn:E'; [apply Z.ltb_lt in E'; lia|]. apply Z.leb_le; lia. }
  rewrite E. cbn; discriminate.
Qed.

(* ---- the legacy merge loses protection (F3) ---- *)

Definition f3_cfg (fieldwise : bool) : icfg :=
  {| ic_gvr := "0x00"; ic_gvr_ok := true; merge_fieldwise := fieldwise; reject_negative := fieldwise |}.
Definition f3_db : store := put_prop (put_att empty_store 1 {| a_src := 10; a_tgt := 20 |}) 1 5.
Definition f3_file : ifile :=
  {| if_meta := Some ("5"%string, "0x00"%string);
     if_data := [{| fe_key := Some 1%N; fe_blocks := [PVal 100]; fe_atts := [(PVal 5, PVal 30)] |}] |}.

Lemma legacy_import_loses :
  exists st', import_cmd (f3_cfg false) f3_db f3_file = IOk st' /\
              view_prop st' 1 = 5 /\ a_tgt (view_att st' 1) = 20.
Proof. eexists. split; [vm_compute; reflexivity|]. split; reflexivity. Qed.

Lemma fixed_import_keeps :
  exists st', import_cmd (f3_cfg true) f3_db f3_file = IOk st' /\
              view_prop st' 1 = 100 /\ view_att st' 1 = {| a_src := 10; a_tgt := 30 |}.
Proof. eexists. split; [vm_compute; reflexivity|]. split; reflexivity. Qed.

(* a negative source hides the record's target from the rules-level import *)
Definition neg_file : ifile :=
  {| if_meta := Some ("5"%string, "0x00"%string);
     if_data := [{| fe_key := Some 1%N; fe_blocks := []; fe_atts := [(PVal (-1), PVal 100)] |}] |}.
Lemma negative_source_loses :
  exists st', import_cmd {| ic_gvr := "0x00"; ic_gvr_ok := true; merge_fieldwise := true; reject_negative := false |}
                empty_store neg_file = IOk st' /\ a_tgt (view_att st' 1) = -1.
Proof. eexists. split; [vm_compute; reflexivity|reflexivity]. Qed.
