package main

import (
	"context"
	"encoding/hex"
	"encoding/json"
	"fmt"
	"os"
	"os/exec"
	"path/filepath"
	"strconv"
	"strings"

	"github.com/attestantio/dirk/rules"
	standardrules "github.com/attestantio/dirk/rules/standard"
)

// ---- the interchange file as the harness generates it ----

type jNum struct {
	Text string // as written in the file
	Null bool   // the enclosing record is null
}

type jAtt struct {
	Null     bool
	Src, Tgt string
}

type jEntry struct {
	Null   bool
	Key    string // hex text as written
	Blocks []jNum
	Atts   []jAtt
}

type jFile struct {
	NoMeta  bool
	Version string
	GVR     string
	Data    []jEntry
}

func (f *jFile) JSON() []byte {
	var b strings.Builder
	b.WriteString("{")
	if !f.NoMeta {
		fmt.Fprintf(&b, `"metadata":{"interchange_format_version":%q,"genesis_validators_root":%q},`, f.Version, f.GVR)
	}
	b.WriteString(`"data":[`)
	for i, e := range f.Data {
		if i > 0 {
			b.WriteString(",")
		}
		if e.Null {
			b.WriteString("null")
			continue
		}
		fmt.Fprintf(&b, `{"pubkey":%q`, e.Key)
		if len(e.Blocks) > 0 {
			b.WriteString(`,"signed_blocks":[`)
			for j, n := range e.Blocks {
				if j > 0 {
					b.WriteString(",")
				}
				if n.Null {
					b.WriteString("null")
				} else {
					fmt.Fprintf(&b, `{"slot":%q}`, n.Text)
				}
			}
			b.WriteString("]")
		}
		if len(e.Atts) > 0 {
			b.WriteString(`,"signed_attestations":[`)
			for j, a := range e.Atts {
				if j > 0 {
					b.WriteString(",")
				}
				if a.Null {
					b.WriteString("null")
				} else {
					fmt.Fprintf(&b, `{"source_epoch":%q,"target_epoch":%q}`, a.Src, a.Tgt)
				}
			}
			b.WriteString("]")
		}
		b.WriteString("}")
	}
	b.WriteString("]}")
	return []byte(b.String())
}

// keyTable numbers the distinct 48-byte keys (after Go's copy into [48]byte).
type keyTable struct {
	ids  map[[48]byte]int
	keys [][48]byte
}

func newKeyTable() *keyTable { return &keyTable{ids: map[[48]byte]int{}} }

func (t *keyTable) id(k [48]byte) int {
	if id, ok := t.ids[k]; ok {
		return id
	}
	id := len(t.keys) + 1
	t.ids[k] = id
	t.keys = append(t.keys, k)
	return id
}

func coqPnum(text string, null bool) string {
	if null {
		return "PErr"
	}
	v, err := strconv.ParseInt(text, 10, 64)
	if err != nil {
		return "PErr"
	}
	return fmt.Sprintf("(PVal %s)", coqZ(v))
}

func (f *jFile) coq(t *keyTable) string {
	meta := "None"
	if !f.NoMeta {
		meta = fmt.Sprintf("(Some (%s, %s))", coqStr(f.Version), coqStr(f.GVR))
	}
	var entries []string
	for _, e := range f.Data {
		key := "None"
		if !e.Null {
			if raw, err := hex.DecodeString(strings.TrimPrefix(e.Key, "0x")); err == nil {
				var k [48]byte
				copy(k[:], raw)
				key = fmt.Sprintf("(Some %s)", coqN(t.id(k)))
			}
		}
		var bl, at []string
		for _, n := range e.Blocks {
			bl = append(bl, coqPnum(n.Text, n.Null))
		}
		for _, a := range e.Atts {
			if a.Null {
				at = append(at, "(PErr, PErr)")
			} else {
				at = append(at, fmt.Sprintf("(%s, %s)", coqPnum(a.Src, false), coqPnum(a.Tgt, false)))
			}
		}
		entries = append(entries, fmt.Sprintf("(FE %s %s %s)", key, coqList(bl), coqList(at)))
	}
	return fmt.Sprintf("(IF %s %s)", meta, coqList(entries))
}

// ---- running the real binary ----

type dirkBin struct {
	path string
}

func buildDirk(out string) (*dirkBin, error) {
	bin := filepath.Join(out, "dirk-bin")
	cmd := exec.Command("go", "build", "-o", bin, ".")
	cmd.Dir = "/repo"
	cmd.Env = append(os.Environ(), "GOFLAGS=-mod=mod", "GOPROXY=off", "GOSUMDB=off", "GOTOOLCHAIN=local")
	if b, err := cmd.CombinedOutput(); err != nil {
		return nil, fmt.Errorf("building dirk: %v: %s", err, b)
	}
	return &dirkBin{path: bin}, nil
}

// baseDir creates a base directory with a dirk.yml whose storage path is <dir>/storage.
func newBaseDir() (string, error) {
	d, err := os.MkdirTemp("", "vh-dirk-")
	if err != nil {
		return "", err
	}
	// every second base directory names its store by a relative path (resolved against the base directory, like
	// the default "storage"); the commands are run from some other working directory (dirkBin.run)
	baseDirs++
	sp := filepath.Join(d, "storage")
	if baseDirs%2 == 0 {
		sp = "storage"
	}
	yml := fmt.Sprintf("server:\n  name: verif\nstorage-path: %s\n", sp)
	return d, os.WriteFile(filepath.Join(d, "dirk.yml"), []byte(yml), 0o600)
}

var baseDirs int

func (d *dirkBin) run(base string, args ...string) (int, string) {
	cmd := exec.Command(d.path, append([]string{"--base-dir", base}, args...)...)
	cmd.Env = append(os.Environ(), "HOME="+base)
	if cwd, cerr := os.MkdirTemp("", "vh-cwd-"); cerr == nil {
		cmd.Dir = cwd // not the base directory: where the command is started from must not matter
		defer os.RemoveAll(cwd)
	}
	out, err := cmd.CombinedOutput()
	if err == nil {
		return 0, string(out)
	}
	if ee, ok := err.(*exec.ExitError); ok {
		return ee.ExitCode(), string(out)
	}
	return -1, err.Error()
}

// rawStore opens the rules store of a base dir, applies fn and closes it.
func withRules(ctx context.Context, base string, fn func(r *standardrules.Service) error) error {
	r, err := newRules(ctx, standardrules.WithStoragePath(filepath.Join(base, "storage")))
	if err != nil {
		return err
	}
	defer closeRules(ctx, r)
	return fn(r)
}

func readRaw(ctx context.Context, r *standardrules.Service, t *keyTable) (*StoreView, error) {
	raw, err := r.VerifRaw(ctx)
	if err != nil {
		return nil, err
	}
	sv := &StoreView{Att: map[int]AttRec{}, Prop: map[int]int64{}}
	for k, v := range raw {
		var pk [48]byte
		copy(pk[:], k[:48])
		id := t.id(pk)
		switch k[48] {
		case 2:
			if len(v) == 17 && v[0] == 1 {
				sv.Att[id] = AttRec{int64(leU64(v[1:9])), int64(leU64(v[9:17]))}
			}
		case 3:
			if len(v) == 9 && v[0] == 1 {
				sv.Prop[id] = int64(leU64(v[1:9]))
			}
		}
	}
	return sv, nil
}

func leU64(b []byte) uint64 {
	var x uint64
	for i := 7; i >= 0; i-- {
		x = x<<8 | uint64(b[i])
	}
	return x
}

const testGVR = "0x043db0d9a83813551ee2f33450d23797757d430911a9320530ad8a0eabc43efb"

type importCase struct {
	ID     int
	Pre    *StoreView
	File   *jFile
	GVR    string
	Exit   int
	Post   *StoreView
	Output string
}

func mkKey(i int) [48]byte {
	var k [48]byte
	for j := range k {
		k[j] = byte(i*17 + j)
	}
	k[0] = byte(0xa0 + i)
	return k
}

func hexKey(k [48]byte) string { return "0x" + hex.EncodeToString(k[:]) }

// cmdImport drives C10: the real binary's --import-slashing-protection on generated
// (prior database x file) pairs and import sequences.
func cmdImport(args []string) int {
	cf := parseCommon("C10", args, nil)
	ctx := context.Background()
	initBLS()
	bin, err := buildDirk(cf.out)
	if err != nil {
		fmt.Fprintln(os.Stderr, err)
		return 2
	}
	rng := NewPRNG(cf.seed)
	nSeq := 45
	if cf.tier == "thorough" {
		nSeq = 600
	}
	kt := newKeyTable()
	keys := [][48]byte{mkKey(1), mkKey(2), mkKey(3)}
	for _, k := range keys {
		kt.id(k)
	}
	vals := []int64{0, 1, 5, 10, 20, 100, 1 << 40, 1<<62 + 7}
	var cases []importCase
	var monFail []string
	stats := map[string]int{}
	var samples []string

	genNum := func(around int64) string {
		switch rng.Intn(160) {
		case 0:
			return "-1"
		case 1:
			return fmt.Sprint(-1 - int64(rng.Intn(50)))
		case 2:
			return "9223372036854775808" // out of int64 range
		case 3:
			return "abc"
		case 4:
			return ""
		case 5:
			return "+" + fmt.Sprint(around+1)
		case 6:
			return "007"
		case 7:
			return "9223372036854775807"
		}
		switch rng.Intn(5) {
		case 0:
			if around > 0 {
				return fmt.Sprint(around - 1 - int64(rng.Intn(int(min64(uint64(around), 5)))))
			}
			return "0"
		case 1:
			return fmt.Sprint(around)
		case 2:
			return fmt.Sprint(around + 1 + int64(rng.Intn(10)))
		default:
			return fmt.Sprint(vals[rng.Intn(len(vals))])
		}
	}

	for seq := 0; seq < nSeq; seq++ {
		base, err := newBaseDir()
		if err != nil {
			return 2
		}
		// prior database
		prior := map[int][3]int64{} // key index -> slot, src, tgt (-1 none)
		err = withRules(ctx, base, func(r *standardrules.Service) error {
			for i, k := range keys {
				p := [3]int64{-1, -1, -1}
				if rng.Chance(60) {
					s := vals[rng.Intn(5)]
					p[1], p[2] = s, s+vals[rng.Intn(5)]+1
					if err := r.VerifPutRaw(ctx, recKey(k[:], 2), encodeAtt(p[1], p[2])); err != nil {
						return err
					}
				}
				if rng.Chance(60) {
					p[0] = vals[rng.Intn(6)]
					if err := r.VerifPutRaw(ctx, recKey(k[:], 3), encodeProp(p[0])); err != nil {
						return err
					}
				}
				prior[i] = p
			}
			return nil
		})
		if err != nil {
			fmt.Fprintln(os.Stderr, "prior:", err)
			return 2
		}
		nImports := 1 + rng.Intn(3)
		for imp := 0; imp < nImports; imp++ {
			f := &jFile{Version: "5", GVR: testGVR}
			gvr := testGVR
			switch rng.Intn(50) {
			case 0:
				f.Version = "4"
				stats["meta.version"]++
			case 1:
				f.GVR = "0x" + strings.Repeat("11", 32)
				stats["meta.gvr"]++
			case 2:
				f.NoMeta = true
				stats["meta.absent"]++
			case 3:
				f.GVR = strings.ToUpper(testGVR[2:]) // same bytes, other spelling
				stats["meta.gvr-spelling"]++
			case 4, 5:
				// roots that are not the configured one but a piece of it
				f.GVR = []string{"", "0x", "0x" + testGVR[len(testGVR)-2:], testGVR[2:], testGVR[:len(testGVR)-2], "0X" + testGVR[2:], testGVR + "00"}[rng.Intn(7)]
				stats["meta.gvr-piece"]++
			}
			nEnt := 1 + rng.Intn(4)
			for e := 0; e < nEnt; e++ {
				ki := rng.Intn(len(keys))
				ent := jEntry{Key: hexKey(keys[ki])}
				switch rng.Intn(90) {
				case 0:
					ent.Key = "0xzz" + ent.Key[4:]
					stats["key.badhex"]++
				case 1:
					ent.Key = ent.Key[:len(ent.Key)-2] // 47 bytes
					stats["key.short"]++
				case 2:
					ent.Key += "ff" // 49 bytes: truncated to the same key
					stats["key.long"]++
				case 3:
					ent.Null = true
					stats["entry.null"]++
				case 4:
					ent.Key = strings.TrimPrefix(ent.Key, "0x")
					stats["key.noprefix"]++
				}
				p := prior[ki]
				for b := rng.Intn(3); b > 0; b-- {
					ent.Blocks = append(ent.Blocks, jNum{Text: genNum(p[0])})
				}
				for a := rng.Intn(3); a > 0; a-- {
					if rng.Chance(2) {
						ent.Atts = append(ent.Atts, jAtt{Null: true})
						continue
					}
					ent.Atts = append(ent.Atts, jAtt{Src: genNum(p[1]), Tgt: genNum(p[2])})
				}
				f.Data = append(f.Data, ent)
			}
			var pre *StoreView
			if err := withRules(ctx, base, func(r *standardrules.Service) error {
				var e error
				pre, e = readRaw(ctx, r, kt)
				return e
			}); err != nil {
				fmt.Fprintln(os.Stderr, "pre:", err)
				return 2
			}
			fpath := filepath.Join(base, "import.json")
			if err := os.WriteFile(fpath, f.JSON(), 0o600); err != nil {
				return 2
			}
			code, out := bin.run(base, "--import-slashing-protection", "--slashing-protection-file", fpath, "--genesis-validators-root", gvr)
			var post *StoreView
			var probeFail []string
			if err := withRules(ctx, base, func(r *standardrules.Service) error {
				var e error
				post, e = readRaw(ctx, r, kt)
				if e != nil {
					return e
				}
				if code == 0 {
					probeFail = probeAfterImport(ctx, r, f, pre, kt)
				}
				return nil
			}); err != nil {
				fmt.Fprintln(os.Stderr, "post:", err)
				return 2
			}
			if code != 0 && fmtStore(pre) != fmtStore(post) {
				probeFail = append(probeFail, fmt.Sprintf("import exited %d but changed the database: %s -> %s", code, fmtStore(pre), fmtStore(post)))
			}
			c := importCase{ID: len(cases) + 1, Pre: pre, File: f, GVR: gvr, Exit: code, Post: post, Output: out}
			cases = append(cases, c)
			for _, pf := range probeFail {
				monFail = append(monFail, fmt.Sprintf("%s :: import #%d of sequence %d: db before %s, file %s, exit %d, db after %s", pf, imp, seq, fmtStore(pre), string(f.JSON()), code, fmtStore(post)))
			}
			if code == 0 {
				stats["exit.ok"]++
			} else {
				stats[fmt.Sprintf("exit.%d", code)]++
			}
			if len(samples) < 5 {
				samples = append(samples, fmt.Sprintf("db %s + file %s => exit %d, db %s", fmtStore(pre), string(f.JSON()), code, fmtStore(post)))
			}
			// later imports of the sequence see the new database
			for i, k := range keys {
				id := kt.id(k)
				p := [3]int64{-1, -1, -1}
				if v, ok := post.Prop[id]; ok {
					p[0] = v
				}
				if v, ok := post.Att[id]; ok {
					p[1], p[2] = v.Src, v.Tgt
				}
				prior[i] = p
			}
		}
		os.RemoveAll(base)
	}

	// the shape of the file itself: one JSON document (blanks after it are fine) is imported; anything else -
	// two documents one after the other, text after the document, a document cut short, nothing - is refused
	// and leaves the database alone
	{
		hexKey := fmt.Sprintf("0x%x", keys[0][:])
		f1 := &jFile{Version: "5", GVR: testGVR, Data: []jEntry{{Key: hexKey, Blocks: []jNum{{Text: "100"}}, Atts: []jAtt{{Src: "10", Tgt: "20"}}}}}
		f2 := &jFile{Version: "5", GVR: testGVR, Data: []jEntry{{Key: hexKey, Blocks: []jNum{{Text: "200"}}, Atts: []jAtt{{Src: "40", Tgt: "50"}}}}}
		d1, d2 := string(f1.JSON()), string(f2.JSON())
		shapes := []struct {
			name  string
			raw   string
			valid bool
		}{
			{"one document followed by blanks and a newline", d1 + "  \n", true},
			{"two documents one after the other", d1 + d2, false},
			{"two documents on two lines", d1 + "\n" + d2 + "\n", false},
			{"a document followed by text", d1 + "xyz", false},
			{"a document followed by an opening brace", d1 + "\n{", false},
			{"a document cut short", d1[:len(d1)-1], false},
			{"an empty file", "", false},
		}
		// ... and files whose genesis validators root is not the configured one but a piece or another spelling of it
		for _, piece := range []string{"", "0x", "0x" + testGVR[len(testGVR)-2:], "0x" + testGVR[len(testGVR)-8:], testGVR[:len(testGVR)-2], testGVR + "00"} {
			fp := &jFile{Version: "5", GVR: piece, Data: f1.Data}
			shapes = append(shapes, struct {
				name  string
				raw   string
				valid bool
			}{fmt.Sprintf("a document whose genesis validators root is %q", piece), string(fp.JSON()), false})
		}
		for _, sh := range shapes {
			base, err := newBaseDir()
			if err != nil {
				return 2
			}
			fpath := filepath.Join(base, "import.json")
			if err := os.WriteFile(fpath, []byte(sh.raw), 0o600); err != nil {
				return 2
			}
			code, _ := bin.run(base, "--import-slashing-protection", "--slashing-protection-file", fpath, "--genesis-validators-root", testGVR)
			var post *StoreView
			var probeFail []string
			if err := withRules(ctx, base, func(r *standardrules.Service) error {
				var e error
				post, e = readRaw(ctx, r, kt)
				if e != nil {
					return e
				}
				if code == 0 {
					empty := &StoreView{Att: map[int]AttRec{}, Prop: map[int]int64{}}
					probeFail = probeAfterImport(ctx, r, f1, empty, kt)
					if !sh.valid {
						probeFail = append(probeFail, probeAfterImport(ctx, r, f2, empty, kt)...)
						probeFail = append(probeFail, "a file that must be refused was imported")
					}
				}
				return nil
			}); err != nil {
				fmt.Fprintln(os.Stderr, "shape:", err)
				return 2
			}
			stats["fileshape."+fmt.Sprint(code == 0)]++
			switch {
			case sh.valid && code != 0:
				monFail = append(monFail, fmt.Sprintf("file shape [%s]: a well-formed interchange file was refused (exit %d)", sh.name, code))
			case !sh.valid && code != 0 && (len(post.Att) > 0 || len(post.Prop) > 0):
				monFail = append(monFail, fmt.Sprintf("file shape [%s]: the import was refused (exit %d) but changed the empty database to %s", sh.name, code, fmtStore(post)))
			}
			for _, pf := range probeFail {
				monFail = append(monFail, fmt.Sprintf("file shape [%s] %q: the import reported success, database afterwards %s: %s", sh.name, sh.raw, fmtStore(post), pf))
			}
			os.RemoveAll(base)
		}
	}

	// a file in which keys without any history stand among keys with history: every key with history is imported
	{
		base, err := newBaseDir()
		if err != nil {
			return 2
		}
		f := &jFile{Version: "5", GVR: testGVR}
		var withHistory [][48]byte
		for i := 0; i < 14; i++ {
			var k [48]byte
			copy(k[:], rng.Bytes(48))
			e := jEntry{Key: fmt.Sprintf("0x%x", k[:])}
			if i%4 != 3 {
				e.Blocks = []jNum{{Text: "200"}}
				e.Atts = []jAtt{{Src: "40", Tgt: "50"}}
				withHistory = append(withHistory, k)
			}
			f.Data = append(f.Data, e)
		}
		fpath := filepath.Join(base, "import.json")
		if err := os.WriteFile(fpath, f.JSON(), 0o600); err != nil {
			return 2
		}
		code, _ := bin.run(base, "--import-slashing-protection", "--slashing-protection-file", fpath, "--genesis-validators-root", testGVR)
		if err := withRules(ctx, base, func(r *standardrules.Service) error {
			exp, err := r.ExportSlashingProtection(ctx)
			if err != nil {
				return err
			}
			missing := 0
			for _, k := range withHistory {
				if e := exp[k]; code == 0 && (e == nil || e.HighestProposedSlot < 200 || e.HighestAttestedSourceEpoch < 40 || e.HighestAttestedTargetEpoch < 50) {
					missing++
				}
			}
			if missing > 0 {
				monFail = append(monFail, fmt.Sprintf("import of a file with %d keys, %d of them with history (slot 200, 40->50) and the others without any: exit %d, but %d of the keys with history have no such record afterwards", len(f.Data), len(withHistory), code, missing))
			}
			stats["historyless.keys-checked"] = len(withHistory)
			return nil
		}); err != nil {
			return 2
		}
		os.RemoveAll(base)
	}
	// records in the format of early releases in the database: they count for the "never lower" rule like any other
	{
		base, err := newBaseDir()
		if err != nil {
			return 2
		}
		var k [48]byte
		copy(k[:], rng.Bytes(48))
		if err := withRules(ctx, base, func(r *standardrules.Service) error {
			if err := r.VerifPutRaw(ctx, recKey(k[:], 2), gobBytes(&signBeaconAttestationState{SourceEpoch: 400, TargetEpoch: 500})); err != nil {
				return err
			}
			return r.VerifPutRaw(ctx, recKey(k[:], 3), gobBytes(&signBeaconProposalState{Slot: 5000}))
		}); err != nil {
			return 2
		}
		old := &jFile{Version: "5", GVR: testGVR, Data: []jEntry{{Key: fmt.Sprintf("0x%x", k[:]), Blocks: []jNum{{Text: "100"}}, Atts: []jAtt{{Src: "40", Tgt: "50"}}}}}
		fpath := filepath.Join(base, "import.json")
		if err := os.WriteFile(fpath, old.JSON(), 0o600); err != nil {
			return 2
		}
		code, _ := bin.run(base, "--import-slashing-protection", "--slashing-protection-file", fpath, "--genesis-validators-root", testGVR)
		if err := withRules(ctx, base, func(r *standardrules.Service) error {
			exp, err := r.ExportSlashingProtection(ctx)
			if err != nil {
				return err
			}
			if e := exp[k]; e == nil || e.HighestProposedSlot < 5000 || e.HighestAttestedSourceEpoch < 400 || e.HighestAttestedTargetEpoch < 500 {
				monFail = append(monFail, fmt.Sprintf("database with records in the legacy format (slot 5000, 400->500); import of an older file (slot 100, 40->50) exited %d and left %+v: the import lowered the protection", code, e))
			}
			stats["legacy-database.imports"]++
			return nil
		}); err != nil {
			return 2
		}
		os.RemoveAll(base)
	}
	// a database of more than a hundred records (the import reads every existing record in order to keep the
	// higher of old and new): an older file for a key that comes early in key order must lower nothing
	{
		base, err := newBaseDir()
		if err != nil {
			return 2
		}
		var first [48]byte
		first[0] = 0x01
		if err := withRules(ctx, base, func(r *standardrules.Service) error {
			prot := map[[48]byte]*rules.SlashingProtection{}
			for i := 0; i < 150; i++ {
				var k [48]byte
				copy(k[:], rng.Bytes(48))
				if k[0] < 0x10 {
					k[0] |= 0x10 // after the key under test
				}
				prot[k] = &rules.SlashingProtection{PubKey: append([]byte{}, k[:]...), HighestProposedSlot: int64(10 + i), HighestAttestedSourceEpoch: int64(i), HighestAttestedTargetEpoch: int64(i + 1)}
			}
			prot[first] = &rules.SlashingProtection{PubKey: append([]byte{}, first[:]...), HighestProposedSlot: 5000, HighestAttestedSourceEpoch: 400, HighestAttestedTargetEpoch: 500}
			return r.ImportSlashingProtection(ctx, prot)
		}); err != nil {
			fmt.Fprintln(os.Stderr, "large database:", err)
			return 2
		}
		old := &jFile{Version: "5", GVR: testGVR, Data: []jEntry{{Key: fmt.Sprintf("0x%x", first[:]), Blocks: []jNum{{Text: "100"}}, Atts: []jAtt{{Src: "40", Tgt: "50"}}}}}
		fpath := filepath.Join(base, "import.json")
		if err := os.WriteFile(fpath, old.JSON(), 0o600); err != nil {
			return 2
		}
		code, _ := bin.run(base, "--import-slashing-protection", "--slashing-protection-file", fpath, "--genesis-validators-root", testGVR)
		stats["large-database.exit"] = code
		if err := withRules(ctx, base, func(r *standardrules.Service) error {
			exp, err := r.ExportSlashingProtection(ctx)
			if err != nil {
				return err
			}
			e := exp[first]
			if e == nil || e.HighestProposedSlot < 5000 || e.HighestAttestedSourceEpoch < 400 || e.HighestAttestedTargetEpoch < 500 {
				monFail = append(monFail, fmt.Sprintf("database of 302 records, key %x... at slot 5000 and attestation 400->500; import of an older file for it (slot 100, 40->50) exited %d and left the record at %+v: the import lowered the protection", first[:4], code, e))
			}
			return nil
		}); err != nil {
			fmt.Fprintln(os.Stderr, "large database:", err)
			return 2
		}
		os.RemoveAll(base)
	}

	// cases file
	var b strings.Builder
	b.WriteString("From DV Require Import Corr.CheckImport.\nLocal Open Scope Z_scope.\nLocal Open Scope string_scope.\n")
	fmt.Fprintf(&b, "Definition fixed : bool := %s.\n", coqBool(cf.g63))
	b.WriteString("Definition cases : list imcase := [\n")
	idx := map[string]string{}
	distinct := map[string]bool{}
	for i, c := range cases {
		if i > 0 {
			b.WriteString(";\n")
		}
		fmt.Fprintf(&b, " IM %s %s %s %s %s %s", coqN(c.ID), coqStr(c.GVR), coqStore(c.Pre), c.File.coq(kt), coqBool(c.Exit == 0), coqStore(c.Post))
		idx[fmt.Sprint(c.ID)] = fmt.Sprintf("db %s + file %s (root %s) => exit %d, db %s", fmtStore(c.Pre), string(c.File.JSON()), c.GVR, c.Exit, fmtStore(c.Post))
		distinct[fmtStore(c.Pre)+string(c.File.JSON())] = true
	}
	b.WriteString("].\n")
	var kids []string
	for i := range kt.keys {
		kids = append(kids, coqN(i+1))
	}
	fmt.Fprintf(&b, "Definition keys : list N := %s.\n", coqList(kids))
	b.WriteString("Definition M := Eval vm_compute in import_mismatches fixed keys cases.\nPrint M.\n")
	b.WriteString("Definition D := Eval vm_compute in import_diag fixed keys cases.\nPrint D.\n")
	if err := os.WriteFile(filepath.Join(cf.out, "cases_C10_0.v"), []byte(b.String()), 0o644); err != nil {
		return 2
	}
	// thorough tier: one very large import through the rules service (more records than one store
	// transaction holds): every record must be there afterwards
	if cf.tier == "thorough" {
		base, err := os.MkdirTemp("", "vh-c10-big-")
		if err != nil {
			return 2
		}
		const nKeys = 60000
		err = withRules(ctx, base, func(r *standardrules.Service) error {
			prot := make(map[[48]byte]*rules.SlashingProtection, nKeys)
			for i := 0; i < nKeys; i++ {
				var k [48]byte
				copy(k[:], rng.Bytes(48))
				prot[k] = &rules.SlashingProtection{PubKey: append([]byte{}, k[:]...), HighestProposedSlot: 1000 + int64(i), HighestAttestedSourceEpoch: 100, HighestAttestedTargetEpoch: 101}
			}
			if err := r.ImportSlashingProtection(ctx, prot); err != nil {
				return err
			}
			raw, err := r.VerifRaw(ctx)
			if err != nil {
				return err
			}
			missing := 0
			for k := range prot {
				for _, action := range []byte{2, 3} {
					var rk [49]byte
					copy(rk[:], k[:])
					rk[48] = action
					if _, ok := raw[rk]; !ok {
						missing++
					}
				}
			}
			stats["big-import.records"] = len(raw)
			if missing > 0 {
				monFail = append(monFail, fmt.Sprintf("an import of %d keys (%d records) reported success but %d records are missing from the store: those validators can sign at or below values the file lists", nKeys, 2*nKeys, missing))
			}
			return nil
		})
		_ = os.RemoveAll(base)
		if err != nil {
			monFail = append(monFail, "large import failed: "+err.Error())
		}
	}
	sum := &Summary{Property: "C10", Seed: cf.seed, Tier: cf.tier, Evaluations: len(cases), Distinct: len(distinct),
		Rule:         "runs of the real dirk binary's --import-slashing-protection on (prior database x interchange file) pairs: 3 keys with none/attestation/proposal/both records; files of 1-4 entries with repeated keys, 0-2 blocks and attestations per entry whose numbers are older / equal / newer than the database per field, negative, out of range, non-numeric, empty, signed or zero-padded; bad-hex / short / long / unprefixed keys, null entries; wrong version / root / no metadata; sequences of 1-3 imports on one database; after each successful import the store is probed at every file and prior value; distinct = distinct (database, file) pairs",
		Histories:    nSeq,
		Distribution: stats, Samples: samples, MonitorFailures: monFail, CaseFiles: []string{"cases_C10_0.v"}, CaseIndex: idx}
	if err := writeSummary(cf.out, sum); err != nil {
		return 2
	}
	return 0
}

// probeAfterImport: after a successful import every proposal at or below a listed or prior slot,
// every attestation at or below a listed or prior target, or below a listed or prior source,
// must be refused.
func probeAfterImport(ctx context.Context, r *standardrules.Service, f *jFile, pre *StoreView, kt *keyTable) []string {
	var fails []string
	type lim struct{ slots, srcs, tgts []int64 }
	limits := map[int]*lim{}
	get := func(id int) *lim {
		if limits[id] == nil {
			limits[id] = &lim{}
		}
		return limits[id]
	}
	for id, v := range pre.Prop {
		get(id).slots = append(get(id).slots, v)
	}
	for id, v := range pre.Att {
		get(id).srcs = append(get(id).srcs, v.Src)
		get(id).tgts = append(get(id).tgts, v.Tgt)
	}
	// a listed number above MaxInt64 (the format's numbers are unsigned) still says "everything up to here
	// was signed": after an import that reports success, MaxInt64 itself must be refused
	parseCap := func(text string) (int64, error) {
		if v, err := strconv.ParseInt(text, 10, 64); err == nil {
			return v, nil
		}
		if _, err := strconv.ParseUint(text, 10, 64); err == nil {
			return 1<<63 - 1, nil
		}
		return 0, fmt.Errorf("not a number")
	}
	for _, e := range f.Data {
		if e.Null {
			continue
		}
		raw, err := hex.DecodeString(strings.TrimPrefix(e.Key, "0x"))
		if err != nil {
			continue
		}
		var k [48]byte
		copy(k[:], raw)
		id := kt.id(k)
		for _, n := range e.Blocks {
			if v, err := parseCap(n.Text); err == nil && !n.Null {
				get(id).slots = append(get(id).slots, v)
			}
		}
		for _, a := range e.Atts {
			if a.Null {
				continue
			}
			if v, err := parseCap(a.Src); err == nil {
				get(id).srcs = append(get(id).srcs, v)
			}
			if v, err := parseCap(a.Tgt); err == nil {
				get(id).tgts = append(get(id).tgts, v)
			}
		}
	}
	for id, l := range limits {
		key := kt.keys[id-1]
		md := &rules.ReqMetadata{Account: "probe", PubKey: key[:], Client: "probe", IP: "10.0.0.1"}
		for _, s := range l.slots {
			if s < 0 {
				continue
			}
			res := r.OnSignBeaconProposal(ctx, md, &rules.SignBeaconProposalData{Domain: mkDomain(domProposer, 0), Slot: uint64(s), ParentRoot: fill32(0), StateRoot: fill32(9), BodyRoot: fill32(9)})
			if res == rules.APPROVED {
				fails = append(fails, fmt.Sprintf("after a successful import a proposal at slot %d (listed in the file or already in the database) for key#%d is approved", s, id))
			}
		}
		var maxSrc int64 = 0
		for _, s := range l.srcs {
			if s > maxSrc {
				maxSrc = s
			}
		}
		for _, t := range l.tgts {
			if t < 0 {
				continue
			}
			src := uint64(maxSrc)
			if uint64(t) <= src {
				if t == 0 {
					src = 0
				} else {
					src = uint64(t) - 1
				}
			}
			res := r.OnSignBeaconAttestation(ctx, md, &rules.SignBeaconAttestationData{Domain: mkDomain(domAttester, 0), BeaconBlockRoot: fill32(9),
				Source: &rules.Checkpoint{Epoch: src, Root: fill32(0)}, Target: &rules.Checkpoint{Epoch: uint64(t), Root: fill32(9)}})
			if res == rules.APPROVED {
				fails = append(fails, fmt.Sprintf("after a successful import an attestation %d->%d (target listed in the file or already in the database) for key#%d is approved", src, t, id))
			}
		}
		for _, s := range l.srcs {
			if s <= 0 {
				continue
			}
			res := r.OnSignBeaconAttestation(ctx, md, &rules.SignBeaconAttestationData{Domain: mkDomain(domAttester, 0), BeaconBlockRoot: fill32(9),
				Source: &rules.Checkpoint{Epoch: uint64(s - 1), Root: fill32(0)}, Target: &rules.Checkpoint{Epoch: 1<<63 - 1, Root: fill32(9)}})
			if res == rules.APPROVED {
				fails = append(fails, fmt.Sprintf("after a successful import an attestation with source %d, below source %d listed in the file or already in the database, for key#%d is approved", s-1, s, id))
			}
		}
	}
	return fails
}

var _ = json.Marshal
