(* C13 - invalid or failed key-generation exchanges create no account anywhere. *)
From DV Require Import Model.Dkg Proofs.DkgProofs.
Local Open Scope Z_scope.

(* (a) The receiving instance rejects, on either side of a swap, a contribution whose share does not
   match its vector at the receiver's identifier, and (repaired variant, check_len) one whose vector
   does not have exactly threshold entries; a rejection changes nothing. *)
Theorem C13_invalid_contribution_rejected :
  (forall c n acct sender share vvec,
     verify_contribution (nd_id n) share vvec = false -> on_contribute c n acct sender share vvec = DErr) /\
  (forall c n acct sender share vvec g,
     check_len c = true -> gfind acct (nd_gens n) = Some g -> List.length vvec <> g_thr g ->
     on_contribute c n acct sender share vvec = DErr) /\
  (forall c n acct peer share vvec,
     verify_contribution (nd_id n) share vvec = false -> accept_reply c n acct peer share vvec = DErr) /\
  (forall c n acct peer share vvec g,
     check_len c = true -> gfind acct (nd_gens n) = Some g -> List.length vvec <> g_thr g ->
     accept_reply c n acct peer share vvec = DErr).
Proof.
  split; [exact on_contribute_rejects_invalid|]. split; [exact on_contribute_rejects_length|].
  split; [exact accept_reply_rejects_invalid|exact accept_reply_rejects_length].
Qed.
Print Assumptions C13_invalid_contribution_rejected.

(* (b) If any prepare or any execute (hence any swap: a lost message, an error reply, a rejected
   contribution) fails, the generation ends with an error and, whatever the network did to the
   contributions (tm), the accounts held by every instance are exactly those held before: the
   initiator never sends commit. *)
Theorem C13_failed_exchange_creates_no_account :
  forall c tm acct thr parts poly cl,
    (fst (prepare_all acct thr parts poly parts cl) = false \/
     fst (execute_all c tm acct parts (snd (prepare_all acct thr parts poly parts cl))) = false) ->
    fst (generate c tm acct thr parts poly cl) = DErr /\
    accounts_of (snd (generate c tm acct thr parts poly cl)) = accounts_of cl.
Proof. exact failed_exchange_creates_nothing. Qed.
Print Assumptions C13_failed_exchange_creates_no_account.

(* (c) No contribution makes an instance crash: with the length check, for every behaviour of the
   network, the generation never reaches the out-of-range index of the aggregate vector. *)
Theorem C13_no_crash :
  forall c tm acct thr parts poly cl,
    check_len c = true -> cluster_inv c cl -> polys_ok c thr poly ->
    fst (generate c tm acct thr parts poly cl) <> DPanic.
Proof. exact generate_no_panic. Qed.
Print Assumptions C13_no_crash.

(* the pinned (pre-fix) receiving side: a vector one entry too long, consistent with its share, is
   accepted, and the commit indexes the threshold-sized aggregate out of range (F4) *)
Lemma C13_refuted_legacy :
  fst (generate {| check_len := false |} pad_vector "W/a" 2 [1; 2; 3]%N poly3 [mkn 1; mkn 2; mkn 3]) = DPanic.
Proof. exact legacy_long_vector_panics. Qed.

(* the same run with the check: refused, nobody holds an account *)
Example C13_example :
  generate {| check_len := true |} pad_vector "W/a" 2 [1; 2; 3]%N poly3 [mkn 1; mkn 2; mkn 3] =
  (DErr, snd (generate {| check_len := true |} pad_vector "W/a" 2 [1; 2; 3]%N poly3 [mkn 1; mkn 2; mkn 3])) /\
  accounts_of (snd (generate {| check_len := true |} pad_vector "W/a" 2 [1; 2; 3]%N poly3 [mkn 1; mkn 2; mkn 3])) =
  accounts_of [mkn 1; mkn 2; mkn 3].
Proof. exact fixed_long_vector_rejected. Qed.
