package main

import (
	"fmt"
	"strings"

	"github.com/attestantio/dirk/core"
	"github.com/attestantio/dirk/rules"
)

// Rendering of harness values as Gallina literals for the generated cases files.

func coqStr(s string) string { return `"` + strings.ReplaceAll(s, `"`, `""`) + `"` }

func coqBool(b bool) string {
	if b {
		return "true"
	}
	return "false"
}

func coqZ(x int64) string {
	if x < 0 {
		return fmt.Sprintf("(%d)", x)
	}
	return fmt.Sprintf("%d", x)
}

func coqU(x uint64) string { return fmt.Sprintf("%d", x) }

func coqN(x int) string { return fmt.Sprintf("%d%%N", x) }

// bytes: constant-filled slices become (R n x), others explicit lists
func coqBytes(b []byte) string {
	if len(b) == 0 {
		return "(@nil N)"
	}
	same := true
	for _, x := range b {
		if x != b[0] {
			same = false
			break
		}
	}
	if same && len(b) > 2 {
		return fmt.Sprintf("(R %d %d%%N)", len(b), b[0])
	}
	parts := make([]string, len(b))
	for i, x := range b {
		parts[i] = fmt.Sprint(x)
	}
	return "[" + strings.Join(parts, ";") + "]%N"
}

func coqOptBytes(b []byte) string {
	if b == nil {
		return "None"
	}
	return "(Some " + coqBytes(b) + ")"
}

func coqList(items []string) string { return "[" + strings.Join(items, "; ") + "]" }

func coqAddr(a Addr) string {
	switch {
	case a.HasKey && a.Name != "":
		return fmt.Sprintf("(nk %s %s)", coqStr(a.Name), coqN(a.KeyID))
	case a.HasKey:
		return fmt.Sprintf("(ky %s)", coqN(a.KeyID))
	default:
		return fmt.Sprintf("(nm %s)", coqStr(a.Name))
	}
}

func coqCP(c *Checkpoint) string {
	if c == nil {
		return "None"
	}
	return fmt.Sprintf("(CP %s %s)", coqU(c.Epoch), coqOptBytes(c.Root))
}

func coqAtt(d AttData) string {
	if d.Nil {
		return "None"
	}
	return fmt.Sprintf("(AD %s %s %s %s %s %s)", coqOptBytes(d.Dom), coqU(d.Slot), coqU(d.Idx), coqOptBytes(d.BBR), coqCP(d.Src), coqCP(d.Tgt))
}

func coqProp(d PropData) string {
	if d.Nil {
		return "None"
	}
	return fmt.Sprintf("(PD %s %s %s %s %s %s)", coqOptBytes(d.Dom), coqU(d.Slot), coqU(d.Pidx), coqOptBytes(d.Parent), coqOptBytes(d.State), coqOptBytes(d.Body))
}

func coqSign(d SignData) string {
	if d.Nil {
		return "None"
	}
	return fmt.Sprintf("(SD %s %s)", coqOptBytes(d.Dom), coqOptBytes(d.Data))
}

func coqRres(r rules.Result) string {
	return []string{"RUnknown", "RApproved", "RDenied", "RFailed"}[r]
}

func coqCres(r core.Result) string {
	return []string{"CUnknown", "CSucceeded", "CDenied", "CFailed"}[r]
}

func coqSFault(f SFault) string {
	u := []string{"UReal", "UIsErr", "UUnlockErr", "UWrong"}[f.Unlock]
	return fmt.Sprintf("(SF %s %s %s %s %s)", coqBool(f.Resolve), coqBool(f.Perm), u, coqBool(f.Sign), coqBool(f.NotSigner))
}

func coqFault(f OFault) string {
	if len(f.Pos) == 0 && f.Ruler == nil && len(f.Fetch) == 0 && !f.Store {
		return "NF"
	}
	pos := make([]string, len(f.Pos))
	for i, p := range f.Pos {
		pos[i] = coqSFault(p)
	}
	rl := "None"
	if f.Ruler != nil {
		rs := make([]string, len(f.Ruler))
		for i, r := range f.Ruler {
			rs[i] = coqRres(r)
		}
		rl = "(Some " + coqList(rs) + ")"
	}
	fe := make([]string, len(f.Fetch))
	for i, n := range f.Fetch {
		fe[i] = fmt.Sprintf("%d%%nat", n)
	}
	return fmt.Sprintf("(OF %s %s %s %s)", coqList(pos), rl, coqList(fe), coqBool(f.Store))
}

func coqOp(op *Op) string {
	c := fmt.Sprintf("(cl %s %s)", coqStr(op.Client), coqStr(op.IP))
	switch op.Kind {
	case KAttest:
		return fmt.Sprintf("(OAttest %s %s %s %s)", c, coqAddr(op.Addrs[0]), coqAtt(op.Atts[0]), coqFault(op.Fault))
	case KPropose:
		return fmt.Sprintf("(OPropose %s %s %s %s)", c, coqAddr(op.Addrs[0]), coqProp(op.Props[0]), coqFault(op.Fault))
	case KSign:
		return fmt.Sprintf("(OSign %s %s %s %s)", c, coqAddr(op.Addrs[0]), coqSign(op.Signs[0]), coqFault(op.Fault))
	case KAttests:
		items := make([]string, len(op.Addrs))
		for i := range op.Addrs {
			items[i] = fmt.Sprintf("(%s, %s)", coqAddr(op.Addrs[i]), coqAtt(op.Atts[i]))
		}
		return fmt.Sprintf("(OAttests %s %s %s)", c, coqList(items), coqFault(op.Fault))
	case KMultisign:
		items := make([]string, len(op.Addrs))
		for i := range op.Addrs {
			items[i] = fmt.Sprintf("(%s, %s)", coqAddr(op.Addrs[i]), coqSign(op.Signs[i]))
		}
		return fmt.Sprintf("(OMultisign %s %s %s)", c, coqList(items), coqFault(op.Fault))
	case KRestart:
		return "ORestart"
	}
	return "ORestart"
}

func coqStore(sv *StoreView) string {
	var a, p []string
	for _, k := range sortedKeys(sv.Att) {
		r := sv.Att[k]
		a = append(a, fmt.Sprintf("(%s, (%s, %s))", coqN(k), coqZ(r.Src), coqZ(r.Tgt)))
	}
	for _, k := range sortedKeys(sv.Prop) {
		p = append(p, fmt.Sprintf("(%s, %s)", coqN(k), coqZ(sv.Prop[k])))
	}
	return fmt.Sprintf("(mkstore %s %s)", coqList(a), coqList(p))
}

func coqObs(obs []Obs) string {
	items := make([]string, len(obs))
	for i, o := range obs {
		items[i] = fmt.Sprintf("(%s, %s)", coqCres(o.State), coqBool(o.SigLen > 0))
	}
	return coqList(items)
}

func coqAccounts(fx *Fixture) string {
	items := make([]string, len(fx.Accounts))
	for i, a := range fx.Accounts {
		items[i] = fmt.Sprintf("(AC %s %s %s %s %s)", coqStr(a.Wallet), coqStr(a.Name), coqN(a.ID), coqBool(a.Usable), coqBool(a.Signer))
	}
	return coqList(items)
}

func coqStrList(l []string) string {
	items := make([]string, len(l))
	for i, s := range l {
		items[i] = coqStr(s)
	}
	return coqList(items)
}

func coqKeyIDs(fx *Fixture, extra ...int) string {
	var items []string
	for _, a := range fx.Accounts {
		items = append(items, coqN(a.ID))
	}
	for _, e := range extra {
		items = append(items, coqN(e))
	}
	return coqList(items)
}
