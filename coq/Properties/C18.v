(* C18 - listing shows all and only the accounts the client may access. *)
From DV Require Import Model.Services Proofs.ServicesProofs.
Local Open Scope string_scope.

(* Soundness and completeness in one equivalence: an account is in the answer exactly when some
   requested path names its (known, non-empty) wallet, the account is in that wallet - in the maps
   built at start or in the overlay of accounts added later, the later one winning on a name clash -
   its name matches the path's account expression, and check grants the client 'Access account' on
   wallet/account.  Malformed paths (LBad) and unknown wallets contribute nothing. *)
Theorem C18_listing_sound_and_complete :
  forall wd client paths a,
    In a (list_accounts wd client paths) <->
    exists w ap, In (LPath w ap) paths /\ w <> "" /\ known_wallet wd w = true /\
                 In a (wallet_accounts wd w) /\ lister_match ap (ac_name a) = true /\
                 check (w_grouped wd) (w_table wd) client (w ++ "/" ++ ac_name a) op_access = true.
Proof. exact list_accounts_spec. Qed.
Print Assumptions C18_listing_sound_and_complete.

Theorem C18_wallet_accounts :
  forall wd w a,
    In a (wallet_accounts wd w) <->
    ac_wallet a = w /\
    (In a (w_overlay wd) \/
     (In a (w_base wd) /\ forall o, In o (w_overlay wd) -> ac_wallet o = w -> ac_name o <> ac_name a)).
Proof. exact wallet_accounts_spec. Qed.

(* an account created through Dirk after start-up is listed immediately *)
Theorem C18_created_account_listed :
  forall wd a client ap,
    known_wallet wd (ac_wallet a) = true -> ac_wallet a <> "" ->
    lister_match ap (ac_name a) = true ->
    check (w_grouped wd) (w_table wd) client (ac_wallet a ++ "/" ++ ac_name a) op_access = true ->
    In a (list_accounts (add_overlay wd a) client [LPath (ac_wallet a) ap]).
Proof. exact added_account_listed. Qed.
Print Assumptions C18_created_account_listed.
