# Per-property configuration of bin/check.
PROPS = {
    "C01": {
        "relation": "Corr.CheckInst.check_safe (implementation signs => model step signs; the signing key's record afterwards equals the model's; no record lowered) - the induction step of C01_no_slashable_attestation; Corr.CheckPaths.path_mismatches (util.ResolvePath = Paths.resolve_path) ties C01_store_found_again_after_restart to the code",
        "trusted": ["badger, the BLS library, Go runtime; wallet libraries' account resolution",
                    "the harness's own SSZ/BLS verification is used only to mark signatures valid"],
        "assumptions": ["histories are finite lists of service-level requests; op_ok: numbers are uint64 values, an injected ruler answer never says APPROVED"],
    },
    "C02": {
        "relation": "Corr.CheckInst.check_safe - the induction step of C02_no_double_proposal; Corr.CheckPaths.path_mismatches (util.ResolvePath = Paths.resolve_path) ties C02_store_found_again_after_restart to the code",
        "trusted": ["badger, the BLS library, Go runtime; wallet libraries' account resolution"],
        "assumptions": ["as C01"],
    },
    "C05": {
        "relation": "Corr.CheckInst.check_safe (implementation signs => model signs) on endpoint x domain-type x admin-list x source-address cases - ties C05_domain_separation to the code",
        "trusted": ["badger, BLS, Go runtime; prefix4 assumes the domain slice has capacity >= 4 with zero bytes past its length (what protobuf decoding gives; Wire.v / C20)"],
        "assumptions": ["ruler_fault_ok: an injected ruler answer never says APPROVED"],
    },
    "C06": {
        "relation": "Corr.CheckInst.check_exact (states, signature presence and decoded store equal the model's under the same fault schedule) - ties C06_fail_closed to the code",
        "trusted": ["faults are injected through wrapping fetcher / checker / unlocker / ruler / account objects and the verifhook store hooks; faults inside libraries are not modelled"],
        "assumptions": [],
    },
    "C09": {
        "relation": "Corr.CheckInst.check_live (model signs => implementation signs) on advancing histories; check_exact on batch steps of the twin runs; Corr.CheckScatter.scatter_mismatches (util.Scatter extents = Scatter.extents)",
        "trusted": ["badger, BLS, Go runtime and scheduler"],
        "assumptions": ["op_wf: histories of well-formed fault-free requests; cfg_wf: every account can sign; the proposal clause is read with the same < 2^63 bound as the attestation clause (DESIGN.md 5 C09)"],
    },
    "C10": {
        "relation": "Corr.CheckImport.check_import (exit status and resulting database of the real binary's --import-slashing-protection equal import_cmd of the repaired model variant) - ties C10_import_step / C10_history to the code",
        "trusted": ["JSON decoding and strconv.ParseInt are modelled from the decoded structure on (the harness applies ParseInt itself to produce the model's numbers)", "viper/pflag configuration loading of the binary", "badger"],
        "assumptions": ["icfg_fixed: the repaired import (per-field maxima, repeated keys accumulate, negative numbers rejected)"],
    },
    "C11": {
        "relation": "Corr.CheckExport.check_codec (raw record bytes = encode_att / encode_prop, and decode back), check_export (the binary's export = export_cmd), Corr.CheckImport.check_import (import of the export into an empty directory = import_cmd) - tie C11_export_faithful, C11_codec and C11_export_import_same_decisions to the code",
        "trusted": ["Go's encoding/gob (legacy records): an oracle argument of the model; exercised with records produced by the real encoder", "JSON encoding of the export", "badger"],
        "assumptions": ["op_wf histories (well-formed, fault-free), cfg_wf"],
    },
    "C07": {
        "relation": "Corr.CheckChecker.check_kcase (Check() of the real static checker = check of the model with the repaired anchoring), Corr.CheckInst.check_exact with sc_perm := checker_perm (signer requests by name and by key), check_scase (account / wallet manager results = sstep) - tie C07_check_spec, C07_whole_name_match and C07_services_decide_on_resolved_account to the code",
        "trusted": ["Go's regexp on the modelled syntax (literals, '.', bracket classes, * + ?, groups, alternation, ^ $) - checked differentially through Check(); other RE2 syntax (escapes, flags, \\Q..\\E, a trailing \\$) is outside the model", "names are ASCII (Unicode case folding is outside the model)", "viper's loading of the permission list (the model starts from the ordered entries)", "the wallet library's passphrase handling (observation O5)"],
        "assumptions": [],
    },
    "C18": {
        "relation": "Corr.CheckChecker.check_lcase (the multiset of (wallet, name, key) returned by the real lister = list_accounts of the model) - ties C18_listing_sound_and_complete / C18_created_account_listed to the code",
        "trusted": ["Go's regexp on the modelled syntax; the lister's own (case-sensitive, legacy-style) anchoring of the account expression is modelled as it is (observation O3)", "the wallet libraries' account enumeration", "account creation by the real account manager / process service (non-distributed)"],
        "assumptions": [],
    },
    "C08": {
        "relation": "Corr.CheckSig.check_rcase (the signing root the model computes from the submitted fields = the root under which the harness verified the implementation's signature with the real BLS library and the addressed account's key), hash_mismatches (Sha256.v = crypto/sha256), Corr.CheckInst.check_exact on single and batched requests - tie C08_single_requests / C08_batches_aligned / C08_signature_verifies to the code",
        "trusted": ["the BLS scheme is abstract in Coq (any scheme with verify(sign) = true); the real library is exercised only by the harness", "Base/Sha256.v uses the kernel's primitive 63-bit integers (PrimInt63.*, listed by Print Assumptions; not axioms of the development); no theorem depends on a property of SHA-256 other than its output length", "fastssz (compared with the harness's own SSZ and with Ssz.v)"],
        "assumptions": [],
    },
    "C03": {
        "relation": "Corr.CheckCrash.check_kill (signatures released before a SIGKILL at a hook point, and the durable store after restart and the rest of the history = crun under the corresponding cut) and the hypotheses of C03_crash_safety_partial: sync_writes (read from the open store's badger options) and write_before_sign (hook event order; store read at the moment Sign is invoked)",
        "trusted": ["badger: a commit that returned with SyncWrites is durable; the OS and the disk honour fsync (SIGKILL cannot distinguish page cache from disk)", "kill points are the hook points (entry/exit of Fetch, Store, BatchStore, before/after Sign, request start/end); a kill inside badger's write is not exercised"],
        "assumptions": ["safe_ccfg: sync_writes and write_before_sign", "partial: see Properties/C03.v"],
    },
    "C04": {
        "relation": "Corr.CheckConc.check_conc (the real-time order of locker calls, store accesses and returns of concurrently issued requests, mapped to a schedule, is accepted by the model, ends with every request returned, gives the observed verdicts and reaches the observed store) plus the per-request protocol conformance (PreLock; Lock k1..kn; PostLock; reads and write inside; Unlock kn..k1) - tie C04_serializable / C04_realtime_order to the code",
        "trusted": ["sync.Mutex, sync.Map and the Go memory model implement the locker-wide and per-key locks", "explored implementation schedules are steered samples (requests parked between read and write and between lock acquisitions)", "the model makes requests without lockable keys take the locker-wide mutex for one step (the code returns before PreLock); this only makes the model's threads wait more"],
        "assumptions": ["partial: see Properties/C04.v"],
    },
    "C15": {
        "relation": "Corr.CheckConc.check_conc and the per-request protocol conformance as for C04; completion of every round within a watchdog, including sustained load - tie C15_progress / C15_terminates to the code",
        "trusted": ["sync.Mutex, sync.Map, the Go scheduler (fairness: an enabled goroutine eventually runs)"],
        "assumptions": [],
    },
    "C17": {
        "relation": "Corr.CheckDkg.scheck (after every event applied to a real instance's process service - reply class, generation table (threshold, participants, contributors), accounts in the wallet - equal sstep_ev of Session.v) - ties the C17_* theorems to the code",
        "trusted": ["the clock: the model's time is the measured millisecond at which each event starts; events are kept 250 ms clear of the expiry instant of the addressed generation", "the wallet library's refusal of an existing / unknown wallet is an input of the model (store_ok), predicted by the harness from the name", "peers are real instances driven by the harness (prepared together with the instance under test)", "BLS library"],
        "assumptions": ["C17_commit_needs_everyone is stated for contributions that all come from listed, distinct participants; the code compares counts (observation O2)"],
    },
    "C16": {
        "relation": "Corr.CheckDkg.hcheck (after every message given to a real instance's receiver handlers under an authenticated caller name: refused / succeeded / failed, generation table, accounts = receive of Receiver.v) - ties C16_only_peers / C16_stranger_refused / C16_strangers_change_nothing to the code; share ownership is judged on the real replies for every (replier, caller) pair with the BLS library",
        "trusted": ["the TLS layer that authenticates the caller name is not exercised here (C19)", "as C17", "C16_share_goes_to_its_owner is a statement about Dkg.v's on_contribute; on the implementation it is checked by verifying each reply share against the replier's vector at every participant identifier"],
        "assumptions": ["peer names are distinct (the static peers service enforces it); a peer with identifier 0 cannot be distinguished from a stranger and is refused"],
    },
    "C13": {
        "relation": "Corr.CheckDkg.dcheck (result class of the real OnGenerate and every instance's stored account = generate of Dkg.v run on the dealt polynomials recovered from the dealt shares, with the same lost / altered messages) - ties C13_failed_exchange_creates_no_account / C13_no_crash / C13_invalid_contribution_rejected to the code",
        "trusted": ["group elements are represented by their discrete logarithms (homomorphic image): the harness confirms each reported logarithm by exponentiation with the real BLS library", "the dealt polynomial is interpolated from the dealt shares read through the verif view, and checked against every dealt share and the dealer's vector", "a panic inside a receiving instance is recovered by the harness's in-process transport and recorded (a real daemon would crash)", "commit-phase failures (a participant failing to store) are outside C13's statement and not injected"],
        "assumptions": ["check_len (the repaired receiving side); cluster_inv and polys_ok for C13_no_crash (fresh instances, each dealer's own vector has threshold entries - confirmed per run by polyOf)"],
    },
    "C12": {
        "relation": "Corr.CheckDkg.dcheck (as C13) on fault-free generations for every (n, t), initiator and commit-reply order - ties C12_success_is_consistent / C12_threshold_bounds to the code; Properties/C12alg.v (mathcomp) carries the algebra: any t shares recover, fewer determine nothing, Feldman check, aggregate key",
        "trusted": ["as C13", "threshold signatures are combined with the real BLS library by the harness for every t-subset and (t-1)-subset; in Coq the statement is the field identity of Algebra/Shamir.v over an arbitrary field, signatures being a homomorphic image of shares", "'fewer do not' is proved as: t-1 shares are consistent with every candidate secret (information-theoretic), and observed as: no (t-1)-subset recovers a valid signature"],
        "assumptions": ["partial: see Properties/C12.v (same verification vector on every participant is proved for honest dealing in C12alg, and observed on every run)"],
        "extra_props": ["C12alg"],
    },
    "C14": {
        "relation": "Corr.CheckInst.check_safe per instance (each instance of the cluster is the C01/C02 model on its own store and share key) and the cluster monitor: for every pair of conflicting duties the sets of instances that returned a valid partial signature are disjoint and cannot both reach t - ties C14_conflicting_duties_one_threshold to the code",
        "trusted": ["as C01/C02 per instance", "concurrent delivery on one instance is covered by C04/C15 (serializability), which C14's per-instance histories rely on"],
        "assumptions": ["guard63 (the repaired epoch guard) on every instance; threshold_ok n t (C12_threshold_bounds)"],
    },
    "C20": {
        "relation": "Corr.CheckWire.check_wcase (for requests that went through proto.Marshal / proto.Unmarshal into the real Signer handlers: the decoded byte fields satisfy the decoder assumption of Wire.v, the model does not flag a panic, response states with signature presence and the decoded store equal wire_step) - ties C20_no_panic / C20_every_request_answered to the code; panics of any handler (Signer, Lister, AccountManager, WalletManager, receiver from non-peers) are caught by a recovering wrapper and reported with the request",
        "trusted": ["protobuf-go's decoder (its capacity behaviour is observed on every decoded field and compared with Wire.v's decode: nil when empty, capacity >= 8 otherwise)", "the harness calls the handlers in process after a Marshal/Unmarshal round trip; the gRPC transport, interceptors and HTTP/2 framing are not on the path (C19 drives them)", "panics inside libraries and goroutine-level effects are observed only on the generated requests; resource exhaustion is not exercised (participant counts are capped at 2^22 by the generator)"],
        "assumptions": ["wf_req: every byte field of the request came out of the decoder", "partial: see Properties/C20.v"],
    },
    "C19": {
        "relation": "Corr.CheckTls.tmismatches (for every method of every registered gRPC service called over a real connection to a daemon built by testing/daemon.New with every kind of caller credential: served / refused at the transport = admitted (pinned ca) of Tls.v) - ties C19_gate / C19_identity_is_verified to the configured server; the identity used for permissions is probed with each valid certificate",
        "trusted": ["crypto/tls, crypto/x509 and gRPC: the theorems are about the decision table of the client-authentication mode, pool and minimum version the server configures, not about the TLS implementation", "the harness mints certificates itself (self-signed, under another authority with the same name, and - with the configured authority's test key from testing/resources - expired, server-use-only and fresh valid ones)", "'served' means the call reached a handler (any response, or an error whose status code is not Unavailable)"],
        "assumptions": ["partial: see Properties/C19.v"],
    },
}
