(* C08: every signature is by the addressed account over exactly the submitted data, position by
   position; the signing root exists whenever a signature does. *)
From DV Require Import Model.Instance Model.Ssz Model.Scatter Proofs.SignerProofs Proofs.DomainProofs Proofs.ScatterProofs.
From Coq Require Import Lia.
Local Open Scope Z_scope.

(* ---- the hash output is 32 bytes, so a signing root exists exactly when the lengths are right ---- *)

Lemma compress_length h b : List.length (compress h b) = 8%nat.
Proof. reflexivity. Qed.

Lemma fold_compress_length l : forall h, List.length h = 8%nat -> List.length (fold_left compress l h) = 8%nat.
Proof. induction l as [|b l IH]; intros h Hh; cbn; auto. Qed.

Lemma flat_words_length h : List.length (flat_map bytes_of_word h) = (4 * List.length h)%nat.
Proof. induction h as [|w h IH]; cbn [flat_map List.length app]; [reflexivity|]. rewrite app_length, IH. cbn. lia. Qed.

Lemma sha256_length bs : List.length (sha256 bs) = 32%nat.
Proof. unfold sha256. rewrite flat_words_length, fold_compress_length; reflexivity. Qed.

Lemma len32_sha bs : len32 (sha256 bs) = true.
Proof. unfold len32. now rewrite sha256_length. Qed.

Lemma signing_root_att o : signing_root (att_msg o) <> None <-> len32 (ao_dom o) = true.
Proof.
  unfold signing_root, att_msg. cbn [data_root msg_domain]. unfold merkle5, h2. rewrite len32_sha. cbn [andb].
  destruct (len32 (ao_dom o)); split; congruence.
Qed.
Lemma signing_root_prop o : signing_root (prop_msg o) <> None <-> len32 (po_dom o) = true.
Proof.
  unfold signing_root, prop_msg. cbn [data_root msg_domain]. unfold merkle5, h2. rewrite len32_sha. cbn [andb].
  destruct (len32 (po_dom o)); split; congruence.
Qed.
Lemma signing_root_gen data dom : signing_root (MGen data dom) <> None <-> len32 data && len32 dom = true.
Proof. unfold signing_root. cbn [data_root msg_domain]. destruct (len32 data && len32 dom); split; congruence. Qed.

Lemma do_sign_root_ok ac sf ok m r s : do_sign ac sf ok m = (r, Some s) -> ok = true.
Proof. unfold do_sign. destruct ok; [auto|cbn; discriminate]. Qed.

(* ---- positions of a batch ---- *)

Lemma find_index_none {A} (p : A -> bool) l : forall i, find_index p l i = None -> Forall (fun x => p x = false) l.
Proof.
  induction l as [|x l IH]; intros i; cbn; [constructor|]. destruct (p x) eqn:E; [discriminate|].
  intros H. constructor; eauto.
Qed.

Lemma flat_some_nth {A} (fs : list (option A)) :
  Forall (fun o => match o with None => true | Some _ => false end = false) fs ->
  forall i, nth_error (flat_map (fun o => match o with Some x => [x] | None => [] end) fs) i =
            match nth_error fs i with Some (Some x) => Some x | _ => None end.
Proof.
  induction 1 as [|o fs Ho _ IH]; intros i; [destruct i; reflexivity|].
  destruct o as [x|]; [|discriminate]. cbn [flat_map app]. destruct i; cbn; auto.
Qed.

Lemma pre_accts_nth ps : forallb is_pre_ok ps = true ->
  forall i, nth_error (pre_accts ps) i = match nth_error ps i with Some (PreOk a) => Some a | _ => None end.
Proof.
  unfold pre_accts. induction ps as [|p ps IH]; intros H i; [destruct i; reflexivity|].
  cbn in H. apply andb_true_iff in H. destruct H as [Hp H]. destruct p as [r|a]; [discriminate|].
  cbn [flat_map app]. destruct i; cbn; auto.
Qed.

Lemma nth_error_combine {A B} (l1 : list A) (l2 : list B) i :
  nth_error (combine l1 l2) i =
  match nth_error l1 i, nth_error l2 i with Some a, Some b => Some (a, b) | _, _ => None end.
Proof.
  revert l2 i. induction l1 as [|a l1 IH]; intros l2 i; [destruct i; reflexivity|].
  destruct l2 as [|b l2]; [destruct i; cbn; auto; destruct (nth_error l1 i); auto|].
  destruct i; cbn; auto.
Qed.

(* the (account, data) item at position i of a batch that passed validation and pre-checks *)
Lemma batch_item {D O} c cl act f (reqs : list (addr * D)) (fields : D -> option O) i ac o :
  find_index (fun x : option O => match x with None => true | Some _ => false end) (map (fun r => fields (snd r)) reqs) 0 = None ->
  forallb is_pre_ok (map_i (fun i r => pre_check c cl (fst r) act (pos_fault f i)) 0 reqs) = true ->
  nth_error (combine (pre_accts (map_i (fun i r => pre_check c cl (fst r) act (pos_fault f i)) 0 reqs))
                     (flat_map (fun x => match x with Some y => [y] | None => [] end) (map (fun r => fields (snd r)) reqs))) i
    = Some (ac, o) ->
  exists rq, nth_error reqs i = Some rq /\ pre_check c cl (fst rq) act (pos_fault f i) = PreOk ac /\ fields (snd rq) = Some o.
Proof.
  intros Hf Hp. rewrite nth_error_combine, (pre_accts_nth _ Hp), (flat_some_nth _ (find_index_none _ _ _ Hf)).
  rewrite nth_error_map_i, nth_error_map. cbn [plus].
  destruct (nth_error reqs i) as [rq|]; cbn; [|discriminate].
  destruct (pre_check c cl (fst rq) act (pos_fault f i)) as [r|a] eqn:E1; [discriminate|].
  destruct (fields (snd rq)) as [x|] eqn:E2; [|discriminate].
  intros H; injection H as <- <-. eauto.
Qed.

Lemma map_i_length {A B} (g : nat -> A -> B) l : forall i, List.length (map_i g i l) = List.length l.
Proof. induction l; intros i; cbn; auto. Qed.

Lemma sign_atts_position c st cl reqs f i y sg :
  nth_error (fst (sign_atts c st cl reqs f)) i = Some (y, Some sg) ->
  exists rq ac o, nth_error reqs i = Some rq /\ pre_check c cl (fst rq) AAtt (pos_fault f i) = PreOk ac /\
    att_fields (snd rq) = Some o /\ sg = {| sg_key := ac_key ac; sg_msg := att_msg o |} /\
    signing_root (sg_msg sg) <> None.
Proof.
  unfold sign_atts. destruct reqs as [|rq0 reqs'] eqn:E.
  { cbn. destruct i as [|[|i]]; cbn; discriminate. }
  rewrite <- E. clear E rq0 reqs'.
  destruct (find_index _ _ 0) eqn:Ef; [cbn; intros H; apply map_none_nth in H; discriminate|].
  destruct (negb (forallb is_pre_ok _)) eqn:Ep; [cbn; intros H; apply map_none_nth in H; discriminate|].
  apply negb_false_iff in Ep.
  destruct (match of_ruler f with Some l => _ | None => _ end) as [rr st1]. cbn [fst].
  intros H. apply phase_nth in H. destruct H as (x & Hx & Hy). destruct x as [ac o].
  destruct (batch_item c cl AAtt f reqs att_fields i ac o Ef Ep Hx) as (rq & H1 & H2 & H3).
  destruct (nth_error rr i) as [[]|]; try discriminate.
  symmetry in Hy. cbn [fst snd] in Hy.
  pose proof (do_sign_root_ok _ _ _ _ _ _ Hy) as Hok. apply do_sign_some in Hy. destruct Hy as [_ ->].
  exists rq, ac, o. repeat split; auto. cbn [sg_msg]. now apply signing_root_att.
Qed.

Lemma multisign_position c cl reqs f i y sg :
  nth_error (multisign c cl reqs f) i = Some (y, Some sg) ->
  exists rq ac data dom, nth_error reqs i = Some rq /\ pre_check c cl (fst rq) ASign (pos_fault f i) = PreOk ac /\
    sign_fields (snd rq) = Some (data, dom) /\ sg = {| sg_key := ac_key ac; sg_msg := MGen data dom |} /\
    signing_root (sg_msg sg) <> None.
Proof.
  unfold multisign. destruct reqs as [|rq0 reqs'] eqn:E.
  { cbn. destruct i as [|[|i]]; cbn; discriminate. }
  rewrite <- E. clear E rq0 reqs'.
  destruct (find_index _ _ 0) eqn:Ef; [intros H; apply map_none_nth in H; discriminate|].
  destruct (negb (forallb is_pre_ok _)) eqn:Ep; [intros H; apply map_none_nth in H; discriminate|].
  apply negb_false_iff in Ep.
  intros H. apply phase_nth in H. destruct H as (x & Hx & Hy). destruct x as [ac [data dom]].
  destruct (batch_item c cl ASign f reqs sign_fields i ac (data, dom) Ef Ep Hx) as (rq & H1 & H2 & H3).
  match type of Hy with context [match nth_error ?rr i with _ => _ end] => destruct (nth_error rr i) as [[]|] end; try discriminate.
  symmetry in Hy. cbn [fst snd] in Hy.
  pose proof (do_sign_root_ok _ _ _ _ _ _ Hy) as Hok. apply do_sign_some in Hy. destruct Hy as [_ ->].
  exists rq, ac, data, dom. repeat split; auto. cbn [sg_msg]. now apply signing_root_gen.
Qed.

(* exactly one entry per request *)
Lemma set_nth_length {A} (x : A) l : forall i, List.length (set_nth i x l) = List.length l.
Proof. induction l as [|y l IH]; intros i; destruct i; cbn; auto. Qed.

Lemma deny_at_length n i : List.length (deny_at n i) = n.
Proof. unfold deny_at. now rewrite set_nth_length, repeat_length. Qed.

Lemma sign_phase_length {O} f rr (items : list (acct * O)) ro mk : List.length (sign_phase f rr items ro mk) = List.length items.
Proof. unfold sign_phase. apply map_i_length. Qed.

Lemma flat_some_length {A} (fs : list (option A)) :
  Forall (fun o => match o with None => true | Some _ => false end = false) fs ->
  List.length (flat_map (fun o => match o with Some x => [x] | None => [] end) fs) = List.length fs.
Proof. induction 1 as [|o fs Ho _ IH]; [reflexivity|]. destruct o; [|discriminate]. cbn. now rewrite IH. Qed.

Lemma pre_accts_length ps : forallb is_pre_ok ps = true -> List.length (pre_accts ps) = List.length ps.
Proof.
  unfold pre_accts. induction ps as [|p ps IH]; intros H; [reflexivity|].
  cbn in H. apply andb_true_iff in H. destruct H as [Hp H]. destruct p; [discriminate|]. cbn. now rewrite IH.
Qed.

Lemma sign_atts_length c st cl reqs f : reqs <> [] ->
  List.length (fst (sign_atts c st cl reqs f)) = List.length reqs.
Proof.
  intros Hne. unfold sign_atts. destruct reqs as [|rq0 reqs'] eqn:E; [congruence|]. rewrite <- E. clear E rq0 reqs' Hne.
  destruct (find_index _ _ 0) eqn:Ef; [cbn; now rewrite map_length, deny_at_length|].
  destruct (negb (forallb is_pre_ok _)) eqn:Ep; [cbn; now rewrite map_length, map_i_length|].
  apply negb_false_iff in Ep.
  destruct (match of_ruler f with Some l => _ | None => _ end) as [rr st1]. cbn [fst].
  rewrite sign_phase_length, combine_length, (pre_accts_length _ Ep), map_i_length.
  rewrite (flat_some_length _ (find_index_none _ _ _ Ef)), map_length. apply Nat.min_id.
Qed.

Lemma multisign_length c cl reqs f : reqs <> [] -> List.length (multisign c cl reqs f) = List.length reqs.
Proof.
  intros Hne. unfold multisign. destruct reqs as [|rq0 reqs'] eqn:E; [congruence|]. rewrite <- E. clear E rq0 reqs' Hne.
  destruct (find_index _ _ 0) eqn:Ef; [now rewrite map_length, deny_at_length|].
  destruct (negb (forallb is_pre_ok _)) eqn:Ep; [now rewrite map_length, map_i_length|].
  apply negb_false_iff in Ep.
  rewrite sign_phase_length, combine_length, (pre_accts_length _ Ep), map_i_length.
  rewrite (flat_some_length _ (find_index_none _ _ _ Ef)), map_length. apply Nat.min_id.
Qed.

(* ---- the single-request endpoints ---- *)

Lemma sign_att_sig c st cl a d f y sg st' :
  sign_att c st cl a d f = ((y, Some sg), st') ->
  exists ac o, pre_check c cl a AAtt (pos_fault f 0) = PreOk ac /\ att_fields d = Some o /\
    sg = {| sg_key := ac_key ac; sg_msg := att_msg o |} /\ signing_root (sg_msg sg) <> None.
Proof.
  unfold sign_att. destruct (att_fields d) as [o|]; [|discriminate].
  destruct (pre_check c cl a AAtt (pos_fault f 0)) as [cr|ac]; [discriminate|].
  destruct (match of_ruler f with Some l => _ | None => _ end) as [rr st1].
  destruct (nth 0 rr RUnknown); try discriminate.
  intros H. injection H as H _. pose proof (do_sign_root_ok _ _ _ _ _ _ H) as Hok.
  apply do_sign_some in H. destruct H as [_ ->]. exists ac, o. repeat split; auto. now apply signing_root_att.
Qed.

Lemma sign_prop_sig c st cl a d f y sg st' :
  sign_prop c st cl a d f = ((y, Some sg), st') ->
  exists ac o, pre_check c cl a AProp (pos_fault f 0) = PreOk ac /\ prop_fields d = Some o /\
    sg = {| sg_key := ac_key ac; sg_msg := prop_msg o |} /\ signing_root (sg_msg sg) <> None.
Proof.
  unfold sign_prop. destruct (prop_fields d) as [o|]; [|discriminate].
  destruct (pre_check c cl a AProp (pos_fault f 0)) as [cr|ac]; [discriminate|].
  destruct (match of_ruler f with Some l => _ | None => _ end) as [rr st1].
  destruct (nth 0 rr RUnknown); try discriminate.
  intros H. injection H as H _. pose proof (do_sign_root_ok _ _ _ _ _ _ H) as Hok.
  apply do_sign_some in H. destruct H as [_ ->]. exists ac, o. repeat split; auto. now apply signing_root_prop.
Qed.

Lemma sign_gen_sig c cl a d f y sg :
  sign_gen c cl a d f = (y, Some sg) ->
  exists ac data dom, pre_check c cl a ASign (pos_fault f 0) = PreOk ac /\ sign_fields d = Some (data, dom) /\
    sg = {| sg_key := ac_key ac; sg_msg := MGen data dom |} /\ signing_root (sg_msg sg) <> None.
Proof.
  unfold sign_gen. destruct (sign_fields d) as [[data dom]|]; [|discriminate].
  destruct (pre_check c cl a ASign (pos_fault f 0)) as [cr|ac]; [discriminate|].
  destruct (nth 0 _ RUnknown); try discriminate.
  intros H. pose proof (do_sign_root_ok _ _ _ _ _ _ H) as Hok.
  apply do_sign_some in H. destruct H as [_ ->]. exists ac, data, dom. repeat split; auto. now apply signing_root_gen.
Qed.

(* ---- with any signature scheme whose verification accepts what signing produces ---- *)

Section Scheme.
  Variables (sigT : Type) (bls_sign : N -> bytes -> sigT) (bls_verify : N -> bytes -> sigT -> bool).
  Hypothesis bls_correct : forall k m, bls_verify k m (bls_sign k m) = true.

  (* the signature bytes a released signature record stands for *)
  Definition wire_sig (s : sigd) : option sigT := option_map (bls_sign (sg_key s)) (signing_root (sg_msg s)).

  Lemma wire_sig_verifies s : signing_root (sg_msg s) <> None ->
    exists root sig, signing_root (sg_msg s) = Some root /\ wire_sig s = Some sig /\ bls_verify (sg_key s) root sig = true.
  Proof.
    intros H. unfold wire_sig. destruct (signing_root (sg_msg s)) as [root|]; [|congruence].
    exists root, (bls_sign (sg_key s) root). auto.
  Qed.
End Scheme.
