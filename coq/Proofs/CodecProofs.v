From DV Require Import Model.Codec.
From Coq Require Import Lia ZArith.
Local Open Scope Z_scope.

Lemma le_bytes_length n x : List.length (le_bytes n x) = n.
Proof. revert x. induction n; intros x; cbn; auto. Qed.

Lemma le_val_le_bytes n x : 0 <= x < 256 ^ Z.of_nat n -> le_val (le_bytes n x) = x.
Proof.
  revert x. induction n as [|n IH]; intros x Hx.
  - cbn in *. lia.
  - cbn [le_bytes le_val]. rewrite Z2N.id by (apply Z.mod_pos_bound; lia).
    rewrite IH.
    + pose proof (Z.div_mod x 256 ltac:(lia)). lia.
    + rewrite Nat2Z.inj_succ, Z.pow_succ_r in Hx by lia.
      split; [apply Z.div_pos; lia|]. apply Z.div_lt_upper_bound; lia.
Qed.

Lemma int64_roundtrip z : i64 z -> to_int64 (to_uint64 z) = z.
Proof.
  unfold i64, to_int64, to_uint64, two63, two64. intros H.
  destruct (z <? 0) eqn:E.
  - apply Z.ltb_lt in E. destruct (z + 18446744073709551616 <? 9223372036854775808) eqn:E2; [apply Z.ltb_lt in E2; lia|lia].
  - apply Z.ltb_ge in E. destruct (z <? 9223372036854775808) eqn:E2; [lia|apply Z.ltb_ge in E2; lia].
Qed.

Lemma to_uint64_range z : i64 z -> 0 <= to_uint64 z < 256 ^ Z.of_nat 8.
Proof.
  unfold i64, to_uint64, two63, two64. intros H. change (256 ^ Z.of_nat 8) with 18446744073709551616.
  destruct (z <? 0) eqn:E; [apply Z.ltb_lt in E|apply Z.ltb_ge in E]; lia.
Qed.

Lemma firstn_app_exact {A} (l1 l2 : list A) n : List.length l1 = n -> firstn n (l1 ++ l2) = l1.
Proof. intros <-. rewrite firstn_app, Nat.sub_diag, firstn_all. cbn. apply app_nil_r. Qed.
Lemma skipn_app_exact {A} (l1 l2 : list A) n : List.length l1 = n -> skipn n (l1 ++ l2) = l2.
Proof. intros <-. rewrite skipn_app, Nat.sub_diag, skipn_all. reflexivity. Qed.

(* decode (encode r) = r for every record of int64 fields, whatever the legacy decoder does *)
Theorem att_codec_roundtrip gob a : i64 (a_src a) -> i64 (a_tgt a) -> decode_att gob (encode_att a) = Some a.
Proof.
  intros Hs Ht. unfold decode_att, encode_att.
  rewrite app_length, !le_bytes_length. cbn [Nat.add Nat.eqb].
  rewrite firstn_app_exact, skipn_app_exact by apply le_bytes_length.
  rewrite !le_val_le_bytes by now apply to_uint64_range.
  rewrite !int64_roundtrip by assumption. now destruct a.
Qed.

Theorem prop_codec_roundtrip gob s : i64 s -> decode_prop gob (encode_prop s) = Some s.
Proof.
  intros Hs. unfold decode_prop, encode_prop. rewrite le_bytes_length. cbn [Nat.eqb].
  rewrite le_val_le_bytes by now apply to_uint64_range. now rewrite int64_roundtrip.
Qed.

(* the encodings have the sizes the decoder insists on, and start with the version byte *)
Lemma encode_att_shape a : List.length (encode_att a) = 17%nat /\ hd 0%N (encode_att a) = 1%N.
Proof. unfold encode_att. cbn [List.length hd]. rewrite app_length, !le_bytes_length. auto. Qed.

(* well-formed byte strings: every element below 256 *)
Definition bytes_ok (b : bytes) : Prop := Forall (fun x => (x < 256)%N) b.

Lemma le_val_range b : bytes_ok b -> 0 <= le_val b < 256 ^ Z.of_nat (List.length b).
Proof.
  induction 1 as [|x r Hx _ IH]; [cbn; lia|].
  cbn [le_val List.length]. rewrite Nat2Z.inj_succ, Z.pow_succ_r by lia. lia.
Qed.

Lemma le_bytes_le_val b : bytes_ok b -> le_bytes (List.length b) (le_val b) = b.
Proof.
  induction 1 as [|x r Hx Hr IH]; [reflexivity|].
  cbn [le_val List.length le_bytes].
  assert (Hm : (Z.of_N x + 256 * le_val r) mod 256 = Z.of_N x).
  { replace (Z.of_N x + 256 * le_val r) with (Z.of_N x + le_val r * 256) by lia. rewrite Z.mod_add by lia. apply Z.mod_small. lia. }
  assert (Hd : (Z.of_N x + 256 * le_val r) / 256 = le_val r).
  { replace (Z.of_N x + 256 * le_val r) with (Z.of_N x + le_val r * 256) by lia. rewrite Z.div_add by lia. rewrite (Z.div_small (Z.of_N x)) by lia. lia. }
  rewrite Hm, Hd, N2Z.id, IH. reflexivity.
Qed.

Lemma uint64_roundtrip z : 0 <= z < two64 -> to_uint64 (to_int64 z) = z.
Proof.
  unfold to_int64, to_uint64, two63, two64. intros H.
  destruct (z <? 9223372036854775808) eqn:E; [apply Z.ltb_lt in E|apply Z.ltb_ge in E].
  - destruct (z <? 0) eqn:E2; [apply Z.ltb_lt in E2; lia|reflexivity].
  - destruct (z - 18446744073709551616 <? 0) eqn:E2; [lia|apply Z.ltb_ge in E2; lia].
Qed.

Lemma to_int64_i64 z : 0 <= z < two64 -> i64 (to_int64 z).
Proof. unfold i64, to_int64, two63, two64. intros H. destruct (z <? 9223372036854775808) eqn:E; [apply Z.ltb_lt in E|apply Z.ltb_ge in E]; lia. Qed.

Lemma firstn_skipn_len {A} (l : list A) n m : List.length l = (n + m)%nat ->
  List.length (firstn n l) = n /\ List.length (skipn n l) = m.
Proof. intros H. rewrite firstn_length, skipn_length. lia. Qed.

Lemma bytes_ok_app a b : bytes_ok (a ++ b) <-> bytes_ok a /\ bytes_ok b.
Proof. unfold bytes_ok. apply Forall_app. Qed.

(* the current format loses nothing: a record in the current format that decodes re-encodes to itself *)
Theorem att_codec_inverse gob b a : bytes_ok b -> hd 0%N b = 1%N -> decode_att gob b = Some a -> encode_att a = b.
Proof.
  intros Hb Hh Hd. destruct b as [|x r]; [discriminate|]. cbn [hd] in Hh. subst x.
  unfold decode_att in Hd. destruct (List.length r =? 16)%nat eqn:EL; [|discriminate]. apply Nat.eqb_eq in EL.
  inversion Hb as [|? ? _ Hr]; subst.
  destruct (firstn_skipn_len r 8 8 EL) as [L1 L2].
  pose proof (firstn_skipn 8 r) as Hfs.
  set (f := firstn 8 r) in *. set (t := skipn 8 r) in *. clearbody f t. subst r.
  injection Hd as <-. unfold encode_att. cbn [a_src a_tgt]. f_equal.
  apply bytes_ok_app in Hr. destruct Hr as [H1 H2].
  pose proof (le_val_range _ H1) as R1. pose proof (le_val_range _ H2) as R2.
  rewrite L1 in R1. rewrite L2 in R2. change (256 ^ Z.of_nat 8) with two64 in R1, R2.
  rewrite (uint64_roundtrip _ R1), (uint64_roundtrip _ R2).
  pose proof (le_bytes_le_val f H1) as B1. pose proof (le_bytes_le_val t H2) as B2.
  rewrite L1 in B1. rewrite L2 in B2. rewrite B1, B2. reflexivity.
Qed.

Theorem prop_codec_inverse gob b s : bytes_ok b -> hd 0%N b = 1%N -> decode_prop gob b = Some s -> encode_prop s = b.
Proof.
  intros Hb Hh Hd. destruct b as [|x r]; [discriminate|]. cbn [hd] in Hh. subst x.
  unfold decode_prop in Hd. destruct (List.length r =? 8)%nat eqn:EL; [|discriminate]. apply Nat.eqb_eq in EL.
  injection Hd as <-. unfold encode_prop. f_equal.
  inversion Hb as [|? ? _ Hr]; subst.
  pose proof (le_val_range _ Hr) as R. rewrite EL in R. change (256 ^ Z.of_nat 8) with two64 in R.
  rewrite uint64_roundtrip by assumption. rewrite <- EL. now apply le_bytes_le_val.
Qed.

(* whatever bytes are on disk in the current format, the decoded fields are int64 values *)
Theorem att_decode_range gob b a : bytes_ok b -> hd 0%N b = 1%N -> decode_att gob b = Some a -> i64 (a_src a) /\ i64 (a_tgt a).
Proof.
  intros Hb Hh Hd. destruct b as [|x r]; [discriminate|]. cbn [hd] in Hh. subst x.
  unfold decode_att in Hd. destruct (List.length r =? 16)%nat eqn:EL; [|discriminate]. apply Nat.eqb_eq in EL.
  inversion Hb as [|? ? _ Hr]; subst.
  destruct (firstn_skipn_len r 8 8 EL) as [L1 L2].
  pose proof (firstn_skipn 8 r) as Hfs.
  set (f := firstn 8 r) in *. set (t := skipn 8 r) in *. clearbody f t. subst r.
  injection Hd as <-. cbn [a_src a_tgt].
  apply bytes_ok_app in Hr. destruct Hr as [H1 H2].
  pose proof (le_val_range _ H1) as R1. pose proof (le_val_range _ H2) as R2.
  rewrite L1 in R1. rewrite L2 in R2. change (256 ^ Z.of_nat 8) with two64 in R1, R2.
  split; now apply to_int64_i64.
Qed.

(* different states never share a record *)
Theorem att_encode_injective a1 a2 : i64 (a_src a1) -> i64 (a_tgt a1) -> i64 (a_src a2) -> i64 (a_tgt a2) ->
  encode_att a1 = encode_att a2 -> a1 = a2.
Proof.
  intros H1 H2 H3 H4 E. pose proof (att_codec_roundtrip (fun _ => None) a1 H1 H2) as R1.
  pose proof (att_codec_roundtrip (fun _ => None) a2 H3 H4) as R2. rewrite E in R1. congruence.
Qed.
Theorem prop_encode_injective s1 s2 : i64 s1 -> i64 s2 -> encode_prop s1 = encode_prop s2 -> s1 = s2.
Proof.
  intros H1 H2 E. pose proof (prop_codec_roundtrip (fun _ => None) s1 H1) as R1.
  pose proof (prop_codec_roundtrip (fun _ => None) s2 H2) as R2. rewrite E in R1. congruence.
Qed.

Lemma C11_codec_inverse_main :
  (forall gob b a, bytes_ok b -> hd 0%N b = 1%N -> decode_att gob b = Some a ->
     encode_att a = b /\ i64 (a_src a) /\ i64 (a_tgt a)) /\
  (forall gob b s, bytes_ok b -> hd 0%N b = 1%N -> decode_prop gob b = Some s -> encode_prop s = b) /\
  (forall a1 a2, i64 (a_src a1) -> i64 (a_tgt a1) -> i64 (a_src a2) -> i64 (a_tgt a2) ->
     encode_att a1 = encode_att a2 -> a1 = a2) /\
  (forall s1 s2, i64 s1 -> i64 s2 -> encode_prop s1 = encode_prop s2 -> s1 = s2).
Proof.
  split; [|split; [|split]].
  - intros gob b a Hb Hh Hd. split; [eapply att_codec_inverse; eassumption|eapply att_decode_range; eassumption].
  - intros gob b s. apply prop_codec_inverse.
  - exact att_encode_injective.
  - exact prop_encode_injective.
Qed.

Lemma C11_codec_inverse_example_proof :
  bytes_ok (encode_att {| a_src := -1; a_tgt := 7 |}) /\ hd 0%N (encode_att {| a_src := -1; a_tgt := 7 |}) = 1%N.
Proof. split; [|reflexivity]. vm_compute. repeat constructor. Qed.
