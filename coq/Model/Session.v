(* Model of the key-generation session table of one instance (services/process/standard:
   service.go OnPrepare / OnExecute / OnContribute / OnCommit / OnAbort, generation.go getGeneration)
   with a logical clock.  Cryptographic content is abstracted to who contributed; the crypto checks
   are in Dkg.v.  No proofs in this file. *)
From Coq Require Export NArith List Bool String Arith.
Export ListNotations.

Inductive serr := EOk | EInProgress | ENotInProgress | ENotFound | ENotCreated | EOther.
Definition serr_eqb (a b : serr) : bool :=
  match a, b with
  | EOk, EOk | EInProgress, EInProgress | ENotInProgress, ENotInProgress | ENotFound, ENotFound
  | ENotCreated, ENotCreated | EOther, EOther => true
  | _, _ => false
  end.

Record sess := {
  s_started : nat;               (* logical time of the prepare *)
  s_threshold : nat;
  s_participants : list N;       (* identifiers, as listed in the prepare message *)
  s_contributed : list N;        (* identifiers whose share and vector are held (own first) *)
  s_dealt : bool }.              (* the own polynomial was dealt: shares for the participants exist *)

Record pstate := {
  p_id : N;                      (* this instance's identifier *)
  p_timeout : nat;               (* generation timeout, in clock units *)
  p_now : nat;
  p_sessions : list (string * sess);
  p_accounts : list string }.    (* accounts created by a commit *)

Fixpoint sfind (a : string) (l : list (string * sess)) : option sess :=
  match l with [] => None | (a', s) :: r => if String.eqb a a' then Some s else sfind a r end.
Fixpoint sremove (a : string) (l : list (string * sess)) : list (string * sess) :=
  match l with [] => [] | (a', s) :: r => if String.eqb a a' then sremove a r else (a', s) :: sremove a r end.
Definition sput (a : string) (s : sess) (l : list (string * sess)) : list (string * sess) := (a, s) :: sremove a l.

Definition with_sessions (p : pstate) (l : list (string * sess)) : pstate :=
  {| p_id := p_id p; p_timeout := p_timeout p; p_now := p_now p; p_sessions := l; p_accounts := p_accounts p |}.

(* getGeneration: an entry older than the timeout is removed on access *)
Definition get_generation (p : pstate) (a : string) : option sess * pstate :=
  match sfind a (p_sessions p) with
  | None => (None, p)
  | Some s => if p_timeout p <? p_now p - s_started s
              then (None, with_sessions p (sremove a (p_sessions p)))
              else (Some s, p)
  end.

Definition add_id (i : N) (l : list N) : list N := if existsb (N.eqb i) l then l else l ++ [i].

Inductive sevent :=
| SPrepare (a : string) (threshold : nat) (parts : list N)
| SExecute (a : string) (swapped : list N) (ok : bool)
    (* the instance swaps with the higher participants in no fixed order and stops at the first failure:
       ok = every swap it initiates succeeds; swapped = the ones completed before a failure *)
| SContribute (a : string) (sender : N) (valid : bool)   (* valid: share and vector pass the checks *)
| SCommit (a : string) (store_ok : bool)         (* store_ok: the wallet accepts the new account *)
| SAbort (a : string)
| SAdvance (dt : nat).

Definition sstep_ev (p : pstate) (e : sevent) : serr * pstate :=
  match e with
  | SPrepare a thr parts =>
      let '(g, p1) := get_generation p a in
      match g with
      | Some _ => (EInProgress, p1)
      | None =>
          (* a threshold of 0 makes the own contribution fail AFTER the entry was created: the entry
             stays, holding no share at all *)
          let bad := (thr =? 0)%nat in
          let s := {| s_started := p_now p1; s_threshold := thr; s_participants := parts;
                      s_contributed := if bad then [] else [p_id p1]; s_dealt := negb bad |} in
          (if bad then EOther else EOk, with_sessions p1 (sput a s (p_sessions p1)))
      end
  | SExecute a swapped ok =>
      let '(g, p1) := get_generation p a in
      match g with
      | None => (ENotInProgress, p1)
      | Some s =>
          let higher := if s_dealt s then filter (fun i => N.ltb (p_id p1) i) (s_participants s) else [] in
          (* a share already held from a higher participant (e.g. a second execute) is a duplicate *)
          let dup := existsb (fun i => existsb (N.eqb i) (s_contributed s)) higher in
          let got := if ok && negb dup then higher
                     else filter (fun i => existsb (N.eqb i) higher && negb (existsb (N.eqb i) (s_contributed s))) swapped in
          let s' := {| s_started := s_started s; s_threshold := s_threshold s; s_participants := s_participants s;
                       s_contributed := fold_left (fun l i => add_id i l) got (s_contributed s); s_dealt := s_dealt s |} in
          (if ok && negb dup then EOk else EOther, with_sessions p1 (sput a s' (p_sessions p1)))
      end
  | SContribute a sender valid =>
      let '(g, p1) := get_generation p a in
      match g with
      | None => (ENotFound, p1)
      | Some s =>
          (* valid includes: the vector has exactly threshold entries; none passes for threshold 0 *)
          if valid && (0 <? s_threshold s)%nat then
            let s' := {| s_started := s_started s; s_threshold := s_threshold s; s_participants := s_participants s;
                         s_contributed := add_id sender (s_contributed s); s_dealt := s_dealt s |} in
            (EOk, with_sessions p1 (sput a s' (p_sessions p1)))
          else (EOther, p1)
      end
  | SCommit a store_ok =>
      let '(g, p1) := get_generation p a in
      match g with
      | None => (ENotInProgress, p1)
      | Some s =>
          if negb (List.length (s_contributed s) =? List.length (s_participants s))%nat then (EOther, p1)
          else if store_ok then
            (EOk, {| p_id := p_id p1; p_timeout := p_timeout p1; p_now := p_now p1;
                     p_sessions := sremove a (p_sessions p1); p_accounts := a :: p_accounts p1 |})
          else (ENotCreated, p1)
      end
  | SAbort a =>
      let '(g, p1) := get_generation p a in
      match g with
      | None => (ENotInProgress, p1)
      | Some _ => (EOk, with_sessions p1 (sremove a (p_sessions p1)))
      end
  | SAdvance dt =>
      (EOk, {| p_id := p_id p; p_timeout := p_timeout p; p_now := p_now p + dt; p_sessions := p_sessions p; p_accounts := p_accounts p |})
  end.

Fixpoint srun (p : pstate) (h : list sevent) : pstate * list serr :=
  match h with
  | [] => (p, [])
  | e :: r => let '(x, p1) := sstep_ev p e in let '(pf, out) := srun p1 r in (pf, x :: out)
  end.

(* a session is active for a: present and not expired *)
Definition active (p : pstate) (a : string) : bool :=
  match fst (get_generation p a) with Some _ => true | None => false end.
