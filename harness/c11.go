package main

import (
	"bytes"
	"context"
	"encoding/gob"
	"encoding/hex"
	"encoding/json"
	"fmt"
	"os"
	"path/filepath"
	"strconv"
	"strings"

	"github.com/attestantio/dirk/rules"
	standardrules "github.com/attestantio/dirk/rules/standard"
)

// the shape of the legacy (gob) records: gob matches struct fields by name
type signBeaconAttestationState struct {
	SourceEpoch int64
	TargetEpoch int64
}
type signBeaconProposalState struct {
	Slot int64
}

func gobBytes(v any) []byte {
	var b bytes.Buffer
	if err := gob.NewEncoder(&b).Encode(v); err != nil {
		panic(err)
	}
	return b.Bytes()
}

type exportedJSON struct {
	Metadata struct {
		Version string `json:"interchange_format_version"`
		GVR     string `json:"genesis_validators_root"`
	} `json:"metadata"`
	Data []struct {
		PubKey string `json:"pubkey"`
		Blocks []struct {
			Slot string `json:"slot"`
		} `json:"signed_blocks"`
		Atts []struct {
			Src string `json:"source_epoch"`
			Tgt string `json:"target_epoch"`
		} `json:"signed_attestations"`
	} `json:"data"`
}

// cmdExport drives C11.
func cmdExport(args []string) int {
	cf := parseCommon("C11", args, nil)
	ctx := context.Background()
	bin, err := buildDirk(cf.out)
	if err != nil {
		fmt.Fprintln(os.Stderr, err)
		return 2
	}
	fx, err := NewFixture(ctx, 2, 3, false)
	if err != nil {
		fmt.Fprintln(os.Stderr, "fixture:", err)
		return 2
	}
	rng := NewPRNG(cf.seed)
	nHist, nOps := 10, 40
	if cf.tier == "thorough" {
		nHist, nOps = 120, 60
	}
	var monFail []string
	stats := map[string]int{}
	var samples []string
	kt := newKeyTable()
	for _, a := range fx.Accounts {
		var k [48]byte
		copy(k[:], a.Key)
		if id := kt.id(k); id != a.ID {
			fmt.Fprintln(os.Stderr, "key numbering mismatch")
			return 2
		}
	}
	var codec, xcases, imcases []string
	idx := map[string]string{}
	caseID := 0
	distinct := map[string]bool{}

	for h := 0; h < nHist; h++ {
		base, err := newBaseDir()
		if err != nil {
			return 2
		}
		inst, err := NewInstance(ctx, fx, InstanceOpts{AdminIPs: []string{"10.0.0.1"}, Perms: permsFromTbl(stdPermTbl), Dir: filepath.Join(base, "storage")})
		if err != nil {
			fmt.Fprintln(os.Stderr, "instance:", err)
			return 2
		}
		g := newGenState(fx, rng.Fork())
		maxSrc, maxTgt, maxSlot := map[int]int64{}, map[int]int64{}, map[int]int64{}
		for i := 0; i < nOps; i++ {
			var op *Op
			if rng.Chance(75) {
				op = g.genAdvancingOp()
			} else {
				op = g.genSlashingOp(20)
				for op.Kind == KRestart && false {
				}
				// only well-formed requests in this history: keep epochs below 2^63 and valid domains
				ok := true
				for _, d := range op.Atts {
					if d.Src.Epoch >= 1<<63 || d.Tgt.Epoch >= 1<<63 {
						ok = false
					}
				}
				for _, d := range op.Props {
					if d.Slot >= 1<<63 {
						ok = false
					}
				}
				if !ok {
					continue
				}
			}
			obs, err := inst.Exec(ctx, op)
			if err != nil {
				fmt.Fprintln(os.Stderr, "exec:", err)
				return 2
			}
			g.noteSigned(op, obs, inst)
			for p, o := range obs {
				if o.SigLen == 0 || p >= len(op.Addrs) {
					continue
				}
				a := inst.resolveInfo(op.Addrs[p])
				switch op.Kind {
				case KAttest, KAttests:
					if s := int64(op.Atts[p].Src.Epoch); s > maxSrc[a.ID] || !has(maxTgt, a.ID) {
						maxSrc[a.ID] = s
					}
					if t := int64(op.Atts[p].Tgt.Epoch); t > maxTgt[a.ID] || !has(maxTgt, a.ID) {
						maxTgt[a.ID] = t
					}
				case KPropose:
					if s := int64(op.Props[p].Slot); s > maxSlot[a.ID] || !has(maxSlot, a.ID) {
						maxSlot[a.ID] = s
					}
				}
			}
		}
		// (a) the rules-level export states exactly the highest signed values
		exp, err := inst.Rules.ExportSlashingProtection(ctx)
		if err != nil {
			monFail = append(monFail, fmt.Sprintf("ExportSlashingProtection failed: %v", err))
		}
		for _, a := range fx.Accounts {
			var k [48]byte
			copy(k[:], a.Key)
			e, ok := exp[k]
			ws, wt, wsl := int64(-1), int64(-1), int64(-1)
			if has(maxTgt, a.ID) {
				ws, wt = maxSrc[a.ID], maxTgt[a.ID]
			}
			if has(maxSlot, a.ID) {
				wsl = maxSlot[a.ID]
			}
			gs, gt, gsl := int64(-1), int64(-1), int64(-1)
			if ok {
				gs, gt, gsl = e.HighestAttestedSourceEpoch, e.HighestAttestedTargetEpoch, e.HighestProposedSlot
			}
			if gs != ws || gt != wt || gsl != wsl {
				monFail = append(monFail, fmt.Sprintf("history %d key#%d: export says slot %d, %d->%d but the highest signed are slot %d, %d->%d", h, a.ID, gsl, gs, gt, wsl, ws, wt))
			}
		}
		// (b) raw bytes of every record
		raw, _ := inst.Rules.VerifRaw(ctx)
		for k, v := range raw {
			caseID++
			var pk [48]byte
			copy(pk[:], k[:48])
			if k[48] == 2 && len(v) == 17 {
				codec = append(codec, fmt.Sprintf(" CC %s true %s %s %s", coqN(caseID), coqBytes(v), coqZ(int64(leU64(v[1:9]))), coqZ(int64(leU64(v[9:17])))))
			} else if k[48] == 3 && len(v) == 9 {
				codec = append(codec, fmt.Sprintf(" CC %s false %s %s 0", coqN(caseID), coqBytes(v), coqZ(int64(leU64(v[1:9])))))
			} else {
				monFail = append(monFail, fmt.Sprintf("record of unexpected shape: key %x value %x", k, v))
			}
			idx[fmt.Sprint(caseID)] = fmt.Sprintf("raw record key#%d kind %d value %x", kt.id(pk), k[48], v)
		}
		orig, _ := inst.ReadStore(ctx)
		// (d) clean shutdown and restart: same records
		if err := inst.Restart(ctx); err != nil {
			monFail = append(monFail, fmt.Sprintf("restart failed: %v", err))
		}
		after, _ := inst.ReadStore(ctx)
		if fmtStore(orig) != fmtStore(after) {
			monFail = append(monFail, fmt.Sprintf("history %d: records differ after restart: %s vs %s", h, fmtStore(orig), fmtStore(after)))
		}
		_ = closeRules(ctx, inst.Rules)
		// (c) the binary's export, imported into a fresh directory
		expFile := filepath.Join(base, "export.json")
		if h%2 == 1 {
			// the file named for the export exists already and is longer (an export of an instance with more keys,
			// kept under the same name)
			var older strings.Builder
			older.WriteString(`{"metadata":{"interchange_format_version":"5","genesis_validators_root":"` + testGVR + `"},"data":[`)
			for i := 0; i < 40; i++ {
				if i > 0 {
					older.WriteString(",")
				}
				fmt.Fprintf(&older, `{"pubkey":"0x%096x","signed_blocks":[{"slot":"%d"}],"signed_attestations":[{"source_epoch":"%d","target_epoch":"%d"}]}`, i+1, 900+i, 800+i, 801+i)
			}
			older.WriteString("]}")
			_ = os.WriteFile(expFile, []byte(older.String()), 0o600)
		}
		code, out := bin.run(base, "--export-slashing-protection", "--slashing-protection-file", expFile, "--genesis-validators-root", testGVR)
		if code != 0 {
			monFail = append(monFail, fmt.Sprintf("history %d: export exited %d: %s", h, code, out))
			continue
		}
		data, _ := os.ReadFile(expFile)
		var ej exportedJSON
		if err := json.Unmarshal(data, &ej); err != nil {
			monFail = append(monFail, fmt.Sprintf("history %d: export is not valid JSON: %v", h, err))
			continue
		}
		caseID++
		var outs []string
		jf := &jFile{Version: ej.Metadata.Version, GVR: ej.Metadata.GVR}
		for _, d := range ej.Data {
			rawk, _ := hex.DecodeString(strings.TrimPrefix(d.PubKey, "0x"))
			var pk [48]byte
			copy(pk[:], rawk)
			sl, at := "None", "None"
			ent := jEntry{Key: d.PubKey}
			if len(d.Blocks) == 1 {
				v, _ := strconv.ParseInt(d.Blocks[0].Slot, 10, 64)
				sl = fmt.Sprintf("(Some %s)", coqZ(v))
			} else if len(d.Blocks) > 1 {
				monFail = append(monFail, "export lists several blocks for one key")
			}
			for _, b := range d.Blocks {
				ent.Blocks = append(ent.Blocks, jNum{Text: b.Slot})
			}
			if len(d.Atts) == 1 {
				s, _ := strconv.ParseInt(d.Atts[0].Src, 10, 64)
				t, _ := strconv.ParseInt(d.Atts[0].Tgt, 10, 64)
				at = fmt.Sprintf("(Some (%s, %s))", coqZ(s), coqZ(t))
			}
			for _, a := range d.Atts {
				ent.Atts = append(ent.Atts, jAtt{Src: a.Src, Tgt: a.Tgt})
			}
			jf.Data = append(jf.Data, ent)
			outs = append(outs, fmt.Sprintf("(%s, %s, %s)", coqN(kt.id(pk)), sl, at))
		}
		xcases = append(xcases, fmt.Sprintf(" XC %s %s %s", coqN(caseID), coqStore(orig), coqList(outs)))
		idx[fmt.Sprint(caseID)] = fmt.Sprintf("export of %s = %s", fmtStore(orig), string(data))
		distinct[fmtStore(orig)] = true
		if len(samples) < 3 {
			samples = append(samples, fmt.Sprintf("store %s exported as %s", fmtStore(orig), string(data)))
		}
		base2, err := newBaseDir()
		if err != nil {
			return 2
		}
		code, out = bin.run(base2, "--import-slashing-protection", "--slashing-protection-file", expFile, "--genesis-validators-root", testGVR)
		if code != 0 {
			monFail = append(monFail, fmt.Sprintf("history %d: importing the export into an empty directory exited %d: %s", h, code, out))
		}
		var post *StoreView
		probeDiffs := 0
		err = withRules(ctx, base2, func(r2 *standardrules.Service) error {
			var e error
			post, e = readRaw(ctx, r2, kt)
			if e != nil {
				return e
			}
			// identical probes on the original and on the re-imported store
			return withRules(ctx, base, func(r1 *standardrules.Service) error {
				for p := 0; p < 60; p++ {
					a := fx.Accounts[rng.Intn(len(fx.Accounts))]
					md := &rules.ReqMetadata{Account: a.Name, PubKey: a.Key, Client: "client1", IP: "10.0.0.1"}
					near := func(m map[int]int64) uint64 {
						v := m[a.ID]
						d := int64(rng.Intn(5)) - 2
						if v+d < 0 {
							return 0
						}
						return uint64(v + d)
					}
					if rng.Chance(30) {
						req := &rules.SignBeaconProposalData{Domain: mkDomain(domProposer, 0), Slot: near(maxSlot), ParentRoot: fill32(0), StateRoot: fill32(7), BodyRoot: fill32(7)}
						v1, v2 := r1.OnSignBeaconProposal(ctx, md, req), r2.OnSignBeaconProposal(ctx, md, req)
						if v1 != v2 {
							probeDiffs++
							monFail = append(monFail, fmt.Sprintf("history %d: proposal slot %d for key#%d: original instance %s, re-imported instance %s", h, req.Slot, a.ID, v1, v2))
						}
						if v1 == rules.APPROVED {
							maxSlot[a.ID] = int64(req.Slot)
						}
					} else {
						s, t := near(maxSrc), near(maxTgt)
						req := &rules.SignBeaconAttestationData{Domain: mkDomain(domAttester, 0), BeaconBlockRoot: fill32(7),
							Source: &rules.Checkpoint{Epoch: s, Root: fill32(0)}, Target: &rules.Checkpoint{Epoch: t, Root: fill32(7)}}
						v1, v2 := r1.OnSignBeaconAttestation(ctx, md, req), r2.OnSignBeaconAttestation(ctx, md, req)
						if v1 != v2 {
							probeDiffs++
							monFail = append(monFail, fmt.Sprintf("history %d: attestation %d->%d for key#%d: original instance %s, re-imported instance %s", h, s, t, a.ID, v1, v2))
						}
						if v1 == rules.APPROVED {
							maxSrc[a.ID], maxTgt[a.ID] = int64(s), int64(t)
						}
					}
					stats["probes"]++
				}
				return nil
			})
		})
		if err != nil {
			fmt.Fprintln(os.Stderr, "probe:", err)
			return 2
		}
		caseID++
		imcases = append(imcases, fmt.Sprintf(" IM %s %s %s %s %s %s", coqN(caseID), coqStr(testGVR), "(mkstore [] [])", jf.coq(kt), coqBool(code == 0), coqStore(post)))
		idx[fmt.Sprint(caseID)] = fmt.Sprintf("import of the export %s into an empty directory => exit %d, db %s", string(data), code, fmtStore(post))
		if fmtViews(orig) != fmtViews(post) {
			monFail = append(monFail, fmt.Sprintf("history %d: re-imported records %s differ from the original %s", h, fmtViews(post), fmtViews(orig)))
		}
		stats["histories"]++
		os.RemoveAll(base)
		os.RemoveAll(base2)
	}

	// (e) legacy records written by Go's gob encoder are honoured
	legacy := []int64{0, 1, 5, 1000, 1 << 31, 1 << 40, 1<<62 + 3, 1<<63 - 1}
	inst, err := NewInstance(ctx, fx, InstanceOpts{AdminIPs: []string{"10.0.0.1"}, Perms: permsFromTbl(stdPermTbl)})
	if err != nil {
		return 2
	}
	for i, v := range legacy {
		a := fx.Accounts[i%len(fx.Accounts)]
		src := v / 2
		if err := inst.Rules.VerifPutRaw(ctx, recKey(a.Key, 2), gobBytes(&signBeaconAttestationState{SourceEpoch: src, TargetEpoch: v})); err != nil {
			return 2
		}
		if err := inst.Rules.VerifPutRaw(ctx, recKey(a.Key, 3), gobBytes(&signBeaconProposalState{Slot: v})); err != nil {
			return 2
		}
		exp, err := inst.Rules.ExportSlashingProtection(ctx)
		var k [48]byte
		copy(k[:], a.Key)
		if err != nil || exp[k] == nil || exp[k].HighestAttestedSourceEpoch != src || exp[k].HighestAttestedTargetEpoch != v || exp[k].HighestProposedSlot != v {
			monFail = append(monFail, fmt.Sprintf("legacy gob record (source %d, target %d, slot %d) for key#%d is exported as %+v (err %v)", src, v, v, a.ID, exp[k], err))
			continue
		}
		md := &rules.ReqMetadata{Account: a.Name, PubKey: a.Key, Client: "client1", IP: "10.0.0.1"}
		at := func(s, t uint64) rules.Result {
			return inst.Rules.OnSignBeaconAttestation(ctx, md, &rules.SignBeaconAttestationData{Domain: mkDomain(domAttester, 0), BeaconBlockRoot: fill32(7),
				Source: &rules.Checkpoint{Epoch: s, Root: fill32(0)}, Target: &rules.Checkpoint{Epoch: t, Root: fill32(7)}})
		}
		pr := func(s uint64) rules.Result {
			return inst.Rules.OnSignBeaconProposal(ctx, md, &rules.SignBeaconProposalData{Domain: mkDomain(domProposer, 0), Slot: s, ParentRoot: fill32(0), StateRoot: fill32(7), BodyRoot: fill32(7)})
		}
		if r := at(uint64(src), uint64(v)); r == rules.APPROVED {
			monFail = append(monFail, fmt.Sprintf("legacy record target %d not honoured: attestation %d->%d approved", v, src, v))
		}
		if src > 0 {
			if r := at(uint64(src-1), uint64(v)+1); r == rules.APPROVED && v < 1<<63-1 {
				monFail = append(monFail, fmt.Sprintf("legacy record source %d not honoured: attestation %d->%d approved", src, src-1, v+1))
			}
		}
		if r := pr(uint64(v)); r == rules.APPROVED {
			monFail = append(monFail, fmt.Sprintf("legacy record slot %d not honoured: proposal at that slot approved", v))
		}
		if v < 1<<63-1 {
			if r := at(uint64(src), uint64(v)+1); r != rules.APPROVED {
				monFail = append(monFail, fmt.Sprintf("after legacy record (%d->%d) the advancing attestation %d->%d is %s", src, v, src, v+1, r))
			}
			if r := pr(uint64(v) + 1); r != rules.APPROVED {
				monFail = append(monFail, fmt.Sprintf("after legacy slot %d the advancing proposal %d is %s", v, v+1, r))
			}
		}
		stats["legacy.records"] += 2
	}
	inst.Close(ctx)

	// (f) a store of several hundred validators (an export walks the store in more than one read-ahead
	// window): every exported entry is that key's own record; keys with only one kind of record among them
	{
		big, err := NewInstance(ctx, fx, InstanceOpts{AdminIPs: []string{"10.0.0.1"}, Perms: permsFromTbl(stdPermTbl)})
		if err != nil {
			return 2
		}
		nBig := 400
		if cf.tier == "thorough" {
			nBig = 6000
		}
		type bigRec struct{ s, t, p int64 }
		want := map[[48]byte]bigRec{}
		for i := 0; i < nBig; i++ {
			var k [48]byte
			copy(k[:], rng.Bytes(48))
			r := bigRec{s: int64(i), t: int64(i + 1 + rng.Intn(5)), p: int64(3*i + rng.Intn(3))}
			switch i % 7 {
			case 3:
				r.p = -1 // has only attested
			case 5:
				r.s, r.t = -1, -1 // has only proposed
			}
			if r.s >= 0 {
				if err := big.Rules.VerifPutRaw(ctx, recKey(k[:], 2), encodeAtt(r.s, r.t)); err != nil {
					return 2
				}
			}
			if r.p >= 0 {
				if err := big.Rules.VerifPutRaw(ctx, recKey(k[:], 3), encodeProp(r.p)); err != nil {
					return 2
				}
			}
			want[k] = r
		}
		exp, err := big.Rules.ExportSlashingProtection(ctx)
		if err != nil || len(exp) != len(want) {
			monFail = append(monFail, fmt.Sprintf("export of a store with %d keys: %d entries (err %v)", len(want), len(exp), err))
		}
		bad := 0
		for k, r := range want {
			e := exp[k]
			if e == nil || e.HighestAttestedSourceEpoch != r.s || e.HighestAttestedTargetEpoch != r.t || e.HighestProposedSlot != r.p {
				bad++
				if bad <= 3 {
					monFail = append(monFail, fmt.Sprintf("store of %d keys: key %x... holds attestation %d->%d, proposal %d, but is exported as %+v", len(want), k[:6], r.s, r.t, r.p, e))
				}
			}
		}
		stats["bigstore.keys"] = len(want)
		stats["bigstore.wrong"] = bad
		big.Close(ctx)
	}

	var b strings.Builder
	b.WriteString("From DV Require Import Corr.CheckExport.\nLocal Open Scope Z_scope.\nLocal Open Scope string_scope.\n")
	fmt.Fprintf(&b, "Definition ccases : list ccase := [\n%s].\n", strings.Join(codec, ";\n"))
	fmt.Fprintf(&b, "Definition xcases : list xcase := [\n%s].\n", strings.Join(xcases, ";\n"))
	fmt.Fprintf(&b, "Definition icases : list imcase := [\n%s].\n", strings.Join(imcases, ";\n"))
	var kids []string
	for i := range kt.keys {
		kids = append(kids, coqN(i+1))
	}
	fmt.Fprintf(&b, "Definition keys : list N := %s.\n", coqList(kids))
	b.WriteString("Definition M := Eval vm_compute in (codec_mismatches ccases ++ export_mismatches xcases ++ import_mismatches true keys icases)%list.\nPrint M.\n")
	if err := os.WriteFile(filepath.Join(cf.out, "cases_C11_0.v"), []byte(b.String()), 0o644); err != nil {
		return 2
	}
	n := len(codec) + len(xcases) + len(imcases)
	sum := &Summary{Property: "C11", Seed: cf.seed, Tier: cf.tier, Evaluations: n + stats["probes"] + stats["legacy.records"], Distinct: len(codec) + len(distinct),
		Rule:         "histories of well-formed requests (75% advancing, 25% conflicting) on an instance whose store the real dirk binary then exports; per history: rules-level export vs the highest signed values tracked by the harness, raw bytes of every record vs the model's encoder/decoder, restart, binary export vs the model's export_cmd, binary import of that export into an empty directory vs import_cmd, 60 identical probes on original and re-imported store; legacy records produced by Go's gob encoder for boundary values; distinct = distinct raw records + distinct exported stores",
		Histories:    nHist,
		Distribution: stats, Samples: samples, MonitorFailures: monFail, CaseFiles: []string{"cases_C11_0.v"}, CaseIndex: idx}
	if err := writeSummary(cf.out, sum); err != nil {
		return 2
	}
	return 0
}

func has(m map[int]int64, k int) bool { _, ok := m[k]; return ok }
