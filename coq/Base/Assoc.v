(* Association lists keyed by N, used as the store.  insert replaces in place or appends. *)
From Coq Require Export NArith List Bool.
Export ListNotations.

Section Assoc.
  Context {V : Type}.

  Fixpoint lookup (k : N) (l : list (N * V)) : option V :=
    match l with
    | [] => None
    | (k', v) :: r => if N.eqb k k' then Some v else lookup k r
    end.

  Fixpoint insert (k : N) (v : V) (l : list (N * V)) : list (N * V) :=
    match l with
    | [] => [(k, v)]
    | (k', v') :: r => if N.eqb k k' then (k, v) :: r else (k', v') :: insert k v r
    end.
End Assoc.
