package main

import (
	"fmt"
	"strings"
)

// Pattern trees of the modelled regular-expression syntax, printed both as Go regexp text and as
// the Coq re type (Base/Regex.v).

type rnode struct {
	kind string // lit, dot, class, seq, alt, star, plus, opt, bol, eol
	c    byte
	neg  bool
	esc  string // class written as an escape (\d \D \w \W \s \S) in Go's syntax; neg / rs say what it stands for
	rs   [][2]byte
	kids []*rnode
}

func (n *rnode) goText() string {
	switch n.kind {
	case "lit":
		return string([]byte{n.c})
	case "dot":
		return "."
	case "class":
		if n.esc != "" {
			return n.esc
		}
		var b strings.Builder
		b.WriteString("[")
		if n.neg {
			b.WriteString("^")
		}
		for _, r := range n.rs {
			if r[0] == r[1] {
				b.WriteByte(r[0])
			} else {
				fmt.Fprintf(&b, "%c-%c", r[0], r[1])
			}
		}
		b.WriteString("]")
		return b.String()
	case "seq":
		var b strings.Builder
		for _, k := range n.kids {
			b.WriteString(k.goText())
		}
		return b.String()
	case "alt": // a group
		var parts []string
		for _, k := range n.kids {
			parts = append(parts, k.goText())
		}
		return "(" + strings.Join(parts, "|") + ")"
	case "star":
		return n.kids[0].goText() + "*"
	case "plus":
		return n.kids[0].goText() + "+"
	case "opt":
		return n.kids[0].goText() + "?"
	case "bol":
		return "^"
	case "eol":
		return "$"
	}
	return ""
}

func (n *rnode) coq() string {
	switch n.kind {
	case "lit":
		return fmt.Sprintf("(L %d)", n.c)
	case "dot":
		return "DOT"
	case "class":
		if n.esc != "" {
			// by its letter: the model has its own definition of the escape classes (Base/RegexEsc.v)
			return fmt.Sprintf("(ESC %d%%N)", n.esc[1])
		}
		var rs []string
		for _, r := range n.rs {
			rs = append(rs, fmt.Sprintf("(%d,%d)", r[0], r[1]))
		}
		return fmt.Sprintf("(CL %s [%s]%%N)", coqBool(n.neg), strings.Join(rs, ";"))
	case "seq":
		var ks []string
		for _, k := range n.kids {
			ks = append(ks, k.coq())
		}
		return "(SEQ " + coqList(ks) + ")"
	case "alt":
		var ks []string
		for _, k := range n.kids {
			ks = append(ks, k.coq())
		}
		return "(alts " + coqList(ks) + ")"
	case "star":
		return "(Star " + n.kids[0].coq() + ")"
	case "plus":
		return "(Plus " + n.kids[0].coq() + ")"
	case "opt":
		return "(Opt " + n.kids[0].coq() + ")"
	case "bol":
		return "Bol"
	case "eol":
		return "Eol"
	}
	return "Void"
}

// Pat is a configured pattern: its top-level alternatives (nil = the empty name).
type Pat struct {
	Empty bool
	Top   []*rnode
}

func (p *Pat) goText() string {
	if p.Empty {
		return ""
	}
	var parts []string
	for _, a := range p.Top {
		parts = append(parts, a.goText())
	}
	return strings.Join(parts, "|")
}

func (p *Pat) coq() string {
	if p.Empty {
		return "None"
	}
	var parts []string
	for _, a := range p.Top {
		parts = append(parts, a.coq())
	}
	return "(Some " + coqList(parts) + ")"
}

func litSeq(s string) *rnode {
	n := &rnode{kind: "seq"}
	for i := 0; i < len(s); i++ {
		n.kids = append(n.kids, &rnode{kind: "lit", c: s[i]})
	}
	return n
}

type patGen struct {
	rng   *PRNG
	words []string // literals names are built from
}

func (g *patGen) atom(depth int) *rnode {
	switch r := g.rng.Intn(20); {
	case r < 11:
		return litSeq(g.words[g.rng.Intn(len(g.words))])
	case r < 13:
		return &rnode{kind: "dot"}
	case r < 16:
		if g.rng.Chance(30) {
			return escClass(g.rng.Intn(6))
		}
		classes := [][][2]byte{{{'0', '9'}}, {{'a', 'c'}}, {{'A', 'Z'}}, {{'1', '1'}, {'3', '5'}}, {{'a', 'z'}, {'0', '9'}}}
		return &rnode{kind: "class", neg: g.rng.Chance(20), rs: classes[g.rng.Intn(len(classes))]}
	default:
		if depth <= 0 {
			return litSeq(g.words[g.rng.Intn(len(g.words))])
		}
		n := &rnode{kind: "alt"}
		for i := 2 + g.rng.Intn(2); i > 0; i-- {
			n.kids = append(n.kids, g.seq(depth-1))
		}
		return n
	}
}

func (g *patGen) piece(depth int) *rnode {
	a := g.atom(depth)
	// a quantifier binds to one character, class or group - not to a multi-character literal
	single := a.kind != "seq" || len(a.kids) == 1
	if single && a.kind == "seq" {
		a = a.kids[0]
	}
	if !single {
		return a
	}
	switch g.rng.Intn(10) {
	case 0:
		return &rnode{kind: "star", kids: []*rnode{a}}
	case 1:
		return &rnode{kind: "plus", kids: []*rnode{a}}
	case 2:
		return &rnode{kind: "opt", kids: []*rnode{a}}
	}
	return a
}

func (g *patGen) seq(depth int) *rnode {
	n := &rnode{kind: "seq"}
	for i := 1 + g.rng.Intn(2); i > 0; i-- {
		n.kids = append(n.kids, g.piece(depth))
	}
	return n
}

// pattern draws a configured pattern: 1-3 top-level alternatives, sometimes with own anchors at the
// top level of an alternative (never inside a group: regexify looks at the text's first and last
// character only).
func (g *patGen) pattern() *Pat {
	if g.rng.Chance(8) {
		return &Pat{Empty: true}
	}
	p := &Pat{}
	n := 1
	if g.rng.Chance(50) {
		n = 2 + g.rng.Intn(2)
	}
	for i := 0; i < n; i++ {
		var a *rnode
		if g.rng.Chance(55) {
			a = litSeq(g.words[g.rng.Intn(len(g.words))])
		} else {
			a = g.seq(2)
		}
		if g.rng.Chance(10) {
			a = &rnode{kind: "seq", kids: append([]*rnode{{kind: "bol"}}, a.kids...)}
		}
		if g.rng.Chance(10) {
			a = &rnode{kind: "seq", kids: append(append([]*rnode{}, a.kids...), &rnode{kind: "eol"})}
		}
		p.Top = append(p.Top, a)
	}
	if g.rng.Chance(12) {
		// the configured name brings its own anchors around all of it: ^a|b$
		first, last := p.Top[0], p.Top[len(p.Top)-1]
		p.Top[0] = &rnode{kind: "seq", kids: append([]*rnode{{kind: "bol"}}, first.kids...)}
		if len(p.Top) == 1 {
			last = p.Top[0]
		}
		p.Top[len(p.Top)-1] = &rnode{kind: "seq", kids: append(append([]*rnode{}, last.kids...), &rnode{kind: "eol"})}
	}
	return p
}

// names derived from the words: exact, prefixed, suffixed, case-flipped, doubled
func (g *patGen) name() string {
	w := g.words[g.rng.Intn(len(g.words))]
	switch g.rng.Intn(9) {
	case 0:
		return w + "0"
	case 1:
		return "x" + w
	case 2:
		return strings.ToUpper(w)
	case 3:
		return strings.ToLower(w)
	case 4:
		return w + g.words[g.rng.Intn(len(g.words))]
	case 5:
		if len(w) > 1 {
			return w[:len(w)-1]
		}
	case 6:
		return w + " "
	}
	return w
}

// escClass: the escape classes of Go's syntax with what they stand for (names are ASCII).
func escClass(k int) *rnode {
	digit := [][2]byte{{'0', '9'}}
	word := [][2]byte{{'0', '9'}, {'A', 'Z'}, {'_', '_'}, {'a', 'z'}}
	space := [][2]byte{{9, 10}, {12, 13}, {' ', ' '}}
	switch k % 6 {
	case 0:
		return &rnode{kind: "class", esc: `\d`, rs: digit}
	case 1:
		return &rnode{kind: "class", esc: `\D`, neg: true, rs: digit}
	case 2:
		return &rnode{kind: "class", esc: `\w`, rs: word}
	case 3:
		return &rnode{kind: "class", esc: `\W`, neg: true, rs: word}
	case 4:
		return &rnode{kind: "class", esc: `\s`, rs: space}
	}
	return &rnode{kind: "class", esc: `\S`, neg: true, rs: space}
}
