(* Model of the command-level slashing-protection export / import (slashingprotection.go in the
   repository root) on top of the rules-level export / import (Rules.v), from the decoded JSON
   structure on.  No proofs in this file. *)
From DV Require Export Model.Rules.
Local Open Scope Z_scope.

(* strconv.ParseInt(s, 10, 64): a decimal in int64 range, or an error *)
Inductive pnum := PErr | PVal (z : Z).

Record fentry := {
  fe_key : option N;                    (* None = the public key is not valid hex; Some k = the number of
                                           the 48-byte key obtained by Go's copy (truncate / zero-pad) *)
  fe_blocks : list pnum;                (* signed_blocks[].slot *)
  fe_atts : list (pnum * pnum) }.       (* signed_attestations[].(source_epoch, target_epoch) *)

Record ifile := {
  if_meta : option (string * string);   (* (interchange_format_version, genesis_validators_root) *)
  if_data : list fentry }.

Record icfg := {
  ic_gvr : string;                      (* --genesis-validators-root as given *)
  ic_gvr_ok : bool;                     (* it is hex of 32 bytes *)
  merge_fieldwise : bool;               (* true = the F3 repair: per-field maxima, repeated keys accumulate *)
  reject_negative : bool }.             (* true = negative numbers in the file are an error *)

Inductive ires := IOk (st : store) | IErr.

(* per-key maxima over the records of one entry, starting from -1 *)
Definition num_ok (c : icfg) (z : Z) : bool := negb (reject_negative c && (z <? 0)).

Fixpoint max_atts (c : icfg) (l : list (pnum * pnum)) (s t : Z) : option (Z * Z) :=
  match l with
  | [] => Some (s, t)
  | (PVal a, PVal b) :: r =>
      if num_ok c a && num_ok c b then max_atts c r (if s <? a then a else s) (if t <? b then b else t) else None
  | _ :: _ => None
  end.
Fixpoint max_blocks (c : icfg) (l : list pnum) (s : Z) : option Z :=
  match l with
  | [] => Some s
  | PVal a :: r => if num_ok c a then max_blocks c r (if s <? a then a else s) else None
  | PErr :: _ => None
  end.

Definition sp_none : sp := {| sp_slot := -1; sp_src := -1; sp_tgt := -1 |}.
Definition zmax (a b : Z) : Z := if a <? b then b else a.
Definition sp_max (a b : sp) : sp :=
  {| sp_slot := zmax (sp_slot a) (sp_slot b); sp_src := zmax (sp_src a) (sp_src b); sp_tgt := zmax (sp_tgt a) (sp_tgt b) |}.
Definition sp_le (a b : sp) : bool := (sp_slot a <=? sp_slot b) && (sp_src a <=? sp_src b) && (sp_tgt a <=? sp_tgt b).

(* the key's existing entry as ExportSlashingProtection reports it (None = no record at all) *)
Definition existing (st : store) (k : N) : option sp :=
  if existsb (N.eqb k) (export_keys st) then Some (export_view st k) else None.

(* the loop over the file's entries building protectionMap (an association list; insert = map store) *)
Fixpoint build_map (c : icfg) (st : store) (l : list fentry) (m : list (N * sp)) : option (list (N * sp)) :=
  match l with
  | [] => Some m
  | e :: r =>
    match fe_key e with
    | None => None
    | Some k =>
      match max_atts c (fe_atts e) (-1) (-1) with
      | None => None
      | Some (s, t) =>
        match max_blocks c (fe_blocks e) (-1) with
        | None => None
        | Some b =>
          let kp := {| sp_slot := b; sp_src := s; sp_tgt := t |} in
          if merge_fieldwise c then
            let kp1 := match lookup k m with Some earlier => sp_max kp earlier | None => kp end in
            let kp2 := match existing st k with Some ex => sp_max kp1 ex | None => kp1 end in
            build_map c st r (insert k kp2 m)
          else
            match existing st k with
            | Some ex => if sp_le ex kp then build_map c st r (insert k kp m) else build_map c st r m
            | None => build_map c st r (insert k kp m)
            end
        end
      end
    end
  end.

(* storeSlashingProtection *)
Definition import_cmd (c : icfg) (st : store) (f : ifile) : ires :=
  match if_meta f with
  | None => IErr
  | Some (ver, gvr) =>
    if negb (String.eqb ver "5") then IErr else
    if String.eqb (ic_gvr c) "" then IErr else
    if negb (ic_gvr_ok c) then IErr else
    if negb (String.eqb (ic_gvr c) gvr) then IErr else
    match build_map c st (if_data f) [] with
    | None => IErr
    | Some m => IOk (import_rules st m)
    end
  end.

(* fetchSlashingProtection: one entry per key that has any record *)
Fixpoint dedup (l : list N) : list N :=
  match l with
  | [] => []
  | k :: r => if existsb (N.eqb k) r then dedup r else k :: dedup r
  end.
Definition export_entry (st : store) (k : N) : fentry :=
  let v := export_view st k in
  {| fe_key := Some k;
     fe_blocks := if sp_slot v =? -1 then [] else [PVal (sp_slot v)];
     fe_atts := if sp_src v =? -1 then [] else [(PVal (sp_src v), PVal (sp_tgt v))] |}.
Definition export_cmd (gvr : string) (st : store) : ifile :=
  {| if_meta := Some ("5"%string, gvr); if_data := map (export_entry st) (dedup (export_keys st)) |}.
