(* The escape classes of Go's regular-expression syntax that permission paths may use: \d \D \w \W \s \S,
   by the letter after the backslash (its byte value).  No proofs in this file. *)
From DV Require Export Base.Regex.
Local Open Scope N_scope.

Definition digit_ranges : list (N * N) := [(48, 57)].                                   (* 0-9 *)
Definition word_ranges : list (N * N) := [(48, 57); (65, 90); (95, 95); (97, 122)].      (* 0-9 A-Z _ a-z *)
Definition space_ranges : list (N * N) := [(9, 10); (12, 13); (32, 32)].                 (* \t \n \f \r space *)

(* letter: 100 d, 68 D, 119 w, 87 W, 115 s, 83 S; any other letter: the empty class *)
Definition esc_cset (letter : N) : cset :=
  if N.eqb letter 100 then CClass false digit_ranges
  else if N.eqb letter 68 then CClass true digit_ranges
  else if N.eqb letter 119 then CClass false word_ranges
  else if N.eqb letter 87 then CClass true word_ranges
  else if N.eqb letter 115 then CClass false space_ranges
  else if N.eqb letter 83 then CClass true space_ranges
  else CClass false [].

Definition ESC (letter : N) : re := Chr (esc_cset letter).
