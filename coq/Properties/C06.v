(* C06 - signing fails closed: any failure on the way yields no signature. *)
From DV Require Import Model.Instance Proofs.RulerProofs Proofs.SignerProofs Proofs.DomainProofs Proofs.Examples Proofs.ExampleProofs.
Local Open Scope Z_scope.

(* closed x           :=  fst x = CSucceeded <-> snd x <> None      (state / signature of one position)
   sfault_active sf   :=  the position's script injects a resolve error, a permission refusal, an
                          IsUnlocked error / unlocker error / wrong passphrase, a signing error or an
                          account that is no signer *)

(* (a) For EVERY configuration, store, request of any kind and fault schedule (including an
       arbitrary injected ruler answer - UNKNOWN, FAILED, DENIED, short lists, even APPROVED):
       every position of the response carries a signature if and only if its state is SUCCEEDED.
   (b) A fault scripted for a position leaves that position without a signature, for the three
       single-request endpoints and, position by position, for batched attestations.
   (c) A failing write (or read) of the protection store leaves every position of an
       attestation batch, and a proposal, without signature. *)
Theorem C06_fail_closed :
  (forall c st o, Forall closed (fst (step c st o))) /\
  (forall c st cl a d f, sfault_active (pos_fault f 0) -> snd (fst (sign_att c st cl a d f)) = None) /\
  (forall c st cl a d f, sfault_active (pos_fault f 0) -> snd (fst (sign_prop c st cl a d f)) = None) /\
  (forall c cl a d f, sfault_active (pos_fault f 0) -> snd (sign_gen c cl a d f) = None) /\
  (forall c st cl reqs f i y, sfault_active (pos_fault f i) ->
     nth_error (fst (sign_atts c st cl reqs f)) i = Some y -> snd y = None) /\
  (forall c st cl reqs f, of_ruler f = None -> f_store (of_rules f) = true ->
     sigs_of (fst (sign_atts c st cl reqs f)) = []) /\
  (forall c st cl a d f, of_ruler f = None ->
     f_store (of_rules f) = true \/ fetch_fails (of_rules f) 0 = true ->
     snd (fst (sign_prop c st cl a d f)) = None).
Proof. exact C06_main. Qed.
Print Assumptions C06_fail_closed.

(* non-vacuity: the same request succeeds without faults and fails closed with a store fault *)
Example C06_example :
  let c := ex_cfg true in
  let go f := fst (sign_att c empty_store ex_cl (by_key 1) (ex_att 0 1 1) f) in
  fst (go no_ofault) = CSucceeded /\ snd (go no_ofault) <> None /\
  go {| of_pos := []; of_ruler := None; of_rules := {| f_fetch := []; f_store := true |} |} = (CFailed, None) /\
  go {| of_pos := []; of_ruler := Some [RUnknown]; of_rules := no_fault |} = (CFailed, None).
Proof. vm_compute. repeat split; try reflexivity. discriminate. Qed.
