(* Invariants of the lock protocol, progress, termination and serial equivalence. *)
From DV Require Import Model.Conc.
From Coq Require Import Lia Permutation.

Section ConcProofs.
Variable val : Type.
Variable req : Type.
Variable verdict : Type.
Variable keys : req -> list key.
Variable decide : req -> list (key * val) -> verdict * list (key * val).

(* the decision depends only on the values read for the request's keys, and writes only those keys *)
Hypothesis decide_local : forall r l1 l2,
  (forall k, In k (keys r) -> rd l1 k = rd l2 k) -> decide r l1 = decide r l2.
Hypothesis decide_writes : forall r l k v, In (k, v) (snd (decide r l)) -> In k (keys r).

Local Notation store := (store val).
Local Notation phase := (phase val verdict).
Local Notation thread := (thread val req verdict).
Local Notation world := (world val req verdict).
Local Notation fire := (fire keys decide).
Local Notation reach := (reach keys decide).
Local Notation seq_step := (seq_step keys decide).
Local Notation ser := (ser keys decide).
Local Notation run_sched := (run_sched keys decide).
Local Notation set_thread := (@set_thread val req verdict).
Local Notation init := (@init val req verdict).
Local Notation held := (@held val verdict).
Local Notation finished := (@finished val req verdict).
Local Notation apply := (@apply val).
Local Notation upd := (@upd val).
Local Notation rd := (@rd val).
Local Notation snapshot := (@snapshot val).

(* ---------- invariants ---------- *)
Definition inv_klock (w : world) : Prop :=
  forall k t, w_klock w k = Some t <->
    exists th, nth_error (w_threads w) t = Some th /\ In k (held (t_ph th)).
Definition inv_mlock (w : world) : Prop :=
  forall t, w_mlock w = Some t <->
    exists th todo got, nth_error (w_threads w) t = Some th /\ t_ph th = PLocking todo got.
Definition inv_shape (w : world) : Prop :=
  forall t th, nth_error (w_threads w) t = Some th ->
    match t_ph th with
    | PLocking todo got => rev got ++ todo = keys (t_req th)
    | PLocked got tf reads => rev got = keys (t_req th) /\ map fst reads ++ tf = keys (t_req th)
                              /\ forall k v, In (k, v) reads -> v = w_store w k
    | PCommitted tr _ => incl tr (keys (t_req th))
    | _ => True end.
Definition inv_nodup (w : world) : Prop :=
  forall t th, nth_error (w_threads w) t = Some th -> NoDup (held (t_ph th)).


(* ---------- basic list lemmas ---------- *)
Lemma nth_set_thread l : forall t t' th th0, nth_error l t = Some th0 ->
  nth_error (set_thread l t th) t' = if Nat.eqb t' t then Some th else nth_error l t'.
Proof.
  induction l as [|x l IH]; intros t t' th th0 H.
  - destruct t; discriminate.
  - destruct t as [|t]; cbn [set_thread].
    + destruct t' as [|t']; reflexivity.
    + destruct t' as [|t']; [reflexivity|]. cbn [nth_error Nat.eqb]. eapply IH. exact H.
Qed.
Lemma length_set_thread l : forall t th, length (set_thread l t th) = length l.
Proof. induction l as [|x l IH]; intros [|t] th; cbn; auto. Qed.


Hypothesis keys_nodup : forall r, NoDup (keys r).

Definition put (w : world) (t : nat) (th : thread) (ph : phase) : list thread :=
  set_thread (w_threads w) t {| t_req := t_req th; t_ph := ph |}.
Definition mk st ml kl ths lg : world :=
  {| w_store := st; w_mlock := ml; w_klock := kl; w_threads := ths; w_log := lg |}.

Inductive step (w : world) (t : nat) : world -> Prop :=
| s_pre th : nth_error (w_threads w) t = Some th -> t_ph th = PStart -> w_mlock w = None ->
    step w t (mk (w_store w) (Some t) (w_klock w) (put w t th (PLocking (keys (t_req th)) [])) (w_log w))
| s_lock th k todo got : nth_error (w_threads w) t = Some th -> t_ph th = PLocking (k :: todo) got ->
    w_klock w k = None ->
    step w t (mk (w_store w) (w_mlock w) (kset (w_klock w) k (Some t)) (put w t th (PLocking todo (k :: got))) (w_log w))
| s_post th got : nth_error (w_threads w) t = Some th -> t_ph th = PLocking [] got ->
    step w t (mk (w_store w) None (w_klock w) (put w t th (PLocked got (keys (t_req th)) [])) (w_log w))
| s_fetch th got k tf reads : nth_error (w_threads w) t = Some th -> t_ph th = PLocked got (k :: tf) reads ->
    step w t (mk (w_store w) (w_mlock w) (w_klock w) (put w t th (PLocked got tf (reads ++ [(k, w_store w k)]))) (w_log w))
| s_commit th got reads : nth_error (w_threads w) t = Some th -> t_ph th = PLocked got [] reads ->
    step w t (mk (apply (w_store w) (snd (decide (t_req th) reads))) (w_mlock w) (w_klock w)
                 (put w t th (PCommitted got (fst (decide (t_req th) reads)))) ((t, t_req th, fst (decide (t_req th) reads)) :: w_log w))
| s_unlock th k rest out : nth_error (w_threads w) t = Some th -> t_ph th = PCommitted (k :: rest) out ->
    step w t (mk (w_store w) (w_mlock w) (kset (w_klock w) k None) (put w t th (PCommitted rest out)) (w_log w))
| s_ret th out : nth_error (w_threads w) t = Some th -> t_ph th = PCommitted [] out ->
    step w t (mk (w_store w) (w_mlock w) (w_klock w) (put w t th (PDone out)) (w_log w)).

Lemma fire_step w t w' : fire w t = Some w' -> step w t w'.
Proof.
  unfold fire. destruct (nth_error (w_threads w) t) as [th|] eqn:Hth; [|discriminate].
  destruct (t_ph th) as [|todo got|got tf reads|tr out|out] eqn:Hph.
  - destruct (w_mlock w) eqn:Hm; [discriminate|]. intros H; injection H as <-. eapply s_pre; eauto.
  - destruct todo as [|k todo].
    + intros H; injection H as <-. eapply s_post; eauto.
    + destruct (w_klock w k) eqn:Hk; [discriminate|]. intros H; injection H as <-. eapply s_lock; eauto.
  - destruct tf as [|k tf]; intros H; injection H as <-.
    + eapply s_commit; eauto.
    + eapply s_fetch; eauto.
  - destruct tr as [|k tr]; intros H; injection H as <-.
    + eapply s_ret; eauto.
    + eapply s_unlock; eauto.
  - discriminate.
Qed.

Lemma nth_put w t th ph t' : nth_error (w_threads w) t = Some th ->
  nth_error (put w t th ph) t' = if Nat.eqb t' t then Some {| t_req := t_req th; t_ph := ph |} else nth_error (w_threads w) t'.
Proof. intros H. unfold put. eapply nth_set_thread; eauto. Qed.

Definition Inv (w : world) : Prop := inv_klock w /\ inv_mlock w /\ inv_shape w /\ inv_nodup w.

(* klock unchanged, held unchanged *)
Lemma klock_same w t th ph st ml lg :
  nth_error (w_threads w) t = Some th -> held ph = held (t_ph th) ->
  inv_klock w -> inv_klock (mk st ml (w_klock w) (put w t th ph) lg).
Proof.
  intros Hth Hh I k t'. cbn. rewrite (nth_put _ _ _ _ _ Hth). specialize (I k t').
  destruct (Nat.eqb_spec t' t) as [->|N].
  - rewrite I. split; intros (th' & E & Hin).
    + rewrite Hth in E. injection E as <-. eexists; split; [reflexivity|]. cbn. now rewrite Hh.
    + injection E as <-. cbn in Hin. rewrite Hh in Hin. eauto.
  - exact I.
Qed.

Lemma inv_klock_step w t w' : step w t w' -> Inv w -> inv_klock w'.
Proof.
  intros S (IK & IM & IS & IN). destruct S as [th Hth Hph Hm|th k todo got Hth Hph Hk|th got Hth Hph
    |th got k tf reads Hth Hph|th got reads Hth Hph|th k rest out Hth Hph|th out Hth Hph].
  - apply klock_same; auto. now rewrite Hph.
  - (* lock *)
    intros k' t'. cbn. rewrite (nth_put _ _ _ _ _ Hth). unfold kset.
    destruct (Nat.eqb_spec k' k) as [->|Nk].
    + split.
      * intros E; injection E as <-. rewrite Nat.eqb_refl. eexists; split; [reflexivity|]. cbn. auto.
      * intros (th' & E & Hin). destruct (Nat.eqb_spec t' t) as [->|Nt]; [reflexivity|].
        exfalso. assert (w_klock w k = Some t') as C by (apply IK; eauto). congruence.
    + rewrite (IK k' t'). destruct (Nat.eqb_spec t' t) as [->|Nt]; [|reflexivity].
      split; intros (th' & E & Hin).
      * rewrite Hth in E; injection E as <-. rewrite Hph in Hin. eexists; split; [reflexivity|]. cbn in *. auto.
      * injection E as <-. cbn in Hin. destruct Hin as [->|Hin]; [congruence|].
        exists th; split; auto. rewrite Hph. exact Hin.
  - apply klock_same; auto. now rewrite Hph.
  - apply klock_same; auto. now rewrite Hph.
  - apply klock_same; auto. now rewrite Hph.
  - (* unlock *)
    assert (NoDup (k :: rest)) as ND by (specialize (IN t th Hth); now rewrite Hph in IN).
    intros k' t'. cbn. rewrite (nth_put _ _ _ _ _ Hth). unfold kset.
    destruct (Nat.eqb_spec k' k) as [->|Nk].
    + split; [discriminate|]. intros (th' & E & Hin). exfalso.
      destruct (Nat.eqb_spec t' t) as [->|Nt].
      * injection E as <-. cbn in Hin. now inversion ND.
      * assert (w_klock w k = Some t') as C1 by (apply IK; eauto).
        assert (w_klock w k = Some t) as C2 by (apply IK; exists th; split; auto; rewrite Hph; cbn; auto).
        congruence.
    + rewrite (IK k' t'). destruct (Nat.eqb_spec t' t) as [->|Nt]; [|reflexivity].
      split; intros (th' & E & Hin).
      * rewrite Hth in E; injection E as <-. rewrite Hph in Hin. cbn in Hin. destruct Hin as [->|Hin]; [congruence|].
        eexists; split; [reflexivity|]. exact Hin.
      * injection E as <-. cbn in Hin. exists th; split; auto. rewrite Hph. cbn. auto.
  - apply klock_same; auto. now rewrite Hph.
Qed.


Lemma inv_nodup_step w t w' : step w t w' -> Inv w -> inv_nodup w'.
Proof.
  intros S (IK & IM & IS & IN).
  destruct S as [th Hth Hph Hm|th k todo got Hth Hph Hk|th got Hth Hph
    |th got k tf reads Hth Hph|th got reads Hth Hph|th k rest out Hth Hph|th out Hth Hph];
  intros t' th' E; cbn in E; rewrite (nth_put _ _ _ _ _ Hth) in E;
  (destruct (Nat.eqb_spec t' t) as [->|Nt]; [injection E as <-; cbn | now apply (IN t' th')]);
  specialize (IN t th Hth); rewrite Hph in IN; cbn in IN; try assumption.
  - constructor; auto. intros Hin.
    assert (w_klock w k = Some t) as C by (apply IK; exists th; split; auto; rewrite Hph; exact Hin). congruence.
  - now inversion IN.
Qed.

Lemma inv_mlock_step w t w' : step w t w' -> Inv w -> inv_mlock w'.
Proof.
  intros S (IK & IM & IS & IN).
  destruct S as [th Hth Hph Hm|th k todo got Hth Hph Hk|th got Hth Hph
    |th got k tf reads Hth Hph|th got reads Hth Hph|th k rest out Hth Hph|th out Hth Hph];
  intros t'; cbn; rewrite (nth_put _ _ _ _ _ Hth).
  - (* pre: mlock was None *)
    destruct (Nat.eqb_spec t' t) as [->|Nt].
    + split; [intros _|reflexivity]. do 3 eexists. split; reflexivity.
    + split; [intros E; injection E as ->; congruence|].
      intros (th' & a & b & E & P). exfalso.
      assert (w_mlock w = Some t') as C by (apply IM; eauto 6). congruence.
  - (* lock: mlock unchanged; thread t stays PLocking *)
    rewrite (IM t'). destruct (Nat.eqb_spec t' t) as [->|Nt]; [|reflexivity].
    split; intros _; do 3 eexists; (split; [eassumption || reflexivity|]); cbn; eauto.
  - (* post: mlock := None; t leaves PLocking *)
    split; [discriminate|]. intros (th' & a & b & E & P). exfalso.
    destruct (Nat.eqb_spec t' t) as [->|Nt].
    + injection E as <-. cbn in P. discriminate.
    + assert (w_mlock w = Some t') as C1 by (apply IM; eauto 6).
      assert (w_mlock w = Some t) as C2 by (apply IM; eauto 6). congruence.
  - rewrite (IM t'). destruct (Nat.eqb_spec t' t) as [->|Nt]; [|reflexivity].
    split; intros (th' & a & b & E & P).
    + rewrite Hth in E; injection E as <-. congruence.
    + injection E as <-. cbn in P. discriminate.
  - rewrite (IM t'). destruct (Nat.eqb_spec t' t) as [->|Nt]; [|reflexivity].
    split; intros (th' & a & b & E & P).
    + rewrite Hth in E; injection E as <-. congruence.
    + injection E as <-. cbn in P. discriminate.
  - rewrite (IM t'). destruct (Nat.eqb_spec t' t) as [->|Nt]; [|reflexivity].
    split; intros (th' & a & b & E & P).
    + rewrite Hth in E; injection E as <-. congruence.
    + injection E as <-. cbn in P. discriminate.
  - rewrite (IM t'). destruct (Nat.eqb_spec t' t) as [->|Nt]; [|reflexivity].
    split; intros (th' & a & b & E & P).
    + rewrite Hth in E; injection E as <-. congruence.
    + injection E as <-. cbn in P. discriminate.
Qed.


Lemma apply_other ws : forall s k, ~ In k (map fst ws) -> apply s ws k = s k.
Proof.
  induction ws as [|[k' v] ws IH]; intros s k H; cbn in *; [reflexivity|].
  rewrite IH by tauto. unfold upd. destruct (Nat.eqb_spec k k'); [subst; tauto|reflexivity].
Qed.

Definition shape_ok (st : store) (th : thread) : Prop :=
  match t_ph th with
  | PLocking todo got => rev got ++ todo = keys (t_req th)
  | PLocked got tf reads => rev got = keys (t_req th) /\ map fst reads ++ tf = keys (t_req th)
                            /\ forall k v, In (k, v) reads -> v = st k
  | PCommitted tr _ => incl tr (keys (t_req th))
  | _ => True end.

Lemma inv_shape_alt w : inv_shape w <-> forall t th, nth_error (w_threads w) t = Some th -> shape_ok (w_store w) th.
Proof. reflexivity. Qed.

(* shape of an untouched thread survives a store change that only writes keys held by someone else *)
Lemma shape_ok_store_irrel st st' th :
  (forall k, In k (held (t_ph th)) -> st' k = st k) -> shape_ok st th -> shape_ok st' th.
Proof.
  unfold shape_ok. destruct (t_ph th) as [|todo got|got tf reads|tr out|out]; auto.
  intros Hst (A & B & C). repeat split; auto. intros k v Hin. rewrite (C k v Hin). symmetry. apply Hst.
  cbn. apply in_rev. rewrite A. rewrite <- B. apply in_or_app. left.
  change k with (fst (k, v)). now apply in_map.
Qed.

Lemma inv_shape_step w t w' : step w t w' -> Inv w -> inv_shape w'.
Proof.
  intros S (IK & IM & IS & IN). rewrite inv_shape_alt in *.
  destruct S as [th Hth Hph Hm|th k todo got Hth Hph Hk|th got Hth Hph
    |th got k tf reads Hth Hph|th got reads Hth Hph|th k rest out Hth Hph|th out Hth Hph];
  intros t' th' E; cbn in E; rewrite (nth_put _ _ _ _ _ Hth) in E; cbn [w_store mk];
  pose proof (IS t th Hth) as St; unfold shape_ok in St; rewrite Hph in St;
  (destruct (Nat.eqb_spec t' t) as [->|Nt]; [injection E as <-; unfold shape_ok; cbn [t_ph t_req] | ]).
  all: try (now apply (IS t' th')).
  - reflexivity.
  - cbn. rewrite <- app_assoc. exact St.
  - rewrite app_nil_r in St. repeat split; auto. intros k v [].
  - destruct St as (A & B & C). repeat split; auto.
    + rewrite map_app, <- app_assoc. exact B.
    + intros k0 v Hin. apply in_app_or in Hin. destruct Hin as [Hin|[Hin|[]]]; [now apply C|].
      now injection Hin as <- <-.
  - destruct St as (A & B & C). rewrite <- A. intros x Hx. now apply in_rev in Hx.
  - (* commit of t, other thread t' *)
    destruct St as (A & B & C).
    apply shape_ok_store_irrel with (st := w_store w); [|now apply (IS t' th')].
    intros k Hk. apply apply_other. intros Hin.
    apply in_map_iff in Hin. destruct Hin as ([k1 v1] & Ek & Hin). cbn in Ek. subst k1.
    apply decide_writes in Hin.
    assert (w_klock w k = Some t') as C1 by (apply IK; eauto).
    assert (w_klock w k = Some t) as C2.
    { apply IK. exists th. split; auto. rewrite Hph. cbn. apply in_rev. now rewrite A. }
    congruence.
  - intros x Hx. apply St. now right.
  - exact I.
Qed.

Lemma Inv_step w t w' : step w t w' -> Inv w -> Inv w'.
Proof.
  intros S I. split; [|split; [|split]].
  - eapply inv_klock_step; eauto.
  - eapply inv_mlock_step; eauto.
  - eapply inv_shape_step; eauto.
  - eapply inv_nodup_step; eauto.
Qed.


Lemma dec_exists (p : thread -> bool) (l : list thread) :
  (exists t th, nth_error l t = Some th /\ p th = true) \/
  (forall t th, nth_error l t = Some th -> p th = false).
Proof.
  induction l as [|x l [ (t & th & E & P) | N ]].
  - right. intros [|t] th E; discriminate.
  - left. exists (S t), th. auto.
  - destruct (p x) eqn:Px.
    + left. exists 0, x. auto.
    + right. intros [|t] th E; cbn in E; [now injection E as <-|eauto].
Qed.

Definition ready (th : thread) : bool :=
  match t_ph th with PLocking [] _ | PLocked _ _ _ | PCommitted _ _ => true | _ => false end.
Definition locking (th : thread) : bool :=
  match t_ph th with PLocking (_ :: _) _ => true | _ => false end.

Lemma Inv_init s rs : Inv (init s rs).
Proof.
  assert (forall t th, nth_error (w_threads (init s rs)) t = Some th -> t_ph th = PStart) as P.
  { intros t th E. cbn in E. apply nth_error_In in E. apply in_map_iff in E. destruct E as (r & <- & _). reflexivity. }
  repeat split.
  - discriminate.
  - intros (th & E & Hin). rewrite (P _ _ E) in Hin. destruct Hin.
  - discriminate.
  - intros (th & a & b & E & Q). rewrite (P _ _ E) in Q. discriminate.
  - intros t th E. now rewrite (P _ _ E).
  - intros t th E. rewrite (P _ _ E). constructor.
Qed.

Theorem progress w : Inv w ->
  (exists t th, nth_error (w_threads w) t = Some th /\ finished th = false) ->
  exists t w', fire w t = Some w'.
Proof.
  intros (IK & IM & IS & IN) (t0 & th0 & E0 & F0).
  destruct (dec_exists ready (w_threads w)) as [(t & th & E & R)|NR].
  { exists t. unfold fire. rewrite E. unfold ready in R.
    destruct (t_ph th) as [|[|k todo] got|got [|k tf] reads|[|k tr] out|out]; try discriminate; eauto. }
  destruct (dec_exists locking (w_threads w)) as [(t & th & E & L)|NL].
  { (* a thread is waiting for key k *)
    unfold locking in L. destruct (t_ph th) as [|[|k todo] got| | |] eqn:Hph; try discriminate.
    destruct (w_klock w k) as [u|] eqn:Hk.
    2:{ exists t. unfold fire. rewrite E, Hph, Hk. eauto. }
    exfalso. apply IK in Hk. destruct Hk as (thu & Eu & Hin).
    pose proof (NR u thu Eu) as Ru. unfold ready in Ru.
    destruct (t_ph thu) as [|[|k' todo'] got'|got' tf' reads'|tr' out'|out'] eqn:Hphu; try discriminate; try (now destruct Hin).
    assert (w_mlock w = Some u) as M1 by (apply IM; eauto 6).
    assert (w_mlock w = Some t) as M2 by (apply IM; eauto 6).
    assert (u = t) by congruence. subst u. rewrite E in Eu. injection Eu as <-.
    rewrite Hph in Hphu. injection Hphu as <- <- <-. cbn in Hin.
    pose proof (IS t th E) as Sh. rewrite Hph in Sh.
    pose proof (keys_nodup (t_req th)) as ND. rewrite <- Sh in ND.
    apply NoDup_remove_2 in ND. apply ND. apply in_or_app. left. now apply in_rev in Hin. }
  (* every unfinished thread is at PStart *)
  assert (t_ph th0 = PStart) as S0.
  { pose proof (NR _ _ E0) as R0. pose proof (NL _ _ E0) as L0. unfold ready, locking, finished in *.
    destruct (t_ph th0) as [|[|k todo] got|got tf reads|tr out|out]; try discriminate; reflexivity. }
  destruct (w_mlock w) as [v|] eqn:Hm.
  { exfalso. apply IM in Hm. destruct Hm as (thv & todo & got & Ev & Hv).
    pose proof (NR _ _ Ev) as R. pose proof (NL _ _ Ev) as L. unfold ready, locking in *. rewrite Hv in *.
    destruct todo; discriminate. }
  exists t0. unfold fire. rewrite E0, S0, Hm. eauto.
Qed.


(* ---------- serial equivalence ---------- *)
Lemma ser_app s rs1 rs2 :
  ser s (rs1 ++ rs2) = let '(s1, v1) := ser s rs1 in let '(s2, v2) := ser s1 rs2 in (s2, v1 ++ v2).
Proof.
  revert s; induction rs1 as [|r rs1 IH]; intros s; cbn [ser app].
  - now destruct (ser s rs2).
  - destruct (seq_step s r) as [s1 v]. rewrite IH. destruct (ser s1 rs1) as [s1' v1].
    destruct (ser s1' rs2) as [s2 v2]. reflexivity.
Qed.

Definition log_req (e : nat * req * verdict) : req := snd (fst e).
Definition log_out (e : nat * req * verdict) : verdict := snd e.
Definition inv_serial (s0 : store) (w : world) : Prop :=
  ser s0 (map log_req (rev (w_log w))) = (w_store w, map log_out (rev (w_log w))).

Lemma rd_snapshot s ks k : In k ks -> rd (snapshot s ks) k = Some (s k).
Proof.
  induction ks as [|k' ks IH]; cbn; [tauto|]. intros [->|H].
  - now rewrite Nat.eqb_refl.
  - destruct (Nat.eqb_spec k k'); [now subst|auto].
Qed.
Lemma rd_reads (st : store) reads k :
  (forall k v, In (k, v) reads -> v = st k) -> In k (map fst reads) -> rd reads k = Some (st k).
Proof.
  induction reads as [|[k' v] reads IH]; cbn; [tauto|]. intros C H.
  destruct (Nat.eqb_spec k k') as [->|N].
  - f_equal. apply C. now left.
  - destruct H as [H|H]; [congruence|]. apply IH; auto.
Qed.

Lemma inv_serial_step s0 w t w' : step w t w' -> Inv w -> inv_serial s0 w -> inv_serial s0 w'.
Proof.
  intros S (IK & IM & IS & IN) I4. unfold inv_serial in *.
  destruct S as [th Hth Hph Hm|th k todo got Hth Hph Hk|th got Hth Hph
    |th got k tf reads Hth Hph|th got reads Hth Hph|th k rest out Hth Hph|th out Hth Hph]; cbn [w_log w_store mk]; auto.
  cbn [rev]. rewrite !map_app, ser_app, I4. cbn [map ser log_req log_out fst snd].
  unfold seq_step.
  pose proof (IS t th Hth) as Sh. rewrite Hph in Sh. destruct Sh as (A & B & C). rewrite app_nil_r in B.
  assert (decide (t_req th) (snapshot (w_store w) (keys (t_req th))) = decide (t_req th) reads) as D.
  { apply decide_local. intros k Hk. rewrite rd_snapshot by exact Hk.
    symmetry. apply rd_reads; auto. now rewrite B. }
  rewrite D. reflexivity.
Qed.

Theorem serializable s0 rs w : reach s0 rs w -> Inv w /\ inv_serial s0 w.
Proof.
  induction 1 as [|w t w' R [I I4] F].
  - split; [apply Inv_init|]. reflexivity.
  - apply fire_step in F. split; [eapply Inv_step; eauto|eapply inv_serial_step; eauto].
Qed.



(* ---------- termination: every step consumes one unit of a measure ---------- *)

Definition rem_ph (r : req) (ph : phase) : nat :=
  let n := length (keys r) in
  match ph with
  | PStart => 3 * n + 4
  | PLocking todo got => length todo + 2 * n + 3
  | PLocked got tf _ => length tf + length got + 2
  | PCommitted tr _ => length tr + 1
  | PDone _ => 0
  end.
Definition rem_th (th : thread) : nat := rem_ph (t_req th) (t_ph th).
Fixpoint msum (l : list thread) : nat := match l with [] => 0 | th :: r => rem_th th + msum r end.
Definition measure (w : world) : nat := msum (w_threads w).

Lemma msum_set l : forall t th th', nth_error l t = Some th ->
  msum (set_thread l t th') + rem_th th = msum l + rem_th th'.
Proof.
  induction l as [|x l IH]; intros t th th' H; [destruct t; discriminate|].
  destruct t as [|t]; cbn in *.
  - injection H as ->. lia.
  - specialize (IH t th th' H). lia.
Qed.

Lemma measure_put w t th ph : nth_error (w_threads w) t = Some th ->
  msum (put w t th ph) + rem_ph (t_req th) (t_ph th) = msum (w_threads w) + rem_ph (t_req th) ph.
Proof. intros H. unfold put. pose proof (msum_set (w_threads w) t th {| t_req := t_req th; t_ph := ph |} H) as M. exact M. Qed.

Lemma step_measure w t w' : step w t w' -> Inv w -> measure w = S (measure w').
Proof.
  intros S (IK & IM & IS & IN). unfold measure.
  destruct S as [th Hth Hph Hm|th k todo got Hth Hph Hk|th got Hth Hph
    |th got k tf reads Hth Hph|th got reads Hth Hph|th k rest out Hth Hph|th out Hth Hph]; cbn [w_threads mk];
  match goal with |- context [put w t th ?ph] => pose proof (measure_put w t th ph Hth) as M end;
  rewrite Hph in M; unfold rem_ph in M; cbn [length] in M; try lia.
  (* post-lock: all keys are held *)
  pose proof (IS t th Hth) as Sh. rewrite Hph in Sh. rewrite app_nil_r in Sh.
  assert (length got = length (keys (t_req th))) by (rewrite <- Sh; now rewrite rev_length). lia.
Qed.

Lemma reach_Inv s0 rs w : reach s0 rs w -> Inv w.
Proof.
  induction 1 as [|w t w' R I F]; [apply Inv_init|]. apply fire_step in F. eapply Inv_step; eauto.
Qed.

(* an accepted schedule: length + what is left = the initial measure *)
Lemma sched_measure sched : forall w w', Inv w -> run_sched w sched = Some w' ->
  length sched + measure w' = measure w /\ Inv w'.
Proof.
  induction sched as [|t sched IH]; intros w w' I H; cbn in H.
  - injection H as <-. auto.
  - destruct (fire w t) as [w1|] eqn:F; [|discriminate]. apply fire_step in F.
    pose proof (step_measure _ _ _ F I) as M. pose proof (Inv_step _ _ _ F I) as I1.
    destruct (IH w1 w' I1 H) as [L I']. split; auto. cbn. lia.
Qed.

Lemma sched_reach s0 rs sched : forall w w', reach s0 rs w -> run_sched w sched = Some w' -> reach s0 rs w'.
Proof.
  induction sched as [|t sched IH]; intros w w' R H; cbn in H.
  - now injection H as <-.
  - destruct (fire w t) as [w1|] eqn:F; [|discriminate]. eapply IH; [|exact H]. econstructor; eauto.
Qed.

Definition init_measure (rs : list req) : nat := fold_right (fun r acc => 3 * length (keys r) + 4 + acc) 0 rs.
Lemma measure_init s rs : measure (init s rs) = init_measure rs.
Proof.
  unfold measure. cbn [w_threads Conc.init]. induction rs as [|r rs IH]; [reflexivity|].
  cbn [map msum init_measure fold_right]. unfold init_measure in IH. rewrite IH. unfold rem_th, rem_ph. cbn [t_req t_ph]. lia.
Qed.

(* ---------- the commit log ---------- *)

Definition tid (e : nat * req * verdict) : nat := fst (fst e).
Definition committed (th : thread) : option verdict :=
  match t_ph th with PCommitted _ v | PDone v => Some v | _ => None end.

Definition inv_log (rs : list req) (w : world) : Prop :=
  NoDup (map tid (w_log w)) /\
  map (fun th => t_req th) (w_threads w) = rs /\
  (forall e, In e (w_log w) -> tid e < length (w_threads w)) /\
  forall t th, nth_error (w_threads w) t = Some th ->
    match committed th with
    | Some v => In (t, t_req th, v) (w_log w)
    | None => ~ In t (map tid (w_log w))
    end.

Lemma map_req_set l : forall t th ph, nth_error l t = Some th ->
  map (fun x => t_req x) (set_thread l t {| t_req := t_req th; t_ph := ph |}) = map (fun x => t_req x) l.
Proof.
  induction l as [|x l IH]; intros t th ph H; [destruct t; discriminate|].
  destruct t as [|t]; cbn in *; [injection H as ->; reflexivity|]. f_equal. eapply IH; eauto.
Qed.

Lemma inv_log_init s rs : inv_log rs (init s rs).
Proof.
  split; [constructor|]. split; [|split].
  - cbn. rewrite map_map. cbn. apply map_id.
  - intros e [].
  - intros t th E. cbn in E. apply nth_error_In in E. apply in_map_iff in E. destruct E as (r & <- & _). cbn. auto.
Qed.

Lemma inv_log_step rs w t w' : step w t w' -> inv_log rs w -> inv_log rs w'.
Proof.
  intros S (ND & HR & HB & HL).
  assert (Hlen : forall th ph, length (put w t th ph) = length (w_threads w)) by (intros; unfold put; apply length_set_thread).
  assert (Hnc : forall th ph, nth_error (w_threads w) t = Some th -> committed {| t_req := t_req th; t_ph := ph |} = committed th ->
            forall lg, lg = w_log w ->
            forall st ml kl, inv_log rs (mk st ml kl (put w t th ph) lg)).
  { intros th ph Hth Hc lg -> st ml kl. split; [exact ND|]. split; [cbn; unfold put; rewrite (map_req_set _ _ _ _ Hth); exact HR|].
    split; [intros e He; cbn [w_threads mk w_log] in *; rewrite Hlen; now apply HB|].
    intros t' th' E. cbn in E. rewrite (nth_put _ _ _ _ _ Hth) in E. cbn [w_log mk].
    destruct (Nat.eqb_spec t' t) as [->|N]; [|now apply HL].
    injection E as <-. rewrite Hc. cbn [t_req]. now apply HL. }
  destruct S as [th Hth Hph Hm|th k todo got Hth Hph Hk|th got Hth Hph
    |th got k tf reads Hth Hph|th got reads Hth Hph|th k rest out Hth Hph|th out Hth Hph];
    try (apply Hnc; auto; unfold committed; cbn [t_ph]; now rewrite Hph).
  (* commit *)
  pose proof (HL t th Hth) as Ht. unfold committed in Ht. rewrite Hph in Ht.
  split; [cbn; constructor; auto|]. split; [cbn; unfold put; rewrite (map_req_set _ _ _ _ Hth); exact HR|].
  split.
  { intros e He. cbn [w_threads mk w_log] in *. rewrite Hlen. destruct He as [<-|He]; [|now apply HB].
    cbn. apply nth_error_Some. congruence. }
  intros t' th' E. cbn in E. rewrite (nth_put _ _ _ _ _ Hth) in E. cbn [w_log mk].
  destruct (Nat.eqb_spec t' t) as [->|N].
  - injection E as <-. cbn. now left.
  - specialize (HL t' th' E). destruct (committed th') as [v|].
    + now right.
    + cbn. intros [H|H]; [congruence|contradiction].
Qed.

Lemma reach_inv_log s0 rs w : reach s0 rs w -> inv_log rs w.
Proof.
  induction 1 as [|w t w' R I F]; [apply inv_log_init|]. apply fire_step in F. eapply inv_log_step; eauto.
Qed.

(* the log only grows, at its head *)
Lemma step_log w t w' : step w t w' -> w_log w' = w_log w \/ exists e, w_log w' = e :: w_log w /\ tid e = t.
Proof. intros S. destruct S; cbn; auto. right. eexists; split; reflexivity. Qed.

Lemma sched_log sched : forall w w', run_sched w sched = Some w' -> exists l, w_log w' = l ++ w_log w.
Proof.
  induction sched as [|t sched IH]; intros w w' H; cbn in H.
  - injection H as <-. now exists [].
  - destruct (fire w t) as [w1|] eqn:F; [|discriminate]. apply fire_step in F.
    destruct (IH w1 w' H) as (l & Hl). destruct (step_log _ _ _ F) as [E|(e & E & _)]; rewrite E in Hl.
    + now exists l.
    + exists (l ++ [e]). now rewrite <- app_assoc.
Qed.

(* ---------- main statements ---------- *)

Definition all_finished (w : world) : Prop := forall t th, nth_error (w_threads w) t = Some th -> finished th = true.

Theorem serializable_main s0 rs w : reach s0 rs w -> all_finished w ->
  let order := rev (w_log w) in
  ser s0 (map log_req order) = (w_store w, map log_out order) /\
  Permutation (map tid order) (seq 0 (length rs)) /\
  (forall t th, nth_error (w_threads w) t = Some th ->
     nth_error rs t = Some (t_req th) /\ exists v, t_ph th = PDone v /\ In (t, t_req th, v) order).
Proof.
  intros R F. destruct (serializable s0 rs w R) as [I I4]. destruct (reach_inv_log s0 rs w R) as (ND & HR & HB & HL).
  cbn zeta. split; [exact I4|].
  assert (Hlen : length (w_threads w) = length rs) by (rewrite <- HR; now rewrite map_length).
  assert (Hth : forall t th, nth_error (w_threads w) t = Some th ->
            nth_error rs t = Some (t_req th) /\ exists v, t_ph th = PDone v /\ In (t, t_req th, v) (w_log w)).
  { intros t th E. split.
    - rewrite <- HR. rewrite nth_error_map, E. reflexivity.
    - specialize (F t th E). specialize (HL t th E). unfold finished in F. unfold committed in HL.
      destruct (t_ph th) as [| | | |v] eqn:P; try discriminate. exists v. auto. }
  split.
  - apply NoDup_Permutation.
    + rewrite map_rev. apply NoDup_rev. exact ND.
    + apply seq_NoDup.
    + intros t. rewrite map_rev, <- in_rev, in_seq. split.
      * intros Hin. apply in_map_iff in Hin. destruct Hin as (e & <- & He). specialize (HB e He). lia.
      * intros [_ Hlt]. cbn in Hlt. rewrite <- Hlen in Hlt. apply nth_error_Some in Hlt.
        destruct (nth_error (w_threads w) t) as [th|] eqn:E; [|congruence].
        destruct (Hth t th E) as (_ & v & _ & Hin). apply in_map_iff. exists (t, t_req th, v). auto.
  - intros t th E. destruct (Hth t th E) as (H1 & v & H2 & H3). split; auto. exists v. split; auto. now apply -> in_rev.
Qed.

(* real-time order: what was committed before a point stays older than whatever commits after it *)
Theorem realtime_main s0 rs w sched w' a b tha thb :
  reach s0 rs w -> run_sched w sched = Some w' ->
  nth_error (w_threads w) a = Some tha -> finished tha = true ->
  nth_error (w_threads w) b = Some thb -> t_ph thb = PStart ->
  exists newer, w_log w' = newer ++ w_log w /\ In a (map tid (w_log w)) /\ ~ In b (map tid (w_log w)).
Proof.
  intros R S Ea Fa Eb Pb. destruct (sched_log _ _ _ S) as (l & Hl). exists l. split; auto.
  destruct (reach_inv_log s0 rs w R) as (_ & _ & _ & HL). split.
  - specialize (HL a tha Ea). unfold finished in Fa. unfold committed in HL.
    destruct (t_ph tha); try discriminate. apply in_map_iff. eexists; split; [|exact HL]. reflexivity.
  - specialize (HL b thb Eb). unfold committed in HL. now rewrite Pb in HL.
Qed.

Theorem progress_main s0 rs w : reach s0 rs w -> ~ all_finished w -> exists t w', fire w t = Some w'.
Proof.
  intros R NF. apply progress; [eapply reach_Inv; eauto|].
  destruct (dec_exists (fun th => negb (finished th)) (w_threads w)) as [(t & th & E & P)|N].
  - exists t, th. split; auto. now apply negb_true_iff.
  - exfalso. apply NF. intros t th E. specialize (N t th E). now apply negb_false_iff.
Qed.

Theorem terminates_main s0 rs sched w :
  run_sched (init s0 rs) sched = Some w ->
  length sched + measure w = init_measure rs /\
  ((forall t, fire w t = None) -> all_finished w).
Proof.
  intros S. destruct (sched_measure _ _ _ (Inv_init s0 rs) S) as [M I]. rewrite measure_init in M. split; [exact M|].
  intros Stuck t th E. destruct (finished th) eqn:F; auto. exfalso.
  assert (R : reach s0 rs w) by (eapply sched_reach; [constructor|exact S]).
  destruct (progress w I) as (t' & w' & Hf); [eauto|]. now rewrite Stuck in Hf.
Qed.

End ConcProofs.
