package main

import (
	"context"
	"crypto/rand"
	"crypto/rsa"
	"crypto/tls"
	"crypto/x509"
	"crypto/x509/pkix"
	"encoding/pem"
	"fmt"
	grpcapi "github.com/attestantio/dirk/services/api/grpc"
	"github.com/attestantio/dirk/services/checker"
	"google.golang.org/grpc/metadata"
	"math/big"
	"net"
	"os"
	"path/filepath"
	"strings"
	"syscall"
	"time"

	"github.com/attestantio/dirk/testing/daemon"
	"github.com/attestantio/dirk/testing/resources"
	pb "github.com/wealdtech/eth2-signer-api/pb/v1"
	"google.golang.org/grpc"
	"google.golang.org/grpc/codes"
	"google.golang.org/grpc/credentials"
	"google.golang.org/grpc/credentials/insecure"
	"google.golang.org/grpc/status"
)

// C19: a daemon built by testing/daemon.New listens on 127.0.0.1; every method of every registered
// service is called over real connections with every kind of caller credential.

type credKind struct {
	Name  string
	Coq   string // the model's credential
	Creds func() (grpc.DialOption, error)
	CN    string // the name the certificate bears ("" = none)
	Valid bool   // issued by the configured authority, in date, usable for client authentication, TLS 1.3
}

func pemCert(der []byte) []byte {
	return pem.EncodeToMemory(&pem.Block{Type: "CERTIFICATE", Bytes: der})
}
func pemKey(k *rsa.PrivateKey) []byte {
	return pem.EncodeToMemory(&pem.Block{Type: "RSA PRIVATE KEY", Bytes: x509.MarshalPKCS1PrivateKey(k)})
}

// mint issues a client certificate for cn, signed by (caCert, caKey), or self-signed when caCert is nil.
func mint(cn string, caCert *x509.Certificate, caKey *rsa.PrivateKey, expired bool, usage []x509.ExtKeyUsage) (tls.Certificate, error) {
	return mintSAN(cn, []string{cn}, caCert, caKey, expired, usage)
}

// mintSAN: as mint, with the DNS names of the certificate chosen apart from its subject name.
func mintSAN(cn string, dns []string, caCert *x509.Certificate, caKey *rsa.PrivateKey, expired bool, usage []x509.ExtKeyUsage) (tls.Certificate, error) {
	key, err := rsa.GenerateKey(rand.Reader, 2048)
	if err != nil {
		return tls.Certificate{}, err
	}
	tmpl := &x509.Certificate{
		SerialNumber: big.NewInt(time.Now().UnixNano()), Subject: pkix.Name{CommonName: cn}, DNSNames: dns,
		NotBefore: time.Now().Add(-time.Hour), NotAfter: time.Now().Add(24 * time.Hour),
		KeyUsage: x509.KeyUsageDigitalSignature | x509.KeyUsageKeyEncipherment, ExtKeyUsage: usage, BasicConstraintsValid: true,
	}
	if expired {
		tmpl.NotBefore, tmpl.NotAfter = time.Now().Add(-48*time.Hour), time.Now().Add(-24*time.Hour)
	}
	parent, signer := tmpl, key
	if caCert != nil {
		parent, signer = caCert, caKey
	}
	der, err := x509.CreateCertificate(rand.Reader, tmpl, parent, &key.PublicKey, signer)
	if err != nil {
		return tls.Certificate{}, err
	}
	return tls.X509KeyPair(pemCert(der), pemKey(key))
}

func mintCA(cn string) (*x509.Certificate, *rsa.PrivateKey, error) {
	key, err := rsa.GenerateKey(rand.Reader, 2048)
	if err != nil {
		return nil, nil, err
	}
	tmpl := &x509.Certificate{SerialNumber: big.NewInt(7), Subject: pkix.Name{CommonName: cn}, NotBefore: time.Now().Add(-time.Hour), NotAfter: time.Now().Add(24 * time.Hour),
		IsCA: true, KeyUsage: x509.KeyUsageCertSign | x509.KeyUsageDigitalSignature, BasicConstraintsValid: true}
	der, err := x509.CreateCertificate(rand.Reader, tmpl, tmpl, &key.PublicKey, key)
	if err != nil {
		return nil, nil, err
	}
	c, err := x509.ParseCertificate(der)
	return c, key, err
}

// mintIntermediate: an authority certificate issued by another authority.
func mintIntermediate(cn string, parent *x509.Certificate, parentKey *rsa.PrivateKey) (*x509.Certificate, *rsa.PrivateKey, error) {
	key, err := rsa.GenerateKey(rand.Reader, 2048)
	if err != nil {
		return nil, nil, err
	}
	tmpl := &x509.Certificate{SerialNumber: big.NewInt(time.Now().UnixNano()), Subject: pkix.Name{CommonName: cn}, NotBefore: time.Now().Add(-time.Hour), NotAfter: time.Now().Add(24 * time.Hour),
		IsCA: true, KeyUsage: x509.KeyUsageCertSign | x509.KeyUsageDigitalSignature, BasicConstraintsValid: true}
	der, err := x509.CreateCertificate(rand.Reader, tmpl, parent, &key.PublicKey, parentKey)
	if err != nil {
		return nil, nil, err
	}
	c, err := x509.ParseCertificate(der)
	return c, key, err
}

func freePort() uint32 {
	l, err := net.Listen("tcp", "127.0.0.1:0")
	if err != nil {
		return 0
	}
	defer l.Close()
	return uint32(l.Addr().(*net.TCPAddr).Port)
}

func cmdTLS(args []string) int {
	cf := parseCommon("C19", args, nil)
	ctx, cancel := context.WithCancel(context.Background())
	defer cancel()
	initBLS()
	dir, err := os.MkdirTemp("", "vh-c19-")
	if err != nil {
		return 2
	}
	defer os.RemoveAll(dir)
	// the other authority is also one the HOST trusts (its certificate is the system trust store of this
	// process): only the configured authority may count for client certificates
	rogueCA, rogueKey, err := mintCA("Testing certificate authority") // same name, different key
	if err != nil {
		return 2
	}
	trustFile := filepath.Join(dir, "host-roots.pem")
	if err := os.WriteFile(trustFile, pemCert(rogueCA.Raw), 0o644); err != nil {
		return 2
	}
	os.Setenv("SSL_CERT_FILE", trustFile)
	os.Setenv("SSL_CERT_DIR", dir)
	port := freePort()
	port2 := freePort()
	peers := map[uint64]string{1: fmt.Sprintf("signer-test01:%d", port), 2: fmt.Sprintf("signer-test02:%d", port2)}
	if _, _, err := daemon.New(ctx, filepath.Join(dir, "d1"), 1, port, peers); err != nil {
		fmt.Fprintln(os.Stderr, "daemon:", err)
		return 2
	}
	addr := fmt.Sprintf("127.0.0.1:%d", port)
	// wait for the listener
	for i := 0; i < 100; i++ {
		c, err := net.DialTimeout("tcp", addr, 200*time.Millisecond)
		if err == nil {
			c.Close()
			break
		}
		time.Sleep(50 * time.Millisecond)
	}

	serverPool := x509.NewCertPool()
	serverPool.AppendCertsFromPEM(resources.CACrt)
	// the configured authority's key is part of the test resources: the harness can issue under it
	caBlock, _ := pem.Decode(resources.CACrt)
	realCA, err := x509.ParseCertificate(caBlock.Bytes)
	if err != nil {
		return 2
	}
	caKeyPEM, err := os.ReadFile("/repo/testing/resources/Testing_certificate_authority.key")
	var realCAKey *rsa.PrivateKey
	if err == nil {
		if blk, _ := pem.Decode(caKeyPEM); blk != nil {
			if k, err := x509.ParsePKCS1PrivateKey(blk.Bytes); err == nil {
				realCAKey = k
			} else if k8, err := x509.ParsePKCS8PrivateKey(blk.Bytes); err == nil {
				realCAKey, _ = k8.(*rsa.PrivateKey)
			}
		}
	}
	if sp, err := x509.SystemCertPool(); err == nil {
		stats0 := len(sp.Subjects()) //nolint:staticcheck
		_ = stats0
	}
	tlsWith := func(cert *tls.Certificate, max uint16) func() (grpc.DialOption, error) {
		return func() (grpc.DialOption, error) {
			cfg := &tls.Config{RootCAs: serverPool, ServerName: "signer-test01", MinVersion: tls.VersionTLS12}
			if cert != nil {
				cfg.Certificates = []tls.Certificate{*cert}
			}
			if max != 0 {
				cfg.MaxVersion = max
			}
			return grpc.WithTransportCredentials(credentials.NewTLS(cfg)), nil
		}
	}
	fromPEM := func(crt, key []byte) *tls.Certificate {
		c, err := tls.X509KeyPair(crt, key)
		if err != nil {
			panic(err)
		}
		return &c
	}
	must := func(c tls.Certificate, err error) *tls.Certificate {
		if err != nil {
			panic(err)
		}
		return &c
	}
	clientUsage := []x509.ExtKeyUsage{x509.ExtKeyUsageClientAuth}
	kinds := []credKind{
		{Name: "no TLS", Coq: "NoTls", Creds: func() (grpc.DialOption, error) { return grpc.WithTransportCredentials(insecure.NewCredentials()), nil }},
		{Name: "TLS without client certificate", Coq: "(TlsNoCert Tls13)", Creds: tlsWith(nil, 0)},
		{Name: "self-signed certificate named client-test01", Coq: `(TlsCert Tls13 (CT "client-test01" 0 false true))`, CN: "client-test01", Creds: tlsWith(must(mint("client-test01", nil, nil, false, clientUsage)), 0)},
		{Name: "certificate of another authority (same authority name) named client-test01", Coq: `(TlsCert Tls13 (CT "client-test01" 2 false true))`, CN: "client-test01", Creds: tlsWith(must(mint("client-test01", rogueCA, rogueKey, false, clientUsage)), 0)},
		{Name: "certificate of another authority named signer-test02 (a peer)", Coq: `(TlsCert Tls13 (CT "signer-test02" 2 false true))`, CN: "signer-test02", Creds: tlsWith(must(mint("signer-test02", rogueCA, rogueKey, false, clientUsage)), 0)},
		{Name: "valid certificate client-test01", Coq: `(TlsCert Tls13 (CT "client-test01" 1 false true))`, CN: "client-test01", Valid: true, Creds: tlsWith(fromPEM(resources.ClientTest01Crt, resources.ClientTest01Key), 0)},
		{Name: "valid certificate client-test02", Coq: `(TlsCert Tls13 (CT "client-test02" 1 false true))`, CN: "client-test02", Valid: true, Creds: tlsWith(fromPEM(resources.ClientTest02Crt, resources.ClientTest02Key), 0)},
		{Name: "valid certificate client-test03", Coq: `(TlsCert Tls13 (CT "client-test03" 1 false true))`, CN: "client-test03", Valid: true, Creds: tlsWith(fromPEM(resources.ClientTest03Crt, resources.ClientTest03Key), 0)},
		{Name: "valid certificate signer-test02 (a peer, no client permissions)", Coq: `(TlsCert Tls13 (CT "signer-test02" 1 false true))`, CN: "signer-test02", Valid: true, Creds: tlsWith(fromPEM(resources.SignerTest02Crt, resources.SignerTest02Key), 0)},
		{Name: "valid certificate signer-test03 (neither peer nor client)", Coq: `(TlsCert Tls13 (CT "signer-test03" 1 false true))`, CN: "signer-test03", Valid: true, Creds: tlsWith(fromPEM(resources.SignerTest03Crt, resources.SignerTest03Key), 0)},
		{Name: "valid certificate client-test01 over TLS 1.2", Coq: `(TlsCert Tls12 (CT "client-test01" 1 false true))`, CN: "client-test01", Creds: tlsWith(fromPEM(resources.ClientTest01Crt, resources.ClientTest01Key), tls.VersionTLS12)},
	}
	{
		// a genuine client-test02 certificate with a self-made certificate named client-test01 appended to the chain
		chain := *fromPEM(resources.ClientTest02Crt, resources.ClientTest02Key)
		extra := must(mint("client-test01", nil, nil, false, clientUsage))
		chain.Certificate = append(append([][]byte{}, chain.Certificate...), extra.Certificate[0])
		kinds = append(kinds, credKind{Name: "valid certificate client-test02 with a self-made certificate named client-test01 appended to the chain",
			Coq: `(TlsCert Tls13 (CT "client-test02" 1 false true))`, CN: "client-test02", Valid: true, Creds: tlsWith(&chain, 0)})
	}
	if realCAKey != nil {
		kinds = append(kinds,
			credKind{Name: "expired certificate of the configured authority named client-test01", Coq: `(TlsCert Tls13 (CT "client-test01" 1 true true))`, CN: "client-test01", Creds: tlsWith(must(mint("client-test01", realCA, realCAKey, true, clientUsage)), 0)},
			credKind{Name: "certificate of the configured authority for server use only named client-test01", Coq: `(TlsCert Tls13 (CT "client-test01" 1 false false))`, CN: "client-test01", Creds: tlsWith(must(mint("client-test01", realCA, realCAKey, false, []x509.ExtKeyUsage{x509.ExtKeyUsageServerAuth})), 0)},
			// names that are NOT a permitted client's or a peer's name, however close: the identity is the subject name, as it stands
			credKind{Name: "valid certificate named CLIENT-TEST01 (a permitted name in capitals)", Coq: `(TlsCert Tls13 (CT "CLIENT-TEST01" 1 false true))`, CN: "CLIENT-TEST01", Valid: true, Creds: tlsWith(must(mint("CLIENT-TEST01", realCA, realCAKey, false, clientUsage)), 0)},
			credKind{Name: "valid certificate named Client-Test02", Coq: `(TlsCert Tls13 (CT "Client-Test02" 1 false true))`, CN: "Client-Test02", Valid: true, Creds: tlsWith(must(mint("Client-Test02", realCA, realCAKey, false, clientUsage)), 0)},
			credKind{Name: "valid certificate without a subject name whose DNS name is client-test01", Coq: `(TlsCert Tls13 (CT "" 1 false true))`, CN: "", Valid: true, Creds: tlsWith(must(mintSAN("", []string{"client-test01"}, realCA, realCAKey, false, clientUsage)), 0)},
			credKind{Name: "valid certificate named somebody-else whose DNS name is client-test01", Coq: `(TlsCert Tls13 (CT "somebody-else" 1 false true))`, CN: "somebody-else", Valid: true, Creds: tlsWith(must(mintSAN("somebody-else", []string{"client-test01", "signer-test02"}, realCA, realCAKey, false, clientUsage)), 0)},
			credKind{Name: "valid certificate without a subject name whose DNS name is signer-test02 (a peer)", Coq: `(TlsCert Tls13 (CT "" 1 false true))`, CN: "", Valid: true, Creds: tlsWith(must(mintSAN("", []string{"signer-test02"}, realCA, realCAKey, false, clientUsage)), 0)},
			credKind{Name: "valid certificate named SIGNER-TEST02 (a peer's name in capitals)", Coq: `(TlsCert Tls13 (CT "SIGNER-TEST02" 1 false true))`, CN: "SIGNER-TEST02", Valid: true, Creds: tlsWith(must(mint("SIGNER-TEST02", realCA, realCAKey, false, clientUsage)), 0)},
			credKind{Name: "valid certificate named client-test01.example.com (a permitted name followed by a domain)", Coq: `(TlsCert Tls13 (CT "client-test01.example.com" 1 false true))`, CN: "client-test01.example.com", Valid: true, Creds: tlsWith(must(mint("client-test01.example.com", realCA, realCAKey, false, clientUsage)), 0)},
			credKind{Name: "valid certificate named client-test02. (a permitted name followed by a dot)", Coq: `(TlsCert Tls13 (CT "client-test02." 1 false true))`, CN: "client-test02.", Valid: true, Creds: tlsWith(must(mintSAN("client-test02.", []string{"client-test02"}, realCA, realCAKey, false, clientUsage)), 0)},
			credKind{Name: "valid certificate named signer-test02.evil (a peer's name followed by a domain)", Coq: `(TlsCert Tls13 (CT "signer-test02.evil" 1 false true))`, CN: "signer-test02.evil", Valid: true, Creds: tlsWith(must(mint("signer-test02.evil", realCA, realCAKey, false, clientUsage)), 0)},
			credKind{Name: "valid certificate with neither a subject name nor a DNS name", Coq: `(TlsCert Tls13 (CT "" 1 false true))`, CN: "", Valid: true, Creds: tlsWith(must(mintSAN("", nil, realCA, realCAKey, false, clientUsage)), 0)},
			credKind{Name: "fresh certificate of the configured authority named client-test02", Coq: `(TlsCert Tls13 (CT "client-test02" 1 false true))`, CN: "client-test02", Valid: true, Creds: tlsWith(must(mint("client-test02", realCA, realCAKey, false, clientUsage)), 0)},
		)
	}

	stats := map[string]int{}
	var monFail, samples, lines []string
	idx := map[string]string{}
	id := 0
	epoch := uint64(100)
	attDom := mkDomain([]byte{1, 0, 0, 0}, 0)
	type outcome struct {
		served  bool   // the call reached a handler and produced a response message
		yielded string // what of value came back: "signature", "accounts", "state change", ""
		detail  string
	}
	for ki, k := range kinds {
		opt, err := k.Creds()
		if err != nil {
			return 2
		}
		conn, err := grpc.NewClient(addr, opt)
		if err != nil {
			fmt.Fprintln(os.Stderr, "dial:", err)
			return 2
		}
		signer, lister := pb.NewSignerClient(conn), pb.NewListerClient(conn)
		am, wm, dkg := pb.NewAccountManagerClient(conn), pb.NewWalletManagerClient(conn), pb.NewDKGClient(conn)
		acct1, acct2 := "Wallet 1/Account 1", "Wallet 2/Account 1"
		call := func(method string, f func(ctx context.Context) (string, string, error)) {
			cctx, ccancel := context.WithTimeout(ctx, 10*time.Second)
			defer ccancel()
			noteRequest("%s over a real connection by a caller with [%s]", method, k.Name)
			yielded, detail, err := f(cctx)
			requestDone()
			o := outcome{served: err == nil, yielded: yielded, detail: detail}
			if err != nil {
				o.detail = err.Error()
				// an application-level error from a handler still means the call was served; a refusal by
				// the transport (no handshake, connection closed) has the status code Unavailable
				if status.Code(err) != codes.Unavailable {
					o.served = true
				}
			}
			id++
			stats[fmt.Sprintf("%s.served=%v", map[bool]string{true: "valid", false: "invalid"}[k.Valid], o.served)]++
			lines = append(lines, fmt.Sprintf(" TC %s %s %s %s", coqN(id), k.Coq, coqStr(method), coqBool(o.served)))
			idx[fmt.Sprint(id)] = fmt.Sprintf("%s called by [%s]: served=%v yielded=%q %s", method, k.Name, o.served, o.yielded, truncate(o.detail, 160))
			if len(samples) < 4 && (ki == 1 || ki == 5) && len(samples) < 4 {
				samples = append(samples, idx[fmt.Sprint(id)])
			}
			if !k.Valid && o.served {
				monFail = append(monFail, fmt.Sprintf("%s was served to a caller with [%s]: %s", method, k.Name, truncate(o.detail, 200)))
			}
			if !k.Valid && o.yielded != "" {
				monFail = append(monFail, fmt.Sprintf("%s yielded %s to a caller with [%s]", method, o.yielded, k.Name))
			}
			if k.Valid && !o.served {
				monFail = append(monFail, fmt.Sprintf("%s refused at the transport for a caller with [%s]: %s", method, k.Name, truncate(o.detail, 200)))
			}
		}
		sigOf := func(st pb.ResponseState, sig []byte) (string, string) {
			if len(sig) > 0 {
				return "signature", st.String()
			}
			return "", st.String()
		}
		epoch += 10
		e := epoch
		call("Signer.Sign", func(c context.Context) (string, string, error) {
			r, err := signer.Sign(c, &pb.SignRequest{Id: &pb.SignRequest_Account{Account: acct1}, Domain: mkDomain([]byte{2, 0, 0, 0}, 0), Data: fill32(byte(ki))})
			if err != nil {
				return "", "", err
			}
			y, d := sigOf(r.GetState(), r.GetSignature())
			return y, d, nil
		})
		call("Signer.Multisign", func(c context.Context) (string, string, error) {
			r, err := signer.Multisign(c, &pb.MultisignRequest{Requests: []*pb.SignRequest{{Id: &pb.SignRequest_Account{Account: acct1}, Domain: mkDomain([]byte{2, 0, 0, 0}, 0), Data: fill32(9)},
				{Id: &pb.SignRequest_Account{Account: acct2}, Domain: mkDomain([]byte{2, 0, 0, 0}, 0), Data: fill32(9)}}})
			if err != nil {
				return "", "", err
			}
			y := ""
			var ds []string
			for _, x := range r.GetResponses() {
				if len(x.GetSignature()) > 0 {
					y = "signature"
				}
				ds = append(ds, x.GetState().String())
			}
			return y, strings.Join(ds, ","), nil
		})
		att := func(a string) *pb.SignBeaconAttestationRequest {
			return &pb.SignBeaconAttestationRequest{Id: &pb.SignBeaconAttestationRequest_Account{Account: a}, Domain: attDom,
				Data: &pb.AttestationData{Slot: e * 32, BeaconBlockRoot: fill32(1), Source: &pb.Checkpoint{Epoch: e - 1, Root: fill32(2)}, Target: &pb.Checkpoint{Epoch: e, Root: fill32(3)}}}
		}
		call("Signer.SignBeaconAttestation", func(c context.Context) (string, string, error) {
			r, err := signer.SignBeaconAttestation(c, att(acct1))
			if err != nil {
				return "", "", err
			}
			y, d := sigOf(r.GetState(), r.GetSignature())
			return y, d, nil
		})
		call("Signer.SignBeaconAttestations", func(c context.Context) (string, string, error) {
			e += 2
			r, err := signer.SignBeaconAttestations(c, &pb.SignBeaconAttestationsRequest{Requests: []*pb.SignBeaconAttestationRequest{att("Wallet 1/Account 2"), att("Wallet 2/Account 2")}})
			if err != nil {
				return "", "", err
			}
			y := ""
			var ds []string
			for _, x := range r.GetResponses() {
				if len(x.GetSignature()) > 0 {
					y = "signature"
				}
				ds = append(ds, x.GetState().String())
			}
			return y, strings.Join(ds, ","), nil
		})
		call("Signer.SignBeaconProposal", func(c context.Context) (string, string, error) {
			r, err := signer.SignBeaconProposal(c, &pb.SignBeaconProposalRequest{Id: &pb.SignBeaconProposalRequest_Account{Account: acct1}, Domain: mkDomain([]byte{0, 0, 0, 0}, 0),
				Data: &pb.BeaconBlockHeader{Slot: e, ProposerIndex: 1, ParentRoot: fill32(1), StateRoot: fill32(2), BodyRoot: fill32(3)}})
			if err != nil {
				return "", "", err
			}
			y, d := sigOf(r.GetState(), r.GetSignature())
			return y, d, nil
		})
		call("Lister.ListAccounts", func(c context.Context) (string, string, error) {
			r, err := lister.ListAccounts(c, &pb.ListAccountsRequest{Paths: []string{"Wallet 1", "Wallet 2"}})
			if err != nil {
				return "", "", err
			}
			y := ""
			if len(r.GetAccounts())+len(r.GetDistributedAccounts()) > 0 {
				y = "accounts"
			}
			return y, fmt.Sprintf("%s, %d accounts", r.GetState(), len(r.GetAccounts())), nil
		})
		newName := fmt.Sprintf("Wallet 1/New %d", ki)
		call("AccountManager.Generate", func(c context.Context) (string, string, error) {
			r, err := am.Generate(c, &pb.GenerateRequest{Account: newName, Passphrase: []byte("pass"), Participants: 1, SigningThreshold: 1})
			if err != nil {
				return "", "", err
			}
			y := ""
			if r.GetState() == pb.ResponseState_SUCCEEDED {
				y = "state change"
			}
			return y, r.GetState().String(), nil
		})
		call("AccountManager.Lock", func(c context.Context) (string, string, error) {
			r, err := am.Lock(c, &pb.LockAccountRequest{Account: "Wallet 1/Account 3"})
			if err != nil {
				return "", "", err
			}
			y := ""
			if r.GetState() == pb.ResponseState_SUCCEEDED {
				y = "state change"
			}
			return y, r.GetState().String(), nil
		})
		call("AccountManager.Unlock", func(c context.Context) (string, string, error) {
			r, err := am.Unlock(c, &pb.UnlockAccountRequest{Account: "Wallet 1/Account 3", Passphrase: []byte("pass")})
			if err != nil {
				return "", "", err
			}
			y := ""
			if r.GetState() == pb.ResponseState_SUCCEEDED {
				y = "state change"
			}
			return y, r.GetState().String(), nil
		})
		call("WalletManager.Lock", func(c context.Context) (string, string, error) {
			r, err := wm.Lock(c, &pb.LockWalletRequest{Wallet: "Wallet 1"})
			if err != nil {
				return "", "", err
			}
			y := ""
			if r.GetState() == pb.ResponseState_SUCCEEDED {
				y = "state change"
			}
			return y, r.GetState().String(), nil
		})
		call("WalletManager.Unlock", func(c context.Context) (string, string, error) {
			r, err := wm.Unlock(c, &pb.UnlockWalletRequest{Wallet: "Wallet 1", Passphrase: []byte("pass")})
			if err != nil {
				return "", "", err
			}
			y := ""
			if r.GetState() == pb.ResponseState_SUCCEEDED {
				y = "state change"
			}
			return y, r.GetState().String(), nil
		})
		dacct := fmt.Sprintf("Wallet 3/d%d", ki)
		call("DKG.Prepare", func(c context.Context) (string, string, error) {
			_, err := dkg.Prepare(c, &pb.PrepareRequest{Account: dacct, Passphrase: []byte("pass"), Threshold: 1, Participants: []*pb.Endpoint{{Id: 1, Name: "signer-test01", Port: port}}}) // no higher participant: Execute contacts nobody
			if err != nil {
				return "", "", err
			}
			return "state change", "prepared", nil
		})
		call("DKG.Execute", func(c context.Context) (string, string, error) {
			_, err := dkg.Execute(c, &pb.ExecuteRequest{Account: dacct})
			return "", "", err
		})
		call("DKG.Contribute", func(c context.Context) (string, string, error) {
			share, vv := harnessContribution(1, 1, "")
			req := &pb.ContributeRequest{Account: dacct, Secret: share.Serialize()}
			for i := range vv {
				req.VerificationVector = append(req.VerificationVector, vv[i].Serialize())
			}
			r, err := dkg.Contribute(c, req)
			if err != nil {
				return "", "", err
			}
			y := ""
			if len(r.GetSecret()) > 0 {
				y = "secret share"
			}
			return y, "contributed", nil
		})
		call("DKG.Commit", func(c context.Context) (string, string, error) {
			r, err := dkg.Commit(c, &pb.CommitRequest{Account: dacct, ConfirmationData: fill32(1)})
			if err != nil {
				return "", "", err
			}
			y := ""
			if len(r.GetPublicKey()) > 0 {
				y = "state change"
			}
			return y, "committed", nil
		})
		call("DKG.Abort", func(c context.Context) (string, string, error) {
			_, err := dkg.Abort(c, &pb.AbortRequest{Account: dacct})
			return "", "", err
		})
		conn.Close()
	}

	// ---- the identity used in permission decisions is the certificate's common name ----
	// (client-test01: Wallet 1 and 3; client-test02: Wallet 2 and 3; client-test03: Wallet 1 and 2)
	want := map[string][2]bool{"client-test01": {true, false}, "client-test02": {false, true}, "client-test03": {true, true}, "signer-test02": {false, false}, "signer-test03": {false, false}}
	for _, k := range kinds {
		if !k.Valid {
			continue
		}
		opt, _ := k.Creds()
		conn, err := grpc.NewClient(addr, opt)
		if err != nil {
			return 2
		}
		signer := pb.NewSignerClient(conn)
		for wi, acct := range []string{"Wallet 1/Account 5", "Wallet 2/Account 5", "Wallet 1/Account 5", "Wallet 2/Account 5"} {
			cctx, ccancel := context.WithTimeout(ctx, 10*time.Second)
			if wi >= 2 {
				// the same two requests carrying request metadata that names other clients and a peer: what a caller
				// writes into its own request is not its identity
				md := metadata.MD{}
				for _, key := range []string{"client", "client-name", "client-instance", "client-id", "x-client-name", "x-forwarded-client-cert", "authorization", "user", "common-name", "cn", "identity", "sender"} {
					md.Append(key, "client-test01", "client-test02", "client-test03", "signer-test01")
				}
				cctx = metadata.NewOutgoingContext(cctx, md)
				wi -= 2
			}
			r, err := signer.Sign(cctx, &pb.SignRequest{Id: &pb.SignRequest_Account{Account: acct}, Domain: mkDomain([]byte{2, 0, 0, 0}, 0), Data: fill32(0x55)})
			ccancel()
			got := err == nil && r.GetState() == pb.ResponseState_SUCCEEDED
			stats["identity.probes"]++
			if got != want[k.CN][wi] {
				monFail = append(monFail, fmt.Sprintf("caller with [%s] asking to sign with %s: succeeded=%v, but the permissions of %q say %v", k.Name, acct, got, k.CN, want[k.CN][wi]))
			}
		}
		// ... and the identity the key-generation service goes by: only a peer's name, as it stands, is a sender
		dkgc := pb.NewDKGClient(conn)
		cctx, ccancel := context.WithTimeout(ctx, 10*time.Second)
		_, aerr := dkgc.Abort(cctx, &pb.AbortRequest{Account: "Wallet 3/no such generation"})
		ccancel()
		isPeer := k.CN == "signer-test01" || k.CN == "signer-test02"
		refused := aerr != nil && strings.Contains(aerr.Error(), "unknown sender")
		stats["identity.peer-probes"]++
		if refused == isPeer {
			monFail = append(monFail, fmt.Sprintf("caller with [%s] sending Abort to the key-generation service: refused as unknown sender=%v (%v), but subject name %q is a peer's name: %v", k.Name, refused, aerr, k.CN, isPeer))
		}
		conn.Close()
	}

	// ---- a caller's identity belongs to its connection, not to the address it comes from: a peer connects from an
	// address and port and leaves; a client that is no peer then connects from the very same address and port ----
	{
		reusePort := int(freePort())
		dialFrom := func(cert *tls.Certificate) (*grpc.ClientConn, error) {
			d := &net.Dialer{LocalAddr: &net.TCPAddr{IP: net.ParseIP("127.0.0.1"), Port: reusePort}, Timeout: 5 * time.Second,
				Control: func(_, _ string, c syscall.RawConn) error {
					return c.Control(func(fd uintptr) {
						_ = syscall.SetsockoptInt(int(fd), syscall.SOL_SOCKET, syscall.SO_REUSEADDR, 1)
						_ = syscall.SetsockoptLinger(int(fd), syscall.SOL_SOCKET, syscall.SO_LINGER, &syscall.Linger{Onoff: 1, Linger: 0})
					})
				}}
			cfg := &tls.Config{RootCAs: serverPool, ServerName: "signer-test01", MinVersion: tls.VersionTLS13, Certificates: []tls.Certificate{*cert}}
			return grpc.NewClient(addr, grpc.WithTransportCredentials(credentials.NewTLS(cfg)),
				grpc.WithContextDialer(func(c context.Context, a string) (net.Conn, error) { return d.DialContext(c, "tcp", a) }))
		}
		abortAs := func(cert *tls.Certificate) (error, bool) {
			conn, err := dialFrom(cert)
			if err != nil {
				return err, false
			}
			defer conn.Close()
			cctx, ccancel := context.WithTimeout(ctx, 10*time.Second)
			defer ccancel()
			_, aerr := pb.NewDKGClient(conn).Abort(cctx, &pb.AbortRequest{Account: "Wallet 3/no such generation"})
			return aerr, status.Code(aerr) != codes.Unavailable
		}
		for round := 0; round < 3; round++ {
			perr, reached := abortAs(fromPEM(resources.SignerTest02Crt, resources.SignerTest02Key))
			if !reached {
				stats["address-reuse.unreachable"]++
				break
			}
			time.Sleep(50 * time.Millisecond)
			cerr, reached2 := abortAs(fromPEM(resources.ClientTest01Crt, resources.ClientTest01Key))
			if !reached2 {
				stats["address-reuse.unreachable"]++
				break
			}
			stats["address-reuse.rounds"]++
			if perr != nil && strings.Contains(perr.Error(), "unknown sender") {
				monFail = append(monFail, fmt.Sprintf("the peer signer-test02 connecting from 127.0.0.1:%d was refused as unknown sender: %v", reusePort, perr))
			}
			if cerr == nil || !strings.Contains(cerr.Error(), "unknown sender") {
				monFail = append(monFail, fmt.Sprintf("client-test01 (no peer) connecting from 127.0.0.1:%d, the address and port the peer signer-test02 had used just before, was not refused as unknown sender by the key-generation service: %v", reusePort, cerr))
			}
			time.Sleep(50 * time.Millisecond)
		}
	}

	// ---- nothing changed on behalf of refused callers: no account was created, no session opened ----
	{
		opt, _ := kinds[7].Creds() // client-test03 sees Wallet 1 and Wallet 2
		conn, err := grpc.NewClient(addr, opt)
		if err != nil {
			return 2
		}
		cctx, ccancel := context.WithTimeout(ctx, 10*time.Second)
		r, err := pb.NewListerClient(conn).ListAccounts(cctx, &pb.ListAccountsRequest{Paths: []string{"Wallet 1"}})
		ccancel()
		if err != nil {
			monFail = append(monFail, "final listing failed: "+err.Error())
		} else {
			for _, a := range r.GetAccounts() {
				for ki, k := range kinds {
					if !k.Valid && a.GetName() == fmt.Sprintf("Wallet 1/New %d", ki) {
						monFail = append(monFail, fmt.Sprintf("an account requested by a caller with [%s] exists: %s", k.Name, a.GetName()))
					}
				}
			}
			stats["final.accounts"] = len(r.GetAccounts())
		}
		conn.Close()
	}

	// ---- a server with NO certificate authority configured serves nobody ----
	var noCALines []string
	{
		port3 := freePort()
		nperms := map[string][]*checker.Permissions{"client-test01": {{Path: "Wallet 1", Operations: []string{"All"}}}}
		n3, err := NewNode(ctx, NodeOpts{ID: 1, NDWallets: []string{"Wallet 1"}, Perms: nperms, PeersMap: map[uint64]string{1: fmt.Sprintf("signer-test01:%d", port3)}})
		if err != nil {
			fmt.Fprintln(os.Stderr, "node:", err)
			return 2
		}
		if _, err := grpcapi.New(ctx, grpcapi.WithSigner(n3.Signer), grpcapi.WithLister(n3.Lister), grpcapi.WithProcess(n3.Process),
			grpcapi.WithAccountManager(n3.AcctMgr), grpcapi.WithWalletManager(n3.WalMgr), grpcapi.WithPeers(n3.Peers),
			grpcapi.WithName("signer-test01"), grpcapi.WithID(1), grpcapi.WithServerCert(resources.SignerCerts[1]), grpcapi.WithServerKey(resources.SignerKeys[1]),
			grpcapi.WithListenAddress(fmt.Sprintf("127.0.0.1:%d", port3))); err != nil {
			fmt.Fprintln(os.Stderr, "api without CA:", err)
			return 2
		}
		addr3 := fmt.Sprintf("127.0.0.1:%d", port3)
		for i := 0; i < 100; i++ {
			if c, err := net.DialTimeout("tcp", addr3, 200*time.Millisecond); err == nil {
				c.Close()
				break
			}
			time.Sleep(50 * time.Millisecond)
		}
		for _, ki := range []int{1, 2, 3, 5} { // no certificate, self-signed, another authority, the genuine client certificate
			k := kinds[ki]
			opt, _ := k.Creds()
			conn, err := grpc.NewClient(addr3, opt)
			if err != nil {
				return 2
			}
			cctx, ccancel := context.WithTimeout(ctx, 10*time.Second)
			r, err := pb.NewListerClient(conn).ListAccounts(cctx, &pb.ListAccountsRequest{Paths: []string{"Wallet 1"}})
			ccancel()
			served := err == nil || status.Code(err) != codes.Unavailable
			id++
			noCALines = append(noCALines, fmt.Sprintf(" TC %s %s %s %s", coqN(id), k.Coq, coqStr("Lister.ListAccounts"), coqBool(served)))
			idx[fmt.Sprint(id)] = fmt.Sprintf("server WITHOUT a configured authority: Lister.ListAccounts called by [%s]: served=%v %v", k.Name, served, err)
			stats[fmt.Sprintf("no-ca.served=%v", served)]++
			if served {
				monFail = append(monFail, fmt.Sprintf("a server with no certificate authority configured served Lister.ListAccounts to a caller with [%s] (%d accounts)", k.Name, len(r.GetAccounts())))
			}
			conn.Close()
		}
	}

	// ---- a server whose own certificate file is a chain (leaf + issuing intermediate) of ANOTHER authority: that
	// intermediate is no authority for client certificates; and a peer that the peer table names by address is not
	// impersonated by a nameless certificate coming from that address ----
	if realCAKey != nil {
		rootC, rootK, err1 := mintCA("Another root authority")
		interC, interK, err2 := mintIntermediate("Another issuing authority", rootC, rootK)
		if err1 == nil && err2 == nil {
			srvLeaf, err3 := mintSAN("signer-test01", []string{"signer-test01"}, interC, interK, false, []x509.ExtKeyUsage{x509.ExtKeyUsageServerAuth})
			foreignClient, err4 := mint("client-test01", interC, interK, false, clientUsage)
			nameless, err5 := mintSAN("", nil, realCA, realCAKey, false, clientUsage)
			if err3 == nil && err4 == nil && err5 == nil {
				port4 := freePort()
				nperms := map[string][]*checker.Permissions{"client-test01": {{Path: "Wallet 1", Operations: []string{"All"}}}}
				n4, err := NewNode(ctx, NodeOpts{ID: 1, NDWallets: []string{"Wallet 1"}, Perms: nperms,
					PeersMap: map[uint64]string{1: fmt.Sprintf("signer-test01:%d", port4), 2: "127.0.0.2:8882"}})
				if err != nil {
					return 2
				}
				chainPEM := append(append([]byte{}, pemCert(srvLeaf.Certificate[0])...), pemCert(interC.Raw)...)
				keyPEM := pemKey(srvLeaf.PrivateKey.(*rsa.PrivateKey))
				if _, err := grpcapi.New(ctx, grpcapi.WithSigner(n4.Signer), grpcapi.WithLister(n4.Lister), grpcapi.WithProcess(n4.Process),
					grpcapi.WithAccountManager(n4.AcctMgr), grpcapi.WithWalletManager(n4.WalMgr), grpcapi.WithPeers(n4.Peers),
					grpcapi.WithName("signer-test01"), grpcapi.WithID(1), grpcapi.WithServerCert(chainPEM), grpcapi.WithServerKey(keyPEM),
					grpcapi.WithCACert(resources.CACrt), grpcapi.WithListenAddress(fmt.Sprintf("127.0.0.1:%d", port4))); err != nil {
					fmt.Fprintln(os.Stderr, "api with a chained server certificate:", err)
					return 2
				}
				addr4 := fmt.Sprintf("127.0.0.1:%d", port4)
				for i := 0; i < 100; i++ {
					if c, err := net.DialTimeout("tcp", addr4, 200*time.Millisecond); err == nil {
						c.Close()
						break
					}
					time.Sleep(50 * time.Millisecond)
				}
				rootPool := x509.NewCertPool()
				rootPool.AddCert(rootC)
				dial := func(cert *tls.Certificate, from string) (*grpc.ClientConn, error) {
					cfg := &tls.Config{RootCAs: rootPool, ServerName: "signer-test01", MinVersion: tls.VersionTLS13, Certificates: []tls.Certificate{*cert}}
					d := &net.Dialer{LocalAddr: &net.TCPAddr{IP: net.ParseIP(from)}, Timeout: 5 * time.Second}
					return grpc.NewClient(addr4, grpc.WithTransportCredentials(credentials.NewTLS(cfg)),
						grpc.WithContextDialer(func(c context.Context, a string) (net.Conn, error) { return d.DialContext(c, "tcp", a) }))
				}
				genuine := fromPEM(resources.ClientTest01Crt, resources.ClientTest01Key)
				for _, tc := range []struct {
					name   string
					cert   *tls.Certificate
					served bool
				}{
					{"certificate named client-test01 issued by the intermediate of the server's own chain (another authority)", &foreignClient, false},
					{"valid certificate client-test01", genuine, true},
				} {
					conn, err := dial(tc.cert, "127.0.0.1")
					if err != nil {
						continue
					}
					cctx, ccancel := context.WithTimeout(ctx, 10*time.Second)
					noteRequest("Lister.ListAccounts at a server with a chained certificate by a caller with [%s]", tc.name)
					_, lerr := pb.NewListerClient(conn).ListAccounts(cctx, &pb.ListAccountsRequest{Paths: []string{"Wallet 1"}})
					requestDone()
					ccancel()
					served := lerr == nil || status.Code(lerr) != codes.Unavailable
					stats[fmt.Sprintf("chained-server.served=%v", served)]++
					if served != tc.served {
						monFail = append(monFail, fmt.Sprintf("server whose certificate file is a chain of another authority, client authority = the configured one: caller with [%s]: served=%v (%v)", tc.name, served, lerr))
					}
					conn.Close()
				}
				// the nameless certificate from the address the peer table names
				if conn, err := dial(&nameless, "127.0.0.2"); err == nil {
					cctx, ccancel := context.WithTimeout(ctx, 10*time.Second)
					noteRequest("DKG.Abort from 127.0.0.2 with a certificate without names, peer 2 of the server being named 127.0.0.2")
					_, aerr := pb.NewDKGClient(conn).Abort(cctx, &pb.AbortRequest{Account: "Wallet 3/none"})
					requestDone()
					ccancel()
					stats["peer-by-address.probes"]++
					if aerr == nil || (status.Code(aerr) != codes.Unavailable && !strings.Contains(aerr.Error(), "unknown sender")) {
						monFail = append(monFail, fmt.Sprintf("a caller whose certificate bears no name, connecting from 127.0.0.2 to a server whose peer 2 is named \"127.0.0.2\", was not refused as unknown sender by the key-generation service: %v", aerr))
					}
					conn.Close()
				}
				n4.Close(ctx)
			}
		}
	}

	var b strings.Builder
	b.WriteString("From DV Require Import Corr.CheckTls.\nLocal Open Scope string_scope.\n")
	fmt.Fprintf(&b, "Definition cases : list tcase := [\n%s].\n", strings.Join(lines, ";\n"))
	{
		var b2 strings.Builder
		b2.WriteString("From DV Require Import Corr.CheckTls.\nLocal Open Scope string_scope.\n")
		fmt.Fprintf(&b2, "Definition cases : list tcase := [\n%s].\n", strings.Join(noCALines, ";\n"))
		b2.WriteString("Definition M := Eval vm_compute in tmismatches_ca 9 cases.\nPrint M.\n")
		if err := os.WriteFile(filepath.Join(cf.out, "cases_C19_1.v"), []byte(b2.String()), 0o644); err != nil {
			return 2
		}
	}
	b.WriteString("Definition M := Eval vm_compute in tmismatches cases.\nPrint M.\n")
	if err := os.WriteFile(filepath.Join(cf.out, "cases_C19_0.v"), []byte(b.String()), 0o644); err != nil {
		return 2
	}
	sum := &Summary{Property: "C19", Seed: cf.seed, Tier: cf.tier, Evaluations: len(lines), Distinct: len(lines),
		Rule:      "a daemon from testing/daemon.New listening on 127.0.0.1; every method of every registered service (Signer x5, Lister, AccountManager x3, WalletManager x2, DKG x5) called over a real connection with every kind of caller credential: no TLS, TLS without client certificate, self-signed, another authority (bearing a permitted client name / a peer name), valid certificates of each permitted client, of a peer, of a non-peer, TLS 1.2 with a valid certificate, and - issued by the harness under the configured authority's test key - an expired one, one for server use only, a fresh valid one; served / refused compared with the gate of Tls.v; signatures, account lists and state changes for refused callers reported; the identity used for permissions probed per valid certificate; final listing shows no account created for a refused caller",
		Histories: len(kinds), Distribution: stats, Samples: samples, MonitorFailures: monFail, CaseFiles: []string{"cases_C19_0.v", "cases_C19_1.v"}, CaseIndex: idx}
	if err := writeSummary(cf.out, sum); err != nil {
		return 2
	}
	return 0
}

func truncate(s string, n int) string {
	if len(s) > n {
		return s[:n] + "..."
	}
	return s
}
