(* C19 - nothing is served without a certificate from the configured authority.   PARTIAL: crypto/tls,
   x509 verification and gRPC are trusted; the theorems are about the decision table of the transport
   gate as the server configures it (services/api/grpc/service.go) and the name the interceptor extracts
   (interceptors/clientinfo.go); the real TLS matrix run ties that table to the configured server. *)
From DV Require Import Model.Tls Proofs.TlsProofs.

(* With the configured transport (client certificates required and verified against the configured pool,
   TLS 1.3 minimum), a request reaches the interceptors and handlers of ANY service only if the caller
   presented, over TLS 1.3, a certificate that verifies against the configured authority (issued by it, in
   date, usable for client authentication); the name handed to the permission checks is the common name of
   that certificate. *)
Theorem C19_gate :
  forall ca cr, admitted (pinned ca) cr = true ->
    exists c, cr = TlsCert Tls13 c /\ verifies (pinned ca) c = true /\ identity (pinned ca) cr = Some (ct_cn c).
Proof. exact pinned_gate. Qed.
Print Assumptions C19_gate.

(* The identity used in permission decisions always comes from a verified certificate. *)
Theorem C19_identity_is_verified :
  forall ca cr nm, identity (pinned ca) cr = Some nm ->
    exists v c, cr = TlsCert v c /\ verifies (pinned ca) c = true /\ ct_cn c = nm.
Proof. exact pinned_identity_is_verified. Qed.
Print Assumptions C19_identity_is_verified.

(* every holder of a verifying certificate is admitted (the gate is not vacuous) *)
Theorem C19_authentic_callers_served :
  forall ca c, verifies (pinned ca) c = true -> admitted (pinned ca) (TlsCert Tls13 c) = true.
Proof. exact pinned_serves_authentic. Qed.

(* every weaker client-authentication mode of crypto/tls admits a caller without a certificate of the
   authority; two of them hand the handlers whatever name the caller put into a self-made certificate *)
Theorem C19_weaker_modes_refuted :
  forall (ca : nat) (nm : string) m, m <> RequireAndVerifyClientCert ->
    exists cr, authentic {| tc_auth := m; tc_ca := ca; tc_min13 := true |} cr = false /\
               admitted {| tc_auth := m; tc_ca := ca; tc_min13 := true |} cr = true.
Proof. exact weaker_modes_refuted. Qed.

Theorem C19_unverified_modes_forge_identity :
  forall (ca : nat) (nm : string),
    identity {| tc_auth := RequestClientCert; tc_ca := ca; tc_min13 := true |} (TlsCert Tls13 (forged nm)) = Some nm /\
    identity {| tc_auth := RequireAnyClientCert; tc_ca := ca; tc_min13 := true |} (TlsCert Tls13 (forged nm)) = Some nm.
Proof. exact unverified_modes_forge_identity. Qed.

(* the credential kinds of the property's quantifier, all refused *)
Example C19_refused_kinds :
  forall (ca : nat) (nm : string), ca <> 0 ->
  admitted (pinned ca) (TlsCert Tls13 {| ct_cn := nm; ct_issuer := S ca; ct_expired := false; ct_client_usage := true |}) = false /\
  admitted (pinned ca) (TlsCert Tls13 {| ct_cn := nm; ct_issuer := ca; ct_expired := true; ct_client_usage := true |}) = false /\
  admitted (pinned ca) (TlsCert Tls13 {| ct_cn := nm; ct_issuer := ca; ct_expired := false; ct_client_usage := false |}) = false /\
  admitted (pinned ca) (TlsCert Tls13 (forged nm)) = false /\
  admitted (pinned ca) (TlsCert Tls12 {| ct_cn := nm; ct_issuer := ca; ct_expired := false; ct_client_usage := true |}) = false /\
  admitted (pinned ca) (TlsNoCert Tls13) = false /\ admitted (pinned ca) NoTls = false.
Proof. exact pinned_refuses. Qed.
