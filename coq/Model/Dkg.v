(* Model of the distributed key generation (services/process/standard: generate.go, service.go,
   crypto.go; receiver handlers' peer gating).  Group elements are represented by their discrete
   logarithms, i.e. arithmetic is "in the exponent" modulo the BLS12-381 scalar field order: a
   verification vector is the coefficient list of the dealer's polynomial, a public key is a scalar,
   a partial signature is the share itself (times a fixed hash point).  This is a homomorphic image of
   the real computation, which is all the protocol logic depends on; the group itself is trusted.
   No proofs in this file. *)
From Coq Require Export ZArith NArith List Bool String.
Export ListNotations.
Local Open Scope Z_scope.

Definition qord : Z := 52435875175126190479447740508185965837690552500527637822603658699938581184513.

Definition fmod (a : Z) : Z := a mod qord.
Definition fadd (a b : Z) : Z := fmod (a + b).
Definition fmul (a b : Z) : Z := fmod (a * b).
(* evaluation of a coefficient list at x (bls Set(msk, id) / PublicKey.Set(vvec, id)) *)
Fixpoint horner (cs : list Z) (x : Z) : Z :=
  match cs with [] => 0 | c :: r => fadd c (fmul x (horner r x)) end.

Definition idz (i : N) : Z := Z.of_N i.

(* verifyContribution(id, share, vvec): share's public key = vvec evaluated at id *)
Definition verify_contribution (id : N) (share : Z) (vvec : list Z) : bool :=
  match vvec with [] => false | _ => fmod share =? horner vvec (idz id) end.

(* ---- per-instance state ---- *)

Record gen := {
  g_thr : nat;
  g_parts : list N;
  g_poly : list Z;                    (* own secret coefficients (g_thr of them) = own verification vector *)
  g_shares : list (N * Z);            (* received shares by sender (own included) *)
  g_vvecs : list (N * list Z) }.      (* received vectors by sender (own included) *)

Record arec := { ar_share : Z; ar_vvec : list Z; ar_thr : nat; ar_parts : list N }.

Record dnode := { nd_id : N; nd_gens : list (string * gen); nd_accts : list (string * arec) }.

Section Assoc.
  Context {K V : Type} (eqb : K -> K -> bool).
  Fixpoint afind (k : K) (l : list (K * V)) : option V :=
    match l with [] => None | (k', v) :: r => if eqb k k' then Some v else afind k r end.
  Fixpoint aremove (k : K) (l : list (K * V)) : list (K * V) :=
    match l with [] => [] | (k', v) :: r => if eqb k k' then aremove k r else (k', v) :: aremove k r end.
  Definition aput (k : K) (v : V) (l : list (K * V)) : list (K * V) := (k, v) :: aremove k l.
End Assoc.

Definition gfind := @afind string gen String.eqb.
Definition gput := @aput string gen String.eqb.
Definition gremove := @aremove string gen String.eqb.

Definition set_gens (n : dnode) (g : list (string * gen)) : dnode :=
  {| nd_id := nd_id n; nd_gens := g; nd_accts := nd_accts n |}.

Inductive dres (A : Type) := DOk (a : A) | DErr | DPanic.
Arguments DOk {A} a. Arguments DErr {A}. Arguments DPanic {A}.

(* the model's two variants of the receiving side: check_len = the F4 repair *)
Record dcfg := { check_len : bool }.

(* OnPrepare: refused while a generation is active; the own contribution is created *)
Definition on_prepare (n : dnode) (acct : string) (thr : nat) (parts : list N) (poly : list Z) : dres dnode :=
  match gfind acct (nd_gens n) with
  | Some _ => DErr
  | None =>
      let g := {| g_thr := thr; g_parts := parts; g_poly := poly;
                  g_shares := [(nd_id n, horner poly (idz (nd_id n)))];
                  g_vvecs := [(nd_id n, poly)] |} in
      DOk (set_gens n (gput acct g (nd_gens n)))
  end.

Definition vvec_ok (c : dcfg) (g : gen) (vvec : list Z) : bool :=
  negb (check_len c) || (List.length vvec =? g_thr g)%nat.

(* OnContribute: check, store, reply with the share dealt to THE SENDER and the own vector *)
Definition on_contribute (c : dcfg) (n : dnode) (acct : string) (sender : N) (share : Z) (vvec : list Z)
  : dres (dnode * (Z * list Z)) :=
  match gfind acct (nd_gens n) with
  | None => DErr
  | Some g =>
      if negb (verify_contribution (nd_id n) share vvec) then DErr else
      if negb (vvec_ok c g vvec) then DErr else
      let g' := {| g_thr := g_thr g; g_parts := g_parts g; g_poly := g_poly g;
                   g_shares := aput N.eqb sender share (g_shares g);
                   g_vvecs := aput N.eqb sender vvec (g_vvecs g) |} in
      DOk (set_gens n (gput acct g' (nd_gens n)), (horner (g_poly g) (idz sender), g_poly g))
  end.

(* the requester's side of a swap: check the reply, refuse a duplicate, store *)
Definition accept_reply (c : dcfg) (n : dnode) (acct : string) (peer : N) (share : Z) (vvec : list Z) : dres dnode :=
  match gfind acct (nd_gens n) with
  | None => DErr
  | Some g =>
      if negb (verify_contribution (nd_id n) share vvec) then DErr else
      if negb (vvec_ok c g vvec) then DErr else
      match afind N.eqb peer (g_shares g) with
      | Some _ => DErr
      | None =>
          let g' := {| g_thr := g_thr g; g_parts := g_parts g; g_poly := g_poly g;
                       g_shares := aput N.eqb peer share (g_shares g);
                       g_vvecs := aput N.eqb peer vvec (g_vvecs g) |} in
          DOk (set_gens n (gput acct g' (nd_gens n)))
      end
  end.

(* coefficient-wise sums *)
Fixpoint vadd (a b : list Z) : list Z :=
  match a, b with
  | x :: a', y :: b' => fadd x y :: vadd a' b'
  | [], b => b
  | a, [] => a
  end.
(* aggregateVVec := make([]PublicKey, threshold); aggregateVVec[i].Add(...) for i in range sharedVVec:
   a vector longer than the threshold indexes out of range *)
Definition agg_vvecs (thr : nat) (vs : list (list Z)) : option (list Z) :=
  if existsb (fun v => (thr <? List.length v)%nat) vs then None
  else Some (fold_left vadd vs (repeat 0 thr)).

(* OnCommit *)
Definition on_commit (n : dnode) (acct : string) : dres (dnode * (Z * Z)) :=   (* reply: (public key, partial signature) *)
  match gfind acct (nd_gens n) with
  | None => DErr
  | Some g =>
      if negb (List.length (g_shares g) =? List.length (g_parts g))%nat then DErr else
      if negb (List.length (g_vvecs g) =? List.length (g_parts g))%nat then DErr else
      let share := fold_left fadd (map snd (g_shares g)) 0 in
      match agg_vvecs (g_thr g) (map snd (g_vvecs g)) with
      | None => DPanic
      | Some agg =>
          match afind String.eqb acct (nd_accts n) with
          | Some _ => DErr                     (* the wallet refuses a second account of that name *)
          | None =>
              let a := {| ar_share := share; ar_vvec := agg; ar_thr := g_thr g; ar_parts := g_parts g |} in
              DOk ({| nd_id := nd_id n; nd_gens := gremove acct (nd_gens n); nd_accts := (acct, a) :: nd_accts n |},
                   (hd 0 agg, share))
          end
      end
  end.

(* ---- the cluster and the messages in flight ---- *)

Definition cluster := list dnode.
Fixpoint cfind (i : N) (cl : cluster) : option dnode :=
  match cl with [] => None | n :: r => if N.eqb (nd_id n) i then Some n else cfind i r end.
Fixpoint cput (n : dnode) (cl : cluster) : cluster :=
  match cl with [] => [] | m :: r => if N.eqb (nd_id m) (nd_id n) then n :: r else m :: cput n r end.

(* a contribution in flight may be lost (None) or altered *)
Definition tamper := N -> N -> Z * list Z -> option (Z * list Z).
Definition honest : tamper := fun _ _ m => Some m.

(* OnExecute at participant p: swap with every listed participant of higher identifier.
   Returns whether it succeeded and the cluster as it is then (a failed swap leaves what was stored). *)
Fixpoint exec_swaps (c : dcfg) (tm : tamper) (acct : string) (p : N) (peers : list N) (cl : cluster) : bool * cluster :=
  match peers with
  | [] => (true, cl)
  | j :: rest =>
      match cfind p cl, cfind j cl with
      | Some np, Some nj =>
          match gfind acct (nd_gens np) with
          | None => (false, cl)
          | Some g =>
              match tm p j (horner (g_poly g) (idz j), g_poly g) with
              | None => (false, cl)
              | Some (sh, vv) =>
                  match on_contribute c nj acct p sh vv with
                  | DOk (nj', reply) =>
                      let cl1 := cput nj' cl in
                      match tm j p reply with
                      | None => (false, cl1)
                      | Some (rsh, rvv) =>
                          match accept_reply c np acct j rsh rvv with
                          | DOk np' => exec_swaps c tm acct p rest (cput np' cl1)
                          | _ => (false, cl1)
                          end
                      end
                  | _ => (false, cl)
                  end
              end
          end
      | _, _ => (false, cl)
      end
  end.

Definition on_execute (c : dcfg) (tm : tamper) (acct : string) (p : N) (cl : cluster) : bool * cluster :=
  match cfind p cl with
  | None => (false, cl)
  | Some np =>
      match gfind acct (nd_gens np) with
      | None => (false, cl)
      | Some g => exec_swaps c tm acct p (filter (fun j => N.ltb p j) (g_parts g)) cl
      end
  end.

(* ---- OnGenerate at the initiating instance ---- *)

Definition threshold_ok (n t : nat) : bool := negb (n =? 0)%nat && (t <=? n)%nat && (n / 2 <? t)%nat.

Fixpoint prepare_all (acct : string) (thr : nat) (parts : list N) (poly : N -> list Z) (todo : list N) (cl : cluster) : bool * cluster :=
  match todo with
  | [] => (true, cl)
  | p :: rest =>
      match cfind p cl with
      | None => (false, cl)
      | Some np => match on_prepare np acct thr parts (poly p) with
                   | DOk np' => prepare_all acct thr parts poly rest (cput np' cl)
                   | _ => (false, cl)
                   end
      end
  end.

Fixpoint execute_all (c : dcfg) (tm : tamper) (acct : string) (todo : list N) (cl : cluster) : bool * cluster :=
  match todo with
  | [] => (true, cl)
  | p :: rest => let '(ok, cl') := on_execute c tm acct p cl in
                 if ok then execute_all c tm acct rest cl' else (false, cl')
  end.

(* commits run in parallel; each participant commits on its own state; the replies are collected *)
Fixpoint commit_all (acct : string) (todo : list N) (cl : cluster) : cluster * list (N * dres (Z * Z)) :=
  match todo with
  | [] => (cl, [])
  | p :: rest =>
      match cfind p cl with
      | None => let '(cl', rs) := commit_all acct rest cl in (cl', (p, DErr) :: rs)
      | Some np =>
          match on_commit np acct with
          | DOk (np', reply) => let '(cl', rs) := commit_all acct rest (cput np' cl) in (cl', (p, DOk reply) :: rs)
          | DErr => let '(cl', rs) := commit_all acct rest cl in (cl', (p, DErr) :: rs)
          | DPanic => let '(cl', rs) := commit_all acct rest cl in (cl', (p, DPanic) :: rs)
          end
      end
  end.

(* Lagrange coefficient at 0 for identifier xi among xs, and recovery (bls Sign.Recover) *)
(* modular inverse by the extended Euclidean algorithm (fuel: the quotient sequence of two 255-bit
   numbers has fewer than 400 steps) *)
Fixpoint egcd (fuel : nat) (r0 r1 s0 s1 : Z) : Z :=
  match fuel with
  | O => s0
  | S f => if r1 =? 0 then s0 else let q := r0 / r1 in egcd f r1 (r0 - q * r1) s1 (s0 - q * s1)
  end.
Definition finv (a : Z) : Z := fmod (egcd 400 qord (fmod a) 0 1).
Definition lagrange0 (xs : list Z) (xi : Z) : Z :=
  fold_left (fun acc xj => if xj =? xi then acc else fmul acc (fmul xj (finv (fmod (xj - xi))))) xs 1.
Definition recover0 (pts : list (Z * Z)) : Z :=
  fold_left (fun acc p => fadd acc (fmul (snd p) (lagrange0 (map fst pts) (fst p)))) pts 0.

Fixpoint windows {A} (t : nat) (l : list A) : list (list A) :=
  match l with
  | [] => []
  | _ :: r => if (t <=? List.length l)%nat then firstn t l :: windows t r else []
  end.

Definition reply_ok (r : N * dres (Z * Z)) : option (N * (Z * Z)) :=
  match snd r with DOk x => Some (fst r, x) | _ => None end.

(* the initiator's checks on the commit replies: all succeeded, all public keys equal, every window of
   thr consecutive participants recovers a signature valid under that key *)
Definition check_commits (thr : nat) (replies : list (N * dres (Z * Z))) : option Z :=
  let oks := flat_map (fun r => match reply_ok r with Some x => [x] | None => [] end) replies in
  if negb (List.length oks =? List.length replies)%nat then None else
  match oks with
  | [] => None
  | (_, (pk, _)) :: _ =>
      if negb (forallb (fun r => fst (snd r) =? pk) oks) then None else
      if forallb (fun w => recover0 (map (fun r => (idz (fst r), snd (snd r))) w) =? pk) (windows thr oks)
      then Some pk else None
  end.

(* the network between the initiator and the participants: a prepare or execute message to a
   participant may be lost or answered by an error (true = not delivered), a contribution in flight
   may be lost or altered *)
Record net := { nt_swap : tamper; nt_lost_prepare : N -> bool; nt_lost_execute : N -> bool }.
Definition net_of (tm : tamper) : net := {| nt_swap := tm; nt_lost_prepare := fun _ => false; nt_lost_execute := fun _ => false |}.

(* the participants reached before the first undelivered message *)
Fixpoint until {A} (lost : A -> bool) (l : list A) : list A :=
  match l with [] => [] | x :: r => if lost x then [] else x :: until lost r end.

(* the two exchange phases; the boolean says whether both completed for every participant *)
Definition exchange (c : dcfg) (nt : net) (acct : string) (thr : nat) (parts : list N) (poly : N -> list Z) (cl : cluster)
  : bool * cluster :=
  let pre1 := until (nt_lost_prepare nt) parts in
  let '(ok1, cl1) := prepare_all acct thr parts poly pre1 cl in
  if negb (ok1 && (List.length pre1 =? List.length parts)%nat) then (false, cl1) else
  let pre2 := until (nt_lost_execute nt) parts in
  let '(ok2, cl2) := execute_all c (nt_swap nt) acct pre2 cl1 in
  (ok2 && (List.length pre2 =? List.length parts)%nat, cl2).

(* the initiator stops at the first failed prepare or execute and never sends commit *)
Definition generate (c : dcfg) (nt : net) (acct : string) (thr : nat) (parts : list N) (poly : N -> list Z) (cl : cluster)
  : dres Z * cluster :=
  if negb (threshold_ok (List.length parts) thr) then (DErr, cl) else
  let '(ok, cl2) := exchange c nt acct thr parts poly cl in
  if negb ok then (DErr, cl2) else
  let '(cl3, replies) := commit_all acct parts cl2 in
  if existsb (fun r => match snd r with DPanic => true | _ => false end) replies then (DPanic, cl3) else
  match check_commits thr replies with
  | Some pk => (DOk pk, cl3)
  | None => (DErr, cl3)
  end.

(* ---- receiver gating (services/api/grpc/handlers/receiver/helpers.go) ---- *)

(* the sender id is found by the authenticated name in the peer table; 0 = unknown *)
Fixpoint sender_id (peers : list (N * string)) (name : option string) : N :=
  match name with
  | None => 0%N
  | Some nm => match peers with
               | [] => 0%N
               | (i, pn) :: r => if String.eqb pn nm then i else sender_id r name
               end
  end.
