(* Correspondence checks for the key-generation models: what the harness observed on real instances
   against Session.v / Receiver.v / Dkg.v. *)
From DV Require Export Model.Receiver.
Local Open Scope string_scope.

(* what is observed after an event: the reply class, the generation table (name -> contributors) and
   the accounts present in the distributed wallet *)
Record sobs := { so_err : option serr; so_sessions : list (string * (nat * list N * list N)); so_accounts : list string }.

Definition subset_N (a b : list N) := forallb (fun x => existsb (N.eqb x) b) a.
Definition same_N (a b : list N) := (List.length a =? List.length b)%nat && subset_N a b && subset_N b a.
Definition subset_S (a b : list string) := forallb (fun x => existsb (String.eqb x) b) a.
Definition same_S (a b : list string) := (List.length a =? List.length b)%nat && subset_S a b && subset_S b a.
Definition list_eqb_N (a b : list N) := (List.length a =? List.length b)%nat && forallb (fun xy => N.eqb (fst xy) (snd xy)) (combine a b).

Definition sessions_match (obs : list (string * (nat * list N * list N))) (m : list (string * sess)) : bool :=
  (List.length obs =? List.length m)%nat &&
  forallb (fun o => match sfind (fst o) m with
                    | Some s => let '(thr, parts, contributed) := snd o in
                                (thr =? s_threshold s)%nat && list_eqb_N parts (s_participants s) && same_N contributed (s_contributed s)
                    | None => false end) obs.

Definition opt_serr_eqb (a b : option serr) : bool :=
  match a, b with Some x, Some y => serr_eqb x y | None, None => true | _, _ => false end.

Definition obs_match (o : sobs) (x : option serr) (p : pstate) : bool :=
  opt_serr_eqb (so_err o) x && sessions_match (so_sessions o) (p_sessions p) && same_S (so_accounts o) (p_accounts p).

(* the handlers replace every error of the process service by a fixed message: only refused /
   succeeded / failed is visible to the caller *)
Definition coarse (x : option serr) : option serr :=
  match x with None => None | Some EOk => Some EOk | Some _ => Some EOther end.
Definition hobs_match (o : sobs) (x : option serr) (p : pstate) : bool :=
  opt_serr_eqb (coarse (so_err o)) (coarse x) && sessions_match (so_sessions o) (p_sessions p) && same_S (so_accounts o) (p_accounts p).

(* handler-level run against observations; returns the indices of the events whose observation differs *)
Fixpoint hcheck (peers : list (N * string)) (p : pstate) (h : list (hevent * option sobs)) (i : nat) : list nat :=
  match h with
  | [] => []
  | (HAdvance dt, _) :: r => hcheck peers (snd (sstep_ev p (SAdvance dt))) r (S i)
  | (HRecv name m, o) :: r =>
      let '(x, p1) := receive peers p name m in
      (match o with Some ob => if hobs_match ob x p1 then [] else [i] | None => [] end) ++ hcheck peers p1 r (S i)
  end.

(* direct (process-service level) run: the sender identifier is given *)
Fixpoint scheck (p : pstate) (h : list (sevent * option sobs)) (i : nat) : list nat :=
  match h with
  | [] => []
  | (e, o) :: r =>
      let '(x, p1) := sstep_ev p e in
      (match o with Some ob => if obs_match ob (Some x) p1 then [] else [i] | None => [] end) ++ scheck p1 r (S i)
  end.

Record hcase := HC { hc_id : N; hc_peers : list (N * string); hc_self : N; hc_timeout : nat;
                     hc_events : list (hevent * option sobs) }.
Record scase := SC { sc_id : N; sc_self : N; sc_timeout : nat; sc_events : list (sevent * option sobs) }.

Definition pinit (self : N) (timeout : nat) : pstate :=
  {| p_id := self; p_timeout := timeout; p_now := 0; p_sessions := []; p_accounts := [] |}.

Definition hmismatches (cs : list hcase) : list (N * list nat) :=
  flat_map (fun c => match hcheck (hc_peers c) (pinit (hc_self c) (hc_timeout c)) (hc_events c) 0 with
                     | [] => [] | l => [(hc_id c, l)] end) cs.
Definition smismatches (cs : list scase) : list (N * list nat) :=
  flat_map (fun c => match scheck (pinit (sc_self c) (sc_timeout c)) (sc_events c) 0 with
                     | [] => [] | l => [(sc_id c, l)] end) cs.

(* short constructors for case files *)
Definition OB (e : option serr) (s : list (string * (nat * list N * list N))) (a : list string) : option sobs :=
  Some {| so_err := e; so_sessions := s; so_accounts := a |}.

(* ---- cluster generations (C12, C13) ---- *)
Local Open Scope Z_scope.

Inductive dobs := ROk (pk : Z) | RErr | RPanic.

Record dcase := DC {
  dc_id : N; dc_checklen : bool; dc_acct : string; dc_thr : nat; dc_parts : list N; dc_ids : list N;
  dc_polys : list (N * list Z);                         (* what each participant dealt *)
  dc_swaps : list (N * N * option (Z * list Z));        (* contributions lost (None) or altered in flight, by (from, to) *)
  dc_lostp : list N; dc_loste : list N;                 (* recipients of undelivered prepare / execute messages *)
  dc_res : dobs;
  dc_accts : list (N * option (Z * list Z * nat * list N));    (* per instance: share, vector, threshold, participants *)
  dc_stale : list N }.                                          (* instances that already hold an account of that name *)

Definition fresh (i : N) : dnode := {| nd_id := i; nd_gens := []; nd_accts := [] |}.
Definition start_node (acct : string) (stale : list N) (i : N) : dnode :=
  if existsb (N.eqb i) stale
  then {| nd_id := i; nd_gens := []; nd_accts := [(acct, {| ar_share := 0; ar_vvec := []; ar_thr := 0; ar_parts := [] |})] |}
  else fresh i.

Definition case_net (c : dcase) : net :=
  {| nt_swap := fun from to m =>
       match find (fun e => N.eqb (fst (fst e)) from && N.eqb (snd (fst e)) to) (dc_swaps c) with
       | Some e => snd e | None => Some m end;
     nt_lost_prepare := fun p => existsb (N.eqb p) (dc_lostp c);
     nt_lost_execute := fun p => existsb (N.eqb p) (dc_loste c) |}.

Definition case_poly (c : dcase) (p : N) : list Z :=
  match afind N.eqb p (dc_polys c) with Some cs => cs | None => [] end.

Definition list_eqb_Z (a b : list Z) := (List.length a =? List.length b)%nat && forallb (fun xy => Z.eqb (fst xy) (snd xy)) (combine a b).

Definition dres_match (o : dobs) (r : dres Z) : bool :=
  match o, r with
  | ROk a, DOk b => Z.eqb a b
  | RErr, DErr => true
  | RPanic, DPanic => true
  | _, _ => false
  end.

Definition acct_match (acct : string) (cl : cluster) (e : N * option (Z * list Z * nat * list N)) : bool :=
  match cfind (fst e) cl with
  | None => false
  | Some n =>
      match snd e, afind String.eqb acct (nd_accts n) with
      | None, None => true
      | Some (share, vvec, thr, parts), Some a =>
          Z.eqb share (ar_share a) && list_eqb_Z vvec (ar_vvec a) && (thr =? ar_thr a)%nat && same_N parts (ar_parts a)
      | _, _ => false
      end
  end.

(* 0 = agrees; 1 = result differs; 2 = an account differs *)
Definition dcheck (c : dcase) : nat :=
  let '(r, cl) := generate {| check_len := dc_checklen c |} (case_net c) (dc_acct c) (dc_thr c) (dc_parts c) (case_poly c)
                    (map (start_node (dc_acct c) (dc_stale c)) (dc_ids c)) in
  if negb (dres_match (dc_res c) r) then 1%nat
  else if forallb (acct_match (dc_acct c) cl) (dc_accts c) then 0%nat else 2%nat.

Definition dmismatches (cs : list dcase) : list (N * nat) :=
  flat_map (fun c => match dcheck c with O => [] | k => [(dc_id c, k)] end) cs.

(* ---- the requester's side of one swap over the real transport ---- *)
Record arcase := AR { rc_id : N; rc_checklen : bool; rc_thr : nat; rc_self : N; rc_peer : N;
                      rc_reply : Z * list Z; rc_ok : bool }.
Definition archeck (c : arcase) : bool :=
  let g := {| g_thr := rc_thr c; g_parts := [rc_self c; rc_peer c]; g_poly := []; g_shares := [(rc_self c, 0)]; g_vvecs := [(rc_self c, [])] |} in
  let n := {| nd_id := rc_self c; nd_gens := [("a"%string, g)]; nd_accts := [] |} in
  Bool.eqb (match accept_reply {| check_len := rc_checklen c |} n "a"%string (rc_peer c) (fst (rc_reply c)) (snd (rc_reply c)) with DOk _ => true | _ => false end)
           (rc_ok c).
Definition armismatches (l : list arcase) : list N := map rc_id (filter (fun c => negb (archeck c)) l).
