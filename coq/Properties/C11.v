(* C11 - exported protection data is faithful and survives restart and upgrade. *)
From DV Require Import Model.InstanceI Model.Codec Proofs.RulerProofs Proofs.SignerProofs Proofs.LiveProofs
  Proofs.InterchangeProofs Proofs.ExportProofs Proofs.ViewCongr Proofs.CodecProofs Proofs.Examples Proofs.ExampleProofs.
Local Open Scope Z_scope.

(* (a) For every history of well-formed requests from the empty store and every key: the exported
   record (the decoded view of the key) is (-1 / -1,-1) if nothing was signed for the key, and
   otherwise IS one of the released duties and dominates all of them - i.e. it states exactly the
   highest proposed slot and the highest attested source and target. *)
Theorem C11_export_faithful :
  forall (c : scfg) (h : list op) (k : N),
    guard63 (sc_rules c) = true -> cfg_wf c -> Forall op_wf h ->
    let stf := fst (run c empty_store h) in
    let R := released_att k (snd (run c empty_store h)) in
    let P := released_prop k (snd (run c empty_store h)) in
    (R = [] -> view_att stf k = anone) /\
    (R <> [] -> In (a_src (view_att stf k), a_tgt (view_att stf k)) R) /\
    (forall p, In p R -> fst p <= a_src (view_att stf k) /\ snd p <= a_tgt (view_att stf k)) /\
    (P = [] -> view_prop stf k = -1) /\
    (P <> [] -> In (view_prop stf k) P) /\
    (forall z, In z P -> z <= view_prop stf k).
Proof. exact C11_export_faithful_main. Qed.
Print Assumptions C11_export_faithful.

(* (b) Exporting a store reached by such a history and importing the export into an empty
   instance succeeds and gives every key the same record; stores with the same records answer
   every later history of requests (any kind, any faults) identically - same states, same
   signatures - so the re-imported instance takes the same decisions as the original. *)
Theorem C11_export_import_same_decisions :
  forall (c : scfg) (ic : icfg) (h : list op),
    guard63 (sc_rules c) = true -> cfg_wf c -> Forall op_wf h ->
    merge_fieldwise ic = true -> ic_gvr ic <> ""%string -> ic_gvr_ok ic = true ->
    let st := fst (run c empty_store h) in
    exists st', import_cmd ic empty_store (export_cmd (ic_gvr ic) st) = IOk st' /\
                (forall k, export_view st' k = export_view st k) /\
                forall later, snd (run c st later) = snd (run c st' later).
Proof. exact C11_same_decisions_main. Qed.
Print Assumptions C11_export_import_same_decisions.

(* (c) Clean shutdown and restart on the same directory is the identity on the store. *)
Theorem C11_restart_identity : forall c st, step c st ORestart = ([], st).
Proof. reflexivity. Qed.

(* (d) The current record format round-trips for every pair of int64 values, and a record that does
   not start with the version byte is decoded by the legacy decoder alone (oracle argument gob:
   assumed only to return the values that were encoded; its tie to Go's encoding/gob is the
   correspondence check with records produced by the real encoder). *)
Theorem C11_codec :
  (forall gob a, i64 (a_src a) -> i64 (a_tgt a) -> decode_att gob (encode_att a) = Some a) /\
  (forall gob s, i64 s -> decode_prop gob (encode_prop s) = Some s) /\
  (forall gob x r, x <> 1%N -> decode_att gob (x :: r) = gob (x :: r)).
Proof. exact C11_codec_main. Qed.
Print Assumptions C11_codec.

(* (e) The converse directions.  A byte string in the current format (version byte 1, every byte
   below 256) that decodes re-encodes to itself - the format stores nothing beyond the decoded
   fields - and its decoded fields are int64 values; records of different states differ. *)
Theorem C11_codec_inverse :
  (forall gob b a, bytes_ok b -> hd 0%N b = 1%N -> decode_att gob b = Some a ->
     encode_att a = b /\ i64 (a_src a) /\ i64 (a_tgt a)) /\
  (forall gob b s, bytes_ok b -> hd 0%N b = 1%N -> decode_prop gob b = Some s -> encode_prop s = b) /\
  (forall a1 a2, i64 (a_src a1) -> i64 (a_tgt a1) -> i64 (a_src a2) -> i64 (a_tgt a2) ->
     encode_att a1 = encode_att a2 -> a1 = a2) /\
  (forall s1 s2, i64 s1 -> i64 s2 -> encode_prop s1 = encode_prop s2 -> s1 = s2).
Proof. exact C11_codec_inverse_main. Qed.
Print Assumptions C11_codec_inverse.

Example C11_codec_inverse_example :
  bytes_ok (encode_att {| a_src := -1; a_tgt := 7 |}) /\ hd 0%N (encode_att {| a_src := -1; a_tgt := 7 |}) = 1%N.
Proof. exact C11_codec_inverse_example_proof. Qed.

Example C11_example :
  Forall op_wf [OAttest ex_cl (by_key 1) (ex_att 0 1 1) no_ofault; OPropose ex_cl (by_key 1) (ex_prop 7 1) no_ofault] /\
  export_view (fst (run (ex_cfg true) empty_store
     [OAttest ex_cl (by_key 1) (ex_att 0 1 1) no_ofault; OPropose ex_cl (by_key 1) (ex_prop 7 1) no_ofault])) 1
  = {| sp_slot := 7; sp_src := 0; sp_tgt := 1 |}.
Proof. exact C11_example_proof. Qed.
