(* The secret-sharing algebra of the distributed key generation (services/process/standard/crypto.go,
   service.go OnCommit, generate.go), over ANY field F and any F-module of commitments with a linear
   commit map (for BLS12-381: F = Z/r, G = the public-key group, commit a = a * generator; signatures
   a * H(m) are another such module).  mathcomp / ssreflect style. *)
From mathcomp Require Import all_ssreflect all_algebra.
Set Implicit Arguments. Unset Strict Implicit. Unset Printing Implicit Defensive.
Import GRing.Theory.
Open Scope ring_scope.

Section Lagrange.
Variable F : fieldType.
Variable t : nat.
Variable x : 'I_t -> F.
Hypothesis x_inj : injective x.

Definition lbasis (i : 'I_t) : {poly F} :=
  \prod_(j < t | j != i) ((x i - x j)^-1 *: ('X - (x j)%:P)).

Lemma lbasis_at (i k : 'I_t) : (lbasis i).[x k] = (i == k)%:R.
Proof.
rewrite /lbasis horner_prod.
case: eqP => [<-|/eqP nik].
  rewrite big1 // => j nji; rewrite hornerZ hornerXsubC mulVf // subr_eq0.
  by apply: contraNneq nji => /x_inj ->.
rewrite (bigD1 k) //=; last by rewrite eq_sym.
by rewrite hornerZ hornerXsubC subrr mulr0 mul0r.
Qed.

Lemma size_lbasis i : (size (lbasis i) <= t)%N.
Proof.
rewrite /lbasis.
apply: (leq_trans (size_prod_leq _ _)).
rewrite leq_subLR.
have H j : (size ((x i - x j)^-1 *: ('X - (x j)%:P)) <= 2)%N.
  by apply: leq_trans (size_scale_leq _ _) _; rewrite size_XsubC.
apply: leq_ltn_trans (leq_sum _ (fun j _ => H j)) _.
have -> : (\sum_(j < t | j != i) 2 = #|predC1 i| * 2)%N by apply: sum_nat_const.
have -> : #|(fun j : ordinal_finType t => j != i)| = #|predC1 i| by apply: eq_card.
rewrite cardC1 card_ord muln2 -addnn ltn_add2l.
by rewrite prednK // (leq_ltn_trans _ (ltn_ord i)).
Qed.

Lemma interp (p : {poly F}) : (size p <= t)%N -> \sum_(i < t) p.[x i] *: lbasis i = p.
Proof.
move=> sp; apply/eqP; rewrite -subr_eq0; apply/eqP.
set q := _ - p.
have sq : (size q <= t)%N.
  rewrite /q; apply: leq_trans (size_add _ _) _.
  rewrite geq_max size_opp sp andbT.
  apply: leq_trans (size_sum _ _ _) _; apply/bigmax_leqP => i _.
  by apply: leq_trans (size_scale_leq _ _) (size_lbasis i).
apply: (@roots_geq_poly_eq0 _ q [seq x i | i <- enum 'I_t]).
- apply/allP => _ /mapP [k _ ->]; rewrite /root /q hornerD hornerN horner_sum.
  rewrite (bigD1 k) //= hornerZ lbasis_at eqxx mulr1 big1 ?addr0 ?subrr //.
  by move=> i nik; rewrite hornerZ lbasis_at (negbTE nik) mulr0.
- by rewrite map_inj_uniq ?enum_uniq.
- by rewrite size_map size_enum_ord.
Qed.

Theorem recover (p : {poly F}) : (size p <= t)%N ->
  \sum_(i < t) p.[x i] * (lbasis i).[0] = p.[0].
Proof.
move=> sp; rewrite -{2}(interp sp) horner_sum.
by apply: eq_bigr => i _; rewrite hornerZ.
Qed.

Lemma lambda0 i : (lbasis i).[0] = \prod_(j < t | j != i) (x j / (x j - x i)).
Proof.
rewrite /lbasis horner_prod; apply: eq_bigr => j _.
rewrite hornerZ hornerXsubC sub0r mulrN -mulNr mulrC -invrN opprB.
by [].
Qed.
End Lagrange.

Section Secrecy.
Variable F : fieldType.
(* any k < t shares at non-zero points are consistent with every secret *)
Theorem secrecy (t k : nat) (z : 'I_k -> F) (p : {poly F}) (s' : F) :
  (k < t)%N -> (forall j, z j != 0) -> (size p <= t)%N ->
  exists q : {poly F}, [/\ (size q <= t)%N, q.[0] = s' & forall j, q.[z j] = p.[z j]].
Proof.
move=> kt znz sp.
pose m : {poly F} := \prod_(j < k) ((z j)^-1 *: ((z j)%:P - 'X)).
have m0 : m.[0] = 1.
  rewrite /m horner_prod big1 // => j _.
  by rewrite hornerZ hornerD hornerN hornerC hornerX subr0 mulVf.
have mz j : m.[z j] = 0.
  rewrite /m horner_prod (bigD1 j) //= hornerZ hornerD hornerN hornerC hornerX subrr mulr0 mul0r.
  by [].
have sm : (size m <= t)%N.
  rewrite /m; apply: (leq_trans (size_prod_leq _ _)).
  rewrite leq_subLR.
  have H j : (size ((z j)^-1 *: ((z j)%:P - 'X)) <= 2)%N.
    apply: leq_trans (size_scale_leq _ _) _.
    by rewrite -opprB size_opp size_XsubC.
  apply: leq_ltn_trans (leq_sum _ (fun j _ => H j)) _.
  rewrite sum_nat_const muln2 -addnn ltn_add2l.
  by rewrite cardT size_enum_ord.
exists (p + (s' - p.[0]) *: m); split.
- apply: leq_trans (size_add _ _) _; rewrite geq_max sp /=.
  exact: leq_trans (size_scale_leq _ _) sm.
- by rewrite hornerD hornerZ m0 mulr1 addrC subrK.
- by move=> j; rewrite hornerD hornerZ mz mulr0 addr0.
Qed.
End Secrecy.

Section Dealers.
Variable F : fieldType.
Variable G : lmodType F.
Variable g : G.
Definition commit (a : F) : G := a *: g.
(* Feldman check: the share committed equals the vector evaluated in the exponent *)
Lemma feldman (p : {poly F}) (x : F) :
  commit p.[x] = \sum_(k < size p) (x ^+ k) *: commit p`_k.
Proof.
rewrite /commit horner_coef scaler_suml; apply: eq_bigr => k _.
by rewrite scalerA mulrC.
Qed.
(* summing dealers: shares and vectors add *)
Lemma sum_shares (n : nat) (f : 'I_n -> {poly F}) (x : F) :
  (\sum_d f d).[x] = \sum_d (f d).[x].
Proof. by rewrite horner_sum. Qed.
Lemma sum_size (n t : nat) (f : 'I_n -> {poly F}) :
  (forall d, (size (f d) <= t)%N) -> (size (\sum_d f d)%R <= t)%N.
Proof.
move=> H; apply: leq_trans (size_sum _ _ _) _; apply/bigmax_leqP => d _; exact: H.
Qed.
End Dealers.

(* ---- the key generation: n dealers, every participant sums what it received ---- *)
Section Dkg.
Variable F : fieldType.
Variable G : lmodType F.
Variable g : G.
Variables (n t : nat).
Variable f : 'I_n -> {poly F}.            (* dealer d's polynomial *)
Hypothesis f_size : forall d, (size (f d) <= t)%N.

Definition master : {poly F} := \sum_d f d.
(* the share participant with identifier z ends up with: the sum of the sub-shares dealt to it *)
Definition final_share (z : F) : F := \sum_d (f d).[z].
(* the aggregate verification vector: coefficient-wise sum of the dealers' vectors *)
Definition agg_vvec (k : nat) : G := \sum_d commit g (f d)`_k.

Lemma master_size : (size master <= t)%N.
Proof. exact: sum_size. Qed.

Lemma final_share_master z : final_share z = master.[z].
Proof. by rewrite /final_share /master horner_sum. Qed.

Lemma agg_vvec_master k : agg_vvec k = commit g master`_k.
Proof.
rewrite /agg_vvec /commit /master coef_sum scaler_suml.
by [].
Qed.

(* the composite public key is the commitment of the master secret, the same for everyone *)
Lemma composite_key : agg_vvec 0 = commit g master.[0].
Proof. by rewrite agg_vvec_master horner_coef0. Qed.

(* every final share is consistent with the aggregate vector (Feldman check on the sums) *)
Lemma final_share_consistent z :
  commit g (final_share z) = \sum_(k < size master) (z ^+ k) *: agg_vvec k.
Proof.
rewrite final_share_master feldman; apply: eq_bigr => k _.
by rewrite agg_vvec_master.
Qed.

(* any t participants with distinct identifiers recover the master secret from their final shares,
   hence combine partial signatures (linear in the share) into the signature under the composite key *)
Variable x : 'I_t -> F.
Hypothesis x_inj : injective x.

Theorem dkg_recover : \sum_(i < t) final_share (x i) * (lbasis x i).[0] = master.[0].
Proof.
rewrite -(recover x_inj master_size); apply: eq_bigr => i _.
by rewrite final_share_master.
Qed.

Theorem dkg_threshold_signature (h : G) :
  \sum_(i < t) (lbasis x i).[0] *: (final_share (x i) *: h) = master.[0] *: h.
Proof.
rewrite -dkg_recover scaler_suml; apply: eq_bigr => i _.
by rewrite scalerA mulrC.
Qed.
End Dkg.
