package main

// splitmix64: every random choice of the harness derives from one state seeded by VERIF_SEED.
type PRNG struct{ s uint64 }

func NewPRNG(seed uint64) *PRNG { return &PRNG{s: seed*0x9E3779B97F4A7C15 + 0x1234567} }

func (p *PRNG) U64() uint64 {
	p.s += 0x9E3779B97F4A7C15
	z := p.s
	z = (z ^ (z >> 30)) * 0xBF58476D1CE4E5B9
	z = (z ^ (z >> 27)) * 0x94D049BB133111EB
	return z ^ (z >> 31)
}

// Intn returns a value in [0,n).
func (p *PRNG) Intn(n int) int {
	if n <= 0 {
		return 0
	}
	return int(p.U64() % uint64(n))
}

// Chance returns true with probability pct/100.
func (p *PRNG) Chance(pct int) bool { return p.Intn(100) < pct }

func (p *PRNG) Bytes(n int) []byte {
	b := make([]byte, n)
	for i := range b {
		b[i] = byte(p.U64())
	}
	return b
}

// Fork derives an independent stream (used per history so that shrinking is stable).
func (p *PRNG) Fork() *PRNG { return NewPRNG(p.U64()) }
