(* C17, continued: with cooperating peers (every prepare lists distinct participants including this
   instance; every contribution comes from a listed participant) the hypothesis of
   commit_needs_everyone holds in every reachable state, so a commit that succeeds anywhere in such a
   history found a contribution from every listed participant. *)
From DV Require Import Model.Session Proofs.SessionProofs.
From Coq Require Import Lia.

Definition listed_inv (p : pstate) : Prop :=
  forall a s, sfind a (p_sessions p) = Some s -> contributions_from_listed s.

Definition coop_event (p : pstate) (e : sevent) : Prop :=
  match e with
  | SPrepare a thr parts => NoDup parts /\ In (p_id p) parts
  | SContribute a sender valid => forall s, sfind a (p_sessions p) = Some s -> In sender (s_participants s)
  | _ => True
  end.

Fixpoint coop_hist (p : pstate) (h : list sevent) : Prop :=
  match h with [] => True | e :: r => coop_event p e /\ coop_hist (snd (sstep_ev p e)) r end.

Lemma existsb_eqb_In i l : existsb (N.eqb i) l = true <-> In i l.
Proof.
  rewrite existsb_exists. split.
  - intros (x & Hx & E). apply N.eqb_eq in E. now subst.
  - intros H. exists i. split; [exact H|apply N.eqb_refl].
Qed.

Lemma NoDup_snoc {A} (l : list A) x : NoDup l -> ~ In x l -> NoDup (l ++ [x]).
Proof.
  induction l as [|y l IH]; cbn; intros ND Hx; [constructor; auto; constructor|].
  inversion ND as [|y' l' Hy ND']; subst. constructor.
  - intros Hin. apply in_app_or in Hin. destruct Hin as [Hin|[->|[]]]; [auto|]. apply Hx. now left.
  - apply IH; auto.
Qed.

Lemma add_id_NoDup i l : NoDup l -> NoDup (add_id i l).
Proof.
  unfold add_id. destruct (existsb (N.eqb i) l) eqn:E; auto. intros ND. apply NoDup_snoc; auto.
  intros Hin. apply existsb_eqb_In in Hin. congruence.
Qed.

Lemma add_id_incl i l m : incl l m -> In i m -> incl (add_id i l) m.
Proof.
  unfold add_id. destruct (existsb (N.eqb i) l); auto. intros H Hi x Hx. apply in_app_or in Hx.
  destruct Hx as [Hx|[<-|[]]]; auto.
Qed.

Lemma fold_add_id got : forall l m, NoDup l -> incl l m -> incl got m ->
  NoDup (fold_left (fun l i => add_id i l) got l) /\ incl (fold_left (fun l i => add_id i l) got l) m.
Proof.
  induction got as [|g got IH]; intros l m ND I G; cbn; [auto|].
  apply IH; [now apply add_id_NoDup| |intros x Hx; apply G; now right].
  apply add_id_incl; auto. apply G. now left.
Qed.

Lemma get_generation_listed p a : listed_inv p -> listed_inv (snd (get_generation p a)) /\
  (forall s, fst (get_generation p a) = Some s -> contributions_from_listed s).
Proof.
  intros I. unfold get_generation. destruct (sfind a (p_sessions p)) as [s|] eqn:E; [|split; [auto|discriminate]].
  destruct (_ <? _); cbn [fst snd].
  - split; [|discriminate]. intros b s' H. cbn [p_sessions with_sessions] in H. rewrite sfind_sremove in H.
    destruct (String.eqb b a); [discriminate|]. exact (I b s' H).
  - split; [exact I|]. intros s' H; injection H as <-. exact (I a s E).
Qed.

Lemma put_listed l a s : (forall b s', sfind b l = Some s' -> contributions_from_listed s') -> contributions_from_listed s ->
  forall b s', sfind b (sput a s l) = Some s' -> contributions_from_listed s'.
Proof.
  intros I C b s' H. rewrite sfind_sput in H. destruct (String.eqb b a); [injection H as <-; exact C|exact (I b s' H)].
Qed.
Lemma remove_listed l a : (forall b s', sfind b l = Some s' -> contributions_from_listed s') ->
  forall b s', sfind b (sremove a l) = Some s' -> contributions_from_listed s'.
Proof.
  intros I b s' H. rewrite sfind_sremove in H. destruct (String.eqb b a); [discriminate|exact (I b s' H)].
Qed.

Lemma get_generation_sessions_subset p a b s : sfind b (p_sessions (snd (get_generation p a))) = Some s -> sfind b (p_sessions p) = Some s.
Proof.
  unfold get_generation. destruct (sfind a (p_sessions p)) as [s0|]; auto. destruct (_ <? _); cbn; auto.
  rewrite sfind_sremove. destruct (String.eqb b a); [discriminate|auto].
Qed.
Lemma get_generation_id p a : p_id (snd (get_generation p a)) = p_id p.
Proof. unfold get_generation. destruct (sfind a (p_sessions p)); auto. destruct (_ <? _); auto. Qed.
Lemma get_generation_some p a s : fst (get_generation p a) = Some s -> sfind a (p_sessions p) = Some s.
Proof.
  unfold get_generation. destruct (sfind a (p_sessions p)) as [s0|]; [|discriminate]. destruct (_ <? _); cbn; [discriminate|auto].
Qed.

Theorem step_listed p e : listed_inv p -> coop_event p e -> listed_inv (snd (sstep_ev p e)).
Proof.
  intros I C. destruct e as [a thr parts|a sw ok|a sender valid|a ok|a|dt]; cbn [sstep_ev].
  - destruct (get_generation_listed p a I) as [I1 _]. pose proof (get_generation_id p a) as Hid.
    destruct (get_generation p a) as [[s|] p1]; cbn [snd] in *; [exact I1|].
    intros b s' H. cbn [snd p_sessions with_sessions] in H. apply (put_listed _ _ _ I1) in H; auto.
    destruct C as [ND Hin]. unfold contributions_from_listed. cbn [s_contributed s_participants].
    destruct ((thr =? 0)%nat); cbn.
    + split; [constructor|]. split; [exact ND|]. intros x [].
    + split; [constructor; [intros []|constructor]|]. split; [exact ND|]. intros x Hx. destruct Hx as [Hx|[]]. subst x. rewrite Hid. exact Hin.
  - destruct (get_generation_listed p a I) as [I1 I2].
    destruct (get_generation p a) as [[s|] p1]; cbn [fst snd] in *; [|exact I1].
    destruct (I2 s eq_refl) as (N1 & N2 & Hincl).
    intros b s' H. cbn [snd p_sessions with_sessions] in H. apply (put_listed _ _ _ I1) in H; auto.
    unfold contributions_from_listed. cbn [s_contributed s_participants].
    set (higher := if s_dealt s then filter (fun i => N.ltb (p_id p1) i) (s_participants s) else []).
    assert (Hh : incl higher (s_participants s)).
    { unfold higher. destruct (s_dealt s); [|intros x []]. intros x Hx. apply filter_In in Hx. tauto. }
    match goal with |- NoDup (fold_left _ ?got _) /\ _ => assert (Hg : incl got (s_participants s)) end.
    { destruct (ok && negb _); [exact Hh|]. intros x Hx. apply filter_In in Hx. destruct Hx as [_ Hx].
      apply andb_true_iff in Hx. destruct Hx as [Hx _]. apply existsb_eqb_In in Hx. now apply Hh. }
    destruct (fold_add_id _ _ _ N1 Hincl Hg) as [F1 F2]. auto.
  - destruct (get_generation_listed p a I) as [I1 I2]. pose proof (get_generation_some p a) as Hs.
    destruct (get_generation p a) as [[s|] p1]; cbn [fst snd] in *; [|exact I1].
    destruct (valid && _); [|exact I1].
    destruct (I2 s eq_refl) as (N1 & N2 & Hincl).
    intros b s' H. cbn [snd p_sessions with_sessions] in H. apply (put_listed _ _ _ I1) in H; auto.
    unfold contributions_from_listed. cbn [s_contributed s_participants]. split; [now apply add_id_NoDup|].
    split; [exact N2|]. apply add_id_incl; [exact Hincl|exact (C s (Hs s eq_refl))].
  - destruct (get_generation_listed p a I) as [I1 _].
    destruct (get_generation p a) as [[s|] p1]; cbn [snd] in *; [|exact I1].
    destruct (negb _); [exact I1|]. destruct ok; [|exact I1].
    intros b s' H. cbn [snd p_sessions] in H. exact (remove_listed _ _ I1 b s' H).
  - destruct (get_generation_listed p a I) as [I1 _].
    destruct (get_generation p a) as [[s|] p1]; cbn [snd] in *; [|exact I1].
    intros b s' H. cbn [snd p_sessions with_sessions] in H. exact (remove_listed _ _ I1 b s' H).
  - exact I.
Qed.

Theorem run_listed h : forall p, listed_inv p -> coop_hist p h -> listed_inv (fst (srun p h)).
Proof.
  induction h as [|e h IH]; intros p I C; cbn; auto. destruct C as [C1 C2].
  pose proof (step_listed p e I C1) as I1. destruct (sstep_ev p e) as [x p1]. cbn [snd] in *.
  specialize (IH p1 I1 C2). destruct (srun p1 h). exact IH.
Qed.

(* From an empty table, after any cooperative history, a commit that succeeds found a contribution from
   every listed participant of the generation it completes. *)
Theorem commit_needs_everyone_reachable id timeout h a ok :
  let p0 := {| p_id := id; p_timeout := timeout; p_now := 0; p_sessions := []; p_accounts := [] |} in
  coop_hist p0 h ->
  fst (sstep_ev (fst (srun p0 h)) (SCommit a ok)) = EOk ->
  exists s, fst (get_generation (fst (srun p0 h)) a) = Some s /\
            (forall i, In i (s_participants s) -> In i (s_contributed s)) /\ ok = true.
Proof.
  intros p0 C. assert (I0 : listed_inv p0) by (intros b s H; discriminate).
  pose proof (run_listed h p0 I0 C) as I. set (p := fst (srun p0 h)) in *.
  destruct (get_generation_listed p a I) as [_ I2]. cbn [sstep_ev].
  destruct (get_generation p a) as [[s|] p1] eqn:Eg; cbn [fst] in *; [|discriminate].
  specialize (I2 s eq_refl).
  destruct (Nat.eqb_spec (List.length (s_contributed s)) (List.length (s_participants s))) as [E|E]; cbn [negb]; [|discriminate].
  destruct ok; [|discriminate]. intros _. exists s. split; [reflexivity|]. split; [|reflexivity].
  now apply full_count_all.
Qed.
