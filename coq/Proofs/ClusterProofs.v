(* C14: two conflicting duties can never both collect a threshold of partial signatures. *)
From DV Require Import Model.Cluster Proofs.SignerProofs Proofs.InstanceProofs Proofs.DkgProofs.
From Coq Require Import Lia.
Local Open Scope Z_scope.

(* two different elements of a list sit at two different positions of its per-key projection *)
Lemma two_in_flat_map {A B} (f : A -> list B) (l : list A) x y bx by_ :
  x <> y -> In x l -> In y l -> f x = [bx] -> f y = [by_] ->
  exists p q, p <> q /\ nth_error (flat_map f l) p = Some bx /\ nth_error (flat_map f l) q = Some by_.
Proof.
  intros Hne Hx Hy Fx Fy.
  assert (Hpos : forall l z bz, In z l -> f z = [bz] ->
            exists l1 l2, l = l1 ++ z :: l2 /\ nth_error (flat_map f l) (List.length (flat_map f l1)) = Some bz).
  { intros l0 z bz Hin Fz. apply in_split in Hin. destruct Hin as (l1 & l2 & ->). exists l1, l2. split; auto.
    rewrite flat_map_app. cbn. rewrite Fz. rewrite nth_error_app2 by lia. rewrite Nat.sub_diag. reflexivity. }
  apply in_split in Hx. destruct Hx as (l1 & l2 & ->).
  apply in_app_or in Hy. destruct Hy as [Hy|[Hy|Hy]]; [| congruence |].
  - (* y before x *)
    apply in_split in Hy. destruct Hy as (l3 & l4 & ->).
    exists (List.length (flat_map f (l3 ++ y :: l4))), (List.length (flat_map f l3)). split; [|split].
    + rewrite flat_map_app, app_length. cbn. rewrite Fy. cbn. lia.
    + rewrite flat_map_app. cbn [flat_map]. rewrite Fx. rewrite nth_error_app2 by lia. now rewrite Nat.sub_diag.
    + rewrite <- app_assoc. cbn [app]. rewrite flat_map_app. cbn [flat_map]. rewrite Fy.
      rewrite nth_error_app2 by lia. now rewrite Nat.sub_diag.
  - (* y after x *)
    apply in_split in Hy. destruct Hy as (l3 & l4 & ->).
    exists (List.length (flat_map f l1)), (List.length (flat_map f (l1 ++ x :: l3))). split; [|split].
    + rewrite flat_map_app, app_length. cbn. rewrite Fx. cbn. lia.
    + rewrite flat_map_app. cbn [flat_map]. rewrite Fx. rewrite nth_error_app2 by lia. now rewrite Nat.sub_diag.
    + replace (l1 ++ x :: l3 ++ y :: l4) with ((l1 ++ x :: l3) ++ y :: l4) by (now rewrite <- app_assoc).
      rewrite flat_map_app. cbn [flat_map]. rewrite Fy. rewrite nth_error_app2 by lia. now rewrite Nat.sub_diag.
Qed.

(* one instance never signs both of two conflicting duties *)
Theorem member_signs_at_most_one (m : member) i h d1 d2 :
  guard63 (sc_rules (m_cfg m)) = true -> Forall (fun x => op_ok (snd x)) h -> conflicting d1 d2 ->
  signed_by m i h d1 -> signed_by m i h d2 -> False.
Proof.
  intros G HF [Hne Hc] S1 S2. unfold signed_by, member_released in *.
  assert (HFp : Forall op_ok (project i h)).
  { unfold project. apply Forall_forall. intros o Ho. apply in_map_iff in Ho. destruct Ho as ([j o'] & <- & Hin).
    apply filter_In in Hin. destruct Hin as [Hin _]. rewrite Forall_forall in HF. exact (HF _ Hin). }
  set (k := m_key m) in *. set (out := snd (run (m_cfg m) (m_store m) (project i h))) in *.
  set (x := {| sg_key := k; sg_msg := d1 |}) in *. set (y := {| sg_key := k; sg_msg := d2 |}) in *.
  assert (Hxy : x <> y) by (intros E; apply Hne; now injection E).
  destruct d1 as [sl1 ix1 bb1 s1 sr1 t1 tr1 dm1|sl1 pi1 pa1 st1 bo1 dm1|da1 dm1];
  destruct d2 as [sl2 ix2 bb2 s2 sr2 t2 tr2 dm2|sl2 pi2 pa2 st2 bo2 dm2|da2 dm2]; try contradiction.
  - (* attestations *)
    destruct (two_in_flat_map (att_of k) (released out) x y (s1, t1) (s2, t2) Hxy S1 S2) as (p & q & Hpq & Hp & Hq).
    { unfold att_of, x; cbn. now rewrite N.eqb_refl. } { unfold att_of, y; cbn. now rewrite N.eqb_refl. }
    destruct (C01_main (m_cfg m) (m_store m) (project i h) k G HFp) as (_ & Hns & _).
    apply (Hns p q (s1, t1) (s2, t2) Hpq Hp Hq). unfold slashable. cbn. exact Hc.
  - (* proposals *)
    destruct (two_in_flat_map (prop_of k) (released out) x y sl1 sl2 Hxy S1 S2) as (p & q & Hpq & Hp & Hq).
    { unfold prop_of, x; cbn. now rewrite N.eqb_refl. } { unfold prop_of, y; cbn. now rewrite N.eqb_refl. }
    destruct (C02_main (m_cfg m) (m_store m) (project i h) k G HFp) as (_ & Hns & _).
    exact (Hns p q sl1 sl2 Hpq Hp Hq Hc).
Qed.

(* disjoint selections of a list *)
Lemma disjoint_filters {A} (P Q : A -> bool) l : (forall x, In x l -> P x = true -> Q x = true -> False) ->
  (List.length (filter P l) + List.length (filter Q l) <= List.length l)%nat.
Proof.
  induction l as [|x l IH]; intros H; cbn; auto.
  assert (IH' := IH (fun y Hy => H y (or_intror Hy))).
  destruct (P x) eqn:Px; destruct (Q x) eqn:Qx; cbn; try lia.
  exfalso. apply (H x); auto. now left.
Qed.

Theorem quorums_intersect n t (S1 S2 : nat) :
  threshold_ok n t = true -> (S1 + S2 <= n)%nat -> ~ (t <= S1 /\ t <= S2)%nat.
Proof.
  intros Ht Hs [H1 H2]. apply threshold_ok_spec in Ht. destruct Ht as (Hn & Hlt & Hle).
  assert (n < 2 * t)%nat.
  { pose proof (Nat.div_mod n 2 ltac:(lia)). pose proof (Nat.mod_upper_bound n 2 ltac:(lia)). lia. }
  lia.
Qed.

Lemma NoDup_app_disj {A} (l1 l2 : list A) :
  NoDup l1 -> NoDup l2 -> (forall x, In x l1 -> In x l2 -> False) -> NoDup (l1 ++ l2).
Proof.
  induction l1 as [|a l1 IH]; intros N1 N2 D; cbn; auto.
  inversion N1 as [|a' l' Ha N1']; subst. constructor.
  - intros Hin. apply in_app_or in Hin. destruct Hin as [Hin|Hin]; [auto|]. apply (D a); auto. now left.
  - apply IH; auto. intros x I1 I2. apply (D x); auto. now right.
Qed.

Theorem cluster_one_threshold :
  forall (n t : nat) (ms : list member) (h : list (nat * op)) (d1 d2 : msg) (S1 S2 : list nat),
    threshold_ok n t = true -> List.length ms = n ->
    Forall (fun m => guard63 (sc_rules (m_cfg m)) = true) ms ->
    Forall (fun x => op_ok (snd x)) h ->
    conflicting d1 d2 ->
    signers ms h d1 S1 -> signers ms h d2 S2 ->
    ~ (t <= List.length S1 /\ t <= List.length S2)%nat.
Proof.
  intros n t ms h d1 d2 S1 S2 Ht Hn HG HF Hc [ND1 H1] [ND2 H2].
  apply (quorums_intersect n t _ _ Ht).
  (* S1 ++ S2 is a duplicate-free list of indices below n *)
  assert (ND : NoDup (S1 ++ S2)).
  { apply NoDup_app_disj; [exact ND1|exact ND2|]. intros i I1 I2.
    destruct (H1 i I1) as (m & E & Sg1). destruct (H2 i I2) as (m' & E' & Sg2).
    rewrite E in E'. injection E' as <-.
    rewrite Forall_forall in HG. apply nth_error_In in E.
    exact (member_signs_at_most_one m i h d1 d2 (HG m E) HF Hc Sg1 Sg2). }
  assert (Hincl : incl (S1 ++ S2) (seq 0 n)).
  { intros i Hi. apply in_seq. split; [lia|]. cbn. rewrite <- Hn. apply nth_error_Some.
    apply in_app_or in Hi. destruct Hi as [Hi|Hi]; [destruct (H1 i Hi) as (m & E & _)|destruct (H2 i Hi) as (m & E & _)];
      congruence. }
  pose proof (NoDup_incl_length ND Hincl) as L. rewrite app_length, seq_length in L. exact L.
Qed.
