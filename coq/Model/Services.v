(* Model of the services around the signer that take permission decisions: the lister, the account
   manager (lock / unlock / generate), the wallet manager (lock / unlock); and the signer
   instantiated with the static checker. *)
From DV Require Export Model.Instance Model.Checker.
Local Open Scope string_scope.

(* operation names as the services pass them to Check *)
Definition action_name (a : action) : string :=
  match a with ASign => "Sign" | AAtt => "Sign beacon attestation" | AProp => "Sign beacon proposal" end.
Definition op_access : string := "Access account".
Definition op_create : string := "Create account".
Definition op_lock_wallet : string := "Lock wallet".
Definition op_unlock_wallet : string := "Unlock wallet".
Definition op_lock_account : string := "Lock account".
Definition op_unlock_account : string := "Unlock account".

(* the signer's permission function, from the access table *)
Definition checker_perm (grouped : bool) (t : ptable) : string -> string -> string -> action -> bool :=
  fun client w a act => check grouped t client (w ++ "/" ++ a) (action_name act).

(* ---- accounts known to the fetcher: the maps built at start plus the overlay of accounts added later ---- *)

Record world := {
  w_grouped : bool;
  w_table : ptable;
  w_wallets : list string;          (* wallets in the fetcher's cache *)
  w_base : list acct;               (* accounts present at start *)
  w_overlay : list acct;            (* accounts added through AddAccount, oldest first *)
  w_locked_accounts : list string;  (* wallet/account paths *)
  w_locked_wallets : list string }.

Definition in_wallet (w : string) (a : acct) : bool := String.eqb (ac_wallet a) w.
(* FetchAccounts: the overlay overrides the base map by account name *)
Definition wallet_accounts (wd : world) (w : string) : list acct :=
  let ov := filter (in_wallet w) (w_overlay wd) in
  filter (fun a => in_wallet w a && negb (existsb (fun o => String.eqb (ac_name o) (ac_name a)) ov)) (w_base wd) ++ ov.
Definition known_wallet (wd : world) (w : string) : bool := existsb (String.eqb w) (w_wallets wd).

(* ---- lister ---- *)

(* a requested path after parsing: LBad = empty path, leading '/', or an account expression that does
   not compile; LPath w None = wallet only (or trailing '/'); LPath w (Some top) = wallet/expression *)
Inductive lpath := LBad | LPath (w : string) (ap : option (list re)).

(* the lister anchors the account expression itself (legacy style) and matches case-sensitively *)
Definition lister_match (ap : option (list re)) (name : string) : bool :=
  match ap with None => true | Some top => search false (anchor_legacy top) (bytes_of name) end.

Definition list_path (wd : world) (client : string) (p : lpath) : list acct :=
  match p with
  | LBad => []
  | LPath w ap =>
      if String.eqb w "" then [] else
      if negb (known_wallet wd w) then [] else
      filter (fun a => lister_match ap (ac_name a) &&
                       check (w_grouped wd) (w_table wd) client (w ++ "/" ++ ac_name a) op_access)
             (wallet_accounts wd w)
  end.
Definition list_accounts (wd : world) (client : string) (paths : list lpath) : list acct :=
  flat_map (list_path wd client) paths.

(* ---- account manager and wallet manager ---- *)

Inductive sop :=
| SAcctLock (client name : string)
| SAcctUnlock (client name : string) (pass_ok : bool)
| SWalletLock (client name : string)
| SWalletUnlock (client name : string) (pass_ok : bool)
| SGenerate (client path : string) (participants threshold : nat) (outcome : option acct).
   (* outcome: what process.OnGenerate does once permitted - None = it fails, Some a = account a is created *)

Definition find_account (wd : world) (path : string) : option acct :=
  match wallet_and_account path with
  | None => None
  | Some (w, a) => if known_wallet wd w then find (fun x => String.eqb (ac_name x) a) (wallet_accounts wd w) else None
  end.

Definition remove_str (s : string) (l : list string) : list string := filter (fun x => negb (String.eqb x s)) l.
Definition set_locked_accounts (wd : world) (l : list string) : world :=
  {| w_grouped := w_grouped wd; w_table := w_table wd; w_wallets := w_wallets wd; w_base := w_base wd;
     w_overlay := w_overlay wd; w_locked_accounts := l; w_locked_wallets := w_locked_wallets wd |}.
Definition set_locked_wallets (wd : world) (l : list string) : world :=
  {| w_grouped := w_grouped wd; w_table := w_table wd; w_wallets := w_wallets wd; w_base := w_base wd;
     w_overlay := w_overlay wd; w_locked_accounts := w_locked_accounts wd; w_locked_wallets := l |}.
Definition add_overlay (wd : world) (a : acct) : world :=
  {| w_grouped := w_grouped wd; w_table := w_table wd; w_wallets := w_wallets wd; w_base := w_base wd;
     w_overlay := w_overlay wd ++ [a]; w_locked_accounts := w_locked_accounts wd; w_locked_wallets := w_locked_wallets wd |}.

Definition wcheck (wd : world) (client path op : string) : bool := check (w_grouped wd) (w_table wd) client path op.

Definition sstep (wd : world) (o : sop) : cres * world :=
  match o with
  | SAcctLock cl name =>
      if String.eqb name "" then (CDenied, wd) else
      match find_account wd name with
      | None => (CDenied, wd)
      | Some a => if wcheck wd cl (ac_path a) op_lock_account
                  then (CSucceeded, set_locked_accounts wd (ac_path a :: remove_str (ac_path a) (w_locked_accounts wd)))
                  else (CDenied, wd)
      end
  | SAcctUnlock cl name pass_ok =>
      if String.eqb name "" then (CDenied, wd) else
      match find_account wd name with
      | None => (CDenied, wd)
      | Some a => if wcheck wd cl (ac_path a) op_unlock_account
                  then (if pass_ok then (CSucceeded, set_locked_accounts wd (remove_str (ac_path a) (w_locked_accounts wd)))
                        else (CDenied, wd))
                  else (CDenied, wd)
      end
  | SWalletLock cl name =>
      if String.eqb name "" then (CDenied, wd) else
      match wallet_and_account name with
      | None => (CDenied, wd)
      | Some (w, _) =>
        if negb (known_wallet wd w) then (CDenied, wd) else
        if wcheck wd cl w op_lock_wallet
        then (CSucceeded, set_locked_wallets wd (w :: remove_str w (w_locked_wallets wd)))
        else (CDenied, wd)
      end
  | SWalletUnlock cl name pass_ok =>
      if String.eqb name "" then (CDenied, wd) else
      match wallet_and_account name with
      | None => (CDenied, wd)
      | Some (w, _) =>
        if negb (known_wallet wd w) then (CDenied, wd) else
        if wcheck wd cl w op_unlock_wallet
        then (if pass_ok then (CSucceeded, set_locked_wallets wd (remove_str w (w_locked_wallets wd))) else (CDenied, wd))
        else (CDenied, wd)
      end
  | SGenerate cl path participants threshold outcome =>
      if negb (wcheck wd cl path op_create) then (CDenied, wd) else
      if (participants =? 0)%nat then (CDenied, wd) else
      if (participants <? threshold)%nat then (CDenied, wd) else
      match wallet_and_account path with
      | None => (CDenied, wd)
      | Some _ => match outcome with
                  | None => (CFailed, wd)
                  | Some a => (CSucceeded, add_overlay wd a)
                  end
      end
  end.
