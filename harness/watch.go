package main

import (
	"context"
	"fmt"
	"os"
	"sync"
	"time"

	standardrules "github.com/attestantio/dirk/rules/standard"
)

// The request being served is written down before it is handed to the instance (last_request.txt in the output
// directory) and crossed out when it has been answered.  If the harness process dies, or a request is not answered
// within the limit, bin/check reports the written-down request as the failing input.
var watch struct {
	mu    sync.Mutex
	path  string
	text  string
	since time.Time
	limit time.Duration
	once  sync.Once
}

func watchInit(outDir string, limit time.Duration) {
	watch.mu.Lock()
	watch.path = outDir + "/last_request.txt"
	watch.limit = limit
	watch.mu.Unlock()
	_ = os.Remove(outDir + "/last_request.txt")
	watch.once.Do(func() {
		go func() {
			for {
				time.Sleep(time.Second)
				watch.mu.Lock()
				text, since, limit := watch.text, watch.since, watch.limit
				watch.mu.Unlock()
				if text != "" && time.Since(since) > limit {
					fmt.Fprintf(os.Stderr, "no answer within %v to: %s\n", limit, text)
					os.Exit(124)
				}
			}
		}()
	})
}

func noteRequest(format string, args ...any) {
	text := fmt.Sprintf(format, args...)
	watch.mu.Lock()
	defer watch.mu.Unlock()
	if watch.path == "" {
		return
	}
	watch.text, watch.since = text, time.Now()
	_ = os.WriteFile(watch.path, []byte(text), 0o644)
}

func requestDone() {
	watch.mu.Lock()
	defer watch.mu.Unlock()
	if watch.path == "" {
		return
	}
	watch.text = ""
	_ = os.Remove(watch.path)
}

// The rules service starts a goroutine that waits for its context to end (to close the store then) and so keeps the
// whole store reachable for as long as that context lives.  The daemon has one such service per process; the harness
// opens thousands, so each gets a context of its own that ends when the service is closed.
var rulesCancel sync.Map // *standardrules.Service -> context.CancelFunc

func newRules(ctx context.Context, params ...standardrules.Parameter) (*standardrules.Service, error) {
	cctx, cancel := context.WithCancel(ctx)
	svc, err := standardrules.New(cctx, params...)
	if err != nil {
		cancel()
		return nil, err
	}
	rulesCancel.Store(svc, cancel)
	return svc, nil
}

func closeRules(ctx context.Context, svc *standardrules.Service) error {
	if svc == nil {
		return nil
	}
	err := svc.Close(ctx)
	if c, ok := rulesCancel.LoadAndDelete(svc); ok {
		c.(context.CancelFunc)()
	}
	return err
}
