(* SSZ hash-tree-root of the three fixed containers Dirk signs, and the signing root
   (services/signer/standard: the spec containers filled by Go's copy, then SigningRoot{root, domain}). *)
From DV Require Export Model.Signer Model.Codec Base.Sha256.
Local Open Scope Z_scope.

Definition h2 (a b : bytes) : bytes := sha256 (a ++ b)%list.
Definition chunk_u64 (x : Z) : bytes := (le_bytes 8 x ++ repeat 0%N 24)%list.
(* Go: copy(dst[:], src) into a [32]byte - truncate or zero-pad *)
Definition fix32 (b : bytes) : bytes := firstn 32 (b ++ repeat 0%N 32)%list.
Definition zero32 : bytes := repeat 0%N 32.

(* a container of five fields: merkleized over eight leaves *)
Definition merkle5 (c0 c1 c2 c3 c4 : bytes) : bytes :=
  let z1 := h2 zero32 zero32 in
  h2 (h2 (h2 c0 c1) (h2 c2 c3)) (h2 (h2 c4 zero32) z1).

Definition checkpoint_root (epoch : Z) (root : bytes) : bytes := h2 (chunk_u64 epoch) (fix32 root).

Definition data_root (m : msg) : bytes :=
  match m with
  | MAtt slot idx bbr s sroot t troot _ =>
      merkle5 (chunk_u64 slot) (chunk_u64 idx) (fix32 bbr) (checkpoint_root s sroot) (checkpoint_root t troot)
  | MProp slot pidx parent state body _ =>
      merkle5 (chunk_u64 slot) (chunk_u64 pidx) (fix32 parent) (fix32 state) (fix32 body)
  | MGen data _ => data
  end.
Definition msg_domain (m : msg) : bytes :=
  match m with MAtt _ _ _ _ _ _ _ d => d | MProp _ _ _ _ _ d => d | MGen _ d => d end.

(* generateSigningRoot: both parts must be exactly 32 bytes *)
Definition signing_root (m : msg) : option bytes :=
  if len32 (data_root m) && len32 (msg_domain m) then Some (h2 (data_root m) (msg_domain m)) else None.
