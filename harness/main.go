package main

import (
	"fmt"
	"os"
)

func main() {
	if len(os.Args) < 2 {
		fmt.Fprintln(os.Stderr, "usage: vharness <command> [flags]")
		os.Exit(2)
	}
	os.Exit(dispatch(os.Args[1], os.Args[2:]))
}
