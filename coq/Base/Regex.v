(* Regular expressions with line anchors, matched by derivatives.  Characters are byte values
   (N); names in the model and in the generators are ASCII.  No proofs in this file. *)
From Coq Require Export NArith List Bool.
Export ListNotations.

Definition str := list N.
Definition isnil (s : str) : bool := match s with [] => true | _ => false end.

(* character sets of the modelled syntax: '.', a literal, a bracket class of ranges *)
Inductive cset :=
| CAny                                   (* .  (any character but newline) *)
| CLit (c : N)
| CClass (neg : bool) (rs : list (N * N)).

(* ASCII case swap: the only folding (?i) needs on ASCII text *)
Definition swapcase (c : N) : N :=
  if (65 <=? c)%N && (c <=? 90)%N then (c + 32)%N
  else if (97 <=? c)%N && (c <=? 122)%N then (c - 32)%N else c.
Definition in_range (r : N * N) (c : N) : bool := (fst r <=? c)%N && (c <=? snd r)%N.

(* ci = case-insensitive matching *)
Definition cset_match (ci : bool) (s : cset) (c : N) : bool :=
  match s with
  | CAny => negb (N.eqb c 10)
  | CLit x => N.eqb x c || (ci && N.eqb x (swapcase c))
  | CClass neg rs =>
      xorb neg (existsb (fun r => in_range r c || (ci && in_range r (swapcase c))) rs)
  end.

Inductive re :=
| Void | Eps
| Chr (s : cset)
| Cat (a b : re) | Alt (a b : re) | Star (a : re)
| Bol | Eol.                              (* ^ and $ (no multi-line flag: start / end of text) *)

Definition Plus (a : re) : re := Cat a (Star a).
Definition Opt (a : re) : re := Alt a Eps.

(* null s0 e r: r matches the empty string at a position that is (s0) the start / (e) the end of the text *)
Fixpoint null (s0 e : bool) (r : re) : bool :=
  match r with
  | Void => false | Eps => true | Chr _ => false
  | Cat a b => null s0 e a && null s0 e b
  | Alt a b => null s0 e a || null s0 e b
  | Star _ => true | Bol => s0 | Eol => e
  end.

Fixpoint deriv (ci : bool) (s0 : bool) (c : N) (r : re) : re :=
  match r with
  | Void | Eps | Bol | Eol => Void
  | Chr s => if cset_match ci s c then Eps else Void
  | Cat a b => Alt (Cat (deriv ci s0 c a) b) (if null s0 false a then deriv ci s0 c b else Void)
  | Alt a b => Alt (deriv ci s0 c a) (deriv ci s0 c b)
  | Star a => Cat (deriv ci s0 c a) (Star a)
  end.

(* full match of s, which starts at a position that is (s0) the start of the text and ends at its end *)
Fixpoint accept (ci : bool) (s0 : bool) (r : re) (s : str) : bool :=
  match s with [] => null s0 true r | c :: s' => accept ci false (deriv ci s0 c r) s' end.

(* regexp.MatchString: an unanchored search - a match may start anywhere and end anywhere *)
Definition anystar : re := Star (Chr (CClass true [])).
Fixpoint search_from (ci : bool) (s0 : bool) (r : re) (s : str) : bool :=
  accept ci s0 (Cat r anystar) s || match s with [] => false | _ :: s' => search_from ci false r s' end.
Definition search (ci : bool) (r : re) (s : str) : bool := search_from ci true r s.

(* ---- patterns as Dirk's configuration gives them: top-level alternatives ---- *)

Fixpoint alts (l : list re) : re :=
  match l with [] => Void | [a] => a | a :: r => Alt a (alts r) end.

(* the pattern text starts with '^' / ends with '$' *)
Fixpoint starts_bol (r : re) : bool :=
  match r with Bol => true | Cat a _ => starts_bol a | _ => false end.
Fixpoint ends_eol (r : re) : bool :=
  match r with Eol => true | Cat _ b => ends_eol b | _ => false end.

Fixpoint map_last {A} (f : A -> A) (l : list A) : list A :=
  match l with [] => [] | [a] => [f a] | a :: r => a :: map_last f r end.
Definition map_first {A} (f : A -> A) (l : list A) : list A :=
  match l with [] => [] | a :: r => f a :: r end.

(* legacy regexify: "^" is glued in front of the text and "$" behind it unless already there, so
   they bind to the first and to the last top-level alternative only *)
Definition anchor_legacy (top : list re) : re :=
  alts (map_last (fun a => if ends_eol a then a else Cat a Eol)
          (map_first (fun a => if starts_bol a then a else Cat Bol a) top)).
(* repaired regexify: ^(?:text)$ *)
Definition anchor_grouped (top : list re) : re := Cat Bol (Cat (alts top) Eol).
