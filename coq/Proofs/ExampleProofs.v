From DV Require Import Model.Instance Proofs.SignerProofs Proofs.InstanceProofs Proofs.Examples.
From Coq Require Import Lia.
Local Open Scope Z_scope.

Lemma ex_att_ok s t r : 0 <= s -> 0 <= t -> att_data_ok (ex_att s t r).
Proof. intros Hs Ht o H. cbn in H. injection H as <-. cbn. auto. Qed.
Lemma ex_prop_ok s r : 0 <= s -> prop_data_ok (ex_prop s r).
Proof. intros Hs o H. cbn in H. injection H as <-. cbn. auto. Qed.

Ltac ex_ok := repeat (constructor; cbn [op_ok snd];
  try (split; [exact I|]); try exact I;
  try (apply ex_att_ok; unfold two63; lia); try (apply ex_prop_ok; unfold two63; lia)).

Lemma ex_history_ok : Forall op_ok ex_history.
Proof. unfold ex_history. ex_ok. Qed.

Lemma C01_legacy_witness :
  exists h a b, Forall op_ok h /\
    released_att 1 (snd (run (ex_cfg false) empty_store h)) = [a; b] /\ slashable a b.
Proof.
  exists ex_legacy_att, (5, two63), (5, two63). split; [unfold ex_legacy_att; ex_ok|].
  split; [vm_compute; reflexivity|]. left. reflexivity.
Qed.

Lemma C02_legacy_witness :
  exists h a, Forall op_ok h /\
    released_prop 1 (snd (run (ex_cfg false) empty_store h)) = [a; a].
Proof.
  exists ex_legacy_prop, two63. split; [unfold ex_legacy_prop; ex_ok|].
  vm_compute; reflexivity.
Qed.

From DV Require Import Proofs.LiveProofs Model.Scatter.
Lemma ex_att_wf s t r : 0 <= s -> 0 <= t -> att_data_wf (ex_att s t r).
Proof. intros Hs Ht. eexists. split; [reflexivity|]. cbn. repeat split; auto. Qed.

Lemma C09_example_proof :
  Forall op_wf [OAttest ex_cl (by_key 1) (ex_att 0 1 1) no_ofault; OAttest ex_cl (by_key 1) (ex_att 1 2 1) no_ofault] /\
  cfg_wf (ex_cfg true) /\
  fst (fst (sign_att (ex_cfg true)
         (fst (run (ex_cfg true) empty_store
                [OAttest ex_cl (by_key 1) (ex_att 0 1 1) no_ofault; OAttest ex_cl (by_key 1) (ex_att 1 2 1) no_ofault]))
         ex_cl (by_name "Wallet 1/Account 0") (ex_att 2 3 1) no_ofault)) = CSucceeded /\
  extents 10 3 = [(0, 4); (4, 4); (8, 2)]%nat.
Proof.
  split; [|split; [|split]].
  - repeat constructor; apply ex_att_wf; lia.
  - intros a Ha. cbn in Ha. destruct Ha as [<-|[<-|[<-|[]]]]; reflexivity.
  - vm_compute. reflexivity.
  - vm_compute. reflexivity.
Qed.

Lemma ex_prop_wf s r : 0 <= s -> prop_data_wf (ex_prop s r).
Proof. intros Hs. eexists. split; [reflexivity|]. cbn. split; auto. Qed.

From DV Require Import Model.Interchange.
Lemma C11_example_proof :
  Forall op_wf [OAttest ex_cl (by_key 1) (ex_att 0 1 1) no_ofault; OPropose ex_cl (by_key 1) (ex_prop 7 1) no_ofault] /\
  export_view (fst (run (ex_cfg true) empty_store
     [OAttest ex_cl (by_key 1) (ex_att 0 1 1) no_ofault; OPropose ex_cl (by_key 1) (ex_prop 7 1) no_ofault])) 1
  = {| sp_slot := 7; sp_src := 0; sp_tgt := 1 |}.
Proof.
  split; [|vm_compute; reflexivity].
  constructor; [split; [reflexivity|apply ex_att_wf; lia]|].
  constructor; [split; [reflexivity|apply ex_prop_wf; lia]|constructor].
Qed.
