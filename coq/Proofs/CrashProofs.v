(* C03: with synchronous writes and write-before-sign, crashes at any point of any history leave
   the C01/C02 guarantees intact, and the durable store dominates everything released. *)
From DV Require Import Model.Crash Proofs.SignerProofs Proofs.InstanceProofs Proofs.GenericRun Proofs.Examples Proofs.ExampleProofs.
From Coq Require Import Lia.
Local Open Scope Z_scope.

Inductive sub {A} : list A -> list A -> Prop :=
| sub_nil : sub [] []
| sub_skip x l1 l2 : sub l1 l2 -> sub l1 (x :: l2)
| sub_take x l1 l2 : sub l1 l2 -> sub (x :: l1) (x :: l2).

Lemma sub_nil_l {A} (l : list A) : sub [] l.
Proof. induction l; [constructor|now apply sub_skip]. Qed.
Lemma sub_refl {A} (l : list A) : sub l l.
Proof. induction l; [constructor|now apply sub_take]. Qed.
Lemma sub_of_nil {A} (l : list A) : sub l [] -> l = [].
Proof. intros H; inversion H; auto. Qed.
Lemma sub_of_single {A} (l : list A) x : sub l [x] -> l = [] \/ l = [x].
Proof.
  intros H; inversion H; subst.
  - apply sub_of_nil in H2. auto.
  - apply sub_of_nil in H2. subst. auto.
Qed.
Lemma sub_app {A} (a1 a2 b1 b2 : list A) : sub a1 a2 -> sub b1 b2 -> sub (a1 ++ b1) (a2 ++ b2).
Proof. induction 1; intros Hb; cbn; [exact Hb|apply sub_skip; auto|apply sub_take; auto]. Qed.
Lemma sub_flat_map {A B} (f : A -> list B) l1 l2 : sub l1 l2 -> sub (flat_map f l1) (flat_map f l2).
Proof.
  induction 1; cbn; [constructor| |].
  - change (flat_map f l1) with ([] ++ flat_map f l1)%list. apply sub_app; [apply sub_nil_l|auto].
  - apply sub_app; [apply sub_refl|auto].
Qed.

Lemma mask_sigs_sub mask : forall rs, sub (mask_sigs mask rs) (sigs_of rs).
Proof.
  induction mask as [|m mask IH]; intros rs; [apply sub_nil_l|].
  destruct rs as [|x rs]; [constructor|]. cbn [mask_sigs]. rewrite sigs_of_cons.
  apply sub_app; [|apply IH]. destruct m; [apply sub_refl|apply sub_nil_l].
Qed.

Lemma att_rel_sub v v' A A' : att_rel v v' A -> sub A' A -> att_rel v v' A'.
Proof.
  intros [Hle HA] Hs. split; [exact Hle|]. destruct HA as [->|(s & t & -> & H)].
  - left. now apply sub_of_nil.
  - apply sub_of_single in Hs. destruct Hs as [->| ->]; [now left|right; eauto].
Qed.
Lemma prop_rel_sub v v' P P' : prop_rel v v' P -> sub P' P -> prop_rel v v' P'.
Proof.
  intros [Hle HA] Hs. split; [exact Hle|]. destruct HA as [->|(s & -> & H)].
  - left. now apply sub_of_nil.
  - apply sub_of_single in Hs. destruct Hs as [->| ->]; [now left|right; eauto].
Qed.

Definition safe_ccfg (cc : ccfg) : Prop := sync_writes cc = true /\ write_before_sign cc = true.

Lemma cstep_rel cc c st oc sg st' k :
  safe_ccfg cc -> guard63 (sc_rules c) = true -> op_ok (fst oc) -> cstep cc c st oc = (sg, st') ->
  att_rel (view_att st k) (view_att st' k) (flat_map (att_of k) sg) /\
  prop_rel (view_prop st k) (view_prop st' k) (flat_map (prop_of k) sg).
Proof.
  intros [Hs Hw] G Hok. destruct oc as [o ct]. cbn [fst] in Hok. unfold cstep.
  destruct (step c st o) as [rs st1] eqn:Es. rewrite Hs, Hw.
  pose proof (step_rel c st o rs st1 k G Hok Es) as [HA HP].
  destruct ct as [| |mask|]; intros H; injection H as <- <-; auto.
  - cbn. split; [apply att_rel_same|apply prop_rel_same].
  - split.
    + eapply att_rel_sub; [exact HA|]. apply sub_flat_map, mask_sigs_sub.
    + eapply prop_rel_sub; [exact HP|]. apply sub_flat_map, mask_sigs_sub.
Qed.

(* crun is grun of cstep *)
Lemma crun_grun cc c h : forall st, crun cc c st h = grun _ (cstep cc c) st h.
Proof. induction h as [|x h IH]; intros st; cbn; auto. destruct (cstep cc c st x) as [sg st1]. now rewrite IH. Qed.

Lemma C03_main :
  forall (cc : ccfg) (c : scfg) (st0 : store) (h : list (op * cut)) (k : N),
    safe_ccfg cc -> guard63 (sc_rules c) = true -> Forall (fun oc => op_ok (fst oc)) h ->
    let R := creleased_att k (snd (crun cc c st0 h)) in
    let P := creleased_prop k (snd (crun cc c st0 h)) in
    let stf := fst (crun cc c st0 h) in
    att_sorted R /\
    (forall i j a b, i <> j -> nth_error R i = Some a -> nth_error R j = Some b -> ~ slashable a b) /\
    (forall a, In a R -> fst a <= a_src (view_att stf k) /\ snd a <= a_tgt (view_att stf k)) /\
    slot_sorted P /\
    (forall i j a b, i <> j -> nth_error P i = Some a -> nth_error P j = Some b -> a <> b) /\
    (forall a, In a P -> a <= view_prop stf k).
Proof.
  intros cc c st0 h k Hcc G HF. rewrite crun_grun.
  pose proof (grun_att_inv _ (cstep cc c) (fun oc => op_ok (fst oc))
               (fun st x sg st' k Hok Hs => cstep_rel cc c st x sg st' k Hcc G Hok Hs) h HF st0 k) as (As & Ad & _).
  pose proof (grun_prop_inv _ (cstep cc c) (fun oc => op_ok (fst oc))
               (fun st x sg st' k Hok Hs => cstep_rel cc c st x sg st' k Hcc G Hok Hs) h HF st0 k) as (Ps & Pd & _).
  unfold creleased_att, creleased_prop.
  split; [exact As|]. split; [|split; [|split; [exact Ps|split]]].
  - intros i j a b Hij Ha Hb [H|[H|H]];
      (destruct (Nat.lt_total i j) as [L|[L|L]]; [| contradiction |];
       [pose proof (att_sorted_nth _ As i j a b L Ha Hb)|pose proof (att_sorted_nth _ As j i b a L Hb Ha)]; lia).
  - intros a Ha. destruct (Ad a Ha) as (_ & _ & _ & _ & H5 & H6). auto.
  - intros i j a b Hij Ha Hb H.
    destruct (Nat.lt_total i j) as [L|[L|L]]; [| contradiction |];
      [pose proof (slot_sorted_nth _ Ps i j a b L Ha Hb)|pose proof (slot_sorted_nth _ Ps j i b a L Hb Ha)]; lia.
  - intros a Ha. destruct (Pd a Ha) as (_ & _ & H). auto.
Qed.

(* ---- what goes wrong without the two mechanisms ---- *)

Definition unsafe_nosync : ccfg := {| sync_writes := false; write_before_sign := true |}.
Definition unsafe_signfirst : ccfg := {| sync_writes := true; write_before_sign := false |}.
Definition dbl (c1 c2 : cut) : list (op * cut) :=
  [(OAttest ex_cl (by_key 1) (ex_att 0 1 1) no_ofault, c1); (OAttest ex_cl (by_key 1) (ex_att 0 1 2) no_ofault, c2)].

Lemma C03_nosync_witness :
  Forall (fun oc => op_ok (fst oc)) (dbl CKillLate CDone) /\
  creleased_att 1 (snd (crun unsafe_nosync (ex_cfg true) empty_store (dbl CKillLate CDone))) = [(0, 1); (0, 1)].
Proof.
  split; [|vm_compute; reflexivity]. unfold dbl.
  constructor; [cbn; split; [exact I|apply ex_att_ok; lia]|constructor; [cbn; split; [exact I|apply ex_att_ok; lia]|constructor]].
Qed.

Lemma C03_signfirst_witness :
  creleased_att 1 (snd (crun unsafe_signfirst (ex_cfg true) empty_store (dbl CKillBefore CDone))) = [(0, 1); (0, 1)].
Proof. vm_compute; reflexivity. Qed.

(* and with both mechanisms the same two histories release the vote once *)
Lemma C03_safe_example :
  let cc := {| sync_writes := true; write_before_sign := true |} in
  safe_ccfg cc /\
  creleased_att 1 (snd (crun cc (ex_cfg true) empty_store (dbl CKillLate CDone))) = [(0, 1)] /\
  creleased_att 1 (snd (crun cc (ex_cfg true) empty_store (dbl CKillBefore CDone))) = [(0, 1)] /\
  creleased_att 1 (snd (crun cc (ex_cfg true) empty_store (dbl (CKillAfter [false]) CDone))) = [].
Proof. split; [split; reflexivity|]. vm_compute. repeat split; reflexivity. Qed.
