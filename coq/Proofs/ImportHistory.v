(* C10 over histories: signing requests and imports interleaved. *)
From DV Require Import Model.InstanceI Proofs.AssocFacts Proofs.RulesProofs Proofs.RulerProofs Proofs.SignerProofs
  Proofs.InstanceProofs Proofs.InterchangeProofs.
From Coq Require Import Lia.
Local Open Scope Z_scope.

Definition iop_ok (io : iop) : Prop := match io with IOp o => op_ok o | IImport _ => True end.
Definition icfg_fixed (ic : icfg) : Prop := merge_fieldwise ic = true /\ reject_negative ic = true.

Lemma istep_mono c ic st io rs st' k :
  guard63 (sc_rules c) = true -> icfg_fixed ic -> iop_ok io -> istep c ic st io = (rs, st') ->
  sp_ge (export_view st' k) (export_view st k).
Proof.
  intros G [Hm Hr] Hok. destruct io as [o|f]; cbn [istep iop_ok] in *.
  - intros Hs. destruct (step_rel c st o rs st' k G Hok Hs) as [[[A1 A2] _] [P1 _]].
    unfold sp_ge, export_view; cbn. lia.
  - destruct (import_cmd ic st f) as [st1|] eqn:Ei; intros H; injection H as <- <-.
    + now destruct (import_ok_spec ic st f st1 Hm Hr Ei) as [H _].
    + apply sp_ge_refl.
Qed.

Lemma irun_cons c ic st o h :
  irun c ic st (o :: h) = let '(rs, st') := istep c ic st o in let '(stf, out) := irun c ic st' h in (stf, rs :: out).
Proof. reflexivity. Qed.

Lemma irun_mono c ic h : guard63 (sc_rules c) = true -> icfg_fixed ic -> Forall iop_ok h -> forall st k,
  sp_ge (export_view (fst (irun c ic st h)) k) (export_view st k).
Proof.
  intros G Hic. induction h as [|io h IH]; intros HF st k; [apply sp_ge_refl|].
  inversion HF as [|? ? Hok HF']; subst. rewrite irun_cons.
  destruct (istep c ic st io) as [rs st1] eqn:Es. specialize (IH HF' st1 k).
  destruct (irun c ic st1 h) as [stf out]. cbn [fst] in *.
  eapply sp_ge_trans; [exact IH|]. eapply istep_mono; eauto.
Qed.

Lemma irun_app c ic h1 : forall st h2,
  fst (irun c ic st (h1 ++ h2)) = fst (irun c ic (fst (irun c ic st h1)) h2).
Proof.
  induction h1 as [|io h1 IH]; intros st h2; [reflexivity|].
  cbn [app]. rewrite !irun_cons. destruct (istep c ic st io) as [rs st1].
  specialize (IH st1 h2). destruct (irun c ic st1 (h1 ++ h2)) as [s1 o1]. destruct (irun c ic st1 h1) as [s2 o2].
  cbn [fst] in *. exact IH.
Qed.

(* every value of a successfully imported file, and every attestation / proposal released at
   any point of the history, is dominated by the final record of its key *)
Lemma C10_history_main :
  forall (c : scfg) (ic : icfg) (st0 : store) (h1 h2 : list iop) (io : iop) (k : N),
    guard63 (sc_rules c) = true -> icfg_fixed ic -> Forall iop_ok (h1 ++ io :: h2) ->
    let st1 := fst (irun c ic st0 h1) in
    let stf := fst (irun c ic st0 (h1 ++ io :: h2)) in
    sp_ge (export_view stf k) (export_view st0 k) /\
    match io with
    | IImport f =>
        forall st2, import_cmd ic st1 f = IOk st2 ->
        forall e, In e (if_data f) -> fe_key e = Some k -> entry_le ic e (export_view stf k)
    | IOp o =>
        (forall s t, In (s, t) (flat_map (att_of k) (sigs_of (fst (step c st1 o)))) ->
                     s <= sp_src (export_view stf k) /\ t <= sp_tgt (export_view stf k)) /\
        (forall z, In z (flat_map (prop_of k) (sigs_of (fst (step c st1 o)))) -> z <= sp_slot (export_view stf k))
    end.
Proof.
  intros c ic st0 h1 h2 io k G Hic HF st1 stf.
  split; [apply irun_mono; auto|].
  assert (HF2 : Forall iop_ok h2 /\ iop_ok io).
  { apply Forall_app in HF. destruct HF as [_ HF]. inversion HF; subst. auto. }
  destruct HF2 as [HF2 Hok].
  assert (Hstf : stf = fst (irun c ic (snd (istep c ic st1 io)) h2)).
  { unfold stf. rewrite irun_app. fold st1. rewrite irun_cons.
    destruct (istep c ic st1 io) as [rs st2]. cbn [snd]. destruct (irun c ic st2 h2); reflexivity. }
  pose proof (irun_mono c ic h2 G Hic HF2 (snd (istep c ic st1 io)) k) as Hmono. rewrite <- Hstf in Hmono.
  destruct io as [o|f]; cbn [istep] in *.
  - destruct (step c st1 o) as [rs st2] eqn:Es. cbn [fst snd] in *.
    destruct (step_rel c st1 o rs st2 k G Hok Es) as [[_ HA] [_ HP]].
    unfold sp_ge, export_view in Hmono; cbn in Hmono. split.
    + intros s t Hin. destruct HA as [HA|(s' & t' & HA & Hv & _)]; [rewrite HA in Hin; contradiction|].
      rewrite HA in Hin. destruct Hin as [E|[]]. injection E as <- <-. rewrite Hv in Hmono. cbn in *. lia.
    + intros z Hin. destruct HP as [HP|(s' & HP & Hv & _)]; [rewrite HP in Hin; contradiction|].
      rewrite HP in Hin. destruct Hin as [<-|[]]. rewrite Hv in Hmono. cbn in *. lia.
  - intros st2 Hi e Hin Hk. rewrite Hi in Hmono. cbn [snd] in Hmono. destruct Hic as [Hm Hr].
    destruct (import_ok_spec ic st1 f st2 Hm Hr Hi) as (_ & He & _).
    destruct (He e k Hin Hk) as [Ha Hb]. unfold sp_ge in Hmono. split.
    + intros a b Hab. destruct (Ha a b Hab) as (? & ? & ? & ?). repeat split; auto; lia.
    + intros z Hz. destruct (Hb z Hz). split; auto; lia.
Qed.
