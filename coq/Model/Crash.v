(* Crash-aware semantics of one instance.  A request is executed as the code does it: read the
   protection records, decide, WRITE (one durable commit), then sign the approved positions (in
   parallel for a batch), then reply.  The process may be killed at any of these points; what
   survives is the durable store.  A signature counts as released as soon as Sign has run. *)
From DV Require Export Model.Instance.

Record ccfg := {
  sync_writes : bool;          (* badger SyncWrites: a write that returned is on disk *)
  write_before_sign : bool }.  (* the store call returns before any Sign of the request runs *)

Inductive cut :=
| CDone                         (* the request completes; the process lives on *)
| CKillBefore                   (* killed before this request's protection write returned
                                   (during validation, pre-checks, reads, the decision, or the write itself) *)
| CKillAfter (mask : list bool) (* killed after the write returned; mask(i) = Sign of position i had run *)
| CKillLate.                    (* killed, or power lost, after the reply *)

(* signatures of the positions selected by the mask *)
Fixpoint mask_sigs (mask : list bool) (rs : resp) : list sigd :=
  match mask, rs with
  | m :: mask', x :: rs' => (if m then match snd x with Some s => [s] | None => [] end else []) ++ mask_sigs mask' rs'
  | _, _ => []
  end.

(* one request with its fate: released signatures and the DURABLE store afterwards
   (after a kill the instance is restarted on that store) *)
Definition cstep (cc : ccfg) (c : scfg) (st : store) (oc : op * cut) : list sigd * store :=
  let '(o, ct) := oc in
  let '(rs, st') := step c st o in
  match ct with
  | CDone => (sigs_of rs, st')
  | CKillBefore => if write_before_sign cc then ([], st) else (sigs_of rs, st)
  | CKillAfter mask => (mask_sigs mask rs, if sync_writes cc then st' else st)
  | CKillLate => (sigs_of rs, if sync_writes cc then st' else st)
  end.

Fixpoint crun (cc : ccfg) (c : scfg) (st : store) (h : list (op * cut)) : store * list (list sigd) :=
  match h with
  | [] => (st, [])
  | oc :: r => let '(sg, st') := cstep cc c st oc in
               let '(stf, out) := crun cc c st' r in (stf, sg :: out)
  end.

Definition creleased_att (k : N) (out : list (list sigd)) : list (Z * Z) := flat_map (att_of k) (List.concat out).
Definition creleased_prop (k : N) (out : list (list sigd)) : list Z := flat_map (prop_of k) (List.concat out).
