(* C08 - every signature is valid for exactly the requested data and account. *)
From DV Require Import Model.Instance Model.Ssz Model.Scatter Proofs.SignerProofs Proofs.SigProofs Proofs.ScatterProofs.
Local Open Scope Z_scope.

(* A released signature is a record (sg_key, sg_msg); the bytes on the wire are
   wire_sig s = sign (sg_key s) (signing_root (sg_msg s)), where signing_root is COMPUTED by the
   model (Ssz.v over Sha256.v: hash-tree-root of the attestation data / block header filled by Go's
   copy, or the supplied root, combined with the supplied domain).  sign / verify are abstract. *)

(* (a) Single-request endpoints: a returned signature is by the account the address resolves to
   (pre-check passed for it) over exactly the submitted fields, and its signing root exists. *)
Theorem C08_single_requests :
  (forall c st cl a d f y sg st', sign_att c st cl a d f = ((y, Some sg), st') ->
     exists ac o, pre_check c cl a AAtt (pos_fault f 0) = PreOk ac /\ att_fields d = Some o /\
       sg = {| sg_key := ac_key ac; sg_msg := att_msg o |} /\ signing_root (sg_msg sg) <> None) /\
  (forall c st cl a d f y sg st', sign_prop c st cl a d f = ((y, Some sg), st') ->
     exists ac o, pre_check c cl a AProp (pos_fault f 0) = PreOk ac /\ prop_fields d = Some o /\
       sg = {| sg_key := ac_key ac; sg_msg := prop_msg o |} /\ signing_root (sg_msg sg) <> None) /\
  (forall c cl a d f y sg, sign_gen c cl a d f = (y, Some sg) ->
     exists ac data dom, pre_check c cl a ASign (pos_fault f 0) = PreOk ac /\ sign_fields d = Some (data, dom) /\
       sg = {| sg_key := ac_key ac; sg_msg := MGen data dom |} /\ signing_root (sg_msg sg) <> None).
Proof. split; [exact sign_att_sig|split; [exact sign_prop_sig|exact sign_gen_sig]]. Qed.
Print Assumptions C08_single_requests.

(* (b) Multi-request endpoints, for every batch length and every fault schedule: there is exactly one
   entry per request, and the signature at position i is by the account request i resolves to over
   exactly request i's fields. *)
Theorem C08_batches_aligned :
  (forall c st cl reqs f, reqs <> [] -> List.length (fst (sign_atts c st cl reqs f)) = List.length reqs) /\
  (forall c cl reqs f, reqs <> [] -> List.length (multisign c cl reqs f) = List.length reqs) /\
  (forall c st cl reqs f i y sg, nth_error (fst (sign_atts c st cl reqs f)) i = Some (y, Some sg) ->
     exists rq ac o, nth_error reqs i = Some rq /\ pre_check c cl (fst rq) AAtt (pos_fault f i) = PreOk ac /\
       att_fields (snd rq) = Some o /\ sg = {| sg_key := ac_key ac; sg_msg := att_msg o |} /\
       signing_root (sg_msg sg) <> None) /\
  (forall c cl reqs f i y sg, nth_error (multisign c cl reqs f) i = Some (y, Some sg) ->
     exists rq ac data dom, nth_error reqs i = Some rq /\ pre_check c cl (fst rq) ASign (pos_fault f i) = PreOk ac /\
       sign_fields (snd rq) = Some (data, dom) /\ sg = {| sg_key := ac_key ac; sg_msg := MGen data dom |} /\
       signing_root (sg_msg sg) <> None).
Proof.
  split; [exact sign_atts_length|]. split; [exact multisign_length|].
  split; [exact sign_atts_position|exact multisign_position].
Qed.
Print Assumptions C08_batches_aligned.

(* (c) For any signature scheme whose verification accepts what signing produces, the bytes of a
   released signature verify under the signing key over the computed signing root. *)
Theorem C08_signature_verifies :
  forall (sigT : Type) (sign : N -> bytes -> sigT) (verify : N -> bytes -> sigT -> bool),
    (forall k m, verify k m (sign k m) = true) ->
    forall s, signing_root (sg_msg s) <> None ->
    exists root sig, signing_root (sg_msg s) = Some root /\ wire_sig sigT sign s = Some sig /\ verify (sg_key s) root sig = true.
Proof. exact wire_sig_verifies. Qed.
Print Assumptions C08_signature_verifies.

(* (d) The position-wise fill of the index-aligned slices by scatter workers visits every index of
   [0, n) exactly once, for every n and every degree of parallelism p. *)
Theorem C08_scatter_fills_every_index :
  forall (A : Type) n p (f : nat -> A), scatter_map n p f = map f (seq 0 n).
Proof. intros. apply scatter_map_spec. Qed.
