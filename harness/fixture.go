package main

import (
	"bytes"
	"context"
	"crypto/sha256"
	"encoding/binary"
	"encoding/gob"
	"errors"
	"fmt"
	zerologger "github.com/rs/zerolog/log"
	"io"
	"os"
	"sort"
	"strings"
	"sync"
	"sync/atomic"

	"github.com/attestantio/dirk/rules"
	standardrules "github.com/attestantio/dirk/rules/standard"
	signerhandler "github.com/attestantio/dirk/services/api/grpc/handlers/signer"
	"github.com/attestantio/dirk/services/api/grpc/interceptors"
	"github.com/attestantio/dirk/services/checker"
	staticchecker "github.com/attestantio/dirk/services/checker/static"
	"github.com/attestantio/dirk/services/fetcher"
	memfetcher "github.com/attestantio/dirk/services/fetcher/mem"
	"github.com/attestantio/dirk/services/locker"
	syncmaplocker "github.com/attestantio/dirk/services/locker/syncmap"
	"github.com/attestantio/dirk/services/ruler"
	goruler "github.com/attestantio/dirk/services/ruler/golang"
	standardsigner "github.com/attestantio/dirk/services/signer/standard"
	"github.com/attestantio/dirk/services/unlocker"
	localunlocker "github.com/attestantio/dirk/services/unlocker/local"
	"github.com/attestantio/dirk/testing/daemon"
	"github.com/attestantio/dirk/util/verifhook"
	"github.com/rs/zerolog"
	e2types "github.com/wealdtech/go-eth2-types/v2"
	keystorev4 "github.com/wealdtech/go-eth2-wallet-encryptor-keystorev4"
	nd "github.com/wealdtech/go-eth2-wallet-nd/v2"
	scratch "github.com/wealdtech/go-eth2-wallet-store-scratch"
	e2wtypes "github.com/wealdtech/go-eth2-wallet-types/v2"
)

// AcctInfo describes one account of the fixture.
type AcctInfo struct {
	Wallet, Name string
	Key          []byte // 48-byte public key
	ID           int    // the number the model uses for the key
	Usable       bool   // a configured passphrase opens it
	Signer       bool
}

func (a *AcctInfo) Path() string { return a.Wallet + "/" + a.Name }

// Fixture holds the wallets (expensive to create) shared by all instances of a run.
type Fixture struct {
	Stores   []e2wtypes.Store // one scratch store per wallet (the scratch store is not safe for concurrent writers)
	Accounts []*AcctInfo
	Fetcher  fetcher.Service // shared in-memory fetcher (accounts stay unlocked across instances)
}

var blsOnce sync.Once

func initBLS() {
	blsOnce.Do(func() {
		if err := e2types.InitBLS(); err != nil {
			panic(err)
		}
		zerolog.SetGlobalLevel(zerolog.Disabled)
	})
}

// NewFixture creates nWallets wallets with perWallet accounts each (interop keys), plus,
// when withLocked, an account "Locked" in the last wallet whose passphrase is not configured.
func NewFixture(ctx context.Context, nWallets, perWallet int, withLocked bool, extraNames ...string) (*Fixture, error) {
	initBLS()
	enc := keystorev4.New()
	fx := &Fixture{}
	keys := append(append([][]byte{}, daemon.Wallet1Keys...), daemon.Wallet2Keys...)
	for i := len(keys); i < nWallets*perWallet+2+len(extraNames); i++ {
		h := sha256.Sum256([]byte(fmt.Sprintf("verif key %d", i)))
		h[0] = 0 // below the group order
		keys = append(keys, h[:])
	}
	type job struct {
		w    e2wtypes.Wallet
		name string
		key  []byte
		pass string
		info *AcctInfo
	}
	var jobs, extraJobs, dupJobs []job
	id := 1
	for w := 0; w < nWallets; w++ {
		wname := fmt.Sprintf("Wallet %d", w+1)
		store := scratch.New()
		fx.Stores = append(fx.Stores, store)
		wallet, err := nd.CreateWallet(ctx, wname, store, enc)
		if err != nil {
			return nil, err
		}
		if err := wallet.(e2wtypes.WalletLocker).Unlock(ctx, nil); err != nil {
			return nil, err
		}
		for a := 0; a < perWallet; a++ {
			info := &AcctInfo{Wallet: wname, Name: fmt.Sprintf("Account %d", a), ID: id, Usable: true, Signer: true}
			jobs = append(jobs, job{wallet, info.Name, keys[(id-1)%len(keys)], "pass", info})
			fx.Accounts = append(fx.Accounts, info)
			id++
		}
		if w == nWallets-1 {
			// "=name": an account of the last wallet holding the same key as the very first account
			for _, name := range extraNames {
				if strings.HasPrefix(name, "=") {
					info := &AcctInfo{Wallet: wname, Name: name[1:], ID: 1, Usable: true, Signer: true}
					dupJobs = append(dupJobs, job{wallet, name[1:], keys[0], "pass", info})
				}
			}
		}
		if w == 0 {
			// further accounts of the first wallet, whose names differ from a regular account's only by blanks
			for _, name := range extraNames {
				if strings.HasPrefix(name, "=") {
					continue
				}
				info := &AcctInfo{Wallet: wname, Name: name, ID: 0, Usable: true, Signer: true}
				extraJobs = append(extraJobs, job{wallet, name, nil, "pass", info})
			}
		}
		if withLocked && w == nWallets-1 {
			info := &AcctInfo{Wallet: wname, Name: "Locked", ID: id, Usable: false, Signer: true}
			jobs = append(jobs, job{wallet, info.Name, keys[(id-1)%len(keys)], "not configured", info})
			fx.Accounts = append(fx.Accounts, info)
			id++
		}
	}
	for _, j := range extraJobs {
		j.info.ID = id
		j.key = keys[(id-1)%len(keys)]
		jobs = append(jobs, j)
		fx.Accounts = append(fx.Accounts, j.info)
		id++
	}
	for _, j := range dupJobs {
		jobs = append(jobs, j)
		fx.Accounts = append(fx.Accounts, j.info)
	}
	// keystore encryption is slow (tens of ms per account): import sequentially per wallet is
	// required by the wallet's index, so only parallelise across wallets.
	var wg sync.WaitGroup
	errs := make(chan error, len(jobs))
	byWallet := map[string][]job{}
	for _, j := range jobs {
		byWallet[j.w.Name()] = append(byWallet[j.w.Name()], j)
	}
	for _, js := range byWallet {
		wg.Add(1)
		go func(js []job) {
			defer wg.Done()
			for _, j := range js {
				acc, err := j.w.(e2wtypes.WalletAccountImporter).ImportAccount(ctx, j.name, j.key, []byte(j.pass))
				if err != nil {
					errs <- err
					return
				}
				j.info.Key = acc.PublicKey().Marshal()
			}
		}(js)
	}
	wg.Wait()
	close(errs)
	for err := range errs {
		return nil, err
	}
	memf, err := memfetcher.New(ctx, memfetcher.WithStores(fx.Stores), memfetcher.WithEncryptor(keystorev4.New()))
	if err != nil {
		return nil, err
	}
	fx.Fetcher = memf
	return fx, nil
}

func (fx *Fixture) ByID(id int) *AcctInfo {
	for _, a := range fx.Accounts {
		if a.ID == id {
			return a
		}
	}
	return nil
}

func (fx *Fixture) ByPath(p string) *AcctInfo {
	for _, a := range fx.Accounts {
		if a.Path() == p {
			return a
		}
	}
	return nil
}

func (fx *Fixture) ByKey(k []byte) *AcctInfo {
	for _, a := range fx.Accounts {
		if bytes.Equal(a.Key, k) {
			return a
		}
	}
	return nil
}

// ---- fault plan ----

type SFault struct {
	Resolve   bool
	Perm      bool
	Unlock    int // 0 real, 1 IsUnlocked error, 2 unlocker error, 3 locked and nothing opens it
	Sign      bool
	NotSigner bool
}

func (f SFault) any() bool { return f.Resolve || f.Perm || f.Unlock != 0 || f.Sign || f.NotSigner }

// Plan is the fault schedule of the operation in progress.
type Plan struct {
	ByAcct     map[int]SFault // by account id (resolved account)
	Ruler      []rules.Result // non-nil: the ruler's answer
	FetchFail  map[int]bool   // n-th Fetch of the operation fails
	StoreFail  bool
	fetchCount atomic.Int64
}

// Event is one hook / locker / signer event observed during an operation.
type Event struct {
	Site string
	Keys []int // model key ids
}

// Instance is one in-process Dirk: real rules store, ruler, locker, checker, fetcher, unlocker, signer.
type Instance struct {
	fx         *Fixture
	Dir        string
	Verbose    bool
	AdminIPs   []string
	Perms      map[string][]*checker.Permissions
	Rules      *standardrules.Service
	RealRuler  ruler.Service // the real ruler (not the fault wrapper the signer uses)
	Signer     *standardsigner.Service
	Handler    *signerhandler.Handler
	Locker     locker.Service
	plan       atomic.Pointer[Plan]
	evMu       sync.Mutex
	events     []Event
	record     bool
	signHook   func(acct *AcctInfo) // called when an account's Sign is invoked
	signedHook func(acct *AcctInfo) // called after an account's Sign returned a signature
}

type InstanceOpts struct {
	AdminIPs []string
	Perms    map[string][]*checker.Permissions
	Locker   locker.Service // nil = real syncmap locker
	Dir      string         // "" = fresh temp dir
	Verbose  bool           // services log at trace level (into a discarding writer): the diagnostic code paths run
}

func NewInstance(ctx context.Context, fx *Fixture, o InstanceOpts) (*Instance, error) {
	inst := &Instance{fx: fx, AdminIPs: o.AdminIPs, Perms: o.Perms, Dir: o.Dir, Verbose: o.Verbose}
	if inst.Dir == "" {
		d, err := os.MkdirTemp("", "vh-rules-")
		if err != nil {
			return nil, err
		}
		inst.Dir = d
	}
	if o.Locker != nil {
		inst.Locker = o.Locker
	} else {
		l, err := syncmaplocker.New(ctx)
		if err != nil {
			return nil, err
		}
		inst.Locker = l
	}
	if err := inst.open(ctx); err != nil {
		return nil, err
	}
	setHook(inst)
	return inst, nil
}

// setHook makes inst the receiver of hook events (one instance at a time drives the hooks).
func setHook(inst *Instance) { verifhook.Set(inst.hook) }

func (inst *Instance) open(ctx context.Context) error {
	level := zerolog.Disabled
	if inst.Verbose {
		level = zerolog.TraceLevel
		zerologger.Logger = zerolog.New(io.Discard)
		zerolog.SetGlobalLevel(zerolog.TraceLevel)
	}
	rulesSvc, err := newRules(ctx,
		standardrules.WithLogLevel(level),
		standardrules.WithStoragePath(inst.Dir),
		standardrules.WithAdminIPs(inst.AdminIPs),
	)
	if err != nil {
		return err
	}
	inst.Rules = rulesSvc
	realRuler, err := goruler.New(ctx, goruler.WithLogLevel(level), goruler.WithLocker(inst.Locker), goruler.WithRules(rulesSvc))
	if err != nil {
		return err
	}
	inst.RealRuler = realRuler
	checkerSvc, err := staticchecker.New(ctx, staticchecker.WithPermissions(inst.Perms))
	if err != nil {
		return err
	}
	memf := inst.fx.Fetcher
	unl, err := localunlocker.New(ctx, localunlocker.WithAccountPassphrases([]string{"pass"}), localunlocker.WithWalletPassphrases([]string{"pass"}))
	if err != nil {
		return err
	}
	signerSvc, err := standardsigner.New(ctx,
		standardsigner.WithLogLevel(level),
		standardsigner.WithUnlocker(&faultUnlocker{inst: inst, real: unl}),
		standardsigner.WithChecker(&faultChecker{inst: inst, real: checkerSvc}),
		standardsigner.WithFetcher(&faultFetcher{inst: inst, real: memf}),
		standardsigner.WithRuler(&faultRuler{inst: inst, real: realRuler}),
	)
	if err != nil {
		return err
	}
	inst.Signer = signerSvc
	h, err := signerhandler.New(ctx, signerhandler.WithSigner(signerSvc))
	if err != nil {
		return err
	}
	inst.Handler = h
	return nil
}

// Restart closes the protection store and opens a new set of services on the same directory.
func (inst *Instance) Restart(ctx context.Context) error {
	if err := closeRules(ctx, inst.Rules); err != nil {
		return err
	}
	return inst.open(ctx)
}

func (inst *Instance) Close(ctx context.Context) {
	if inst.Verbose {
		zerolog.SetGlobalLevel(zerolog.Disabled)
	}
	verifhook.Set(nil)
	_ = closeRules(ctx, inst.Rules)
	_ = os.RemoveAll(inst.Dir)
}

func (inst *Instance) SetPlan(p *Plan) { inst.plan.Store(p) }

func (inst *Instance) getPlan() *Plan {
	p := inst.plan.Load()
	if p == nil {
		return &Plan{}
	}
	return p
}

func (inst *Instance) StartRecording() {
	inst.evMu.Lock()
	inst.events = nil
	inst.record = true
	inst.evMu.Unlock()
}

func (inst *Instance) StopRecording() []Event {
	inst.evMu.Lock()
	defer inst.evMu.Unlock()
	inst.record = false
	ev := inst.events
	inst.events = nil
	return ev
}

func (inst *Instance) addEvent(site string, keys []int) {
	inst.evMu.Lock()
	if inst.record {
		inst.events = append(inst.events, Event{Site: site, Keys: keys})
	}
	inst.evMu.Unlock()
}

func (inst *Instance) keyIDs(keys [][]byte) []int {
	out := make([]int, 0, len(keys))
	for _, k := range keys {
		id := 0
		if len(k) >= 48 {
			if a := inst.fx.ByKey(k[:48]); a != nil {
				id = a.ID
			}
		}
		out = append(out, id)
	}
	return out
}

// hook is the verifhook handler: records events and injects store faults.
func (inst *Instance) hook(_ context.Context, site string, keys [][]byte) error {
	inst.addEvent(site, inst.keyIDs(keys))
	p := inst.getPlan()
	switch site {
	case "fetch.pre":
		n := int(p.fetchCount.Add(1)) - 1
		if p.FetchFail[n] {
			return errors.New("injected fetch failure")
		}
	case "store.pre", "batch.pre":
		if p.StoreFail {
			return errors.New("injected store failure")
		}
	}
	return nil
}

// ---- wrappers ----

type faultRuler struct {
	inst *Instance
	real ruler.Service
}

func (r *faultRuler) RunRules(ctx context.Context, c *checker.Credentials, action string, data []*ruler.RulesData) []rules.Result {
	if p := r.inst.getPlan(); p.Ruler != nil {
		return append([]rules.Result{}, p.Ruler...)
	}
	return r.real.RunRules(ctx, c, action, data)
}

type faultChecker struct {
	inst *Instance
	real checker.Service
}

func (c *faultChecker) Check(ctx context.Context, cr *checker.Credentials, account string, op string) bool {
	if a := c.inst.fx.ByPath(account); a != nil {
		if c.inst.getPlan().ByAcct[a.ID].Perm {
			return false
		}
	}
	return c.real.Check(ctx, cr, account, op)
}

type faultFetcher struct {
	inst *Instance
	real fetcher.Service
}

func (f *faultFetcher) wrap(w e2wtypes.Wallet, a e2wtypes.Account, err error) (e2wtypes.Wallet, e2wtypes.Account, error) {
	if err != nil {
		return w, a, err
	}
	info := f.inst.fx.ByKey(a.PublicKey().Marshal())
	if info == nil {
		return w, a, nil
	}
	sf := f.inst.getPlan().ByAcct[info.ID]
	if sf.Resolve {
		return nil, nil, errors.New("injected fetch failure")
	}
	base := &faultAccount{Account: a, inst: f.inst, info: info, sf: sf}
	if sf.NotSigner {
		return w, &faultAccountNoSign{base}, nil
	}
	return w, &faultAccountSigner{base}, nil
}

func (f *faultFetcher) FetchWallet(ctx context.Context, path string) (e2wtypes.Wallet, error) {
	return f.real.FetchWallet(ctx, path)
}
func (f *faultFetcher) FetchAccount(ctx context.Context, path string) (e2wtypes.Wallet, e2wtypes.Account, error) {
	w, a, err := f.real.FetchAccount(ctx, path)
	return f.wrap(w, a, err)
}
func (f *faultFetcher) FetchAccountByKey(ctx context.Context, pubKey []byte) (e2wtypes.Wallet, e2wtypes.Account, error) {
	w, a, err := f.real.FetchAccountByKey(ctx, pubKey)
	return f.wrap(w, a, err)
}
func (f *faultFetcher) FetchAccounts(ctx context.Context, path string) (map[string]e2wtypes.Account, error) {
	return f.real.FetchAccounts(ctx, path)
}
func (f *faultFetcher) AddAccount(ctx context.Context, w e2wtypes.Wallet, a e2wtypes.Account) error {
	return f.real.AddAccount(ctx, w, a)
}

// faultAccount wraps a real account; it always observes Sign invocations and scripts the
// lock state / signing failure when the plan says so.
type faultAccount struct {
	e2wtypes.Account
	inst *Instance
	info *AcctInfo
	sf   SFault
}

func (a *faultAccount) Lock(ctx context.Context) error {
	return a.Account.(e2wtypes.AccountLocker).Lock(ctx)
}
func (a *faultAccount) Unlock(ctx context.Context, pass []byte) error {
	if a.sf.Unlock == 3 {
		return errors.New("injected: wrong passphrase")
	}
	return a.Account.(e2wtypes.AccountLocker).Unlock(ctx, pass)
}
func (a *faultAccount) IsUnlocked(ctx context.Context) (bool, error) {
	switch a.sf.Unlock {
	case 1:
		return false, errors.New("injected IsUnlocked failure")
	case 2, 3:
		return false, nil
	}
	return a.Account.(e2wtypes.AccountLocker).IsUnlocked(ctx)
}

type faultAccountSigner struct{ *faultAccount }

func (a *faultAccountSigner) Sign(ctx context.Context, data []byte) (e2types.Signature, error) {
	a.inst.addEvent("sign", []int{a.info.ID})
	if a.inst.signHook != nil {
		a.inst.signHook(a.info)
	}
	if a.sf.Sign {
		return nil, errors.New("injected sign failure")
	}
	sig, err := a.Account.(e2wtypes.AccountSigner).Sign(ctx, data)
	if err == nil && a.inst.signedHook != nil {
		a.inst.signedHook(a.info)
	}
	return sig, err
}

type faultAccountNoSign struct{ *faultAccount }

type faultUnlocker struct {
	inst *Instance
	real unlocker.Service
}

func (u *faultUnlocker) UnlockWallet(ctx context.Context, w e2wtypes.Wallet) (bool, error) {
	return u.real.UnlockWallet(ctx, w)
}
func (u *faultUnlocker) UnlockAccount(ctx context.Context, w e2wtypes.Wallet, a e2wtypes.Account) (bool, error) {
	var fa *faultAccount
	switch x := a.(type) {
	case *faultAccountSigner:
		fa = x.faultAccount
	case *faultAccountNoSign:
		fa = x.faultAccount
	}
	if fa != nil && fa.sf.Unlock == 2 {
		return false, errors.New("injected unlocker failure")
	}
	return u.real.UnlockAccount(ctx, w, a)
}

// ---- observation of the protection store ----

type AttRec struct{ Src, Tgt int64 }

// StoreView is the decoded content of the protection store, by model key id.
type StoreView struct {
	Att  map[int]AttRec
	Prop map[int]int64
}

// ReadStore reads every raw record (v1 encoding) of the instance's store.
func (inst *Instance) ReadStore(ctx context.Context) (*StoreView, error) {
	raw, err := inst.Rules.VerifRaw(ctx)
	if err != nil {
		return nil, err
	}
	sv := &StoreView{Att: map[int]AttRec{}, Prop: map[int]int64{}}
	for k, v := range raw {
		a := inst.fx.ByKey(k[:48])
		id := 0
		if a != nil {
			id = a.ID
		} else {
			id = 100000 + int(binary.LittleEndian.Uint32(k[:4]))%100000
		}
		switch k[48] {
		case 0x02:
			if len(v) > 0 && v[0] != 1 {
				// a record in the format of early releases (Go's gob encoding), which the rules still accept
				var st signBeaconAttestationState
				if gob.NewDecoder(bytes.NewReader(v)).Decode(&st) == nil {
					sv.Att[id] = AttRec{st.SourceEpoch, st.TargetEpoch}
				}
				continue
			}
			if len(v) != 17 || v[0] != 1 {
				continue // undecodable record (seeded by a fault case): the model is told through a fetch fault
			}
			sv.Att[id] = AttRec{int64(binary.LittleEndian.Uint64(v[1:9])), int64(binary.LittleEndian.Uint64(v[9:17]))}
		case 0x03:
			if len(v) > 0 && v[0] != 1 {
				var st signBeaconProposalState
				if gob.NewDecoder(bytes.NewReader(v)).Decode(&st) == nil {
					sv.Prop[id] = st.Slot
				}
				continue
			}
			if len(v) != 9 || v[0] != 1 {
				continue
			}
			sv.Prop[id] = int64(binary.LittleEndian.Uint64(v[1:9]))
		default:
			// a record under a key that is not pubkey||action (never written by the pinned code):
			// not decodable; the comparison with the model's store then shows what is missing
		}
	}
	return sv, nil
}

func sortedKeys[V any](m map[int]V) []int {
	ks := make([]int, 0, len(m))
	for k := range m {
		ks = append(ks, k)
	}
	sort.Ints(ks)
	return ks
}

// ctxWithClient gives a handler-level context carrying the authenticated client name and IP.
func ctxWithClient(ctx context.Context, client, ip string) context.Context {
	if client != "" {
		ctx = context.WithValue(ctx, &interceptors.ClientName{}, client)
	}
	if ip != "" {
		ctx = context.WithValue(ctx, &interceptors.ExternalIP{}, ip)
	}
	return ctx
}
