(* Correspondence for kill runs: a child process served a history and was SIGKILLed at a hook point
   inside request j; the parent restarted on the same directory.  Per run: the history with the
   cut the kill corresponds to, the signatures the child reported before dying, the durable store
   found after restart. *)
From DV Require Export Model.Crash Corr.CheckInst.
Local Open Scope Z_scope.

(* kr_sigs: per request, per position, the key and whether its Sign had run *)
Record kcase := KR { kr_id : N; kr_sync : bool; kr_hist : list (op * cut)%type;
                     kr_sigs : list (list (N * bool)%type);
                     kr_post : store }.

(* released signature keys per request, as (key) list in position order *)
Definition sig_keys (l : list sigd) : list N := map sg_key l.
Definition obs_keys (l : list (N * bool)%type) : list N := flat_map (fun x : (N * bool)%type => if snd x then [fst x] else []) l.

Fixpoint keys_eqb (a b : list N) : bool :=
  match a, b with [], [] => true | x :: a', y :: b' => N.eqb x y && keys_eqb a' b' | _, _ => false end.

Definition check_kill (c : scfg) (keys : list N) (x : kcase) : bool :=
  let cc := {| sync_writes := kr_sync x; write_before_sign := true |} in
  let '(stf, out) := crun cc c empty_store (kr_hist x) in
  list_eqb keys_eqb (map sig_keys out) (map obs_keys (kr_sigs x)) && views_eqb keys stf (kr_post x).

Definition kill_mismatches (c : scfg) (keys : list N) (l : list kcase) : list N :=
  map kr_id (filter (fun x => negb (check_kill c keys x)) l).
