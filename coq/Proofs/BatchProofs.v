(* C09 (ii): a batch of well-formed authorised attestation requests naming distinct keys gives,
   position by position, the verdicts (and signatures) of its entries submitted one at a time,
   and the same decoded store. *)
From DV Require Import Model.Instance Proofs.AssocFacts Proofs.RulesProofs Proofs.RulerProofs Proofs.SignerProofs Proofs.LiveProofs.
From Coq Require Import Lia.
Local Open Scope Z_scope.

Lemma first_dup_from_nodup seen ks i :
  NoDup ks -> (forall k, In k ks -> ~ In k seen) -> first_dup_from seen ks i = None.
Proof.
  revert seen i. induction ks as [|k ks IH]; intros seen i ND Hs; cbn; auto.
  inversion ND as [|? ? Hnin ND']; subst.
  destruct (existsb (N.eqb k) seen) eqn:E.
  - apply existsb_exists in E. destruct E as (x & Hx & He). apply N.eqb_eq in He. subst x.
    exfalso. apply (Hs k); [now left|exact Hx].
  - apply IH; auto. intros k' Hk' [<-|Hin]; [contradiction|]. apply (Hs k'); [now right|exact Hin].
Qed.

Lemma first_dup_nodup ks : NoDup ks -> first_dup ks = None.
Proof. intros. apply first_dup_from_nodup; auto. Qed.

Lemma no_fetch_fault n : existsb (fetch_fails no_fault) (seq 0 n) = false.
Proof. generalize 0%nat. induction n; intros m; cbn; auto. Qed.

Lemma on_atts_nofault c st rs :
  rs <> [] -> NoDup (map r_key rs) ->
  fst (on_atts c st no_fault rs) = map (fun r => fst (chk c st r)) rs /\
  (forall k, view_att (snd (on_atts c st no_fault rs)) k =
             match find (fun r => N.eqb (r_key r) k) rs with
             | Some r => snd (chk c st r) | None => view_att st k end) /\
  (forall k, view_prop (snd (on_atts c st no_fault rs)) k = view_prop st k).
Proof.
  intros Hne ND. unfold on_atts. rewrite no_fetch_fault. cbn [f_store no_fault orb].
  destruct rs as [|r rs]; [congruence|]. cbn [List.length Nat.eqb fst snd].
  split; [|split].
  - rewrite map_map. reflexivity.
  - intros k. rewrite view_att_store_all.
    + rewrite map_map. rewrite (lookup_combine_find (fun r => snd (chk c st r))).
      destruct (find _ (r :: rs)); reflexivity.
    + rewrite map_fst_combine; auto. now rewrite !map_length.
  - intros k. apply store_all_prop.
Qed.

(* the ruler without faults, on distinct keys *)
Lemma ruler_atts_nofault c st rs :
  rs <> [] -> NoDup (map r_key rs) ->
  fst (ruler_atts c st true no_fault rs) = map (fun r => fst (chk c st r)) rs /\
  (forall k, view_att (snd (ruler_atts c st true no_fault rs)) k =
             match find (fun r => N.eqb (r_key r) k) rs with
             | Some r => snd (chk c st r) | None => view_att st k end) /\
  (forall k, view_prop (snd (ruler_atts c st true no_fault rs)) k = view_prop st k).
Proof.
  intros Hne ND. unfold ruler_atts. destruct rs as [|r [|r2 rs]]; [congruence| |].
  - unfold on_att. cbn [fetch_fails no_fault f_fetch existsb f_store].
    fold (chk c st r). destruct (chk c st r) as [res a'] eqn:Ec.
    assert (Hres : res = RApproved \/ res = RDenied).
    { pose proof (att_checks_result c (r_dom r) (view_att st (r_key r)) (r_src r) (r_tgt r)) as H.
      unfold chk in Ec. rewrite Ec in H. exact H. }
    destruct Hres as [-> | ->]; cbn; rewrite Ec; (split; [reflexivity|split; [|reflexivity]]).
    + intros k. rewrite view_att_put_att. destruct (N.eqb (r_key r) k); [now rewrite Ec|reflexivity].
    + intros k. destruct (N.eqb_spec (r_key r) k) as [<-|]; auto.
      rewrite Ec. cbn. unfold chk in Ec. apply att_checks_refused in Ec; [now subst|discriminate].
  - remember (r :: r2 :: rs) as l. rewrite (first_dup_nodup _ ND).
    apply on_atts_nofault; auto.
Qed.

(* ---- the hypotheses of C09 (ii), in terms of the resolved (account, data) items ---- *)

Definition matches (c : scfg) (cl : creds) (rq : addr * option att_data) (x : acct * att_ok) : Prop :=
  att_fields (snd rq) = Some (snd x) /\ pre_check c cl (fst rq) AAtt no_sfault = PreOk (fst x).

Definition sign_item (v : rres) (x : acct * att_ok) : cres * option sigd :=
  sign_one no_ofault v x (fun o => len32 (ao_dom o)) att_msg.

Lemma map_i_const {A B} (g : A -> B) l : forall i, map_i (fun _ x => g x) i l = map g l.
Proof. induction l; intros i; cbn; auto. now rewrite IHl. Qed.

Lemma find_index_all_some {A} (l : list A) : forall i,
  find_index (fun o : option A => match o with None => true | Some _ => false end) (map Some l) i = None.
Proof. induction l; intros i; cbn; auto. Qed.

Lemma flat_some {A} (l : list A) :
  flat_map (fun o : option A => match o with Some x => [x] | None => [] end) (map Some l) = l.
Proof. induction l; cbn; auto. now rewrite IHl. Qed.

Lemma combine_fst_snd {A B} (l : list (A * B)) : combine (map fst l) (map snd l) = l.
Proof. induction l as [|[a b] l IH]; cbn; auto. now rewrite IH. Qed.

Lemma matches_fields c cl reqs items : Forall2 (matches c cl) reqs items ->
  map (fun r => att_fields (snd r)) reqs = map Some (map snd items).
Proof. induction 1 as [|rq x reqs items [Hf _] _ IH]; cbn [map]; auto. now rewrite Hf, IH. Qed.

Lemma matches_pres c cl reqs items : Forall2 (matches c cl) reqs items ->
  map_i (fun i r => pre_check c cl (fst r) AAtt (pos_fault no_ofault i)) 0 reqs = map PreOk (map fst items).
Proof.
  intros H.
  rewrite (map_i_ext _ (fun _ r => pre_check c cl (fst r) AAtt no_sfault)) by (intros; now rewrite pos_fault_none).
  rewrite map_i_const. induction H as [|rq x reqs items [_ Hp] _ IH]; cbn [map]; auto. now rewrite Hp, IH.
Qed.

Lemma pre_accts_ok l : pre_accts (map PreOk l) = l.
Proof. induction l; cbn [map]; auto. unfold pre_accts in *. cbn. now rewrite IHl. Qed.
Lemma forallb_ok l : forallb is_pre_ok (map PreOk l) = true.
Proof. induction l; cbn; auto. Qed.

(* the batch, unfolded *)
Lemma sign_atts_unfold c st cl reqs items :
  reqs <> [] -> Forall2 (matches c cl) reqs items -> creds_ok cl = true ->
  sign_atts c st cl reqs no_ofault =
  (sign_phase no_ofault (fst (ruler_atts (sc_rules c) st true no_fault (map item_req items))) items
              (fun o => len32 (ao_dom o)) att_msg,
   snd (ruler_atts (sc_rules c) st true no_fault (map item_req items))).
Proof.
  intros Hne HM Hcr. unfold sign_atts. destruct reqs as [|rq reqs'] eqn:E; [congruence|].
  rewrite <- E in *. clear E rq reqs' Hne.
  rewrite (matches_fields _ _ _ _ HM), find_index_all_some, flat_some.
  rewrite (matches_pres _ _ _ _ HM), forallb_ok, pre_accts_ok, combine_fst_snd. cbn [negb of_ruler no_ofault].
  rewrite Hcr. change (of_rules no_ofault) with no_fault.
  change (map (fun x => att_req (fst x) (snd x)) items) with (map item_req items).
  destruct (ruler_atts (sc_rules c) st true no_fault (map item_req items)); reflexivity.
Qed.

(* sign_phase with one verdict per item is a position-wise map *)
Lemma sign_phase_map (items : list (acct * att_ok)) (g : acct * att_ok -> rres) :
  sign_phase no_ofault (map g items) items (fun o => len32 (ao_dom o)) att_msg =
  map (fun x => sign_item (g x) x) items.
Proof.
  induction items as [|x items IH]; [reflexivity|].
  cbn [map]. rewrite sign_phase_cons, shiftf_none, IH. reflexivity.
Qed.

(* one request submitted alone *)
Lemma sign_att_alone c st cl rq x :
  matches c cl rq x -> creds_ok cl = true ->
  sign_att c st cl (fst rq) (snd rq) no_ofault =
  (sign_item (fst (chk (sc_rules c) st (item_req x))) x,
   snd (ruler_atts (sc_rules c) st true no_fault [item_req x])).
Proof.
  intros [Hf Hp] Hcr. unfold sign_att. rewrite Hf, pos_fault_none, Hp. cbn [of_ruler no_ofault].
  rewrite Hcr. change (of_rules no_ofault) with no_fault.
  change (att_req (fst x) (snd x)) with (item_req x).
  destruct (ruler_atts_nofault (sc_rules c) st [item_req x]) as (Hr & _); [discriminate|repeat constructor; intros []|].
  destruct (ruler_atts (sc_rules c) st true no_fault [item_req x]) as [rr st1]. cbn [fst snd] in *.
  subst rr. cbn [map nth]. unfold sign_item, sign_one. rewrite pos_fault_none.
  destruct (fst (chk (sc_rules c) st (item_req x))); reflexivity.
Qed.

(* the entries one at a time: each is judged against the state before the whole sequence,
   because earlier entries touched other keys only *)
Lemma seq_atts_char c cl reqs items : Forall2 (matches c cl) reqs items -> creds_ok cl = true ->
  NoDup (items_keys items) -> forall st st0,
  (forall x, In x items -> view_att st (ac_key (fst x)) = view_att st0 (ac_key (fst x))) ->
  fst (seq_atts c st cl reqs) = map (fun x => sign_item (fst (chk (sc_rules c) st0 (item_req x))) x) items /\
  (forall k, view_att (snd (seq_atts c st cl reqs)) k =
             match find (fun r => N.eqb (r_key r) k) (map item_req items) with
             | Some r => snd (chk (sc_rules c) st0 r) | None => view_att st k end) /\
  (forall k, view_prop (snd (seq_atts c st cl reqs)) k = view_prop st k).
Proof.
  intros HM Hcr. induction HM as [|rq x reqs items Hm HM IH]; intros ND st st0 Hv.
  - cbn. auto.
  - inversion ND as [|? ? Hnin ND']; subst.
    cbn [seq_atts]. rewrite (sign_att_alone c st cl rq x Hm Hcr).
    destruct (ruler_atts_nofault (sc_rules c) st [item_req x]) as (_ & Hv1 & Hp1); [discriminate|repeat constructor; intros []|].
    set (st1 := snd (ruler_atts (sc_rules c) st true no_fault [item_req x])) in *.
    assert (Hchk : chk (sc_rules c) st (item_req x) = chk (sc_rules c) st0 (item_req x)).
    { unfold chk. cbn [r_key item_req att_req]. rewrite (Hv x (or_introl eq_refl)). reflexivity. }
    specialize (IH ND' st1 st0).
    destruct IH as (IH1 & IH2 & IH3).
    { intros y Hy. rewrite Hv1. cbn [find].
      destruct (N.eqb_spec (r_key (item_req x)) (ac_key (fst y))) as [E|E].
      - exfalso. apply Hnin. unfold items_keys. apply in_map_iff. exists y. split; auto.
      - apply Hv. now right. }
    destruct (seq_atts c st1 cl reqs) as [xs st2]. cbn [fst snd] in *.
    split; [|split].
    + cbn [map]. rewrite Hchk, IH1. reflexivity.
    + intros k. rewrite IH2. cbn [map find].
      destruct (N.eqb_spec (r_key (item_req x)) k) as [E|E].
      * (* k is x's key: no later item names it *)
        assert (Hnone : find (fun r => N.eqb (r_key r) k) (map item_req items) = None).
        { destruct (find _ (map item_req items)) as [r|] eqn:Ef; auto. exfalso.
          apply find_some in Ef. destruct Ef as [Hin He]. apply N.eqb_eq in He.
          apply in_map_iff in Hin. destruct Hin as (y & <- & Hy).
          apply Hnin. unfold items_keys. apply in_map_iff. exists y. split; auto.
          cbn in He. cbn in E. congruence. }
        rewrite Hnone, Hv1. cbn [find]. rewrite E, N.eqb_refl. now rewrite Hchk.
      * destruct (find _ (map item_req items)); auto.
        rewrite Hv1. cbn [find]. apply N.eqb_neq in E. now rewrite E.
    + intros k. now rewrite IH3, Hp1.
Qed.

Lemma C09_batch_main :
  forall (c : scfg) (st : store) (cl : creds) (reqs : list (addr * option att_data)) (items : list (acct * att_ok)),
    reqs <> [] -> Forall2 (matches c cl) reqs items -> creds_ok cl = true -> NoDup (items_keys items) ->
    fst (sign_atts c st cl reqs no_ofault) = fst (seq_atts c st cl reqs) /\
    same_view (snd (seq_atts c st cl reqs)) (snd (sign_atts c st cl reqs no_ofault)).
Proof.
  intros c st cl reqs items Hne HM Hcr ND.
  rewrite (sign_atts_unfold c st cl reqs items Hne HM Hcr). cbn [fst snd].
  assert (Hne' : map item_req items <> []).
  { destruct items; [inversion HM; subst; congruence|discriminate]. }
  destruct (ruler_atts_nofault (sc_rules c) st (map item_req items) Hne') as (Hr & Hv & Hp).
  { now rewrite item_keys_reqs. }
  destruct (seq_atts_char c cl reqs items HM Hcr ND st st (fun _ _ => eq_refl)) as (S1 & S2 & S3).
  split.
  - rewrite Hr, S1. rewrite map_map. rewrite (sign_phase_map items (fun x => fst (chk (sc_rules c) st (item_req x)))). reflexivity.
  - split; intros k; [now rewrite Hv, S2|now rewrite Hp, S3].
Qed.
