(* Model of services/checker/static: the access table built by parameters.go (regexify) and
   Check() of service.go. *)
From DV Require Export Base.Regex.
From Coq Require Export String Ascii.
Local Open Scope string_scope.

Definition bytes_of (s : string) : str := map (fun a => N_of_ascii a) (list_ascii_of_string s).

(* strings.EqualFold on ASCII *)
Definition lower_ascii (a : ascii) : ascii :=
  let n := N_of_ascii a in if (65 <=? n)%N && (n <=? 90)%N then ascii_of_N (n + 32) else a.
Fixpoint eqfold (a b : string) : bool :=
  match a, b with
  | EmptyString, EmptyString => true
  | String x a', String y b' => Ascii.eqb (lower_ascii x) (lower_ascii y) && eqfold a' b'
  | _, _ => false
  end.

(* e2wallet.WalletAndAccountNames: split at the first '/' *)
Fixpoint split_slash (s : string) : option (string * string) :=   (* None = no '/' *)
  match s with
  | EmptyString => None
  | String c r => if Ascii.eqb c "/" then Some (EmptyString, r)
                  else match split_slash r with
                       | Some (w, a) => Some (String c w, a)
                       | None => None
                       end
  end.
Definition wallet_and_account (path : string) : option (string * string) :=   (* None = error *)
  match path with
  | EmptyString => None
  | _ => match split_slash path with
         | None => Some (path, EmptyString)
         | Some (w, a) => if String.eqb w "" then None else Some (w, a)
         end
  end.

(* a configured pattern: None = the empty name ("all"), Some top = its top-level alternatives *)
Definition pattern := option (list re).

Record pentry := { pe_wallet : pattern; pe_account : pattern; pe_ops : list string }.
Definition ptable := list (string * list pentry).     (* client -> ordered entries *)

(* regexify + MatchString; grouped = the F2 repair *)
Definition pat_match (grouped : bool) (p : pattern) (name : string) : bool :=
  match p with
  | None => true                                         (* (?i)^(?i).*$ : names have no newline *)
  | Some top => search true (if grouped then anchor_grouped top else anchor_legacy top) (bytes_of name)
  end.

(* the scan over one entry's operation list: Some b = the first item bearing on op decides b *)
Fixpoint scan_ops (ops : list string) (op : string) : option bool :=
  match ops with
  | [] => None
  | x :: r => if eqfold x "none" || eqfold x ("~" ++ op) then Some false
              else if eqfold x "all" || eqfold x op then Some true
              else scan_ops r op
  end.

Fixpoint scan_entries (grouped : bool) (es : list pentry) (w a op : string) : bool :=
  match es with
  | [] => false
  | e :: r => if pat_match grouped (pe_wallet e) w && pat_match grouped (pe_account e) a
              then match scan_ops (pe_ops e) op with
                   | Some b => b
                   | None => scan_entries grouped r w a op
                   end
              else scan_entries grouped r w a op
  end.

Fixpoint table_find (t : ptable) (client : string) : option (list pentry) :=
  match t with
  | [] => None
  | (c, es) :: r => if String.eqb c client then Some es else table_find r client
  end.

(* Check(credentials, account path, operation) *)
Definition check (grouped : bool) (t : ptable) (client : string) (path : string) (op : string) : bool :=
  if String.eqb client "" then false else
  match wallet_and_account path with
  | None => false
  | Some (w, a) =>
    if String.eqb w "" then false else
    match table_find t client with
    | None => false
    | Some es => scan_entries grouped es w a op
    end
  end.
