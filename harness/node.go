package main

import (
	"context"
	"errors"
	"fmt"
	prometheusmetrics "github.com/attestantio/dirk/services/metrics/prometheus"
	"net"
	"os"
	"sync"
	"time"

	"github.com/attestantio/dirk/core"
	standardrules "github.com/attestantio/dirk/rules/standard"
	standardaccountmanager "github.com/attestantio/dirk/services/accountmanager/standard"
	receiverhandler "github.com/attestantio/dirk/services/api/grpc/handlers/receiver"
	"github.com/attestantio/dirk/services/checker"
	staticchecker "github.com/attestantio/dirk/services/checker/static"
	memfetcher "github.com/attestantio/dirk/services/fetcher/mem"
	standardlister "github.com/attestantio/dirk/services/lister/standard"
	syncmaplocker "github.com/attestantio/dirk/services/locker/syncmap"
	staticpeers "github.com/attestantio/dirk/services/peers/static"
	standardprocess "github.com/attestantio/dirk/services/process/standard"
	goruler "github.com/attestantio/dirk/services/ruler/golang"
	"github.com/attestantio/dirk/services/sender"
	standardsigner "github.com/attestantio/dirk/services/signer/standard"
	localunlocker "github.com/attestantio/dirk/services/unlocker/local"
	standardwalletmanager "github.com/attestantio/dirk/services/walletmanager/standard"
	"github.com/herumi/bls-eth-go-binary/bls"
	pb "github.com/wealdtech/eth2-signer-api/pb/v1"
	distributed "github.com/wealdtech/go-eth2-wallet-distributed"
	keystorev4 "github.com/wealdtech/go-eth2-wallet-encryptor-keystorev4"
	nd "github.com/wealdtech/go-eth2-wallet-nd/v2"
	scratch "github.com/wealdtech/go-eth2-wallet-store-scratch"
	e2wtypes "github.com/wealdtech/go-eth2-wallet-types/v2"
)

// Node is a complete in-process Dirk instance: every service of the daemon except the gRPC
// transport (the receiver handler is called directly with the authenticated name in the context).
type Node struct {
	ID       uint64
	Name     string
	Stores   []e2wtypes.Store
	RulesDir string
	Rules    *standardrules.Service
	Checker  checker.Service
	Fetcher  *memfetcher.Service
	Signer   *standardsigner.Service
	Lister   *standardlister.Service
	Process  *standardprocess.Service
	AcctMgr  *standardaccountmanager.Service
	WalMgr   *standardwalletmanager.Service
	Receiver *receiverhandler.Handler
	Peers    *staticpeers.Service
}

type NodeOpts struct {
	ID          uint64
	Stores      []e2wtypes.Store // nil = fresh scratch store with the wallets below
	NDWallets   []string         // non-deterministic wallets to create (when Stores is nil)
	DistWallets []string         // distributed wallets to create (when Stores is nil)
	Perms       map[string][]*checker.Permissions
	PeersMap    map[uint64]string // id -> "name:port"
	Sender      sender.Service
	Prometheus  bool // the services report to the Prometheus metrics service (as with metrics.listen-address set) instead of the null one
	GenTimeout  time.Duration
	AdminIPs    []string
}

func nodeName(id uint64) string { return fmt.Sprintf("signer-test%02d", id) }

func NewNode(ctx context.Context, o NodeOpts) (*Node, error) {
	initBLS()
	n := &Node{ID: o.ID, Name: nodeName(o.ID), Stores: o.Stores}
	enc := keystorev4.New()
	if n.Stores == nil {
		st := scratch.New()
		n.Stores = []e2wtypes.Store{st}
		for _, w := range o.NDWallets {
			if _, err := nd.CreateWallet(ctx, w, st, enc); err != nil {
				return nil, err
			}
		}
		for _, w := range o.DistWallets {
			if _, err := distributed.CreateWallet(ctx, w, st, enc); err != nil {
				return nil, err
			}
		}
	}
	dir, err := os.MkdirTemp("", "vh-node-")
	if err != nil {
		return nil, err
	}
	n.RulesDir = dir
	n.Rules, err = newRules(ctx, standardrules.WithStoragePath(dir), standardrules.WithAdminIPs(o.AdminIPs))
	if err != nil {
		return nil, err
	}
	locker, err := syncmaplocker.New(ctx)
	if err != nil {
		return nil, err
	}
	rulerSvc, err := goruler.New(ctx, goruler.WithLocker(locker), goruler.WithRules(n.Rules))
	if err != nil {
		return nil, err
	}
	n.Checker, err = staticchecker.New(ctx, staticchecker.WithPermissions(o.Perms))
	if err != nil {
		return nil, err
	}
	n.Fetcher, err = memfetcher.New(ctx, memfetcher.WithStores(n.Stores), memfetcher.WithEncryptor(enc))
	if err != nil {
		return nil, err
	}
	unl, err := localunlocker.New(ctx, localunlocker.WithAccountPassphrases([]string{"pass"}), localunlocker.WithWalletPassphrases([]string{"pass"}))
	if err != nil {
		return nil, err
	}
	var mon *prometheusmetrics.Service
	if o.Prometheus {
		mon = sharedPrometheus(ctx)
	}
	signerParams := []standardsigner.Parameter{standardsigner.WithUnlocker(unl), standardsigner.WithChecker(n.Checker),
		standardsigner.WithFetcher(n.Fetcher), standardsigner.WithRuler(rulerSvc)}
	if mon != nil {
		signerParams = append(signerParams, standardsigner.WithMonitor(mon))
	}
	n.Signer, err = standardsigner.New(ctx, signerParams...)
	if err != nil {
		return nil, err
	}
	listerParams := []standardlister.Parameter{standardlister.WithFetcher(n.Fetcher), standardlister.WithChecker(n.Checker), standardlister.WithRuler(rulerSvc)}
	if mon != nil {
		listerParams = append(listerParams, standardlister.WithMonitor(mon))
	}
	n.Lister, err = standardlister.New(ctx, listerParams...)
	if err != nil {
		return nil, err
	}
	n.Peers, err = staticpeers.New(ctx, staticpeers.WithPeers(o.PeersMap))
	if err != nil {
		return nil, err
	}
	snd := o.Sender
	if snd == nil {
		snd = &nullSender{}
	}
	to := o.GenTimeout
	if to == 0 {
		to = 70 * time.Second
	}
	n.Process, err = standardprocess.New(ctx,
		standardprocess.WithChecker(n.Checker), standardprocess.WithUnlocker(unl), standardprocess.WithSender(snd),
		standardprocess.WithFetcher(n.Fetcher), standardprocess.WithEncryptor(enc), standardprocess.WithPeers(n.Peers),
		standardprocess.WithID(o.ID), standardprocess.WithStores(n.Stores),
		standardprocess.WithGenerationPassphrase([]byte("pass")), standardprocess.WithGenerationTimeout(to))
	if err != nil {
		return nil, err
	}
	amParams := []standardaccountmanager.Parameter{standardaccountmanager.WithUnlocker(unl), standardaccountmanager.WithChecker(n.Checker),
		standardaccountmanager.WithFetcher(n.Fetcher), standardaccountmanager.WithRuler(rulerSvc), standardaccountmanager.WithProcess(n.Process)}
	if mon != nil {
		amParams = append(amParams, standardaccountmanager.WithMonitor(mon))
	}
	n.AcctMgr, err = standardaccountmanager.New(ctx, amParams...)
	if err != nil {
		return nil, err
	}
	wmParams := []standardwalletmanager.Parameter{standardwalletmanager.WithUnlocker(unl), standardwalletmanager.WithChecker(n.Checker),
		standardwalletmanager.WithFetcher(n.Fetcher), standardwalletmanager.WithRuler(rulerSvc)}
	if mon != nil {
		wmParams = append(wmParams, standardwalletmanager.WithMonitor(mon))
	}
	n.WalMgr, err = standardwalletmanager.New(ctx, wmParams...)
	if err != nil {
		return nil, err
	}
	n.Receiver, err = receiverhandler.New(ctx, receiverhandler.WithPeers(n.Peers), receiverhandler.WithProcess(n.Process))
	if err != nil {
		return nil, err
	}
	return n, nil
}

func (n *Node) Close(ctx context.Context) {
	_ = closeRules(ctx, n.Rules)
	_ = os.RemoveAll(n.RulesDir)
}

// nullSender refuses every DKG message (nodes that never take part in a generation).
type nullSender struct{}

func (*nullSender) Prepare(context.Context, *core.Endpoint, string, []byte, uint32, []*core.Endpoint) error {
	return errors.New("no sender")
}
func (*nullSender) Execute(context.Context, *core.Endpoint, string) error {
	return errors.New("no sender")
}
func (*nullSender) Commit(context.Context, *core.Endpoint, string, []byte) ([]byte, []byte, error) {
	return nil, nil, errors.New("no sender")
}
func (*nullSender) Abort(context.Context, *core.Endpoint, string) error {
	return errors.New("no sender")
}
func (*nullSender) SendContribution(context.Context, *core.Endpoint, string, bls.SecretKey, []bls.PublicKey) (bls.SecretKey, []bls.PublicKey, error) {
	return bls.SecretKey{}, nil, errors.New("no sender")
}

// ---- in-process cluster: messages go to the peer's real receiver handler ----

// Tamper lets a test alter, drop or duplicate a message; nil = deliver unchanged.
type Tamper func(msg *ClusterMsg) error

// ClusterMsg describes one DKG message in flight (mutable by a Tamper).
type ClusterMsg struct {
	Kind          string // prepare, execute, commit, abort, contribute
	From, To      uint64
	Account       string
	Threshold     uint32
	Secret        *bls.SecretKey
	VVec          *[]bls.PublicKey
	Seq           int
	Duplicate     bool     // deliver twice
	Drop          bool     // do not deliver: the sender sees an error
	ErrorReply    bool     // deliver, but the sender sees an error (the reply is lost)
	ReplayAltered bool     // contribute: after the genuine delivery, deliver a copy with the share replaced
	Participants  []uint64 // prepare: the participant list, in message order
	SessionLost   bool     // contribute: the receiver no longer holds the generation when the message arrives (it restarted)
	ForgedReply   bool     // commit: the message never arrives; the sender is handed the (right) public key and a made-up confirmation
	ForgedPK      []byte   // the public key of the forged reply
}

type Cluster struct {
	Nodes  map[uint64]*Node
	Tamper Tamper
	mu     sync.Mutex
	seq    int
	Log    []ClusterMsg // every message (after tampering), in order of sending
	Panics []string     // panics raised inside a receiving instance (a real daemon would have crashed)
	// CommitOrder, when set, delays commit replies so that they arrive in this order of recipient ids
	commitGate *orderGate
}

type clusterSender struct {
	c    *Cluster
	from uint64
}

func (c *Cluster) note(m *ClusterMsg) error {
	c.mu.Lock()
	c.seq++
	m.Seq = c.seq
	t := c.Tamper
	c.mu.Unlock()
	var err error
	if t != nil {
		err = t(m)
	}
	c.mu.Lock()
	c.Log = append(c.Log, *m)
	c.mu.Unlock()
	if err != nil {
		return err
	}
	if m.Drop {
		return errors.New("message lost")
	}
	return nil
}

// guard turns a panic inside a receiving instance into an error for the sender and records it.
func (c *Cluster) guard(what string, err *error) {
	if x := recover(); x != nil {
		c.mu.Lock()
		c.Panics = append(c.Panics, fmt.Sprintf("%s: %v", what, x))
		c.mu.Unlock()
		*err = fmt.Errorf("peer crashed: %v", x)
	}
}

func (s *clusterSender) peerCtx(ctx context.Context) context.Context {
	return ctxWithClient(ctx, nodeName(s.from), "")
}

func (s *clusterSender) Prepare(ctx context.Context, r *core.Endpoint, account string, pass []byte, threshold uint32, parts []*core.Endpoint) (err error) {
	defer s.c.guard("prepare", &err)
	m := &ClusterMsg{Kind: "prepare", From: s.from, To: r.ID, Account: account, Threshold: threshold}
	for _, p := range parts {
		m.Participants = append(m.Participants, p.ID)
	}
	if err := s.c.note(m); err != nil {
		return err
	}
	node := s.c.Nodes[r.ID]
	if node == nil {
		return errors.New("unknown recipient")
	}
	req := &pb.PrepareRequest{Account: account, Passphrase: pass, Threshold: m.Threshold}
	for _, p := range parts {
		req.Participants = append(req.Participants, &pb.Endpoint{Id: p.ID, Name: p.Name, Port: p.Port})
	}
	_, err = node.Receiver.Prepare(s.peerCtx(ctx), req)
	if err == nil && m.Duplicate {
		_, _ = node.Receiver.Prepare(s.peerCtx(ctx), req)
	}
	if err == nil && m.ErrorReply {
		return errors.New("reply lost")
	}
	return err
}

func (s *clusterSender) Execute(ctx context.Context, r *core.Endpoint, account string) (err error) {
	defer s.c.guard("execute", &err)
	m := &ClusterMsg{Kind: "execute", From: s.from, To: r.ID, Account: account}
	if err := s.c.note(m); err != nil {
		return err
	}
	node := s.c.Nodes[r.ID]
	_, err = node.Receiver.Execute(s.peerCtx(ctx), &pb.ExecuteRequest{Account: account})
	if err == nil && m.Duplicate {
		_, _ = node.Receiver.Execute(s.peerCtx(ctx), &pb.ExecuteRequest{Account: account})
	}
	if err == nil && m.ErrorReply {
		return errors.New("reply lost")
	}
	return err
}

func (s *clusterSender) Commit(ctx context.Context, r *core.Endpoint, account string, data []byte) (pk []byte, sig []byte, err error) {
	m := &ClusterMsg{Kind: "commit", From: s.from, To: r.ID, Account: account}
	if err := s.c.note(m); err != nil {
		return nil, nil, err
	}
	if m.ForgedReply {
		var sk bls.SecretKey
		sk.SetByCSPRNG()
		pk := m.ForgedPK
		if len(pk) == 0 {
			pk = sk.GetPublicKey().Serialize()
		}
		return pk, sk.SignByte(data).Serialize(), nil
	}
	node := s.c.Nodes[r.ID]
	var res *pb.CommitResponse
	func() {
		defer s.c.guard("commit", &err)
		res, err = node.Receiver.Commit(s.peerCtx(ctx), &pb.CommitRequest{Account: account, ConfirmationData: data})
	}()
	s.c.mu.Lock()
	g := s.c.commitGate
	s.c.mu.Unlock()
	if g != nil {
		g.wait(r.ID)
		defer g.done(r.ID)
	}
	if err != nil {
		return nil, nil, err
	}
	return res.GetPublicKey(), res.GetConfirmationSignature(), nil
}

func (s *clusterSender) Abort(ctx context.Context, r *core.Endpoint, account string) error {
	m := &ClusterMsg{Kind: "abort", From: s.from, To: r.ID, Account: account}
	if err := s.c.note(m); err != nil {
		return err
	}
	node := s.c.Nodes[r.ID]
	_, err := node.Receiver.Abort(s.peerCtx(ctx), &pb.AbortRequest{Account: account})
	return err
}

func (s *clusterSender) SendContribution(ctx context.Context, r *core.Endpoint, account string, secret bls.SecretKey, vVec []bls.PublicKey) (rs bls.SecretKey, rv []bls.PublicKey, err error) {
	defer s.c.guard("contribute", &err)
	vVec = append([]bls.PublicKey{}, vVec...) // the network may alter its copy, never the sender's memory
	m := &ClusterMsg{Kind: "contribute", From: s.from, To: r.ID, Account: account, Secret: &secret, VVec: &vVec}
	if err := s.c.note(m); err != nil {
		return bls.SecretKey{}, nil, err
	}
	node := s.c.Nodes[r.ID]
	req := &pb.ContributeRequest{Account: account, Secret: m.Secret.Serialize()}
	for i := range *m.VVec {
		req.VerificationVector = append(req.VerificationVector, (*m.VVec)[i].Serialize())
	}
	if m.SessionLost {
		_ = node.Process.OnAbort(ctx, s.from, account)
	}
	res, err := node.Receiver.Contribute(s.peerCtx(ctx), req)
	if err == nil && m.Duplicate {
		_, _ = node.Receiver.Contribute(s.peerCtx(ctx), req)
	}
	if err == nil && m.ReplayAltered {
		var junk bls.SecretKey
		junk.SetByCSPRNG()
		bad := &pb.ContributeRequest{Account: account, Secret: junk.Serialize(), VerificationVector: req.VerificationVector}
		_, _ = node.Receiver.Contribute(s.peerCtx(ctx), bad)
	}
	if err != nil {
		return bls.SecretKey{}, nil, err
	}
	var sk bls.SecretKey
	if err := sk.Deserialize(res.GetSecret()); err != nil {
		return bls.SecretKey{}, nil, err
	}
	vv := make([]bls.PublicKey, len(res.GetVerificationVector()))
	for i, b := range res.GetVerificationVector() {
		if err := vv[i].Deserialize(b); err != nil {
			return bls.SecretKey{}, nil, err
		}
	}
	// the reply travels back too
	rm := &ClusterMsg{Kind: "contribute-reply", From: r.ID, To: s.from, Account: account, Secret: &sk, VVec: &vv}
	if err := s.c.note(rm); err != nil {
		return bls.SecretKey{}, nil, err
	}
	return *rm.Secret, *rm.VVec, nil
}

// orderGate releases commit replies in a prescribed order of recipient ids.
type orderGate struct {
	mu    sync.Mutex
	cond  *sync.Cond
	order []uint64
	pos   int
}

func newOrderGate(order []uint64) *orderGate {
	g := &orderGate{order: order}
	g.cond = sync.NewCond(&g.mu)
	return g
}

func (g *orderGate) wait(id uint64) {
	g.mu.Lock()
	for g.pos < len(g.order) && g.order[g.pos] != id {
		found := false
		for _, x := range g.order[g.pos:] {
			if x == id {
				found = true
			}
		}
		if !found {
			break
		}
		g.cond.Wait()
	}
	g.mu.Unlock()
}

func (g *orderGate) done(id uint64) {
	g.mu.Lock()
	if g.pos < len(g.order) && g.order[g.pos] == id {
		g.pos++
	}
	g.cond.Broadcast()
	g.mu.Unlock()
}

// NewCluster creates n nodes with ids ids[i], each with ND wallet "Wallet 1" and distributed wallet
// "Wallet 3", full permissions for client1, and every node a peer of every other.
func NewCluster(ctx context.Context, ids []uint64, genTimeout time.Duration) (*Cluster, error) {
	return NewClusterPerms(ctx, ids, genTimeout, nil)
}

// NewClusterPerms: a cluster whose instances all run with the given permissions (nil = client1 may do everything).
func NewClusterPerms(ctx context.Context, ids []uint64, genTimeout time.Duration, perms map[string][]*checker.Permissions) (*Cluster, error) {
	c := &Cluster{Nodes: map[uint64]*Node{}}
	peersMap := map[uint64]string{}
	for _, id := range ids {
		peersMap[id] = fmt.Sprintf("%s:%d", nodeName(id), 10000+id%50000)
	}
	if perms == nil {
		perms = map[string][]*checker.Permissions{"client1": {{Path: "Wallet 1", Operations: []string{"All"}}, {Path: "Wallet 3", Operations: []string{"All"}}}}
	}
	for _, id := range ids {
		n, err := NewNode(ctx, NodeOpts{ID: id, NDWallets: []string{"Wallet 1"}, DistWallets: []string{"Wallet 3"}, Perms: perms,
			PeersMap: peersMap, Sender: &clusterSender{c: c, from: id}, GenTimeout: genTimeout})
		if err != nil {
			return nil, err
		}
		c.Nodes[id] = n
	}
	return c, nil
}

func (c *Cluster) Close(ctx context.Context) {
	for _, n := range c.Nodes {
		n.Close(ctx)
	}
}

// sharedPrometheus: the Prometheus metrics service registers its collectors with the process-wide registry, so there is
// one per harness process.  nil when it cannot be created.
var (
	promOnce sync.Once
	promSvc  *prometheusmetrics.Service
)

func sharedPrometheus(ctx context.Context) *prometheusmetrics.Service {
	promOnce.Do(func() {
		l, err := net.Listen("tcp", "127.0.0.1:0")
		if err != nil {
			return
		}
		addr := l.Addr().String()
		l.Close()
		if svc, err := prometheusmetrics.New(ctx, prometheusmetrics.WithAddress(addr)); err == nil {
			promSvc = svc
		}
	})
	return promSvc
}
