(* C16 - key-generation messages are honoured only from peers; shares go to their owner. *)
From DV Require Import Model.Dkg Proofs.DkgProofs.
Local Open Scope Z_scope.

(* The five receiver handlers act only when sender_id gives a non-zero identifier (each handler's first
   statement; Corr/CheckDkg.v's receive).  (a) sender_id is 0 for the absent name and for every name
   that is not a configured peer's; (b) it is the peer's identifier for a peer's name. *)
Theorem C16_only_peers :
  (forall peers name, (forall i pn, In (i, pn) peers -> Some pn <> name) -> sender_id peers name = 0%N) /\
  (forall peers i nm, NoDup (map snd peers) -> In (i, nm) peers -> sender_id peers (Some nm) = i).
Proof. split; [exact sender_id_unknown|exact sender_id_peer]. Qed.
Print Assumptions C16_only_peers.

(* (c) The reply to a contribution carries the evaluation of the replier's polynomial at the
   AUTHENTICATED SENDER's identifier - the share dealt to the sender - and the replier's vector,
   whatever share and vector the sender supplied. *)
Theorem C16_share_goes_to_its_owner :
  forall c n acct sender share vvec n' reply g,
    gfind acct (nd_gens n) = Some g -> on_contribute c n acct sender share vvec = DOk (n', reply) ->
    reply = (horner (g_poly g) (idz sender), g_poly g).
Proof. exact on_contribute_reply. Qed.
Print Assumptions C16_share_goes_to_its_owner.
