package main

import (
	"bytes"
	"context"
	"fmt"
	"github.com/attestantio/dirk/rules"
	"github.com/attestantio/dirk/services/checker"
	"github.com/attestantio/dirk/services/ruler"
	pb "github.com/wealdtech/eth2-signer-api/pb/v1"
	e2wtypes "github.com/wealdtech/go-eth2-wallet-types/v2"
	"os"
	"path/filepath"
	"runtime"
	"strconv"
	"strings"
	"sync"
	"sync/atomic"
	"time"

	"github.com/attestantio/dirk/core"
	"github.com/attestantio/dirk/services/locker"
	syncmaplocker "github.com/attestantio/dirk/services/locker/syncmap"
	"github.com/attestantio/dirk/util/verifhook"
)

// goroutine id (the locker interface carries no context)
func goid() int64 {
	var buf [64]byte
	n := runtime.Stack(buf[:], false)
	f := bytes.Fields(buf[:n])
	id, _ := strconv.ParseInt(string(f[1]), 10, 64)
	return id
}

type reqKeyT struct{}

// cEvent is one event of a concurrent round, in real-time order.
type cEvent struct {
	T    int // request index (-1 unknown)
	Kind string
	Key  int
}

// recLocker records and steers the calls made on the real locker.
type recLocker struct {
	real   locker.Service
	mu     sync.Mutex
	events []cEvent
	gor    sync.Map // goroutine id -> request index
	delay  func(t int, kind string, key int)
	fx     *Fixture
}

func (l *recLocker) who() int {
	if v, ok := l.gor.Load(goid()); ok {
		return v.(int)
	}
	return -1
}

func (l *recLocker) add(t int, kind string, key int) {
	l.mu.Lock()
	l.events = append(l.events, cEvent{t, kind, key})
	l.mu.Unlock()
}

func (l *recLocker) keyID(k [48]byte) int {
	if a := l.fx.ByKey(k[:]); a != nil {
		return a.ID
	}
	return 0
}

func (l *recLocker) PreLock() {
	t := l.who()
	if l.delay != nil {
		l.delay(t, "before-prelock", 0)
	}
	l.real.PreLock()
	l.add(t, "prelock", 0)
}
func (l *recLocker) PostLock() {
	t := l.who()
	l.add(t, "postlock", 0)
	l.real.PostLock()
}
func (l *recLocker) Lock(k [48]byte) {
	t := l.who()
	id := l.keyID(k)
	if l.delay != nil {
		l.delay(t, "before-lock", id)
	}
	l.real.Lock(k)
	l.add(t, "lock", id)
}
func (l *recLocker) Unlock(k [48]byte) {
	t := l.who()
	l.add(t, "unlock", l.keyID(k))
	l.real.Unlock(k)
}

type concReq struct {
	Op   *Op
	Obs  []Obs
	Done bool
	Ctx  context.Context // nil = the round's context
}

// concRound issues the requests concurrently against one instance and returns the event log.
func concRound(ctx context.Context, fx *Fixture, inst *Instance, rl *recLocker, reqs []*concReq, watchdog time.Duration) (events []cEvent, stuck bool) {
	rl.mu.Lock()
	rl.events = nil
	rl.mu.Unlock()
	base := inst.hook
	verifhook.Set(func(c context.Context, site string, keys [][]byte) error {
		t := -1
		if v, ok := c.Value(reqKeyT{}).(int); ok {
			t = v
		}
		switch site {
		case "fetch.post":
			ids := inst.keyIDs(keys)
			rl.add(t, "fetch", ids[0])
			if rl.delay != nil {
				rl.delay(t, "after-fetch", ids[0])
			}
		case "store.post", "batch.post":
			rl.add(t, "commit", 0)
		}
		return base(c, site, keys)
	})
	defer verifhook.Set(inst.hook)
	var wg sync.WaitGroup
	start := make(chan struct{})
	for i, r := range reqs {
		wg.Add(1)
		go func(i int, r *concReq) {
			defer wg.Done()
			rl.gor.Store(goid(), i)
			defer rl.gor.Delete(goid())
			<-start
			base := ctx
			if r.Ctx != nil {
				base = r.Ctx
			}
			obs, err := inst.ExecCtx(context.WithValue(base, reqKeyT{}, i), r.Op)
			if err == nil {
				r.Obs = obs
				r.Done = true
			}
			rl.add(i, "ret", 0)
		}(i, r)
	}
	close(start)
	done := make(chan struct{})
	go func() { wg.Wait(); close(done) }()
	select {
	case <-done:
	case <-time.After(watchdog):
		stuck = true
	}
	rl.mu.Lock()
	events = append([]cEvent{}, rl.events...)
	rl.mu.Unlock()
	return events, stuck
}

// modelKeys: the keys the model's thread locks (none for an empty list or a repeated key).
func modelKeys(inst *Instance, op *Op) []int {
	var ks []int
	seen := map[int]bool{}
	for _, ad := range op.Addrs {
		a := inst.resolveInfo(ad)
		if a == nil {
			return nil
		}
		if seen[a.ID] {
			return nil
		}
		seen[a.ID] = true
		ks = append(ks, a.ID)
	}
	return ks
}

// toSchedule maps the observed events to a schedule of the model (list of thread indices) and
// checks the per-request shape of locker and store calls (the protocol conformance).
func toSchedule(inst *Instance, reqs []*concReq, events []cEvent) (sched []int, problems []string) {
	n := len(reqs)
	keys := make([][]int, n)
	for i, r := range reqs {
		keys[i] = modelKeys(inst, r.Op)
	}
	// requests without keys do not touch the locker: their four model steps go first
	for i := range reqs {
		if len(keys[i]) == 0 {
			sched = append(sched, i, i, i, i)
		}
	}
	type tstate struct {
		locks, fetches, unlocks int
		pre, post, commit, ret  bool
	}
	st := make([]tstate, n)
	pendingReads := func(t int) {
		// the model reads every key and commits before releasing; the code may have returned early
		for st[t].fetches < len(keys[t]) {
			sched = append(sched, t)
			st[t].fetches++
		}
		if !st[t].commit {
			sched = append(sched, t)
			st[t].commit = true
		}
	}
	for _, e := range events {
		t := e.T
		if t < 0 || t >= n {
			problems = append(problems, fmt.Sprintf("event %v from an unknown request", e))
			continue
		}
		if len(keys[t]) == 0 {
			if e.Kind != "ret" {
				problems = append(problems, fmt.Sprintf("request %d (%s) has no lockable keys but made the call %s", t, reqs[t].Op, e.Kind))
			}
			continue
		}
		s := &st[t]
		switch e.Kind {
		case "prelock":
			if s.pre {
				problems = append(problems, fmt.Sprintf("request %d: PreLock twice", t))
			}
			s.pre = true
			sched = append(sched, t)
		case "lock":
			if !s.pre || s.post || s.locks >= len(keys[t]) || keys[t][s.locks] != e.Key {
				problems = append(problems, fmt.Sprintf("request %d (%s): Lock(key#%d) out of protocol (keys %v, %d locked, prelock %v postlock %v)", t, reqs[t].Op, e.Key, keys[t], s.locks, s.pre, s.post))
			}
			s.locks++
			sched = append(sched, t)
		case "postlock":
			if !s.pre || s.locks != len(keys[t]) {
				problems = append(problems, fmt.Sprintf("request %d (%s): PostLock after %d of %d locks", t, reqs[t].Op, s.locks, len(keys[t])))
			}
			s.post = true
			sched = append(sched, t)
		case "fetch":
			if !s.post || s.unlocks > 0 {
				problems = append(problems, fmt.Sprintf("request %d (%s): protection record of key#%d read outside the locked section", t, reqs[t].Op, e.Key))
			}
			holds := false
			for _, k := range keys[t] {
				if k == e.Key {
					holds = true
				}
			}
			if !holds {
				problems = append(problems, fmt.Sprintf("request %d (%s): read key#%d which it does not lock", t, reqs[t].Op, e.Key))
			}
			if s.fetches < len(keys[t]) {
				s.fetches++
				sched = append(sched, t)
			}
		case "commit":
			if !s.post || s.unlocks > 0 {
				problems = append(problems, fmt.Sprintf("request %d (%s): protection record written outside the locked section", t, reqs[t].Op))
			}
			pendingReads(t)
		case "unlock":
			if !s.post {
				problems = append(problems, fmt.Sprintf("request %d: Unlock before PostLock", t))
			}
			pendingReads(t)
			want := -1
			if s.unlocks < len(keys[t]) {
				want = keys[t][len(keys[t])-1-s.unlocks]
			}
			if want != e.Key {
				problems = append(problems, fmt.Sprintf("request %d (%s): Unlock(key#%d), expected key#%d", t, reqs[t].Op, e.Key, want))
			}
			s.unlocks++
			sched = append(sched, t)
		case "ret":
			if s.unlocks != len(keys[t]) || !s.pre {
				problems = append(problems, fmt.Sprintf("request %d (%s) returned holding %d of %d key locks (prelock %v)", t, reqs[t].Op, len(keys[t])-s.unlocks, len(keys[t]), s.pre))
			}
			s.ret = true
			sched = append(sched, t)
		}
	}
	return sched, problems
}

func coqCreq(inst *Instance, op *Op) string {
	switch op.Kind {
	case KAttest, KAttests:
		var items []string
		for i, ad := range op.Addrs {
			a := inst.resolveInfo(ad)
			d := op.Atts[i]
			items = append(items, fmt.Sprintf("AR %s %s %s %s", coqN(a.ID), coqBytes(d.Dom), coqU(d.Src.Epoch), coqU(d.Tgt.Epoch)))
		}
		return "(QAtts " + coqList(items) + ")"
	case KPropose:
		a := inst.resolveInfo(op.Addrs[0])
		return fmt.Sprintf("(QProp (PR %s %s %s))", coqN(a.ID), coqBytes(op.Props[0].Dom), coqU(op.Props[0].Slot))
	default:
		var items []string
		for i, ad := range op.Addrs {
			a := inst.resolveInfo(ad)
			items = append(items, fmt.Sprintf("(%s, %s)", coqN(a.ID), coqBytes(op.Signs[i].Dom)))
		}
		return fmt.Sprintf("(QSigns %s %s)", coqStr(op.IP), coqList(items))
	}
}

// cmdConc drives C04 (prop = "C04") and C15 (prop = "C15").
func cmdConc(prop string, args []string) int {
	cf := parseCommon(prop, args, nil)
	ctx := context.Background()
	fx, err := NewFixture(ctx, 1, 5, false)
	if err != nil {
		fmt.Fprintln(os.Stderr, "fixture:", err)
		return 2
	}
	stdPermTbl = map[string][]string{"client1": {"Wallet 1"}}
	rng := NewPRNG(cf.seed)
	rounds, maxReq := 150, 10
	if cf.tier == "thorough" {
		rounds, maxReq = 300, 24
	}
	var monFail, samples, ncases []string
	stats := map[string]int{}
	idx := map[string]string{}
	real, err := syncmaplocker.New(ctx)
	if err != nil {
		return 2
	}
	rl := &recLocker{real: real, fx: fx}
	inst, err := NewInstance(ctx, fx, InstanceOpts{AdminIPs: []string{"10.0.0.1"}, Perms: permsFromTbl(stdPermTbl), Locker: rl})
	if err != nil {
		fmt.Fprintln(os.Stderr, "instance:", err)
		return 2
	}
	defer inst.Close(ctx)
	epoch := uint64(1)
	for round := 0; round < rounds; round++ {
		nreq := 2 + rng.Intn(maxReq-1)
		epoch += 3
		var reqs []*concReq
		// a shared key set; key lists are ordered selections from it
		shared := []int{0, 1, 2, 3, 4}
		for i := 0; i < nreq; i++ {
			op := &Op{Client: "client1", IP: "10.0.0.1"}
			g := &genState{fx: fx, rng: rng}
			switch r := rng.Intn(10); {
			case r < 2 && prop == "C04":
				op.Kind = KPropose
				a := fx.Accounts[shared[rng.Intn(3)]]
				op.Addrs = []Addr{g.addrFor(a)}
				op.Props = []PropData{{Dom: mkDomain(domProposer, 0), Slot: epoch + uint64(rng.Intn(2)), Pidx: 1, Parent: fill32(0), State: fill32(byte(i + 1)), Body: fill32(byte(i + 1))}}
			case r < 5:
				op.Kind = KAttest
				a := fx.Accounts[shared[rng.Intn(3)]]
				op.Addrs = []Addr{g.addrFor(a)}
				// rivals: same target, different roots - at most one may be signed
				op.Atts = []AttData{{Dom: mkDomain(domAttester, 0), BBR: fill32(byte(i + 1)), Src: &Checkpoint{epoch - 1, fill32(0)}, Tgt: &Checkpoint{epoch + uint64(rng.Intn(2)), fill32(byte(i + 1))}}}
			default:
				op.Kind = KAttests
				k := 2 + rng.Intn(3)
				perm := append([]int{}, shared...)
				for a := len(perm) - 1; a > 0; a-- {
					b := rng.Intn(a + 1)
					perm[a], perm[b] = perm[b], perm[a]
				}
				// opposite orders for neighbouring requests
				if i%2 == 1 && len(reqs) > 0 && reqs[len(reqs)-1].Op.Kind == KAttests {
					prev := reqs[len(reqs)-1].Op
					perm = perm[:0]
					for j := len(prev.Addrs) - 1; j >= 0; j-- {
						perm = append(perm, inst.resolveInfo(prev.Addrs[j]).ID-1)
					}
					k = len(perm)
				}
				for j := 0; j < k; j++ {
					a := fx.Accounts[perm[j]]
					op.Addrs = append(op.Addrs, g.addrFor(a))
					op.Atts = append(op.Atts, AttData{Dom: mkDomain(domAttester, 0), BBR: fill32(byte(i + 1)), Src: &Checkpoint{epoch - 1, fill32(0)}, Tgt: &Checkpoint{epoch + uint64(rng.Intn(2)), fill32(byte(i + 1))}})
				}
				if rng.Chance(5) && k > 1 {
					op.Addrs[k-1] = op.Addrs[0] // a repeated key: rejected before locking
				}
			}
			reqs = append(reqs, &concReq{Op: op})
		}
		// steering: park some requests between read and write, and between lock acquisitions
		parkAfterFetch := map[int]bool{}
		slowLock := map[int]bool{}
		for i := range reqs {
			if rng.Chance(35) {
				parkAfterFetch[i] = true
			}
			if rng.Chance(35) {
				slowLock[i] = true
			}
		}
		rl.delay = func(t int, kind string, key int) {
			switch kind {
			case "after-fetch":
				if parkAfterFetch[t] {
					time.Sleep(2 * time.Millisecond)
				}
			case "before-lock":
				if slowLock[t] {
					time.Sleep(time.Millisecond)
				}
			}
		}
		pre, _ := inst.ReadStore(ctx)
		events, stuck := concRound(ctx, fx, inst, rl, reqs, 20*time.Second)
		if stuck {
			monFail = append(monFail, fmt.Sprintf("round %d: %d concurrent requests did not all complete within the watchdog (deadlock): %s", round, nreq, describeReqs(reqs)))
			stats["stuck"]++
			break
		}
		post, _ := inst.ReadStore(ctx)
		stats["rounds"]++
		stats["requests"] += nreq
		sched, problems := toSchedule(inst, reqs, events)
		for _, p := range problems {
			monFail = append(monFail, fmt.Sprintf("round %d: %s", round, p))
		}
		// the property itself: rivals for a key are never both signed; no approved update is lost
		monFail = append(monFail, rivalsMonitor(inst, reqs, post, round)...)
		var rq, obs []string
		for _, r := range reqs {
			rq = append(rq, coqCreq(inst, r.Op))
			var o []string
			for _, x := range r.Obs {
				o = append(o, coqCres(x.State))
			}
			obs = append(obs, coqList(o))
		}
		var ss []string
		for _, t := range sched {
			ss = append(ss, fmt.Sprintf("%d", t))
		}
		id := round + 1
		ncases = append(ncases, fmt.Sprintf(" NC %s %s %s [%s]%%nat %s %s", coqN(id), coqStore(pre), coqList(rq), strings.Join(ss, ";"), coqList(obs), coqStore(post)))
		idx[fmt.Sprint(id)] = fmt.Sprintf("round %d: %s :: events %v", round, describeReqs(reqs), compactEvents(events))
		if len(samples) < 2 {
			samples = append(samples, idx[fmt.Sprint(id)])
		}
	}
	// requests for DIFFERENT keys at the same time do not touch each other's records: five clients, one key each, each
	// with its own sequence of proposal slots and attestation epochs; afterwards every key's records are exactly the
	// last duty of its own sequence, and every duty of the sequences was signed
	if prop == "C04" && stats["stuck"] == 0 {
		plain, err := NewInstance(ctx, fx, InstanceOpts{AdminIPs: []string{"10.0.0.1"}, Perms: permsFromTbl(stdPermTbl)})
		if err == nil {
			const perKey = 50
			var wg sync.WaitGroup
			var fmu sync.Mutex
			refused := 0
			for ki := 0; ki < 5; ki++ {
				wg.Add(1)
				go func(ki int) {
					defer wg.Done()
					a := fx.Accounts[ki]
					base := uint64(100000 * (ki + 1))
					for j := uint64(0); j < perKey; j++ {
						pop := &Op{Kind: KPropose, Client: "client1", IP: "10.0.0.1", Addrs: []Addr{{Name: a.Path()}},
							Props: []PropData{{Dom: mkDomain(domProposer, 0), Slot: base + j, Pidx: 1, Parent: fill32(0), State: fill32(1), Body: fill32(1)}}}
						aop := &Op{Kind: KAttest, Client: "client1", IP: "10.0.0.1", Addrs: []Addr{{Name: a.Path()}},
							Atts: []AttData{{Dom: mkDomain(domAttester, 0), BBR: fill32(1), Src: &Checkpoint{base + j, fill32(0)}, Tgt: &Checkpoint{base + j + 1, fill32(1)}}}}
						for _, op := range []*Op{pop, aop} {
							obs, err := plain.ExecCtx(ctx, op)
							if err != nil || len(obs) != 1 || obs[0].State != core.ResultSucceeded {
								fmu.Lock()
								refused++
								if refused <= 3 {
									monFail = append(monFail, fmt.Sprintf("five clients with a key each: the advancing duty %s of key#%d's own sequence was not signed (%v)", op, a.ID, obs))
								}
								fmu.Unlock()
							}
						}
					}
				}(ki)
			}
			wg.Wait()
			if sv, err := plain.ReadStore(ctx); err == nil {
				for ki := 0; ki < 5; ki++ {
					a := fx.Accounts[ki]
					base := int64(100000 * (ki + 1))
					if sv.Prop[a.ID] != base+perKey-1 || sv.Att[a.ID].Src != base+perKey-1 || sv.Att[a.ID].Tgt != base+perKey {
						monFail = append(monFail, fmt.Sprintf("five clients with a key each: key#%d signed proposals up to slot %d and attestations up to %d->%d, but its records say slot %d and %d->%d (another key's request wrote or read here)",
							a.ID, base+perKey-1, base+perKey-1, base+perKey, sv.Prop[a.ID], sv.Att[a.ID].Src, sv.Att[a.ID].Tgt))
					}
				}
			}
			stats["separate-keys.requests"] = 5 * perKey * 2
			plain.Close(ctx)
		}
	}
	// a caller that gives up while its request sits between the read and the write of a record: the
	// request must either not write at all or keep excluding rivals until it has written
	if prop == "C04" && stats["stuck"] == 0 {
		nCancel := 4
		if cf.tier == "thorough" {
			nCancel = 30
		}
		for r := 0; r < nCancel; r++ {
			epoch += 4
			k := fx.Accounts[r%5]
			mk := func(s, t uint64, root byte) *Op {
				return &Op{Kind: KAttest, Client: "client1", IP: "10.0.0.1", Addrs: []Addr{{Name: k.Path()}},
					Atts: []AttData{{Dom: mkDomain(domAttester, 0), BBR: fill32(root), Src: &Checkpoint{s, fill32(0)}, Tgt: &Checkpoint{t, fill32(root)}}}}
			}
			if obs, err := inst.ExecCtx(ctx, mk(epoch-1, epoch, 1)); err != nil || obs[0].State != core.ResultSucceeded {
				continue
			}
			cctx, cancel := context.WithCancel(ctx)
			a := &concReq{Op: mk(epoch, epoch+1, 0xa1), Ctx: cctx}
			b := &concReq{Op: mk(epoch+1, epoch+2, 0xb2)}
			rl.delay = func(t int, kind string, key int) {
				if kind == "after-fetch" && t == 0 {
					time.Sleep(300 * time.Millisecond)
				}
				if kind == "before-prelock" && t == 1 {
					time.Sleep(60 * time.Millisecond) // let the first request take the key first
				}
			}
			go func() { time.Sleep(120 * time.Millisecond); cancel() }()
			_, stuck := concRound(ctx, fx, inst, rl, []*concReq{a, b}, 20*time.Second)
			rl.delay = nil
			cancel()
			time.Sleep(350 * time.Millisecond) // an abandoned evaluation, if any, has finished by now
			if stuck {
				monFail = append(monFail, fmt.Sprintf("cancel round %d: the requests did not complete", r))
				continue
			}
			cObs, err := inst.ExecCtx(ctx, mk(epoch+1, epoch+2, 0xc3))
			post, _ := inst.ReadStore(ctx)
			stats["cancel.rounds"]++
			bOK := b.Done && len(b.Obs) == 1 && b.Obs[0].State == core.ResultSucceeded
			if bOK && err == nil && cObs[0].State == core.ResultSucceeded {
				monFail = append(monFail, fmt.Sprintf("cancel round %d: after a request for key#%d was cancelled between its read and its write, two different attestations %d->%d were both approved (record now %+v)", r, k.ID, epoch+1, epoch+2, post.Att[k.ID]))
			}
			if bOK && post.Att[k.ID].Tgt < int64(epoch+2) {
				monFail = append(monFail, fmt.Sprintf("cancel round %d: the record of key#%d went back to %+v after %d->%d had been approved (lost update)", r, k.ID, post.Att[k.ID], epoch+1, epoch+2))
			}
		}
	}
	// sustained random load (C15): many rounds without delays, only completion is checked
	if prop == "C15" && stats["stuck"] == 0 {
		rl.delay = nil
		load := 40
		if cf.tier == "thorough" {
			load = 600
		}
		for r := 0; r < load; r++ {
			epoch += 2
			var reqs []*concReq
			for i := 0; i < 16; i++ {
				op := &Op{Kind: KAttests, Client: "client1", IP: "10.0.0.1"}
				perm := rngPerm(rng, 5)
				for j := 0; j < 2+rng.Intn(4); j++ {
					a := fx.Accounts[perm[j]]
					op.Addrs = append(op.Addrs, Addr{Name: a.Path()})
					op.Atts = append(op.Atts, AttData{Dom: mkDomain(domAttester, 0), BBR: fill32(byte(i + 1)), Src: &Checkpoint{epoch - 1, fill32(0)}, Tgt: &Checkpoint{epoch, fill32(byte(i + 1))}})
				}
				reqs = append(reqs, &concReq{Op: op})
			}
			if _, stuck := concRound(ctx, fx, inst, rl, reqs, 20*time.Second); stuck {
				monFail = append(monFail, fmt.Sprintf("sustained load round %d: 16 concurrent batches over 5 shared keys did not complete (deadlock)", r))
				break
			}
			stats["load.rounds"]++
		}
		// very large batches through the ruler itself (any size must complete and leave nothing locked)
		// batch sizes just above the number of processors, for several numbers of processors (the fan-out of a
		// batch over workers depends on both)
		for _, procs := range []int{2, 3, 4, 5, 7, 16} {
			if len(monFail) > 0 {
				break
			}
			for _, n := range []int{procs + 1, procs + 2, 2*procs + 1, 3*procs - 1, 3 * procs, 5*procs + 3} {
				epoch += 2
				data := make([]*ruler.RulesData, n)
				for i := range data {
					data[i] = &ruler.RulesData{WalletName: "Big", AccountName: fmt.Sprintf("P%d", i), PubKey: rng.Bytes(48),
						Data: &rules.SignBeaconAttestationData{Domain: mkDomain(domAttester, 0), Slot: epoch * 32, BeaconBlockRoot: fill32(1),
							Source: &rules.Checkpoint{Epoch: epoch - 1, Root: fill32(0)}, Target: &rules.Checkpoint{Epoch: epoch, Root: fill32(1)}}}
				}
				old := runtime.GOMAXPROCS(procs)
				done := make(chan []rules.Result, 1)
				go func() {
					done <- inst.RealRuler.RunRules(ctx, &checker.Credentials{Client: "client1", IP: "10.0.0.1"}, ruler.ActionSignBeaconAttestation, data)
				}()
				stuckHere := false
				select {
				case res := <-done:
					ok := 0
					for _, r := range res {
						if r == rules.APPROVED {
							ok++
						}
					}
					if ok != n {
						monFail = append(monFail, fmt.Sprintf("a batch of %d fresh, valid attestations through the ruler (GOMAXPROCS %d) got %d approvals", n, procs, ok))
					}
					stats["procbatch.completed"]++
				case <-time.After(30 * time.Second):
					monFail = append(monFail, fmt.Sprintf("a batch of %d attestations over distinct keys through the ruler with GOMAXPROCS %d never completed (30 s)", n, procs))
					stuckHere = true
				}
				runtime.GOMAXPROCS(old)
				if stuckHere {
					break
				}
			}
		}
		sizes := []int{2, 255, 256, 257, 600, 1025, 2048}
		if cf.tier == "thorough" {
			sizes = append(sizes, 2049, 5000)
		}
		var seenKeys [][]byte // every key of these batches; all of them are asked for again afterwards
		for pass, n := 0, 0; pass < len(sizes)+12; pass++ {
			again := pass >= len(sizes)
			if !again {
				n = sizes[pass]
			} else {
				// an instance that has served several thousand validators serves each of them again
				n = 512
				if (pass-len(sizes))*n >= len(seenKeys) {
					break
				}
			}
			epoch += 2
			data := make([]*ruler.RulesData, n)
			for i := range data {
				key := rng.Bytes(48)
				if again {
					key = seenKeys[((pass-len(sizes))*n+i)%len(seenKeys)]
				} else {
					seenKeys = append(seenKeys, key)
				}
				data[i] = &ruler.RulesData{WalletName: "Big", AccountName: fmt.Sprintf("A%d", i), PubKey: key,
					Data: &rules.SignBeaconAttestationData{Domain: mkDomain(domAttester, 0), Slot: epoch * 32, BeaconBlockRoot: fill32(1),
						Source: &rules.Checkpoint{Epoch: epoch - 1, Root: fill32(0)}, Target: &rules.Checkpoint{Epoch: epoch, Root: fill32(1)}}}
			}
			done := make(chan []rules.Result, 1)
			go func() {
				done <- inst.RealRuler.RunRules(ctx, &checker.Credentials{Client: "client1", IP: "10.0.0.1"}, ruler.ActionSignBeaconAttestation, data)
			}()
			select {
			case res := <-done:
				ok := 0
				for _, r := range res {
					if r == rules.APPROVED {
						ok++
					}
				}
				if ok != n {
					monFail = append(monFail, fmt.Sprintf("a batch of %d fresh, valid attestations through the ruler got %d approvals", n, ok))
				}
				if again {
					stats["bigbatch.keys-served-again"] += ok
				} else {
					stats[fmt.Sprintf("bigbatch.n=%d", n)] = ok
				}
			case <-time.After(30 * time.Second):
				if again {
					monFail = append(monFail, fmt.Sprintf("after %d distinct keys, a batch of %d attestations for keys served before never completed (30 s)", len(seenKeys), n))
				} else {
					monFail = append(monFail, fmt.Sprintf("a batch of %d attestations through the ruler never completed (30 s)", n))
				}
			}
			if len(monFail) > 0 {
				break
			}
		}
		// accounts created after start-up: requests naming them by public key keep completing while further
		// accounts are being registered with the account cache (what an account generation does when it ends)
		if len(monFail) == 0 {
			if w, err := fx.Fetcher.FetchWallet(ctx, "Wallet 1"); err == nil {
				if l, ok := w.(e2wtypes.WalletLocker); ok {
					_ = l.Unlock(ctx, nil)
				}
				var made []e2wtypes.Account
				for i := 0; i < 20; i++ {
					if a, err := w.(e2wtypes.WalletAccountCreator).CreateAccount(ctx, fmt.Sprintf("Runtime %d", i), []byte("pass")); err == nil {
						made = append(made, a)
					}
				}
				if len(made) == 20 {
					for _, a := range made[:6] {
						_ = fx.Fetcher.AddAccount(ctx, w, a)
					}
					finished := make(chan int, 1)
					go func() {
						var wg sync.WaitGroup
						stop := make(chan struct{})
						signed := int64(0)
						for g := 0; g < 8; g++ {
							wg.Add(1)
							go func(g int) {
								defer wg.Done()
								hctx := ctxWithClient(ctx, "client1", "10.0.0.1")
								for i := 0; ; i++ {
									select {
									case <-stop:
										return
									default:
									}
									a := made[(g+i)%6]
									res, err := inst.Handler.Sign(hctx, &pb.SignRequest{Id: &pb.SignRequest_PublicKey{PublicKey: a.PublicKey().Marshal()}, Domain: mkDomain(domRandao, 0), Data: fill32(byte(i))})
									if err == nil && res.GetState() == pb.ResponseState_SUCCEEDED {
										atomic.AddInt64(&signed, 1)
									}
								}
							}(g)
						}
						// registrations keep arriving for a second and a half
						for until := time.Now().Add(1500 * time.Millisecond); time.Now().Before(until); {
							for _, a := range made[6:] {
								_ = fx.Fetcher.AddAccount(ctx, w, a)
							}
							time.Sleep(100 * time.Microsecond)
						}
						close(stop)
						wg.Wait()
						finished <- int(atomic.LoadInt64(&signed))
					}()
					select {
					case n := <-finished:
						stats["runtime-accounts.signed"] = n
						if n == 0 {
							monFail = append(monFail, "requests by public key for accounts created after start-up: none was signed")
						}
					case <-time.After(40 * time.Second):
						monFail = append(monFail, "signing requests naming accounts created after start-up by public key stopped completing while further accounts were being registered with the account cache (40 s)")
						stats["stuck"]++
					}
				}
			}
		}
		// overlapping requests for an account that cannot be unlocked (none of the configured passphrases opens
		// it): every one of them is answered
		if len(monFail) == 0 {
			if w, err := fx.Fetcher.FetchWallet(ctx, "Wallet 1"); err == nil {
				if l, ok := w.(e2wtypes.WalletLocker); ok {
					_ = l.Unlock(ctx, nil)
				}
				if a, err := w.(e2wtypes.WalletAccountCreator).CreateAccount(ctx, "Sealed", []byte("a passphrase the instance does not know")); err == nil {
					_ = fx.Fetcher.AddAccount(ctx, w, a)
					if l, ok := a.(e2wtypes.AccountLocker); ok {
						_ = l.Lock(ctx)
					}
					finished := make(chan int, 1)
					go func() {
						var wg sync.WaitGroup
						answered := int64(0)
						for g := 0; g < 8; g++ {
							wg.Add(1)
							go func(g int) {
								defer wg.Done()
								hctx := ctxWithClient(ctx, "client1", "10.0.0.1")
								for i := 0; i < 3; i++ {
									if g%2 == 0 {
										_, _ = inst.Handler.Sign(hctx, &pb.SignRequest{Id: &pb.SignRequest_Account{Account: "Wallet 1/Sealed"}, Domain: mkDomain(domRandao, 0), Data: fill32(byte(i))})
									} else {
										_, _ = inst.Handler.Multisign(hctx, &pb.MultisignRequest{Requests: []*pb.SignRequest{
											{Id: &pb.SignRequest_Account{Account: "Wallet 1/Sealed"}, Domain: mkDomain(domRandao, 0), Data: fill32(byte(i))},
											{Id: &pb.SignRequest_Account{Account: fx.Accounts[g%len(fx.Accounts)].Path()}, Domain: mkDomain(domRandao, 0), Data: fill32(byte(i))}}})
									}
									atomic.AddInt64(&answered, 1)
								}
							}(g)
						}
						wg.Wait()
						finished <- int(atomic.LoadInt64(&answered))
					}()
					select {
					case n := <-finished:
						stats["sealed-account.answered"] = n
					case <-time.After(40 * time.Second):
						monFail = append(monFail, "overlapping signing requests (single and batch) naming an account that none of the configured passphrases can unlock were not all answered (40 s)")
						stats["stuck"]++
					}
				}
			}
		}
		// the same kind of load on an instance whose ruler is given the locker as the daemon gives it (no
		// recording wrapper in between): batches over shared keys in changing orders, and single requests
		if len(monFail) == 0 {
			plain, err := NewInstance(ctx, fx, InstanceOpts{AdminIPs: []string{"10.0.0.1"}, Perms: permsFromTbl(stdPermTbl)})
			if err == nil {
				base := epoch + 1000
				finished := make(chan int, 1)
				go func() {
					var wg sync.WaitGroup
					done := int64(0)
					for g := 0; g < 12; g++ {
						wg.Add(1)
						go func(g int) {
							defer wg.Done()
							for i := 0; i < 30; i++ {
								ep := base + uint64(2*i)
								op := &Op{Kind: KAttests, Client: "client1", IP: "10.0.0.1"}
								n := 1 + (g+i)%3
								for j := 0; j < n; j++ {
									a := fx.Accounts[(g+i*(j+1)+j)%5]
									dup := false
									for _, ad := range op.Addrs {
										dup = dup || ad.Name == a.Path()
									}
									if dup {
										continue
									}
									op.Addrs = append(op.Addrs, Addr{Name: a.Path()})
									op.Atts = append(op.Atts, AttData{Dom: mkDomain(domAttester, 0), BBR: fill32(byte(g + 1)), Src: &Checkpoint{ep - 1, fill32(0)}, Tgt: &Checkpoint{ep, fill32(byte(g + 1))}})
								}
								if len(op.Addrs) == 1 && i%2 == 0 {
									op.Kind = KAttest
								}
								_, _ = plain.ExecCtx(ctx, op)
								atomic.AddInt64(&done, 1)
							}
						}(g)
					}
					wg.Wait()
					finished <- int(atomic.LoadInt64(&done))
				}()
				select {
				case n := <-finished:
					stats["plain-locker.requests"] = n
				case <-time.After(60 * time.Second):
					monFail = append(monFail, "twelve clients sending batches over five shared keys (in changing orders) and single requests to an instance with the daemon's own locker: the requests stopped completing (60 s)")
					stats["stuck"]++
				}
				if stats["stuck"] == 0 {
					plain.Close(ctx)
				}
			}
		}
		// callers that give up - a cancelled or expired request context, before or while the locks
		// are being taken - must leave nothing locked: an unrelated request afterwards completes
		mkBatch := func(keys []int, root byte) *Op {
			op := &Op{Kind: KAttests, Client: "client1", IP: "10.0.0.1"}
			for _, k := range keys {
				a := fx.Accounts[k]
				op.Addrs = append(op.Addrs, Addr{Name: a.Path()})
				op.Atts = append(op.Atts, AttData{Dom: mkDomain(domAttester, 0), BBR: fill32(root), Src: &Checkpoint{epoch - 1, fill32(0)}, Tgt: &Checkpoint{epoch, fill32(root)}})
			}
			return op
		}
		finishes := func(c context.Context, op *Op, limit time.Duration) bool {
			done := make(chan struct{})
			go func() {
				defer close(done)
				_, _ = inst.ExecCtx(c, op)
			}()
			select {
			case <-done:
				return true
			case <-time.After(limit):
				return false
			}
		}
		for r := 0; r < 8; r++ {
			epoch += 2
			var c context.Context
			var cancel context.CancelFunc
			what := ""
			switch r % 3 {
			case 0:
				c, cancel = context.WithCancel(ctx)
				cancel()
				what = "an already cancelled caller"
			case 1:
				c, cancel = context.WithTimeout(ctx, time.Millisecond)
				time.Sleep(3 * time.Millisecond)
				what = "a caller whose deadline has passed"
			default:
				// the deadline expires while another batch holds one of the keys
				c, cancel = context.WithTimeout(ctx, 2*time.Millisecond)
				go func() { _, _ = inst.ExecCtx(ctx, mkBatch([]int{0, 1, 2, 3, 4}, byte(40+r))) }()
				what = "a caller whose deadline expires while it waits"
			}
			if !finishes(c, mkBatch([]int{0, 2}, byte(60+r)), 15*time.Second) {
				monFail = append(monFail, fmt.Sprintf("the batch of %s did not return within the watchdog", what))
			}
			cancel()
			epoch += 2
			if !finishes(ctx, mkBatch([]int{3}, byte(80+r)), 15*time.Second) {
				monFail = append(monFail, fmt.Sprintf("after the batch of %s, an unrelated request on another key never completed (a lock was left held)", what))
				break
			}
			stats["giveup.rounds"]++
		}
	}

	var b strings.Builder
	b.WriteString("From DV Require Import Corr.CheckConc.\nLocal Open Scope Z_scope.\nLocal Open Scope string_scope.\n")
	fmt.Fprintf(&b, "Definition rcfg0 : rcfg := {| guard63 := %s; admin_ips := %s |}.\n", coqBool(cf.g63), coqStrList([]string{"10.0.0.1"}))
	fmt.Fprintf(&b, "Definition keys : list N := %s.\n", coqKeyIDs(fx))
	fmt.Fprintf(&b, "Definition cases : list ncase := [\n%s].\n", strings.Join(ncases, ";\n"))
	b.WriteString("Definition M := Eval vm_compute in conc_mismatches rcfg0 keys cases.\nPrint M.\n")
	fn := fmt.Sprintf("cases_%s_0.v", prop)
	if err := os.WriteFile(filepath.Join(cf.out, fn), []byte(b.String()), 0o644); err != nil {
		return 2
	}
	sum := &Summary{Property: prop, Seed: cf.seed, Tier: cf.tier, Evaluations: stats["requests"] + 16*stats["load.rounds"], Distinct: len(ncases) + stats["load.rounds"],
		Rule:         "rounds of 2-8 (thorough: 2-24) concurrently issued requests over 5 shared keys: single attestations and proposals that are rivals for a key (same target or slot, different roots), batches whose key lists are ordered selections of the shared keys with neighbouring batches in opposite orders, occasionally a batch repeating a key; a recording locker and the store hooks give the global real-time order of PreLock/Lock/PostLock/Fetch/Commit/Unlock/Return; requests are parked between read and write and between lock acquisitions; the event order is mapped to a model schedule that the model must accept with the observed verdicts and final store; for C15 additionally sustained load of 16 concurrent batches per round under a watchdog; distinct = rounds",
		Histories:    stats["rounds"] + stats["load.rounds"],
		Distribution: stats, Samples: samples, MonitorFailures: monFail, CaseFiles: []string{fn}, CaseIndex: idx}
	if err := writeSummary(cf.out, sum); err != nil {
		return 2
	}
	return 0
}

func rngPerm(rng *PRNG, n int) []int {
	p := make([]int, n)
	for i := range p {
		p[i] = i
	}
	for i := n - 1; i > 0; i-- {
		j := rng.Intn(i + 1)
		p[i], p[j] = p[j], p[i]
	}
	return p
}

func describeReqs(reqs []*concReq) string {
	var parts []string
	for i, r := range reqs {
		var st []string
		for _, o := range r.Obs {
			st = append(st, o.State.String())
		}
		parts = append(parts, fmt.Sprintf("#%d %s => %v", i, r.Op, st))
	}
	s := strings.Join(parts, " | ")
	if len(s) > 1800 {
		s = s[:1800] + "..."
	}
	return s
}

func compactEvents(ev []cEvent) string {
	var parts []string
	for _, e := range ev {
		if e.Key != 0 {
			parts = append(parts, fmt.Sprintf("%d:%s(%d)", e.T, e.Kind, e.Key))
		} else {
			parts = append(parts, fmt.Sprintf("%d:%s", e.T, e.Kind))
		}
	}
	s := strings.Join(parts, " ")
	if len(s) > 1500 {
		s = s[:1500] + "..."
	}
	return s
}

// rivalsMonitor: among the requests of a round, two different attestations of one key with the same
// target (or two proposals at one slot) are never both signed, and the stored record is at least
// every signed duty.
func rivalsMonitor(inst *Instance, reqs []*concReq, post *StoreView, round int) []string {
	var out []string
	type sig struct {
		s, t uint64
		req  int
	}
	atts := map[int][]sig{}
	props := map[int][]sig{}
	for ri, r := range reqs {
		for i, o := range r.Obs {
			if o.State != core.ResultSucceeded || i >= len(r.Op.Addrs) {
				continue
			}
			a := inst.resolveInfo(r.Op.Addrs[i])
			switch r.Op.Kind {
			case KAttest, KAttests:
				atts[a.ID] = append(atts[a.ID], sig{r.Op.Atts[i].Src.Epoch, r.Op.Atts[i].Tgt.Epoch, ri})
			case KPropose:
				props[a.ID] = append(props[a.ID], sig{0, r.Op.Props[i].Slot, ri})
			}
		}
	}
	for id, l := range atts {
		for i := range l {
			for j := i + 1; j < len(l); j++ {
				if l[i].t == l[j].t {
					out = append(out, fmt.Sprintf("round %d: concurrent requests #%d and #%d both obtained a signature for key#%d at target %d :: %s", round, l[i].req, l[j].req, id, l[i].t, describeReqs(reqs)))
				}
			}
			if rec, ok := post.Att[id]; !ok || rec.Tgt < int64(l[i].t) {
				out = append(out, fmt.Sprintf("round %d: lost update: key#%d signed target %d but the stored record is %+v", round, id, l[i].t, rec))
			}
		}
	}
	for id, l := range props {
		for i := range l {
			for j := i + 1; j < len(l); j++ {
				if l[i].t == l[j].t {
					out = append(out, fmt.Sprintf("round %d: concurrent requests #%d and #%d both obtained a proposal signature for key#%d at slot %d", round, l[i].req, l[j].req, id, l[i].t))
				}
			}
			if rec, ok := post.Prop[id]; !ok || rec < int64(l[i].t) {
				out = append(out, fmt.Sprintf("round %d: lost update: key#%d signed slot %d but the stored slot is %d", round, id, l[i].t, rec))
			}
		}
	}
	return out
}
