From DV Require Import Model.Ruler Proofs.AssocFacts Proofs.RulesProofs.
From Coq Require Import Lia.
Local Open Scope Z_scope.

Lemma first_dup_from_none seen ks i :
  first_dup_from seen ks i = None -> NoDup ks /\ forall k, In k ks -> ~ In k seen.
Proof.
  revert seen i. induction ks as [|k ks IH]; intros seen i; cbn.
  - intros _. split; [constructor|intros ? []].
  - destruct (existsb (N.eqb k) seen) eqn:E; [discriminate|].
    intros H. apply IH in H. destruct H as [ND Hn]. split.
    + constructor; auto. intros Hin. apply (Hn k Hin). now left.
    + intros k' [<-|Hin] Hs.
      * assert (existsb (N.eqb k) seen = true) by (apply existsb_exists; exists k; split; auto; apply N.eqb_refl).
        congruence.
      * apply (Hn k' Hin). now right.
Qed.

Lemma first_dup_none ks : first_dup ks = None -> NoDup ks.
Proof. intros H. now apply first_dup_from_none in H. Qed.

Lemma set_nth_no_approved i l : ~ In RApproved l -> ~ In RApproved (set_nth i RFailed l).
Proof.
  revert i. induction l as [|x l IH]; intros i H.
  { destruct i; cbn; intros []. }
  destruct i; cbn.
  - intros [E|Hin]; [discriminate|]. apply H. now right.
  - intros [E|Hin]; [apply H; now left|]. apply (IH i); auto. intros ?; apply H; now right.
Qed.

Lemma fail_at_no_approved n i : ~ In RApproved (fail_at n i).
Proof.
  unfold fail_at. apply set_nth_no_approved. intros H. apply repeat_spec in H. discriminate.
Qed.

Lemma repeat_failed_no_approved n : ~ In RApproved (repeat RFailed n).
Proof. intros H. apply repeat_spec in H. discriminate. Qed.

Definition same_view (st st' : store) : Prop :=
  (forall k, view_att st' k = view_att st k) /\ (forall k, view_prop st' k = view_prop st k).

Lemma same_view_refl st : same_view st st.
Proof. split; auto. Qed.

Lemma norm_chk c st r : norm (fst (chk c st r)) = fst (chk c st r).
Proof. unfold chk. destruct (att_checks_result c (r_dom r) (view_att st (r_key r)) (r_src r) (r_tgt r)) as [-> | ->]; auto. Qed.

(* The ruler's answer for attestations: either nothing is approved and the decoded store is
   unchanged, or keys are distinct, position i carries the verdict of the check of request i
   against the state before the call, and each named key's record becomes that check's state. *)
Lemma ruler_atts_char c st ok f rs rr st' :
  ruler_atts c st ok f rs = (rr, st') ->
  (~ In RApproved rr /\ same_view st st') \/
  (NoDup (map r_key rs) /\
   rr = map (fun r => fst (chk c st r)) rs /\
   (forall k, view_att st' k = match find (fun r => N.eqb (r_key r) k) rs with
                               | Some r => snd (chk c st r) | None => view_att st k end) /\
   (forall k, view_prop st' k = view_prop st k)).
Proof.
  unfold ruler_atts. destruct rs as [|r [|r2 rs]].
  - intros H; injection H as <- <-. left. split; [|apply same_view_refl]. cbn. intros [E|[]]; discriminate.
  - destruct ok.
    2:{ intros H; injection H as <- <-. left. split; [|apply same_view_refl]. cbn. intros [E|[]]; discriminate. }
    destruct (on_att c st f r) as [x st1] eqn:E. intros H; injection H as <- <-.
    unfold on_att in E. destruct (fetch_fails f 0).
    { injection E as <- <-. left. split; [|apply same_view_refl]. cbn. intros [?|[]]; discriminate. }
    fold (chk c st r) in E. destruct (chk c st r) as [res a'] eqn:Ec.
    assert (Hres : res = RApproved \/ res = RDenied).
    { pose proof (att_checks_result c (r_dom r) (view_att st (r_key r)) (r_src r) (r_tgt r)) as H.
      unfold chk in Ec. rewrite Ec in H. exact H. }
    destruct Hres as [-> | ->].
    + destruct (f_store f).
      { injection E as <- <-. left. split; [|apply same_view_refl]. cbn. intros [?|[]]; discriminate. }
      injection E as <- <-. right. split; [repeat constructor; intros []|]. split; [|split].
      * cbn. now rewrite Ec.
      * intros k. cbn. rewrite view_att_put_att. destruct (N.eqb (r_key r) k); auto. now rewrite Ec.
      * intros k. reflexivity.
    + injection E as <- <-. left. split; [|apply same_view_refl]. cbn. intros [?|[]]; discriminate.
  - remember (r :: r2 :: rs) as l eqn:El.
    destruct (first_dup (map r_key l)) eqn:Ed.
    { intros H; injection H as <- <-. left. split; [apply fail_at_no_approved|apply same_view_refl]. }
    apply first_dup_none in Ed.
    destruct ok.
    2:{ intros H; injection H as <- <-. left. split; [apply repeat_failed_no_approved|apply same_view_refl]. }
    intros H. apply on_atts_char in H; auto. destruct H as [[-> ->]|(Hr & Hv & Hp)].
    + left. split; [apply repeat_failed_no_approved|apply same_view_refl].
    + right. auto.
Qed.
