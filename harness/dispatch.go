package main

import "fmt"

func dispatch(cmd string, args []string) int {
	switch cmd {
	case "C01", "C02":
		return cmdSlashing(cmd, args)
	case "C05":
		return cmdDomains(args)
	case "C06":
		return cmdFaults(args)
	case "C09":
		return cmdLive(args)
	case "C10":
		return cmdImport(args)
	case "C11":
		return cmdExport(args)
	case "C07":
		return cmdPerms(args)
	case "C18":
		return cmdList(args)
	case "C08":
		return cmdSigs(args)
	case "C03":
		return cmdCrash(args)
	case "C03child":
		return cmdCrashChild(args)
	case "C04", "C15":
		return cmdConc(cmd, args)
	case "C12", "C13":
		return cmdDkg(cmd, args)
	case "C19":
		return cmdTLS(args)
	case "C20":
		return cmdWire(args)
	case "C14":
		return cmdClusterDuties(args)
	case "C16", "C17":
		return cmdSessions(cmd, args)
	default:
		fmt.Println("unknown command", cmd)
		return 2
	}
}
