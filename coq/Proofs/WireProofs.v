(* C20: no request that arrived over the wire makes the Signer handlers panic; the caller gets one
   entry per request. *)
From DV Require Import Model.Wire Proofs.SigProofs.
From Coq Require Import Lia.

Lemma decode_wf b : wf_field (decode b) = true.
Proof.
  destruct b as [|x b]; [reflexivity|]. cbn [decode wf_field wb_bytes wb_cap].
  apply andb_true_iff; split; [apply andb_true_iff; split|].
  - reflexivity.
  - apply Nat.leb_le. lia.
  - apply Nat.leb_le. lia.
Qed.

Lemma wf_not_short d : wf_field d = true ->
  match d with None => false | Some _ => negb (slice4_ok d) end = false.
Proof.
  destruct d as [b|]; [|reflexivity]. cbn [wf_field slice4_ok]. intros H.
  apply andb_true_iff in H. destruct H as [H _]. apply andb_true_iff in H. destruct H as [_ H].
  apply Nat.leb_le in H. apply negb_false_iff. apply Nat.leb_le. lia.
Qed.

Lemma no_short_in (doms : list wfield) : forallb wf_field doms = true ->
  existsb (fun d => match d with None => false | Some _ => negb (slice4_ok d) end) doms = false.
Proof.
  induction doms as [|d doms IH]; cbn; [reflexivity|]. intros H. apply andb_true_iff in H. destruct H as [H1 H2].
  now rewrite (wf_not_short d H1), IH.
Qed.

Lemma forallb_map_impl {A B} (f : A -> B) (p : B -> bool) (q : A -> bool) l :
  (forall x, q x = true -> p (f x) = true) -> forallb q l = true -> forallb p (map f l) = true.
Proof.
  intros H. induction l as [|x l IH]; cbn; [reflexivity|]. intros W. apply andb_true_iff in W. destruct W as [W1 W2].
  now rewrite (H x W1), IH.
Qed.

(* the domains a handler hands to the service are domains of the request *)
Lemma plan_doms_wf cl q o doms : wf_req q = true -> plan cl q = HCall o doms -> forallb wf_field doms = true.
Proof.
  destruct q as [r|l|r|l|r]; cbn [plan wf_req].
  - intros W. destruct (negb _); [discriminate|]. intros H; injection H as _ <-. cbn.
    unfold wf_sign in W. apply andb_true_iff in W. now rewrite (proj1 W).
  - intros W. destruct l as [|x l']; [discriminate|]. destruct (first_bad bad_sign (x :: l')) as [[i c]|]; [discriminate|].
    intros H; injection H as _ <-. apply (forallb_map_impl ws_dom wf_field wf_sign (x :: l')); [|exact W].
    intros r Hr. unfold wf_sign in Hr. apply andb_true_iff in Hr. exact (proj1 Hr).
  - intros W. destruct (bad_att r); [discriminate|]. destruct (wt_data r) eqn:E; [|discriminate].
    intros H; injection H as _ <-. cbn. unfold wf_att in W. apply andb_true_iff in W. now rewrite (proj1 W).
  - intros W. destruct l as [|x l']; [discriminate|]. destruct (first_bad bad_att (x :: l')) as [[i c]|]; [discriminate|].
    intros H; injection H as _ <-. apply (forallb_map_impl wt_dom wf_field wf_att (x :: l')); [|exact W].
    intros r Hr. unfold wf_att in Hr. apply andb_true_iff in Hr. exact (proj1 Hr).
  - intros W. destruct (wr_data r) eqn:E; [|discriminate]. destruct (negb _); [discriminate|].
    intros H; injection H as _ <-. cbn. unfold wf_prop in W. apply andb_true_iff in W. now rewrite (proj1 W).
Qed.

Theorem wire_no_panic c st cl q : wf_req q = true -> wire_step c st cl q <> None.
Proof.
  intros W. unfold wire_step. destruct (plan cl q) as [r|o doms] eqn:P; [discriminate|].
  rewrite (no_short_in doms (plan_doms_wf cl q o doms W P)). destruct (step c st o). discriminate.
Qed.

Lemma mark_length n i c : List.length (mark n i c) = n.
Proof. unfold mark. now rewrite map_length, seq_length. Qed.

(* one entry per request (a batch of none is answered by one DENIED entry) *)
Theorem wire_answers c st cl q : wf_req q = true ->
  exists r st', wire_step c st cl q = Some (r, st') /\ List.length r = expected_entries q.
Proof.
  intros W. pose proof (wire_no_panic c st cl q W) as NP. unfold wire_step in *.
  destruct (plan cl q) as [r|o doms] eqn:P.
  - exists (map (fun x => (x, false)) r), st. split; [reflexivity|]. rewrite map_length.
    destruct q as [r0|l|r0|l|r0]; cbn [plan expected_entries] in *.
    + destruct (negb _); [injection P as <-; reflexivity|discriminate].
    + destruct l as [|x l']; [injection P as <-; reflexivity|].
      destruct (first_bad bad_sign (x :: l')) as [[i c0]|]; [|discriminate]. injection P as <-. rewrite mark_length. cbn. lia.
    + destruct (bad_att r0); [injection P as <-; reflexivity|]. destruct (wt_data r0); [discriminate|injection P as <-; reflexivity].
    + destruct l as [|x l']; [injection P as <-; reflexivity|].
      destruct (first_bad bad_att (x :: l')) as [[i c0]|]; [|discriminate]. injection P as <-. rewrite mark_length. cbn. lia.
    + destruct (wr_data r0); [|injection P as <-; reflexivity]. destruct (negb _); [injection P as <-; reflexivity|discriminate].
  - rewrite (no_short_in doms (plan_doms_wf cl q o doms W P)). clear NP.
    assert (L : List.length (fst (step c st o)) = expected_entries q).
    { destruct q as [r0|l|r0|l|r0]; cbn [plan expected_entries] in *.
      + destruct (negb _); [discriminate|]. injection P as <- _. cbn [step]. now destruct (sign_gen _ _ _ _ _).
      + destruct l as [|x l']; [discriminate|]. destruct (first_bad bad_sign (x :: l')) as [[i c0]|]; [discriminate|].
        injection P as <- _. cbn [step fst]. rewrite multisign_length by discriminate. cbn [List.length map]. rewrite ?map_length. lia.
      + destruct (bad_att r0); [discriminate|]. destruct (wt_data r0); [|discriminate]. injection P as <- _.
        cbn [step]. now destruct (sign_att _ _ _ _ _ _).
      + destruct l as [|x l']; [discriminate|]. destruct (first_bad bad_att (x :: l')) as [[i c0]|]; [discriminate|].
        injection P as <- _. cbn [step]. rewrite sign_atts_length by discriminate. cbn [List.length map]. rewrite ?map_length. lia.
      + destruct (wr_data r0); [|discriminate]. destruct (negb _); [discriminate|]. injection P as <- _.
        cbn [step]. now destruct (sign_prop _ _ _ _ _ _). }
    destruct (step c st o) as [r st']. cbn [fst] in L.
    exists (map (fun x => (fst x, match snd x with Some _ => true | None => false end)) r), st'.
    split; [reflexivity|]. now rewrite map_length.
Qed.

(* the same request handed to the handler WITHOUT the wire - a 2-byte domain with capacity 2 - is
   flagged: the capacity guarantee of the decoder is what the path relies on *)
Lemma direct_short_domain_flagged c st cl :
  wire_step c st cl (WSign {| ws_account := "W/a"; ws_pubkey := None;
                              ws_dom := Some {| wb_bytes := [1; 0]%N; wb_cap := 2 |};
                              ws_data := Some {| wb_bytes := repeat 7%N 32; wb_cap := 32 |} |}) = None.
Proof. reflexivity. Qed.
