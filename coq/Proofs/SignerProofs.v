(* Signer-level facts: what one request can release and how it moves the protection store. *)
From DV Require Import Model.Instance Proofs.AssocFacts Proofs.RulesProofs Proofs.RulerProofs.
From Coq Require Import Lia.
Local Open Scope Z_scope.

(* ---- do_sign ---- *)

Lemma do_sign_some ac sf ok m r s :
  do_sign ac sf ok m = (r, Some s) -> r = CSucceeded /\ s = {| sg_key := ac_key ac; sg_msg := m |}.
Proof.
  unfold do_sign.
  repeat match goal with |- context [if ?b then _ else _] => destruct b end;
    intros H; inversion H; subst; auto.
Qed.

Lemma do_sign_none ac sf ok m r : do_sign ac sf ok m = (r, None) -> r = CFailed.
Proof.
  unfold do_sign.
  repeat match goal with |- context [if ?b then _ else _] => destruct b end;
    intros H; inversion H; subst; auto.
Qed.

Lemma do_sign_iff ac sf ok m : fst (do_sign ac sf ok m) = CSucceeded <-> snd (do_sign ac sf ok m) <> None.
Proof.
  unfold do_sign.
  repeat match goal with |- context [if ?b then _ else _] => destruct b end; cbn; split; congruence.
Qed.

(* ---- sign_phase, unfolded along both lists ---- *)

Definition shiftf (f : ofault) : ofault :=
  {| of_pos := tl (of_pos f); of_ruler := of_ruler f; of_rules := of_rules f |}.

Lemma pos_fault_shift f i : pos_fault f (S i) = pos_fault (shiftf f) i.
Proof. unfold pos_fault, shiftf; cbn. destruct (of_pos f); cbn; auto. now destruct i. Qed.

Lemma map_i_ext {A B} (f g : nat -> A -> B) l : forall i,
  (forall j x, f j x = g j x) -> map_i f i l = map_i g i l.
Proof. induction l; intros i H; cbn; auto. rewrite H. f_equal. now apply IHl. Qed.

Lemma map_i_S {A B} (f : nat -> A -> B) l : forall i,
  map_i f (S i) l = map_i (fun j => f (S j)) i l.
Proof. induction l; intros i; cbn; auto. f_equal. apply IHl. Qed.

Definition sign_one {O} (f : ofault) (r : rres) (x : acct * O) (root_ok : O -> bool) (mk : O -> msg)
  : cres * option sigd :=
  match r with
  | RApproved => do_sign (fst x) (pos_fault f 0) (root_ok (snd x)) (mk (snd x))
  | r => (of_rres r, None)
  end.

Lemma sign_phase_nil_rr {O} f (items : list (acct * O)) ro mk :
  sign_phase f [] items ro mk = map (fun _ => (CUnknown, None)) items.
Proof.
  unfold sign_phase. generalize 0%nat. induction items; intros n; cbn; auto.
  rewrite IHitems. destruct n; reflexivity.
Qed.

Lemma sign_phase_cons {O} f r rr (x : acct * O) items ro mk :
  sign_phase f (r :: rr) (x :: items) ro mk =
  sign_one f r x ro mk :: sign_phase (shiftf f) rr items ro mk.
Proof.
  unfold sign_phase. cbn [map_i]. 
  assert (Hh : forall a b (l1 l2 : list (cres * option sigd)), a = b -> l1 = l2 -> a :: l1 = b :: l2) by (intros; subst; auto).
  apply Hh.
  - unfold sign_one. cbn [nth_error]. destruct r; reflexivity.
  - rewrite map_i_S. apply map_i_ext. intros j y. cbn [nth_error]. now rewrite pos_fault_shift.
Qed.

Lemma sign_phase_nil_items {O} f rr ro mk : @sign_phase O f rr [] ro mk = [].
Proof. reflexivity. Qed.

Lemma sigs_of_cons x r : sigs_of (x :: r) = (match snd x with Some s => [s] | None => [] end) ++ sigs_of r.
Proof. reflexivity. Qed.

Lemma sigs_unknown {A} (items : list A) : sigs_of (map (fun _ => (CUnknown, None)) items) = [].
Proof. induction items; cbn; auto. Qed.

(* no approval in the ruler's answer: nothing is signed *)
Lemma sign_phase_no_approved {O} (items : list (acct * O)) : forall f rr ro mk,
  ~ In RApproved rr -> sigs_of (sign_phase f rr items ro mk) = [].
Proof.
  induction items as [|x items IH]; intros f rr ro mk H; [reflexivity|].
  destruct rr as [|r rr].
  - rewrite sign_phase_nil_rr. apply sigs_unknown.
  - rewrite sign_phase_cons, sigs_of_cons. rewrite IH by (intros ?; apply H; now right).
    unfold sign_one. destruct r; cbn; auto. exfalso; apply H; now left.
Qed.

(* ---- what one request does to one key (attestations) ---- *)

Definition a_le (a b : astate) : Prop := a_src a <= a_src b /\ a_tgt a <= a_tgt b.
Lemma a_le_refl a : a_le a a.
Proof. unfold a_le; lia. Qed.

(* v = record of the key before, v' = after, A = attestations released for the key by the request *)
Definition att_rel (v v' : astate) (A : list (Z * Z)) : Prop :=
  a_le v v' /\
  (A = [] \/
   exists s t, A = [(s, t)] /\ v' = {| a_src := s; a_tgt := t |} /\
               a_tgt v < t /\ a_src v <= s /\ 0 <= s /\ s < two63 /\ 0 <= t /\ t < two63).

Lemma att_rel_same v : att_rel v v [].
Proof. split; [apply a_le_refl|now left]. Qed.

Definition items_keys {O} (items : list (acct * O)) : list N := map (fun x => ac_key (fst x)) items.

Lemma att_of_sign_one_other k f r (x : acct * att_ok) ro :
  ac_key (fst x) <> k ->
  flat_map (att_of k) (match snd (sign_one f r x ro att_msg) with Some s => [s] | None => [] end) = [].
Proof.
  intros Hne. unfold sign_one.
  destruct r; cbn; auto.
  destruct (do_sign (fst x) (pos_fault f 0) (ro (snd x)) (att_msg (snd x))) as [cr [s|]] eqn:E; cbn; auto.
  apply do_sign_some in E. destruct E as [_ ->]. unfold att_of; cbn.
  destruct (N.eqb_spec (ac_key (fst x)) k); [contradiction|reflexivity].
Qed.

Lemma phase_other_key k (items : list (acct * att_ok)) : forall f rr ro,
  ~ In k (items_keys items) ->
  flat_map (att_of k) (sigs_of (sign_phase f rr items ro att_msg)) = [].
Proof.
  induction items as [|x items IH]; intros f rr ro Hn; [reflexivity|].
  destruct rr as [|r rr].
  - rewrite sign_phase_nil_rr, sigs_unknown. reflexivity.
  - rewrite sign_phase_cons, sigs_of_cons, flat_map_app.
    rewrite IH by (intros ?; apply Hn; now right).
    rewrite att_of_sign_one_other by (intros E; apply Hn; now left). reflexivity.
Qed.

Definition item_req (x : acct * att_ok) : areq := att_req (fst x) (snd x).

Lemma phase_att_rel c st k (items : list (acct * att_ok)) : forall f ro,
  guard63 c = true ->
  Forall (fun x => 0 <= ao_s (snd x) /\ 0 <= ao_t (snd x)) items ->
  NoDup (items_keys items) ->
  att_rel (view_att st k)
          (match find (fun r => N.eqb (r_key r) k) (map item_req items) with
           | Some r => snd (chk c st r) | None => view_att st k end)
          (flat_map (att_of k)
             (sigs_of (sign_phase f (map (fun r => fst (chk c st r)) (map item_req items)) items ro att_msg))).
Proof.
  intros f ro G. revert f. induction items as [|x items IH]; intros f HF ND.
  - cbn. apply att_rel_same.
  - inversion HF as [|? ? [Hs Ht] HF']; subst. inversion ND as [|? ? Hnin ND']; subst.
    cbn [map find]. rewrite sign_phase_cons, sigs_of_cons, flat_map_app.
    unfold item_req at 1. cbn [r_key att_req].
    destruct (N.eqb_spec (ac_key (fst x)) k) as [Ek|Ek].
    + (* this position names k; no later one does *)
      rewrite phase_other_key by (rewrite <- Ek; exact Hnin). rewrite app_nil_r.
      unfold sign_one. fold (item_req x).
      destruct (chk c st (item_req x)) as [res a'] eqn:Ec. cbn [fst snd].
      assert (Hk : r_key (item_req x) = k) by exact Ek.
      destruct res.
      * (* unreachable result, harmless *)
        unfold chk in Ec. apply att_checks_refused in Ec; [|discriminate]. subst a'.
        rewrite Hk. cbn. apply att_rel_same.
      * unfold chk in Ec. apply att_checks_approved in Ec; auto.
        destruct Ec as (-> & Hs63 & Ht63 & Hlt & Hle & _). rewrite Hk in *.
        cbn [r_src r_tgt item_req att_req] in *.
        destruct (do_sign (fst x) (pos_fault f 0) (ro (snd x)) (att_msg (snd x))) as [cr [s|]] eqn:E; cbn [snd].
        -- apply do_sign_some in E. destruct E as [_ ->].
           cbn. unfold att_of; cbn. rewrite Ek, N.eqb_refl. cbn.
           split; [unfold a_le; cbn; lia|]. right.
           exists (ao_s (snd x)), (ao_t (snd x)). repeat split; auto.
        -- cbn. split; [unfold a_le; cbn; lia|now left].
      * unfold chk in Ec. apply att_checks_refused in Ec; [|discriminate]. subst a'.
        rewrite Hk. cbn. apply att_rel_same.
      * unfold chk in Ec. apply att_checks_refused in Ec; [|discriminate]. subst a'.
        rewrite Hk. cbn. apply att_rel_same.
    + rewrite att_of_sign_one_other by exact Ek. cbn [app].
      apply IH; auto.
Qed.

(* every signature of a signing phase is by the position's account over the position's message *)
Lemma phase_sigs_in {O} (items : list (acct * O)) : forall f rr ro mk s,
  In s (sigs_of (sign_phase f rr items ro mk)) ->
  exists x, In x items /\ s = {| sg_key := ac_key (fst x); sg_msg := mk (snd x) |}.
Proof.
  induction items as [|x items IH]; intros f rr ro mk s; [intros []|].
  destruct rr as [|r rr].
  - rewrite sign_phase_nil_rr, sigs_unknown. intros [].
  - rewrite sign_phase_cons, sigs_of_cons. intros H. apply in_app_or in H. destruct H as [H|H].
    + unfold sign_one in H. destruct r; cbn in H; try contradiction.
      destruct (do_sign (fst x) (pos_fault f 0) (ro (snd x)) (mk (snd x))) as [cr [s'|]] eqn:E; cbn in H; [|contradiction].
      destruct H as [<-|[]]. apply do_sign_some in E. destruct E as [_ ->].
      exists x. split; [now left|reflexivity].
    + apply IH in H. destruct H as (y & Hy & ->). exists y. split; [now right|reflexivity].
Qed.

(* ---- proposals ---- *)

Definition prop_rel (v v' : Z) (P : list Z) : Prop :=
  v <= v' /\
  (P = [] \/ exists slot, P = [slot] /\ v' = slot /\ v < slot /\ 0 <= slot /\ slot < two63).
Lemma prop_rel_same v : prop_rel v v [].
Proof. split; [lia|now left]. Qed.

(* ---- well-formed requests: numbers are uint64 values; an injected ruler answer never approves ---- *)

Definition ruler_fault_ok (f : ofault) : Prop :=
  match of_ruler f with Some l => ~ In RApproved l | None => True end.
Definition att_data_ok (d : option att_data) : Prop :=
  forall o, att_fields d = Some o -> 0 <= ao_s o /\ 0 <= ao_t o.
Definition prop_data_ok (d : option prop_data) : Prop :=
  forall o, prop_fields d = Some o -> 0 <= po_slot o.

Definition op_ok (o : op) : Prop :=
  match o with
  | OAttest _ _ d f => ruler_fault_ok f /\ att_data_ok d
  | OAttests _ l f => ruler_fault_ok f /\ Forall (fun r => att_data_ok (snd r)) l
  | OPropose _ _ d f => ruler_fault_ok f /\ prop_data_ok d
  | OSign _ _ _ f => ruler_fault_ok f
  | OMultisign _ _ f => ruler_fault_ok f
  | ORestart => True
  end.

Lemma nth0_not_approved rr : ~ In RApproved rr -> nth 0 rr RUnknown <> RApproved.
Proof. destruct rr; cbn; [discriminate|]. intros H E. apply H. now left. Qed.

Lemma item_keys_reqs (items : list (acct * att_ok)) : map r_key (map item_req items) = items_keys items.
Proof. unfold items_keys. rewrite map_map. reflexivity. Qed.

Lemma rel_of_same_view st st' k : same_view st st' ->
  att_rel (view_att st k) (view_att st' k) [] /\ prop_rel (view_prop st k) (view_prop st' k) [].
Proof. intros [Ha Hp]. rewrite Ha, Hp. split; [apply att_rel_same|apply prop_rel_same]. Qed.

(* ---- SignBeaconAttestation ---- *)

Lemma sign_att_rel c st cl a d f r st' k :
  guard63 (sc_rules c) = true -> ruler_fault_ok f -> att_data_ok d ->
  sign_att c st cl a d f = (r, st') ->
  att_rel (view_att st k) (view_att st' k) (flat_map (att_of k) (sigs_of [r])) /\
  prop_rel (view_prop st k) (view_prop st' k) (flat_map (prop_of k) (sigs_of [r])).
Proof.
  intros G Hf Hd. unfold sign_att.
  destruct (att_fields d) as [o|] eqn:Ef.
  2:{ intros H; injection H as <- <-. cbn. split; [apply att_rel_same|apply prop_rel_same]. }
  destruct (Hd o Ef) as [Hs Ht].
  destruct (pre_check c cl a AAtt (pos_fault f 0)) as [cr|ac].
  { intros H; injection H as <- <-. cbn. split; [apply att_rel_same|apply prop_rel_same]. }
  unfold ruler_fault_ok in Hf.
  destruct (of_ruler f) as [l|].
  - pose proof (nth0_not_approved l Hf) as Hn.
    destruct (nth 0 l RUnknown); try congruence;
      intros H; injection H as <- <-; cbn; (split; [apply att_rel_same|apply prop_rel_same]).
  - destruct (ruler_atts (sc_rules c) st (creds_ok cl) (of_rules f) [att_req ac o]) as [rr st1] eqn:Er.
    apply ruler_atts_char in Er. destruct Er as [[Hna Hsv]|(ND & Hrr & Hv & Hp)].
    + pose proof (nth0_not_approved rr Hna) as Hn.
      destruct (nth 0 rr RUnknown); try congruence;
        intros H; injection H as <- <-; cbn; apply rel_of_same_view; auto.
    + pose proof (phase_att_rel (sc_rules c) st k [(ac, o)] f (fun o => len32 (ao_dom o)) G) as HP.
      specialize (HP ltac:(repeat constructor; auto) ltac:(repeat constructor; intros [])).
      unfold item_req in HP. cbn [map fst snd] in HP. cbn [map] in Hrr, Hv.
      rewrite <- (Hv k) in HP. rewrite sign_phase_cons in HP. cbn [sign_phase map_i] in HP.
      subst rr. cbn [nth].
      intros H.
      assert (Hs' : st1 = st' /\ sigs_of [r] = sigs_of [sign_one f (fst (chk (sc_rules c) st (att_req ac o))) (ac, o) (fun o => len32 (ao_dom o)) att_msg]).
      { unfold sign_one. cbn [fst snd].
        destruct (fst (chk (sc_rules c) st (att_req ac o))); injection H as <- <-; auto. }
      destruct Hs' as [<- Hs']. rewrite Hs'. split; [exact HP|].
      rewrite Hp.
      assert (Hnp : flat_map (prop_of k) (sigs_of [sign_one f (fst (chk (sc_rules c) st (att_req ac o))) (ac, o) (fun o0 => len32 (ao_dom o0)) att_msg]) = []).
      { unfold sign_one. destruct (fst (chk (sc_rules c) st (att_req ac o))); cbn; auto.
        destruct (do_sign ac (pos_fault f 0) (len32 (ao_dom o)) (att_msg o)) as [cr [s|]] eqn:E; cbn; auto.
        apply do_sign_some in E. destruct E as [_ ->]. reflexivity. }
      rewrite Hnp. apply prop_rel_same.
Qed.

(* ---- SignBeaconAttestations ---- *)

Lemma sigs_of_map_none {A} (g : A -> cres) l : sigs_of (map (fun p => (g p, None)) l) = [].
Proof. induction l; cbn; auto. Qed.

Lemma in_combine_snd_fields (reqs : list (addr * option att_data)) (acs : list acct) (x : acct * att_ok) :
  In x (combine acs (flat_map (fun o => match o with Some y => [y] | None => [] end)
                              (map (fun r => att_fields (snd r)) reqs))) ->
  exists r, In r reqs /\ att_fields (snd r) = Some (snd x).
Proof.
  intros H. destruct x as [ac o]. apply in_combine_r in H. cbn [snd].
  apply in_flat_map in H. destruct H as (fo & Hin & Ho).
  apply in_map_iff in Hin. destruct Hin as (r & <- & Hr).
  destruct (att_fields (snd r)) as [y|] eqn:E; [|contradiction].
  destruct Ho as [<-|[]]. exists r. auto.
Qed.

Lemma phase_no_prop k (items : list (acct * att_ok)) f rr ro :
  flat_map (prop_of k) (sigs_of (sign_phase f rr items ro att_msg)) = [].
Proof.
  destruct (flat_map (prop_of k) (sigs_of (sign_phase f rr items ro att_msg))) as [|z l] eqn:E; auto.
  assert (Hin : In z (flat_map (prop_of k) (sigs_of (sign_phase f rr items ro att_msg)))) by (rewrite E; now left).
  apply in_flat_map in Hin. destruct Hin as (s & Hs & Hz).
  apply phase_sigs_in in Hs. destruct Hs as (x & _ & ->). cbn in Hz. contradiction.
Qed.

Lemma sign_atts_rel c st cl reqs f rs st' k :
  guard63 (sc_rules c) = true -> ruler_fault_ok f -> Forall (fun r => att_data_ok (snd r)) reqs ->
  sign_atts c st cl reqs f = (rs, st') ->
  att_rel (view_att st k) (view_att st' k) (flat_map (att_of k) (sigs_of rs)) /\
  prop_rel (view_prop st k) (view_prop st' k) (flat_map (prop_of k) (sigs_of rs)).
Proof.
  intros G Hf Hd. unfold sign_atts.
  destruct reqs as [|rq reqs'] eqn:Ereqs.
  { intros H; injection H as <- <-. cbn. split; [apply att_rel_same|apply prop_rel_same]. }
  rewrite <- Ereqs in *. clear Ereqs rq reqs'.
  destruct (find_index _ (map (fun r => att_fields (snd r)) reqs) 0).
  { intros H; injection H as <- <-. rewrite sigs_of_map_none. cbn. split; [apply att_rel_same|apply prop_rel_same]. }
  set (pres := map_i (fun i r => pre_check c cl (fst r) AAtt (pos_fault f i)) 0 reqs).
  destruct (negb (forallb is_pre_ok pres)).
  { intros H; injection H as <- <-. rewrite sigs_of_map_none. cbn. split; [apply att_rel_same|apply prop_rel_same]. }
  set (items := combine (pre_accts pres) _).
  assert (HF : Forall (fun x => 0 <= ao_s (snd x) /\ 0 <= ao_t (snd x)) items).
  { apply Forall_forall. intros x Hx. apply in_combine_snd_fields in Hx.
    destruct Hx as (r & Hr & Hfo). rewrite Forall_forall in Hd. exact (Hd r Hr _ Hfo). }
  unfold ruler_fault_ok in Hf.
  destruct (of_ruler f) as [l|].
  - intros H; injection H as <- <-. rewrite sign_phase_no_approved by exact Hf. cbn.
    split; [apply att_rel_same|apply prop_rel_same].
  - destruct (ruler_atts (sc_rules c) st (creds_ok cl) (of_rules f) (map (fun x => att_req (fst x) (snd x)) items)) as [rr st1] eqn:Er.
    intros H; injection H as <- <-.
    apply ruler_atts_char in Er. destruct Er as [[Hna Hsv]|(ND & Hrr & Hv & Hp)].
    + rewrite sign_phase_no_approved by exact Hna. cbn. apply rel_of_same_view; auto.
    + change (map (fun x => att_req (fst x) (snd x)) items) with (map item_req items) in *.
      rewrite item_keys_reqs in ND.
      pose proof (phase_att_rel (sc_rules c) st k items f (fun o => len32 (ao_dom o)) G HF ND) as HP.
      rewrite <- Hrr, <- (Hv k) in HP. split; [exact HP|].
      rewrite Hp, phase_no_prop. apply prop_rel_same.
Qed.

(* ---- SignBeaconProposal ---- *)

Lemma sign_prop_rel c st cl a d f r st' k :
  guard63 (sc_rules c) = true -> ruler_fault_ok f -> prop_data_ok d ->
  sign_prop c st cl a d f = (r, st') ->
  att_rel (view_att st k) (view_att st' k) (flat_map (att_of k) (sigs_of [r])) /\
  prop_rel (view_prop st k) (view_prop st' k) (flat_map (prop_of k) (sigs_of [r])).
Proof.
  intros G Hf Hd. unfold sign_prop.
  destruct (prop_fields d) as [o|] eqn:Ef.
  2:{ intros H; injection H as <- <-. cbn. split; [apply att_rel_same|apply prop_rel_same]. }
  pose proof (Hd o Ef) as Hs.
  destruct (pre_check c cl a AProp (pos_fault f 0)) as [cr|ac].
  { intros H; injection H as <- <-. cbn. split; [apply att_rel_same|apply prop_rel_same]. }
  unfold ruler_fault_ok in Hf.
  destruct (of_ruler f) as [l|].
  - pose proof (nth0_not_approved l Hf) as Hn.
    destruct (nth 0 l RUnknown); try congruence;
      intros H; injection H as <- <-; cbn; (split; [apply att_rel_same|apply prop_rel_same]).
  - unfold ruler_prop. destruct (creds_ok cl).
    2:{ cbn. intros H; injection H as <- <-. cbn. split; [apply att_rel_same|apply prop_rel_same]. }
    set (rq := {| p_key := ac_key ac; p_dom := po_dom o; p_slot := po_slot o |}).
    destruct (on_prop (sc_rules c) st (of_rules f) rq) as [x st1] eqn:Eo.
    cbn [nth].
    destruct x; cbn [norm].
    + apply on_prop_refused in Eo; [|discriminate]. subst st1.
      intros H; injection H as <- <-. cbn. split; [apply att_rel_same|apply prop_rel_same].
    + apply on_prop_approved in Eo; auto. destruct Eo as (-> & H63 & Hlt & _).
      cbn [p_key p_slot rq] in *.
      intros H; injection H as <- <-.
      split.
      * rewrite view_att_put_prop.
        destruct (do_sign ac (pos_fault f 0) (len32 (po_dom o)) (prop_msg o)) as [cr [s|]] eqn:E; cbn.
        -- apply do_sign_some in E. destruct E as [_ ->]. cbn. apply att_rel_same.
        -- apply att_rel_same.
      * rewrite view_prop_put_prop. unfold prop_rel.
        destruct (do_sign ac (pos_fault f 0) (len32 (po_dom o)) (prop_msg o)) as [cr [s|]] eqn:E; cbn.
        -- apply do_sign_some in E. destruct E as [_ ->]. unfold prop_of; cbn.
           destruct (N.eqb_spec (ac_key ac) k) as [Ek|Ek]; cbn.
           ++ rewrite <- Ek. split; [lia|]. right. exists (po_slot o). repeat split; auto.
           ++ split; [lia|now left].
        -- destruct (N.eqb_spec (ac_key ac) k) as [Ek|Ek]; [|split; [lia|now left]].
           rewrite <- Ek. split; [lia|now left].
    + apply on_prop_refused in Eo; [|discriminate]. subst st1.
      intros H; injection H as <- <-. cbn. split; [apply att_rel_same|apply prop_rel_same].
    + apply on_prop_refused in Eo; [|discriminate]. subst st1.
      intros H; injection H as <- <-. cbn. split; [apply att_rel_same|apply prop_rel_same].
Qed.

(* ---- generic signing releases neither attestations nor proposals ---- *)

Lemma sign_gen_msgs c cl a d f r s : sign_gen c cl a d f = (r, Some s) -> exists data dom, sg_msg s = MGen data dom.
Proof.
  unfold sign_gen. destruct (sign_fields d) as [[data dom]|]; [|discriminate].
  destruct (pre_check c cl a ASign (pos_fault f 0)) as [cr|ac]; [discriminate|].
  destruct (nth 0 _ RUnknown); try discriminate.
  intros H. apply do_sign_some in H. destruct H as [_ ->]. cbn. eauto.
Qed.

Lemma multisign_msgs c cl reqs f s :
  In s (sigs_of (multisign c cl reqs f)) -> exists data dom, sg_msg s = MGen data dom.
Proof.
  unfold multisign. destruct reqs as [|rq reqs'] eqn:Ereqs; [intros []|].
  rewrite <- Ereqs. clear Ereqs rq reqs'.
  destruct (find_index _ _ 0); [rewrite sigs_of_map_none; intros []|].
  destruct (negb (forallb is_pre_ok _)); [rewrite sigs_of_map_none; intros []|].
  intros H. apply phase_sigs_in in H. destruct H as (x & _ & ->). cbn. eauto.
Qed.
