package main

import (
	"bytes"
	"context"
	"crypto/sha256"
	"fmt"
	pb "github.com/wealdtech/eth2-signer-api/pb/v1"
	"os"
	"path/filepath"
	"runtime"
	"strings"
	"sync"

	"github.com/attestantio/dirk/core"
	spec "github.com/attestantio/go-eth2-client/spec/phase0"
)

func coqMsgAtt(d AttData) string {
	return fmt.Sprintf("(MAtt %s %s %s %s %s %s %s %s)", coqU(d.Slot), coqU(d.Idx), coqBytes(d.BBR), coqU(d.Src.Epoch), coqBytes(d.Src.Root),
		coqU(d.Tgt.Epoch), coqBytes(d.Tgt.Root), coqBytes(d.Dom))
}
func coqMsgProp(d PropData) string {
	return fmt.Sprintf("(MProp %s %s %s %s %s %s)", coqU(d.Slot), coqU(d.Pidx), coqBytes(d.Parent), coqBytes(d.State), coqBytes(d.Body), coqBytes(d.Dom))
}
func coqMsgGen(d SignData) string {
	return fmt.Sprintf("(MGen %s %s)", coqBytes(d.Data), coqBytes(d.Dom))
}

func coqOptRoot(r []byte) string {
	if r == nil {
		return "None"
	}
	return "(Some " + coqBytes(r) + ")"
}

// cmdSigs drives C08.
func cmdSigs(args []string) int {
	cf := parseCommon("C08", args, nil)
	ctx := context.Background()
	nW, perW := 4, 8
	sizes := []int{1, 2, 3, 5, 8, 16, 31, 32}
	procs := []int{1, 2, 3, 4, 8, 128}
	nSingles := 120
	if cf.tier == "thorough" {
		nW, perW = 10, 30
		sizes = []int{1, 2, 3, 5, 8, 16, 31, 32, 33, 64, 100, 128, 200, 255, 256, 257, 300}
		procs = []int{1, 2, 3, 4, 5, 8, 16, 128}
		nSingles = 1500
	}
	// two more accounts whose names are a regular account's name with a trailing / leading blank
	fx, err := NewFixture(ctx, nW, perW, false, "Account 0 ", " Account 1")
	if err != nil {
		fmt.Fprintln(os.Stderr, "fixture:", err)
		return 2
	}
	tbl := map[string][]string{"client1": {}}
	for w := 0; w < nW; w++ {
		tbl["client1"] = append(tbl["client1"], fmt.Sprintf("Wallet %d", w+1))
	}
	stdPermTbl = tbl
	rng := NewPRNG(cf.seed)
	run := &Runner{ctx: ctx, fx: fx, stats: map[string]int{}}
	var monFail, samples []string
	var rcases, hcases []string
	idx := map[string]string{}
	rid := 5000000
	admin := []string{"10.0.0.1"}

	randRoot := func() []byte {
		switch rng.Intn(12) {
		case 0:
			return rng.Bytes(31) // zero-padded by Go's copy
		case 1:
			return rng.Bytes(33) // truncated by Go's copy
		case 2:
			return []byte{}
		case 3:
			return fill32(byte(rng.Intn(256)))
		}
		return rng.Bytes(32)
	}
	randDom := func(prefix []byte) []byte {
		d := append(append([]byte{}, prefix...), rng.Bytes(28)...)
		switch rng.Intn(25) {
		case 0:
			return d[:31]
		case 1:
			return append(d, 7)
		}
		return d
	}
	u64 := func() uint64 {
		switch rng.Intn(6) {
		case 0:
			return alphabetE[rng.Intn(len(alphabetE))]
		case 1:
			return rng.U64()
		}
		return uint64(rng.Intn(1 << 20))
	}

	// judge one observed position and record its root case
	judge := func(rec *StepRec, i int, msg string, root []byte, who *AcctInfo) {
		o := rec.Obs[i]
		rid++
		rcases = append(rcases, fmt.Sprintf(" RC %s %s %s", coqN(rid), msg, coqOptRoot(root)))
		idx[fmt.Sprint(rid)] = fmt.Sprintf("signing root of position %d of %s: harness/Go root %x", i, describeStepShort(rec), root)
		if o.SigLen > 0 {
			run.stats["sig.checked"]++
			if !o.SigValid {
				monFail = append(monFail, fmt.Sprintf("the signature returned at position %d does not verify under the addressed account's key (key#%d) over the signing root of the submitted data :: %s", i, who.ID, describeStepShort(rec)))
			}
		}
	}

	inst, err := run.newInstance(admin)
	if err != nil {
		return 2
	}
	epoch := map[int]uint64{}
	for k := 0; k < nSingles; k++ {
		a := fx.Accounts[rng.Intn(len(fx.Accounts))]
		g := &genState{fx: fx, rng: rng}
		ad := g.addrFor(a)
		switch rng.Intn(3) {
		case 0:
			epoch[a.ID] += 1 + uint64(rng.Intn(3))
			t := epoch[a.ID]
			d := AttData{Dom: randDom(domAttester), Slot: u64(), Idx: u64(), BBR: randRoot(), Src: &Checkpoint{t - 1, randRoot()}, Tgt: &Checkpoint{t, randRoot()}}
			rec, err := run.execStep(inst, 0, k, &Op{Kind: KAttest, Client: "client1", IP: "10.0.0.1", Addrs: []Addr{ad}, Atts: []AttData{d}})
			if err != nil {
				return 2
			}
			judge(rec, 0, coqMsgAtt(d), attRoot(d), a)
			// fastssz / go-eth2-client agree with the harness's own SSZ on the data root
			if len(d.Dom) == 32 {
				sa := &spec.AttestationData{Slot: spec.Slot(d.Slot), Index: spec.CommitteeIndex(d.Idx), Source: &spec.Checkpoint{Epoch: spec.Epoch(d.Src.Epoch)}, Target: &spec.Checkpoint{Epoch: spec.Epoch(d.Tgt.Epoch)}}
				copy(sa.BeaconBlockRoot[:], d.BBR)
				copy(sa.Source.Root[:], d.Src.Root)
				copy(sa.Target.Root[:], d.Tgt.Root)
				if r, err := sa.HashTreeRoot(); err != nil || !bytes.Equal(signingRoot(r[:], d.Dom), attRoot(d)) {
					monFail = append(monFail, fmt.Sprintf("harness SSZ disagrees with fastssz on %+v", d))
				}
			}
			if len(samples) < 3 {
				samples = append(samples, describeStepShort(rec))
			}
		case 1:
			epoch[1000+a.ID] += 1 + uint64(rng.Intn(3))
			d := PropData{Dom: randDom(domProposer), Slot: epoch[1000+a.ID], Pidx: u64(), Parent: randRoot(), State: randRoot(), Body: randRoot()}
			rec, err := run.execStep(inst, 0, k, &Op{Kind: KPropose, Client: "client1", IP: "10.0.0.1", Addrs: []Addr{ad}, Props: []PropData{d}})
			if err != nil {
				return 2
			}
			judge(rec, 0, coqMsgProp(d), propRoot(d), a)
		default:
			d := SignData{Dom: randDom(domRandao), Data: rng.Bytes(32)}
			if rng.Chance(5) {
				d.Data = rng.Bytes(31)
			}
			rec, err := run.execStep(inst, 0, k, &Op{Kind: KSign, Client: "client1", IP: "10.0.0.1", Addrs: []Addr{ad}, Signs: []SignData{d}})
			if err != nil {
				return 2
			}
			judge(rec, 0, coqMsgGen(d), signRoot(d), a)
		}
	}
	inst.Close(ctx)
	singleSteps := run.steps
	run.steps = nil

	// batches: all-distinct data, every size x GOMAXPROCS, every position verified
	for _, n := range sizes {
		if n > len(fx.Accounts) {
			continue
		}
		for _, p := range procs {
			if cf.tier != "thorough" && n > 8 && p != 1 && p != 4 && p != 128 {
				continue
			}
			// every other batch instance with the services logging at trace level (the output is discarded)
			inst, err := NewInstance(ctx, fx, InstanceOpts{AdminIPs: admin, Perms: permsFromTbl(stdPermTbl), Verbose: p%2 == 0})
			if err != nil {
				return 2
			}
			perm := make([]int, len(fx.Accounts))
			for i := range perm {
				perm[i] = i
			}
			for i := len(perm) - 1; i > 0; i-- {
				j := rng.Intn(i + 1)
				perm[i], perm[j] = perm[j], perm[i]
			}
			g := &genState{fx: fx, rng: rng}
			att := &Op{Kind: KAttests, Client: "client1", IP: "10.0.0.1"}
			multi := &Op{Kind: KMultisign, Client: "client1", IP: "10.0.0.1"}
			for i := 0; i < n; i++ {
				a := fx.Accounts[perm[i]]
				att.Addrs = append(att.Addrs, g.addrFor(a))
				// validators of one committee share slot and committee index; most vote alike, some split
				att.Atts = append(att.Atts, AttData{Dom: mkDomain(domAttester, byte(i)), Slot: uint64(i/4) * 3, Idx: uint64(i / 4), BBR: rng.Bytes(32),
					Src: &Checkpoint{uint64(i % 3), rng.Bytes(32)}, Tgt: &Checkpoint{uint64(i%3) + 1 + uint64(i%2), rng.Bytes(32)}})
				// every second entry is its predecessor's vote with exactly one field changed (another
				// validator, the same domain): a root computed from a subset of the fields, or carried over
				// from the neighbour, signs the wrong data
				if i%2 == 1 {
					prev := att.Atts[i-1]
					d := AttData{Dom: prev.Dom, Slot: prev.Slot, Idx: prev.Idx, BBR: append([]byte{}, prev.BBR...),
						Src: &Checkpoint{prev.Src.Epoch, append([]byte{}, prev.Src.Root...)}, Tgt: &Checkpoint{prev.Tgt.Epoch, append([]byte{}, prev.Tgt.Root...)}}
					switch (i / 2) % 5 {
					case 0:
						d.Src.Root = rng.Bytes(32)
					case 1:
						d.Tgt.Root = rng.Bytes(32)
					case 2:
						d.BBR = rng.Bytes(32)
					case 3:
						d.Idx++
					case 4:
						d.Slot++
					}
					att.Atts[i] = d
				}
				multi.Addrs = append(multi.Addrs, g.addrFor(a))
				multi.Signs = append(multi.Signs, SignData{Dom: mkDomain(domRandao, byte(i)), Data: rng.Bytes(32)})
			}
			// a generic batch in which entries the rules refuse (a slashable domain type) precede entries they
			// approve, and whose 32-byte data fields are consecutive windows of ONE buffer (an in-process
			// caller may hand over such slices): every signature must still be by its own account over its own data
			mixed := &Op{Kind: KMultisign, Client: "client1", IP: "10.0.0.1"}
			buf := rng.Bytes(32 * n)
			for i := 0; i < n; i++ {
				a := fx.Accounts[perm[i]]
				dom := mkDomain(domRandao, byte(i))
				if i%3 == 0 {
					dom = mkDomain(domAttester, byte(i))
				}
				mixed.Addrs = append(mixed.Addrs, g.addrFor(a))
				mixed.Signs = append(mixed.Signs, SignData{Dom: dom, Data: buf[32*i : 32*(i+1)]})
			}
			wantData := append([]byte{}, buf...)
			old := runtime.GOMAXPROCS(p)
			rec1, err1 := run.execStep(inst, n, p, att)
			rec2, err2 := run.execStep(inst, n, p, multi)
			rec3, err3 := run.execStep(inst, n, p, mixed)
			runtime.GOMAXPROCS(old)
			if err3 != nil {
				return 2
			}
			if !bytes.Equal(buf, wantData) {
				monFail = append(monFail, fmt.Sprintf("batch of %d (GOMAXPROCS %d): the signer altered the caller's data buffer", n, p))
			}
			for i, o := range rec3.Obs {
				refused := i%3 == 0
				if refused && o.SigLen > 0 {
					monFail = append(monFail, fmt.Sprintf("mixed batch of %d (GOMAXPROCS %d), position %d: a slashable domain type was signed by the generic endpoint", n, p, i))
				}
				if !refused && (o.State != core.ResultSucceeded || !o.SigValid) {
					monFail = append(monFail, fmt.Sprintf("mixed batch of %d (GOMAXPROCS %d), position %d: state %s, signature valid for that position's data and account: %v", n, p, i, o.State, o.SigValid))
				}
			}
			if err1 != nil || err2 != nil {
				return 2
			}
			for _, rec := range []*StepRec{rec1, rec2} {
				if len(rec.Obs) != n {
					monFail = append(monFail, fmt.Sprintf("batch of %d (GOMAXPROCS %d) answered %d entries", n, p, len(rec.Obs)))
					continue
				}
				for i, o := range rec.Obs {
					if o.State != core.ResultSucceeded || !o.SigValid {
						monFail = append(monFail, fmt.Sprintf("batch of %d (GOMAXPROCS %d), position %d: state %s, signature valid for that position's data and account: %v", n, p, i, o.State, o.SigValid))
					}
				}
			}
			// root cases for a few positions of each batch
			for _, i := range []int{0, n / 2, n - 1} {
				rid++
				rcases = append(rcases, fmt.Sprintf(" RC %s %s %s", coqN(rid), coqMsgAtt(att.Atts[i]), coqOptRoot(attRoot(att.Atts[i]))))
				idx[fmt.Sprint(rid)] = fmt.Sprintf("batch of %d position %d", n, i)
			}
			run.stats[fmt.Sprintf("batch.n%d", n)]++
			inst.Close(ctx)
		}
	}
	batchSteps := run.steps

	// separate batch requests at the same time through the gRPC handler object: every caller's response
	// carries, position by position, that caller's accounts' signatures over that caller's data
	{
		inst, err := run.newInstance(admin)
		if err != nil {
			return 2
		}
		nCallers, perCaller, rounds := 8, 4, 40
		if nCallers*perCaller > len(fx.Accounts)-2 {
			nCallers = (len(fx.Accounts) - 2) / perCaller
		}
		var cmu sync.Mutex
		var cwg sync.WaitGroup
		var cfails []string
		checked := 0
		for g := 0; g < nCallers; g++ {
			cwg.Add(1)
			go func(g int) {
				defer cwg.Done()
				hctx := ctxWithClient(ctx, "client1", "10.0.0.1")
				for r := 0; r < rounds; r++ {
					ep := uint64(5000 + 2*r)
					var datas []AttData
					var whos []*AcctInfo
					areq := &pb.SignBeaconAttestationsRequest{}
					mreq := &pb.MultisignRequest{}
					for i := 0; i < perCaller; i++ {
						a := fx.Accounts[g*perCaller+i]
						tag := sha256.Sum256([]byte(fmt.Sprintf("caller %d round %d entry %d", g, r, i)))
						d := AttData{Dom: mkDomain(domAttester, 0), Slot: ep * 32, Idx: uint64(g), BBR: tag[:], Src: &Checkpoint{ep - 1, fill32(0)}, Tgt: &Checkpoint{ep, tag[:]}}
						datas, whos = append(datas, d), append(whos, a)
						areq.Requests = append(areq.Requests, &pb.SignBeaconAttestationRequest{Id: &pb.SignBeaconAttestationRequest_PublicKey{PublicKey: a.Key}, Domain: d.Dom,
							Data: &pb.AttestationData{Slot: d.Slot, CommitteeIndex: d.Idx, BeaconBlockRoot: d.BBR, Source: &pb.Checkpoint{Epoch: d.Src.Epoch, Root: d.Src.Root}, Target: &pb.Checkpoint{Epoch: d.Tgt.Epoch, Root: d.Tgt.Root}}})
						mreq.Requests = append(mreq.Requests, &pb.SignRequest{Id: &pb.SignRequest_Account{Account: a.Path()}, Domain: mkDomain(domRandao, 0), Data: tag[:]})
					}
					ares, aerr := inst.Handler.SignBeaconAttestations(hctx, areq)
					mres, merr := inst.Handler.Multisign(hctx, mreq)
					// read the responses a moment later, as the server's encoder does
					runtime.Gosched()
					var local []string
					if aerr != nil || merr != nil || len(ares.GetResponses()) != perCaller || len(mres.GetResponses()) != perCaller {
						local = append(local, fmt.Sprintf("concurrent callers: caller %d round %d: errors %v / %v, %d / %d responses for %d entries", g, r, aerr, merr, len(ares.GetResponses()), len(mres.GetResponses()), perCaller))
					} else {
						for i := 0; i < perCaller; i++ {
							ar, mr := ares.GetResponses()[i], mres.GetResponses()[i]
							if ar.GetState() != pb.ResponseState_SUCCEEDED || !verifySig(ar.GetSignature(), attRoot(datas[i]), whos[i].Key) {
								local = append(local, fmt.Sprintf("concurrent callers: caller %d round %d, SignBeaconAttestations position %d (key#%d, attestation %d->%d): state %s, signature valid for that position's data and account: false",
									g, r, i, whos[i].ID, ep-1, ep, ar.GetState()))
							}
							if mr.GetState() != pb.ResponseState_SUCCEEDED || !verifySig(mr.GetSignature(), signingRoot(mreq.Requests[i].Data, mreq.Requests[i].Domain), whos[i].Key) {
								local = append(local, fmt.Sprintf("concurrent callers: caller %d round %d, Multisign position %d (key#%d): state %s, signature valid for that position's data and account: false",
									g, r, i, whos[i].ID, mr.GetState()))
							}
						}
					}
					cmu.Lock()
					checked += 2 * perCaller
					cfails = append(cfails, local...)
					cmu.Unlock()
				}
			}(g)
		}
		cwg.Wait()
		if len(cfails) > 6 {
			cfails = cfails[:6]
		}
		monFail = append(monFail, cfails...)
		run.stats["concurrent-handler.positions"] = checked
		inst.Close(ctx)
	}

	// requests of more than 256 entries through the gRPC handler objects (an instance of 261 accounts of its own):
	// every position answered, every signature that position's account's over that position's data
	{
		bigFx, err := NewFixture(ctx, 9, 29, false)
		if err != nil {
			return 2
		}
		tblBig := map[string][]string{"client1": {}}
		for w := 0; w < 9; w++ {
			tblBig["client1"] = append(tblBig["client1"], fmt.Sprintf("Wallet %d", w+1))
		}
		inst, err := NewInstance(ctx, bigFx, InstanceOpts{AdminIPs: admin, Perms: permsFromTbl(tblBig)})
		if err != nil {
			return 2
		}
		hctx := ctxWithClient(ctx, "client1", "10.0.0.1")
		for _, n := range []int{256, 257, 261} {
			areq := &pb.SignBeaconAttestationsRequest{}
			mreq := &pb.MultisignRequest{}
			var datas []AttData
			for i := 0; i < n; i++ {
				a := bigFx.Accounts[i]
				tag := sha256.Sum256([]byte(fmt.Sprintf("large request %d entry %d", n, i)))
				d := AttData{Dom: mkDomain(domAttester, 0), Slot: uint64(n) * 32, Idx: uint64(i), BBR: tag[:], Src: &Checkpoint{uint64(n) - 1, fill32(0)}, Tgt: &Checkpoint{uint64(n), tag[:]}}
				datas = append(datas, d)
				areq.Requests = append(areq.Requests, &pb.SignBeaconAttestationRequest{Id: &pb.SignBeaconAttestationRequest_Account{Account: a.Path()}, Domain: d.Dom,
					Data: &pb.AttestationData{Slot: d.Slot, CommitteeIndex: d.Idx, BeaconBlockRoot: d.BBR, Source: &pb.Checkpoint{Epoch: d.Src.Epoch, Root: d.Src.Root}, Target: &pb.Checkpoint{Epoch: d.Tgt.Epoch, Root: d.Tgt.Root}}})
				mreq.Requests = append(mreq.Requests, &pb.SignRequest{Id: &pb.SignRequest_PublicKey{PublicKey: a.Key}, Domain: mkDomain(domRandao, 0), Data: tag[:]})
			}
			noteRequest("SignBeaconAttestations and Multisign of %d entries over distinct accounts through the gRPC handler objects", n)
			ares, aerr := inst.Handler.SignBeaconAttestations(hctx, areq)
			mres, merr := inst.Handler.Multisign(hctx, mreq)
			requestDone()
			if aerr != nil || merr != nil || len(ares.GetResponses()) != n || len(mres.GetResponses()) != n {
				monFail = append(monFail, fmt.Sprintf("handler requests of %d entries: errors %v / %v, %d / %d responses", n, aerr, merr, len(ares.GetResponses()), len(mres.GetResponses())))
				continue
			}
			bad := 0
			for i := 0; i < n; i++ {
				ar, mr := ares.GetResponses()[i], mres.GetResponses()[i]
				okA := ar.GetState() == pb.ResponseState_SUCCEEDED && verifySig(ar.GetSignature(), attRoot(datas[i]), bigFx.Accounts[i].Key)
				okM := mr.GetState() == pb.ResponseState_SUCCEEDED && verifySig(mr.GetSignature(), signingRoot(mreq.Requests[i].Data, mreq.Requests[i].Domain), bigFx.Accounts[i].Key)
				if !okA || !okM {
					bad++
					if bad <= 2 {
						monFail = append(monFail, fmt.Sprintf("handler requests of %d entries, position %d (key#%d): SignBeaconAttestations %s valid=%v, Multisign %s valid=%v (valid: the signature is that account's over that position's data)",
							n, i, bigFx.Accounts[i].ID, ar.GetState(), okA, mr.GetState(), okM))
					}
				}
			}
			run.stats["large-handler-requests.positions"] += 2 * n
		}
		inst.Close(ctx)
	}

	// SHA-256 itself
	for k := 0; k < 40; k++ {
		in := rng.Bytes([]int{0, 1, 31, 32, 55, 56, 57, 63, 64, 65, 100, 119, 120, 128, 200}[k%15] + rng.Intn(3))
		out := sha256.Sum256(in)
		rid++
		hcases = append(hcases, fmt.Sprintf(" HC %s %s %s", coqN(rid), coqBytes(in), coqBytes(out[:])))
		idx[fmt.Sprint(rid)] = fmt.Sprintf("sha256 of %d bytes", len(in))
	}

	var b strings.Builder
	b.WriteString("From DV Require Import Corr.CheckSig.\nLocal Open Scope Z_scope.\n")
	fmt.Fprintf(&b, "Definition rcases : list rcase := [\n%s].\n", strings.Join(rcases, ";\n"))
	fmt.Fprintf(&b, "Definition hcases : list hcase := [\n%s].\n", strings.Join(hcases, ";\n"))
	b.WriteString("Definition M := Eval vm_compute in (root_mismatches rcases ++ hash_mismatches hcases)%list.\nPrint M.\n")
	if err := os.WriteFile(filepath.Join(cf.out, "cases_C08_roots.v"), []byte(b.String()), 0o644); err != nil {
		return 2
	}
	f1, err := writeInstCases(cf.out, "C08_single", "check_exact", cf.g63, admin, fx, singleSteps, 1500)
	if err != nil {
		return 2
	}
	// the batch steps of small batches only (the cases files carry the whole account list)
	var small []StepRec
	for _, s := range batchSteps {
		if len(s.Op.Addrs) <= 33 {
			small = append(small, s)
		}
	}
	f2, err := writeInstCases(cf.out, "C08_batch", "check_exact", cf.g63, admin, fx, small, 24)
	if err != nil {
		return 2
	}
	files := append(append([]string{"cases_C08_roots.v"}, f1...), f2...)
	for _, l := range [][]StepRec{singleSteps, small} {
		for i := range l {
			idx[fmt.Sprint(l[i].ID)] = describeStepShort(&l[i])
		}
	}
	sum := &Summary{Property: "C08", Seed: cf.seed, Tier: cf.tier, Evaluations: len(singleSteps) + len(batchSteps) + len(rcases) + len(hcases),
		Distinct:     len(rcases) + len(hcases),
		Rule:         "attestation / proposal / generic requests with random field values (uint64 numbers incl. edges, roots of 0/31/32/33 bytes - Go's copy pads or truncates -, domains of 31/32/33 bytes) addressed by name / key / both: the returned signature is verified with the real BLS library under the addressed account's key over a signing root the harness computes with its own SSZ, that root is compared with the model's (and with fastssz); batches of attestations and of generic requests with all-distinct data for sizes x GOMAXPROCS, every position verified; SHA-256 on random inputs of boundary lengths; distinct = distinct root and hash cases",
		Histories:    len(sizes),
		Distribution: run.stats, Samples: samples, MonitorFailures: monFail, CaseFiles: files, CaseIndex: idx,
		Extra: map[string]any{"batch_sizes": sizes, "gomaxprocs": procs}}
	if err := writeSummary(cf.out, sum); err != nil {
		return 2
	}
	return 0
}

func describeStepShort(st *StepRec) string {
	d := describeStep(st)
	if len(d) > 700 {
		return d[:700] + "..."
	}
	return d
}
