From DV Require Import Model.Paths.
Local Open Scope string_scope.

Lemma resolve_path_ignores_cwd e1 e2 p :
  pe_home e1 = pe_home e2 -> pe_base e1 = pe_base e2 -> resolve_path e1 p = resolve_path e2 p.
Proof. intros Hh Hb; unfold resolve_path; rewrite Hh, Hb; reflexivity. Qed.

Lemma join_abs b p : is_abs b = true -> is_abs (join b p) = true.
Proof.
  unfold join; intros Hb; destruct (String.eqb b "/"); [reflexivity|].
  destruct b as [|c b']; [discriminate|exact Hb].
Qed.

Lemma resolve_path_abs e p :
  is_abs (pe_home e) = true -> (pe_base e = "" \/ is_abs (pe_base e) = true) ->
  is_abs (resolve_path e p) = true.
Proof.
  intros Hh Hb; unfold resolve_path; destruct (is_abs p) eqn:Hp; [exact Hp|].
  apply join_abs; destruct Hb as [Hb|Hb].
  - rewrite Hb; exact Hh.
  - destruct (String.eqb (pe_base e) ""); [exact Hh|exact Hb].
Qed.

(* the variant that falls back to the working directory opens different stores from different directories *)
Lemma cwd_fallback_witness :
  let e1 := {| pe_cwd := "/"; pe_home := "/root"; pe_base := "" |} in
  let e2 := {| pe_cwd := "/tmp"; pe_home := "/root"; pe_base := "" |} in
  resolve_path_cwd_fallback false e1 "storage" = "/storage" /\
  resolve_path_cwd_fallback false e2 "storage" = "/tmp/storage" /\
  resolve_path e1 "storage" = "/root/storage" /\ resolve_path e2 "storage" = "/root/storage".
Proof. vm_compute; repeat split. Qed.
