(* C12, algebra part (mathcomp / ssreflect style; the protocol part is Properties/C12.v). *)
From mathcomp Require Import all_ssreflect all_algebra.
From DV Require Import Algebra.Shamir.
Set Implicit Arguments. Unset Strict Implicit. Unset Printing Implicit Defensive.
Import GRing.Theory.
Open Scope ring_scope.

(* Algebra, over ANY field F and any F-module of commitments (mathcomp): with n dealers of
   polynomials of size <= t, the share a participant sums up is the master polynomial at its
   identifier, the aggregate vector is the commitment of the master polynomial's coefficients (so it
   is the same for everyone and its head is the commitment of the master secret), every final share
   passes the Feldman check against the aggregate vector, any t participants with distinct identifiers
   Lagrange-combine their partial signatures (linear in the share) into the signature under the
   composite key, and any fewer shares are consistent with every value of the secret. *)
Theorem C12_algebra (F : fieldType) (G : lmodType F) (g : G) (n t : nat) (f : 'I_n -> {poly F}) :
  (forall d, (size (f d) <= t)%N) ->
  [/\ (size (master f) <= t)%N,
      forall z, final_share f z = (master f).[z],
      forall k, agg_vvec g f k = commit g (master f)`_k,
      agg_vvec g f 0 = commit g (master f).[0] &
      forall z, commit g (final_share f z) = \sum_(k < size (master f)) (z ^+ k) *: agg_vvec g f k].
Proof.
move=> Hs; split.
- exact: master_size.
- exact: final_share_master.
- exact: agg_vvec_master.
- exact: composite_key.
- exact: final_share_consistent.
Qed.
Print Assumptions C12_algebra.

Theorem C12_threshold_signature (F : fieldType) (G : lmodType F) (n t : nat) (f : 'I_n -> {poly F}) :
  (forall d, (size (f d) <= t)%N) ->
  forall (x : 'I_t -> F), injective x -> forall h : G,
  \sum_(i < t) (lbasis x i).[0] *: (final_share f (x i) *: h) = (master f).[0] *: h.
Proof. by move=> Hs x Hx h; exact: dkg_threshold_signature. Qed.
Print Assumptions C12_threshold_signature.

Theorem C12_fewer_shares_reveal_nothing (F : fieldType) (t k : nat) (z : 'I_k -> F) (p : {poly F}) (s' : F) :
  (k < t)%N -> (forall j, z j != 0) -> (size p <= t)%N ->
  exists q : {poly F}, [/\ (size q <= t)%N, q.[0] = s' & forall j, q.[z j] = p.[z j]].
Proof. exact: secrecy. Qed.
Print Assumptions C12_fewer_shares_reveal_nothing.

