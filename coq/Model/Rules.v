(* Model of rules/standard: the slashing-protection rules and their store.
   Transcribed from rules/standard/{sign,signbeaconattestation,signbeaconattestations,
   signbeaconproposal,slashingprotection}.go.  No proofs in this file. *)
From DV Require Export Base.Int64 Base.Assoc.
From Coq Require Export String.

Inductive rres := RUnknown | RApproved | RDenied | RFailed.

Definition rres_eqb (a b : rres) : bool :=
  match a, b with
  | RUnknown, RUnknown | RApproved, RApproved | RDenied, RDenied | RFailed, RFailed => true
  | _, _ => false
  end.

(* ---- the store: decoded records, keyed by the number the harness gives a public key ---- *)

Record astate := { a_src : Z; a_tgt : Z }.            (* int64 values as stored *)
Definition anone : astate := {| a_src := -1; a_tgt := -1 |}.

Record store := { s_att : list (N * astate); s_prop : list (N * Z) }.
Definition empty_store : store := {| s_att := []; s_prop := [] |}.

(* what fetchSignBeaconAttestationState / fetchSignBeaconProposalState return: absent = -1 *)
Definition view_att (st : store) (k : N) : astate :=
  match lookup k (s_att st) with Some a => a | None => anone end.
Definition view_prop (st : store) (k : N) : Z :=
  match lookup k (s_prop st) with Some z => z | None => -1 end.
Definition put_att (st : store) (k : N) (a : astate) : store :=
  {| s_att := insert k a (s_att st); s_prop := s_prop st |}.
Definition put_prop (st : store) (k : N) (z : Z) : store :=
  {| s_att := s_att st; s_prop := insert k z (s_prop st) |}.

(* ---- configuration ---- *)

Record rcfg := {
  guard63 : bool;              (* true = epochs/slots above MaxInt64 are refused (the F1 repair) *)
  admin_ips : list string }.

(* ---- domains ---- *)

Definition bytes := list N.
Fixpoint bytes_eqb (a b : bytes) : bool :=
  match a, b with
  | [], [] => true
  | x :: a', y :: b' => N.eqb x y && bytes_eqb a' b'
  | _, _ => false
  end.
(* req.Domain[0:4]; the slice has capacity >= 4 and the bytes past its List.length are zero
   (what protobuf decoding produces; Wire.v models the capacity and the panic otherwise) *)
Definition prefix4 (d : bytes) : bytes := firstn 4 (d ++ [0; 0; 0; 0]%N).
Definition dom_proposer : bytes := [0; 0; 0; 0]%N.
Definition dom_attester : bytes := [1; 0; 0; 0]%N.
Definition dom_exit     : bytes := [4; 0; 0; 0]%N.

(* ---- faults injected at the store ---- *)

Record rfault := { f_fetch : list nat;      (* positions whose Fetch returns an error *)
                   f_store : bool }.         (* the Store / BatchStore call returns an error *)
Definition no_fault : rfault := {| f_fetch := []; f_store := false |}.
Definition fetch_fails (f : rfault) (i : nat) : bool := existsb (Nat.eqb i) (f_fetch f).

(* ---- runSignBeaconAttestationChecks ---- *)

Definition att_checks (c : rcfg) (dom : bytes) (st : astate) (s t : Z) : rres * astate :=
  if negb (bytes_eqb (prefix4 dom) dom_attester) then (RDenied, st) else
  if guard63 c && ((two63 <=? s) || (two63 <=? t)) then (RDenied, st) else
  if negb ((s =? 0) && (t =? 0)) && (t <=? s) then (RDenied, st) else
  if (0 <=? a_tgt st) && (t <=? to_uint64 (a_tgt st)) then (RDenied, st) else
  if (0 <=? a_src st) && (s <? to_uint64 (a_src st)) then (RDenied, st) else
  (RApproved, {| a_src := to_int64 s; a_tgt := to_int64 t |}).

Record areq := { r_key : N; r_dom : bytes; r_src : Z; r_tgt : Z }.

(* OnSignBeaconAttestation: fetch; check; store only when approved *)
Definition on_att (c : rcfg) (st : store) (f : rfault) (r : areq) : rres * store :=
  if fetch_fails f 0 then (RFailed, st) else
  let '(res, a') := att_checks c (r_dom r) (view_att st (r_key r)) (r_src r) (r_tgt r) in
  match res with
  | RApproved => if f_store f then (RFailed, st) else (RApproved, put_att st (r_key r) a')
  | _ => (res, st)
  end.

(* OnSignBeaconAttestations: fetch all; check all; store ALL states (also the unchanged state
   of refused entries); any error fails every position *)
Definition store_all (st : store) (l : list (N * astate)) : store :=
  fold_left (fun s ka => put_att s (fst ka) (snd ka)) l st.

Definition on_atts (c : rcfg) (st : store) (f : rfault) (rs : list areq) : list rres * store :=
  let n := List.length rs in
  if existsb (fetch_fails f) (seq 0 n) then (repeat RFailed n, st) else
  let outs := map (fun r => att_checks c (r_dom r) (view_att st (r_key r)) (r_src r) (r_tgt r)) rs in
  if f_store f || (n =? 0)%nat then (repeat RFailed n, st) else
  (map fst outs, store_all st (combine (map r_key rs) (map snd outs))).

(* ---- OnSignBeaconProposal ---- *)

Record preq := { p_key : N; p_dom : bytes; p_slot : Z }.

Definition on_prop (c : rcfg) (st : store) (f : rfault) (r : preq) : rres * store :=
  if negb (bytes_eqb (prefix4 (p_dom r)) dom_proposer) then (RDenied, st) else
  if fetch_fails f 0 then (RFailed, st) else
  let cur := view_prop st (p_key r) in
  if guard63 c && (two63 <=? p_slot r) then (RDenied, st) else
  if (0 <=? cur) && (p_slot r <=? to_uint64 cur) then (RDenied, st) else
  if f_store f then (RFailed, st) else
  (RApproved, put_prop st (p_key r) (to_int64 (p_slot r))).

(* ---- OnSign ---- *)

Definition on_sign (c : rcfg) (ip : string) (dom : bytes) : rres :=
  let p := prefix4 dom in
  if bytes_eqb p dom_attester then RDenied else
  if bytes_eqb p dom_proposer then RDenied else
  if bytes_eqb p dom_exit then
    (if String.eqb ip "" then RDenied
     else if existsb (String.eqb ip) (admin_ips c) then RApproved else RDenied)
  else RApproved.

(* ---- ExportSlashingProtection / ImportSlashingProtection (rules level) ---- *)

Record sp := { sp_slot : Z; sp_src : Z; sp_tgt : Z }.

Definition export_keys (st : store) : list N := map fst (s_att st) ++ map fst (s_prop st).
Definition export_view (st : store) (k : N) : sp :=
  {| sp_slot := view_prop st k; sp_src := a_src (view_att st k); sp_tgt := a_tgt (view_att st k) |}.

Definition import_one (st : store) (kv : N * sp) : store :=
  let '(k, v) := kv in
  let st1 := if sp_slot v =? -1 then st else put_prop st k (sp_slot v) in
  if sp_src v =? -1 then st1 else put_att st1 k {| a_src := sp_src v; a_tgt := sp_tgt v |}.
Definition import_rules (st : store) (l : list (N * sp)) : store := fold_left import_one l st.
