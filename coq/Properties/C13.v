(* C13 - invalid or failed key-generation exchanges create no account anywhere. *)
From DV Require Import Model.Dkg Proofs.DkgProofs.
Local Open Scope Z_scope.

(* (a) The receiving instance rejects, on either side of a swap, a contribution whose share does not
   match its vector at the receiver's identifier, and (repaired variant, check_len) one whose vector
   does not have exactly threshold entries; a rejection changes nothing. *)
Theorem C13_invalid_contribution_rejected :
  (forall c n acct sender share vvec,
     verify_contribution (nd_id n) share vvec = false -> on_contribute c n acct sender share vvec = DErr) /\
  (forall c n acct sender share vvec g,
     check_len c = true -> gfind acct (nd_gens n) = Some g -> List.length vvec <> g_thr g ->
     on_contribute c n acct sender share vvec = DErr) /\
  (forall c n acct peer share vvec,
     verify_contribution (nd_id n) share vvec = false -> accept_reply c n acct peer share vvec = DErr) /\
  (forall c n acct peer share vvec g,
     check_len c = true -> gfind acct (nd_gens n) = Some g -> List.length vvec <> g_thr g ->
     accept_reply c n acct peer share vvec = DErr).
Proof.
  split; [exact on_contribute_rejects_invalid|]. split; [exact on_contribute_rejects_length|].
  split; [exact accept_reply_rejects_invalid|exact accept_reply_rejects_length].
Qed.
Print Assumptions C13_invalid_contribution_rejected.

(* (a') ... and they reject nothing else: a contribution dealt honestly (the share is the polynomial's value
   at the receiver's identifier, the vector has threshold entries) is accepted on either side of a swap. *)
Theorem C13_valid_contribution_accepted :
  (forall c n acct sender poly g,
     gfind acct (nd_gens n) = Some g -> poly <> [] -> List.length poly = g_thr g ->
     exists n', on_contribute c n acct sender (horner poly (idz (nd_id n))) poly
                = DOk (n', (horner (g_poly g) (idz sender), g_poly g))) /\
  (forall c n acct peer poly g,
     gfind acct (nd_gens n) = Some g -> poly <> [] -> List.length poly = g_thr g ->
     afind N.eqb peer (g_shares g) = None ->
     exists n', accept_reply c n acct peer (horner poly (idz (nd_id n))) poly = DOk n').
Proof. split; [exact honest_contribution_accepted|exact honest_reply_accepted]. Qed.
Print Assumptions C13_valid_contribution_accepted.

(* (a'') the prepare phase never fails for a name nobody holds a generation for: it fails only when a
   participant is unreachable or already has one (C17) *)
Theorem C13_prepare_succeeds_when_fresh :
  forall acct thr parts poly todo cl,
    NoDup todo ->
    (forall p, In p todo -> exists n, cfind p cl = Some n /\ gfind acct (nd_gens n) = None) ->
    fst (prepare_all acct thr parts poly todo cl) = true.
Proof. exact prepare_all_fresh. Qed.

(* (b) The network nt may lose (or answer by an error) any prepare or execute message and lose or
   alter any contribution in flight.  If the exchange does not complete - a prepare or an execute
   message does not get through, a participant refuses to prepare, or any swap fails (a lost message,
   an error reply, a rejected contribution) - the generation ends with an error and the accounts
   held by every instance are exactly those held before: the initiator never sends commit. *)
Theorem C13_failed_exchange_creates_no_account :
  forall c nt acct thr parts poly cl,
    fst (exchange c nt acct thr parts poly cl) = false ->
    fst (generate c nt acct thr parts poly cl) = DErr /\
    accounts_of (snd (generate c nt acct thr parts poly cl)) = accounts_of cl.
Proof. exact failed_exchange_creates_nothing. Qed.
Print Assumptions C13_failed_exchange_creates_no_account.

(* the exchange does fail in each of those cases *)
Theorem C13_exchange_fails :
  (forall c nt acct thr parts poly cl p,
     In p parts -> nt_lost_prepare nt p = true -> fst (exchange c nt acct thr parts poly cl) = false) /\
  (forall c nt acct thr parts poly cl p,
     In p parts -> nt_lost_execute nt p = true -> fst (exchange c nt acct thr parts poly cl) = false) /\
  (forall c nt acct thr parts poly cl,
     fst (prepare_all acct thr parts poly (until (nt_lost_prepare nt) parts) cl) = false ->
     fst (exchange c nt acct thr parts poly cl) = false) /\
  (forall c nt acct thr parts poly cl,
     fst (execute_all c (nt_swap nt) acct (until (nt_lost_execute nt) parts)
            (snd (prepare_all acct thr parts poly (until (nt_lost_prepare nt) parts) cl))) = false ->
     fst (exchange c nt acct thr parts poly cl) = false).
Proof.
  split; [exact lost_prepare_fails|]. split; [exact lost_execute_fails|].
  split; [exact refused_prepare_fails|exact failed_swap_fails].
Qed.
Print Assumptions C13_exchange_fails.

(* (c) No contribution makes an instance crash: with the length check, for every behaviour of the
   network, the generation never reaches the out-of-range index of the aggregate vector. *)
Theorem C13_no_crash :
  forall c nt acct thr parts poly cl,
    check_len c = true -> cluster_inv c cl -> polys_ok c thr poly ->
    fst (generate c nt acct thr parts poly cl) <> DPanic.
Proof. exact generate_no_panic. Qed.
Print Assumptions C13_no_crash.

(* the pinned (pre-fix) receiving side: a vector one entry too long, consistent with its share, is
   accepted, and the commit indexes the threshold-sized aggregate out of range (F4) *)
Lemma C13_refuted_legacy :
  fst (generate {| check_len := false |} (net_of pad_vector) "W/a" 2 [1; 2; 3]%N poly3 [mkn 1; mkn 2; mkn 3]) = DPanic.
Proof. exact legacy_long_vector_panics. Qed.

(* the same run with the check: refused, nobody holds an account *)
Example C13_example :
  generate {| check_len := true |} (net_of pad_vector) "W/a" 2 [1; 2; 3]%N poly3 [mkn 1; mkn 2; mkn 3] =
  (DErr, snd (generate {| check_len := true |} (net_of pad_vector) "W/a" 2 [1; 2; 3]%N poly3 [mkn 1; mkn 2; mkn 3])) /\
  accounts_of (snd (generate {| check_len := true |} (net_of pad_vector) "W/a" 2 [1; 2; 3]%N poly3 [mkn 1; mkn 2; mkn 3])) =
  accounts_of [mkn 1; mkn 2; mkn 3].
Proof. exact fixed_long_vector_rejected. Qed.
