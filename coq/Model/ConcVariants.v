(* The lock protocol with its two mechanisms made optional, for the refutation witnesses:
   use_prelock = the locker-wide mutex around the acquisition of a request's key locks;
   lock_all    = every key of the request is locked (false: only the first).
   With both on this is Conc.fire (ConcVariantsProofs.fire_v_on). *)
From DV Require Export Model.Conc.

Section V.
Variable val req verdict : Type.
Variable keys : req -> list key.
Variable decide : req -> list (key * val) -> verdict * list (key * val).
Variables (use_prelock lock_all : bool).

Definition to_lock (r : req) : list key := if lock_all then keys r else firstn 1 (keys r).

Definition fire_v (w : world val req verdict) (t : nat) : option (world val req verdict) :=
  match nth_error (w_threads w) t with
  | None => None
  | Some th =>
    let r := t_req th in
    let put ph := set_thread (w_threads w) t {| t_req := r; t_ph := ph |} in
    match t_ph th with
    | PStart =>
        if use_prelock then
          match w_mlock w with
          | None => Some {| w_store := w_store w; w_mlock := Some t; w_klock := w_klock w;
                            w_threads := put (PLocking (to_lock r) []); w_log := w_log w |}
          | Some _ => None end
        else Some {| w_store := w_store w; w_mlock := w_mlock w; w_klock := w_klock w;
                     w_threads := put (PLocking (to_lock r) []); w_log := w_log w |}
    | PLocking (k :: todo) got =>
        match w_klock w k with
        | None => Some {| w_store := w_store w; w_mlock := w_mlock w; w_klock := kset (w_klock w) k (Some t);
                          w_threads := put (PLocking todo (k :: got)); w_log := w_log w |}
        | Some _ => None end
    | PLocking [] got =>
        Some {| w_store := w_store w; w_mlock := if use_prelock then None else w_mlock w; w_klock := w_klock w;
                w_threads := put (PLocked got (keys r) []); w_log := w_log w |}
    | PLocked got (k :: tf) reads =>
        Some {| w_store := w_store w; w_mlock := w_mlock w; w_klock := w_klock w;
                w_threads := put (PLocked got tf (reads ++ [(k, w_store w k)])); w_log := w_log w |}
    | PLocked got [] reads =>
        let d := decide r reads in
        Some {| w_store := apply (w_store w) (snd d); w_mlock := w_mlock w; w_klock := w_klock w;
                w_threads := put (PCommitted got (fst d)); w_log := (t, r, fst d) :: w_log w |}
    | PCommitted (k :: rest) out =>
        Some {| w_store := w_store w; w_mlock := w_mlock w; w_klock := kset (w_klock w) k None;
                w_threads := put (PCommitted rest out); w_log := w_log w |}
    | PCommitted [] out =>
        Some {| w_store := w_store w; w_mlock := w_mlock w; w_klock := w_klock w;
                w_threads := put (PDone out); w_log := w_log w |}
    | PDone _ => None
    end
  end.

Fixpoint run_sched_v (w : world val req verdict) (sched : list nat) : option (world val req verdict) :=
  match sched with
  | [] => Some w
  | t :: r => match fire_v w t with Some w' => run_sched_v w' r | None => None end
  end.
End V.
Arguments fire_v {val req verdict} keys decide use_prelock lock_all w t.
Arguments run_sched_v {val req verdict} keys decide use_prelock lock_all w sched.
