package main

import (
	"context"
	"encoding/binary"
	"fmt"
	"os"
	"path/filepath"
	"sort"
	"strings"
	"sync"
	"time"

	"github.com/attestantio/dirk/core"
	"github.com/attestantio/dirk/rules"
	"github.com/attestantio/dirk/services/checker"
	"github.com/herumi/bls-eth-go-binary/bls"
)

// C14: an account distributed over a real cluster by a real key generation; conflicting duties are
// routed to arbitrary subsets of the instances, repeated and interleaved; the valid partial
// signatures per duty are counted.

type duty struct {
	Att  *AttData
	Prop *PropData
}

func (d duty) root() []byte {
	if d.Att != nil {
		return attRoot(*d.Att)
	}
	return propRoot(*d.Prop)
}

func (d duty) String() string {
	if d.Att != nil {
		return fmt.Sprintf("att %d->%d root=%x", d.Att.Src.Epoch, d.Att.Tgt.Epoch, d.Att.BBR[:2])
	}
	return fmt.Sprintf("block slot=%d body=%x", d.Prop.Slot, d.Prop.Body[:2])
}

func nodeStore(ctx context.Context, n *Node, shareKey []byte, others ...[]byte) (*StoreView, error) {
	raw, err := n.Rules.VerifRaw(ctx)
	if err != nil {
		return nil, err
	}
	sv := &StoreView{Att: map[int]AttRec{}, Prop: map[int]int64{}}
	for k, v := range raw {
		id := 100000 + int(binary.LittleEndian.Uint32(k[:4]))%100000
		if sameBytes(k[:48], shareKey) {
			id = 1
		}
		for oi, o := range others {
			if sameBytes(k[:48], o) {
				id = 2 + oi
			}
		}
		switch k[48] {
		case 0x02:
			if len(v) == 17 && v[0] == 1 {
				sv.Att[id] = AttRec{int64(binary.LittleEndian.Uint64(v[1:9])), int64(binary.LittleEndian.Uint64(v[9:17]))}
			}
		case 0x03:
			if len(v) == 9 && v[0] == 1 {
				sv.Prop[id] = int64(binary.LittleEndian.Uint64(v[1:9]))
			}
		}
	}
	return sv, nil
}

func cmdClusterDuties(args []string) int {
	cf := parseCommon("C14", args, nil)
	ctx := context.Background()
	rng := NewPRNG(cf.seed)
	thorough := cf.tier == "thorough"
	stats := map[string]int{}
	var monFail, samples, files []string
	idx := map[string]string{}
	caseID := 0
	type conf struct {
		ids  []uint64
		n, t uint32
	}
	confs := []conf{{[]uint64{1, 2, 3}, 3, 2}, {[]uint64{1, 2, 3}, 3, 3}, {[]uint64{4, 9, 2, 7}, 4, 3}, {[]uint64{1, 2}, 2, 2}, {[]uint64{5, 1 << 40, 18446744073709551615, 8, 3}, 5, 3}}
	rounds := 10
	if thorough {
		confs = append(confs, conf{[]uint64{1, 2, 3, 4, 5}, 5, 4}, conf{[]uint64{1, 2, 3, 4, 5, 6, 7}, 7, 4}, conf{[]uint64{1, 2, 3, 4, 5, 6}, 6, 4}, conf{[]uint64{11, 12, 13, 14}, 4, 4})
		rounds = 40
	}
	creds := &checker.Credentials{Client: "client1", IP: "10.0.0.1"}
	for ci, cfg := range confs {
		c, err := NewCluster(ctx, cfg.ids, 70*time.Second)
		if err != nil {
			fmt.Fprintln(os.Stderr, err)
			return 2
		}
		acct := fmt.Sprintf("Wallet 3/v%d", ci)
		gr := &dkgRun{IDs: cfg.ids, Initiator: cfg.ids[0], N: cfg.n, T: cfg.t, Acct: acct}
		runGeneration(ctx, c, gr)
		if gr.Err != nil {
			monFail = append(monFail, fmt.Sprintf("CONFIG key generation n=%d t=%d on %v failed: %v", cfg.n, cfg.t, cfg.ids, gr.Err))
			c.Close(ctx)
			continue
		}
		stats[fmt.Sprintf("cluster.n=%d.t=%d", cfg.n, cfg.t)]++
		var composite bls.PublicKey
		_ = composite.Deserialize(gr.PubKey)
		shareKey := map[uint64][]byte{}
		for _, id := range gr.Parts {
			shareKey[id] = gr.Accounts[id].sharePub()
		}
		// a second distributed account, already far ahead, to fill batches with an entry that is refused
		acctW := fmt.Sprintf("Wallet 3/w%d", ci)
		grW := &dkgRun{IDs: cfg.ids, Initiator: cfg.ids[0], N: cfg.n, T: cfg.t, Acct: acctW}
		runGeneration(ctx, c, grW)
		shareKeyW := map[uint64][]byte{}
		if grW.Err == nil {
			for _, id := range grW.Parts {
				shareKeyW[id] = grW.Accounts[id].sharePub()
				far := &AttData{Dom: mkDomain([]byte{1, 0, 0, 0}, 5), Slot: 32000000, Idx: 1, BBR: fill32(9), Src: &Checkpoint{Epoch: 999999, Root: fill32(1)}, Tgt: &Checkpoint{Epoch: 1000000, Root: fill32(9)}}
				_, _ = c.Nodes[id].Signer.SignBeaconAttestation(ctx, creds, acctW, nil, far.toRules())
			}
		}
		var lines []string
		epoch := uint64(10)
		for round := 0; round < rounds; round++ {
			epoch += 10
			attDom := mkDomain([]byte{1, 0, 0, 0}, 5)
			propDom := mkDomain([]byte{0, 0, 0, 0}, 5)
			mkAtt := func(s, t uint64, r byte) duty {
				return duty{Att: &AttData{Dom: attDom, Slot: t * 32, Idx: 1, BBR: fill32(r), Src: &Checkpoint{Epoch: s, Root: fill32(1)}, Tgt: &Checkpoint{Epoch: t, Root: fill32(r)}}}
			}
			mkProp := func(slot uint64, r byte) duty {
				return duty{Prop: &PropData{Dom: propDom, Slot: slot, Pidx: 3, Parent: fill32(2), State: fill32(3), Body: fill32(r)}}
			}
			var d1, d2 duty
			kind := []string{"same-target", "same-target-other-source", "surrounding", "surrounded", "same-slot"}[rng.Intn(5)]
			if round == 0 {
				kind = "same-slot-0" // the very first slot: a stored 0 is a watermark, not "nothing signed"
			}
			if round == 1 {
				kind = "genesis-votes" // the very first vote a validator can cast (0 -> 0), twice with different data
			}
			switch kind {
			case "same-target":
				d1, d2 = mkAtt(epoch-1, epoch, 0x11), mkAtt(epoch-1, epoch, 0x22)
			case "same-target-other-source":
				d1, d2 = mkAtt(epoch-2, epoch, 0x11), mkAtt(epoch-1, epoch, 0x22)
			case "surrounding": // d2 surrounds d1
				d1, d2 = mkAtt(epoch-3, epoch-2, 0x11), mkAtt(epoch-4, epoch, 0x22)
			case "surrounded": // d2 is surrounded by d1
				d1, d2 = mkAtt(epoch-4, epoch, 0x11), mkAtt(epoch-3, epoch-2, 0x22)
			case "same-slot":
				d1, d2 = mkProp(epoch*32, 0x11), mkProp(epoch*32, 0x22)
			case "same-slot-0":
				d1, d2 = mkProp(0, 0x11), mkProp(0, 0x22)
			case "genesis-votes":
				d1, d2 = mkAtt(0, 0, 0x11), mkAtt(0, 0, 0x22)
			}
			stats["pair."+kind]++
			// routing: each duty to a subset (often everyone), with repeats, shuffled together
			type send struct {
				node  uint64
				d     int
				mode  int  // 0 by name, 1 by share key, 2 by share key with a trailing byte
				batch bool // through the batch endpoint, together with an entry for the second account
				fresh bool // that other entry is approvable (else stale and refused)
				order bool // the other entry comes first
				seq   int
			}
			var plan []send
			for di := 0; di < 2; di++ {
				for _, id := range gr.Parts {
					if rng.Chance(85) {
						plan = append(plan, send{id, di, []int{0, 0, 1, 2}[rng.Intn(4)], rng.Chance(30), rng.Chance(50), rng.Chance(50), len(plan)})
						if rng.Chance(25) {
							plan = append(plan, send{id, di, []int{0, 1, 2}[rng.Intn(3)], rng.Chance(30), rng.Chance(50), rng.Chance(50), len(plan)})
						}
						if di == 1 && rng.Chance(35) {
							// between the two duties: a stale attestation for the SAME account, refused, inside a batch
							plan = append(plan, send{id, -1, 0, rng.Chance(50), true, false, len(plan)})
						}
					}
				}
			}
			switch rng.Intn(3) {
			case 0: // the adversarial split: first duty to one half first, second duty to the other half first
			default:
				for i := len(plan) - 1; i > 0; i-- {
					j := rng.Intn(i + 1)
					plan[i], plan[j] = plan[j], plan[i]
				}
			}
			if rng.Intn(3) == 0 {
				// interleave by node: d1 first on the lower half, d2 first on the upper half
				sort.SliceStable(plan, func(i, j int) bool {
					pi, pj := plan[i], plan[j]
					if pi.node != pj.node {
						return pi.node < pj.node
					}
					lower := pi.node <= gr.Parts[len(gr.Parts)/2]
					if lower {
						return pi.d < pj.d
					}
					return pi.d > pj.d
				})
			}
			concurrent := rng.Chance(30)
			duties := []duty{d1, d2}
			signed := [2]map[uint64]bls.Sign{{}, {}}
			var mu sync.Mutex
			deliver := func(s send, record bool) {
				n := c.Nodes[s.node]
				var d duty
				if s.d >= 0 {
					d = duties[s.d]
				} else {
					if duties[0].Att == nil || shareKeyW[s.node] == nil {
						return
					}
					// the poison: far below anything signed for this account - 1 -> 2, or the genesis-shaped 0 -> 0
					pe := uint64(s.seq % 2)
					d = duty{Att: &AttData{Dom: duties[0].Att.Dom, Slot: 64 * pe, Idx: 1, BBR: fill32(0x33), Src: &Checkpoint{Epoch: pe, Root: fill32(1)}, Tgt: &Checkpoint{Epoch: 2 * pe, Root: fill32(0x33)}}}
					if s.seq%3 == 2 {
						// ... or far above: a target no stored watermark can hold (2^64 - 1, 2^63), with an ordinary source
						far := []uint64{1<<64 - 1, 1 << 63}[s.seq%2]
						d = duty{Att: &AttData{Dom: duties[0].Att.Dom, Slot: 64, Idx: 1, BBR: fill32(0x33), Src: &Checkpoint{Epoch: duties[0].Att.Src.Epoch, Root: fill32(1)}, Tgt: &Checkpoint{Epoch: far, Root: fill32(0x33)}}}
					}
				}
				var batchObs []Obs
				var pre, post *StoreView
				if record {
					pre, _ = nodeStore(ctx, n, shareKey[s.node], shareKeyW[s.node])
				}
				var res core.Result
				var sig []byte
				// addressed by name, by the share public key, or by that key followed by an extra byte
				ad := Addr{Name: acct}
				name, key := acct, []byte(nil)
				switch s.mode {
				case 1:
					ad = Addr{Key: shareKey[s.node], KeyID: 1, HasKey: true}
					name, key = "", shareKey[s.node]
				case 2:
					ad = Addr{Key: shareKey[s.node], KeyID: 1, HasKey: true, Pad: []byte{0xab}}
					name, key = "", append(append([]byte{}, shareKey[s.node]...), 0xab)
				}
				op := &Op{Client: "client1", IP: "10.0.0.1", Addrs: []Addr{ad}}
				nres := 1
				switch {
				case d.Att != nil && s.batch && shareKeyW[s.node] != nil:
					// the duty inside a batch whose other entry (the second account, far ahead) is refused
					stale := AttData{Dom: d.Att.Dom, Slot: 64, Idx: 1, BBR: fill32(7), Src: &Checkpoint{Epoch: 1, Root: fill32(1)}, Tgt: &Checkpoint{Epoch: 2, Root: fill32(7)}}
					if s.fresh {
						// ... or is approved (the second account moves on): results must stay with their entries
						wEpoch := 1000000 + epoch + uint64(s.seq)
						stale = AttData{Dom: d.Att.Dom, Slot: wEpoch * 32, Idx: 1, BBR: fill32(8), Src: &Checkpoint{Epoch: wEpoch - 1, Root: fill32(1)}, Tgt: &Checkpoint{Epoch: wEpoch, Root: fill32(8)}}
					}
					op.Kind, op.Addrs, op.Atts = KAttests, []Addr{ad, {Name: acctW}}, []AttData{*d.Att, stale}
					names, keys, datas, mine := []string{name, acctW}, [][]byte{key, nil}, []*rules.SignBeaconAttestationData{d.Att.toRules(), stale.toRules()}, 0
					if s.order {
						op.Addrs, op.Atts = []Addr{{Name: acctW}, ad}, []AttData{stale, *d.Att}
						names, keys, datas, mine = []string{acctW, name}, [][]byte{nil, key}, []*rules.SignBeaconAttestationData{stale.toRules(), d.Att.toRules()}, 1
					}
					rs, sigs := n.Signer.SignBeaconAttestations(ctx, creds, names, keys, datas)
					nres = len(rs)
					if len(rs) > mine {
						res = rs[mine]
						if len(sigs) > mine {
							sig = sigs[mine]
						}
					}
					if record {
						var obs []Obs
						for i := range rs {
							l := 0
							if i < len(sigs) {
								l = len(sigs[i])
							}
							obs = append(obs, Obs{State: rs[i], SigLen: l})
						}
						batchObs = obs
					}
				case d.Att != nil:
					op.Kind, op.Atts = KAttest, []AttData{*d.Att}
					res, sig = n.Signer.SignBeaconAttestation(ctx, creds, name, key, d.Att.toRules())
				default:
					op.Kind, op.Props = KPropose, []PropData{*d.Prop}
					res, sig = n.Signer.SignBeaconProposal(ctx, creds, name, key, d.Prop.toRules())
				}
				_ = nres
				valid := false
				var bs bls.Sign
				if res == core.ResultSucceeded && len(sig) > 0 {
					var pk bls.PublicKey
					if bs.Deserialize(sig) == nil && pk.Deserialize(shareKey[s.node]) == nil {
						valid = bs.VerifyByte(&pk, d.root())
					}
					if !valid {
						mu.Lock()
						monFail = append(monFail, fmt.Sprintf("instance %d returned a signature over %s that does not verify under its share key", s.node, d))
						mu.Unlock()
					}
				}
				mu.Lock()
				defer mu.Unlock()
				if valid && s.d >= 0 {
					signed[s.d][s.node] = bs
				}

				stats["requests"]++
				if valid {
					stats["requests.signed"]++
				}
				if record {
					post, _ = nodeStore(ctx, n, shareKey[s.node], shareKeyW[s.node])
					caseID++
					obs := []Obs{{State: res, SigLen: len(sig)}}
					if batchObs != nil {
						obs = batchObs
					}
					lines = append(lines, fmt.Sprintf(" IC %s %s %s %s %s", coqN(caseID), coqStore(pre), coqOp(op), coqObs(obs), coqStore(post)))
					idx[fmt.Sprint(caseID)] = fmt.Sprintf("cluster %v t=%d account %q round %d (%s): instance %d asked for %s -> %s pre=%s post=%s", cfg.ids, cfg.t, acct, round, kind, s.node, d, res, fmtStore(pre), fmtStore(post))
				}
			}
			if concurrent {
				stats["rounds.concurrent"]++
				var wg sync.WaitGroup
				for _, s := range plan {
					wg.Add(1)
					go func(s send) { defer wg.Done(); deliver(s, false) }(s)
				}
				wg.Wait()
			} else {
				stats["rounds.sequential"]++
				for _, s := range plan {
					deliver(s, true)
				}
			}
			// ---- the property on the real cluster ----
			ctxs := fmt.Sprintf("cluster %v n=%d t=%d account %q round %d %s {%s | %s} concurrent=%v: ", cfg.ids, cfg.n, cfg.t, acct, round, kind, d1, d2, concurrent)
			for id := range signed[0] {
				if _, both := signed[1][id]; both {
					monFail = append(monFail, ctxs+fmt.Sprintf("instance %d produced valid partial signatures over both conflicting duties", id))
				}
			}
			stats[fmt.Sprintf("signers.%d+%d", min(len(signed[0]), len(signed[1])), max(len(signed[0]), len(signed[1])))]++
			if len(signed[0]) >= int(cfg.t) && len(signed[1]) >= int(cfg.t) {
				monFail = append(monFail, ctxs+fmt.Sprintf("both conflicting duties collected %d and %d valid partial signatures (threshold %d)", len(signed[0]), len(signed[1]), cfg.t))
			}
			// composite signatures: at most one duty can be completed
			completed := 0
			for di := 0; di < 2; di++ {
				if len(signed[di]) < int(cfg.t) {
					continue
				}
				var ss []bls.Sign
				var is []bls.ID
				for id, s := range signed[di] {
					if len(ss) < int(cfg.t) {
						ss = append(ss, s)
						is = append(is, *blsID(id))
					}
				}
				var comp bls.Sign
				if comp.Recover(ss, is) == nil && comp.VerifyByte(&composite, duties[di].root()) {
					completed++
					stats["composite.completed"]++
				} else {
					monFail = append(monFail, ctxs+fmt.Sprintf("%d valid partial signatures over %s do not combine into a valid composite signature", cfg.t, duties[di]))
				}
			}
			if completed > 1 {
				monFail = append(monFail, ctxs+"composite signatures were completed for both conflicting duties")
			}
			if len(samples) < 3 {
				samples = append(samples, ctxs+fmt.Sprintf("signers %v / %v", keysOfSigs(signed[0]), keysOfSigs(signed[1])))
			}
		}
		// the per-instance steps against the single-instance model (every instance's own share key is key 1)
		var b strings.Builder
		b.WriteString("From DV Require Import Corr.CheckInst.\nLocal Open Scope Z_scope.\nLocal Open Scope string_scope.\n")
		fmt.Fprintf(&b, "Definition cfg : scfg := mkcfg %s [] [AC \"Wallet 3\" %s 1%%N true true; AC \"Wallet 3\" %s 2%%N true true] [(\"client1\", [\"Wallet 1\"; \"Wallet 3\"])].\n", coqBool(cf.g63), coqStr(strings.SplitN(acct, "/", 2)[1]), coqStr(strings.SplitN(acctW, "/", 2)[1]))
		b.WriteString("Definition keys : list N := [1%N; 2%N].\n")
		fmt.Fprintf(&b, "Definition cases : list icase := [\n%s].\n", strings.Join(lines, ";\n"))
		b.WriteString("Definition M := Eval vm_compute in mismatches (check_safe cfg keys) cases.\nPrint M.\n")
		b.WriteString("Definition D := Eval vm_compute in diag cfg keys (check_safe cfg keys) cases.\nPrint D.\n")
		name := fmt.Sprintf("cases_C14_%d.v", ci)
		if err := os.WriteFile(filepath.Join(cf.out, name), []byte(b.String()), 0o644); err != nil {
			return 2
		}
		files = append(files, name)
		c.Close(ctx)
	}
	sum := &Summary{Property: "C14", Seed: cf.seed, Tier: cf.tier, Evaluations: stats["requests"], Distinct: caseID,
		Rule:      "real clusters (n, t) = (3,2) (3,3) (4,3) (2,2) (5,3) [thorough: (5,4) (7,4) (6,4) (4,4)] with an account created by a real key generation; per round a pair of conflicting duties (same target same/other source, surrounding, surrounded, same slot) at fresh epochs; each duty routed to a random subset of the instances (usually all) with repeats, in shuffled, split-by-half or concurrent delivery; every returned signature verified under the instance's share key; the sets of signers per duty must be disjoint and not both reach t; composite signatures are recovered with the real BLS library; every sequential request is also a step of the single-instance model on that instance's own store",
		Histories: len(confs) * rounds, Distribution: stats, Samples: samples, MonitorFailures: monFail, CaseFiles: files, CaseIndex: idx}
	if err := writeSummary(cf.out, sum); err != nil {
		return 2
	}
	return 0
}

func keysOfSigs(m map[uint64]bls.Sign) []uint64 {
	var out []uint64
	for k := range m {
		out = append(out, k)
	}
	sort.Slice(out, func(i, j int) bool { return out[i] < out[j] })
	return out
}
