(* C09 - valid, advancing duties are signed; batches equal one-at-a-time. *)
From DV Require Import Model.Instance Model.Scatter Proofs.RulerProofs Proofs.SignerProofs Proofs.LiveProofs
  Proofs.BatchProofs Proofs.ScatterProofs Proofs.Examples Proofs.ExampleProofs.
Local Open Scope Z_scope.

(* op_wf o   := o carries no injected fault, every field is present, domains are 32 bytes, numbers
                are uint64 values (a "well-formed request" of the property)
   cfg_wf c  := every configured account can sign
   pre_check ... = PreOk ac  := the address resolves to ac, the client is permitted on ac's
                wallet/account, and ac is unlocked or a configured passphrase opens it ("authorised") *)

(* (i) After any history of well-formed requests from the empty store, a well-formed authorised
   attestation request for key k whose target is below 2^63, above every target released for k,
   whose source is not below any released source, with target > source or both zero, is SIGNED,
   by k's account, over exactly its data; likewise a proposal with a slot below 2^63 above every
   released slot. *)
Theorem C09_advancing_attestation_signed :
  forall (c : scfg) (h : list op) (k : N),
    guard63 (sc_rules c) = true -> cfg_wf c -> Forall op_wf h ->
    let st := fst (run c empty_store h) in
    let R := released_att k (snd (run c empty_store h)) in
    forall cl a d o ac,
      att_fields d = Some o -> pre_check c cl a AAtt no_sfault = PreOk ac -> ac_key ac = k ->
      creds_ok cl = true -> List.length (ao_dom o) = 32%nat ->
      bytes_eqb (prefix4 (ao_dom o)) dom_attester = true ->
      0 <= ao_s o -> ao_t o < two63 -> (ao_s o < ao_t o \/ (ao_s o = 0 /\ ao_t o = 0)) ->
      (forall p, In p R -> snd p < ao_t o /\ fst p <= ao_s o) ->
      fst (sign_att c st cl a d no_ofault) = (CSucceeded, Some {| sg_key := k; sg_msg := att_msg o |}).
Proof. exact C09_att_main. Qed.
Print Assumptions C09_advancing_attestation_signed.

Theorem C09_advancing_proposal_signed :
  forall (c : scfg) (h : list op) (k : N),
    guard63 (sc_rules c) = true -> cfg_wf c -> Forall op_wf h ->
    let st := fst (run c empty_store h) in
    let R := released_prop k (snd (run c empty_store h)) in
    forall cl a d o ac,
      prop_fields d = Some o -> pre_check c cl a AProp no_sfault = PreOk ac -> ac_key ac = k ->
      creds_ok cl = true -> List.length (po_dom o) = 32%nat ->
      bytes_eqb (prefix4 (po_dom o)) dom_proposer = true ->
      0 <= po_slot o -> po_slot o < two63 ->
      (forall p, In p R -> p < po_slot o) ->
      fst (sign_prop c st cl a d no_ofault) = (CSucceeded, Some {| sg_key := k; sg_msg := prop_msg o |}).
Proof. exact C09_prop_main. Qed.
Print Assumptions C09_advancing_proposal_signed.

(* (ii) A batch of requests with all fields present, each authorised (matches: fields present and
   pre-check passes, giving the resolved (account, data) items), naming distinct keys, gives
   position by position the same states and signatures as its entries submitted one at a time in
   order, and the same decoded store - for every batch length. *)
Theorem C09_batch_equals_singles :
  forall (c : scfg) (st : store) (cl : creds) (reqs : list (addr * option att_data)) (items : list (acct * att_ok)),
    reqs <> [] -> Forall2 (matches c cl) reqs items -> creds_ok cl = true -> NoDup (items_keys items) ->
    fst (sign_atts c st cl reqs no_ofault) = fst (seq_atts c st cl reqs) /\
    same_view (snd (seq_atts c st cl reqs)) (snd (sign_atts c st cl reqs no_ofault)).
Proof. exact C09_batch_main. Qed.
Print Assumptions C09_batch_equals_singles.

(* (iii) For every input length n and every degree of parallelism p, the worker extents are
   consecutive, disjoint and cover [0, n) exactly once (covered = the indices visited, worker by
   worker); every worker's extent lies inside [0, n) and is non-empty. *)
Theorem C09_scatter_partition :
  forall n p, covered (extents n p) = seq 0 n.
Proof. exact extents_cover. Qed.
Print Assumptions C09_scatter_partition.

(* (iv) No index is visited twice; never more workers than entries; and for GOMAXPROCS = p >= 1
   at most 2p - 1 workers are started (the bound is met: n = 2p - 1 gives extent size 1). *)
Theorem C09_scatter_no_index_twice :
  forall n p, NoDup (covered (extents n p)).
Proof. exact covered_NoDup. Qed.
Print Assumptions C09_scatter_no_index_twice.

Theorem C09_scatter_workers_bounded :
  forall n p : nat, (workers n (extent_size n p) <= n /\ (1 <= p -> workers n (extent_size n p) + 1 <= 2 * p))%nat.
Proof. exact (fun n p => conj (workers_le_n n p) (workers_bound n p)). Qed.
Print Assumptions C09_scatter_workers_bounded.

Example C09_scatter_bound_met : workers 7 (extent_size 7 4) = 7%nat.
Proof. reflexivity. Qed.

Example C09_example :
  Forall op_wf [OAttest ex_cl (by_key 1) (ex_att 0 1 1) no_ofault; OAttest ex_cl (by_key 1) (ex_att 1 2 1) no_ofault] /\
  cfg_wf (ex_cfg true) /\
  fst (fst (sign_att (ex_cfg true)
         (fst (run (ex_cfg true) empty_store
                [OAttest ex_cl (by_key 1) (ex_att 0 1 1) no_ofault; OAttest ex_cl (by_key 1) (ex_att 1 2 1) no_ofault]))
         ex_cl (by_name "Wallet 1/Account 0") (ex_att 2 3 1) no_ofault)) = CSucceeded /\
  extents 10 3 = [(0, 4); (4, 4); (8, 2)]%nat.
Proof. exact C09_example_proof. Qed.
