(* The lock-protocol model instantiated with the slashing-protection rules: the store maps a public
   key (its number, as nat) to the pair (attestation record, proposal slot); a request is what the
   signer hands to RunRules. *)
From DV Require Export Model.Ruler Model.Conc.
Local Open Scope Z_scope.

Definition cval : Type := (astate * Z)%type.
Definition cnone : cval := (anone, -1).

Inductive creq :=
| QAtts (rs : list areq)                      (* ActionSignBeaconAttestation, 1..n entries *)
| QProp (p : preq)                            (* ActionSignBeaconProposal *)
| QSigns (ip : string) (ds : list (N * bytes)). (* ActionSign, 1..n entries: (key, domain) *)

Definition nkey (k : N) : nat := N.to_nat k.

(* RunRules locks only when the list is non-empty and names no key twice (otherwise it returns first) *)
Definition lockable (ks : list N) : bool :=
  match ks with [] => false | _ => match first_dup ks with None => true | Some _ => false end end.
(* its answer when it returns before locking *)
Definition reject (ks : list N) : list rres :=
  match ks with [] => [RFailed] | _ => match first_dup ks with Some i => fail_at (List.length ks) i | None => [] end end.

Definition ckeys (r : creq) : list key :=
  match r with
  | QAtts rs => if lockable (map r_key rs) then map (fun x => nkey (r_key x)) rs else []
  | QProp p => [nkey (p_key p)]
  | QSigns _ ds => if lockable (map fst ds) then map (fun d => nkey (fst d)) ds else []
  end.

Definition rdv (reads : list (key * cval)) (k : N) : cval :=
  match rd reads (nkey k) with Some v => v | None => cnone end.

(* the proposal rule on the value read *)
Definition prop_checks (c : rcfg) (dom : bytes) (cur slot : Z) : rres * Z :=
  if negb (bytes_eqb (prefix4 dom) dom_proposer) then (RDenied, cur) else
  if guard63 c && (two63 <=? slot) then (RDenied, cur) else
  if (0 <=? cur) && (slot <=? to_uint64 cur) then (RDenied, cur) else
  (RApproved, to_int64 slot).

(* decide from the values read: verdicts and the records to write *)
Definition cdecide (c : rcfg) (r : creq) (reads : list (key * cval)) : list rres * list (key * cval) :=
  match r with
  | QAtts rs =>
      if lockable (map r_key rs) then
        let outs := map (fun x => att_checks c (r_dom x) (fst (rdv reads (r_key x))) (r_src x) (r_tgt x)) rs in
        (map fst outs,
         map (fun xo => (nkey (r_key (fst xo)), (snd (snd xo), snd (rdv reads (r_key (fst xo)))))) (combine rs outs))
      else (reject (map r_key rs), [])
  | QProp p =>
      let v := rdv reads (p_key p) in
      let '(res, s') := prop_checks c (p_dom p) (snd v) (p_slot p) in
      ([res], [(nkey (p_key p), (fst v, s'))])
  | QSigns ip ds => (ruler_signs c true ip ds, [])
  end.

(* the lock protocol over these *)
Definition cworld := world cval creq (list rres).
Definition cfire (c : rcfg) := fire ckeys (cdecide c).
Definition creach (c : rcfg) := reach ckeys (cdecide c).
Definition crun_sched (c : rcfg) := run_sched ckeys (cdecide c).
Definition cser (c : rcfg) := ser ckeys (cdecide c).
