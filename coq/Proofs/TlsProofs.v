(* C19: with the configured transport, only holders of a certificate issued by the configured authority
   reach any handler, and the name used for permissions is that certificate's common name. *)
From DV Require Import Model.Tls.
From Coq Require Import Arith.

Theorem pinned_gate ca cr :
  admitted (pinned ca) cr = true ->
  exists c, cr = TlsCert Tls13 c /\ verifies (pinned ca) c = true /\ identity (pinned ca) cr = Some (ct_cn c).
Proof.
  destruct cr as [|v|v c]; cbn; try discriminate.
  - destruct v; cbn; discriminate.
  - destruct v; cbn; [discriminate|]. intros H. exists c. unfold identity. cbn. rewrite H. auto.
Qed.

Theorem pinned_serves_authentic ca c :
  verifies (pinned ca) c = true -> admitted (pinned ca) (TlsCert Tls13 c) = true.
Proof. intros H. cbn. exact H. Qed.

(* nobody without a verified certificate has an identity, hence none of the names permissions are granted to *)
Theorem pinned_identity_is_verified ca cr nm :
  identity (pinned ca) cr = Some nm -> exists v c, cr = TlsCert v c /\ verifies (pinned ca) c = true /\ ct_cn c = nm.
Proof.
  unfold identity. destruct (admitted (pinned ca) cr) eqn:A; cbn; [|discriminate].
  destruct (pinned_gate ca cr A) as (c & -> & V & _). cbn. intros H; injection H as <-. eauto.
Qed.

(* each weaker client-authentication mode admits a caller that holds no certificate of the authority;
   three of them even hand the handlers a name the caller chose *)
Definition forged (nm : string) : cert := {| ct_cn := nm; ct_issuer := 0; ct_expired := false; ct_client_usage := true |}.

Theorem weaker_modes_refuted (ca : nat) (nm : string) :
  forall m, m <> RequireAndVerifyClientCert ->
    exists cr, authentic {| tc_auth := m; tc_ca := ca; tc_min13 := true |} cr = false /\
               admitted {| tc_auth := m; tc_ca := ca; tc_min13 := true |} cr = true.
Proof.
  intros m Hm. destruct m; try contradiction.
  - exists (TlsNoCert Tls13). split; reflexivity.
  - exists (TlsCert Tls13 (forged nm)). split; [unfold authentic, verifies, forged; cbn; destruct ca; reflexivity|reflexivity].
  - exists (TlsCert Tls13 (forged nm)). split; [unfold authentic, verifies, forged; cbn; destruct ca; reflexivity|reflexivity].
  - exists (TlsNoCert Tls13). split; reflexivity.
Qed.

Theorem unverified_modes_forge_identity (ca : nat) (nm : string) :
  identity {| tc_auth := RequestClientCert; tc_ca := ca; tc_min13 := true |} (TlsCert Tls13 (forged nm)) = Some nm /\
  identity {| tc_auth := RequireAnyClientCert; tc_ca := ca; tc_min13 := true |} (TlsCert Tls13 (forged nm)) = Some nm.
Proof. split; reflexivity. Qed.

(* another authority's certificate bearing a permitted name, an expired one, one without client usage,
   a self-signed one, an older protocol version: all refused *)
Example pinned_refuses (ca : nat) (nm : string) : ca <> 0 ->
  admitted (pinned ca) (TlsCert Tls13 {| ct_cn := nm; ct_issuer := S ca; ct_expired := false; ct_client_usage := true |}) = false /\
  admitted (pinned ca) (TlsCert Tls13 {| ct_cn := nm; ct_issuer := ca; ct_expired := true; ct_client_usage := true |}) = false /\
  admitted (pinned ca) (TlsCert Tls13 {| ct_cn := nm; ct_issuer := ca; ct_expired := false; ct_client_usage := false |}) = false /\
  admitted (pinned ca) (TlsCert Tls13 (forged nm)) = false /\
  admitted (pinned ca) (TlsCert Tls12 {| ct_cn := nm; ct_issuer := ca; ct_expired := false; ct_client_usage := true |}) = false /\
  admitted (pinned ca) (TlsNoCert Tls13) = false /\ admitted (pinned ca) NoTls = false.
Proof.
  intros H. unfold admitted, pinned, verifies, version_ok, forged. cbn [tc_auth tc_ca tc_min13 ct_issuer ct_expired ct_client_usage negb andb].
  rewrite Nat.eqb_refl. assert (E : Nat.eqb (S ca) ca = false) by (apply Nat.eqb_neq; auto).
  rewrite E. destruct ca; [contradiction|]. cbn. repeat split; reflexivity.
Qed.
