package main

import (
	"context"
	"encoding/json"
	"fmt"
	"os"
	"path/filepath"
	"strings"

	"github.com/attestantio/dirk/core"
	"github.com/attestantio/dirk/services/checker"
)

// StepRec is one recorded step of a history run against the real code.
type StepRec struct {
	ID   int
	Hist int
	Idx  int
	Pre  *StoreView
	Op   *Op
	Obs  []Obs
	Post *StoreView
}

// the epoch / slot alphabet: small values, 32-bit edges, the int64 edge, the uint64 edge
var alphabetE = []uint64{0, 1, 2, 3, 5, 8, 1 << 31, 1 << 32, 1<<63 - 2, 1<<63 - 1, 1 << 63, 1<<63 + 1, 1<<64 - 2, 1<<64 - 1}

var (
	domAttester = []byte{1, 0, 0, 0}
	domProposer = []byte{0, 0, 0, 0}
	domExit     = []byte{4, 0, 0, 0}
	domRandao   = []byte{2, 0, 0, 0}
	domSelProof = []byte{5, 0, 0, 0}
)

func mkDomain(prefix []byte, fill byte) []byte {
	d := make([]byte, 32)
	copy(d, prefix)
	for i := 4; i < 32; i++ {
		d[i] = fill
	}
	return d
}

func fill32(x byte) []byte {
	b := make([]byte, 32)
	for i := range b {
		b[i] = x
	}
	return b
}

// standard permission table of the history runs
var stdPermTbl = map[string][]string{
	"client1": {"Wallet 1", "Wallet 2"},
	"client2": {"Wallet 2"},
}

func permsFromTbl(tbl map[string][]string) map[string][]*checker.Permissions {
	out := map[string][]*checker.Permissions{}
	for c, ws := range tbl {
		for _, w := range ws {
			out[c] = append(out[c], &checker.Permissions{Path: w, Operations: []string{"All"}})
		}
	}
	return out
}

func coqPermTbl(tbl map[string][]string) string {
	var items []string
	for _, c := range []string{"client1", "client2", "client3"} {
		if ws, ok := tbl[c]; ok {
			items = append(items, fmt.Sprintf("(%s, %s)", coqStr(c), coqStrList(ws)))
		}
	}
	return coqList(items)
}

// ---- generator state: what the harness believes was signed, to make most duties advance ----

type genState struct {
	fx     *Fixture
	rng    *PRNG
	src    map[int]uint64 // last signed source per key id
	tgt    map[int]uint64
	hasAtt map[int]bool
	slot   map[int]uint64
	hasSl  map[int]bool
	stats  map[string]int
}

func newGenState(fx *Fixture, rng *PRNG) *genState {
	return &genState{fx: fx, rng: rng, src: map[int]uint64{}, tgt: map[int]uint64{}, hasAtt: map[int]bool{},
		slot: map[int]uint64{}, hasSl: map[int]bool{}, stats: map[string]int{}}
}

func (g *genState) pickAcct(usableOnly bool) *AcctInfo {
	for {
		a := g.fx.Accounts[g.rng.Intn(len(g.fx.Accounts))]
		if usableOnly && !a.Usable {
			continue
		}
		return a
	}
}

func (g *genState) addrFor(a *AcctInfo) Addr {
	switch g.rng.Intn(11) {
	case 0, 1, 2, 3:
		return Addr{Name: a.Path()}
	case 4, 5, 6, 7:
		return Addr{Key: a.Key, KeyID: a.ID, HasKey: true}
	case 10:
		// the key followed by extra bytes: resolves to the same account
		return Addr{Key: a.Key, KeyID: a.ID, HasKey: true, Pad: [][]byte{{0xaa}, {0xde, 0xad}, {0}}[g.rng.Intn(3)]}
	default:
		return Addr{Name: a.Path(), Key: a.Key, KeyID: a.ID, HasKey: true}
	}
}

func (g *genState) client() (string, string) {
	switch g.rng.Intn(20) {
	case 0:
		return "client2", "10.0.0.2"
	case 1:
		return "nobody", "10.0.0.3"
	default:
		return "client1", "10.0.0.1"
	}
}

// next epochs for an advancing attestation of key id; big=true draws from the alphabet edges
func (g *genState) advancing(id int) (uint64, uint64) {
	if !g.hasAtt[id] {
		switch g.rng.Intn(4) {
		case 0:
			return 0, 0
		case 1:
			return 0, 1
		default:
			s := uint64(g.rng.Intn(4))
			return s, s + 1 + uint64(g.rng.Intn(3))
		}
	}
	s, t := g.src[id], g.tgt[id]
	ns := s
	if g.rng.Chance(50) && s < t {
		ns = s + uint64(g.rng.Intn(int(min64(t-s, 3))+1))
	}
	nt := t + 1 + uint64(g.rng.Intn(3))
	if nt < t { // overflow
		nt = t
	}
	if g.rng.Chance(4) {
		// jump to an alphabet edge above the current target
		for _, e := range alphabetE {
			if e > t && g.rng.Chance(40) {
				nt = e
				break
			}
		}
	}
	if ns >= nt {
		ns = s
	}
	return ns, nt
}

func min64(a, b uint64) uint64 {
	if a < b {
		return a
	}
	return b
}

func (g *genState) adversarial(id int) (uint64, uint64) {
	s, t := g.src[id], g.tgt[id]
	switch g.rng.Intn(7) {
	case 0: // same target again
		return s, t
	case 1: // surrounded: higher source, lower target
		if t > 0 {
			return s + 1, t - 1
		}
		return s, t
	case 2: // surrounding: lower source, higher target
		if s > 0 {
			return s - 1, t + 1
		}
		return s, t + 1
	case 3: // lower target
		if t > 0 {
			return s, t - 1
		}
		return 0, 0
	case 4: // alphabet values
		return alphabetE[g.rng.Intn(len(alphabetE))], alphabetE[g.rng.Intn(len(alphabetE))]
	case 5: // target not above source
		return t + 2, t + 1
	default: // genesis vote
		return 0, 0
	}
}

func (g *genState) attData(s, t uint64, dom []byte) AttData {
	r := byte(g.rng.Intn(4) + 1)
	return AttData{Dom: dom, Slot: t * 32, Idx: uint64(g.rng.Intn(8)), BBR: fill32(r),
		Src: &Checkpoint{Epoch: s, Root: fill32(0)}, Tgt: &Checkpoint{Epoch: t, Root: fill32(r)}}
}

func (g *genState) attDomain() []byte {
	if g.rng.Chance(4) {
		return mkDomain([][]byte{domProposer, domExit, domRandao}[g.rng.Intn(3)], 9)
	}
	return mkDomain(domAttester, byte(g.rng.Intn(3)))
}

// note what the implementation actually signed, so later duties advance from there
func (g *genState) noteSigned(op *Op, obs []Obs, inst *Instance) {
	for i, o := range obs {
		if o.SigLen == 0 || i >= len(op.Addrs) {
			continue
		}
		a := inst.resolveInfo(op.Addrs[i])
		if a == nil {
			continue
		}
		switch op.Kind {
		case KAttest, KAttests:
			d := op.Atts[i]
			g.src[a.ID], g.tgt[a.ID], g.hasAtt[a.ID] = d.Src.Epoch, d.Tgt.Epoch, true
		case KPropose:
			g.slot[a.ID], g.hasSl[a.ID] = op.Props[i].Slot, true
		}
	}
}

// genSlashingOp draws the next operation of an attestation / proposal history.
func (g *genState) genSlashingOp(propShare int) *Op {
	c, ip := g.client()
	op := &Op{Client: c, IP: ip}
	roll := g.rng.Intn(100)
	switch {
	case roll < 3:
		op.Kind = KRestart
		g.stats["restart"]++
		return op
	case roll < 3+propShare:
		op.Kind = KPropose
		a := g.pickAcct(g.rng.Chance(95))
		op.Addrs = []Addr{g.addrFor(a)}
		var slot uint64
		switch {
		case g.rng.Chance(70):
			slot = g.slot[a.ID] + 1 + uint64(g.rng.Intn(3))
			if !g.hasSl[a.ID] && g.rng.Chance(30) {
				slot = 0
			}
			g.stats["prop.advancing"]++
		case g.rng.Chance(50):
			slot = g.slot[a.ID] // same slot, other root
			g.stats["prop.same"]++
		default:
			slot = alphabetE[g.rng.Intn(len(alphabetE))]
			g.stats["prop.alphabet"]++
		}
		dom := mkDomain(domProposer, byte(g.rng.Intn(3)))
		if g.rng.Chance(4) {
			dom = mkDomain(domAttester, 1)
		}
		r := byte(g.rng.Intn(4) + 1)
		op.Props = []PropData{{Dom: dom, Slot: slot, Pidx: uint64(a.ID), Parent: fill32(0), State: fill32(r), Body: fill32(r)}}
		return op
	case roll < 3+propShare+25:
		// batch of 1..8
		op.Kind = KAttests
		n := 1 + g.rng.Intn(8)
		dup := g.rng.Chance(10) && n > 1
		used := map[int]bool{}
		for i := 0; i < n; i++ {
			a := g.pickAcct(g.rng.Chance(97))
			if used[a.ID] && !(dup && i == n-1) {
				// look for an unused one
				for _, b := range g.fx.Accounts {
					if !used[b.ID] && b.Usable {
						a = b
						break
					}
				}
				if used[a.ID] {
					break
				}
			}
			used[a.ID] = true
			var s, t uint64
			if g.rng.Chance(75) {
				s, t = g.advancing(a.ID)
			} else {
				s, t = g.adversarial(a.ID)
			}
			op.Addrs = append(op.Addrs, g.addrFor(a))
			op.Atts = append(op.Atts, g.attData(s, t, g.attDomain()))
		}
		if dup {
			g.stats["batch.dupkey"]++
		}
		g.stats[fmt.Sprintf("batch.size%d", len(op.Addrs))]++
		return op
	default:
		op.Kind = KAttest
		a := g.pickAcct(g.rng.Chance(95))
		var s, t uint64
		if g.rng.Chance(70) {
			s, t = g.advancing(a.ID)
			g.stats["att.advancing"]++
		} else {
			s, t = g.adversarial(a.ID)
			g.stats["att.adversarial"]++
		}
		op.Addrs = []Addr{g.addrFor(a)}
		op.Atts = []AttData{g.attData(s, t, g.attDomain())}
		return op
	}
}

// ---- running histories ----

type Runner struct {
	ctx    context.Context
	fx     *Fixture
	steps  []StepRec
	nextID int
	stats  map[string]int
}

func (r *Runner) newInstance(adminIPs []string) (*Instance, error) {
	return NewInstance(r.ctx, r.fx, InstanceOpts{AdminIPs: adminIPs, Perms: permsFromTbl(stdPermTbl)})
}

// execStep runs one op with store observation before and after.
func (r *Runner) execStep(inst *Instance, hist, idx int, op *Op) (*StepRec, error) {
	pre, err := inst.ReadStore(r.ctx)
	if err != nil {
		return nil, err
	}
	obs, err := inst.Exec(r.ctx, op)
	if err != nil {
		return nil, err
	}
	post, err := inst.ReadStore(r.ctx)
	if err != nil {
		return nil, err
	}
	r.nextID++
	rec := StepRec{ID: r.nextID, Hist: hist, Idx: idx, Pre: pre, Op: op, Obs: obs, Post: post}
	r.steps = append(r.steps, rec)
	for _, o := range obs {
		r.stats["state."+strings.ToLower(o.State.String())]++
		if o.SigLen > 0 {
			r.stats["signed"]++
		}
	}
	return &rec, nil
}

// ---- monitors over the implementation's own trace ----

type relAtt struct {
	S, T uint64
	Step int
	Desc string
}

// slashingMonitor accumulates what the implementation released per key and judges the property
// itself (C01/C02), independently of the model.
type slashingMonitor struct {
	atts  map[int][]relAtt
	props map[int][]relAtt
}

func newSlashingMonitor() *slashingMonitor {
	return &slashingMonitor{atts: map[int][]relAtt{}, props: map[int][]relAtt{}}
}

func (m *slashingMonitor) note(inst *Instance, rec *StepRec) {
	for i, o := range rec.Obs {
		if o.SigLen == 0 || i >= len(rec.Op.Addrs) {
			continue
		}
		a := inst.resolveInfo(rec.Op.Addrs[i])
		if a == nil {
			continue
		}
		switch rec.Op.Kind {
		case KAttest, KAttests:
			d := rec.Op.Atts[i]
			m.atts[a.ID] = append(m.atts[a.ID], relAtt{d.Src.Epoch, d.Tgt.Epoch, rec.ID, describeStep(rec)})
		case KPropose:
			m.props[a.ID] = append(m.props[a.ID], relAtt{0, rec.Op.Props[i].Slot, rec.ID, describeStep(rec)})
		}
	}
}

// violations returns descriptions of slashable pairs among the released signatures.
func (m *slashingMonitor) attViolations() []string {
	var out []string
	for id, l := range m.atts {
		for i := 0; i < len(l); i++ {
			for j := i + 1; j < len(l); j++ {
				a, b := l[i], l[j]
				if a.T == b.T || (a.S < b.S && b.T < a.T) || (b.S < a.S && a.T < b.T) {
					out = append(out, fmt.Sprintf("key#%d: attestation %d->%d (step %d) and %d->%d (step %d) are both signed and slashable :: %s :: %s", id, a.S, a.T, a.Step, b.S, b.T, b.Step, a.Desc, b.Desc))
				}
			}
		}
	}
	return out
}

func (m *slashingMonitor) propViolations() []string {
	var out []string
	for id, l := range m.props {
		for i := 0; i < len(l); i++ {
			for j := i + 1; j < len(l); j++ {
				if l[j].T <= l[i].T {
					out = append(out, fmt.Sprintf("key#%d: proposal slot %d (step %d) signed after slot %d (step %d) :: %s :: %s", id, l[j].T, l[j].Step, l[i].T, l[i].Step, l[i].Desc, l[j].Desc))
				}
			}
		}
	}
	return out
}

// ---- output ----

type Summary struct {
	Property        string            `json:"property"`
	Seed            uint64            `json:"seed"`
	Tier            string            `json:"tier"`
	Evaluations     int               `json:"evaluations"`
	Distinct        int               `json:"distinct_nontrivial"`
	Rule            string            `json:"rule"`
	Histories       int               `json:"histories"`
	Distribution    map[string]int    `json:"distribution"`
	Samples         []string          `json:"samples"`
	MonitorFailures []string          `json:"monitor_failures"`
	CaseFiles       []string          `json:"case_files"`
	CaseIndex       map[string]string `json:"case_index"` // case id -> description (for replay files)
	Extra           map[string]any    `json:"extra,omitempty"`
}

func writeSummary(outDir string, s *Summary) error {
	b, err := json.MarshalIndent(s, "", " ")
	if err != nil {
		return err
	}
	return os.WriteFile(filepath.Join(outDir, "summary_"+s.Property+".json"), b, 0o644)
}

// cfgOverride, when set, replaces the default configuration line of the cases files.
var cfgOverride string
var extraImports string

// writeInstCases writes sharded cases files for recorded steps.
func writeInstCases(outDir, prop, checkFn string, g63 bool, adminIPs []string, fx *Fixture, steps []StepRec, shardSize int) ([]string, error) {
	return writeInstCasesFx(outDir, prop, checkFn, g63, adminIPs, fx, steps, shardSize)
}

func writeInstCasesFx(outDir, prop, checkFn string, g63 bool, adminIPs []string, fx *Fixture, steps []StepRec, shardSize int) ([]string, error) {
	var files []string
	for sh := 0; sh*shardSize < len(steps); sh++ {
		lo, hi := sh*shardSize, (sh+1)*shardSize
		if hi > len(steps) {
			hi = len(steps)
		}
		var b strings.Builder
		b.WriteString("From DV Require Import Corr.CheckInst " + extraImports + ".\nLocal Open Scope Z_scope.\nLocal Open Scope string_scope.\n")
		if cfgOverride != "" {
			fmt.Fprintf(&b, "Definition cfg : scfg := %s.\n", cfgOverride)
		} else {
			fmt.Fprintf(&b, "Definition cfg : scfg := mkcfg %s %s %s %s.\n", coqBool(g63), coqStrList(adminIPs), coqAccounts(fx), coqPermTbl(stdPermTbl))
		}
		fmt.Fprintf(&b, "Definition keys : list N := %s.\n", coqKeyIDs(fx))
		b.WriteString("Definition cases : list icase := [\n")
		for i, st := range steps[lo:hi] {
			if i > 0 {
				b.WriteString(";\n")
			}
			fmt.Fprintf(&b, " IC %s %s %s %s %s", coqN(st.ID), coqStore(st.Pre), coqOp(st.Op), coqObs(st.Obs), coqStore(st.Post))
		}
		b.WriteString("].\n")
		fmt.Fprintf(&b, "Definition M := Eval vm_compute in mismatches (%s cfg keys) cases.\nPrint M.\n", checkFn)
		fmt.Fprintf(&b, "Definition D := Eval vm_compute in diag cfg keys (%s cfg keys) cases.\nPrint D.\n", checkFn)
		name := fmt.Sprintf("cases_%s_%d.v", prop, sh)
		if err := os.WriteFile(filepath.Join(outDir, name), []byte(b.String()), 0o644); err != nil {
			return nil, err
		}
		files = append(files, name)
	}
	return files, nil
}

func describeStep(st *StepRec) string {
	var obs []string
	for _, o := range st.Obs {
		obs = append(obs, fmt.Sprintf("%s/sig=%v", o.State, o.SigLen > 0))
	}
	return fmt.Sprintf("hist %d step %d: %s => [%s] pre=%s post=%s", st.Hist, st.Idx, st.Op, strings.Join(obs, ","), fmtStore(st.Pre), fmtStore(st.Post))
}

func fmtStore(sv *StoreView) string {
	var parts []string
	for _, k := range sortedKeys(sv.Att) {
		parts = append(parts, fmt.Sprintf("a%d=%d/%d", k, sv.Att[k].Src, sv.Att[k].Tgt))
	}
	for _, k := range sortedKeys(sv.Prop) {
		parts = append(parts, fmt.Sprintf("p%d=%d", k, sv.Prop[k]))
	}
	return "{" + strings.Join(parts, " ") + "}"
}

var _ = core.ResultSucceeded
