From DV Require Import Model.Codec.
From Coq Require Import Lia ZArith.
Local Open Scope Z_scope.

Lemma le_bytes_length n x : List.length (le_bytes n x) = n.
Proof. revert x. induction n; intros x; cbn; auto. Qed.

Lemma le_val_le_bytes n x : 0 <= x < 256 ^ Z.of_nat n -> le_val (le_bytes n x) = x.
Proof.
  revert x. induction n as [|n IH]; intros x Hx.
  - cbn in *. lia.
  - cbn [le_bytes le_val]. rewrite Z2N.id by (apply Z.mod_pos_bound; lia).
    rewrite IH.
    + pose proof (Z.div_mod x 256 ltac:(lia)). lia.
    + rewrite Nat2Z.inj_succ, Z.pow_succ_r in Hx by lia.
      split; [apply Z.div_pos; lia|]. apply Z.div_lt_upper_bound; lia.
Qed.

Lemma int64_roundtrip z : i64 z -> to_int64 (to_uint64 z) = z.
Proof.
  unfold i64, to_int64, to_uint64, two63, two64. intros H.
  destruct (z <? 0) eqn:E.
  - apply Z.ltb_lt in E. destruct (z + 18446744073709551616 <? 9223372036854775808) eqn:E2; [apply Z.ltb_lt in E2; lia|lia].
  - apply Z.ltb_ge in E. destruct (z <? 9223372036854775808) eqn:E2; [lia|apply Z.ltb_ge in E2; lia].
Qed.

Lemma to_uint64_range z : i64 z -> 0 <= to_uint64 z < 256 ^ Z.of_nat 8.
Proof.
  unfold i64, to_uint64, two63, two64. intros H. change (256 ^ Z.of_nat 8) with 18446744073709551616.
  destruct (z <? 0) eqn:E; [apply Z.ltb_lt in E|apply Z.ltb_ge in E]; lia.
Qed.

Lemma firstn_app_exact {A} (l1 l2 : list A) n : List.length l1 = n -> firstn n (l1 ++ l2) = l1.
Proof. intros <-. rewrite firstn_app, Nat.sub_diag, firstn_all. cbn. apply app_nil_r. Qed.
Lemma skipn_app_exact {A} (l1 l2 : list A) n : List.length l1 = n -> skipn n (l1 ++ l2) = l2.
Proof. intros <-. rewrite skipn_app, Nat.sub_diag, skipn_all. reflexivity. Qed.

(* decode (encode r) = r for every record of int64 fields, whatever the legacy decoder does *)
Theorem att_codec_roundtrip gob a : i64 (a_src a) -> i64 (a_tgt a) -> decode_att gob (encode_att a) = Some a.
Proof.
  intros Hs Ht. unfold decode_att, encode_att.
  rewrite app_length, !le_bytes_length. cbn [Nat.add Nat.eqb].
  rewrite firstn_app_exact, skipn_app_exact by apply le_bytes_length.
  rewrite !le_val_le_bytes by now apply to_uint64_range.
  rewrite !int64_roundtrip by assumption. now destruct a.
Qed.

Theorem prop_codec_roundtrip gob s : i64 s -> decode_prop gob (encode_prop s) = Some s.
Proof.
  intros Hs. unfold decode_prop, encode_prop. rewrite le_bytes_length. cbn [Nat.eqb].
  rewrite le_val_le_bytes by now apply to_uint64_range. now rewrite int64_roundtrip.
Qed.

(* the encodings have the sizes the decoder insists on, and start with the version byte *)
Lemma encode_att_shape a : List.length (encode_att a) = 17%nat /\ hd 0%N (encode_att a) = 1%N.
Proof. unfold encode_att. cbn [List.length hd]. rewrite app_length, !le_bytes_length. auto. Qed.
