(* Correspondence for concurrent runs: the harness recorded, in real-time order, the locker calls,
   store accesses and returns of concurrently issued requests and mapped them to a schedule of the
   model; the model must accept that schedule, end with every request returned, give every request
   the verdicts observed, and reach the store observed. *)
From DV Require Export Model.ConcRules Corr.CheckInst.
Local Open Scope Z_scope.

Definition AR (k : N) (dom : bytes) (s t : Z) : areq := {| r_key := k; r_dom := dom; r_src := s; r_tgt := t |}.
Definition PR (k : N) (dom : bytes) (slot : Z) : preq := {| p_key := k; p_dom := dom; p_slot := slot |}.

(* initial store from the decoded records *)
Definition mk_cstore (st : Rules.store) : Conc.store cval :=
  fun k => (view_att st (N.of_nat k), view_prop st (N.of_nat k)).

Record ncase := NC {
  nc_id : N; nc_pre : Rules.store; nc_reqs : list creq; nc_sched : list nat;
  nc_obs : list (list cres);       (* per request: the states returned *)
  nc_post : Rules.store }.

Definition thread_verdicts (th : thread cval creq (list rres)) : option (list rres) :=
  match t_ph th with PDone v => Some v | _ => None end.

Definition cres_list_eqb (a : list rres) (b : list cres) : bool :=
  list_eqb cres_eqb (map of_rres a) b.

Fixpoint all2 {A B} (p : A -> B -> bool) (a : list A) (b : list B) : bool :=
  match a, b with
  | [], [] => true
  | x :: a', y :: b' => p x y && all2 p a' b'
  | _, _ => false
  end.

Definition check_conc (c : rcfg) (keys : list N) (x : ncase) : bool :=
  match crun_sched c (init (mk_cstore (nc_pre x)) (nc_reqs x)) (nc_sched x) with
  | None => false
  | Some w =>
      all2 (fun th o => match thread_verdicts th with Some v => cres_list_eqb v o | None => false end)
               (w_threads w) (nc_obs x) &&
      forallb (fun k => astate_eqb (fst (w_store w (nkey k))) (view_att (nc_post x) k) &&
                        (snd (w_store w (nkey k)) =? view_prop (nc_post x) k)) keys
  end.
Definition conc_mismatches (c : rcfg) (keys : list N) (l : list ncase) : list N :=
  map nc_id (filter (fun x => negb (check_conc c keys x)) l).
