(* C10 - importing slashing-protection data never weakens protection. *)
From DV Require Import Model.InstanceI Proofs.RulesProofs Proofs.SignerProofs Proofs.InterchangeProofs Proofs.ImportHistory.
Local Open Scope Z_scope.

(* sp_ge a b         := every field of a is >= the field of b     (slot, source, target)
   entry_le ic e v   := every (source, target) pair and every slot listed in file entry e is <= the
                        corresponding field of v (and passed the number check)
   icfg_fixed ic     := the repaired import: per-field maxima over the existing record and ALL the
                        file's records for the key (repeated keys accumulate), negative numbers rejected *)

(* (a) one import: if it reports success then, for every key, no field of the record is lowered and
   every value the file lists for the key is dominated by the record; the metadata matched. *)
Theorem C10_import_step :
  forall ic st f st', merge_fieldwise ic = true -> reject_negative ic = true ->
    import_cmd ic st f = IOk st' ->
    (forall k, sp_ge (export_view st' k) (export_view st k)) /\
    (forall e k, In e (if_data f) -> fe_key e = Some k -> entry_le ic e (export_view st' k)) /\
    if_meta f = Some ("5"%string, ic_gvr ic).
Proof. exact import_ok_spec. Qed.
Print Assumptions C10_import_step.

(* (b) a file with another format version or another genesis validators root is rejected; a
   rejected import returns no store (IErr): nothing is written before the final rules-level
   import, so the database is unchanged. *)
Theorem C10_wrong_metadata_rejected :
  forall ic st f ver gvr, if_meta f = Some (ver, gvr) -> (ver <> "5"%string \/ gvr <> ic_gvr ic) ->
    import_cmd ic st f = IErr.
Proof. exact import_wrong_meta. Qed.

(* (c) over any history interleaving signing requests (any kind, any faults) and any number of
   imports: the final record of a key dominates its initial record, every value of every
   successfully imported file, and every attestation / proposal released at any point. *)
Theorem C10_history :
  forall (c : scfg) (ic : icfg) (st0 : store) (h1 h2 : list iop) (io : iop) (k : N),
    guard63 (sc_rules c) = true -> icfg_fixed ic -> Forall iop_ok (h1 ++ io :: h2) ->
    let st1 := fst (irun c ic st0 h1) in
    let stf := fst (irun c ic st0 (h1 ++ io :: h2)) in
    sp_ge (export_view stf k) (export_view st0 k) /\
    match io with
    | IImport f =>
        forall st2, import_cmd ic st1 f = IOk st2 ->
        forall e, In e (if_data f) -> fe_key e = Some k -> entry_le ic e (export_view stf k)
    | IOp o =>
        (forall s t, In (s, t) (flat_map (att_of k) (sigs_of (fst (step c st1 o)))) ->
                     s <= sp_src (export_view stf k) /\ t <= sp_tgt (export_view stf k)) /\
        (forall z, In z (flat_map (prop_of k) (sigs_of (fst (step c st1 o)))) -> z <= sp_slot (export_view stf k))
    end.
Proof. exact C10_history_main. Qed.
Print Assumptions C10_history.

(* (d) what domination buys: a request at or below a dominated target, or below a dominated
   source, or at or below a dominated slot, is never approved by the rules. *)
Theorem C10_dominated_is_refused :
  (forall c dom a s t, 0 <= s -> 0 <= t -> (t <= a_tgt a \/ s < a_src a) -> fst (att_checks c dom a s t) <> RApproved) /\
  (forall c st f r, 0 <= p_slot r -> p_slot r <= view_prop st (p_key r) -> fst (on_prop c st f r) <> RApproved).
Proof. split; [exact att_refused_below|exact prop_refused_below]. Qed.

(* the pinned (pre-fix) merge: DB (slot 5, 10->20), file (slot 100, 5->30): success reported, nothing
   imported, slot 50 and target 25 stay signable (F3) *)
Lemma C10_refuted_legacy :
  exists st', import_cmd (f3_cfg false) f3_db f3_file = IOk st' /\ view_prop st' 1 = 5 /\ a_tgt (view_att st' 1) = 20.
Proof. exact legacy_import_loses. Qed.
(* and what the repaired merge gives on the same input (non-vacuity of (a)) *)
Example C10_example :
  exists st', import_cmd (f3_cfg true) f3_db f3_file = IOk st' /\ view_prop st' 1 = 100 /\
              view_att st' 1 = {| a_src := 10; a_tgt := 30 |}.
Proof. exact fixed_import_keeps. Qed.
(* without the number check a negative source hides the record's target (F5) *)
Lemma C10_refuted_negative_source :
  exists st', import_cmd {| ic_gvr := "0x00"; ic_gvr_ok := true; merge_fieldwise := true; reject_negative := false |}
                empty_store neg_file = IOk st' /\ a_tgt (view_att st' 1) = -1.
Proof. exact negative_source_loses. Qed.
