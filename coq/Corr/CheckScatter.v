(* Correspondence of util.Scatter with Scatter.extents: the harness records the (offset, entries)
   pairs the work function saw for (n, GOMAXPROCS = p), sorted by offset. *)
From DV Require Export Model.Scatter.
From Coq Require Export NArith.

Record scase := SC { sc_id : N; sc_n : nat; sc_p : nat; sc_obs : list (nat * nat) }.

Fixpoint pairs_eqb (a b : list (nat * nat)) : bool :=
  match a, b with
  | [], [] => true
  | (x1, y1) :: a', (x2, y2) :: b' => Nat.eqb x1 x2 && Nat.eqb y1 y2 && pairs_eqb a' b'
  | _, _ => false
  end.

Definition scatter_mismatches (l : list scase) : list N :=
  map sc_id (filter (fun c => negb (pairs_eqb (extents (sc_n c) (sc_p c)) (sc_obs c))) l).
