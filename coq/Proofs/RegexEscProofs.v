From DV Require Import Base.RegexEsc.
From Coq Require Import Lia.
Local Open Scope N_scope.

(* the capital letter is the complement of the small one, for every character, case-sensitively or not:
   so writing the class in the other case (e.g. lower-casing a whole pattern) inverts it *)
Lemma esc_capital_is_complement (ci : bool) (c : N) :
  cset_match ci (esc_cset 68) c = negb (cset_match ci (esc_cset 100) c) /\
  cset_match ci (esc_cset 87) c = negb (cset_match ci (esc_cset 119) c) /\
  cset_match ci (esc_cset 83) c = negb (cset_match ci (esc_cset 115) c).
Proof. repeat split; unfold esc_cset; cbn [N.eqb Pos.eqb cset_match xorb]; destruct (existsb _ _); reflexivity. Qed.

(* the letters and digits of a name are word characters, its blanks are not: "Account 1" splits as \w+ \s \d *)
Example esc_examples :
  cset_match false (esc_cset 100) 49 = true /\ cset_match false (esc_cset 68) 49 = false /\
  cset_match false (esc_cset 119) 65 = true /\ cset_match false (esc_cset 119) 32 = false /\
  cset_match false (esc_cset 115) 32 = true /\ cset_match false (esc_cset 83) 120 = true /\
  cset_match true (esc_cset 87) 95 = false.
Proof. vm_compute. repeat split. Qed.
