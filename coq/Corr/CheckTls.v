(* Correspondence for the transport gate: each (credential kind, method) of the real TLS matrix against
   admitted (pinned configuration). *)
From DV Require Export Model.Tls.
From Coq Require Export NArith.
Local Open Scope string_scope.

Record tcase := TC { tcs_id : N; tcs_cred : credential; tcs_method : string; tcs_served : bool }.

(* authority 1 = the configured one; 2 = another; 0 = self-signed *)
Definition CT (cn : string) (issuer : nat) (expired client_usage : bool) : cert :=
  {| ct_cn := cn; ct_issuer := issuer; ct_expired := expired; ct_client_usage := client_usage |}.

Definition tmismatches (l : list tcase) : list N :=
  map tcs_id (filter (fun c => negb (Bool.eqb (admitted (pinned 1) (tcs_cred c)) (tcs_served c))) l).

(* a server configured with authority ca (an authority no caller's certificate comes from = no authority configured) *)
Definition tmismatches_ca (ca : nat) (l : list tcase) : list N :=
  map tcs_id (filter (fun c => negb (Bool.eqb (admitted (pinned ca) (tcs_cred c)) (tcs_served c))) l).
