package main

import (
	"context"
	"fmt"
	"os"
	"path/filepath"
	"regexp"
	"strings"

	"github.com/attestantio/dirk/services/checker"
	staticchecker "github.com/attestantio/dirk/services/checker/static"
)

var allOps = []string{"Sign", "Sign beacon attestation", "Sign beacon proposal", "Access account", "Create account",
	"Lock wallet", "Unlock wallet", "Lock account", "Unlock account"}

type permEntry struct {
	W, A *Pat
	Ops  []string
}

type permConfig struct {
	Clients []string
	Entries map[string][]permEntry
}

func (pc *permConfig) toDirk() map[string][]*checker.Permissions {
	out := map[string][]*checker.Permissions{}
	for _, c := range pc.Clients {
		for _, e := range pc.Entries[c] {
			path := e.W.goText()
			if !e.A.Empty {
				path += "/" + e.A.goText()
			}
			out[c] = append(out[c], &checker.Permissions{Path: path, Operations: e.Ops})
		}
	}
	return out
}

func (pc *permConfig) coq() string {
	var cl []string
	for _, c := range pc.Clients {
		var es []string
		for _, e := range pc.Entries[c] {
			es = append(es, fmt.Sprintf("PE %s %s %s", e.W.coq(), e.A.coq(), coqStrList(e.Ops)))
		}
		cl = append(cl, fmt.Sprintf("(%s, %s)", coqStr(c), coqList(es)))
	}
	return coqList(cl)
}

func (pc *permConfig) text() string {
	var b strings.Builder
	for _, c := range pc.Clients {
		fmt.Fprintf(&b, "%s:", c)
		for _, e := range pc.Entries[c] {
			path := e.W.goText()
			if !e.A.Empty {
				path += "/" + e.A.goText()
			}
			fmt.Fprintf(&b, " {%q %v}", path, e.Ops)
		}
		b.WriteString("; ")
	}
	return b.String()
}

func flipCase(s string, rng *PRNG) string {
	b := []byte(s)
	for i := range b {
		if rng.Chance(40) {
			if b[i] >= 'a' && b[i] <= 'z' {
				b[i] -= 32
			} else if b[i] >= 'A' && b[i] <= 'Z' {
				b[i] += 32
			}
		}
	}
	return string(b)
}

func genOps(rng *PRNG) []string {
	n := 1 + rng.Intn(4)
	var ops []string
	for i := 0; i < n; i++ {
		var o string
		switch r := rng.Intn(20); {
		case r < 4:
			o = "All"
		case r < 6:
			o = "None"
		case r < 13:
			o = allOps[rng.Intn(len(allOps))]
		default:
			o = "~" + allOps[rng.Intn(len(allOps))]
		}
		if rng.Chance(30) {
			o = flipCase(o, rng)
		}
		ops = append(ops, o)
	}
	return ops
}

func genPermConfig(rng *PRNG, wg, ag *patGen) *permConfig {
	pc := &permConfig{Entries: map[string][]permEntry{}}
	n := 1 + rng.Intn(3)
	for i := 0; i < n; i++ {
		c := fmt.Sprintf("client%d", i+1)
		pc.Clients = append(pc.Clients, c)
		for e := 1 + rng.Intn(4); e > 0; e-- {
			w := wg.pattern()
			for w.Empty {
				w = wg.pattern()
			}
			a := ag.pattern()
			if rng.Chance(35) {
				a = &Pat{Empty: true}
			}
			pc.Entries[c] = append(pc.Entries[c], permEntry{W: w, A: a, Ops: genOps(rng)})
		}
	}
	return pc
}

// cmdPerms drives C07: (A) Check() of the real static checker against the model on generated
// permission configurations; (B) signer / account manager / wallet manager requests by name
// and by key under such configurations, with store snapshots around refusals.
func cmdPerms(args []string) int {
	cf := parseCommon("C07", args, nil)
	ctx := context.Background()
	initBLS()
	rng := NewPRNG(cf.seed)
	nCfg, nCalls := 60, 60
	if cf.tier == "thorough" {
		nCfg, nCalls = 1200, 120
	}
	wg := &patGen{rng: rng, words: []string{"Wallet1", "Wallet2", "Wallet 1", "Wallet 2", "W", "wallet"}}
	ag := &patGen{rng: rng, words: []string{"Account 0", "Account 1", "Account 2", "Acc", "a", "Locked"}}
	var monFail []string
	stats := map[string]int{}
	var samples []string
	var tables, kcases []string
	type kgroup struct{ tables, cases []string }
	var groups []*kgroup
	const cfgPerFile = 40
	idx := map[string]string{}
	distinct := map[string]bool{}
	id := 0
	// the directed configuration of F2 first: a bare alternation must not grant a longer name
	directed := &permConfig{Clients: []string{"client1"}, Entries: map[string][]permEntry{"client1": {
		{W: &Pat{Top: []*rnode{litSeq("Wallet1"), litSeq("Wallet2")}}, A: &Pat{Empty: true}, Ops: []string{"All"}}}}}
	anchored := func(s string, bol, eol bool) *rnode {
		n := litSeq(s)
		if bol {
			n.kids = append([]*rnode{{kind: "bol"}}, n.kids...)
		}
		if eol {
			n.kids = append(n.kids, &rnode{kind: "eol"})
		}
		return n
	}
	// ... and the same alternation written with its own anchors: ^Wallet1|Wallet2$
	directed2 := &permConfig{Clients: []string{"client1"}, Entries: map[string][]permEntry{"client1": {
		{W: &Pat{Top: []*rnode{anchored("Wallet1", true, false), anchored("Wallet2", false, true)}}, A: &Pat{Empty: true}, Ops: []string{"All"}}}}}
	// ... and escape classes whose capital form is the complement of the small one
	seqOf := func(ns ...*rnode) *rnode { return &rnode{kind: "seq", kids: ns} }
	directed3 := &permConfig{Clients: []string{"client1"}, Entries: map[string][]permEntry{"client1": {
		{W: &Pat{Top: []*rnode{litSeq("Wallet1")}}, A: &Pat{Top: []*rnode{seqOf(litSeq("Account "), &rnode{kind: "plus", kids: []*rnode{escClass(1)}})}}, Ops: []string{"All"}},
		{W: &Pat{Top: []*rnode{seqOf(litSeq("Wallet"), escClass(3))}}, A: &Pat{Empty: true}, Ops: []string{"None"}},
		{W: &Pat{Top: []*rnode{litSeq("Wallet2")}}, A: &Pat{Top: []*rnode{seqOf(&rnode{kind: "plus", kids: []*rnode{escClass(5)}}, escClass(4), escClass(0))}}, Ops: []string{"Sign"}},
	}}}
	directed3Paths := []string{"Wallet1/Account 1", "Wallet1/Account x", "Wallet1/Account 12", "Wallet1/Account xy", "Wallet2/Account 1", "Wallet2/Account x",
		"Wallet /Account 1", "Wallet_/Account 1", "Wallet2/Account  1", "Wallet2/Acc 7"}
	// ... and the order of decisions: a denial of the operation in an earlier entry, or earlier in the same entry,
	// stands whatever follows
	directed4 := &permConfig{Clients: []string{"client1", "client2"}, Entries: map[string][]permEntry{
		"client1": {
			{W: &Pat{Top: []*rnode{litSeq("Wallet1")}}, A: &Pat{Empty: true}, Ops: []string{"~Sign"}},
			{W: &Pat{Top: []*rnode{litSeq("Wallet1"), litSeq("Wallet2")}}, A: &Pat{Empty: true}, Ops: []string{"All"}}},
		"client2": {
			{W: &Pat{Top: []*rnode{litSeq("Wallet1")}}, A: &Pat{Empty: true}, Ops: []string{"~Access account", "All"}},
			{W: &Pat{Top: []*rnode{litSeq("Wallet2")}}, A: &Pat{Empty: true}, Ops: []string{"All", "~Access account"}},
			{W: &Pat{Top: []*rnode{litSeq("Wallet1")}}, A: &Pat{Empty: true}, Ops: []string{"Access account"}}},
	}}
	directed4Calls := [][3]string{{"client1", "Wallet1/x", "Sign"}, {"client1", "Wallet2/x", "Sign"}, {"client1", "Wallet1/x", "Access account"},
		{"client2", "Wallet1/x", "Access account"}, {"client2", "Wallet2/x", "Access account"}, {"client2", "Wallet1/x", "Sign"}, {"client1", "Wallet1/x", "sign"}}
	for ci := 0; ci < nCfg; ci++ {
		pc := genPermConfig(rng, wg, ag)
		if ci == 3 {
			pc = directed4
		}
		if ci == 0 {
			pc = directed
		}
		if ci == 1 {
			pc = directed2
		}
		if ci == 2 {
			pc = directed3
		}
		svc, err := staticchecker.New(ctx, staticchecker.WithPermissions(pc.toDirk()))
		if err != nil {
			stats["config.rejected"]++
			continue
		}
		stats["config.accepted"]++
		if len(groups) == 0 || len(groups[len(groups)-1].tables) >= cfgPerFile {
			groups = append(groups, &kgroup{})
		}
		grp := groups[len(groups)-1]
		grp.tables = append(grp.tables, pc.coq())
		tables = append(tables, "")
		ti := len(grp.tables) - 1
		if len(samples) < 3 {
			samples = append(samples, pc.text())
		}
		for k := 0; k < nCalls; k++ {
			client := pc.Clients[rng.Intn(len(pc.Clients))]
			switch rng.Intn(25) {
			case 0:
				client = "nobody"
			case 1:
				client = ""
			case 2:
				client = strings.ToUpper(client)
			}
			w, a := wg.name(), ag.name()
			if rng.Chance(8) {
				// an account name with a slash of its own: the wallet is what precedes the FIRST slash
				a = []string{"backup/" + a, a + "/1", "x/Account 0"}[rng.Intn(3)]
			}
			path := w + "/" + a
			if pc == directed3 && k < 3*len(directed3Paths) {
				path = directed3Paths[k%len(directed3Paths)]
			}
			switch rng.Intn(30) {
			case 0:
				path = w
			case 1:
				path = "/" + a
			case 2:
				path = ""
			case 3:
				path = w + "/"
			}
			if ci <= 1 && k < 6 {
				path = []string{"Wallet10/x", "xWallet2/x", "Wallet1/x", "wallet2/x", "Wallet1-cold/x", "OtherWallet2/x"}[k]
				client = "client1"
			}
			op := allOps[rng.Intn(len(allOps))]
			if pc == directed4 && k < len(directed4Calls) {
				client, path, op = directed4Calls[k][0], directed4Calls[k][1], directed4Calls[k][2]
			}
			got := svc.Check(ctx, &checker.Credentials{Client: client}, path, op)
			// the documented meaning, written a second time: entries in order; within a matching entry
			// the first of none / ~op / all / op decides; no decision = refused
			if want, ok := specCheck(pc, client, path, op); ok && want != got {
				monFail = append(monFail, fmt.Sprintf("permissions {%s}: Check(client=%q, %q, %q) = %v, but the first deciding item of the first matching entries says %v", pc.text(), client, path, op, got, want))
			}
			id++
			kcases = append(kcases, "")
			grp.cases = append(grp.cases, fmt.Sprintf(" KC %s %d %s %s %s %s", coqN(id), ti, coqStr(client), coqStr(path), coqStr(op), coqBool(got)))
			idx[fmt.Sprint(id)] = fmt.Sprintf("permissions {%s} Check(client=%q, %q, %q) = %v", pc.text(), client, path, op, got)
			distinct[fmt.Sprintf("%d|%s|%s|%s", ti, client, path, op)] = true
			if got {
				stats["check.true"]++
			} else {
				stats["check.false"]++
			}
			// the property itself on the simplest shape: one entry of literal alternatives with "All"
			if ci <= 1 && got && !strings.EqualFold(strings.SplitN(path, "/", 2)[0], "Wallet1") && !strings.EqualFold(strings.SplitN(path, "/", 2)[0], "Wallet2") {
				monFail = append(monFail, fmt.Sprintf("permission path \"Wallet1|Wallet2\" with All grants %q to client1 although the wallet name is neither Wallet1 nor Wallet2", path))
			}
		}
	}
	if nil != os.MkdirAll(cf.out, 0o755) {
		return 2
	}
	var files []string
	for gi, grp := range groups {
		var b strings.Builder
		b.WriteString("From DV Require Import Corr.CheckChecker.\nLocal Open Scope string_scope.\n")
		fmt.Fprintf(&b, "Definition grouped : bool := %s.\n", coqBool(cf.g63))
		fmt.Fprintf(&b, "Definition tables : list ptable := [\n%s].\n", strings.Join(grp.tables, ";\n"))
		fmt.Fprintf(&b, "Definition cases : list kcase := [\n%s].\n", strings.Join(grp.cases, ";\n"))
		b.WriteString("Definition M := Eval vm_compute in checker_mismatches grouped tables cases.\nPrint M.\n")
		name := fmt.Sprintf("cases_C07_%d.v", gi)
		if err := os.WriteFile(filepath.Join(cf.out, name), []byte(b.String()), 0o644); err != nil {
			return 2
		}
		files = append(files, name)
	}

	// (B) service level
	sf, sfiles, sn, err := permServices(ctx, cf, rng, idx, stats)
	if err != nil {
		fmt.Fprintln(os.Stderr, "services:", err)
		return 2
	}
	monFail = append(monFail, sf...)
	files = append(files, sfiles...)

	sum := &Summary{Property: "C07", Seed: cf.seed, Tier: cf.tier, Evaluations: len(kcases) + sn, Distinct: len(distinct) + sn,
		Rule:         "(A) permission configurations from a grammar (1-3 clients x 1-4 ordered entries x wallet/account patterns with literals, '.', bracket classes, * + ?, groups, 1-3 top-level alternatives, own ^/$ x 1-4 ordered operations from All/None/op/~op in mixed case) x Check() calls with names derived from the pattern words (exact, prefixed, suffixed, case-flipped, truncated, doubled), known/unknown/empty/upper-cased clients, malformed paths, all nine operations; (B) signer requests by name and by key, account lock/unlock, wallet lock/unlock and account creation under such configurations, with raw store snapshots around refusals; distinct = distinct (configuration, client, path, operation)",
		Histories:    stats["config.accepted"],
		Distribution: stats, Samples: samples, MonitorFailures: monFail, CaseFiles: files, CaseIndex: idx}
	if err := writeSummary(cf.out, sum); err != nil {
		return 2
	}
	return 0
}

func newChecker(ctx context.Context, pc *permConfig) (checker.Service, error) {
	return staticchecker.New(ctx, staticchecker.WithPermissions(pc.toDirk()))
}

// specCheck is a second, independent reading of the permission semantics (whole-name, case-insensitive
// match of wallet and account; entries in order; first deciding operation item wins). ok=false when
// the request path is not of the plain forms wallet or wallet/account.
func specCheck(pc *permConfig, client, path, op string) (bool, bool) {
	if client == "" {
		return false, true
	}
	// the wallet is what precedes the FIRST slash; the account name is all the rest (it may contain slashes)
	parts := strings.SplitN(path, "/", 2)
	if parts[0] == "" {
		return false, false
	}
	wallet, account := parts[0], ""
	if len(parts) == 2 {
		account = parts[1]
	}
	entries, exists := pc.Entries[client]
	if !exists {
		return false, true
	}
	for _, e := range entries {
		wre, err1 := regexp.Compile("(?i)^(?:" + e.W.goText() + ")$")
		at := ".*"
		if !e.A.Empty {
			at = e.A.goText()
		}
		are, err2 := regexp.Compile("(?i)^(?:" + at + ")$")
		if err1 != nil || err2 != nil {
			return false, false
		}
		if !wre.MatchString(wallet) || !are.MatchString(account) {
			continue
		}
		for _, item := range e.Ops {
			switch {
			case strings.EqualFold(item, "none"), strings.EqualFold(item, "~"+op):
				return false, true
			case strings.EqualFold(item, "all"), strings.EqualFold(item, op):
				return true, true
			}
		}
	}
	return false, true
}
