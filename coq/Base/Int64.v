(* Machine integers as used by Dirk's rules: requests carry uint64, the stored watermark is
   int64.  Values are unbounded Z; the wrap-around of Go's conversions is written out. *)
From Coq Require Export ZArith List Bool Lia.
Export ListNotations.
Open Scope Z_scope.

Definition two63 : Z := 9223372036854775808.
Definition two64 : Z := 18446744073709551616.

(* a value a uint64 field can carry *)
Definition u64 (z : Z) : Prop := 0 <= z < two64.
Definition u64b (z : Z) : bool := (0 <=? z) && (z <? two64).
(* a value an int64 field can carry *)
Definition i64 (z : Z) : Prop := - two63 <= z < two63.
Definition i64b (z : Z) : bool := (- two63 <=? z) && (z <? two63).

(* Go: int64(x) for x uint64 *)
Definition to_int64 (z : Z) : Z := if z <? two63 then z else z - two64.
(* Go: uint64(x) for x int64 *)
Definition to_uint64 (z : Z) : Z := if z <? 0 then z + two64 else z.
