(* C09: valid advancing duties are signed; a batch over distinct keys equals its entries one at a time. *)
From DV Require Import Model.Instance Proofs.AssocFacts Proofs.RulesProofs Proofs.RulerProofs Proofs.SignerProofs Proofs.InstanceProofs.
From Coq Require Import Lia.
Local Open Scope Z_scope.

(* ---- the rule accepts what it should ---- *)

Lemma att_checks_accepts c dom a s t :
  bytes_eqb (prefix4 dom) dom_attester = true ->
  0 <= s -> 0 <= t -> t < two63 -> (s < t \/ (s = 0 /\ t = 0)) ->
  a_tgt a < t -> a_src a <= s ->
  att_checks c dom a s t = (RApproved, {| a_src := s; a_tgt := t |}).
Proof.
  intros Hd Hs Ht Ht63 Hord Htgt Hsrc. unfold att_checks. rewrite Hd. cbn [negb].
  assert (Hs63 : s < two63) by (unfold two63 in *; lia).
  replace (two63 <=? s) with false by (symmetry; apply Z.leb_gt; lia).
  replace (two63 <=? t) with false by (symmetry; apply Z.leb_gt; lia).
  rewrite andb_false_r.
  assert (E3 : negb ((s =? 0) && (t =? 0)) && (t <=? s) = false).
  { destruct (Z.eqb_spec s 0); destruct (Z.eqb_spec t 0); cbn; auto; apply Z.leb_gt; lia. }
  rewrite E3.
  assert (E4 : (0 <=? a_tgt a) && (t <=? to_uint64 (a_tgt a)) = false).
  { destruct (0 <=? a_tgt a) eqn:E; cbn; auto. apply Z.leb_le in E. unfold to_uint64.
    destruct (a_tgt a <? 0) eqn:E'; [apply Z.ltb_lt in E'; lia|]. apply Z.leb_gt. lia. }
  rewrite E4.
  assert (E5 : (0 <=? a_src a) && (s <? to_uint64 (a_src a)) = false).
  { destruct (0 <=? a_src a) eqn:E; cbn; auto. apply Z.leb_le in E. unfold to_uint64.
    destruct (a_src a <? 0) eqn:E'; [apply Z.ltb_lt in E'; lia|]. apply Z.ltb_ge. lia. }
  rewrite E5. unfold to_int64.
  replace (s <? two63) with true by (symmetry; apply Z.ltb_lt; lia).
  replace (t <? two63) with true by (symmetry; apply Z.ltb_lt; lia). reflexivity.
Qed.

Lemma on_prop_accepts c st r :
  bytes_eqb (prefix4 (p_dom r)) dom_proposer = true -> 0 <= p_slot r -> p_slot r < two63 ->
  view_prop st (p_key r) < p_slot r ->
  on_prop c st no_fault r = (RApproved, put_prop st (p_key r) (p_slot r)).
Proof.
  intros Hd H0 H63 Hlt. unfold on_prop. rewrite Hd. cbn [negb fetch_fails no_fault f_fetch existsb f_store].
  replace (two63 <=? p_slot r) with false by (symmetry; apply Z.leb_gt; lia). rewrite andb_false_r.
  assert (E : (0 <=? view_prop st (p_key r)) && (p_slot r <=? to_uint64 (view_prop st (p_key r))) = false).
  { destruct (0 <=? view_prop st (p_key r)) eqn:E; cbn; auto. apply Z.leb_le in E. unfold to_uint64.
    destruct (view_prop st (p_key r) <? 0) eqn:E'; [apply Z.ltb_lt in E'; lia|]. apply Z.leb_gt. lia. }
  rewrite E. unfold to_int64. replace (p_slot r <? two63) with true by (symmetry; apply Z.ltb_lt; lia). reflexivity.
Qed.

(* ---- well-formed, fault-free histories ---- *)

Definition att_data_wf (d : option att_data) : Prop :=
  exists o, att_fields d = Some o /\ List.length (ao_dom o) = 32%nat /\ 0 <= ao_s o /\ 0 <= ao_t o.
Definition prop_data_wf (d : option prop_data) : Prop :=
  exists o, prop_fields d = Some o /\ List.length (po_dom o) = 32%nat /\ 0 <= po_slot o.

Definition op_wf (o : op) : Prop :=
  match o with
  | OAttest _ _ d f => f = no_ofault /\ att_data_wf d
  | OAttests _ l f => f = no_ofault /\ Forall (fun r => att_data_wf (snd r)) l
  | OPropose _ _ d f => f = no_ofault /\ prop_data_wf d
  | OSign _ _ _ f => f = no_ofault
  | OMultisign _ _ f => f = no_ofault
  | ORestart => True
  end.
(* every configured account can sign *)
Definition cfg_wf (c : scfg) : Prop := forall a, In a (sc_accounts c) -> ac_signer a = true.

Lemma op_wf_ok o : op_wf o -> op_ok o.
Proof.
  destruct o; cbn; try (intros ->; exact I); auto.
  - intros [-> (o & Ho & _ & Hs & Ht)]. split; [exact I|]. intros o' Ho'. rewrite Ho in Ho'. injection Ho' as <-. auto.
  - intros [-> HF]. split; [exact I|]. eapply Forall_impl; [|exact HF]. cbn.
    intros r (o & Ho & _ & Hs & Ht) o' Ho'. rewrite Ho in Ho'. injection Ho' as <-. auto.
  - intros [-> (o & Ho & _ & Hs)]. split; [exact I|]. intros o' Ho'. rewrite Ho in Ho'. injection Ho' as <-. auto.
Qed.

Lemma pos_fault_none i : pos_fault no_ofault i = no_sfault.
Proof. unfold pos_fault; cbn. destruct i; reflexivity. Qed.
Lemma shiftf_none : shiftf no_ofault = no_ofault.
Proof. reflexivity. Qed.

Lemma do_sign_ok ac m : ac_signer ac = true ->
  do_sign ac no_sfault true m = (CSucceeded, Some {| sg_key := ac_key ac; sg_msg := m |}).
Proof. intros H. unfold do_sign; cbn. now rewrite H. Qed.

Lemma len32_true b : List.length b = 32%nat -> len32 b = true.
Proof. intros H. unfold len32. now rewrite H. Qed.

Lemma pre_check_ok_in c cl a act sf ac : pre_check c cl a act sf = PreOk ac -> In ac (sc_accounts c).
Proof.
  unfold pre_check. destruct (sf_resolve sf); [discriminate|].
  destruct (resolve c a) as [x|] eqn:Er; [|discriminate].
  destruct (_ || _); [discriminate|].
  assert (Hin : In x (sc_accounts c)).
  { unfold resolve in Er. destruct (ad_key a); [apply find_some in Er; tauto|].
    destruct (String.eqb (ad_name a) ""); [discriminate|]. apply find_some in Er; tauto. }
  destruct (sf_unlock sf); try discriminate. destruct (ac_usable x); [|discriminate].
  intros H; injection H as <-. exact Hin.
Qed.

(* ---- quiet steps: with well-formed fault-free requests the record of a key moves only when a
        signature for that key is released ---- *)

Lemma phase_quiet c st k (items : list (acct * att_ok)) :
  guard63 c = true ->
  Forall (fun x => 0 <= ao_s (snd x) /\ 0 <= ao_t (snd x) /\ List.length (ao_dom (snd x)) = 32%nat /\ ac_signer (fst x) = true) items ->
  NoDup (items_keys items) ->
  flat_map (att_of k)
    (sigs_of (sign_phase no_ofault (map (fun r => fst (chk c st r)) (map item_req items)) items
                (fun o => len32 (ao_dom o)) att_msg)) = [] ->
  match find (fun r => N.eqb (r_key r) k) (map item_req items) with
  | Some r => snd (chk c st r) | None => view_att st k end = view_att st k.
Proof.
  intros G. induction items as [|x items IH]; intros HF ND; [reflexivity|].
  inversion HF as [|? ? (Hs & Ht & Hl & Hsg) HF']; subst. inversion ND as [|? ? Hnin ND']; subst.
  cbn [map find]. rewrite sign_phase_cons, sigs_of_cons, flat_map_app, shiftf_none.
  assert (Hkey : r_key (item_req x) = ac_key (fst x)) by reflexivity. rewrite Hkey.
  destruct (N.eqb_spec (ac_key (fst x)) k) as [Ek|Ek].
  - intros HA. apply app_eq_nil in HA. destruct HA as [HA _].
    unfold sign_one in HA.
    destruct (chk c st (item_req x)) as [res a'] eqn:Ec. cbn [fst snd] in *.
    assert (Hk : r_key (item_req x) = k) by (rewrite Hkey; exact Ek).
    destruct res.
    + unfold chk in Ec. apply att_checks_refused in Ec; [|discriminate]. subst a'. now rewrite Hk.
    + exfalso. rewrite pos_fault_none, (len32_true _ Hl), (do_sign_ok _ _ Hsg) in HA.
      cbn in HA. unfold att_of in HA. cbn in HA. rewrite Ek, N.eqb_refl in HA. discriminate.
    + unfold chk in Ec. apply att_checks_refused in Ec; [|discriminate]. subst a'. now rewrite Hk.
    + unfold chk in Ec. apply att_checks_refused in Ec; [|discriminate]. subst a'. now rewrite Hk.
  - rewrite att_of_sign_one_other by exact Ek. cbn [app]. intros HA. apply IH; auto.
Qed.

Lemma items_wf c cl (reqs : list (addr * option att_data)) x :
  cfg_wf c -> Forall (fun r => att_data_wf (snd r)) reqs ->
  In x (combine (pre_accts (map_i (fun i r => pre_check c cl (fst r) AAtt (pos_fault no_ofault i)) 0 reqs))
                (flat_map (fun o => match o with Some y => [y] | None => [] end) (map (fun r => att_fields (snd r)) reqs))) ->
  0 <= ao_s (snd x) /\ 0 <= ao_t (snd x) /\ List.length (ao_dom (snd x)) = 32%nat /\ ac_signer (fst x) = true.
Proof.
  intros Hc HF Hx. destruct x as [ac o].
  assert (Ho : exists r, In r reqs /\ att_fields (snd r) = Some o).
  { apply in_combine_r in Hx. apply in_flat_map in Hx. destruct Hx as (fo & Hin & Ho).
    apply in_map_iff in Hin. destruct Hin as (r & <- & Hr).
    destruct (att_fields (snd r)) as [y|] eqn:E; [|contradiction]. destruct Ho as [<-|[]]. eauto. }
  destruct Ho as (r & Hr & Hfo). rewrite Forall_forall in HF. destruct (HF r Hr) as (o' & Ho' & Hl & Hs & Ht).
  rewrite Hfo in Ho'. injection Ho' as <-. cbn [fst snd]. repeat split; auto.
  apply in_combine_l in Hx. unfold pre_accts in Hx. apply in_flat_map in Hx. destruct Hx as (p & Hp & Hac).
  destruct p as [|ac']; [contradiction|]. destruct Hac as [<-|[]].
  apply Hc.
  assert (exists i a, pre_check c cl a AAtt (pos_fault no_ofault i) = PreOk ac') as (i & a & Hpc).
  { clear -Hp. revert Hp. generalize 0%nat. induction reqs as [|r reqs IH]; intros n; cbn; [intros []|].
    intros [H|H]; eauto. }
  eapply pre_check_ok_in; eauto.
Qed.

Lemma sign_atts_quiet c st cl reqs rs st' k :
  guard63 (sc_rules c) = true -> cfg_wf c -> Forall (fun r => att_data_wf (snd r)) reqs ->
  sign_atts c st cl reqs no_ofault = (rs, st') ->
  flat_map (att_of k) (sigs_of rs) = [] -> view_att st' k = view_att st k.
Proof.
  intros G Hc Hd. unfold sign_atts.
  destruct reqs as [|rq reqs'] eqn:Ereqs; [intros H; injection H as <- <-; auto|].
  rewrite <- Ereqs in *. clear Ereqs rq reqs'.
  destruct (find_index _ _ 0); [intros H; injection H as <- <-; auto|].
  destruct (negb (forallb is_pre_ok _)); [intros H; injection H as <- <-; auto|].
  cbn [of_ruler no_ofault].
  match goal with |- context [combine ?a ?b] => set (items := combine a b) end.
  assert (HF : Forall (fun x => 0 <= ao_s (snd x) /\ 0 <= ao_t (snd x) /\ List.length (ao_dom (snd x)) = 32%nat /\ ac_signer (fst x) = true) items).
  { apply Forall_forall. intros x Hx. eapply items_wf; eauto. }
  destruct (ruler_atts _ _ _ _ _) as [rr st1] eqn:Er. intros H; injection H as <- <-.
  apply ruler_atts_char in Er. destruct Er as [[Hna [Hv _]]|(ND & Hrr & Hv & Hp)]; [intros _; apply Hv|].
  change (map (fun x => att_req (fst x) (snd x)) items) with (map item_req items) in *.
  rewrite item_keys_reqs in ND. rewrite Hrr, (Hv k). apply phase_quiet; auto.
Qed.

Lemma sign_att_quiet c st cl a d r st' k :
  guard63 (sc_rules c) = true -> cfg_wf c -> att_data_wf d ->
  sign_att c st cl a d no_ofault = (r, st') ->
  flat_map (att_of k) (sigs_of [r]) = [] -> view_att st' k = view_att st k.
Proof.
  intros G Hc (o & Ho & Hl & Hs & Ht). unfold sign_att. rewrite Ho.
  destruct (pre_check c cl a AAtt (pos_fault no_ofault 0)) as [cr|ac] eqn:Ep; [intros H; injection H as <- <-; auto|].
  cbn [of_ruler no_ofault].
  destruct (ruler_atts _ _ _ _ _) as [rr st1] eqn:Er.
  apply ruler_atts_char in Er. destruct Er as [[Hna [Hv _]]|(ND & Hrr & Hv & Hp)].
  { intros H. assert (st1 = st') by (destruct (nth 0 rr RUnknown); now injection H). subst. intros _. apply Hv. }
  pose proof (phase_quiet (sc_rules c) st k [(ac, o)] G) as HQ.
  assert (Hsg : ac_signer ac = true) by (apply Hc; eapply pre_check_ok_in; eauto).
  specialize (HQ ltac:(repeat constructor; auto) ltac:(repeat constructor; intros [])).
  unfold item_req in HQ. cbn [map fst snd] in HQ, Hrr, Hv.
  rewrite sign_phase_cons in HQ. cbn [sign_phase map_i] in HQ.
  subst rr. cbn [nth]. intros H.
  assert (Hs' : st1 = st' /\ sigs_of [r] = sigs_of [sign_one no_ofault (fst (chk (sc_rules c) st (att_req ac o))) (ac, o) (fun o => len32 (ao_dom o)) att_msg]).
  { unfold sign_one. cbn [fst snd].
    destruct (fst (chk (sc_rules c) st (att_req ac o))); injection H as <- <-; auto. }
  destruct Hs' as [<- Hs']. rewrite Hs'. intros HA. rewrite (Hv k). apply HQ. exact HA.
Qed.

Lemma sign_prop_quiet c st cl a d r st' k :
  guard63 (sc_rules c) = true -> cfg_wf c -> prop_data_wf d ->
  sign_prop c st cl a d no_ofault = (r, st') ->
  flat_map (prop_of k) (sigs_of [r]) = [] -> view_prop st' k = view_prop st k.
Proof.
  intros G Hc (o & Ho & Hl & Hs). unfold sign_prop. rewrite Ho.
  destruct (pre_check c cl a AProp (pos_fault no_ofault 0)) as [cr|ac] eqn:Ep; [intros H; injection H as <- <-; auto|].
  assert (Hsg : ac_signer ac = true) by (apply Hc; eapply pre_check_ok_in; eauto).
  cbn [of_ruler no_ofault]. unfold ruler_prop. destruct (creds_ok cl); [|cbn; intros H; injection H as <- <-; auto].
  destruct (on_prop _ _ _ _) as [x st1] eqn:Eo. cbn [nth].
  destruct x; cbn [norm];
    try (apply on_prop_refused in Eo; [|discriminate]; subst st1; intros H; injection H as <- <-; auto).
  apply on_prop_approved in Eo; auto. destruct Eo as (-> & _). cbn [p_key p_slot].
  rewrite pos_fault_none, (len32_true _ Hl), (do_sign_ok _ _ Hsg).
  intros H; injection H as <- <-. cbn. unfold prop_of; cbn.
  rewrite view_prop_put_prop. destruct (N.eqb (ac_key ac) k); [discriminate|auto].
Qed.

Lemma step_quiet c st o rs st' k :
  guard63 (sc_rules c) = true -> cfg_wf c -> op_wf o -> step c st o = (rs, st') ->
  (flat_map (att_of k) (sigs_of rs) = [] -> view_att st' k = view_att st k) /\
  (flat_map (prop_of k) (sigs_of rs) = [] -> view_prop st' k = view_prop st k).
Proof.
  intros G Hc Hwf Hs.
  pose proof (step_rel c st o rs st' k G (op_wf_ok _ Hwf) Hs) as [HA HP].
  destruct o; cbn [step op_wf] in *.
  - destruct Hwf as [-> Hd]. destruct (sign_att c st cl a d no_ofault) as [r st1] eqn:E.
    injection Hs as <- <-. split; [eapply sign_att_quiet; eauto|].
    intros _. unfold sign_att in E. destruct (att_fields d); [|now injection E as <- <-].
    destruct (pre_check _ _ _ _ _); [now injection E as <- <-|]. cbn [of_ruler no_ofault] in E.
    destruct (ruler_atts _ _ _ _ _) as [rr st2] eqn:Er.
    assert (st2 = st1) by (destruct (nth 0 rr RUnknown); now injection E). subst.
    apply ruler_atts_char in Er. destruct Er as [[_ [_ Hp]]|(_ & _ & _ & Hp)]; apply Hp.
  - destruct Hwf as [-> Hd]. split; [eapply sign_atts_quiet; eauto|].
    intros _. unfold sign_atts in Hs. destruct l as [|rq l'] eqn:El; [now injection Hs as <- <-|].
    rewrite <- El in *. clear El rq l'.
    destruct (find_index _ _ 0); [now injection Hs as <- <-|].
    destruct (negb (forallb is_pre_ok _)); [now injection Hs as <- <-|]. cbn [of_ruler no_ofault] in Hs.
    destruct (ruler_atts _ _ _ _ _) as [rr st2] eqn:Er. injection Hs as <- <-.
    apply ruler_atts_char in Er. destruct Er as [[_ [_ Hp]]|(_ & _ & _ & Hp)]; apply Hp.
  - destruct Hwf as [-> Hd]. destruct (sign_prop c st cl a d no_ofault) as [r st1] eqn:E.
    injection Hs as <- <-. split; [|eapply sign_prop_quiet; eauto].
    intros _. unfold sign_prop in E. destruct (prop_fields d); [|now injection E as <- <-].
    destruct (pre_check _ _ _ _ _); [now injection E as <- <-|]. cbn [of_ruler no_ofault] in E.
    unfold ruler_prop in E. destruct (creds_ok cl); [|cbn in E; now injection E as <- <-].
    destruct (on_prop _ _ _ _) as [x st2] eqn:Eo. cbn [nth] in E.
    assert (st2 = st1) by (destruct (norm x); now injection E). subst.
    unfold on_prop in Eo.
    repeat match type of Eo with context [if ?b then _ else _] => destruct b end;
      injection Eo as <- <-; auto.
  - injection Hs as <- <-. auto.
  - injection Hs as <- <-. auto.
  - injection Hs as <- <-. auto.
Qed.

(* after a well-formed fault-free history the record of a key is its initial record or the last
   attestation / proposal released for it *)
Lemma run_exact c h : guard63 (sc_rules c) = true -> cfg_wf c -> Forall op_wf h -> forall st k,
  let stf := fst (run c st h) in
  let out := snd (run c st h) in
  (view_att stf k = view_att st k \/
   In (a_src (view_att stf k), a_tgt (view_att stf k)) (released_att k out)) /\
  (view_prop stf k = view_prop st k \/ In (view_prop stf k) (released_prop k out)).
Proof.
  intros G Hc. induction h as [|o h IH]; intros HF st k; [cbn; auto|].
  inversion HF as [|? ? Hwf HF']; subst.
  rewrite run_cons. destruct (step c st o) as [rs st1] eqn:Es.
  specialize (IH HF' st1 k). destruct (run c st1 h) as [stf out] eqn:Er. cbn [fst snd] in *.
  unfold released_att, released_prop in *. rewrite released_cons, !flat_map_app.
  destruct (step_quiet c st o rs st1 k G Hc Hwf Es) as [QA QP].
  destruct (step_rel c st o rs st1 k G (op_wf_ok _ Hwf) Es) as [[_ HA] [_ HP]].
  destruct IH as [IA IP]. split.
  - destruct IA as [IA|IA]; [|right; apply in_or_app; now right].
    destruct HA as [HA|(s & t & HA & Hv & _)].
    + left. rewrite IA. now apply QA.
    + right. apply in_or_app. left. rewrite HA, IA, Hv. now left.
  - destruct IP as [IP|IP]; [|right; apply in_or_app; now right].
    destruct HP as [HP|(s & HP & Hv & _)].
    + left. rewrite IP. now apply QP.
    + right. apply in_or_app. left. rewrite HP, IP, Hv. now left.
Qed.

(* ---- C09 (i) ---- *)

Lemma C09_att_main :
  forall (c : scfg) (h : list op) (k : N),
    guard63 (sc_rules c) = true -> cfg_wf c -> Forall op_wf h ->
    let st := fst (run c empty_store h) in
    let R := released_att k (snd (run c empty_store h)) in
    forall cl a d o ac,
      att_fields d = Some o -> pre_check c cl a AAtt no_sfault = PreOk ac -> ac_key ac = k ->
      creds_ok cl = true -> List.length (ao_dom o) = 32%nat ->
      bytes_eqb (prefix4 (ao_dom o)) dom_attester = true ->
      0 <= ao_s o -> ao_t o < two63 -> (ao_s o < ao_t o \/ (ao_s o = 0 /\ ao_t o = 0)) ->
      (forall p, In p R -> snd p < ao_t o /\ fst p <= ao_s o) ->
      fst (sign_att c st cl a d no_ofault) = (CSucceeded, Some {| sg_key := k; sg_msg := att_msg o |}).
Proof.
  intros c h k G Hc HF st R cl a d o ac Ho Hp Hk Hcr Hl Hd Hs Ht Hord Habove.
  destruct (run_exact c h G Hc HF empty_store k) as [HA _]. fold st R in HA.
  assert (Hv : a_tgt (view_att st k) < ao_t o /\ a_src (view_att st k) <= ao_s o).
  { destruct HA as [HA|HA].
    - rewrite HA. cbn. lia.
    - apply Habove in HA. cbn in HA. lia. }
  assert (Ht0 : 0 <= ao_t o) by lia.
  unfold sign_att. rewrite Ho, pos_fault_none, Hp. cbn [of_ruler no_ofault ruler_atts].
  rewrite Hcr. unfold on_att. cbn [fetch_fails no_fault f_fetch existsb of_rules].
  cbn [r_dom r_key r_src r_tgt att_req]. rewrite Hk.
  rewrite (att_checks_accepts (sc_rules c) (ao_dom o) (view_att st k) (ao_s o) (ao_t o)) by tauto.
  cbn [f_store no_fault norm nth fst].
  rewrite (len32_true _ Hl), do_sign_ok.
  - now rewrite Hk.
  - apply Hc. eapply pre_check_ok_in; eauto.
Qed.

Lemma C09_prop_main :
  forall (c : scfg) (h : list op) (k : N),
    guard63 (sc_rules c) = true -> cfg_wf c -> Forall op_wf h ->
    let st := fst (run c empty_store h) in
    let R := released_prop k (snd (run c empty_store h)) in
    forall cl a d o ac,
      prop_fields d = Some o -> pre_check c cl a AProp no_sfault = PreOk ac -> ac_key ac = k ->
      creds_ok cl = true -> List.length (po_dom o) = 32%nat ->
      bytes_eqb (prefix4 (po_dom o)) dom_proposer = true ->
      0 <= po_slot o -> po_slot o < two63 ->
      (forall p, In p R -> p < po_slot o) ->
      fst (sign_prop c st cl a d no_ofault) = (CSucceeded, Some {| sg_key := k; sg_msg := prop_msg o |}).
Proof.
  intros c h k G Hc HF st R cl a d o ac Ho Hp Hk Hcr Hl Hd Hs Ht Habove.
  destruct (run_exact c h G Hc HF empty_store k) as [_ HP]. fold st R in HP.
  assert (Hv : view_prop st k < po_slot o).
  { destruct HP as [HP|HP]; [rewrite HP; cbn; lia|now apply Habove]. }
  unfold sign_prop. rewrite Ho, pos_fault_none, Hp. cbn [of_ruler no_ofault ruler_prop].
  rewrite Hcr. change (of_rules no_ofault) with no_fault. unfold ruler_prop.
  rewrite on_prop_accepts; cbn [p_dom p_key p_slot]; auto; [|now rewrite Hk].
  cbn [norm nth fst]. rewrite (len32_true _ Hl), do_sign_ok.
  - now rewrite Hk.
  - apply Hc. eapply pre_check_ok_in; eauto.
Qed.
