(* Model of services/ruler/golang/runner.go for the three locking actions.
   The lock protocol itself is modelled in Conc.v; here a call runs alone. *)
From DV Require Export Model.Rules.

(* first position whose key already occurred earlier in the list *)
Fixpoint first_dup_from (seen : list N) (ks : list N) (i : nat) : option nat :=
  match ks with
  | [] => None
  | k :: r => if existsb (N.eqb k) seen then Some i else first_dup_from (k :: seen) r (S i)
  end.
Definition first_dup (ks : list N) : option nat := first_dup_from [] ks 0.

Fixpoint set_nth {A} (i : nat) (x : A) (l : list A) : list A :=
  match l, i with
  | [], _ => []
  | _ :: r, O => x :: r
  | y :: r, S j => y :: set_nth j x r
  end.

(* results[i] = FAILED, every other position still UNKNOWN *)
Definition fail_at (n i : nat) : list rres := set_nth i RFailed (repeat RUnknown n).

Definition norm (r : rres) : rres := match r with RUnknown => RFailed | x => x end.

(* creds_ok = credentials non-nil with a non-empty client (assembleMetadata); through the
   signer service this always holds, the permission check having refused an empty client *)

(* ActionSignBeaconAttestation *)
Definition ruler_atts (c : rcfg) (st : store) (creds_ok : bool) (f : rfault) (rs : list areq)
  : list rres * store :=
  match rs with
  | [] => ([RFailed], st)
  | [r] => if creds_ok then let '(x, st') := on_att c st f r in ([norm x], st') else ([RFailed], st)
  | _ =>
    match first_dup (map r_key rs) with
    | Some i => (fail_at (List.length rs) i, st)
    | None => if creds_ok then on_atts c st f rs else (repeat RFailed (List.length rs), st)
    end
  end.

(* ActionSignBeaconProposal (the signer only ever sends one entry) *)
Definition ruler_prop (c : rcfg) (st : store) (creds_ok : bool) (f : rfault) (r : preq)
  : list rres * store :=
  if creds_ok then let '(x, st') := on_prop c st f r in ([norm x], st') else ([RFailed], st).

(* ActionSign: no state; repeated keys are refused like for the other locking actions *)
Definition ruler_signs (c : rcfg) (creds_ok : bool) (ip : string) (ds : list (N * bytes)) : list rres :=
  match ds with
  | [] => [RFailed]
  | _ =>
    match first_dup (map fst ds) with
    | Some i => fail_at (List.length ds) i
    | None => map (fun d => if creds_ok then norm (on_sign c ip (snd d)) else RFailed) ds
    end
  end.
