(* C16: only peers are honoured; a refused message changes nothing. *)
From DV Require Import Model.Receiver Proofs.DkgProofs.

Lemma receive_stranger peers p name m :
  (forall i pn, In (i, pn) peers -> Some pn <> name) -> receive peers p name m = (None, p).
Proof. intros H. unfold receive. now rewrite (sender_id_unknown peers name H). Qed.

Lemma receive_peer peers p i nm m :
  NoDup (map snd peers) -> In (i, nm) peers -> i <> 0%N ->
  receive peers p (Some nm) m = (Some (fst (sstep_ev p (to_event i m))), snd (sstep_ev p (to_event i m))).
Proof.
  intros ND Hin Hi. unfold receive. rewrite (sender_id_peer peers i nm ND Hin).
  destruct (N.eqb_spec i 0); [contradiction|]. now destruct (sstep_ev p (to_event i m)).
Qed.

(* is the caller of this event a peer? *)
Definition from_peer (peers : list (N * string)) (e : hevent) : bool :=
  match e with HAdvance _ => true | HRecv name _ => negb (N.eqb (sender_id peers name) 0) end.

(* Removing every message of a non-peer from a history changes neither the final state (sessions,
   accounts) nor any reply to a peer; each removed message was answered "unknown sender". *)
Theorem strangers_change_nothing peers : forall h p,
  fst (hrun peers p h) = fst (hrun peers p (filter (from_peer peers) h)) /\
  filter (fun x => match x with Some _ => true | None => false end) (snd (hrun peers p h))
  = snd (hrun peers p (filter (from_peer peers) h)).
Proof.
  induction h as [|e h IH]; intros p; [split; reflexivity|].
  destruct e as [dt|name m]; cbn [filter from_peer hrun].
  - apply IH.
  - unfold receive. destruct (N.eqb (sender_id peers name) 0) eqn:E; cbn [negb].
    + destruct (IH p) as [I1 I2]. destruct (hrun peers p h) as [pf out]. cbn [fst snd filter] in *. split; auto.
    + cbn [hrun]. unfold receive. rewrite E. destruct (sstep_ev p (to_event (sender_id peers name) m)) as [x p1].
      destruct (IH p1) as [I1 I2]. destruct (hrun peers p1 h) as [pf out].
      destruct (hrun peers p1 (filter (from_peer peers) h)) as [pf' out']. cbn [fst snd filter] in *. split; congruence.
Qed.

(* every reply to a non-peer is the refusal *)
Theorem stranger_replies_refused peers : forall h p,
  List.length (filter (fun x => match x with None => true | Some _ => false end) (snd (hrun peers p h)))
  = List.length (filter (fun e => negb (from_peer peers e)) h).
Proof.
  induction h as [|e h IH]; intros p; [reflexivity|].
  destruct e as [dt|name m]; cbn [filter from_peer hrun negb].
  - apply IH.
  - unfold receive. destruct (N.eqb (sender_id peers name) 0) eqn:E; cbn [negb].
    + specialize (IH p). destruct (hrun peers p h) as [pf out]. cbn [snd filter List.length] in *. now rewrite IH.
    + destruct (sstep_ev p (to_event (sender_id peers name) m)) as [x p1].
      specialize (IH p1). destruct (hrun peers p1 h) as [pf out]. cbn [snd filter] in *. exact IH.
Qed.
