(* Correspondence check for single-instance histories: the harness records, per operation of a
   history it ran against the real signer service, the decoded protection store before, the
   request, the response (state and signature presence per position) and the store after; the
   functions here evaluate the model's step on the same pre-state and request and compare. *)
From DV Require Export Model.Instance.
Local Open Scope Z_scope.

(* ---- short constructors used by the generated cases files ---- *)
Definition cl (c ip : string) : creds := {| cl_client := c; cl_ip := ip |}.
Definition nm (s : string) : addr := {| ad_name := s; ad_key := None |}.
Definition ky (k : N) : addr := {| ad_name := ""; ad_key := Some k |}.
Definition nk (s : string) (k : N) : addr := {| ad_name := s; ad_key := Some k |}.
Definition R (n : nat) (x : N) : bytes := repeat x n.
Definition CP (e : Z) (r : option bytes) : option checkpoint := Some {| cp_epoch := e; cp_root := r |}.
Definition AD (dom : option bytes) (slot idx : Z) (bbr : option bytes) (s t : option checkpoint) : option att_data :=
  Some {| ad_dom := dom; ad_slot := slot; ad_index := idx; ad_bbr := bbr; ad_src := s; ad_tgt := t |}.
Definition PD (dom : option bytes) (slot pidx : Z) (parent state body : option bytes) : option prop_data :=
  Some {| pd_dom := dom; pd_slot := slot; pd_pidx := pidx; pd_parent := parent; pd_state := state; pd_body := body |}.
Definition SD (dom data : option bytes) : option sign_data := Some {| sd_dom := dom; sd_data := data |}.
Definition SF (res perm : bool) (u : ufault) (sg ns : bool) : sfault :=
  {| sf_resolve := res; sf_perm := perm; sf_unlock := u; sf_sign := sg; sf_notsigner := ns |}.
Definition OF (pos : list sfault) (rl : option (list rres)) (fetch : list nat) (st : bool) : ofault :=
  {| of_pos := pos; of_ruler := rl; of_rules := {| f_fetch := fetch; f_store := st |} |}.
Definition NF : ofault := no_ofault.
Definition AC (w n : string) (k : N) (usable signer : bool) : acct :=
  {| ac_wallet := w; ac_name := n; ac_key := k; ac_usable := usable; ac_signer := signer |}.
Definition mkstore (a : list (N * (Z * Z))) (p : list (N * Z)) : store :=
  {| s_att := map (fun x => (fst x, {| a_src := fst (snd x); a_tgt := snd (snd x) |})) a; s_prop := p |}.

(* permissions of the simple configurations: client -> wallets with every operation allowed *)
Definition simple_perm (tbl : list (string * list string)) : string -> string -> string -> action -> bool :=
  fun client wallet _ _ =>
    existsb (fun e => String.eqb (fst e) client && existsb (String.eqb wallet) (snd e)) tbl.
Definition mkcfg (g : bool) (ips : list string) (accts : list acct) (tbl : list (string * list string)) : scfg :=
  {| sc_rules := {| guard63 := g; admin_ips := ips |}; sc_accounts := accts; sc_perm := simple_perm tbl |}.

(* ---- a recorded step ---- *)
Record icase := IC {
  ic_id : N;
  ic_pre : store;
  ic_op : op;
  ic_obs : list (cres * bool);      (* observed state, signature present *)
  ic_post : store }.

Definition astate_eqb (a b : astate) : bool := (a_src a =? a_src b) && (a_tgt a =? a_tgt b).
Definition views_eqb (keys : list N) (s1 s2 : store) : bool :=
  forallb (fun k => astate_eqb (view_att s1 k) (view_att s2 k) && (view_prop s1 k =? view_prop s2 k)) keys.

Definition obs_of (r : resp) : list (cres * bool) :=
  map (fun x => (fst x, match snd x with Some _ => true | None => false end)) r.

Fixpoint list_eqb {A} (eqb : A -> A -> bool) (a b : list A) : bool :=
  match a, b with
  | [], [] => true
  | x :: a', y :: b' => eqb x y && list_eqb eqb a' b'
  | _, _ => false
  end.

Definition ob_eqb (a b : cres * bool) : bool := cres_eqb (fst a) (fst b) && Bool.eqb (snd a) (snd b).

(* exact agreement: states, signature presence, decoded store *)
Definition check_exact (c : scfg) (keys : list N) (x : icase) : bool :=
  let '(r, st') := step c (ic_pre x) (ic_op x) in
  list_eqb ob_eqb (obs_of r) (ic_obs x) && views_eqb keys st' (ic_post x).

(* safety direction (C01, C02, C05): wherever the implementation released a signature the model
   does too, the record of the signing key is afterwards exactly the model's, and no record of
   any key is lowered.  This is the premise of the induction step of C01/C02, checked on the
   real code; an implementation that is merely stricter than the model passes. *)
Definition a_leb (a b : astate) : bool := (a_src a <=? a_src b) && (a_tgt a <=? a_tgt b).
Definition check_safe (c : scfg) (keys : list N) (x : icase) : bool :=
  let '(r, st') := step c (ic_pre x) (ic_op x) in
  (List.length (ic_obs x) =? List.length r)%nat &&
  forallb (fun p => match snd (fst p), snd (snd p) with
                    | true, Some sg => views_eqb [sg_key sg] st' (ic_post x)
                    | true, None => false
                    | false, _ => true
                    end) (combine (ic_obs x) r) &&
  forallb (fun k => a_leb (view_att (ic_pre x) k) (view_att (ic_post x) k) &&
                    (view_prop (ic_pre x) k <=? view_prop (ic_post x) k)) keys.

Definition signed_implies (impl model : list (cres * bool)) : bool :=
  (List.length impl =? List.length model)%nat &&
  forallb (fun p => implb (snd (fst p)) (snd (snd p))) (combine impl model).

(* liveness direction (C09): wherever the model signs the implementation does *)
Definition check_live (c : scfg) (keys : list N) (x : icase) : bool :=
  let '(r, st') := step c (ic_pre x) (ic_op x) in
  signed_implies (obs_of r) (ic_obs x).

Definition mismatches (chk : icase -> bool) (l : list icase) : list N :=
  map ic_id (filter (fun x => negb (chk x)) l).

(* what the model says for the disagreeing cases, for the replay file *)
Definition diag (c : scfg) (keys : list N) (chk : icase -> bool) (l : list icase)
  : list (N * list (cres * bool) * list (N * (Z * Z * Z))) :=
  map (fun x => let '(r, st') := step c (ic_pre x) (ic_op x) in
                (ic_id x, obs_of r,
                 map (fun k => (k, (a_src (view_att st' k), a_tgt (view_att st' k), view_prop st' k))) keys))
      (filter (fun x => negb (chk x)) l).
