(* The concrete decision function meets the hypotheses of the generic lock-protocol theorems. *)
From DV Require Import Model.ConcRules Proofs.ConcProofs Proofs.RulerProofs.
From Coq Require Import Lia Permutation.
Local Open Scope Z_scope.

Lemma nk_inj a b : nkey a = nkey b -> a = b.
Proof. apply N2Nat.inj. Qed.

Lemma nodup_map_nk l : NoDup l -> NoDup (map nkey l).
Proof.
  induction 1 as [|x l Hn ND IH]; cbn; constructor; auto.
  intros Hin. apply in_map_iff in Hin. destruct Hin as (y & Hy & Hin). apply nk_inj in Hy. now subst.
Qed.

Lemma lockable_nodup ks : lockable ks = true -> NoDup ks.
Proof.
  unfold lockable. destruct ks as [|k ks]; [discriminate|]. destruct (first_dup (k :: ks)) eqn:E; [discriminate|].
  intros _. now apply first_dup_none.
Qed.

Lemma ckeys_nodup r : NoDup (ckeys r).
Proof.
  destruct r as [rs|p|ip ds]; cbn.
  - destruct (lockable (map r_key rs)) eqn:E; [|constructor].
    rewrite <- (map_map r_key nkey). now apply nodup_map_nk, lockable_nodup.
  - repeat constructor. intros [].
  - destruct (lockable (map fst ds)) eqn:E; [|constructor].
    rewrite <- (map_map fst nkey). now apply nodup_map_nk, lockable_nodup.
Qed.

Lemma rdv_ext l1 l2 k : rd l1 (nkey k) = rd l2 (nkey k) -> rdv l1 k = rdv l2 k.
Proof. unfold rdv. now intros ->. Qed.

Lemma cdecide_local c r l1 l2 :
  (forall k, In k (ckeys r) -> rd l1 k = rd l2 k) -> cdecide c r l1 = cdecide c r l2.
Proof.
  intros H. destruct r as [rs|p|ip ds]; cbn [cdecide ckeys] in *.
  - destruct (lockable (map r_key rs)); [|reflexivity].
    assert (E : forall x, In x rs -> rdv l1 (r_key x) = rdv l2 (r_key x)).
    { intros x Hx. apply rdv_ext, H. apply in_map_iff. exists x. auto. }
    assert (Eo : map (fun x => att_checks c (r_dom x) (fst (rdv l1 (r_key x))) (r_src x) (r_tgt x)) rs =
                 map (fun x => att_checks c (r_dom x) (fst (rdv l2 (r_key x))) (r_src x) (r_tgt x)) rs).
    { apply map_ext_in. intros x Hx. now rewrite (E x Hx). }
    rewrite Eo. f_equal. apply map_ext_in. intros [x o] Hxo. cbn [fst snd].
    apply in_combine_l in Hxo. now rewrite (E x Hxo).
  - rewrite (rdv_ext l1 l2 (p_key p)) by (apply H; now left). reflexivity.
  - reflexivity.
Qed.

Lemma cdecide_writes c r l k v : In (k, v) (snd (cdecide c r l)) -> In k (ckeys r).
Proof.
  destruct r as [rs|p|ip ds]; cbn [cdecide ckeys].
  - destruct (lockable (map r_key rs)); [|intros []]. cbn [snd]. intros H.
    apply in_map_iff in H. destruct H as ([x o] & E & Hin). injection E as <- _. cbn [fst].
    apply in_combine_l in Hin. apply in_map_iff. exists x. auto.
  - destruct (prop_checks c (p_dom p) (snd (rdv l (p_key p))) (p_slot p)) as [res s']. cbn.
    intros [E|[]]. injection E as <- _. now left.
  - intros [].
Qed.

(* ---- the generic theorems, closed for the concrete rules ---- *)


Theorem conc_serializable c s0 rs (w : cworld) :
  creach c s0 rs w -> all_finished _ _ _ w ->
  let order := rev (w_log w) in
  cser c s0 (map (log_req _ _) order) = (w_store w, map (log_out _ _) order) /\
  Permutation (map (tid _ _) order) (seq 0 (List.length rs)) /\
  (forall t th, nth_error (w_threads w) t = Some th ->
     nth_error rs t = Some (t_req th) /\ exists v, t_ph th = PDone v /\ In (t, t_req th, v) order).
Proof. apply serializable_main; [apply cdecide_local|apply cdecide_writes]. Qed.

Theorem conc_realtime c s0 rs (w : cworld) sched w' a b tha thb :
  creach c s0 rs w -> crun_sched c w sched = Some w' ->
  nth_error (w_threads w) a = Some tha -> finished tha = true ->
  nth_error (w_threads w) b = Some thb -> t_ph thb = PStart ->
  exists newer, w_log w' = (newer ++ w_log w)%list /\ In a (map (tid _ _) (w_log w)) /\ ~ In b (map (tid _ _) (w_log w)).
Proof. apply realtime_main. Qed.

Theorem conc_progress c s0 rs (w : cworld) :
  creach c s0 rs w -> ~ all_finished _ _ _ w -> exists t w', cfire c w t = Some w'.
Proof. apply progress_main; [apply cdecide_writes|apply ckeys_nodup]. Qed.

Theorem conc_terminates c s0 rs sched (w : cworld) :
  crun_sched c (init s0 rs) sched = Some w ->
  (List.length sched + measure _ _ _ ckeys w = init_measure _ ckeys rs)%nat /\
  ((forall t, cfire c w t = None) -> all_finished _ _ _ w).
Proof. apply terminates_main; [apply cdecide_writes|apply ckeys_nodup]. Qed.
