From DV Require Import Model.Services Proofs.RulerProofs Proofs.SignerProofs Proofs.CheckerProofs.
From Coq Require Import Lia.
Local Open Scope string_scope.

(* ---- C07 (iii): account / wallet management and creation are refused without permission, and a
        refused request changes nothing ---- *)

Definition sop_target (wd : world) (o : sop) : option (string * string * string) :=   (* client, path checked, operation *)
  match o with
  | SAcctLock cl name => match find_account wd name with Some a => Some (cl, ac_path a, op_lock_account) | None => None end
  | SAcctUnlock cl name _ => match find_account wd name with Some a => Some (cl, ac_path a, op_unlock_account) | None => None end
  | SWalletLock cl name => match wallet_and_account name with Some (w, _) => Some (cl, w, op_lock_wallet) | None => None end
  | SWalletUnlock cl name _ => match wallet_and_account name with Some (w, _) => Some (cl, w, op_unlock_wallet) | None => None end
  | SGenerate cl path _ _ _ => Some (cl, path, op_create)
  end.

Lemma sstep_needs_permission wd o r wd' :
  sstep wd o = (r, wd') -> r = CSucceeded ->
  exists cl path op, sop_target wd o = Some (cl, path, op) /\ wcheck wd cl path op = true.
Proof.
  destruct o as [cl name|cl name ok|cl name|cl name ok|cl path n t outcome]; cbn [sstep sop_target].
  - destruct (String.eqb name ""); [intros H; injection H as <- <-; discriminate|].
    destruct (find_account wd name) as [a|]; [|intros H; injection H as <- <-; discriminate].
    destruct (wcheck wd cl (ac_path a) op_lock_account) eqn:E; [|intros H; injection H as <- <-; discriminate]. eauto.
  - destruct (String.eqb name ""); [intros H; injection H as <- <-; discriminate|].
    destruct (find_account wd name) as [a|]; [|intros H; injection H as <- <-; discriminate].
    destruct (wcheck wd cl (ac_path a) op_unlock_account) eqn:E; [|intros H; injection H as <- <-; discriminate]. eauto.
  - destruct (String.eqb name ""); [intros H; injection H as <- <-; discriminate|].
    destruct (wallet_and_account name) as [[w a]|]; [|intros H; injection H as <- <-; discriminate].
    destruct (negb (known_wallet wd w)); [intros H; injection H as <- <-; discriminate|].
    destruct (wcheck wd cl w op_lock_wallet) eqn:E; [|intros H; injection H as <- <-; discriminate]. eauto.
  - destruct (String.eqb name ""); [intros H; injection H as <- <-; discriminate|].
    destruct (wallet_and_account name) as [[w a]|]; [|intros H; injection H as <- <-; discriminate].
    destruct (negb (known_wallet wd w)); [intros H; injection H as <- <-; discriminate|].
    destruct (wcheck wd cl w op_unlock_wallet) eqn:E; [|intros H; injection H as <- <-; discriminate]. eauto.
  - destruct (wcheck wd cl path op_create) eqn:E; cbn [negb]; [eauto|intros H; injection H as <- <-; discriminate].
Qed.

Lemma sstep_refused_unchanged wd o r wd' :
  sstep wd o = (r, wd') -> r <> CSucceeded -> wd' = wd.
Proof.
  destruct o as [cl name|cl name ok|cl name|cl name ok|cl path n t outcome]; cbn [sstep];
    repeat match goal with
           | |- context [if ?b then _ else _] => destruct b
           | |- context [match ?x with _ => _ end] => destruct x
           end; intros H; injection H as <- <-; auto; congruence.
Qed.

(* ---- C07 (iii): the signer decides on the resolved account ---- *)

Lemma pre_check_resolved c cl a1 a2 act sf :
  resolve c a1 = resolve c a2 -> pre_check c cl a1 act sf = pre_check c cl a2 act sf.
Proof. intros H. unfold pre_check. now rewrite H. Qed.

Lemma signer_resolved c st cl a1 a2 f :
  resolve c a1 = resolve c a2 ->
  (forall d, sign_att c st cl a1 d f = sign_att c st cl a2 d f) /\
  (forall d, sign_prop c st cl a1 d f = sign_prop c st cl a2 d f) /\
  (forall d, sign_gen c cl a1 d f = sign_gen c cl a2 d f).
Proof.
  intros H. repeat split; intros d.
  - unfold sign_att. now rewrite (pre_check_resolved c cl a1 a2 AAtt _ H).
  - unfold sign_prop. now rewrite (pre_check_resolved c cl a1 a2 AProp _ H).
  - unfold sign_gen. now rewrite (pre_check_resolved c cl a1 a2 ASign _ H).
Qed.

(* without permission on the resolved wallet/account the signer refuses and the store is untouched *)
Lemma pre_check_needs_perm c cl a act sf ac :
  pre_check c cl a act sf = PreOk ac ->
  resolve c a = Some ac /\ sc_perm c (cl_client cl) (ac_wallet ac) (ac_name ac) act = true.
Proof.
  unfold pre_check. destruct (sf_resolve sf); [discriminate|].
  destruct (resolve c a) as [x|]; [|discriminate].
  destruct (sf_perm sf); [discriminate|]. cbn [orb].
  destruct (sc_perm c (cl_client cl) (ac_wallet x) (ac_name x) act) eqn:E; [|discriminate]. cbn [negb].
  destruct (sf_unlock sf); try discriminate. destruct (ac_usable x); [|discriminate].
  intros H; injection H as <-. auto.
Qed.

Lemma signer_refuses_unpermitted c st cl a f :
  (forall ac, resolve c a = Some ac ->
     forall act, sc_perm c (cl_client cl) (ac_wallet ac) (ac_name ac) act = false) ->
  (forall d, sign_att c st cl a d f = ((CDenied, None), st)) /\
  (forall d, sign_prop c st cl a d f = ((CDenied, None), st)) /\
  (forall d, sign_gen c cl a d f = (CDenied, None)).
Proof.
  intros H.
  assert (Hp : forall act, pre_check c cl a act (pos_fault f 0) = PreFail CDenied).
  { intros act. unfold pre_check. destruct (sf_resolve _); auto.
    destruct (resolve c a) as [x|] eqn:Er; auto. rewrite (H x eq_refl act). cbn. now rewrite orb_true_r. }
  repeat split; intros d.
  - unfold sign_att. destruct (att_fields d); auto. now rewrite Hp.
  - unfold sign_prop. destruct (prop_fields d); auto. now rewrite Hp.
  - unfold sign_gen. destruct (sign_fields d) as [[? ?]|]; auto. now rewrite Hp.
Qed.

(* ---- C18: the lister returns all and only the accessible accounts of the requested paths ---- *)

Theorem list_accounts_spec wd client paths a :
  In a (list_accounts wd client paths) <->
  exists w ap, In (LPath w ap) paths /\ w <> "" /\ known_wallet wd w = true /\
               In a (wallet_accounts wd w) /\ lister_match ap (ac_name a) = true /\
               check (w_grouped wd) (w_table wd) client (w ++ "/" ++ ac_name a) op_access = true.
Proof.
  unfold list_accounts. rewrite in_flat_map. split.
  - intros (p & Hp & Ha). destruct p as [|w ap]; [contradiction|]. cbn [list_path] in Ha.
    destruct (String.eqb_spec w ""); [contradiction|].
    destruct (known_wallet wd w) eqn:Ek; cbn [negb] in Ha; [|contradiction].
    apply filter_In in Ha. destruct Ha as [Hin Hc]. apply andb_true_iff in Hc. destruct Hc.
    exists w, ap. repeat split; auto.
  - intros (w & ap & Hp & Hw & Hk & Hin & Hm & Hc). exists (LPath w ap). split; auto.
    cbn [list_path]. destruct (String.eqb_spec w ""); [contradiction|]. rewrite Hk. cbn [negb].
    apply filter_In. split; auto. now rewrite Hm, Hc.
Qed.

(* accounts of a wallet: everything added later is there, and base accounts not overridden *)
Lemma wallet_accounts_spec wd w a :
  In a (wallet_accounts wd w) <->
  ac_wallet a = w /\
  (In a (w_overlay wd) \/
   (In a (w_base wd) /\ forall o, In o (w_overlay wd) -> ac_wallet o = w -> ac_name o <> ac_name a)).
Proof.
  unfold wallet_accounts. rewrite in_app_iff, !filter_In. unfold in_wallet. split.
  - intros [[Hb Hc]|[Ho Hw]].
    + apply andb_true_iff in Hc. destruct Hc as [Hw Hn]. apply String.eqb_eq in Hw. split; auto. right. split; auto.
      intros o Ho How Hname. apply negb_true_iff in Hn.
      assert (existsb (fun o0 => ac_name o0 =? ac_name a) (filter (fun a0 => ac_wallet a0 =? w) (w_overlay wd)) = true).
      { apply existsb_exists. exists o. split; [apply filter_In; split; auto; now apply String.eqb_eq|now apply String.eqb_eq]. }
      congruence.
    + apply String.eqb_eq in Hw. auto.
  - intros [Hw [Ho|[Hb Hn]]].
    + right. split; auto. now apply String.eqb_eq.
    + left. split; auto. apply andb_true_iff. split; [now apply String.eqb_eq|].
      apply negb_true_iff. apply not_true_is_false. intros He. apply existsb_exists in He.
      destruct He as (o & Ho & Hname). apply filter_In in Ho. destruct Ho as [Ho How].
      apply String.eqb_eq in How, Hname. exact (Hn o Ho How Hname).
Qed.

(* an account created through Dirk is listed from then on, if permitted *)
Lemma added_account_listed wd a client ap :
  known_wallet wd (ac_wallet a) = true -> ac_wallet a <> "" ->
  lister_match ap (ac_name a) = true ->
  check (w_grouped wd) (w_table wd) client (ac_wallet a ++ "/" ++ ac_name a) op_access = true ->
  In a (list_accounts (add_overlay wd a) client [LPath (ac_wallet a) ap]).
Proof.
  intros Hk Hw Hm Hc. apply list_accounts_spec. exists (ac_wallet a), ap. repeat split; auto.
  - now left.
  - apply wallet_accounts_spec. split; auto. left. cbn. apply in_or_app. right. now left.
Qed.
