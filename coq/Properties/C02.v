(* C02 - no two different block proposals for one slot; slots strictly increase. *)
From DV Require Import Model.Paths Proofs.PathsProofs Model.Instance Proofs.SignerProofs Proofs.InstanceProofs Proofs.Examples Proofs.ExampleProofs.
Local Open Scope Z_scope.

(* For every configuration with the 2^63 guard, initial store, finite history (as in C01: all
   request kinds, by name or key, restarts, any uint64 slot, any fault schedule) and key: the
   slots of the proposals released for the key are strictly increasing - so no slot is signed
   twice, with the same or with different contents - and the stored watermark dominates them. *)
Theorem C02_no_double_proposal :
  forall (c : scfg) (st0 : store) (h : list op) (k : N),
    guard63 (sc_rules c) = true -> Forall op_ok h ->
    let R := released_prop k (snd (run c st0 h)) in
    let stf := fst (run c st0 h) in
    slot_sorted R /\
    (forall i j a b, i <> j -> nth_error R i = Some a -> nth_error R j = Some b -> a <> b) /\
    (forall a, In a R -> a <= view_prop stf k).
Proof. exact C02_main. Qed.
Print Assumptions C02_no_double_proposal.

Example C02_example :
  Forall op_ok ex_history /\
  released_prop 1 (snd (run (ex_cfg true) empty_store ex_history)) = [10; 11].
Proof. split; [exact ex_history_ok|vm_compute; reflexivity]. Qed.

(* the variant without the guard signs slot 2^63 twice *)
Lemma C02_refuted_legacy :
  exists h a, Forall op_ok h /\ released_prop 1 (snd (run (ex_cfg false) empty_store h)) = [a; a].
Proof. exact C02_legacy_witness. Qed.

(* "Over its lifetime", restarts in between: the proposal watermarks bind a restarted daemon only if it
   opens the same store again.  main.go opens the store at util.ResolvePath(storage-path); for every
   path, the location depends on the configured base directory and the user's home directory only -
   not on the directory the daemon is started from - and it is absolute whenever those two are. *)
Theorem C02_store_found_again_after_restart :
  forall (e1 e2 : penv) (p : string),
    pe_home e1 = pe_home e2 -> pe_base e1 = pe_base e2 ->
    resolve_path e1 p = resolve_path e2 p /\
    (is_abs (pe_home e1) = true -> (pe_base e1 = ""%string \/ is_abs (pe_base e1) = true) -> is_abs (resolve_path e1 p) = true).
Proof. intros e1 e2 p Hh Hb; split; [exact (resolve_path_ignores_cwd e1 e2 p Hh Hb)|exact (resolve_path_abs e1 p)]. Qed.
Print Assumptions C02_store_found_again_after_restart.

(* a variant that falls back to the working directory when no home directory is known opens another store *)
Lemma C02_refuted_cwd_fallback :
  let e1 := {| pe_cwd := "/"; pe_home := "/root"; pe_base := "" |} in
  let e2 := {| pe_cwd := "/tmp"; pe_home := "/root"; pe_base := "" |} in
  (resolve_path_cwd_fallback false e1 "storage" = "/storage" /\
   resolve_path_cwd_fallback false e2 "storage" = "/tmp/storage" /\
   resolve_path e1 "storage" = "/root/storage" /\ resolve_path e2 "storage" = "/root/storage")%string.
Proof. exact cwd_fallback_witness. Qed.
