package main

import (
	"context"
	"crypto/rand"
	"crypto/rsa"
	"crypto/tls"
	"crypto/x509"
	"crypto/x509/pkix"
	"errors"
	"fmt"
	"math/big"
	"net"
	"strings"
	"time"

	"github.com/herumi/bls-eth-go-binary/bls"

	"github.com/attestantio/dirk/core"
	"github.com/attestantio/dirk/services/checker"
	sendergrpc "github.com/attestantio/dirk/services/sender/grpc"
	pb "github.com/wealdtech/eth2-signer-api/pb/v1"
	"google.golang.org/grpc"
	"google.golang.org/grpc/credentials"
	"google.golang.org/protobuf/types/known/emptypb"
)

// The requester's side of a swap over the REAL transport: a real instance with the real gRPC sender
// (services/sender/grpc) executes a generation against a scripted peer - a gRPC server of the harness
// with a certificate of the cluster's authority - whose contribution replies are valid, of the wrong
// length, undecodable, or errors.  The reply must be refused (or accepted) as accept_reply of Dkg.v
// says, and nothing may panic on the way (decoding in the sender, checks in OnExecute).

type scriptedPeer struct {
	pb.UnimplementedDKGServer
	reply func(req *pb.ContributeRequest) (*pb.ContributeResponse, error)
	got   []*pb.ContributeRequest

	prepared []*pb.PrepareRequest
}

func (p *scriptedPeer) Prepare(_ context.Context, req *pb.PrepareRequest) (*emptypb.Empty, error) {
	p.prepared = append(p.prepared, req)
	return &emptypb.Empty{}, nil
}
func (p *scriptedPeer) Execute(context.Context, *pb.ExecuteRequest) (*emptypb.Empty, error) {
	return &emptypb.Empty{}, nil
}
func (p *scriptedPeer) Abort(context.Context, *pb.AbortRequest) (*emptypb.Empty, error) {
	return &emptypb.Empty{}, nil
}
func (p *scriptedPeer) Commit(context.Context, *pb.CommitRequest) (*pb.CommitResponse, error) {
	return nil, errors.New("scripted peer does not commit")
}
func (p *scriptedPeer) Contribute(_ context.Context, req *pb.ContributeRequest) (*pb.ContributeResponse, error) {
	p.got = append(p.got, req)
	return p.reply(req)
}

type netReplyKind struct {
	Name string
	// Make builds the reply for threshold thr addressed to requester id; it returns the reply, the model's
	// view of it (nil = the reply cannot even be decoded, or is an error: the swap fails before any check),
	// and whether the swap must succeed.
	Make func(thr int, id uint64) (*pb.ContributeResponse, error, string, bool)
}

func netReplyKinds() []netReplyKind {
	mk := func(thr int, id uint64, fault string) (*pb.ContributeResponse, string) {
		// the peer's polynomial is the harness's: its numbers are known
		share, vv := harnessContributionKnown(thr, id, fault)
		res := &pb.ContributeResponse{Secret: share.sk.Serialize()}
		var zs []string
		for i := range vv.pks {
			res.VerificationVector = append(res.VerificationVector, vv.pks[i].Serialize())
			zs = append(zs, vv.logs[i].String())
		}
		return res, fmt.Sprintf("(%s, [%s])", share.log.String(), strings.Join(zs, "; "))
	}
	return []netReplyKind{
		{"valid", func(thr int, id uint64) (*pb.ContributeResponse, error, string, bool) {
			r, m := mk(thr, id, "")
			return r, nil, m, true
		}},
		{"share replaced", func(thr int, id uint64) (*pb.ContributeResponse, error, string, bool) {
			r, m := mk(thr, id, "badshare")
			return r, nil, m, false
		}},
		{"vector one entry short", func(thr int, id uint64) (*pb.ContributeResponse, error, string, bool) {
			r, m := mk(thr, id, "shortvvec")
			return r, nil, m, false
		}},
		{"vector one entry long, consistent", func(thr int, id uint64) (*pb.ContributeResponse, error, string, bool) {
			r, m := mk(thr, id, "longvvec")
			return r, nil, m, false
		}},
		{"empty vector", func(thr int, id uint64) (*pb.ContributeResponse, error, string, bool) {
			r, _ := mk(thr, id, "")
			r.VerificationVector = nil
			return r, nil, "(0, [])", false
		}},
		{"vector entry of 5 bytes", func(thr int, id uint64) (*pb.ContributeResponse, error, string, bool) {
			r, _ := mk(thr, id, "")
			r.VerificationVector[0] = []byte{1, 2, 3, 4, 5}
			return r, nil, "None", false
		}},
		{"share of 3 bytes", func(thr int, id uint64) (*pb.ContributeResponse, error, string, bool) {
			r, _ := mk(thr, id, "")
			r.Secret = []byte{1, 2, 3}
			return r, nil, "None", false
		}},
		{"empty reply", func(thr int, id uint64) (*pb.ContributeResponse, error, string, bool) {
			return &pb.ContributeResponse{}, nil, "None", false
		}},
		{"error reply", func(thr int, id uint64) (*pb.ContributeResponse, error, string, bool) {
			return nil, errors.New("scripted refusal"), "None", false
		}},
		{"three hundred vector entries", func(thr int, id uint64) (*pb.ContributeResponse, error, string, bool) {
			r, _ := mk(thr, id, "")
			for len(r.VerificationVector) < 300 {
				r.VerificationVector = append(r.VerificationVector, r.VerificationVector[0])
			}
			return r, nil, "None", false
		}},
	}
}

// realTransportSwaps runs the scripted-peer cases; it returns monitor failures, Coq case lines and a count.
func realTransportSwaps(ctx context.Context, checkLen bool, stats map[string]int) ([]string, []string, int, error) {
	ca, caKey, err := mintCA("verif cluster authority")
	if err != nil {
		return nil, nil, 0, err
	}
	caPEM := pemCert(ca.Raw)
	certFor := func(name string) ([]byte, []byte, error) {
		c, err := mintNode(name, ca, caKey)
		if err != nil {
			return nil, nil, err
		}
		return c.certPEM, c.keyPEM, nil
	}
	nameA, nameP := "127.0.0.1", "127.0.0.2"
	crtA, keyA, err := certFor(nameA)
	if err != nil {
		return nil, nil, 0, err
	}
	crtP, keyP, err := certFor(nameP)
	if err != nil {
		return nil, nil, 0, err
	}
	// the scripted peer
	peer := &scriptedPeer{}
	srvCert, err := tls.X509KeyPair(crtP, keyP)
	if err != nil {
		return nil, nil, 0, err
	}
	pool := x509.NewCertPool()
	pool.AppendCertsFromPEM(caPEM)
	lis, err := net.Listen("tcp", nameP+":0")
	if err != nil {
		return nil, nil, 0, err
	}
	portP := uint32(lis.Addr().(*net.TCPAddr).Port)
	srv := grpc.NewServer(grpc.Creds(credentials.NewTLS(&tls.Config{Certificates: []tls.Certificate{srvCert}, ClientCAs: pool, ClientAuth: tls.RequireAndVerifyClientCert, MinVersion: tls.VersionTLS13})))
	pb.RegisterDKGServer(srv, peer)
	go func() { _ = srv.Serve(lis) }()
	defer srv.Stop()

	snd, err := sendergrpc.New(ctx, sendergrpc.WithName(nameA), sendergrpc.WithServerCert(crtA), sendergrpc.WithServerKey(keyA), sendergrpc.WithCACert(caPEM))
	if err != nil {
		return nil, nil, 0, err
	}
	portA := freePort()
	peersMap := map[uint64]string{1: fmt.Sprintf("%s:%d", nameA, portA), 2: fmt.Sprintf("%s:%d", nameP, portP)}
	perms := map[string][]*checker.Permissions{"client1": {{Path: "Wallet 3", Operations: []string{"All"}}}}
	node, err := NewNode(ctx, NodeOpts{ID: 1, DistWallets: []string{"Wallet 3"}, Perms: perms, PeersMap: peersMap, Sender: snd, GenTimeout: time.Hour})
	if err != nil {
		return nil, nil, 0, err
	}
	defer node.Close(ctx)
	eps := []*core.Endpoint{{ID: 1, Name: nameA, Port: portA}, {ID: 2, Name: nameP, Port: portP}}
	var fails, lines []string
	n := 0
	for _, thr := range []int{2} {
		for ki, k := range netReplyKinds() {
			acct := fmt.Sprintf("Wallet 3/net%d_%d", thr, ki)
			if err := node.Process.OnPrepare(ctx, 2, acct, []byte("pass"), uint32(thr), eps); err != nil {
				return nil, nil, 0, err
			}
			res, rerr, model, mustSucceed := k.Make(thr, 1)
			peer.reply = func(*pb.ContributeRequest) (*pb.ContributeResponse, error) { return res, rerr }
			peer.got = nil
			var execErr error
			panicked := ""
			noteRequest("execute over the real gRPC sender, threshold %d, the peer's contribution reply: %s", thr, k.Name)
			func() {
				defer func() {
					if x := recover(); x != nil {
						panicked = fmt.Sprint(x)
						execErr = fmt.Errorf("panic: %v", x)
					}
				}()
				execErr = node.Process.OnExecute(ctx, 2, acct)
			}()
			requestDone()
			n++
			stats["real-transport."+k.Name]++
			what := fmt.Sprintf("execute over the real gRPC sender, threshold %d, the peer's contribution reply: %s", thr, k.Name)
			if panicked != "" {
				fails = append(fails, fmt.Sprintf("%s: the instance panicked: %s", what, panicked))
			}
			if len(peer.got) != 1 {
				fails = append(fails, fmt.Sprintf("%s: the peer received %d contribution requests", what, len(peer.got)))
			}
			if mustSucceed != (execErr == nil) {
				fails = append(fails, fmt.Sprintf("%s: execute returned %v", what, execErr))
			}
			// the swap is recorded only if it succeeded
			held := false
			for _, s := range node.Process.VerifSessions() {
				if s.Account == acct {
					for _, id := range s.Contributed {
						held = held || id == 2
					}
				}
			}
			if held != mustSucceed {
				fails = append(fails, fmt.Sprintf("%s: the peer's contribution is held afterwards: %v", what, held))
			}
			if model != "None" {
				lines = append(lines, fmt.Sprintf(" AR %s %s %d%%nat 1%%N 2%%N %s %s", coqN(9000+n), coqBool(checkLen), thr, model, coqBool(execErr == nil)))
			}
			_ = node.Process.OnAbort(ctx, 2, acct)
		}
	}
	// many failed swaps in a row must not use anything up: the next one is still answered
	rounds := 40
	peer.reply = func(*pb.ContributeRequest) (*pb.ContributeResponse, error) {
		return nil, errors.New("scripted refusal")
	}
	for i := 0; i <= rounds; i++ {
		acct := fmt.Sprintf("Wallet 3/rep%d", i)
		noteRequest("generation number %d in a row over the real gRPC sender whose peer refuses the contribution (prepare, execute, abort)", i+1)
		done := make(chan error, 1)
		go func() {
			if err := node.Process.OnPrepare(ctx, 2, acct, []byte("pass"), 2, eps); err != nil {
				done <- err
				return
			}
			_ = node.Process.OnExecute(ctx, 2, acct)
			done <- node.Process.OnAbort(ctx, 2, acct)
		}()
		select {
		case <-done:
			requestDone()
			stats["real-transport.repeated-failures"]++
		case <-time.After(20 * time.Second):
			fails = append(fails, fmt.Sprintf("after %d failed swaps over the real gRPC sender the next generation was never answered (20 s): the instance stopped serving key-generation requests", i))
			return fails, lines, n, nil
		}
	}
	return fails, lines, n, nil
}

type knownShare struct {
	sk  bls.SecretKey
	log *big.Int
}

type knownVec struct {
	pks  []bls.PublicKey
	logs []*big.Int
}

// harnessContributionKnown deals a polynomial whose coefficients the harness knows as numbers.
func harnessContributionKnown(thr int, id uint64, fault string) (knownShare, knownVec) {
	n := thr
	switch fault {
	case "longvvec":
		n = thr + 1
	case "shortvvec":
		n = thr - 1
		if n < 1 {
			n = 1
		}
	}
	cs := make([]*big.Int, n)
	for i := range cs {
		var sk bls.SecretKey
		sk.SetByCSPRNG()
		cs[i] = skInt(&sk)
	}
	share := evalPoly(cs, idInt(id))
	if fault == "badshare" {
		share = new(big.Int).Add(share, big.NewInt(777))
		share.Mod(share, frOrder)
	}
	v := knownVec{}
	for _, c := range cs {
		v.pks = append(v.pks, pkOfInt(c))
		v.logs = append(v.logs, c)
	}
	return knownShare{sk: skFromInt(share), log: share}, v
}

type nodeCert struct{ certPEM, keyPEM []byte }

// mintNode issues a certificate usable as server and as client for a node known by name (an IP literal).
func mintNode(name string, ca *x509.Certificate, caKey *rsa.PrivateKey) (*nodeCert, error) {
	key, err := rsa.GenerateKey(rand.Reader, 2048)
	if err != nil {
		return nil, err
	}
	tmpl := &x509.Certificate{SerialNumber: big.NewInt(time.Now().UnixNano()), Subject: pkix.Name{CommonName: name},
		NotBefore: time.Now().Add(-time.Hour), NotAfter: time.Now().Add(24 * time.Hour),
		KeyUsage: x509.KeyUsageDigitalSignature | x509.KeyUsageKeyEncipherment, ExtKeyUsage: []x509.ExtKeyUsage{x509.ExtKeyUsageClientAuth, x509.ExtKeyUsageServerAuth}, BasicConstraintsValid: true}
	if ip := net.ParseIP(name); ip != nil {
		tmpl.IPAddresses = []net.IP{ip}
	} else {
		tmpl.DNSNames = []string{name}
	}
	der, err := x509.CreateCertificate(rand.Reader, tmpl, ca, &key.PublicKey, caKey)
	if err != nil {
		return nil, err
	}
	return &nodeCert{certPEM: pemCert(der), keyPEM: pemKey(key)}, nil
}

// realTransportPrepare: what a participant is told about a generation, sent through the real gRPC sender
// (services/sender/grpc) to a scripted peer: account, threshold and the participant list - identifiers, names and
// ports - must arrive as they were handed to the sender (every participant stores that list with its account).
func realTransportPrepare(ctx context.Context, stats map[string]int) ([]string, error) {
	ca, caKey, err := mintCA("verif cluster authority")
	if err != nil {
		return nil, err
	}
	caPEM := pemCert(ca.Raw)
	nameA, nameP := "127.0.0.1", "127.0.0.2"
	cA, err := mintNode(nameA, ca, caKey)
	if err != nil {
		return nil, err
	}
	cP, err := mintNode(nameP, ca, caKey)
	if err != nil {
		return nil, err
	}
	peer := &scriptedPeer{}
	srvCert, err := tls.X509KeyPair(cP.certPEM, cP.keyPEM)
	if err != nil {
		return nil, err
	}
	pool := x509.NewCertPool()
	pool.AppendCertsFromPEM(caPEM)
	lis, err := net.Listen("tcp", nameP+":0")
	if err != nil {
		return nil, err
	}
	portP := uint32(lis.Addr().(*net.TCPAddr).Port)
	srv := grpc.NewServer(grpc.Creds(credentials.NewTLS(&tls.Config{Certificates: []tls.Certificate{srvCert}, ClientCAs: pool, ClientAuth: tls.RequireAndVerifyClientCert, MinVersion: tls.VersionTLS13})))
	pb.RegisterDKGServer(srv, peer)
	go func() { _ = srv.Serve(lis) }()
	defer srv.Stop()
	snd, err := sendergrpc.New(ctx, sendergrpc.WithName(nameA), sendergrpc.WithServerCert(cA.certPEM), sendergrpc.WithServerKey(cA.keyPEM), sendergrpc.WithCACert(caPEM))
	if err != nil {
		return nil, err
	}
	var fails []string
	for round, parts := range [][]*core.Endpoint{
		{{ID: 1, Name: nameA, Port: 14001}, {ID: 2, Name: nameP, Port: portP}, {ID: 3, Name: "127.0.0.3", Port: 14003}},
		{{ID: 7, Name: "127.0.0.3", Port: 9}, {ID: 2, Name: nameP, Port: portP}, {ID: 1 << 40, Name: nameA, Port: 65535}, {ID: 4, Name: "signer-test04", Port: 14004}},
	} {
		acct := fmt.Sprintf("Wallet 3/told%d", round)
		thr := uint32(2 + round)
		noteRequest("Prepare(%q, threshold %d, %d participants) through the real gRPC sender to a scripted peer", acct, thr, len(parts))
		err := snd.Prepare(ctx, parts[1], acct, []byte("pass"), thr, parts)
		requestDone()
		stats["real-transport.prepare"]++
		if err != nil || len(peer.prepared) != round+1 {
			fails = append(fails, fmt.Sprintf("Prepare through the real gRPC sender: %v (%d requests arrived)", err, len(peer.prepared)))
			continue
		}
		got := peer.prepared[round]
		var want, have []string
		for _, p := range parts {
			want = append(want, fmt.Sprintf("%d=%s:%d", p.ID, p.Name, p.Port))
		}
		for _, p := range got.GetParticipants() {
			have = append(have, fmt.Sprintf("%d=%s:%d", p.GetId(), p.GetName(), p.GetPort()))
		}
		if got.GetAccount() != acct || got.GetThreshold() != thr || string(got.GetPassphrase()) != "pass" || fmt.Sprint(want) != fmt.Sprint(have) {
			fails = append(fails, fmt.Sprintf("Prepare through the real gRPC sender: handed over account %q threshold %d participants %v; the peer received account %q threshold %d participants %v - every participant would store another participant list with the account",
				acct, thr, want, got.GetAccount(), got.GetThreshold(), have))
		}
	}
	return fails, nil
}
